/-
Executable model of the service module (modules/service: keeper/{binding,definition,fees,
invocation,state_change,oracle_price,msg_server}.go, abci.go and the ValidateBasic rules of
types/{msgs,validation,binding}.go).

What is *not* modelled and is supplied per operation line instead (DESIGN.md C07/C08):
JSON-schema validation of schemas, inputs, outputs, results and options (a Boolean per
payload), and the exchange-rate oracle (a rate table, `rates`).  Amounts are natural
numbers; the 256-bit / 315-bit range checks of `sdkmath.Int` / `LegacyDec` are not modelled
(the correspondence universe keeps every amount below 2^100, where they cannot trigger).

Every handler follows the Go code as it is, including the ledger defect F-svc-1
(`FilterServiceProviders` sums the undiscounted price, `buildRequest` records the
discounted one; pinned by the repository's own test suite, hence not repaired).  The former
defects F-svc-2..5 are repaired in /repo (commits 5529ca8, f0f40e8, 3670fd1, 1a7f3af) and the
model follows the repaired code.  A rejected message leaves the state unchanged.
-/
import Irismod.Sdk.Map
import Irismod.Sdk.Dec18
import Irismod.Sdk.Bank
import Irismod.Sdk.Sha256
import Irismod.Sdk.Line

namespace Irismod.Service
open Irismod Irismod.Sdk

abbrev CtxId := String
abbrev Coins := List (Denom × Nat)

/-- a request id, kept structured: `GenerateRequestID` concatenates exactly these four fields
(context id, batch counter, request height, index in the batch) in fixed width -/
structure ReqId where
  ctx   : CtxId
  batch : Nat
  h     : Int
  idx   : Nat
  deriving DecidableEq, Repr, Inhabited

/-- module accounts (symbolic names shared with the harness) -/
def depAcc : Addr := "Mdep"
def reqAcc : Addr := "Mreq"
def fcAcc : Addr := "Mfc"
def blockedAcc : Addr := "Mblk"

inductive CtxState where
  | running | paused | completed
  deriving DecidableEq, Repr, Inhabited

inductive BatchState where
  | running | completed
  deriving DecidableEq, Repr, Inhabited

structure Pricing where
  denom  : Denom := ""
  amount : Nat := 0
  ptime  : List (Int × Int × Dec) := []      -- start, end, discount
  pvol   : List (Nat × Dec) := []            -- volume, discount
  deriving DecidableEq, Repr, Inhabited

structure Binding where
  owner        : Addr
  deposit      : Nat                          -- amount of the base denom (validateDeposit admits nothing else)
  pricing      : Pricing
  qos          : Nat
  available    : Bool
  disabledTime : Int
  deriving DecidableEq, Repr, Inhabited

structure Ctx where
  svc           : String := ""
  providers     : List Addr := []
  consumer      : Addr := ""
  cap           : Nat := 0                    -- service fee cap, base denom (validateServiceFeeCap)
  timeout       : Int := 0
  repeated      : Bool := false
  freq          : Nat := 0
  total         : Int := 0
  batchCounter  : Nat := 0
  batchReqCount : Nat := 0
  batchRespCount : Nat := 0
  batchRespThreshold : Nat := 0
  batchState    : BatchState := .running     -- zero value of the protobuf enum
  state         : CtxState := .running
  respThreshold : Nat := 0
  moduleName    : String := ""
  deriving DecidableEq, Repr, Inhabited

structure Req where
  ctx      : CtxId
  batch    : Nat
  provider : Addr
  feeDenom : Denom
  feeAmt   : Nat
  reqH     : Int
  expH     : Int
  deriving DecidableEq, Repr, Inhabited

structure Resp where
  provider : Addr
  consumer : Addr
  hasOut   : Bool
  ctx      : CtxId
  batch    : Nat
  deriving DecidableEq, Repr, Inhabited

structure Params where
  maxTimeout  : Int := 100
  minDepMult  : Nat := 1000
  minDeposit  : Coins := []
  tax         : Dec := ⟨0⟩
  slash       : Dec := ⟨0⟩
  complaint   : Int := 0                      -- seconds
  arbitration : Int := 0                      -- seconds
  base        : Denom := "stake"
  restricted  : Bool := false
  deriving Repr, Inhabited

/-- invocations of the registered module callback -/
inductive CbEvent where
  | resp (id : CtxId) (batch : Nat) (nOut : Nat) (err : Bool)
  | state (id : CtxId) (cause : String)
  deriving DecidableEq, Repr, Inhabited

structure State where
  params   : Params := {}
  height   : Int := 0
  time     : Int := 0
  idx      : Nat := 0
  supplied : List Denom := []
  rates    : AMap Denom (String × Dec) := []
  defs     : AMap String Addr := []
  binds    : AMap (String × Addr) Binding := []
  owners   : AMap Addr Addr := []              -- provider ↦ owner
  ownerProv : List (Addr × Addr) := []         -- (owner, provider)
  wd       : AMap Addr Addr := []
  ctxs     : AMap CtxId Ctx := []
  reqs     : AMap ReqId Req := []
  active   : List ReqId := []
  resps    : AMap ReqId Resp := []
  vols     : AMap (Addr × String × Addr) Nat := []
  earned   : AMap (Addr × Denom) Nat := []     -- per (provider, denom) store entries
  oearned  : AMap (Addr × Denom) Nat := []     -- per (owner, denom) store entries
  newQ     : List (Int × CtxId) := []
  newH     : AMap CtxId Int := []
  expQ     : List (Int × CtxId) := []
  expH     : AMap CtxId Int := []
  bank     : Bank := {}
  cb       : List CbEvent := []                -- callbacks fired during the current operation
  deriving Repr, Inhabited

inductive Err where
  | reject (why : String)
  | panic (why : String)
  deriving Repr, Inhabited

abbrev R := Except Err State

def rej (why : String) : R := .error (.reject why)

/-! ### decimals (LegacyDec without range checks) -/

def decOne : Dec := ⟨precision⟩
def decOfNat (n : Nat) : Dec := ⟨(n : Int) * precision⟩
/-- `Mul`: round half-even -/
def mulDec (a b : Dec) : Dec := ⟨chopRound (a.raw * b.raw)⟩
/-- `TruncateInt` of a non-negative decimal -/
def truncNat (a : Dec) : Nat := (chopTrunc a.raw).toNat

/-- `LegacyNewDecFromInt(n).Mul(r).TruncateInt()` -/
def mulTrunc (n : Nat) (r : Dec) : Nat := truncNat (mulDec (decOfNat n) r)

/-! ### coins -/

def Coins.amountOf (c : Coins) (d : Denom) : Nat := ((c.find? (fun e => e.1 = d)).map (·.2)).getD 0

def isAlpha (c : Char) : Bool := ('a' ≤ c && c ≤ 'z') || ('A' ≤ c && c ≤ 'Z')
def isDigit (c : Char) : Bool := '0' ≤ c && c ≤ '9'

/-- `sdk.ValidateDenom`: `[a-zA-Z][a-zA-Z0-9/:._-]{2,127}` -/
def validDenom (d : Denom) : Bool :=
  match d.toList with
  | [] => false
  | c :: rest =>
    isAlpha c && 2 ≤ rest.length && rest.length ≤ 127 &&
    rest.all (fun x => isAlpha x || isDigit x || x = '/' || x = ':' || x = '.' || x = '_' || x = '-')

/-- the pricing schema's price pattern `^\d+[a-zA-Z][a-zA-Z0-9/]{2,127}$` (denom part) -/
def validPriceDenom (d : Denom) : Bool :=
  match d.toList with
  | [] => false
  | c :: rest =>
    isAlpha c && 2 ≤ rest.length && rest.length ≤ 127 && rest.all (fun x => isAlpha x || isDigit x || x = '/')

def sortedStrict : Coins → Bool
  | [] => true
  | [_] => true
  | a :: b :: t => decide (a.1 < b.1) && sortedStrict (b :: t)

/-- `Coins.Validate` (`IsValid`): valid denoms, positive amounts, strictly ascending -/
def coinsValid (c : Coins) : Bool :=
  c.all (fun e => validDenom e.1 && decide (0 < e.2)) && sortedStrict c

/-! ### names, addresses, ids -/

def knownAddrs : List Addr :=
  ["A0", "A1", "A2", "A3", "A4", "A5", "A6", "A7", "A8", "A9", depAcc, reqAcc, fcAcc, blockedAcc]

/-- a string the harness maps to a well-formed bech32 address -/
def validAddr (a : Addr) : Bool := knownAddrs.contains a

/-- `^[a-zA-Z][a-zA-Z0-9_-]*$`, at most 70 characters -/
def validSvcName (n : String) : Bool :=
  match n.toList with
  | [] => false
  | c :: rest => isAlpha c && rest.length < 70 && rest.all (fun x => isAlpha x || isDigit x || x = '_' || x = '-')

def moduleSvcName : String := "oracle-price"
def cbModule : String := "verifcb"

def isHex (s : String) : Bool := s.toList.all (fun c => (Line.hexVal c).isSome)

def hexN (width : Nat) (n : Nat) : String :=
  let ds := (Nat.toDigits 16 n)
  String.ofList (List.replicate (width - ds.length) '0' ++ ds)

/-- `GenerateRequestContextID(tmhash.Sum(txBytes), index)` -/
def ctxIdOf (tx : String) (idx : Nat) : CtxId :=
  Line.hexOfBytes (Sha256.sum tx.toUTF8) ++ hexN 16 idx

/-- `GenerateRequestID` -/
def reqIdOf (id : CtxId) (batch : Nat) (h : Int) (i : Nat) : ReqId := ⟨id, batch, h, i⟩

/-- the 58-byte request id in hex, as the store keys and messages carry it -/
def ReqId.toHex (r : ReqId) : String := r.ctx ++ hexN 16 r.batch ++ hexN 16 r.h.toNat ++ hexN 4 r.idx

/-- the requests / responses / active markers of one batch share the key prefix (context id, batch) -/
def ReqId.inBatch (r : ReqId) (id : CtxId) (batch : Nat) : Bool := r.ctx = id && r.batch = batch

/-- store iteration order inside one batch prefix: request height, then index -/
def ReqId.le (a b : ReqId) : Bool := decide (a.h < b.h) || (decide (a.h = b.h) && decide (a.idx ≤ b.idx))

def insertBy {α} (le : α → α → Bool) (x : α) : List α → List α
  | [] => [x]
  | h :: t => if le x h then x :: h :: t else h :: insertBy le x t

/-- insertion sort (kept elementary so that membership lemmas are one-liners) -/
def isort {α} (le : α → α → Bool) (l : List α) : List α := l.foldr (insertBy le) []

def zeroTime : Int := -62135596800

/-! ### queues (sets of `(height, context)` with the per-context height marker) -/

def qInsert (q : List (Int × CtxId)) (e : Int × CtxId) : List (Int × CtxId) :=
  if q.contains e then q else q ++ [e]

def addNew (s : State) (id : CtxId) (h : Int) : State :=
  { s with newQ := qInsert s.newQ (h, id), newH := AMap.set s.newH id h }

def delNew (s : State) (id : CtxId) (h : Int) : State :=
  { s with newQ := s.newQ.filter (· ≠ (h, id)), newH := AMap.erase s.newH id }

def addExp (s : State) (id : CtxId) (h : Int) : State :=
  { s with expQ := qInsert s.expQ (h, id), expH := AMap.set s.expH id h }

def delExp (s : State) (id : CtxId) (h : Int) : State :=
  { s with expQ := s.expQ.filter (· ≠ (h, id)), expH := AMap.erase s.expH id }

/-! ### pricing -/

/-- `GetDiscountByTime` -/
def discT (p : Pricing) (t : Int) : Dec :=
  match p.ptime.find? (fun e => decide (e.1 ≤ t) && decide (t < e.2.1)) with
  | some e => e.2.2
  | none => decOne

def discVAux : List (Nat × Dec) → Option Dec → Nat → Dec
  | [], _, _ => decOne
  | (v, d) :: rest, prev, vol =>
    if vol < v then prev.getD decOne
    else if rest.isEmpty then d
    else discVAux rest (some d) vol

/-- `GetDiscountByVolume` -/
def discV (p : Pricing) (vol : Nat) : Dec := discVAux p.pvol none vol

def volOf (s : State) (consumer : Addr) (svc : String) (prov : Addr) : Nat :=
  AMap.getD s.vols (consumer, svc, prov) 0

/-- `GetPrice`: the discounted fee recorded on a request -/
def feeOf (s : State) (consumer : Addr) (svc : String) (prov : Addr) (p : Pricing) : Nat :=
  truncNat (mulDec (mulDec (decOfNat p.amount) (discT p s.time)) (discV p (volOf s consumer svc prov)))

/-- `GetExchangeRate` through the (stubbed) oracle module service; `none` = error -/
def exchangeRate (s : State) (d : Denom) : Option Dec :=
  match AMap.get? s.rates d with
  | none => none
  | some (_, r) => if r.raw = 0 then none else some r

/-- `GetExchangedPrice`: discounted price in the base denom; `none` = no exchange rate -/
def exchangedPrice (s : State) (consumer : Addr) (svc : String) (prov : Addr) (p : Pricing) : Option Nat :=
  let price := mulDec (mulDec (decOfNat p.amount) (discT p s.time)) (discV p (volOf s consumer svc prov))
  if s.params.base ≠ p.denom then
    match exchangeRate s p.denom with
    | none => none
    | some r => some (truncNat (mulDec price r))
  else some (truncNat price)

def singleBase (s : State) (n : Nat) : Coins := if n = 0 then [] else [(s.params.base, n)]

/-- `GetMinDeposit`; `none` = error (no exchange rate) -/
def minDeposit (s : State) (p : Pricing) : Option Coins :=
  let bp : Option Nat :=
    if p.denom ≠ s.params.base ∧ p.amount ≠ 0 then
      match exchangeRate s p.denom with
      | none => none
      | some r => let x := mulTrunc p.amount r; some (if x = 0 then 1 else x)
    else some p.amount
  match bp with
  | none => none
  | some b =>
    let md := b * s.params.minDepMult
    if md ≠ 0 ∧ md < Coins.amountOf s.params.minDeposit s.params.base then some s.params.minDeposit
    else some (singleBase s md)

/-- `deposit.IsAllGTE(minDeposit)` for a deposit of `dep` base coins -/
def depositGTE (s : State) (dep : Nat) (min : Coins) : Bool :=
  if min.isEmpty then true
  else if dep = 0 then false
  else min.all (fun e => decide (e.2 ≤ (if e.1 = s.params.base then dep else 0)))

/-! ### pricing documents as the op line carries them -/

structure PricingIn where
  jsonOk : Bool
  amount : Nat
  denom  : Denom
  ptime  : List (Int × Int × String)
  pvol   : List (Nat × String)
  deriving Repr, Inhabited

/-- discount pattern `^0\.\d*[1-9]$` with at most 18 decimals -/
def parseDiscount (d : String) : Option Dec :=
  match d.toList with
  | '0' :: '.' :: frac =>
    if frac.isEmpty ∨ 18 < frac.length ∨ !(frac.all isDigit) then none
    else if frac.getLast? = some '0' then none
    else
      let n := frac.foldl (fun acc c => acc * 10 + (c.toNat - 48)) 0
      some ⟨((n * 10 ^ (18 - frac.length) : Nat) : Int)⟩
  | _ => none

def nodup {α} [DecidableEq α] : List α → Bool
  | [] => true
  | a :: t => !(t.contains a) && nodup t

def timesOk : List (Int × Int × Dec) → Option Int → Bool
  | [], _ => true
  | (st, en, _) :: rest, prevEnd =>
    decide (st < en) && (match prevEnd with | none => true | some pe => decide (pe ≤ st)) && timesOk rest (some en)

def volsOk : List (Nat × Dec) → Option Nat → Bool
  | [], _ => true
  | (v, _) :: rest, prev =>
    (match prev with | none => true | some pv => decide (pv ≤ v)) && volsOk rest (some v)

def mapM' {α β} (f : α → Option β) : List α → Option (List β)
  | [] => some []
  | a :: t => match f a with
    | none => none
    | some b => match mapM' f t with
      | none => none
      | some bs => some (b :: bs)

/-- `ValidatePricing` (schema + `ParsePricing` + `CheckPricing`) -/
def parsePricing (p : PricingIn) : Option Pricing :=
  if !p.jsonOk then none else
  if !(validPriceDenom p.denom) then none else
  if 5 < p.ptime.length ∨ 5 < p.pvol.length then none else
  if !(nodup p.ptime) ∨ !(nodup p.pvol) then none else
  match mapM' (fun e => (parseDiscount e.2.2).map (fun d => (e.1, e.2.1, d))) p.ptime with
  | none => none
  | some pt =>
    match mapM' (fun e => if e.1 = 0 then none else (parseDiscount e.2).map (fun d => (e.1, d))) p.pvol with
    | none => none
    | some pv =>
      if timesOk pt none && volsOk pv none then
        some { denom := p.denom, amount := p.amount, ptime := pt, pvol := pv }
      else none

/-- keeper `ParsePricing`: the above plus `validatePricing` -/
def keeperPricing (s : State) (p : PricingIn) : Option Pricing :=
  match parsePricing p with
  | none => none
  | some pr =>
    if s.params.restricted ∧ pr.denom ≠ s.params.base then none
    else if !(s.supplied.contains pr.denom) then none
    else some pr

/-! ### definitions and bindings -/

def stepDefine (s : State) (sender : Addr) (name : String) (schOk : Bool) : R :=
  if !(validAddr sender) then rej "author" else
  if !(validSvcName name) then rej "name" else
  if !schOk then rej "schemas" else
  if AMap.contains s.defs name then rej "exists" else
  .ok { s with defs := AMap.set s.defs name sender }

/-- `validateDeposit`: exactly one coin, in the base denom -/
def depositOf (s : State) (dep : Coins) : Option Nat :=
  match dep with
  | [(d, n)] => if d = s.params.base then some n else none
  | _ => none

def sendBase (s : State) (src dst : Addr) (n : Nat) : Option Bank := Bank.send s.bank src dst s.params.base n

/-- the provider already has a different owner -/
def ownedByOther (s : State) (provider owner : Addr) : Bool :=
  match AMap.get? s.owners provider with
  | some o => decide (o ≠ owner)
  | none => false

/-- `GetMinDeposit` fails or the deposit is below it -/
def belowMin (s : State) (pr : Pricing) (dep : Nat) : Bool :=
  match minDeposit s pr with
  | none => true
  | some md => !(depositGTE s dep md)

/-- `MsgBindService.ValidateBasic` -/
def vbBind (owner provider : Addr) (svc : String) (dep : Coins) (qos : Nat) (pin : PricingIn) (optsOk : Bool) : Bool :=
  validAddr provider && validAddr owner && validSvcName svc && coinsValid dep && decide (qos ≠ 0) && optsOk &&
  (parsePricing pin).isSome

def bindState (s : State) (owner provider : Addr) (svc : String) (d qos : Nat) (pr : Pricing) (bank : Bank) : State :=
  { s with bank := bank,
           binds := AMap.set s.binds (svc, provider)
             { owner := owner, deposit := d, pricing := pr, qos := qos, available := true, disabledTime := zeroTime },
           owners := if AMap.contains s.owners provider then s.owners else AMap.set s.owners provider owner,
           ownerProv := if AMap.contains s.owners provider then s.ownerProv else s.ownerProv ++ [(owner, provider)] }

/-- `AddServiceBinding` -/
def keeperBind (s : State) (owner provider : Addr) (svc : String) (dep : Coins) (qos : Nat) (pin : PricingIn) : R :=
  if !(AMap.contains s.defs svc) then rej "unknown definition" else
  if AMap.contains s.binds (svc, provider) then rej "binding exists" else
  if ownedByOther s provider owner then rej "owner" else
  match depositOf s dep with
  | none => rej "deposit denom"
  | some d =>
    if s.params.maxTimeout < (qos : Int) then rej "qos max" else
    match keeperPricing s pin with
    | none => rej "pricing"
    | some pr =>
      if belowMin s pr d then rej "min deposit" else
      match sendBase s owner depAcc d with
      | none => rej "funds"
      | some bank => .ok (bindState s owner provider svc d qos pr bank)

def stepBind (s : State) (owner provider : Addr) (svc : String) (dep : Coins) (qos : Nat)
    (pin : PricingIn) (optsOk : Bool) : R :=
  if !(vbBind owner provider svc dep qos pin optsOk) then rej "validate basic" else
  if svc = moduleSvcName then rej "module service" else
  keeperBind s owner provider svc dep qos pin

/-- `MsgUpdateServiceBinding.ValidateBasic` -/
def vbUpdateBinding (owner provider : Addr) (svc : String) (dep : Coins) (pin : Option PricingIn) (opts : Option Bool) : Bool :=
  validAddr provider && validAddr owner && validSvcName svc && (dep.isEmpty || coinsValid dep) && (opts != some false) &&
  (match pin with | some p => (parsePricing p).isSome | none => true)

/-- the deposit a message adds: none given = 0, otherwise `validateDeposit` -/
def addedDeposit (s : State) (dep : Coins) : Option Nat := if dep.isEmpty then some 0 else depositOf s dep

/-- moving an optional top-up into the deposit escrow -/
def topUp (s : State) (owner : Addr) (dep : Coins) (d : Nat) : Option Bank :=
  if dep.isEmpty then some s.bank else sendBase s owner depAcc d

def updatedBinding (b : Binding) (qos d : Nat) (pr : Pricing) : Binding :=
  { b with qos := if qos ≠ 0 then qos else b.qos, deposit := b.deposit + d, pricing := pr }

/-- `UpdateServiceBinding`; `dep = []`, `qos = 0`, `pin = none`, `opts = none` mean "unchanged" -/
def keeperUpdateBinding (s : State) (owner provider : Addr) (svc : String) (dep : Coins) (qos : Nat)
    (pin : Option PricingIn) (opts : Option Bool) : R :=
  match AMap.get? s.binds (svc, provider) with
  | none => rej "unknown binding"
  | some b =>
    if b.owner ≠ owner then rej "owner" else
    if qos ≠ 0 ∧ s.params.maxTimeout < (qos : Int) then rej "qos max" else
    match addedDeposit s dep with
    | none => rej "deposit denom"
    | some d =>
      match (match pin with | some p => keeperPricing s p | none => some b.pricing) with
      | none => rej "pricing"
      | some pr =>
        if b.available ∧ (qos ≠ 0 ∨ !(dep.isEmpty) ∨ pin.isSome ∨ opts.isSome) ∧ belowMin s pr (b.deposit + d) then
          rej "insufficient deposit"
        else
          match topUp s owner dep d with
          | none => rej "funds"
          | some bank =>
            .ok { s with bank := bank,
                         binds := if qos ≠ 0 ∨ !(dep.isEmpty) ∨ pin.isSome ∨ opts.isSome
                                  then AMap.set s.binds (svc, provider) (updatedBinding b qos d pr) else s.binds }

def stepUpdateBinding (s : State) (owner provider : Addr) (svc : String) (dep : Coins) (qos : Nat)
    (pin : Option PricingIn) (opts : Option Bool) : R :=
  if !(vbUpdateBinding owner provider svc dep pin opts) then rej "validate basic" else
  keeperUpdateBinding s owner provider svc dep qos pin opts

def stepSetWithdraw (s : State) (owner addr : Addr) : R :=
  if !(validAddr owner) ∨ !(validAddr addr) then rej "address" else
  if addr = blockedAcc then rej "blocked" else
  .ok { s with wd := AMap.set s.wd owner addr }

def vbBinding (owner provider : Addr) (svc : String) : Bool := validAddr provider && validAddr owner && validSvcName svc

def stepDisable (s : State) (owner provider : Addr) (svc : String) : R :=
  if !(vbBinding owner provider svc) then rej "validate basic" else
  match AMap.get? s.binds (svc, provider) with
  | none => rej "unknown binding"
  | some b =>
    if b.owner ≠ owner then rej "owner" else
    if !b.available then rej "unavailable" else
    .ok { s with binds := AMap.set s.binds (svc, provider) { b with available := false, disabledTime := s.time } }

/-- `EnableServiceBinding` -/
def keeperEnable (s : State) (owner provider : Addr) (svc : String) (dep : Coins) : R :=
  match AMap.get? s.binds (svc, provider) with
  | none => rej "unknown binding"
  | some b =>
    if b.owner ≠ owner then rej "owner" else
    if b.available then rej "available" else
    match addedDeposit s dep with
    | none => rej "deposit denom"
    | some d =>
      if belowMin s b.pricing (b.deposit + d) then rej "min deposit" else
      match topUp s owner dep d with
      | none => rej "funds"
      | some bank =>
        .ok { s with bank := bank,
                     binds := AMap.set s.binds (svc, provider)
                       { b with deposit := b.deposit + d, available := true, disabledTime := zeroTime } }

def stepEnable (s : State) (owner provider : Addr) (svc : String) (dep : Coins) : R :=
  if !(vbBinding owner provider svc) ∨ !(dep.isEmpty || coinsValid dep) then rej "validate basic" else
  keeperEnable s owner provider svc dep

/-- `RefundDeposit` -/
def keeperRefundDeposit (s : State) (owner provider : Addr) (svc : String) : R :=
  match AMap.get? s.binds (svc, provider) with
  | none => rej "unknown binding"
  | some b =>
    if b.owner ≠ owner then rej "owner" else
    if b.available then rej "available" else
    if b.deposit = 0 then rej "zero deposit" else
    if s.time < b.disabledTime + s.params.arbitration + s.params.complaint then rej "too early" else
    match sendBase s depAcc b.owner b.deposit with
    | none => rej "funds"
    | some bank => .ok { s with bank := bank, binds := AMap.set s.binds (svc, provider) { b with deposit := 0 } }

def stepRefundDeposit (s : State) (owner provider : Addr) (svc : String) : R :=
  if !(vbBinding owner provider svc) then rej "validate basic" else
  keeperRefundDeposit s owner provider svc

/-! ### request contexts -/

def getCtx (s : State) (id : CtxId) : Ctx := (AMap.get? s.ctxs id).getD {}

def setCtx (s : State) (id : CtxId) (c : Ctx) : State := { s with ctxs := AMap.set s.ctxs id c }

/-- `ValidateRequest` (shared by `MsgCallService.ValidateBasic` and the module path) -/
def validRequest (svc : String) (cap : Coins) (providers : List Addr) (inputOk : Bool) (timeout : Int)
    (repeated : Bool) (freq : Nat) (total : Int) : Bool :=
  validSvcName svc && coinsValid cap && !(providers.isEmpty) && decide (providers.length ≤ 10) && nodup providers &&
  inputOk && decide (0 < timeout) &&
  (!repeated || (!(decide (0 < freq) && decide ((freq : Int) < timeout)) && !(decide (total < -1) || decide (total = 0))))

/-- the checks `CreateRequestContext` makes only for module-owned contexts -/
def moduleCtxOk (moduleName : String) (svc : String) (cap : Coins) (providers : List Addr) (inputOk : Bool) (timeout : Int)
    (repeated : Bool) (freq : Nat) (total : Int) (thr : Nat) : Bool :=
  moduleName = "" ||
  (moduleName = cbModule && validRequest svc cap providers inputOk timeout repeated freq total &&
   decide (1 ≤ thr) && decide (thr ≤ providers.length))

def newCtx (svc : String) (providers : List Addr) (consumer : Addr) (c : Nat) (timeout : Int) (repeated : Bool)
    (freq : Nat) (total : Int) (st : CtxState) (thr : Nat) (moduleName : String) : Ctx :=
  { svc := svc, providers := providers, consumer := consumer, cap := c, timeout := timeout, repeated := repeated,
    freq := if repeated then (if freq = 0 then timeout.toNat else freq) else 0,
    total := if repeated then total else 0,
    batchCounter := 0, batchReqCount := 0, batchRespCount := 0, batchRespThreshold := thr,
    batchState := .completed, state := st, respThreshold := thr, moduleName := moduleName }

/-- store the new context, bump the per-block index, queue the first batch if running -/
def createState (s : State) (newId : CtxId) (rc : Ctx) : State :=
  if rc.state = .running then addNew { setCtx s newId rc with idx := s.idx + 1 } newId s.height
  else { setCtx s newId rc with idx := s.idx + 1 }

/-- `CreateRequestContext` after the message-level checks -/
def createCtx (s : State) (newId : CtxId) (svc : String) (providers : List Addr) (consumer : Addr) (inputOk : Bool)
    (cap : Coins) (timeout : Int) (repeated : Bool) (freq : Nat) (total : Int) (st : CtxState) (thr : Nat)
    (moduleName : String) : R :=
  if !(moduleCtxOk moduleName svc cap providers inputOk timeout repeated freq total thr) then rej "module request" else
  if !(AMap.contains s.defs svc) then rej "unknown definition" else
  if !inputOk then rej "input" else
  match depositOf s cap with
  | none => rej "fee cap"
  | some c =>
    if s.params.maxTimeout < timeout then rej "timeout" else
    .ok (createState s newId (newCtx svc providers consumer c timeout repeated freq total st thr moduleName))

def stepCall (s : State) (newId : CtxId) (consumer : Addr) (svc : String) (providers : List Addr) (cap : Coins)
    (timeout : Int) (repeated : Bool) (freq : Nat) (total : Int) (inputOk : Bool) : R :=
  if !(validAddr consumer) ∨ !(providers.all validAddr) then rej "address" else
  if !(validRequest svc cap providers inputOk timeout repeated freq total) then rej "request" else
  if svc = moduleSvcName then rej "module service (not modelled)" else
  createCtx s newId svc providers consumer inputOk cap timeout repeated freq total .running 0 ""

/-- `CheckAuthority` -/
def checkAuthority (s : State) (consumer : Addr) (id : CtxId) (checkModule : Bool) : Except Err Unit :=
  match AMap.get? s.ctxs id with
  | none => .error (.reject "unknown context")
  | some rc =>
    if consumer ≠ rc.consumer then .error (.reject "not authorized") else
    if checkModule ∧ rc.moduleName ≠ "" then .error (.reject "module context") else .ok ()

/-- the fee cap after an update: empty = keep, otherwise `validateServiceFeeCap` -/
def newCap (s : State) (rc : Ctx) (cap : Coins) : Option Nat := if cap.isEmpty then some rc.cap else depositOf s cap

/-- the authority check the keeper applies to module-owned contexts -/
def moduleAuth (s : State) (rc : Ctx) (consumer : Addr) (id : CtxId) : Except Err Unit :=
  if rc.moduleName ≠ "" then checkAuthority s consumer id false else .ok ()

def validCtxId (id : String) : Bool := id.length = 80 && isHex id

def keeperPause (s : State) (id : CtxId) (consumer : Addr) : R :=
  match AMap.get? s.ctxs id with
  | none => rej "unknown context"
  | some rc =>
    match moduleAuth s rc consumer id with
    | .error e => .error e
    | .ok _ =>
      if !rc.repeated then rej "non repeated" else
      if rc.state ≠ .running then rej "not running" else
      .ok (setCtx s id { rc with state := .paused })

def keeperStart (s : State) (id : CtxId) (consumer : Addr) : R :=
  match AMap.get? s.ctxs id with
  | none => rej "unknown context"
  | some rc =>
    match moduleAuth s rc consumer id with
    | .error e => .error e
    | .ok _ =>
      if rc.state ≠ .paused then rej "not paused" else
      if rc.repeated ∧ 0 ≤ rc.total ∧ rc.total ≤ (rc.batchCounter : Int) then rej "repeated total reached" else
      let s1 := setCtx s id { rc with state := .running }
      .ok (if !(AMap.contains s.expH id) ∧ !(AMap.contains s.newH id) then addNew s1 id s.height else s1)

def keeperKill (s : State) (id : CtxId) (consumer : Addr) : R :=
  match AMap.get? s.ctxs id with
  | none => rej "unknown context"
  | some rc =>
    match moduleAuth s rc consumer id with
    | .error e => .error e
    | .ok _ =>
      if !rc.repeated then rej "non repeated" else
      .ok (setCtx s id { rc with state := .completed })

/-- `ValidateRequestContextUpdating` -/
def validUpdate (providers : List Addr) (cap : Coins) (timeout : Int) (freq : Nat) (total : Int) : Bool :=
  decide (providers.length ≤ 10) && nodup providers && (cap.isEmpty || coinsValid cap) && decide (0 ≤ timeout) &&
  !(decide (timeout ≠ 0) && decide (freq ≠ 0) && decide ((freq : Int) < timeout)) && decide (-1 ≤ total)

/-- the threshold / provider part of `UpdateRequestContext`, module-owned contexts only: the new
threshold and provider list, or `none` when the threshold exceeds the provider count -/
def updThreshold (rc : Ctx) (providers : List Addr) (thr : Nat) : Option (Nat × List Addr) :=
  if rc.moduleName = "" then some (rc.respThreshold, providers)
  else if (if providers.isEmpty then rc.providers else providers).length < (if thr = 0 then rc.respThreshold else thr) then none
  else some (if thr = 0 then rc.respThreshold else thr, if providers.isEmpty then rc.providers else providers)

/-- `timeout = 0` / `freq = 0` in an update mean "keep" -/
def effTimeout (rc : Ctx) (timeout : Int) : Int := if timeout = 0 then rc.timeout else timeout
def effFreq (rc : Ctx) (freq : Nat) : Nat := if freq = 0 then rc.freq else freq

/-- the settings written by an accepted `UpdateRequestContext` -/
def updatedCtx (rc : Ctx) (thr1 : Nat) (pds : List Addr) (c : Nat) (timeout : Int) (freq : Nat) (total : Int) : Ctx :=
  { rc with
    respThreshold := thr1,
    cap := c,
    providers := if pds.isEmpty then rc.providers else pds,
    timeout := if 0 < effTimeout rc timeout then effTimeout rc timeout else rc.timeout,
    freq := if 0 < effFreq rc freq then effFreq rc freq else rc.freq,
    total := if total ≠ 0 then total else rc.total }

/-- `UpdateRequestContext` -/
def keeperUpdate (s : State) (id : CtxId) (providers : List Addr) (thr : Nat) (cap : Coins) (timeout : Int)
    (freq : Nat) (total : Int) (consumer : Addr) : R :=
  match AMap.get? s.ctxs id with
  | none => rej "unknown context"
  | some rc =>
    match moduleAuth s rc consumer id with
    | .error e => .error e
    | .ok _ =>
      if rc.state = .completed then rej "completed" else
      if rc.moduleName ≠ "" ∧ !(validUpdate providers cap timeout freq total) then rej "update" else
      match updThreshold rc providers thr with
      | none => rej "threshold"
      | some (thr1, pds) =>
        match newCap s rc cap with
        | none => rej "fee cap"
        | some c =>
          if s.params.maxTimeout < timeout then rej "timeout" else
          if (effFreq rc freq : Int) < effTimeout rc timeout then rej "frequency" else
          if 1 ≤ total ∧ total < (rc.batchCounter : Int) then rej "total" else
          .ok (setCtx s id (updatedCtx rc thr1 pds c timeout freq total))

/-- the message-level wrapper shared by pause / start / kill / update -/
def ctxMsgGuard (s : State) (consumer : Addr) (id : String) : Except Err Unit :=
  if !(validAddr consumer) then .error (.reject "address") else
  if !(validCtxId id) then .error (.reject "context id") else
  checkAuthority s consumer id.toLower true

def stepPause (s : State) (consumer : Addr) (id : String) : R :=
  match ctxMsgGuard s consumer id with
  | .error e => .error e
  | .ok _ => keeperPause s id.toLower consumer

def stepStart (s : State) (consumer : Addr) (id : String) : R :=
  match ctxMsgGuard s consumer id with
  | .error e => .error e
  | .ok _ => keeperStart s id.toLower consumer

def stepKill (s : State) (consumer : Addr) (id : String) : R :=
  match ctxMsgGuard s consumer id with
  | .error e => .error e
  | .ok _ => keeperKill s id.toLower consumer

def stepUpdateCtx (s : State) (consumer : Addr) (id : String) (providers : List Addr) (cap : Coins) (timeout : Int)
    (freq : Nat) (total : Int) : R :=
  if !(validAddr consumer) then rej "address" else
  if !(validCtxId id) then rej "context id" else
  if !(providers.all validAddr) then rej "address" else
  if !(validUpdate providers cap timeout freq total) then rej "update" else
  match checkAuthority s consumer id.toLower true with
  | .error e => .error e
  | .ok _ => keeperUpdate s id.toLower providers 0 cap timeout freq total consumer

/-! ### responses, earned fees -/

/-- `GetRequest`: the compact request together with its context -/
def getRequest (s : State) (rid : ReqId) : Option (Req × Ctx) :=
  match AMap.get? s.reqs rid with
  | none => none
  | some rq =>
    match AMap.get? s.ctxs rq.ctx with
    | none => none
    | some rc => some (rq, rc)

def bump (m : AMap (Addr × Denom) Nat) (a : Addr) (d : Denom) (n : Nat) : AMap (Addr × Denom) Nat :=
  if n = 0 then m else AMap.set m (a, d) (AMap.getD m (a, d) 0 + n)

/-- the tax on a fee: `⌊fee · taxRate⌋` -/
def taxOf (s : State) (amt : Nat) : Nat := mulTrunc amt s.params.tax

/-- `AddEarnedFee`; `none` = error -/
def addEarnedFee (s : State) (provider : Addr) (d : Denom) (amt : Nat) : Option State :=
  match Bank.send s.bank reqAcc fcAcc d (taxOf s amt) with
  | none => none
  | some bank =>
    if amt < taxOf s amt then none else
    some { s with bank := bank,
                  earned := bump s.earned provider d (amt - taxOf s amt),
                  oearned := bump s.oearned (AMap.getD s.owners provider "") d (amt - taxOf s amt) }

def respOutputs (s : State) (id : CtxId) (batch : Nat) : Nat :=
  (s.resps.filter (fun e => e.1.inBatch id batch && e.2.hasOut)).length

/-- `Callback`: reads the stored context -/
def callback (s : State) (id : CtxId) : State :=
  let rc := getCtx s id
  let n := respOutputs s id rc.batchCounter
  { s with cb := s.cb ++ [.resp id rc.batchCounter n (decide (n < rc.batchRespThreshold))] }

/-- `CompleteBatch` -/
def completeBatch (s : State) (rc : Ctx) (id : CtxId) : State × Ctx :=
  (if rc.moduleName ≠ "" then callback s id else s, { rc with batchState := .completed })

inductive OutKind where
  | none | good | bad
  deriving DecidableEq, Repr, Inhabited

/-- `MsgRespondService.ValidateBasic` (result / output schema validity supplied with the line) -/
def vbRespond (provider : Addr) (code : Nat) (out : OutKind) (resOk : Bool) : Bool :=
  validAddr provider && resOk && (code = 200 || code = 400 || code = 500) &&
  !(code = 200 && out = .none) && !(code ≠ 200 && out ≠ .none) && !(out = .bad)

/-- the response record, the active marker removed, the consumer's volume bumped -/
def recordResponse (s : State) (rid : ReqId) (provider : Addr) (rq : Req) (rc : Ctx) (hasOut : Bool) : State :=
  { s with resps := AMap.set s.resps rid
             { provider := provider, consumer := rc.consumer, hasOut := hasOut, ctx := rq.ctx, batch := rq.batch },
           active := s.active.filter (· ≠ rid),
           vols := AMap.set s.vols (rc.consumer, rc.svc, provider) (volOf s rc.consumer rc.svc provider + 1) }

/-- count the response on the stored context; complete the batch when every request is answered -/
def storeCtx (p : State × Ctx) (id : CtxId) : State := setCtx p.1 id p.2

def countedCtx (rc : Ctx) : Ctx := { rc with batchRespCount := rc.batchRespCount + 1 }

def countResponse (s : State) (id : CtxId) : State :=
  if (getCtx s id).batchRespCount + 1 = (getCtx s id).batchReqCount then
    storeCtx (completeBatch s (countedCtx (getCtx s id)) id) id
  else setCtx s id (countedCtx (getCtx s id))

/-- `AddResponse` -/
def keeperRespond (s : State) (provider : Addr) (rid : ReqId) (hasOut : Bool) : R :=
  match getRequest s rid with
  | none => rej "unknown request"
  | some (rq, rc) =>
    if provider ≠ rq.provider then rej "provider" else
    if !(s.active.contains rid) then rej "not active" else
    match addEarnedFee s provider rq.feeDenom rq.feeAmt with
    | none => rej "earned fee"
    | some s1 => .ok (countResponse (recordResponse s1 rid provider rq rc hasOut) rq.ctx)

def stepRespond (s : State) (provider : Addr) (rid0 : Option ReqId) (code : Nat) (out : OutKind) (resOk : Bool) : R :=
  if !(vbRespond provider code out resOk) then rej "validate basic" else
  match rid0 with
  | none => rej "request id"
  | some rid => keeperRespond s provider rid (out = .good)

def entriesOf (m : AMap (Addr × Denom) Nat) (a : Addr) : Coins :=
  (m.filter (fun e => e.1.1 = a)).map (fun e => (e.1.2, e.2))

def eraseAll (m : AMap (Addr × Denom) Nat) (a : Addr) : AMap (Addr × Denom) Nat :=
  m.filter (fun e => e.1.1 ≠ a)

def insertCoin (e : Denom × Nat) : Coins → Coins
  | [] => [e]
  | h :: t => if e.1 < h.1 then e :: h :: t else h :: insertCoin e t

def sortCoins (c : Coins) : Coins := c.foldr insertCoin []

/-- `Coins.Equal` on positive entry lists -/
def coinsEq (a b : Coins) : Bool := a.length = b.length && sortCoins a == sortCoins b

/-- `Coins.Sub`: `none` = panic (negative amount); zero results are dropped -/
def coinsSub (a b : Coins) : Option Coins :=
  if b.any (fun e => Coins.amountOf a e.1 < e.2) then none
  else some ((a.map (fun e => (e.1, e.2 - Coins.amountOf b e.1))).filter (fun e => e.2 ≠ 0))

def setEntries (m : AMap (Addr × Denom) Nat) (a : Addr) (c : Coins) : AMap (Addr × Denom) Nat :=
  c.foldl (fun acc e => AMap.set acc (a, e.1) e.2) m

/-- keeper `WithdrawEarnedFees` -/
def wdAddrOf (s : State) (owner : Addr) : Addr := AMap.getD s.wd owner owner

/-- the owner-side tally after a per-provider withdrawal (`SetOwnerEarnedFees` first deletes the owner's
entries, then writes the remaining denoms): `none` = `Coins.Sub` panics -/
def ownerTallyAfter (s : State) (owner p : Addr) : Option (AMap (Addr × Denom) Nat) :=
  if coinsEq (entriesOf s.earned p) (entriesOf s.oearned owner) then some (eraseAll s.oearned owner)
  else (coinsSub (entriesOf s.oearned owner) (entriesOf s.earned p)).map
    (fun diff => setEntries (eraseAll s.oearned owner) owner diff)

/-- keeper `WithdrawEarnedFees` for one provider -/
def withdrawProvider (s : State) (owner p : Addr) : R :=
  if AMap.get? s.owners p ≠ some owner then rej "owner" else
  match ownerTallyAfter s owner p with
  | none => .error (.panic "negative coin amount")
  | some oearned =>
    match Bank.sendCoins s.bank reqAcc (wdAddrOf s owner) (entriesOf s.earned p) with
    | none => rej "funds"
    | some bank => .ok { s with bank := bank, earned := eraseAll s.earned p, oearned := oearned }

/-- keeper `WithdrawEarnedFees` with an empty provider: everything the owner-side tally records -/
def withdrawOwner (s : State) (owner : Addr) : R :=
  match Bank.sendCoins s.bank reqAcc (wdAddrOf s owner) (entriesOf s.oearned owner) with
  | none => rej "funds"
  | some bank =>
    .ok { s with bank := bank,
                 earned := ((s.ownerProv.filter (fun e => e.1 = owner)).map (·.2)).foldl eraseAll s.earned,
                 oearned := eraseAll s.oearned owner }

def keeperWithdraw (s : State) (owner : Addr) (provider : Option Addr) : R :=
  match provider with
  | some p => withdrawProvider s owner p
  | none => withdrawOwner s owner

/-- `MsgWithdrawEarnedFees`: the message server parses the provider address, so an empty one is rejected -/
def stepWithdraw (s : State) (owner : Addr) (provider : String) : R :=
  if !(validAddr owner) then rej "address" else
  if !(validAddr provider) then rej "provider address" else
  keeperWithdraw s owner (some provider)

/-! ### end block -/

def addCoin (m : Coins) (d : Denom) (n : Nat) : Coins := AMap.set m d (AMap.getD m d 0 + n)

/-- `FilterServiceProviders`: `none` = error (no exchange rate); total of the *undiscounted* prices -/
def filterProviders (s : State) (rc : Ctx) : List Addr → List Addr → Coins → Option (List Addr × Coins)
  | [], acc, tot => some (acc, tot)
  | p :: rest, acc, tot =>
    match AMap.get? s.binds (rc.svc, p) with
    | none => filterProviders s rc rest acc tot
    | some b =>
      if b.available ∧ (b.qos : Int) ≤ rc.timeout then
        match exchangedPrice s rc.consumer rc.svc p b.pricing with
        | none => none
        | some x =>
          if x ≤ rc.cap then filterProviders s rc rest (acc ++ [p]) (addCoin tot b.pricing.denom b.pricing.amount)
          else filterProviders s rc rest acc tot
      else filterProviders s rc rest acc tot

/-- the stored pricing of a binding (`GetPricing`; the zero value if there is none) -/
def pricingOf (s : State) (svc : String) (p : Addr) : Pricing :=
  match AMap.get? s.binds (svc, p) with
  | some b => b.pricing
  | none => {}

/-- the compact request `buildRequest` records for provider `p` -/
def mkReq (s : State) (id : CtxId) (batch : Nat) (svc : String) (consumer : Addr) (timeout : Int) (p : Addr) : Req :=
  { ctx := id, batch := batch, provider := p,
    feeDenom := (pricingOf s svc p).denom,
    feeAmt := feeOf s consumer svc p (pricingOf s svc p),
    reqH := s.height, expH := s.height + timeout }

/-- `SetCompactRequest` + `AddActiveRequest` -/
def addRequest (s : State) (rid : ReqId) (rq : Req) : State :=
  { s with reqs := AMap.set s.reqs rid rq,
           active := if s.active.contains rid then s.active else s.active ++ [rid] }

/-- the request loop of `InitiateRequests` -/
def mkRequests (s : State) (id : CtxId) (batch : Nat) (svc : String) (consumer : Addr) (timeout : Int) :
    List Addr → Nat → State
  | [], _ => s
  | p :: rest, i =>
    mkRequests (addRequest s (reqIdOf id batch s.height i) (mkReq s id batch svc consumer timeout p))
      id batch svc consumer timeout rest (i + 1)

def startedCtx (rc : Ctx) (n : Nat) : Ctx :=
  { rc with batchCounter := rc.batchCounter + 1, batchState := .running, batchRespCount := 0,
            batchReqCount := n, batchRespThreshold := rc.respThreshold }

/-- `InitiateRequests` -/
def initiateRequests (s : State) (id : CtxId) (provs : List Addr) : State :=
  setCtx (mkRequests s id ((getCtx s id).batchCounter + 1) (getCtx s id).svc (getCtx s id).consumer (getCtx s id).timeout provs 0)
    id (startedCtx (getCtx s id) provs.length)

/-- `SkipCurrentRequestBatch` -/
def skipBatch (s : State) (id : CtxId) (rc : Ctx) : State :=
  addExp (setCtx s id (startedCtx rc 0)) id (s.height + rc.timeout)

/-- `OnRequestContextPaused` -/
def onPaused (s : State) (id : CtxId) (rc : Ctx) (cause : String) : State :=
  if rc.moduleName ≠ "" then
    { setCtx s id { rc with batchState := .completed, state := .paused } with
      cb := s.cb ++ [.state id cause] }
  else setCtx s id { rc with batchState := .completed, state := .paused }

/-- `subUnlockedCoins`: the bank debits coin by coin (ascending denom) and stops at the first
coin the account cannot pay; the end blocker runs the deduction on a cache context, so a failed
deduction leaves no partial debit -/
def debitCoins (b : Bank) (a : Addr) : Coins → Bank × Bool
  | [] => (b, true)
  | (d, n) :: rest =>
    if Bank.balOf b a d < n then (b, false)
    else debitCoins (Bank.setBal b a d (Bank.balOf b a d - n)) a rest

/-- `addCoins` -/
def creditCoins (b : Bank) (a : Addr) : Coins → Bank
  | [] => b
  | (d, n) :: rest => creditCoins (Bank.setBal b a d (Bank.balOf b a d + n)) a rest

/-- `DeductServiceFees` (atomic: on a cache context), then either `InitiateRequests` + expiration entry, or
the automatic pause -/
def chargeAndStart (s : State) (id : CtxId) (rc : Ctx) (provs : List Addr) (total : Coins) : State :=
  if (debitCoins s.bank rc.consumer (sortCoins total)).2 then
    delNew (addExp (initiateRequests
      { s with bank := creditCoins (debitCoins s.bank rc.consumer (sortCoins total)).1 reqAcc (sortCoins total) } id provs)
      id (s.height + rc.timeout)) id s.height
  else delNew (onPaused s id rc "insufficient balances") id s.height

/-- the new-request-batch handler of `EndBlocker` for one queue entry -/
def newBatch (s : State) (id : CtxId) : State :=
  if (getCtx s id).state = .running then
    match filterProviders s (getCtx s id) (getCtx s id).providers [] [] with
    | none => delNew (onPaused s id (getCtx s id) "no exchange rate") id s.height
    | some (provs, total) =>
      if 0 < provs.length ∧ (getCtx s id).respThreshold ≤ provs.length then chargeAndStart s id (getCtx s id) provs total
      else delNew (skipBatch s id (getCtx s id)) id s.height
  else delNew s id s.height

def slashAmount (s : State) (b : Binding) : Nat := mulTrunc b.deposit s.params.slash

def slashedBinding (s : State) (b : Binding) : Binding :=
  if b.available ∧ belowMin s b.pricing (b.deposit - slashAmount s b) then
    { b with deposit := b.deposit - slashAmount s b, available := false, disabledTime := s.time }
  else { b with deposit := b.deposit - slashAmount s b }

/-- `Slash` (errors leave the state unchanged; the caller ignores them) -/
def slash (s : State) (svc : String) (provider : Addr) : State :=
  match AMap.get? s.binds (svc, provider) with
  | none => s
  | some b =>
    if b.deposit < slashAmount s b then s else
    match Bank.send s.bank depAcc fcAcc s.params.base (slashAmount s b) with
    | none => s
    | some bank => { s with bank := bank, binds := AMap.set s.binds (svc, provider) (slashedBinding s b) }

/-- `RefundServiceFee` (a failure is ignored by the caller) -/
def refund (s : State) (consumer : Addr) (d : Denom) (n : Nat) : State :=
  match Bank.send s.bank reqAcc consumer d n with
  | none => s
  | some bank => { s with bank := bank }

def dropActive (s : State) (rid : ReqId) : State := { s with active := s.active.filter (· ≠ rid) }

/-- the expired-request handler: slash, refund, drop the active marker -/
def expireReq (s : State) (rid : ReqId) : State :=
  match getRequest s rid with
  | none => dropActive s rid
  | some (rq, rc) => dropActive (refund (slash s rc.svc rq.provider) rc.consumer rq.feeDenom rq.feeAmt) rid

def activeOf (s : State) (id : CtxId) (batch : Nat) : List ReqId :=
  isort ReqId.le (s.active.filter (fun r => r.inBatch id batch))

/-- `CleanBatch`: the requests of the batch and their responses -/
def cleanBatch (s : State) (id : CtxId) (batch : Nat) : State :=
  { s with reqs := s.reqs.filter (fun e => !(e.1.inBatch id batch)),
           resps := s.resps.filter (fun e => !(e.1.inBatch id batch && AMap.contains s.reqs e.1)) }

/-- first half of the expired-batch handler: expire what is still active, complete the batch -/
def expirePhase (s : State) (id : CtxId) : State × Ctx :=
  if (getCtx s id).batchState ≠ .completed then
    completeBatch ((activeOf s id (getCtx s id).batchCounter).foldl expireReq s) (getCtx s id) id
  else (s, getCtx s id)

def eraseCtx (s : State) (id : CtxId) : State := { s with ctxs := AMap.erase s.ctxs id }

/-- remove a completed context, schedule the next batch of a running repeated one, remove a finished one -/
def settleCtx (s : State) (id : CtxId) (rc : Ctx) : State :=
  if rc.state = .completed then eraseCtx s id
  else if rc.state = .running then
    if rc.repeated ∧ (rc.total < 0 ∨ (rc.batchCounter : Int) < rc.total) then
      addNew s id (s.height - rc.timeout + (rc.freq : Int))
    else eraseCtx s id
  else s

/-- second half: queue entry, stored context, next batch or removal, batch clean-up -/
def finishExpire (p : State × Ctx) (id : CtxId) : State :=
  cleanBatch (settleCtx (setCtx (delExp p.1 id p.1.height) id p.2) id p.2) id p.2.batchCounter

/-- the expired-request-batch handler of `EndBlocker` for one queue entry -/
def expireCtx (s : State) (id : CtxId) : State := finishExpire (expirePhase s id) id

def dueIds (q : List (Int × CtxId)) (h : Int) : List CtxId :=
  isort (fun a b : String => decide (a ≤ b)) ((q.filter (fun e => e.1 = h)).map (·.2))

def expiredPhase (s : State) : State := (dueIds s.expQ s.height).foldl expireCtx s
def newPhase (s : State) : State := (dueIds s.newQ s.height).foldl newBatch s

/-- the real `EndBlocker`: expired batches first, then new batches -/
def endBlock (s : State) : State := newPhase (expiredPhase s)

def beginNext (s : State) (dt : Int) : State := { s with height := s.height + 1, time := s.time + dt, idx := 0 }

/-- `EndBlocker` of the current block, then `BeginBlocker` of the next one -/
def nextBlock (s : State) (dt : Int) : State := beginNext (endBlock s) dt

def skipBlocks (s : State) (dt : Int) : Nat → State
  | 0 => s
  | n + 1 => skipBlocks (nextBlock s dt) dt n

/-! ### operations -/

inductive Op where
  | define (sender : Addr) (name : String) (schOk : Bool)
  | bind (owner provider : Addr) (svc : String) (dep : Coins) (qos : Nat) (pin : PricingIn) (optsOk : Bool)
  | updateBinding (owner provider : Addr) (svc : String) (dep : Coins) (qos : Nat) (pin : Option PricingIn) (opts : Option Bool)
  | setWithdraw (owner addr : Addr)
  | enable (owner provider : Addr) (svc : String) (dep : Coins)
  | disable (owner provider : Addr) (svc : String)
  | refundDeposit (owner provider : Addr) (svc : String)
  | call (tx : String) (consumer : Addr) (svc : String) (providers : List Addr) (cap : Coins) (timeout : Int)
      (repeated : Bool) (freq : Nat) (total : Int) (inputOk : Bool)
  | mcall (tx : String) (consumer : Addr) (svc : String) (providers : List Addr) (cap : Coins) (timeout : Int)
      (repeated : Bool) (freq : Nat) (total : Int) (inputOk : Bool) (paused : Bool) (thr : Nat) (modName : String)
  | respond (provider : Addr) (rid : Option ReqId) (code : Nat) (out : OutKind) (resOk : Bool)
  | withdraw (owner : Addr) (provider : String)
  | withdrawK (owner : Addr) (provider : Option Addr)
  | pause (consumer : Addr) (id : String)
  | start (consumer : Addr) (id : String)
  | kill (consumer : Addr) (id : String)
  | updateCtx (consumer : Addr) (id : String) (providers : List Addr) (cap : Coins) (timeout : Int) (freq : Nat) (total : Int)
  | mpause (consumer : Addr) (id : String)
  | mstart (consumer : Addr) (id : String)
  | mkill (consumer : Addr) (id : String)
  | mupdate (consumer : Addr) (id : String) (providers : List Addr) (thr : Nat) (cap : Coins) (timeout : Int) (freq : Nat) (total : Int)
  | setRate (denom : Denom) (rate : Option (String × Dec))
  | next (dt : Int)
  | skip (n : Nat) (dt : Int)
  deriving Repr, Inhabited

def stepCore (s : State) : Op → R
  | .define sender name schOk => stepDefine s sender name schOk
  | .bind owner provider svc dep qos pin optsOk => stepBind s owner provider svc dep qos pin optsOk
  | .updateBinding owner provider svc dep qos pin opts => stepUpdateBinding s owner provider svc dep qos pin opts
  | .setWithdraw owner addr => stepSetWithdraw s owner addr
  | .enable owner provider svc dep => stepEnable s owner provider svc dep
  | .disable owner provider svc => stepDisable s owner provider svc
  | .refundDeposit owner provider svc => stepRefundDeposit s owner provider svc
  | .call tx consumer svc providers cap timeout repeated freq total inputOk =>
    stepCall s (ctxIdOf tx s.idx) consumer svc providers cap timeout repeated freq total inputOk
  | .mcall tx consumer svc providers cap timeout repeated freq total inputOk paused thr modName =>
    createCtx s (ctxIdOf tx s.idx) svc providers consumer inputOk cap timeout repeated freq total
      (if paused then .paused else .running) thr modName
  | .respond provider rid code out resOk => stepRespond s provider rid code out resOk
  | .withdraw owner provider => stepWithdraw s owner provider
  | .withdrawK owner provider => keeperWithdraw s owner provider
  | .pause consumer id => stepPause s consumer id
  | .start consumer id => stepStart s consumer id
  | .kill consumer id => stepKill s consumer id
  | .updateCtx consumer id providers cap timeout freq total => stepUpdateCtx s consumer id providers cap timeout freq total
  | .mpause consumer id => keeperPause s id consumer
  | .mstart consumer id => keeperStart s id consumer
  | .mkill consumer id => keeperKill s id consumer
  | .mupdate consumer id providers thr cap timeout freq total => keeperUpdate s id providers thr cap timeout freq total consumer
  | .setRate d r => .ok { s with rates := match r with | none => AMap.erase s.rates d | some v => AMap.set s.rates d v }
  | .next dt => .ok (nextBlock s dt)
  | .skip n dt => .ok (skipBlocks s dt n)

/-- one operation; the callback log is per operation -/
def step (s : State) (op : Op) : R := stepCore { s with cb := [] } op

/-- the chain-level step: a rejected message leaves the state unchanged -/
def apply (s : State) (op : Op) : State :=
  match step s op with
  | .ok s' => s'
  | .error _ => { s with cb := [] }

def run (s : State) (ops : List Op) : State := ops.foldl apply s

end Irismod.Service
