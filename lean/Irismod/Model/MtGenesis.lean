/-
Model of the MT module's genesis export / validation / import
(modules/mt/keeper/keeper.go ExportGenesisState, keeper/balance.go getBalances, keeper/mt.go
GetMTs, keeper/denom.go GetDenoms, types/genesis.go ValidateGenesis, genesis.go InitGenesis),
on top of the state machine of `Irismod.Mt`.

Abstractions (each is a fact about the strings the module itself generates, not about its logic):
* the KV store is the association list of `Irismod.Mt.State`; a prefix iteration returns the
  bindings in ascending key order. Class and token ids are 64-digit hex strings and addresses
  are bech32 strings, so none contains the key delimiter "/" and byte order of the composed
  store keys is the lexicographic order of the components. `getBalances` (after the sorted-keys
  fix) orders owners, classes and tokens by `sort.Strings` explicitly;
* `ValidateGenesis` keys its maps by the string `denomId+mtId`; ids have a fixed length, so that
  concatenation is injective and the model keys the maps by the pair;
* `AccAddressFromBech32(o.Address)` in `InitGenesis` cannot fail on an exported genesis (the
  address part of a balance key was written by `AccAddress.String()`); addresses are opaque here.

Core Lean only.
-/
import Irismod.Model.Mt

namespace Irismod.MtGenesis
open Irismod Irismod.Mt

/-! ### the genesis document (proto/irismod/mt/genesis.proto) -/

structure MtRec where
  id     : MtId
  supply : UInt64
  data   : String
  deriving DecidableEq, Repr, Inhabited

structure Collection where
  id    : DenomId        -- `Denom.Id`
  denom : DenomRec       -- name, owner, data of the `Denom`
  mts   : List MtRec
  deriving DecidableEq, Repr, Inhabited

structure Balance where
  mtId   : MtId
  amount : UInt64
  deriving DecidableEq, Repr, Inhabited

structure DenomBalance where
  denomId  : DenomId
  balances : List Balance
  deriving DecidableEq, Repr, Inhabited

structure Owner where
  address : Addr
  denoms  : List DenomBalance
  deriving DecidableEq, Repr, Inhabited

structure Genesis where
  collections : List Collection := []
  owners      : List Owner := []
  deriving DecidableEq, Repr, Inhabited

/-! ### ascending iteration over string keys -/

/-- insert into an ascending duplicate-free list -/
def ins (x : String) : List String → List String
  | [] => [x]
  | y :: t => if x < y then x :: y :: t else if x = y then y :: t else y :: ins x t

/-- the distinct members of `l` in ascending order (a store iterator / `sort.Strings` over map keys) -/
def sortDedup (l : List String) : List String := l.foldr ins []

/-- distinct first components, ascending -/
def heads {β : Type} (ks : List (String × β)) : List String := sortDedup (ks.map (·.1))

/-- the key suffixes filed under first component `a` -/
def tail {β : Type} (ks : List (String × β)) (a : String) : List β :=
  (ks.filter (fun k => k.1 = a)).map (·.2)

/-! ### ExportGenesisState -/

/-- `GetMTs(ctx, d)`: the tokens of class `d` in key order, each with its recorded supply -/
def exportMts (s : State) (d : DenomId) : List MtRec :=
  (sortDedup (tail (AMap.keys s.mts) d)).map fun m =>
    { id := m, supply := supplyOf s d m, data := AMap.getD s.mts (d, m) "" }

/-- `GetDenoms` + `NewCollection(d, GetMTs(d))` -/
def exportCollections (s : State) : List Collection :=
  (sortDedup (AMap.keys s.denoms)).map fun d =>
    { id := d, denom := AMap.getD s.denoms d default, mts := exportMts s d }

def exportBalances (s : State) (a : Addr) (d : DenomId) : List Balance :=
  (sortDedup (tail (tail (AMap.keys s.bal) a) d)).map fun m => { mtId := m, amount := balOf s a d m }

def exportDenomBalances (s : State) (a : Addr) : List DenomBalance :=
  (heads (tail (AMap.keys s.bal) a)).map fun d => { denomId := d, balances := exportBalances s a d }

/-- `getBalances`: every stored balance entry (zero amounts included), nested and sorted -/
def exportOwners (s : State) : List Owner :=
  (heads (AMap.keys s.bal)).map fun a => { address := a, denoms := exportDenomBalances s a }

def exportGenesis (s : State) : Genesis :=
  { collections := exportCollections s, owners := exportOwners s }

/-! ### flat views of a genesis document (the order in which the loops visit the entries) -/

def flatDenoms (cs : List Collection) : AMap DenomId DenomRec := cs.map fun c => (c.id, c.denom)

def flatMts (cs : List Collection) : AMap (DenomId × MtId) MtRec :=
  cs.flatMap fun c => c.mts.map fun m => ((c.id, m.id), m)

def flatOwners (os : List Owner) : AMap (Addr × DenomId × MtId) UInt64 :=
  os.flatMap fun o => o.denoms.flatMap fun d => d.balances.map fun b => ((o.address, d.denomId, b.mtId), b.amount)

/-! ### types.ValidateGenesis -/

/-- `denomMap1` (only key presence is used) -/
def denomMap1 (cs : List Collection) : AMap DenomId Nat :=
  cs.foldl (fun acc c => AMap.set acc c.id c.mts.length) []

/-- `mtMap1[denomId+mtId] = m.Supply` (a later entry overrides an earlier one) -/
def mtMap1 (cs : List Collection) : AMap (DenomId × MtId) UInt64 :=
  (flatMts cs).foldl (fun acc e => AMap.set acc e.1 e.2.supply) []

/-- `mtMap2[denomId+mtId] += b.Amount` (Go `uint64` addition: wraps) -/
def mtMap2 (os : List Owner) : AMap (DenomId × MtId) UInt64 :=
  (flatOwners os).foldl (fun acc e => AMap.set acc (e.1.2.1, e.1.2.2) (AMap.getD acc (e.1.2.1, e.1.2.2) 0 + e.2)) []

/-- every class named under an owner is a collection of the document -/
def ownersKnown (cs : List Collection) (os : List Owner) : Bool :=
  os.all fun o => o.denoms.all fun d => AMap.contains (denomMap1 cs) d.denomId

def validateGenesis (g : Genesis) : Except Err Unit :=
  if !(ownersKnown g.collections g.owners) then .error (.reject "unknown mt denom") else
  if (mtMap1 g.collections).length ≠ (mtMap2 g.owners).length then .error (.reject "mt count mismatch") else
  if !((mtMap1 g.collections).all fun e => AMap.getD (mtMap2 g.owners) e.1 0 == e.2) then
    .error (.reject "mt supply mismatch")
  else .ok ()

/-! ### InitGenesis -/

/-- inner loop over `c.Mts`: `IncreaseDenomSupply`, `SetMT`, `mtSequence++` -/
def importMts (s : State) (d : DenomId) : List MtRec → State
  | [] => s
  | m :: t =>
    importMts { s with denomSupply := AMap.set s.denomSupply d (AMap.getD s.denomSupply d 0 + 1),
                       mts := AMap.set s.mts (d, m.id) m.data,
                       mtSeq := s.mtSeq + 1 } d t

/-- outer loop over `data.Collections`: `SetDenom`, then the tokens -/
def importCollections (s : State) : List Collection → State
  | [] => s
  | c :: t => importCollections (importMts { s with denoms := AMap.set s.denoms c.id c.denom } c.id c.mts) t

/-- one balance entry: `IncreaseMTSupply` then `AddBalance`; an error of either is a panic -/
def importBalance (s : State) (a : Addr) (d : DenomId) (m : MtId) (n : UInt64) : R :=
  match increaseSupply s d m n with
  | .error _ => .error (.panic "supply overflow")
  | .ok s1 =>
    match addBalance s1 a d m n with
    | .error _ => .error (.panic "balance overflow")
    | .ok s2 => .ok s2

def importBalances (s : State) (a : Addr) (d : DenomId) : List Balance → R
  | [] => .ok s
  | b :: t =>
    match importBalance s a d b.mtId b.amount with
    | .error e => .error e
    | .ok s1 => importBalances s1 a d t

def importDenomBalances (s : State) (a : Addr) : List DenomBalance → R
  | [] => .ok s
  | d :: t =>
    match importBalances s a d.denomId d.balances with
    | .error e => .error e
    | .ok s1 => importDenomBalances s1 a t

def importOwners (s : State) : List Owner → R
  | [] => .ok s
  | o :: t =>
    match importDenomBalances s o.address o.denoms with
    | .error e => .error e
    | .ok s1 => importOwners s1 t

/-- the store after the "init infos" half of `InitGenesis` on an empty store -/
def importInfos (g : Genesis) : State :=
  importCollections { denomSeq := UInt64.ofNat (g.collections.length + 1) } g.collections

/-- `InitGenesis` on an empty module store -/
def importGenesis (g : Genesis) : R :=
  match validateGenesis g with
  | .error _ => .error (.panic "invalid genesis")
  | .ok _ => importOwners (importInfos g) g.owners

end Irismod.MtGenesis
