/-
Model of the service module's genesis export / validation / import and of its zero-height
preparation (modules/service/genesis.go, types/genesis.go, keeper/fees.go `RefundServiceFees` /
`RefundEarnedFees`, keeper/invocation.go `ResetRequestContextsStateAndBatch`), on top of
`Irismod.Service`.

The document has five fields: params, definitions, bindings, withdraw addresses, request contexts.
* `ExportGenesis` iterates the stores: definitions in key order (service name), bindings in key
  order (service name, then the provider's bech32 string), withdraw addresses and request contexts
  into Go maps.  Requests, responses, active markers, request volumes, earned fees (both tallies),
  both batch queues and the per-block context index are NOT exported.
* `ValidateGenesis`: `Params.Validate`, every definition / binding `Validate`, every withdraw
  address pair parses, every context id is hex, `RequestContext.Validate`, and every context must
  be PAUSED with its batch COMPLETED.
* `InitGenesis` panics on an invalid document; otherwise `SetParams`, `SetServiceDefinition`,
  `SetServiceBindingForGenesis` (binding, owner ↦ provider indexes, parsed pricing), withdraw
  addresses and contexts in sorted key order.
* `PrepForZeroHeightGenesis` = `RefundServiceFees` (the fee of every active request back to the
  consumer of its context; nothing is deleted) + `RefundEarnedFees` (every provider-side earned-fee
  entry paid to the *provider address*; nothing is deleted) + `ResetRequestContextsStateAndBatch`
  (every context: PAUSED, batch COMPLETED, batch request / response counts 0); any error panics.

Abstractions (facts about strings and the store, not about the module's logic):
* a store has unique keys: the exported lists are built from the distinct keys of the model's
  association lists, each looked up the way the store reads it (`AMap.get?`);
* the order of bech32 strings is a parameter `rank : Addr → Nat` of the export (the harness supplies
  the order of its account universe with the `reset` line); Go maps have no order: the document
  lists withdraw addresses by owner symbol and contexts by id (the harness renders the real maps
  the same way, and `InitGenesis` itself visits them in sorted key order);
* payloads the service model does not carry (schemas, tags, descriptions, inputs, options, the
  pricing JSON text) were validated when the object was accepted and are immutable afterwards;
  their genesis-time validation is not modelled.  `TxSizeLimit` is not modelled (constant).  The keys of
  the context map are `HexBytes.String()` of the store keys, so `hex.DecodeString` on them cannot fail.
Core Lean only.
-/
import Irismod.Model.Service

namespace Irismod.ServiceGenesis
open Irismod Irismod.Sdk Irismod.Service

/-- the genesis document -/
structure Genesis where
  params : Params := {}
  defs   : List (String × Addr) := []
  binds  : List ((String × Addr) × Binding) := []
  wd     : List (Addr × Addr) := []
  ctxs   : List (CtxId × Ctx) := []
  deriving Repr, Inhabited

/-! ### store iteration -/

/-- distinct elements (the last occurrence of each is kept; the list is sorted afterwards) -/
def dedup {K : Type} [DecidableEq K] : List K → List K
  | [] => []
  | a :: t => if a ∈ t then dedup t else a :: dedup t

/-- the entries an iterator over a store prefix visits: distinct keys in key order, each with the value the
store holds for it -/
def entries {K V : Type} [DecidableEq K] (le : K → K → Bool) (m : AMap K V) : List (K × V) :=
  (isort le (dedup (m.map (·.1)))).filterMap fun k => (AMap.get? m k).map fun v => (k, v)

/-- writing a list of entries into an empty store -/
def rebuild {K V : Type} [DecidableEq K] (l : List (K × V)) : AMap K V :=
  l.foldl (fun m e => AMap.set m e.1 e.2) []

def leStr (a b : String) : Bool := decide (a ≤ b)

/-- binding keys: service name, then the provider's bech32 string (`rank`) -/
def leBind (rank : Addr → Nat) (a b : String × Addr) : Bool :=
  decide (a.1 < b.1) || (a.1 == b.1 && decide (rank a.2 ≤ rank b.2))

/-! ### export -/

/-- `ExportGenesis` -/
def exportGenesis (rank : Addr → Nat) (s : State) : Genesis :=
  { params := s.params,
    defs := entries leStr s.defs,
    binds := entries (leBind rank) s.binds,
    wd := entries leStr s.wd,
    ctxs := entries leStr s.ctxs }

/-! ### validation -/

/-- `Params.Validate` (the modelled fields) -/
def paramsValid (p : Params) : Bool :=
  decide (0 < p.maxTimeout) && decide (0 < p.minDepMult) && coinsValid p.minDeposit &&
  decide (0 ≤ p.slash.raw) && decide (p.slash.raw ≤ precision) &&
  decide (0 ≤ p.tax.raw) && decide (p.tax.raw < precision) &&
  decide (0 < p.complaint) && decide (0 < p.arbitration) && validDenom p.base

/-- `ServiceDefinition.Validate`: author address, service name -/
def defValid (e : String × Addr) : Bool := validAddr e.2 && validSvcName e.1

/-- `ServiceBinding.Validate`: provider, owner, service name, QoS (a deposit of the base denom is a valid
coin list whenever the base denom is valid, which `Params.Validate` has checked) -/
def bindValid (e : (String × Addr) × Binding) : Bool :=
  validAddr e.1.2 && validAddr e.2.owner && validSvcName e.1.1 && decide (0 < e.2.qos)

def wdValid (e : Addr × Addr) : Bool := validAddr e.1 && validAddr e.2




/-- `RequestContext.Validate`: service name, provider list (non-empty, at most 10, distinct), consumer -/
def ctxFieldsValid (c : Ctx) : Bool :=
  validSvcName c.svc && c.providers.all validAddr && !(c.providers.isEmpty) && decide (c.providers.length ≤ 10) &&
  nodup c.providers && validAddr c.consumer

/-- … and the genesis-only requirement: PAUSED, batch COMPLETED -/
def ctxQuiet (c : Ctx) : Bool := c.state == .paused && c.batchState == .completed

def ctxValid (e : CtxId × Ctx) : Bool := ctxFieldsValid e.2 && ctxQuiet e.2

/-- `ValidateGenesis` -/
def genesisValid (g : Genesis) : Bool :=
  paramsValid g.params && g.defs.all defValid && g.binds.all bindValid && g.wd.all wdValid && g.ctxs.all ctxValid

def validateGenesis (g : Genesis) : Except Err Unit :=
  if genesisValid g then .ok () else .error (.reject "invalid genesis")

/-! ### import -/

/-- `SetOwner(provider, owner)` for every binding, in document order -/
def ownersOf (l : List ((String × Addr) × Binding)) : AMap Addr Addr :=
  l.foldl (fun m e => AMap.set m e.1.2 e.2.owner) []

/-- `SetOwnerProvider(owner, provider)` for every binding (a key set) -/
def ownerProvOf (l : List ((String × Addr) × Binding)) : List (Addr × Addr) :=
  l.foldl (fun acc e => if acc.contains (e.2.owner, e.1.2) then acc else acc ++ [(e.2.owner, e.1.2)]) []

/-- the module store `InitGenesis` builds on a wiped store; bank, block header and the exchange-rate
environment are not module state -/
def importState (base : State) (g : Genesis) : State :=
  { base with params := g.params, idx := 0, defs := rebuild g.defs, binds := rebuild g.binds, owners := ownersOf g.binds,
              ownerProv := ownerProvOf g.binds, wd := rebuild g.wd, ctxs := rebuild g.ctxs, reqs := [], active := [],
              resps := [], vols := [], earned := [], oearned := [], newQ := [], newH := [], expQ := [], expH := [],
              cb := [] }

/-- `InitGenesis` on a wiped module store -/
def importGenesis (base : State) (g : Genesis) : R :=
  if genesisValid g then .ok (importState base g) else .error (.panic "invalid service genesis")

/-- export, wipe, import -/
def reimport (rank : Addr → Nat) (s : State) : R := importGenesis s (exportGenesis rank s)

/-! ### zero-height preparation -/

/-- `RefundServiceFees`: the fee of every active request goes back to the consumer of its context;
`none` = error (unknown request / context: empty consumer address; or the escrow cannot pay) -/
def refundFees (s : State) : List ReqId → Bank → Option Bank
  | [], b => some b
  | rid :: rest, b =>
    match getRequest s rid with
    | none => none
    | some (rq, rc) =>
      match Bank.send b reqAcc rc.consumer rq.feeDenom rq.feeAmt with
      | none => none
      | some b' => refundFees s rest b'

/-- `RefundEarnedFees`: every provider-side entry is paid to the provider's own address -/
def refundEarned : List ((Addr × Denom) × Nat) → Bank → Option Bank
  | [], b => some b
  | e :: rest, b =>
    match Bank.send b reqAcc e.1.1 e.1.2 e.2 with
    | none => none
    | some b' => refundEarned rest b'

/-- `ResetRequestContextsStateAndBatch`, one context -/
def resetCtx (c : Ctx) : Ctx :=
  { c with state := .paused, batchState := .completed, batchReqCount := 0, batchRespCount := 0 }

def resetCtxs (m : AMap CtxId Ctx) : AMap CtxId Ctx := m.map fun e => (e.1, resetCtx e.2)

/-- `PrepForZeroHeightGenesis` (requests, markers and tallies stay in the store: it is about to be exported) -/
def prepZeroHeight (s : State) : R :=
  match refundFees s s.active s.bank with
  | none => .error (.panic "failed to refund the service fees")
  | some b1 =>
    match refundEarned s.earned b1 with
    | none => .error (.panic "failed to refund the earned fees")
    | some b2 => .ok { s with bank := b2, ctxs := resetCtxs s.ctxs }

/-- prepare, export, wipe, import -/
def prepReimport (rank : Addr → Nat) (s : State) : R :=
  match prepZeroHeight s with
  | .error e => .error e
  | .ok s1 => reimport rank s1

end Irismod.ServiceGenesis
