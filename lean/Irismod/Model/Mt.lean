/-
Executable model of the MT module (modules/mt/keeper/{keeper,balance,mt,denom,msg_server}.go
and the ValidateBasic rules of modules/mt/types/msgs.go).

Balances and supplies are `UInt64` and the two subtraction sites (`SubBalance`,
`decreaseMTSupply`) are the unchecked wrapping subtraction the Go code performs; the
callers' guards are modelled where the Go code has them. A rejected message leaves the
state unchanged (the transaction cache is discarded).
-/
import Irismod.Sdk.Map
import Irismod.Sdk.Sha256
import Irismod.Sdk.Line

namespace Irismod.Mt
open Irismod

abbrev Addr := String
abbrev DenomId := String
abbrev MtId := String

structure DenomRec where
  name  : String
  owner : Addr
  data  : String           -- hex
  deriving DecidableEq, Repr, Inhabited

structure State where
  denoms      : AMap DenomId DenomRec := []
  mts         : AMap (DenomId × MtId) String := []          -- metadata (hex)
  supply      : AMap (DenomId × MtId) UInt64 := []
  denomSupply : AMap DenomId UInt64 := []
  bal         : AMap (Addr × DenomId × MtId) UInt64 := []
  denomSeq    : UInt64 := 1
  mtSeq       : UInt64 := 1
  deriving Repr, Inhabited

inductive Op where
  | issueDenom (sender : Addr) (name : String) (data : String)
  | mint (sender : Addr) (denom : DenomId) (id : MtId) (recipient : Addr) (amount : UInt64) (data : String)
  | edit (sender : Addr) (denom : DenomId) (id : MtId) (data : String)
  | transfer (sender recipient : Addr) (denom : DenomId) (id : MtId) (amount : UInt64)
  | burn (sender : Addr) (denom : DenomId) (id : MtId) (amount : UInt64)
  | transferDenom (sender recipient : Addr) (id : DenomId)
  deriving Repr, Inhabited

inductive Err where
  | reject (why : String)
  | panic (why : String)
  deriving Repr, Inhabited

abbrev R := Except Err State

/-- `math.MaxUint64` -/
def maxU64 : Nat := 18446744073709551615

/-- `fmt.Sprintf("%x", sha256.Sum256([]byte(prefix ++ seq)))` -/
def genId (pre : String) (seq : UInt64) : String :=
  Line.hexOfBytes (Sha256.sum (pre ++ toString seq.toNat).toUTF8)

def balOf (s : State) (a : Addr) (d : DenomId) (m : MtId) : UInt64 := AMap.getD s.bal (a, d, m) 0
def supplyOf (s : State) (d : DenomId) (m : MtId) : UInt64 := AMap.getD s.supply (d, m) 0

/-- `Authorize`: denom must exist and be owned by `who`. -/
def authorize (s : State) (d : DenomId) (who : Addr) : Except Err Unit :=
  match AMap.get? s.denoms d with
  | none => .error (.reject "denom not found")
  | some r => if r.owner = who then .ok () else .error (.reject "unauthorized")

/-- `IncreaseMTSupply` -/
def increaseSupply (s : State) (d : DenomId) (m : MtId) (n : UInt64) : R :=
  let cur := supplyOf s d m
  if maxU64 - cur.toNat < n.toNat then .error (.reject "supply overflow")
  else .ok { s with supply := AMap.set s.supply (d, m) (cur + n) }

/-- `AddBalance` -/
def addBalance (s : State) (a : Addr) (d : DenomId) (m : MtId) (n : UInt64) : R :=
  let cur := balOf s a d m
  if maxU64 - cur.toNat < n.toNat then .error (.reject "balance overflow")
  else .ok { s with bal := AMap.set s.bal (a, d, m) (cur + n) }

/-- `SubBalance`: unchecked, wrapping. -/
def subBalance (s : State) (a : Addr) (d : DenomId) (m : MtId) (n : UInt64) : State :=
  { s with bal := AMap.set s.bal (a, d, m) (balOf s a d m - n) }

/-- `decreaseMTSupply`: unchecked, wrapping. -/
def decreaseSupply (s : State) (d : DenomId) (m : MtId) (n : UInt64) : State :=
  { s with supply := AMap.set s.supply (d, m) (supplyOf s d m - n) }

def doNotModify : String := "5b646f2d6e6f742d6d6f646966795d"   -- hex of "[do-not-modify]"

def stepIssueDenom (s : State) (id : DenomId) (sender : Addr) (name data : String) : R :=
  if name = "" then .error (.reject "name required") else
  .ok { s with denomSeq := s.denomSeq + 1,
               denoms := AMap.set s.denoms id { name := name, owner := sender, data := data } }

/-- mint into an existing token -/
def mintExisting (s : State) (d : DenomId) (id : MtId) (rcpt : Addr) (n : UInt64) : R :=
  if !(AMap.contains s.mts (d, id)) then .error (.reject "mt not found") else
  match increaseSupply s d id n with
  | .error e => .error e
  | .ok s1 => addBalance s1 rcpt d id n

/-- state after `genMTID`, `SetMT` and `IncreaseDenomSupply` of a new token -/
def withNewToken (s : State) (d : DenomId) (newId : MtId) (data : String) : State :=
  { s with mtSeq := s.mtSeq + 1,
           mts := AMap.set s.mts (d, newId) data,
           denomSupply := AMap.set s.denomSupply d (AMap.getD s.denomSupply d 0 + 1) }

/-- mint a new token (`IssueMT`) -/
def mintNew (s : State) (d : DenomId) (newId : MtId) (rcpt : Addr) (n : UInt64) (data : String) : R :=
  match increaseSupply (withNewToken s d newId data) d newId n with
  | .error e => .error e
  | .ok s1 => addBalance s1 rcpt d newId n

def stepMint (s : State) (newId : MtId) (sender : Addr) (d : DenomId) (id : MtId) (recipient : Addr)
    (n : UInt64) (data : String) : R :=
  if d = "" then .error (.reject "denom required") else
  if n = 0 then .error (.reject "amount required") else
  if id ≠ "" ∧ data ≠ "" then .error (.reject "metadata while minting") else
  match authorize s d sender with
  | .error e => .error e
  | .ok _ =>
    if id ≠ "" then mintExisting s d id (if recipient = "" then sender else recipient) n
    else mintNew s d newId (if recipient = "" then sender else recipient) n data

def stepEdit (s : State) (sender : Addr) (d : DenomId) (id : MtId) (data : String) : R :=
  if id = "" then .error (.reject "id required") else
  if d = "" then .error (.reject "denom required") else
  match authorize s d sender with
  | .error e => .error e
  | .ok _ =>
    if !(AMap.contains s.mts (d, id)) then .error (.reject "mt not found") else
    if data ≠ doNotModify then .ok { s with mts := AMap.set s.mts (d, id) data } else .ok s

def stepTransfer (s : State) (sender recipient : Addr) (d : DenomId) (id : MtId) (n : UInt64) : R :=
  if id = "" then .error (.reject "id required") else
  if d = "" then .error (.reject "denom required") else
  if n = 0 then .error (.reject "amount required") else
  if balOf s sender d id < n then .error (.reject "insufficient balance") else
  addBalance (subBalance s sender d id n) recipient d id n

def stepBurn (s : State) (sender : Addr) (d : DenomId) (id : MtId) (n : UInt64) : R :=
  if id = "" then .error (.reject "id required") else
  if d = "" then .error (.reject "denom required") else
  if n = 0 then .error (.reject "amount required") else
  if balOf s sender d id < n then .error (.reject "insufficient balance") else
  .ok (decreaseSupply (subBalance s sender d id n) d id n)

def stepTransferDenom (s : State) (sender recipient : Addr) (id : DenomId) : R :=
  if id = "" then .error (.reject "denom required") else
  match authorize s id sender with
  | .error e => .error e
  | .ok _ =>
    match AMap.get? s.denoms id with
    | none => .error (.reject "denom not found")
    | some r => .ok { s with denoms := AMap.set s.denoms id { r with owner := recipient } }

def step (s : State) : Op → R
  | .issueDenom sender name data => stepIssueDenom s (genId "mt-denom-" s.denomSeq) sender name data
  | .mint sender d id recipient n data => stepMint s (genId "mt-" s.mtSeq) sender d id recipient n data
  | .edit sender d id data => stepEdit s sender d id data
  | .transfer sender recipient d id n => stepTransfer s sender recipient d id n
  | .burn sender d id n => stepBurn s sender d id n
  | .transferDenom sender recipient id => stepTransferDenom s sender recipient id

/-- the chain-level step: a rejected message leaves the state unchanged -/
def apply (s : State) (op : Op) : State :=
  match step s op with
  | .ok s' => s'
  | .error _ => s

def run (s : State) (ops : List Op) : State := ops.foldl apply s

end Irismod.Mt
