/-
Model of the coinswap module's genesis export / validation / import
(modules/coinswap/keeper/genesis.go ExportGenesis / InitGenesis, keeper/pool.go GetAllPools /
setPool, types/genesis.go ValidateGenesis, types/params.go Params.Validate), on top of the state
machine of `Irismod.Coinswap`.

The module genesis carries the parameters, the standard denom, the pool registry (id, standard
denom, counterparty denom, escrow address, liquidity denom of every pool) and the next pool
sequence.  Pool reserves and liquidity-token supplies live in the bank and are not part of it.

Abstractions (facts about the strings the module itself generates, not about its logic):
* the registry is the association list `State.pools` (counterparty denom ↦ sequence); `GetAllPools`
  iterates the store prefix `pool`, whose keys are `pool/pool-<counterparty>`, so it returns the
  pools in ascending order of the counterparty denom (`sortDedup`);
* a stored pool is determined by its counterparty denom and sequence: id `pool-<cp>`, liquidity
  denom `lpt-<n>`, escrow address `GetReservePoolAddr(lpt-<n>)` (symbolic `P<n>`), standard denom
  of the module.  A genesis document with a pool record not of this shape has no counterpart in
  the state model (`importGenesis` reports it as outside the model; exported documents never are);
* `Sequence` is a Go `uint64`; the model uses ℕ and the theorems assume fewer than 2^64 pools.

Core Lean only.
-/
import Irismod.Model.Coinswap
import Irismod.Model.MtGenesis

namespace Irismod.CoinswapGenesis
open Irismod Irismod.Sdk Irismod.Coinswap
open Irismod.MtGenesis (sortDedup)

/-! ### the genesis document (proto/irismod/coinswap/genesis.proto) -/

structure PoolRec where
  id     : String
  std    : Denom
  cp     : Denom
  escrow : Addr
  lpt    : Denom
  deriving DecidableEq, Repr, Inhabited

structure Genesis where
  params : Params := {}
  std    : Denom := "stake"
  pools  : List PoolRec := []
  seq    : Nat := 1
  deriving Repr, Inhabited

/-- `GetPoolId` -/
def poolId (cp : Denom) : String := "pool-" ++ cp

/-- the stored record of the pool on `cp` with sequence `n` (`CreatePool`) -/
def mkPool (std cp : Denom) (n : Nat) : PoolRec :=
  { id := poolId cp, std := std, cp := cp, escrow := poolAddr n, lpt := lptDenom n }

/-! ### ExportGenesis -/

/-- `GetAllPools`: ascending store-key order = ascending counterparty denom -/
def exportPools (s : State) : List PoolRec :=
  (sortDedup (AMap.keys s.pools)).map fun cp => mkPool s.std cp (AMap.getD s.pools cp 0)

def exportGenesis (s : State) : Genesis :=
  { params := s.params, std := s.std, pools := exportPools s, seq := s.seq }

/-! ### types.ValidateGenesis -/

/-- the loop over `data.Pool`; returns `maxSequence` -/
def validatePools : List PoolRec → List String → List String → Nat → Except Err Nat
  | [], _, _, mx => .ok mx
  | p :: t, ids, lpts, mx =>
    if ids.contains p.id then rej "duplicate pool"
    else if lpts.contains p.lpt then rej "duplicate lptDenom"
    else match lptSeq? p.lpt with
      | none => rej "invalid lpt denom"
      | some n =>
        if ¬ n < 18446744073709551616 then rej "invalid lpt denom"
        else if !validDenom p.cp then rej "invalid counterparty denom"
        else if !validDenom p.std then rej "invalid standard denom"
        else if !validAddr p.escrow then rej "invalid escrow address"
        else validatePools t (p.id :: ids) (p.lpt :: lpts) (max mx n)

def validateGenesis (g : Genesis) : Except Err Unit :=
  if !validDenom g.std then rej "invalid standard denom"
  else match validatePools g.pools [] [] 0 with
    | .error e => .error e
    | .ok mx =>
      if mx + 1 ≠ g.seq then rej "invalid sequence"
      else if !validParams g.params then rej "invalid params"
      else .ok ()

/-! ### InitGenesis -/

/-- the registry entry a pool record stands for, if it has the shape of a stored pool -/
def poolEntry (std : Denom) (p : PoolRec) : Option (Denom × Nat) :=
  match lptSeq? p.lpt with
  | none => none
  | some n => if p = mkPool std p.cp n then some (p.cp, n) else none

/-- `setPool` for every record, in document order (a later record with the same id overwrites) -/
def importPools (std : Denom) : List PoolRec → AMap Denom Nat → Option (AMap Denom Nat)
  | [], m => some m
  | p :: t, m =>
    match poolEntry std p with
    | none => none
    | some e => importPools std t (AMap.set m e.1 e.2)

/-- `InitGenesis` on an emptied module store; `env` supplies what the module genesis does not touch
(bank, block time, application configuration).  An invalid document is a panic. -/
def importGenesis (env : State) (g : Genesis) : Except Err State :=
  match validateGenesis g with
  | .error _ => pnc "invalid genesis"
  | .ok _ =>
    match importPools g.std g.pools [] with
    | none => rej "pool record outside the model"
    | some m => .ok { env with params := g.params, std := g.std, pools := m, seq := g.seq }

end Irismod.CoinswapGenesis
