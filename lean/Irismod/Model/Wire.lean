/-
Protobuf wire format (the part every generated marshaller of both code-generation families
implements): base-128 varints, tags, and the four wire types in use (varint, 64-bit,
length-delimited, 32-bit). A message is a sequence of fields `(number, payload)`; nested
messages, strings, bytes and packed repeated fields are length-delimited payloads.
Bytes are `Nat`s below 256. Core Lean only.
-/
namespace Irismod.Wire

/-- base-128 varint, least significant group first -/
def encodeVarint (n : Nat) : List Nat :=
  if h : n < 128 then [n] else (n % 128 + 128) :: encodeVarint (n / 128)
termination_by n
decreasing_by omega

/-- decoder with explicit shift/accumulator; fails on truncated input -/
def decodeVarintAux : List Nat → Nat → Nat → Option (Nat × List Nat)
  | [], _, _ => none
  | b :: rest, shift, acc =>
    if b < 128 then some (acc + b * 2 ^ shift, rest)
    else decodeVarintAux rest (shift + 7) (acc + (b - 128) * 2 ^ shift)

def decodeVarint (bs : List Nat) : Option (Nat × List Nat) := decodeVarintAux bs 0 0

inductive Payload where
  | varint (n : Nat)            -- wire type 0
  | fixed64 (bs : List Nat)     -- wire type 1, 8 bytes
  | bytes (bs : List Nat)       -- wire type 2
  | fixed32 (bs : List Nat)     -- wire type 5, 4 bytes
  deriving DecidableEq, Repr, Inhabited

structure Field where
  num : Nat
  val : Payload
  deriving DecidableEq, Repr, Inhabited

def wireType : Payload → Nat
  | .varint _ => 0 | .fixed64 _ => 1 | .bytes _ => 2 | .fixed32 _ => 5

def encodePayload : Payload → List Nat
  | .varint n => encodeVarint n
  | .fixed64 bs => bs
  | .bytes bs => encodeVarint bs.length ++ bs
  | .fixed32 bs => bs

def encodeField (f : Field) : List Nat :=
  encodeVarint (f.num * 8 + wireType f.val) ++ encodePayload f.val

def encodeFields : List Field → List Nat
  | [] => []
  | f :: fs => encodeField f ++ encodeFields fs

/-- a field is well-formed when its number is positive and fixed payloads have their width -/
def Field.WF (f : Field) : Prop :=
  1 ≤ f.num ∧ (match f.val with
    | .fixed64 bs => bs.length = 8
    | .fixed32 bs => bs.length = 4
    | _ => True)

def decodeField (bs : List Nat) : Option (Field × List Nat) :=
  match decodeVarint bs with
  | none => none
  | some (tag, rest) =>
    let num := tag / 8
    if num = 0 then none else
    match tag % 8 with
    | 0 => match decodeVarint rest with
      | none => none
      | some (n, rest') => some (⟨num, .varint n⟩, rest')
    | 1 => if rest.length < 8 then none else some (⟨num, .fixed64 (rest.take 8)⟩, rest.drop 8)
    | 2 => match decodeVarint rest with
      | none => none
      | some (len, rest') =>
        if rest'.length < len then none else some (⟨num, .bytes (rest'.take len)⟩, rest'.drop len)
    | 5 => if rest.length < 4 then none else some (⟨num, .fixed32 (rest.take 4)⟩, rest.drop 4)
    | _ => none

/-- decode a whole buffer; `fuel` bounds the number of fields (the buffer length suffices) -/
def decodeFieldsAux : Nat → List Nat → Option (List Field)
  | _, [] => some []
  | 0, _ :: _ => none
  | fuel + 1, bs =>
    match decodeField bs with
    | none => none
    | some (f, rest) =>
      match decodeFieldsAux fuel rest with
      | none => none
      | some fs => some (f :: fs)

def decodeFields (bs : List Nat) : Option (List Field) := decodeFieldsAux bs.length bs

end Irismod.Wire
