/-
Executable model of the farm module: modules/farm/keeper/{pool,farmer,queue,fees,msg_server}.go,
types/{farm,msgs,validation}.go and abci.go (EndBlocker), followed line by line, including
the behaviour that is wrong (floored reward debts; partial writes of a failing `Refund` inside
the EndBlocker, which has no transaction cache).  `AdjustPool` follows the code after commit
966aea0 (end height bounded by every reward rule).

A rejected or panicking *message* leaves the state unchanged (the transaction cache is
discarded).  The EndBlocker writes directly: a `Refund` that fails half-way keeps what it
wrote, so `updatePool`/`refund` return the state written so far together with the verdict.

Ghost (history) fields, never read by the modelled code and never printed:
`Rule.released/refunded/nRefund/acc/nRel` and the per-(farmer,pool,denom) `Ledger`.

Community-pool path (keeper/proposal.go, proposal_hook.go, msg_server.go
`CreatePoolWithCommunityPool`, the `distrModuleAddr.Equals(creator)` branch of `Refund`): the
distribution fee pool's community pool (`sdk.DecCoins`, raw 18-decimal units per denom), the
`EscrowCollector` module account ("escrow"), the escrow-info table, the distribution module
account ("distr") as pool creator, and the slice of x/gov the path goes through (proposal table
with status and the proposer's deposit held by the "gov" module account, `SubmitProposal` with
its dry run of the content handler, `AddDeposit`, and what gov's EndBlocker does with one
proposal: `cpPass` / `cpReject` / `cpFailDeposit`).  The hooks write into the block state and
swallow their errors: `refundEscrow` returns the state written so far.

Arithmetic: coin amounts are ℕ (sdkmath.Int's 256-bit overflow panic is outside the
alphabet: amounts stay far below 2^200); `rewardPerShare` is `Sdk.Dec` with the library's
315-bit range check on `Add`/`MulInt` and the 256-bit check of `TruncateInt`; `Int64()`
conversions panic beyond 2^63; the unchecked `int64` addition of `AdjustPool` (which wraps for
start heights near 2^63) is outside the alphabet.
-/
import Irismod.Sdk.Map
import Irismod.Sdk.Bank
import Irismod.Sdk.Dec18
import Irismod.Sdk.Line

namespace Irismod.Farm
open Irismod Irismod.Sdk

abbrev PoolId := String

inductive Err where
  | reject (why : String)
  | panic (why : String)
  deriving Repr, Inhabited

/-- a reward rule (store prefix 0x02) plus ghost counters -/
structure Rule where
  denom     : Denom
  total     : Nat
  remaining : Nat
  rpb       : Nat
  rps       : Dec
  /-- ghost: released to the reward collector so far -/
  released  : Nat := 0
  /-- ghost: returned to the creator by `Refund` -/
  refunded  : Nat := 0
  /-- ghost: number of `Refund` executions that reached this rule -/
  nRefund   : Nat := 0
  /-- ghost: exact (untruncated) reward per share Σ collected/totalLocked -/
  acc       : Rat := 0
  /-- ghost: number of releases -/
  nRel      : Nat := 0
  deriving Repr, Inhabited

/-- a farm pool (store prefix 0x06) with its rules in store order (by reward denom) -/
structure Pool where
  creator  : Addr
  desc     : String
  start    : Int
  endH     : Int
  last     : Int
  editable : Bool
  lpt      : Denom
  locked   : Nat
  rules    : List Rule
  deriving Repr, Inhabited

/-- farmer record (store prefix 0x03); `debt` is an `sdk.Coins` (zero-free, rule order) -/
structure Farmer where
  locked : Nat
  debt   : CoinList
  deriving Repr, Inhabited

/-- ghost ledger of one farmer in one pool for one reward denom -/
structure Ledger where
  /-- cumulative payout -/
  paid    : Nat := 0
  /-- Σ (Δ rewardPerShare.raw) × locked over the farmer's interaction intervals -/
  owed    : Int := 0
  /-- number of interactions (stake / unstake / harvest) -/
  n       : Nat := 0
  /-- rewardPerShare.raw at the last interaction -/
  mark    : Int := 0
  /-- exact rational stake-time share up to the last interaction -/
  exact   : Rat := 0
  accMark : Rat := 0
  relMark : Nat := 0
  /-- Σ locked × (number of releases in the interval) -/
  slack   : Nat := 0
  deriving Repr, Inhabited

/-- the content of a `CommunityPoolCreateFarmProposal` (title / description are gov metadata) -/
structure Content where
  desc     : String
  lpt      : Denom
  rpb      : CoinList
  applied  : CoinList
  selfBond : CoinList
  deriving Repr, Inhabited

/-- x/gov proposal status (a proposal that failed its minimum deposit is deleted) -/
inductive PStatus where
  | deposit | voting | passed | rejected | failed
  deriving Repr, Inhabited, DecidableEq

/-- the slice of a gov proposal the path reads: proposer, status, the proposer's deposit still
held by the gov module account, and the content the legacy handler executes -/
structure Proposal where
  proposer : Addr
  status   : PStatus
  deposit  : Nat
  content  : Content
  deriving Repr, Inhabited

/-- `EscrowInfo` (store prefix 0x07, key = proposal id) -/
structure Escrow where
  proposer : Addr
  applied  : CoinList
  selfBond : CoinList
  deriving Repr, Inhabited

/-- everything the community-pool path adds to the state -/
structure Cp where
  /-- `FeePool.CommunityPool`: raw 18-decimal units per denom -/
  pool       : AMap Denom Nat := []
  escrow     : AMap Nat Escrow := []
  props      : AMap Nat Proposal := []
  /-- gov's `ProposalID` sequence -/
  nextId     : Nat := 1
  /-- gov params: `MinDeposit` (in the bond denom) and `MinDeposit × MinDepositRatio` truncated -/
  minDeposit : Nat := 10000000
  minFirst   : Nat := 100000
  deriving Repr, Inhabited

structure Params where
  fee    : Nat := 5000
  tax    : Dec := ⟨400000000000000000⟩
  maxcat : Nat := 2
  deriving Repr, Inhabited

structure State where
  height  : Int := 1
  seq     : Nat := 0
  params  : Params := {}
  pools   : AMap PoolId Pool := []
  farmers : AMap (Addr × PoolId) Farmer := []
  /-- active-pool queue keys (end height, pool id) -/
  queue   : List (Int × PoolId) := []
  bank    : Bank := {}
  ledger  : AMap (Addr × PoolId × Denom) Ledger := []
  /-- output of the last accepted stake / unstake / harvest: the `Reward` of the response -/
  resp    : CoinList := []
  /-- community pool, escrow infos, gov proposals -/
  cp      : Cp := {}
  deriving Repr, Inhabited

inductive Op where
  | createPool (sender : Addr) (desc : String) (lpt : Denom) (start : Int) (rpb total : CoinList) (editable : Bool)
  | destroyPool (sender : Addr) (pool : PoolId)
  | adjustPool (sender : Addr) (pool : PoolId) (add rpb : Option CoinList)
  | stake (sender : Addr) (pool : PoolId) (denom : Denom) (amt : Nat)
  | unstake (sender : Addr) (pool : PoolId) (denom : Denom) (amt : Nat)
  | harvest (sender : Addr) (pool : PoolId)
  | endBlocks (n : Nat)
  /-- `MsgCreatePoolWithCommunityPool` -/
  | cpSubmit (proposer : Addr) (title : String) (content : Content) (deposit : CoinList)
  /-- gov's EndBlocker on one proposal whose voting period ended with a passing tally -/
  | cpPass (pid : Nat)
  /-- … with a failing tally (deposits refunded) -/
  | cpReject (pid : Nat)
  /-- gov's EndBlocker on one proposal whose deposit period ended below the minimum deposit -/
  | cpFailDeposit (pid : Nat)
  /-- `MsgFundCommunityPool` -/
  | fundCp (sender : Addr) (amt : CoinList)
  deriving Repr, Inhabited

abbrev R := Except Err State

/-! ### constants and small helpers -/

def farmAcc : Addr := "farm"
def collectorAcc : Addr := "collector"
def feesAcc : Addr := "fees"
def feeDenom : Denom := "stake"
/-- the `EscrowCollector` module account -/
def escrowAcc : Addr := "escrow"
/-- the distribution module account (`communityPoolName`): holds the community pool's coins and
is the creator of every pool funded from it -/
def distrAcc : Addr := "distr"
/-- the gov module account (holds the deposits) -/
def govAcc : Addr := "gov"
/-- gov's deposit denom (the bond denom) -/
def depositDenom : Denom := "stake"
/-- 10^18: one coin unit in `sdk.DecCoin` raw units -/
def decUnit : Nat := 1000000000000000000

def maxI64 : Int := 9223372036854775807
def pow63 : Nat := 9223372036854775808
def pow64 : Int := 18446744073709551616

/-- `sdk.Coins.AmountOf` on a sorted, duplicate-free list -/
def amountOf : CoinList → Denom → Nat
  | [], _ => 0
  | (d, n) :: t, k => if d = k then n else amountOf t k

/-- the zero-free part of a coin list (`sdk.Coins.Add` / `NewCoins` drop zero coins) -/
def nonzero (cs : CoinList) : CoinList := cs.filter (fun c => c.2 ≠ 0)

/-- strictly increasing by denom: what every client produces (`ParseCoinsNormalized`, `NewCoins`);
unsorted or duplicate lists are outside the operation alphabet (`ValidateBasic` panics or
mis-searches on them) -/
def sortedCoins : CoinList → Bool
  | (a, _) :: (b, y) :: t => decide (a < b) && sortedCoins ((b, y) :: t)
  | _ => true

/-- accounts without a key: they never sign a message -/
def isModuleAcc (a : Addr) : Bool :=
  a = "farm" || a = "collector" || a = "fees" || a = "escrow" || a = "distr" || a = "gov"

/-- the liquidity-pool token denoms coinswap's `ValidatePool` accepts in the harness universe -/
def validLpt (d : Denom) : Bool := d = "lpt-1" || d = "lpt-2"

def digitsVal : List Char → Nat → Option Nat
  | [], acc => some acc
  | c :: cs, acc => if '0' ≤ c ∧ c ≤ '9' then digitsVal cs (acc * 10 + (c.toNat - 48)) else none

/-- `strconv.ParseUint(s, 10, 64)` up to the range check -/
def uintOf (cs : List Char) : Option Nat := if cs = [] then none else digitsVal cs 0

/-- the number a pool id carries: `farm-<n>` (or bare `<n>`), as `strings.TrimPrefix` +
`strconv.ParseUint` read it (written over `String.toList` so that the kernel can evaluate it
on literals) -/
def poolNum? (id : PoolId) : Option Nat :=
  match id.toList with
  | 'f' :: 'a' :: 'r' :: 'm' :: '-' :: rest => uintOf rest
  | l => uintOf l

/-- `ValidatepPoolId`: the number is a non-zero uint64 -/
def validPoolId (id : PoolId) : Bool :=
  match poolNum? id with
  | some n => n ≠ 0 && n < 18446744073709551616
  | none => false

def getPool (s : State) (id : PoolId) : Option Pool := AMap.get? s.pools id
def setPool (s : State) (id : PoolId) (p : Pool) : State := { s with pools := AMap.set s.pools id p }
def getFarmer (s : State) (a : Addr) (id : PoolId) : Option Farmer := AMap.get? s.farmers (a, id)

def enqueue (s : State) (id : PoolId) (h : Int) : State :=
  if s.queue.contains (h, id) then s else { s with queue := s.queue ++ [(h, id)] }
def dequeue (s : State) (id : PoolId) (h : Int) : State :=
  { s with queue := s.queue.filter (fun e => !(e == (h, id))) }

/-- `Keeper.Expired` incl. the same-height rule -/
def expired (s : State) (id : PoolId) (p : Pool) : Bool :=
  if s.height > p.endH then true
  else if s.height = p.endH then !(s.queue.contains (p.endH, id))
  else false

/-- bank multi-coin send as a verdict -/
def sendAll (s : State) (src dst : Addr) (cs : CoinList) : Except Err State :=
  match Bank.sendCoins s.bank src dst cs with
  | none => .error (.reject "insufficient funds")
  | some b => .ok { s with bank := b }

/-! ### updatePool -/

/-- one iteration of the release loop of `updatePool` -/
def collectRule (interval locked : Nat) (r : Rule) : Except Err Rule :=
  if r.remaining < r.rpb * interval then .error (.reject "remaining reward insufficient") else
  match (Dec.ofInt ((r.rpb * interval : Nat) : Int)).quoInt (locked : Int) with
  | none => .error (.panic "division by zero")
  | some q =>
    match r.rps.add q with
    | none => .error (.panic "decimal overflow")
    | some rps' =>
      .ok { r with rps := rps', remaining := r.remaining - r.rpb * interval,
                   released := r.released + r.rpb * interval,
                   acc := r.acc + ((r.rpb * interval : Nat) : Rat) / (locked : Rat),
                   nRel := r.nRel + 1 }

/-- the loop: rules written so far (a failing rule and its successors are left as they
were) and the verdict -/
def collectRules (interval locked : Nat) : List Rule → List Rule × Option Err
  | [] => ([], none)
  | r :: rs =>
    match collectRule interval locked r with
    | .error e => (r :: rs, some e)
    | .ok r' => ((r' :: (collectRules interval locked rs).1), (collectRules interval locked rs).2)

/-- the coins collected in one release (`rewardTotal`) -/
def collectedCoins (interval : Nat) (rs : List Rule) : CoinList :=
  nonzero (rs.map fun r => (r.denom, r.rpb * interval))

/-- tail of `updatePool`: totals, last height, destroy marker, `SetPool` -/
def finishUpdate (s : State) (id : PoolId) (p : Pool) (rs : List Rule) (amount : Int) (isDestroy : Bool) :
    State × Except Err Pool :=
  if (p.locked : Int) + amount < 0 then (s, .error (.panic "negative coin amount")) else
  (setPool s id { p with locked := ((p.locked : Int) + amount).toNat, last := s.height, rules := rs,
                         endH := if isDestroy then s.height else p.endH,
                         start := if isDestroy && decide (p.start > s.height) then s.height else p.start },
   .ok { p with locked := ((p.locked : Int) + amount).toNat, last := s.height, rules := rs,
                endH := if isDestroy then s.height else p.endH,
                start := if isDestroy && decide (p.start > s.height) then s.height else p.start })

/-- after a successful loop: store the rules, move the collected coins to the collector -/
def releaseAndFinish (s : State) (id : PoolId) (p : Pool) (rs : List Rule) (coins : CoinList)
    (amount : Int) (isDestroy : Bool) : State × Except Err Pool :=
  if coins = [] then finishUpdate (setPool s id { p with rules := rs }) id p rs amount isDestroy else
  match sendAll (setPool s id { p with rules := rs }) farmAcc collectorAcc coins with
  | .error e => (setPool s id { p with rules := rs }, .error e)
  | .ok s1 => finishUpdate s1 id p rs amount isDestroy

/-- `updatePool`: the store after the writes performed so far, and the updated pool or the error.
`p` is the stored record of pool `id`. -/
def updatePool (s : State) (id : PoolId) (p : Pool) (amount : Int) (isDestroy : Bool) : State × Except Err Pool :=
  if s.height < p.last then (s, .error (.reject "expired height")) else
  if p.rules.isEmpty then (s, .error (.reject "pool not found")) else
  if s.height > p.last ∧ p.locked > 0 then
    match (collectRules (s.height - p.last).toNat p.locked p.rules).2 with
    | some e => (setPool s id { p with rules := (collectRules (s.height - p.last).toNat p.locked p.rules).1 }, .error e)
    | none => releaseAndFinish s id p (collectRules (s.height - p.last).toNat p.locked p.rules).1
                (collectedCoins (s.height - p.last).toNat p.rules) amount isDestroy
  else finishUpdate s id p p.rules amount isDestroy

/-! ### CaclRewards -/

/-- `floor(rps × locked)` as `RewardPerShare.MulInt(locked).TruncateInt()` -/
def shareOf (rps : Dec) (locked : Int) : Option Int :=
  match rps.mulInt locked with
  | none => none
  | some d => d.truncateInt

/-- `CaclRewards`: (rewards, rewardDebt), both zero-free; `none` = panic
(decimal overflow or negative coin) -/
def caclRewards : List Rule → Farmer → Int → Option (CoinList × CoinList)
  | [], _, _ => some ([], [])
  | r :: rs, f, delta =>
    match shareOf r.rps (f.locked : Int), shareOf r.rps ((f.locked : Int) + delta), caclRewards rs f delta with
    | some tot, some debt, some (rw, db) =>
      if f.locked > 0 ∧ tot - (amountOf f.debt r.denom : Int) < 0 then none
      else if debt < 0 then none
      else some (nonzero [(r.denom, if f.locked > 0 then (tot - (amountOf f.debt r.denom : Int)).toNat else 0)] ++ rw,
                 nonzero [(r.denom, debt.toNat)] ++ db)
    | _, _, _ => none

/-- ghost: book one interaction of farmer `a` in pool `id` (rules after the pool update) -/
def bookLedger (lg : AMap (Addr × PoolId × Denom) Ledger) (a : Addr) (id : PoolId) (locked : Nat)
    (rewards : CoinList) : List Rule → AMap (Addr × PoolId × Denom) Ledger
  | [] => lg
  | r :: rs =>
    bookLedger
      (AMap.set lg (a, id, r.denom)
        { paid := (AMap.getD lg (a, id, r.denom) {}).paid + amountOf rewards r.denom,
          owed := (AMap.getD lg (a, id, r.denom) {}).owed + (r.rps.raw - (AMap.getD lg (a, id, r.denom) {}).mark) * (locked : Int),
          n := (AMap.getD lg (a, id, r.denom) {}).n + 1,
          mark := r.rps.raw,
          exact := (AMap.getD lg (a, id, r.denom) {}).exact + (r.acc - (AMap.getD lg (a, id, r.denom) {}).accMark) * (locked : Rat),
          accMark := r.acc,
          relMark := r.nRel,
          slack := (AMap.getD lg (a, id, r.denom) {}).slack + locked * (r.nRel - (AMap.getD lg (a, id, r.denom) {}).relMark) })
      a id locked rewards rs

/-- pay the rewards from the collector (only when `rewards.IsAllPositive()`, i.e. non-empty) -/
def payRewards (s : State) (a : Addr) (rewards : CoinList) : Except Err State :=
  if rewards = [] then .ok s else sendAll s collectorAcc a rewards

/-! ### message handlers -/

/-- `ValidateReward`, index by index -/
def validateRewardLoop : CoinList → CoinList → Except Err Unit
  | (_, t) :: ts, (_, r) :: rs =>
    if t < r then .error (.reject "total < per block")
    else if r = 0 then .error (.panic "division by zero")
    else if t / r ≥ pow63 then .error (.reject "int64 overflow")
    else validateRewardLoop ts rs
  | _, _ => .ok ()

def validateReward (rpb total : CoinList) : Except Err Unit :=
  if rpb.length ≠ total.length then .error (.reject "lengths differ")
  else if rpb.any (fun c => amountOf total c.1 = 0) then .error (.reject "denoms differ")
  else validateRewardLoop total rpb

/-- `ExpiredHeight`: min over rules of total / rpb (`none`: division by zero or Int64 overflow panic) -/
def minInterval : List Rule → Option Nat
  | [] => some pow63.pred
  | r :: rs =>
    if r.rpb = 0 then none
    else if r.total / r.rpb ≥ pow63 then none
    else match minInterval rs with
      | none => none
      | some m => some (if m > r.total / r.rpb then r.total / r.rpb else m)

def newRules (total rpb : CoinList) : List Rule :=
  total.map fun c => { denom := c.1, total := c.2, remaining := c.2, rpb := amountOf rpb c.1, rps := Dec.zero }

/-- `DeductPoolCreationFee` -/
def deductFee (s : State) (creator : Addr) : Except Err State :=
  match (Dec.ofInt (s.params.fee : Int)).mul s.params.tax with
  | none => .error (.panic "decimal overflow")
  | some t =>
    match t.truncateInt with
    | none => .error (.panic "int overflow")
    | some tax =>
      if tax < 0 ∨ tax > (s.params.fee : Int) then .error (.panic "negative coin amount") else
      match Bank.send s.bank creator farmAcc feeDenom s.params.fee with
      | none => .error (.reject "insufficient funds")
      | some b1 =>
        match Bank.send b1 farmAcc feesAcc feeDenom tax.toNat with
        | none => .error (.reject "insufficient funds")
        | some b2 =>
          match Bank.burn b2 farmAcc feeDenom (s.params.fee - tax.toNat) with
          | none => .error (.reject "insufficient funds")
          | some b3 => .ok { s with bank := b3 }

/-- keeper `createPool` after fee and escrow -/
def createPoolCore (s : State) (id : PoolId) (creator : Addr) (desc : String) (lpt : Denom) (start : Int)
    (rpb total : CoinList) (editable : Bool) : R :=
  -- ids come from a strictly increasing sequence; a clash cannot happen (modelling guard)
  if (getPool s id).isSome then .error (.panic "pool id clash") else
  match minInterval (newRules total rpb) with
  | none => .error (.panic "division by zero")
  | some m =>
    if maxI64 - start < (m : Int) then .error (.reject "endheight overflow") else
    .ok (enqueue
      { s with seq := s.seq + 1,
               pools := AMap.set s.pools id
                 { creator := creator, desc := desc, start := start, endH := start + (m : Int), last := 0,
                   editable := editable, lpt := lpt, locked := 0, rules := newRules total rpb } }
      id (start + (m : Int)))

def stepCreatePool (s : State) (id : PoolId) (sender : Addr) (desc : String) (lpt : Denom) (start : Int)
    (rpb total : CoinList) (editable : Bool) : R :=
  if !(sortedCoins rpb && sortedCoins total) then .error (.reject "outside the alphabet: unsorted coins") else
  -- ValidateBasic
  if desc.utf8ByteSize > 280 then .error (.reject "description") else
  if rpb = [] then .error (.reject "rewardPerBlock empty") else
  if total = [] then .error (.reject "totalReward empty") else
  match validateReward rpb total with
  | .error e => .error e
  | .ok _ =>
    -- msg server
    if s.height > start then .error (.reject "start height passed") else
    if total.length > s.params.maxcat then .error (.reject "too many reward categories") else
    if !(validLpt lpt) then .error (.reject "invalid lp token") else
    match deductFee s sender with
    | .error e => .error e
    | .ok s1 =>
      match sendAll s1 sender farmAcc total with
      | .error e => .error e
      | .ok s2 => createPoolCore s2 id sender desc lpt start rpb total editable

/-- `Refund` zeroes every rule's remaining budget (ghost: books it as refunded) -/
def zeroRules (rs : List Rule) : List Rule :=
  rs.map fun r => { r with remaining := 0, refunded := r.refunded + r.remaining, nRefund := r.nRefund + 1 }

/-- `refundTotal` -/
def refundCoins (rs : List Rule) : CoinList := nonzero (rs.map fun r => (r.denom, r.remaining))

/-! ### the community pool (distribution fee pool) -/

def cpGet (m : AMap Denom Nat) (d : Denom) : Nat := AMap.getD m d 0

/-- `CommunityPool.Add(sdk.NewDecCoinsFromCoins(coins...)...)` -/
def cpAddCoins (m : AMap Denom Nat) : CoinList → AMap Denom Nat
  | [] => m
  | (d, n) :: t => cpAddCoins (AMap.set m d (cpGet m d + n * decUnit)) t

/-- `CommunityPool.SafeSub(sdk.NewDecCoinsFromCoins(coins...))`; `none` = negative -/
def cpSubCoins (m : AMap Denom Nat) : CoinList → Option (AMap Denom Nat)
  | [] => some m
  | (d, n) :: t => if cpGet m d < n * decUnit then none else cpSubCoins (AMap.set m d (cpGet m d - n * decUnit)) t

/-- the fee-pool leg of `refundToFeePool` / `FundCommunityPool` (`GetFeePool`, `Add`, `SetFeePool`),
performed iff `b` -/
def creditIf (b : Bool) (s : State) (coins : CoinList) : State :=
  { s with cp := { s.cp with pool := if b then cpAddCoins s.cp.pool coins else s.cp.pool } }

/-- `Refund`: state written so far and the verdict.  When the creator is the distribution module
account the coins go there by `refundToFeePool` (module-to-module send, then the fee pool is
credited); otherwise to the creator's account. -/
def refund (s : State) (id : PoolId) (p : Pool) : State × Option Err :=
  match updatePool (dequeue s id p.endH) id p 0 true with
  | (s1, .error e) => (s1, some e)
  | (s1, .ok p1) =>
    if refundCoins p1.rules = [] then
      (setPool s1 id { p1 with rules := zeroRules p1.rules }, some (.reject "no remaining reward"))
    else
      match sendAll (setPool s1 id { p1 with rules := zeroRules p1.rules }) farmAcc p1.creator (refundCoins p1.rules) with
      | .error e => (setPool s1 id { p1 with rules := zeroRules p1.rules }, some e)
      | .ok s2 => (creditIf (p1.creator == distrAcc) s2 (refundCoins p1.rules), none)

def stepDestroyPool (s : State) (sender : Addr) (id : PoolId) : R :=
  match getPool s id with
  | none => .error (.reject "pool not found")
  | some p =>
    if sender ≠ p.creator then .error (.reject "unauthorized") else
    if !p.editable then .error (.reject "not editable") else
    if expired s id p then .error (.reject "pool expired") else
    match refund s id p with
    | (_, some e) => .error e
    | (s1, none) => .ok s1

/-- the coins `availableReward` of `AdjustPool` (sorted by denom, zero-free) -/
def availableReward (started : Bool) (remH : Nat) (add : CoinList) (rs : List Rule) : CoinList :=
  if started then nonzero (rs.map fun r => (r.denom, r.rpb * remH + amountOf add r.denom))
  else nonzero (rs.map fun r => (r.denom, r.total))

/-- `availableHeight` of `AdjustPool` (after commit 966aea0): the minimum over *every* reward
rule of `availableReward.AmountOf(rule.reward) / rule.rewardPerBlock`, starting from the
sentinel −1; `none`: division by zero or `Int64()` out of range (panic) -/
def availableHeight (avail : CoinList) : List Rule → Option Int
  | [] => some (-1)
  | r :: rs =>
    if r.rpb = 0 then none
    else if amountOf avail r.denom / r.rpb ≥ pow63 then none
    else match availableHeight avail rs with
      | none => none
      | some m => some (if m < 0 ∨ m > ((amountOf avail r.denom / r.rpb : Nat) : Int)
                        then ((amountOf avail r.denom / r.rpb : Nat) : Int) else m)

/-- top-up and `UpdateWith` -/
def adjustRules (add rpb : CoinList) (rs : List Rule) : List Rule :=
  rs.map fun r => { r with total := r.total + amountOf add r.denom, remaining := r.remaining + amountOf add r.denom,
                           rpb := if amountOf rpb r.denom > 0 then amountOf rpb r.denom else r.rpb }

/-- the part of `AdjustPool` after `updatePool` and the escrow of the additional reward.
The Go code adds `startHeight + availableHeight` in `int64` without a check (it wraps for start
heights near 2^63); that corner is outside the operation alphabet and is a panic here. -/
def adjustCore (s : State) (id : PoolId) (p1 : Pool) (startHeight : Int) (started : Bool) (add rpb : CoinList) : R :=
  match availableHeight (availableReward started (p1.endH - startHeight).toNat add (adjustRules add [] p1.rules))
          (adjustRules add rpb p1.rules) with
  | none => .error (.panic "division by zero / Int64 out of bound")
  | some ah =>
    if startHeight + ah > maxI64 then .error (.panic "outside the alphabet: int64 end height overflow") else
    if startHeight + ah = p1.endH then
      .ok (setPool s id { p1 with rules := adjustRules add rpb p1.rules })
    else
      .ok (enqueue (setPool (dequeue s id p1.endH) id
              { p1 with rules := adjustRules add rpb p1.rules, endH := startHeight + ah })
            id (startHeight + ah))

/-- keeper `AdjustPool` on the stored record `p` (`add`/`rpb`: the message's coin lists, empty = absent) -/
def adjustPoolAt (s : State) (sender : Addr) (id : PoolId) (p : Pool) (add rpb : CoinList) : R :=
  if !p.editable then .error (.reject "not editable") else
  if sender ≠ p.creator then .error (.reject "unauthorized") else
  if expired s id p then .error (.reject "pool expired") else
  if rpb.length > p.rules.length ∨ rpb.any (fun c => !(p.rules.any fun r => r.denom = c.1))
    then .error (.reject "invalid append: rewardPerBlock") else
  if add.length > (p.rules.filter fun r => r.remaining ≠ 0).length ∨
     add.any (fun c => !(p.rules.any fun r => r.denom = c.1 ∧ r.remaining ≠ 0))
    then .error (.reject "invalid append: reward") else
  match updatePool s id p 0 false with
  | (_, .error e) => .error e
  | (s1, .ok p1) =>
    if add.any (fun c => c.2 = 0) then .error (.reject "invalid coins") else
    match sendAll s1 sender farmAcc add with
    | .error e => .error e
    | .ok s2 =>
      adjustCore s2 id p1 (if p.start ≤ s.height then s.height else p.start) (decide (p1.start ≤ s.height)) add rpb

def stepAdjustPool (s : State) (sender : Addr) (id : PoolId) (add rpb : Option CoinList) : R :=
  if !(sortedCoins (add.getD []) && sortedCoins (rpb.getD [])) then .error (.reject "outside the alphabet: unsorted coins") else
  -- ValidateBasic
  if !(validPoolId id) then .error (.reject "invalid pool id") else
  if add.isNone ∧ rpb.isNone then .error (.reject "all empty") else
  if add = some [] ∨ rpb = some [] then .error (.reject "empty coins") else
  match getPool s id with
  | none => .error (.reject "pool not found")
  | some p => adjustPoolAt s sender id p (add.getD []) (rpb.getD [])

def stepStake (s : State) (sender : Addr) (id : PoolId) (denom : Denom) (amt : Nat) : R :=
  if !(validPoolId id) then .error (.reject "invalid pool id") else
  -- ValidateBasic since commit 67e8fd2: the amount must be positive
  if amt = 0 then .error (.reject "amount must be positive") else
  match getPool s id with
  | none => .error (.reject "pool not found")
  | some p =>
    if p.start > s.height then .error (.reject "pool not started") else
    if expired s id p then .error (.reject "pool expired") else
    if denom ≠ p.lpt then .error (.reject "denom mismatch") else
    match sendAll s sender farmAcc (nonzero [(denom, amt)]) with
    | .error e => .error e
    | .ok s1 =>
      match updatePool s1 id p (amt : Int) false with
      | (_, .error e) => .error e
      | (s2, .ok p1) =>
        match caclRewards p1.rules ((getFarmer s sender id).getD { locked := 0, debt := [] }) (amt : Int) with
        | none => .error (.panic "negative coin amount / overflow")
        | some (rewards, debt) =>
          match payRewards s2 sender rewards with
          | .error e => .error e
          | .ok s3 =>
            .ok { s3 with
              farmers := AMap.set s3.farmers (sender, id)
                { locked := ((getFarmer s sender id).getD { locked := 0, debt := [] }).locked + amt, debt := debt },
              ledger := bookLedger s3.ledger sender id ((getFarmer s sender id).getD { locked := 0, debt := [] }).locked rewards p1.rules,
              resp := rewards }

/-- the pool leg of `Unstake`: after expiry only the total moves, otherwise `updatePool` -/
def unstakePool (s : State) (id : PoolId) (p : Pool) (amt : Nat) : State × Except Err Pool :=
  if expired s id p then (setPool s id { p with locked := p.locked - amt }, .ok { p with locked := p.locked - amt })
  else updatePool s id p (-(amt : Int)) false

/-- `Unstake` on the stored pool `p` and farmer `f`, up to (not including) the payment of the
rewards: the state with the principal returned and the pool updated, the updated pool, the
rewards due and the new debt -/
def unstakeAt (s : State) (sender : Addr) (id : PoolId) (denom : Denom) (amt : Nat) (p : Pool) (f : Farmer) :
    Except Err (State × Pool × CoinList × CoinList) :=
  if f.locked < amt then .error (.reject "unstake more than staked") else
  if p.locked < amt then .error (.reject "unstake more than pool total") else
  match unstakePool s id p amt with
  | (_, .error e) => .error e
  | (s1, .ok p1) =>
    match sendAll s1 farmAcc sender (nonzero [(denom, amt)]) with
    | .error e => .error e
    | .ok s2 =>
      match caclRewards p1.rules f (-(amt : Int)) with
      | none => .error (.panic "negative coin amount / overflow")
      | some (rewards, debt) => .ok (s2, p1, rewards, debt)

/-- the last leg of `Unstake`: pay the rewards, write the farmer -/
def unstakeFinish (s2 : State) (sender : Addr) (id : PoolId) (amt : Nat) (f : Farmer) (p1 : Pool)
    (rewards debt : CoinList) : R :=
  match payRewards s2 sender rewards with
  | .error _ => .error (.reject "reward collector: insufficient funds")
  | .ok s3 =>
    .ok { s3 with
      farmers := if f.locked - amt = 0 then AMap.erase s3.farmers (sender, id)
                 else AMap.set s3.farmers (sender, id) { locked := f.locked - amt, debt := debt },
      ledger := bookLedger s3.ledger sender id f.locked rewards p1.rules,
      resp := rewards }

def stepUnstake (s : State) (sender : Addr) (id : PoolId) (denom : Denom) (amt : Nat) : R :=
  if !(validPoolId id) then .error (.reject "invalid pool id") else
  -- ValidateBasic since commit 67e8fd2: the amount must be positive
  if amt = 0 then .error (.reject "amount must be positive") else
  match getPool s id with
  | none => .error (.reject "pool not found")
  | some p =>
    if denom ≠ p.lpt then .error (.reject "denom mismatch") else
    match getFarmer s sender id with
    | none => .error (.reject "farmer not found")
    | some f =>
      match unstakeAt s sender id denom amt p f with
      | .error e => .error e
      | .ok (s2, p1, rewards, debt) => unstakeFinish s2 sender id amt f p1 rewards debt

def stepHarvest (s : State) (sender : Addr) (id : PoolId) : R :=
  if !(validPoolId id) then .error (.reject "invalid pool id") else
  match getPool s id with
  | none => .error (.reject "pool not found")
  | some p =>
    if expired s id p then .error (.reject "pool expired") else
    match getFarmer s sender id with
    | none => .error (.reject "farmer not found")
    | some f =>
      match updatePool s id p 0 false with
      | (_, .error e) => .error e
      | (s1, .ok p1) =>
        match caclRewards p1.rules f 0 with
        | none => .error (.panic "negative coin amount / overflow")
        | some (rewards, debt) =>
          match payRewards s1 sender rewards with
          | .error e => .error e
          | .ok s2 =>
            .ok { s2 with farmers := AMap.set s2.farmers (sender, id) { f with debt := debt },
                          ledger := bookLedger s2.ledger sender id f.locked rewards p1.rules,
                          resp := rewards }

/-! ### EndBlocker -/

/-- insertion into a list of pool ids sorted bytewise (the store's iteration order) -/
def insertId (x : PoolId) : List PoolId → List PoolId
  | [] => [x]
  | y :: ys => if x < y then x :: y :: ys else y :: insertId x ys

def sortIds (xs : List PoolId) : List PoolId := xs.foldr insertId []

/-- the pool ids queued at the current height, in store order -/
def dueIds (s : State) : List PoolId :=
  sortIds ((s.queue.filter fun e => e.1 = s.height).map (·.2))

/-- `IteratorExpiredPool` callback for one id: `Refund`, error logged and dropped
(its partial writes stay); a panic aborts the block -/
def endBlockOne (s : State) (id : PoolId) : Except Err State :=
  match getPool s id with
  | none => .ok s
  | some p =>
    match refund s id p with
    | (_, some (.panic e)) => .error (.panic e)
    | (s1, _) => .ok s1

def endBlockIds : State → List PoolId → Except Err State
  | s, [] => .ok s
  | s, id :: ids =>
    match endBlockOne s id with
    | .error e => .error e
    | .ok s1 => endBlockIds s1 ids

/-- the module's EndBlocker at the current height -/
def endBlocker (s : State) : Except Err State := endBlockIds s (dueIds s)

/-- `n` block boundaries: EndBlocker at the current height, then the next height.  Stops at
the first panicking EndBlocker (the real chain halts there); the flag reports it. -/
def endBlocks : Nat → State → State × Bool
  | 0, s => (s, false)
  | n + 1, s =>
    match endBlocker s with
    | .error _ => (s, true)
    | .ok s1 => endBlocks n { s1 with height := s1.height + 1 }

/-! ### community-pool farms: MsgCreatePoolWithCommunityPool, the proposal handler, the gov hooks -/

/-- `genPoolId` -/
def poolIdOf (seq : Nat) : PoolId := "farm-" ++ toString seq

/-- `coins.Add(c)` on a list sorted by denom -/
def addCoin (c : Denom × Nat) : CoinList → CoinList
  | [] => [c]
  | (d, n) :: t =>
    if c.1 < d then c :: (d, n) :: t
    else if c.1 = d then (d, n + c.2) :: t
    else (d, n) :: addCoin c t

/-- `sdk.NewCoins(a...).Add(b...)` on sorted lists: per-denom sums, zero coins dropped -/
def mergeCoins (a b : CoinList) : CoinList := nonzero (b.foldl (fun acc c => addCoin c acc) a)

/-- `total := sdk.NewCoins(p.FundApplied...).Add(p.FundSelfBond...)` -/
def totalOf (c : Content) : CoinList := mergeCoins c.applied c.selfBond

/-- `HandleCreateFarmProposal`: move the escrowed total to the farm module account and create a
non-editable pool owned by the distribution module account, starting at the current height.  (The
three guards never fire on a stored proposal: they are functions of the content alone, the
content is immutable, and `SubmitProposal` ran this very handler on it; on submission they
cannot fire either for a content that passed `ValidateBasic` — the pool description is at most
280 bytes, `total` has `len(applied) + len(selfBond) ≥ 1` entries and merging sorted lists gives
a sorted list (`Proofs.Farm.cpHandler_guards_never_fire`).  They spare the invariant proofs a
stored-content invariant.) -/
def cpHandler (s : State) (c : Content) : R :=
  if c.desc.utf8ByteSize > 280 then .error (.panic "outside the alphabet: description") else
  if totalOf c = [] then .error (.panic "outside the alphabet: empty total") else
  if !(sortedCoins (totalOf c)) then .error (.panic "outside the alphabet: unsorted total") else
  match sendAll s escrowAcc farmAcc (totalOf c) with
  | .error e => .error e
  | .ok s1 => createPoolCore s1 (poolIdOf (s1.seq + 1)) distrAcc c.desc c.lpt s1.height c.rpb (totalOf c) false

/-- `escrowFromFeePool` -/
def escrowFromFeePool (s : State) (applied : CoinList) : R :=
  match cpSubCoins s.cp.pool applied with
  | none => .error (.reject "bad distribution")
  | some pool' =>
    match sendAll s distrAcc escrowAcc applied with
    | .error e => .error e
    | .ok s1 => .ok { s1 with cp := { s1.cp with pool := pool' } }

/-- gov `SubmitProposal` (after the dry run) + `AddDeposit` + `SetEscrowInfo` -/
def cpRecord (s : State) (proposer : Addr) (c : Content) (deposit : CoinList) : R :=
  -- AddDeposit: only the bond denom; at least MinDeposit × MinDepositRatio in it
  if deposit.any (fun x => x.1 ≠ depositDenom) then .error (.reject "invalid deposit denom") else
  if deposit = [] ∨ amountOf deposit depositDenom < s.cp.minFirst then .error (.reject "min deposit too small") else
  match sendAll s proposer govAcc deposit with
  | .error e => .error e
  | .ok s1 =>
    .ok { s1 with cp := { s1.cp with
      props := AMap.set s1.cp.props s1.cp.nextId
        { proposer := proposer,
          status := if amountOf deposit depositDenom ≥ s1.cp.minDeposit then .voting else .deposit,
          deposit := amountOf deposit depositDenom, content := c },
      nextId := s1.cp.nextId + 1,
      escrow := AMap.set s1.cp.escrow s1.cp.nextId { proposer := proposer, applied := c.applied, selfBond := c.selfBond } } }

/-- the msg server after `ValidateBasic` -/
def cpSubmitCore (s : State) (proposer : Addr) (c : Content) (deposit : CoinList) : R :=
  if (totalOf c).length > s.params.maxcat then .error (.reject "too many reward categories") else
  if !(validLpt c.lpt) then .error (.reject "invalid lp token") else
  match sendAll s proposer escrowAcc c.selfBond with
  | .error e => .error e
  | .ok s1 =>
    match escrowFromFeePool s1 c.applied with
    | .error e => .error e
    | .ok s2 =>
      -- gov SubmitProposal runs the legacy content handler once on a cache context that is dropped
      match cpHandler s2 c with
      | .error e => .error e
      | .ok _ => cpRecord s2 proposer c deposit

def stepCpSubmit (s : State) (proposer : Addr) (title : String) (c : Content) (deposit : CoinList) : R :=
  if !(sortedCoins c.rpb && sortedCoins c.applied && sortedCoins c.selfBond) then
    .error (.reject "outside the alphabet: unsorted coins") else
  -- ValidateBasic
  if !(sortedCoins deposit) ∨ deposit.any (fun x => x.2 = 0) then .error (.reject "invalid initial deposit") else
  if title = "" then .error (.reject "proposal title") else
  if c.desc.utf8ByteSize > 280 then .error (.reject "description") else
  if c.rpb = [] then .error (.reject "rewardPerBlock empty") else
  if c.applied = [] then .error (.reject "fundApplied empty") else
  if c.applied.length + c.selfBond.length ≠ (totalOf c).length then .error (.reject "invalid proposal: overlapping or zero funds") else
  match validateReward c.rpb (totalOf c) with
  | .error e => .error e
  | .ok _ => cpSubmitCore s proposer c deposit

/-- `MsgFundCommunityPool`: `validateAmount`, then `FundCommunityPool` -/
def stepFundCp (s : State) (sender : Addr) (amt : CoinList) : R :=
  if !(sortedCoins amt) then .error (.reject "outside the alphabet: unsorted coins") else
  if amt = [] ∨ amt.any (fun x => x.2 = 0) then .error (.reject "invalid amount") else
  match sendAll s sender distrAcc amt with
  | .error e => .error e
  | .ok s1 => .ok (creditIf true s1 amt)

def delEscrow (s : State) (pid : Nat) : State :=
  { s with cp := { s.cp with escrow := AMap.erase s.cp.escrow pid } }

def setProp (s : State) (pid : Nat) (pr : Proposal) : State :=
  { s with cp := { s.cp with props := AMap.set s.cp.props pid pr } }

def delProp (s : State) (pid : Nat) : State :=
  { s with cp := { s.cp with props := AMap.erase s.cp.props pid } }

/-- `refundEscrow`: every error is swallowed, what was written before it stays -/
def refundEscrow (s : State) (pid : Nat) (e : Escrow) : State :=
  match sendAll s escrowAcc e.proposer e.selfBond with
  | .error _ => s
  | .ok s1 =>
    -- refundToFeePool(ctx, EscrowCollector, sdk.NewCoins(info.FundApplied...))
    match sendAll s1 escrowAcc distrAcc (nonzero e.applied) with
    | .error _ => s1
    | .ok s2 => delEscrow (creditIf true s2 (nonzero e.applied)) pid

/-- `GovHook.AfterProposalVotingPeriodEnded` -/
def hookVotingEnded (s : State) (pid : Nat) : State :=
  match AMap.get? s.cp.escrow pid with
  | none => s
  | some info =>
    match AMap.get? s.cp.props pid with
    | none => s
    | some pr => if pr.status = .passed then delEscrow s pid else refundEscrow s pid info

/-- `GovHook.AfterProposalFailedMinDeposit` -/
def hookFailedMinDeposit (s : State) (pid : Nat) : State :=
  match AMap.get? s.cp.escrow pid with
  | none => s
  | some info => refundEscrow s pid info

/-- gov `RefundAndDeleteDeposits` (an error aborts gov's EndBlocker: the chain halts) -/
def refundDeposit (s : State) (pr : Proposal) : Except Err State :=
  if pr.deposit = 0 then .ok s else
  match sendAll s govAcc pr.proposer [(depositDenom, pr.deposit)] with
  | .error _ => .error (.panic "gov: refund deposits")
  | .ok s1 => .ok s1

/-- gov's EndBlocker on a proposal in its voting period: refund the deposits, (tally passed:) run
the content handler on a cache context — written only when it succeeds, any error or panic makes
the proposal `Failed` —, store the proposal, call the hook.  The flag reports an aborted block. -/
def govTally (s : State) (pid : Nat) (pr : Proposal) (passes : Bool) : State × Bool :=
  match refundDeposit s pr with
  | .error _ => (s, true)
  | .ok s1 =>
    if passes then
      match cpHandler s1 pr.content with
      | .ok s2 => (hookVotingEnded (setProp s2 pid { pr with status := .passed, deposit := 0 }) pid, false)
      | .error _ => (hookVotingEnded (setProp s1 pid { pr with status := .failed, deposit := 0 }) pid, false)
    else (hookVotingEnded (setProp s1 pid { pr with status := .rejected, deposit := 0 }) pid, false)

/-- `cpPass` / `cpReject`: a proposal in its voting period is tallied; one still in its deposit
period is not due (nothing happens); for a proposal gov has finished with (or never had) only
the hook is called again — a call gov itself never makes, which must change nothing. -/
def govVote (s : State) (pid : Nat) (passes : Bool) : State × Bool :=
  match AMap.get? s.cp.props pid with
  | none => (hookVotingEnded s pid, false)
  | some pr =>
    if pr.status = .voting then govTally s pid pr passes
    else if pr.status = .deposit then (s, false)
    else (hookVotingEnded s pid, false)

/-- `cpFailDeposit`: gov's EndBlocker on a proposal whose deposit period ended: `DeleteProposal`,
`RefundAndDeleteDeposits`, the hook.  Same convention for proposals that are not due. -/
def govFailDeposit (s : State) (pid : Nat) : State × Bool :=
  match AMap.get? s.cp.props pid with
  | none => (hookFailedMinDeposit s pid, false)
  | some pr =>
    if pr.status = .deposit then
      match refundDeposit (delProp s pid) pr with
      | .error _ => (s, true)
      | .ok s1 => (hookFailedMinDeposit s1 pid, false)
    else if pr.status = .voting then (s, false)
    else (hookFailedMinDeposit s pid, false)

/-- is the gov operation due (the result word of the observation: `ok` when gov processes the
proposal, `rej` when the operation is only the repeated hook call or nothing) -/
def govDue (s : State) (pid : Nat) (wantDeposit : Bool) : Bool :=
  match AMap.get? s.cp.props pid with
  | none => false
  | some pr => if wantDeposit then pr.status = .deposit else pr.status = .voting

/-! ### dispatch -/

def Op.sender : Op → Addr
  | .createPool a .. | .destroyPool a _ | .adjustPool a .. | .stake a .. | .unstake a .. | .harvest a _ => a
  | .cpSubmit a .. | .fundCp a _ => a
  | .endBlocks _ | .cpPass _ | .cpReject _ | .cpFailDeposit _ => ""

def stepMsg (s : State) : Op → R
  | .createPool sender desc lpt start rpb total editable =>
    stepCreatePool s (poolIdOf (s.seq + 1)) sender desc lpt start rpb total editable
  | .destroyPool sender id => stepDestroyPool s sender id
  | .adjustPool sender id add rpb => stepAdjustPool s sender id add rpb
  | .stake sender id denom amt => stepStake s sender id denom amt
  | .unstake sender id denom amt => stepUnstake s sender id denom amt
  | .harvest sender id => stepHarvest s sender id
  | .cpSubmit proposer title c deposit => stepCpSubmit s proposer title c deposit
  | .fundCp sender amt => stepFundCp s sender amt
  | .endBlocks _ | .cpPass _ | .cpReject _ | .cpFailDeposit _ => .ok s

def step (s : State) : Op → R
  | .endBlocks n => if (endBlocks n s).2 then .error (.panic "end blocker") else .ok (endBlocks n s).1
  | .cpPass pid => if (govVote s pid true).2 then .error (.panic "gov end blocker") else .ok (govVote s pid true).1
  | .cpReject pid => if (govVote s pid false).2 then .error (.panic "gov end blocker") else .ok (govVote s pid false).1
  | .cpFailDeposit pid => if (govFailDeposit s pid).2 then .error (.panic "gov end blocker") else .ok (govFailDeposit s pid).1
  | op => if isModuleAcc op.sender then .error (.reject "outside the alphabet: module accounts do not sign") else stepMsg s op

/-- the chain-level step: a rejected message leaves the state unchanged; block ends (the farm
EndBlocker, gov's EndBlocker on one proposal) keep whatever they wrote -/
def apply (s : State) (op : Op) : State :=
  match op with
  | .endBlocks n => (endBlocks n s).1
  | .cpPass pid => (govVote s pid true).1
  | .cpReject pid => (govVote s pid false).1
  | .cpFailDeposit pid => (govFailDeposit s pid).1
  | _ =>
    match step s op with
    | .ok s' => s'
    | .error _ => s

def run (s : State) (ops : List Op) : State := ops.foldl apply s

end Irismod.Farm
