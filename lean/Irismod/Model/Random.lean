/-
Executable model of the random module (modules/random/abci.go, keeper/{keeper,msg_server,
service}.go, types/{rng,request,keys,msgs}.go).

State: the pending request queue (key = (uint64(dueHeight), requestId) -> request), the
generated randoms (requestId -> (request tx hash, height, value)), the oracle requests
waiting for a seed (service context id -> request), and the block header fields the module
reads (height, block time in unix seconds, app hash).

* `RequestRandom`: rejected when blockInterval > uint64(MaxInt64 - currentHeight) (the due
  height must fit `int64`, fix f728afa); otherwise dueHeight = currentHeight + int64(blockInterval),
  kept modulo 2^64 exactly as the queue key `uint64(height)` sees it;
  requestId = sha256(bigEndian64(height) ++ consumer bech32 string).
* `BeginBlocker` at height H drains the queue entries whose key height is uint64(H-1).
* `GetRand` divides by the block time's unix seconds with `big.Int.Div` (Euclidean; panics
  on zero) — modelled literally: `none` = panic.
* oracle path: the service module is the environment. The outcome of `RequestService`
  (a new service context id, or an error) and of `StartRequestContext` (per context) is part
  of the operation; the bookkeeping of the module itself is modelled exactly.

Handlers take the id function and the PRNG as parameters (`step` instantiates them with the
SHA-256 based definitions), so the proofs never unfold SHA-256. Core Lean only.
-/
import Irismod.Sdk.Map
import Irismod.Sdk.Sha256
import Irismod.Sdk.Line

namespace Irismod.Random
open Irismod

abbrev Id := Array UInt8     -- a request id: the 32 bytes of a SHA-256 sum

structure Request where
  height   : Int             -- int64: height of the requesting block
  consumer : String          -- bech32
  txHash   : String          -- lower-case hex of sha256(tx bytes)
  oracle   : Bool
  feeCap   : String          -- canonical coins string ("" when none)
  ctxId    : String          -- service context id, upper-case hex ("" when none)
  deriving DecidableEq, Repr, Inhabited

structure Rand where
  txHash : String
  height : Int
  value  : String
  deriving DecidableEq, Repr, Inhabited

structure State where
  queue      : AMap (Nat × Id) Request := []
  randoms    : AMap Id Rand := []
  oracleReqs : AMap String Request := []
  ctxs       : List String := []        -- service contexts created for this module's requests
  height     : Int := 1
  unix       : Int := 1
  hash       : ByteArray := ByteArray.empty
  addrs      : List (String × ByteArray) := []   -- bech32 -> raw address bytes (universe)
  deriving Inhabited

/-- what the service module handed to `HandlerResponse` -/
inductive Output where
  | empty                       -- no outputs
  | valid (seed : ByteArray)    -- body passes the schema: 64 hex digits, i.e. a 32-byte seed
  | invalidBody                 -- body fails the random service's output schema
  deriving Inhabited

/-- what `RequestService` did (the service module and the bank are the environment) -/
inductive Svc where
  | ok (ctxId : String)        -- a paused request context was created
  | err                        -- no binding / insufficient balance / context creation failed
  | panic                      -- the provider choice seeds `GetRand` with the block time in ns: zero divides
  deriving Inhabited

inductive Op where
  | beginBlock (h t : Int) (hash : ByteArray) (started : List String)
  | request (consumer : String) (consumerOk : Bool) (interval : Nat) (txBytes : ByteArray) (feeOk : Bool)
  | requestOracle (consumer : String) (consumerOk : Bool) (interval : Nat) (txBytes : ByteArray)
      (feeCap : String) (feeOk : Bool) (svc : Svc)
  | cbResponse (ctxId : String) (out : Output) (err : Bool)
  | cbState (ctxId : String)
  deriving Inhabited

inductive Err where
  | reject (why : String)
  | panic (why : String)
  deriving Repr, Inhabited

abbrev R := Except Err State

/-! ### integers and bytes -/

def two64 : Int := 18446744073709551616

/-- `uint64(x)` of an `int64`/wrapped sum: the queue key's height -/
def u64 (x : Int) : Nat := (x % two64).toNat

/-- `uint64(math.MaxInt64 - currentHeight)`: the largest accepted block interval -/
def maxInterval (height : Int) : Nat := u64 (9223372036854775807 - height)

/-- `sdk.Uint64ToBigEndian` -/
def be64 (n : Nat) : List UInt8 :=
  [UInt8.ofNat (n / 72057594037927936 % 256), UInt8.ofNat (n / 281474976710656 % 256),
   UInt8.ofNat (n / 1099511627776 % 256), UInt8.ofNat (n / 4294967296 % 256),
   UInt8.ofNat (n / 16777216 % 256), UInt8.ofNat (n / 65536 % 256),
   UInt8.ofNat (n / 256 % 256), UInt8.ofNat (n % 256)]

/-- `new(big.Int).SetBytes` -/
def natOfBytes (b : ByteArray) : Nat := b.foldl (fun acc x => acc * 256 + x.toNat) 0

def natBytesAux : Nat → Nat → List UInt8 → List UInt8
  | 0, _, acc => acc
  | fuel + 1, n, acc => if n = 0 then acc else natBytesAux fuel (n / 256) (UInt8.ofNat (n % 256) :: acc)

/-- `big.Int.Bytes`: minimal big-endian bytes of the absolute value (empty for 0) -/
def bytesOfNat (n : Nat) : ByteArray := ByteArray.mk (natBytesAux (n + 1) n []).toArray

def shaNat (b : ByteArray) : Nat := natOfBytes (Sha256.sum b)

def prec : Nat := 100000000000000000000      -- 10^20

/-- `PRNG.GetRand` as the numerator over 10^20; `none` = `big.Int.Div` by zero panics -/
def prngNum (blockHash : ByteArray) (t : Int) (initiator : ByteArray) (oracle : Bool) (seed : ByteArray) :
    Option Nat :=
  if t = 0 then none else
  let bh : Int := Int.ediv (shaNat blockHash) t
  let ti : Int := Int.ediv (shaNat initiator) t
  let os : Int := if oracle then Int.ediv (shaNat seed) t else 0
  some (shaNat (bytesOfNat (t + bh + ti + os).natAbs) % prec)

def pad20 (s : String) : String := "".pushn '0' (20 - s.length) ++ s

/-- `big.Rat.FloatString(20)` of `n / 10^20` with `n < 10^20` -/
def valueString (n : Nat) : String := "0." ++ pad20 (toString n)

def prngValue (blockHash : ByteArray) (t : Int) (initiator : ByteArray) (oracle : Bool) (seed : ByteArray) :
    Option String := (prngNum blockHash t initiator oracle seed).map valueString

/-- `GenerateRequestID` -/
def ridPre (height : Int) (consumer : String) : List UInt8 := be64 (u64 height) ++ consumer.toUTF8.data.toList

def requestId (height : Int) (consumer : String) : Id :=
  (Sha256.sum (ByteArray.mk (ridPre height consumer).toArray)).data

def txHashOf (txBytes : ByteArray) : String := Line.hexOfBytes (Sha256.sum txBytes)

/-! ### handlers -/

/-- `RequestRandom` without oracle: enqueue at `height + interval` -/
def stepRequest (rid : Int → String → Id) (s : State) (consumer : String) (consumerOk : Bool)
    (interval : Nat) (txHash : String) (feeOk : Bool) : R :=
  if !consumerOk then .error (.reject "invalid consumer") else
  if !feeOk then .error (.reject "invalid service fee cap") else
  if interval > maxInterval s.height then .error (.reject "block interval too large") else
  .ok { s with queue := AMap.set s.queue (u64 (s.height + interval), rid s.height consumer)
                 { height := s.height, consumer := consumer, txHash := txHash, oracle := false,
                   feeCap := "", ctxId := "" } }

/-- `RequestRandom` with oracle: `svc` is what `RequestService` returned -/
def stepRequestOracle (rid : Int → String → Id) (s : State) (consumer : String) (consumerOk : Bool)
    (interval : Nat) (txHash : String) (feeCap : String) (feeOk : Bool) (svc : Svc) : R :=
  if !consumerOk then .error (.reject "invalid consumer") else
  if !feeOk then .error (.reject "invalid service fee cap") else
  if interval > maxInterval s.height then .error (.reject "block interval too large") else
  match svc with
  | .err => .error (.reject "request service failed")
  | .panic => .error (.panic "division by zero")
  | .ok ctxId =>
    .ok { s with ctxs := ctxId :: s.ctxs,
                 queue := AMap.set s.queue (u64 (s.height + interval), rid s.height consumer)
                   { height := s.height, consumer := consumer, txHash := txHash, oracle := true,
                     feeCap := feeCap, ctxId := ctxId } }

/-- the body of the `BeginBlocker` loop for one due request -/
def processOne (rid : Int → String → Id) (rnd : String → Option String) (started : List String)
    (last : Int) (s : State) (req : Request) : R :=
  if req.oracle then
    if started.contains req.ctxId then
      .ok { s with oracleReqs := AMap.set s.oracleReqs req.ctxId req,
                   queue := AMap.erase s.queue (u64 last, rid req.height req.consumer) }
    else
      .ok { s with queue := AMap.erase s.queue (u64 last, rid req.height req.consumer) }
  else
    match rnd req.consumer with
    | none => .error (.panic "division by zero")
    | some v =>
      .ok { s with randoms := AMap.set s.randoms (rid req.height req.consumer)
                     { txHash := req.txHash, height := last, value := v },
                   queue := AMap.erase s.queue (u64 last, rid req.height req.consumer) }

def processAll (rid : Int → String → Id) (rnd : String → Option String) (started : List String)
    (last : Int) : State → List Request → R
  | s, [] => .ok s
  | s, r :: t =>
    match processOne rid rnd started last s r with
    | .error e => .error e
    | .ok s1 => processAll rid rnd started last s1 t

/-- the requests the iterator over prefix `uint64(last)` visits -/
def dueRequests (q : AMap (Nat × Id) Request) (k : Nat) : List Request :=
  (q.filter fun e => e.1.1 == k).map (·.2)

def withHeader (s : State) (h t : Int) (hash : ByteArray) : State :=
  { s with height := h, unix := t, hash := hash }

/-- `BeginBlocker` under the header (h, t, hash) -/
def stepBeginBlock (rid : Int → String → Id) (rnd : String → Option String) (started : List String)
    (s : State) (h t : Int) (hash : ByteArray) : R :=
  processAll rid rnd started (h - 1) (withHeader s h t hash) (dueRequests s.queue (u64 (h - 1)))

/-- `HandlerResponse` -/
def stepCbResponse (rid : Int → String → Id) (rndO : String → ByteArray → Option String)
    (s : State) (ctxId : String) (out : Output) (err : Bool) : R :=
  let dropped : State := { s with oracleReqs := AMap.erase s.oracleReqs ctxId }
  match out, err with
  | .empty, true => .ok dropped
  | .empty, false => .error (.panic "nil error dereferenced")
  | _, true => .ok dropped
  | o, false =>
    if !(s.ctxs.contains ctxId) then .ok dropped else
    match AMap.get? s.oracleReqs ctxId with
    | none => .ok dropped
    | some req =>
      match o with
      | .valid seed =>
        (match rndO req.consumer seed with
         | none => .error (.panic "division by zero")
         | some v =>
           .ok { dropped with randoms := AMap.set s.randoms (rid req.height req.consumer)
                                { txHash := req.txHash, height := s.height - 1, value := v } })
      | _ => .ok s

/-- `HandlerStateChanged` -/
def stepCbState (s : State) (ctxId : String) : R :=
  if s.ctxs.contains ctxId then .ok { s with oracleReqs := AMap.erase s.oracleReqs ctxId } else .ok s

def addrBytes (s : State) (bech : String) : ByteArray := (s.addrs.lookup bech).getD ByteArray.empty

def step (s : State) : Op → R
  | .beginBlock h t hash started =>
    stepBeginBlock requestId (fun c => prngValue hash t (addrBytes s c) false ByteArray.empty) started s h t hash
  | .request c ok n tx feeOk => stepRequest requestId s c ok n (txHashOf tx) feeOk
  | .requestOracle c ok n tx fee feeOk svc => stepRequestOracle requestId s c ok n (txHashOf tx) fee feeOk svc
  | .cbResponse ctxId out err =>
    stepCbResponse requestId (fun c seed => prngValue s.hash s.unix (addrBytes s c) true seed) s ctxId out err
  | .cbState ctxId => stepCbState s ctxId

def apply (s : State) (op : Op) : State :=
  match step s op with
  | .ok s' => s'
  | .error _ => s

def run (s : State) (ops : List Op) : State := ops.foldl apply s

end Irismod.Random
