/-
Minimal self-contained model of the timestamp rule of HTLC creation versus genesis validation
(modules/htlc/keeper/htlc.go CreateHTLC / createHTLT, types/msgs.go ValidateBasic,
types/htlc.go HTLC.Validate, types/genesis.go ValidateGenesis, genesis.go ExportGenesis).

Only the fields the two rules look at are modelled: id, timestamp, expiration height,
transfer flag (HTLT), open/closed. `htltTsOk now ts` stands for the HTLT-only check of the
timestamp against the clock (`createHTLT`); a plain HTLC's timestamp is not checked at all
(`GetHashLock` hashes the secret alone when the timestamp is 0). Core Lean only.
-/
import Irismod.Sdk.Map

namespace Irismod.HtlcGenesis
open Irismod

structure Contract where
  timestamp        : Nat
  expirationHeight : Nat
  transfer         : Bool
  isOpen           : Bool
  deriving DecidableEq, Repr, Inhabited

structure State where
  height : Nat := 1
  time   : Nat := 0
  htlcs  : AMap String Contract := []
  deriving Repr, Inhabited

inductive Op where
  | create (id : String) (ts timeLock : Nat) (transfer : Bool)
  | close (id : String)            -- claim or refund: the contract stays in the store, not open
  | nextBlock (dt : Nat)
  deriving Repr, Inhabited

/-- `createHTLT`: the timestamp must lie within [-15 min, +30 min) of the clock -/
def htltTsOk (now ts : Nat) : Bool := decide (now ≤ ts + 900) && decide (ts < now + 1800)

def newContract (s : State) (ts timeLock : Nat) (transfer : Bool) : Contract :=
  { timestamp := ts, expirationHeight := s.height + timeLock, transfer := transfer, isOpen := true }

def step (s : State) : Op → Option State
  | .create id ts timeLock transfer =>
    if timeLock < 50 ∨ 34560 < timeLock then none            -- ValidateTimeLock
    else if AMap.contains s.htlcs id then none               -- ErrHTLCExists
    else if transfer && !(htltTsOk s.time ts) then none      -- HTLT only
    else some { s with htlcs := AMap.set s.htlcs id (newContract s ts timeLock transfer) }
  | .close id =>
    match AMap.get? s.htlcs id with
    | none => none
    | some c => if c.isOpen then some { s with htlcs := AMap.set s.htlcs id { c with isOpen := false } } else none
  | .nextBlock dt => some { s with height := s.height + 1, time := s.time + dt }

def apply (s : State) (op : Op) : State := (step s op).getD s
def run (s : State) (ops : List Op) : State := ops.foldl apply s

/-- `ExportGenesis`: the open contracts -/
def exportGenesis (s : State) : List (String × Contract) := s.htlcs.filter (fun e => e.2.isOpen)

/-- the rules of `HTLC.Validate` over the modelled fields -/
def validateContract (c : Contract) : Bool :=
  decide (c.expirationHeight ≠ 0) && decide (c.timestamp ≠ 0)

/-- `HTLC.Validate` with fixes/F-gen-1.diff: the timestamp rule only for HTLTs -/
def validateContractFixed (c : Contract) : Bool :=
  decide (c.expirationHeight ≠ 0) && (!c.transfer || decide (c.timestamp ≠ 0))

/-- `ValidateGenesis`: no duplicate id, every contract open and valid -/
def validateWith (vc : Contract → Bool) : List String → List (String × Contract) → Bool
  | _, [] => true
  | seen, (id, c) :: t => !seen.contains id && c.isOpen && vc c && validateWith vc (id :: seen) t

def validateGenesis (g : List (String × Contract)) : Bool := validateWith validateContract [] g
def validateGenesisFixed (g : List (String × Contract)) : Bool := validateWith validateContractFixed [] g

end Irismod.HtlcGenesis
