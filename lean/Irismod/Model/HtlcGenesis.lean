/-
Minimal self-contained model of the timestamp rule of HTLC creation versus genesis validation
(modules/htlc/keeper/htlc.go CreateHTLC / createHTLT, types/msgs.go ValidateBasic,
types/htlc.go HTLC.Validate, types/genesis.go ValidateGenesis, genesis.go ExportGenesis).

(The full genesis functions on the complete HTLC model are in the second half of this file, namespace
`Irismod.HtlcGen`; this mini-model is kept for the history of finding F-gen-1, fixed by 1f718dc.)
Only the fields the two rules look at are modelled: id, timestamp, expiration height,
transfer flag (HTLT), open/closed. `htltTsOk now ts` stands for the HTLT-only check of the
timestamp against the clock (`createHTLT`); a plain HTLC's timestamp is not checked at all
(`GetHashLock` hashes the secret alone when the timestamp is 0). Core Lean only.
-/
import Irismod.Sdk.Map
import Irismod.Model.Htlc

namespace Irismod.HtlcGenesis
open Irismod

structure Contract where
  timestamp        : Nat
  expirationHeight : Nat
  transfer         : Bool
  isOpen           : Bool
  deriving DecidableEq, Repr, Inhabited

structure State where
  height : Nat := 1
  time   : Nat := 0
  htlcs  : AMap String Contract := []
  deriving Repr, Inhabited

inductive Op where
  | create (id : String) (ts timeLock : Nat) (transfer : Bool)
  | close (id : String)            -- claim or refund: the contract stays in the store, not open
  | nextBlock (dt : Nat)
  deriving Repr, Inhabited

/-- `createHTLT`: the timestamp must lie within [-15 min, +30 min) of the clock -/
def htltTsOk (now ts : Nat) : Bool := decide (now ≤ ts + 900) && decide (ts < now + 1800)

def newContract (s : State) (ts timeLock : Nat) (transfer : Bool) : Contract :=
  { timestamp := ts, expirationHeight := s.height + timeLock, transfer := transfer, isOpen := true }

def step (s : State) : Op → Option State
  | .create id ts timeLock transfer =>
    if timeLock < 50 ∨ 34560 < timeLock then none            -- ValidateTimeLock
    else if AMap.contains s.htlcs id then none               -- ErrHTLCExists
    else if transfer && !(htltTsOk s.time ts) then none      -- HTLT only
    else some { s with htlcs := AMap.set s.htlcs id (newContract s ts timeLock transfer) }
  | .close id =>
    match AMap.get? s.htlcs id with
    | none => none
    | some c => if c.isOpen then some { s with htlcs := AMap.set s.htlcs id { c with isOpen := false } } else none
  | .nextBlock dt => some { s with height := s.height + 1, time := s.time + dt }

def apply (s : State) (op : Op) : State := (step s op).getD s
def run (s : State) (ops : List Op) : State := ops.foldl apply s

/-- `ExportGenesis`: the open contracts -/
def exportGenesis (s : State) : List (String × Contract) := s.htlcs.filter (fun e => e.2.isOpen)

/-- the rules of `HTLC.Validate` over the modelled fields BEFORE the repair 1f718dc (finding
F-gen-1): the timestamp had to be non-zero for every contract -/
def validateContractPre (c : Contract) : Bool :=
  decide (c.expirationHeight ≠ 0) && decide (c.timestamp ≠ 0)

/-- `HTLC.Validate` as it is (since 1f718dc): the timestamp rule only for HTLTs -/
def validateContractFixed (c : Contract) : Bool :=
  decide (c.expirationHeight ≠ 0) && (!c.transfer || decide (c.timestamp ≠ 0))

abbrev validateContract := validateContractFixed

/-- `ValidateGenesis`: no duplicate id, every contract open and valid -/
def validateWith (vc : Contract → Bool) : List String → List (String × Contract) → Bool
  | _, [] => true
  | seen, (id, c) :: t => !seen.contains id && c.isOpen && vc c && validateWith vc (id :: seen) t

/-- `ValidateGenesis` before 1f718dc -/
def validateGenesisPre (g : List (String × Contract)) : Bool := validateWith validateContractPre [] g
/-- `ValidateGenesis` as it is -/
def validateGenesisFixed (g : List (String × Contract)) : Bool := validateWith validateContractFixed [] g
abbrev validateGenesis := validateGenesisFixed

end Irismod.HtlcGenesis

/-!
## The genesis functions of the HTLC module on the full model state

`modules/htlc/genesis.go` (`ExportGenesis`, `InitGenesis`), `types/genesis.go` (`ValidateGenesis`),
`types/htlc.go` (`HTLC.Validate`, `AssetSupply.Validate`) on top of `Irismod.Htlc.State`, literally:

* `ExportGenesis`: the parameters, the OPEN contracts (closed ones are dropped by design), all asset
  supplies, and the previous block time (`DefaultPreviousBlockTime` — a process-start `time.Now()` —
  when the key is absent: the parameter `defaultPrev`).
* `ValidateGenesis`: `Params.Validate`; per contract: no duplicate id, state open, `HTLC.Validate`
  (after 1f718dc: the timestamp rule only for HTLTs); per supply: no duplicate denom.
  Not modelled (fixed by the line protocol): bech32 syntax of sender / recipient, the length bound of
  the two other-chain addresses, `sdk.Coin.IsValid` of the four coins of a supply record (one denom and
  natural amounts by construction of the model's `Supply`).
* `InitGenesis` on a wiped module store: validation (panic), previous block time, parameters,
  supplies, then per contract: plain → store + queue; HTLT → the asset of its coin must be listed and
  active (panic otherwise: class F-gen-5), store + queue, amount added to the incoming / outgoing
  tally; finally every stored supply is compared with the tallies and the asset's limit (panic on a
  mismatch, on a missing asset — F-gen-5 — or on a limit below current / incoming / their sum /
  outgoing — F-gen-5).  The bank, the height and the clock are not touched.
Core Lean only.
-/
namespace Irismod.HtlcGen
open Irismod Irismod.Sdk Irismod.Htlc

structure Genesis where
  params   : List Asset
  htlcs    : List (Id × Contract)
  supplies : List (Denom × Supply)
  prevTime : Nat
  deriving Repr, Inhabited

def isOpen (c : Contract) : Bool := c.state == .open

/-- `ExportGenesis` -/
def exportGenesis (defaultPrev : Nat) (s : State) : Genesis :=
  { params := s.params, htlcs := s.htlcs.filter (fun e => isOpen e.2), supplies := s.supplies,
    prevTime := s.prevTime.getD defaultPrev }

/-- `HTLC.Validate` over the modelled fields -/
def validateContract (id : Id) (c : Contract) : Bool :=
  hexOk64 id && hexOk64 c.hashLock && decide (c.expiration ≠ 0) &&
  !(c.transfer && c.timestamp == 0) &&
  !(c.transfer && c.amount.length != 1) && coinsValid c.amount &&
  !(c.state == .completed && c.closedBlock == 0) &&
  !(!c.transfer && c.direction != .none) &&
  !(c.transfer && c.direction == .none) &&
  !(c.state != .completed && c.secret != "") &&
  !(c.state == .completed && c.secret.length != 64)

/-- the contract loop of `ValidateGenesis` -/
def validateHtlcs : List Id → List (Id × Contract) → Bool
  | _, [] => true
  | seen, (id, c) :: t =>
    !seen.contains id && isOpen c && validateContract id c && validateHtlcs (id :: seen) t

/-- the supply loop of `ValidateGenesis` -/
def validateSupplies : List Denom → List (Denom × Supply) → Bool
  | _, [] => true
  | seen, (d, _) :: t => !seen.contains d && validateSupplies (d :: seen) t

/-- `ValidateGenesis` -/
def validateGenesis (g : Genesis) : Bool :=
  paramsValid g.params && validateHtlcs [] g.htlcs && validateSupplies [] g.supplies

/-- the `SetAssetSupply` loop -/
def setSupplies (l : List (Denom × Supply)) : AMap Denom Supply :=
  l.foldl (fun m e => AMap.set m e.1 e.2) []

/-- the wiped module store after `SetPreviousBlockTime`, `SetParams` and the supply loop; bank,
height and clock are the environment's -/
def baseState (env : State) (g : Genesis) : State :=
  { env with htlcs := [], queue := [], supplies := setSupplies g.supplies, params := g.params,
             prevTime := some g.prevTime }

/-- incoming / outgoing tallies (`sdk.Coins` sums, read with `AmountOf`) -/
abbrev Tally := Coins × Coins

/-- one iteration of the contract loop of `InitGenesis` -/
def importHtlc (s : State) (acc : Tally) (id : Id) (c : Contract) : Except Err (State × Tally) :=
  if c.state ≠ .open then .error (.panic "htlc has invalid status") else
  if !c.transfer then .ok (record s id c, acc) else
  match c.amount with
  | [] => .error (.panic "index out of range")
  | (d, _) :: _ =>
    match findAsset s.params d with
    | none => .error (.panic "asset not found")
    | some a =>
      if !a.active then .error (.panic "asset is currently inactive") else
      match c.direction with
      | .incoming => .ok (record s id c, (acc.1 ++ c.amount, acc.2))
      | .outgoing => .ok (record s id c, (acc.1, acc.2 ++ c.amount))
      | .none => .error (.panic "htlt has invalid direction")

def importHtlcs (s : State) (acc : Tally) : List (Id × Contract) → Except Err (State × Tally)
  | [] => .ok (s, acc)
  | (id, c) :: t =>
    match importHtlc s acc id c with
    | .error e => .error e
    | .ok r => importHtlcs r.1 r.2 t

/-- the checks of one stored supply record at the end of `InitGenesis` -/
def checkSupply (ps : List Asset) (acc : Tally) (d : Denom) (sup : Supply) : Bool :=
  sup.incoming == coinAmt acc.1 d && sup.outgoing == coinAmt acc.2 d &&
  match findAsset ps d with
  | none => false
  | some a =>
    decide (sup.current ≤ a.limit) && decide (sup.incoming ≤ a.limit) &&
    decide (sup.incoming + sup.current ≤ a.limit) && decide (sup.outgoing ≤ a.limit)

/-- `InitGenesis` on a wiped module store (`env` supplies bank, height, clock) -/
def importGenesis (env : State) (g : Genesis) : Except Err State :=
  if !validateGenesis g then .error (.panic "invalid genesis") else
  match importHtlcs (baseState env g) ([], []) g.htlcs with
  | .error e => .error e
  | .ok r =>
    if r.1.supplies.all (fun e => checkSupply r.1.params r.2 e.1 e.2) then .ok r.1
    else .error (.panic "asset supply check failed")

/-- export, wipe, import: the state the chain restarts from (the exported state itself when the
import panics: the chain could not start) -/
def reimport (defaultPrev : Nat) (s : State) : State :=
  match importGenesis s (exportGenesis defaultPrev s) with
  | .ok s' => s'
  | .error _ => s

end Irismod.HtlcGen
