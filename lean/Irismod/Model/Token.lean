/-
Executable model of the token module: modules/token/keeper/{keeper,token,fees,erc20,evm_hook,
msg_server,legacy_msg_server,params}.go, types/{types,validation}.go, types/v1/{msgs,token,params}.go,
types/v1beta1/{msgs,token}.go.

The model follows the code as it is.  Notably
* `EditToken` compares the new max supply with the circulating amount in min units
  (`maxSupply · 10^scale < supply` is rejected; repaired by /repo 9de2d2d, was F-tok-1);
* `LossLessSwap` is the exact-integer algorithm of /repo be84bab (was F-tok-2/3/4): one input
  min unit is worth `num/den = ratio·10^so / (10^18·10^si)` output min units; the output is
  `⌊input·num/den⌋`, the input taken is `⌈output·den/num⌉`, `(0, 0)` for a non-positive
  input or ratio;
* the issue fee uses `(ln len / ln 3)^4` printed with two decimals: a table over the symbol
  lengths 3..64 (compared with the real function by the harness on every run);
* every v1 message is `ValidateBasic` followed by the msg-server method (`handle…`); the legacy
  (v1beta1) Msg service runs the v1beta1 `ValidateBasic` and then calls the **v1 msg-server method
  directly** — the v1 `ValidateBasic` is never run on the translated message.  `MintToken` /
  `BurnToken` of the legacy service look the token up by SYMBOL and convert the `uint64` amount of
  main units with `Token.ToMinCoin` (`amount · 10^scale`, through `LegacyDec.Mul` + `TruncateInt`);
* `UpgradeERC20` (authority only) calls `upgradeTo(implementation)` on the beacon contract: the
  beacon reverts unless the new implementation is an address with code.

Addresses are the symbolic names of the line protocol (`A0..`, `FC` fee collector, `TM` token
module account, `GOV` authority); ERC20 contracts are `K<n>`, the n-th contract created by the
module account (the EVM assigns `CreateAddress(TM, n-1)`), `0` = none.  The EVM side is a
ledger keyed by (contract, holder) with a fault switch that makes the contract misbehave, and
the beacon's current implementation (`I<n>`: an implementation contract, `B`: the beacon itself,
`K<n>`, or any address without code `E<n>` / `A<n>` / `Z` = the zero address).
A rejected message leaves the state unchanged (the transaction cache is discarded).
Core Lean only.
-/
import Irismod.Sdk.Map
import Irismod.Sdk.Dec18
import Irismod.Sdk.Bank
import Irismod.Sdk.Line

namespace Irismod.Token
open Irismod Irismod.Sdk

/-- token module account -/
def TM : Addr := "TM"
/-- fee collector module account -/
def FC : Addr := "FC"
/-- the module's authority (governance account) -/
def GOV : Addr := "GOV"

structure Token where
  symbol        : String
  name          : String
  scale         : Nat
  minUnit       : String
  initialSupply : Nat
  maxSupply     : Nat
  mintable      : Bool
  owner         : Addr
  contract      : Nat := 0          -- 0 = no ERC20 contract bound; n = contract `K<n>`
  deriving DecidableEq, Repr, Inhabited

structure Params where
  taxRate   : Dec := ⟨400000000000000000⟩
  feeDenom  : String := "stake"
  feeAmt    : Int := 60000
  mintRatio : Dec := ⟨100000000000000000⟩
  erc20     : Bool := true
  beacon    : Bool := false
  deriving DecidableEq, Repr, Inhabited

/-- configuration fixed for one history: bank-blocked addresses and the keeper's swap registry
(fee token min unit ↦ (target denom, ratio)) -/
structure Env where
  blocked  : List Addr := []
  registry : AMap String (String × Dec) := []
  deriving Repr, Inhabited

structure State where
  tokens    : AMap String Token := []            -- symbol ↦ token              (prefix 0x01)
  minUnits  : AMap String String := []           -- min unit ↦ symbol           (prefix 0x02)
  owners    : AMap (Addr × String) String := []  -- (owner, symbol) ↦ symbol    (prefix 0x03)
  burned    : AMap String Nat := []              -- min unit ↦ total burned     (prefix 0x04)
  contracts : AMap Nat String := []              -- contract ↦ symbol           (prefix 0x06)
  params    : Params := {}
  bank      : Bank := {}
  nonce     : Nat := 0                           -- account sequence of TM = contracts created
  evm       : AMap (Nat × String) Nat := []      -- (contract, holder) ↦ ERC20 balance
  fault     : String := "none"                   -- how the contract misbehaves (environment)
  impl      : String := "I0"                     -- the beacon's implementation (EVM state)
  env       : Env := {}
  deriving Repr, Inhabited

/-- an EVM address that takes part in a transaction: `k c` — the contract `K<c>` created by the
module account (an ERC20 of ours, bound to a token by `DeployERC20`), `u n` — any other address
`U<n>` (a router, a foreign contract): never bound to a token -/
inductive Emitter where
  | k (c : Nat)
  | u (n : Nat)
  deriving DecidableEq, Repr, Inhabited

/-- one `SwapToNative(from, to, amount)` log of a receipt, with the contract that emitted it -/
structure SwapLog where
  emitter : Emitter
  src     : String
  rcv     : String
  amount  : Int
  deriving Repr, Inhabited

inductive Op where
  | issue (owner symbol name minUnit : String) (scale init max : Nat) (mintable : Bool)
  | edit (owner symbol name : String) (max : Nat) (mintable : String)
  | mint (owner to denom : String) (amount : Int)
  | burn (sender denom : String) (amount : Int)
  | transferOwner (src dst symbol : String)
  | swapFee (sender to denom : String) (amount : Int)
  | deploy (authority name symbol minUnit : String) (scale : Nat)
  | swapToErc20 (sender receiver denom : String) (amount : Int)
  | swapFromErc20 (sender receiver denom : String) (amount : Int)
  | hookSwap (src : String) (contract : Nat) (to : String) (amount : Int)
  | evmFault (mode : String)
  | updateParams (authority : String) (p : Params)
  | evmTx (target : Emitter) (logs : List SwapLog)
  -- the legacy (v1beta1) Msg service
  | legacyIssue (owner symbol name minUnit : String) (scale init max : Nat) (mintable : Bool)
  | legacyEdit (owner symbol name : String) (max : Nat) (mintable : String)
  | legacyMint (owner to symbol : String) (amount : Nat)
  | legacyBurn (sender symbol : String) (amount : Nat)
  | legacyTransferOwner (src dst symbol : String)
  | upgradeErc20 (authority impl : String)
  deriving Repr, Inhabited

inductive Err where
  | reject (why : String)
  | panic (why : String)
  deriving Repr, Inhabited

abbrev R := Except Err State

/-! ### Message validation (`ValidateBasic`) -/

def isLower (c : Char) : Bool := decide ('a' ≤ c) && decide (c ≤ 'z')
def isUpper (c : Char) : Bool := decide ('A' ≤ c) && decide (c ≤ 'Z')
def isDigit (c : Char) : Bool := decide ('0' ≤ c) && decide (c ≤ '9')

/-- reserved prefixes `peg|ibc|lpt|htlt|tibc` -/
def keyworded (s : String) : Bool :=
  ["peg", "ibc", "lpt", "htlt", "tibc"].any (fun k => k.isPrefixOf s)

/-- `^[a-z][a-z0-9]{2,63}$` and not keyword-prefixed (symbols and min units) -/
def validSymbol (s : String) : Bool :=
  match s.toList with
  | [] => false
  | c :: rest =>
    isLower c && rest.all (fun c => isLower c || isDigit c) &&
    decide (2 ≤ rest.length) && decide (rest.length ≤ 63) && !keyworded s

/-- `sdk.ValidateDenom`: `[a-zA-Z][a-zA-Z0-9/:._-]{2,127}` -/
def validDenom (s : String) : Bool :=
  match s.toList with
  | [] => false
  | c :: rest =>
    (isLower c || isUpper c) &&
    rest.all (fun c => isLower c || isUpper c || isDigit c || c == '/' || c == ':' || c == '.' || c == '_' || c == '-') &&
    decide (2 ≤ rest.length) && decide (rest.length ≤ 127)

/-- `ValidateERC20`: `^[a-z][a-zA-Z0-9/]{2,100}$` -/
def validErc20Name (s : String) : Bool :=
  match s.toList with
  | [] => false
  | c :: rest =>
    isLower c && rest.all (fun c => isLower c || isUpper c || isDigit c || c == '/') &&
    decide (2 ≤ rest.length) && decide (rest.length ≤ 100)

/-- `ValidateName`: 0 < len ≤ 32 (bytes) -/
def validName (s : String) : Bool := decide (0 < s.utf8ByteSize) && decide (s.utf8ByteSize ≤ 32)

def allDigits (l : List Char) : Bool := !l.isEmpty && l.all isDigit

/-- a well-formed account address of the symbolic universe (anything else is sent as an
invalid bech32 string) -/
def isAddr (a : String) : Bool :=
  a = "FC" || a = "TM" || a = "GOV" ||
  (match a.toList with | 'A' :: rest => allDigits rest | _ => false)

/-- a well-formed hex (Ethereum) address: the account universe plus `E<n>` -/
def isEth (a : String) : Bool :=
  isAddr a || (match a.toList with | 'E' :: rest => allDigits rest | _ => false)

/-- `strconv.ParseBool` with the error ignored (`types.Bool.ToBool`) -/
def parseBool (v : String) : Bool :=
  v = "1" || v = "t" || v = "T" || v = "TRUE" || v = "true" || v = "True"

def doNotModify : String := "[do-not-modify]"
def maxU64 : Nat := 18446744073709551615
/-- `MaximumInitSupply` -/
def maxInit : Nat := 100000000000

def pow10 (n : Nat) : Nat := 10 ^ n

/-! ### Fee factor table -/

/-- `calcFeeFactor` × 100 for symbol lengths 3..64:
`strconv.FormatFloat(math.Pow(math.Log(len)/math.Log(3), 4), 'f', 2, 64)` -/
def feeFactor100 : List Nat :=
  [100, 254, 461, 708, 984, 1284, 1600, 1930, 2270, 2617, 2971, 3330, 3692, 4057, 4423, 4791,
   5160, 5529, 5898, 6267, 6635, 7003, 7370, 7735, 8100, 8463, 8826, 9186, 9546, 9904, 10260,
   10615, 10969, 11320, 11671, 12019, 12366, 12712, 13055, 13398, 13738, 14077, 14415, 14750,
   15085, 15417, 15748, 16078, 16406, 16732, 17057, 17381, 17703, 18023, 18343, 18660, 18976,
   19291, 19605, 19917, 20227, 20537]

/-- the fee factor as a `LegacyDec` (`none` outside the validated lengths) -/
def feeFactor (len : Nat) : Option Dec :=
  if len < 3 then none else (feeFactor100[len - 3]?).map (fun c => Dec.mk ((c : Int) * 10000000000000000))

/-! ### `LossLessSwap` (types/types.go) -/

/-- value of one input min unit in output min units, numerator: `ratio.BigInt() · 10^so` -/
def swapNum (ratio : Dec) (so : Nat) : Int := ratio.raw * ((pow10 so : Nat) : Int)

/-- … and denominator: `10^18 · 10^si` -/
def swapDen (si : Nat) : Int := precision * ((pow10 si : Nat) : Int)

/-- `output = ⌊input · num / den⌋` (`big.Int.Quo`) -/
def swapOutput (input num den : Int) : Int := (input * num).tdiv den

/-- `taken = ⌈output · den / num⌉`, computed as `(output·den + (num - 1)) Quo num` -/
def swapTaken (output num den : Int) : Int := (output * den + (num - 1)).tdiv num

/-- `LossLessSwap(input, ratio, inputScale, outputScale) = (taken, output)`; `none` = panic
(`NewIntFromBigInt` beyond 256 bits) -/
def lossLess (input : Int) (ratio : Dec) (si so : Nat) : Option (Int × Int) :=
  if input ≤ 0 ∨ ratio.raw ≤ 0 then some (0, 0) else
  match chkInt (swapTaken (swapOutput input (swapNum ratio so) (swapDen si)) (swapNum ratio so) (swapDen si)) with
  | none => none
  | some b =>
    match chkInt (swapOutput input (swapNum ratio so) (swapDen si)) with
    | none => none
    | some m => some (b, m)

/-! ### Lookups -/

def tokenBySymbol (s : State) (sym : String) : Option Token := AMap.get? s.tokens sym

/-- `getTokenByMinUnit` -/
def tokenByMinUnit (s : State) (m : String) : Option Token :=
  match AMap.get? s.minUnits m with
  | none => none
  | some sym => AMap.get? s.tokens sym

/-- `GetToken`: by symbol first, then by min unit -/
def getToken (s : State) (denom : String) : Option Token :=
  match AMap.get? s.tokens denom with
  | some t => some t
  | none => tokenByMinUnit s denom

def supplyOf (s : State) (d : String) : Nat := s.bank.supplyOf d
def balOf (s : State) (a : Addr) (d : String) : Nat := s.bank.balOf a d
def burnedOf (s : State) (d : String) : Nat := AMap.getD s.burned d 0
def evmBal (s : State) (c : Nat) (h : String) : Nat := AMap.getD s.evm (c, h) 0
def blocked (s : State) (a : Addr) : Bool := s.env.blocked.contains a

/-! ### Fees (keeper/fees.go) -/

/-- `calcTokenIssueFee`: the fee in main units of the fee token -/
def calcIssueFee (p : Params) (len : Nat) : Except Err Int :=
  match feeFactor len with
  | none => .error (.panic "fee factor")
  | some f =>
    match (Dec.ofInt p.feeAmt).quo f with
    | none => .error (.panic "quo")
    | some feeAmt =>
      if Dec.lt Dec.one feeAmt then
        match feeAmt.truncateInt with
        | none => .error (.panic "truncate")
        | some a => .ok a
      else .ok 1

/-- `GetToken` + `ToMinCoin`: (min unit, amount) of a decimal amount of main units -/
def toMinCoin (s : State) (denom : String) (amt : Dec) : Except Err (String × Int) :=
  match getToken s denom with
  | none => .error (.reject "fee token does not exist")
  | some t =>
    if t.symbol ≠ denom then .error (.reject "not the token symbol") else
    match amt.mul (Dec.ofInt ((pow10 t.scale : Nat) : Int)) with
    | none => .error (.panic "mul")
    | some a =>
      match a.truncateInt with
      | none => .error (.panic "truncate")
      | some n => .ok (t.minUnit, n)

/-- `GetTokenIssueFee` -/
def issueFee (s : State) (len : Nat) : Except Err (String × Int) :=
  match calcIssueFee s.params len with
  | .error e => .error e
  | .ok fee => toMinCoin s s.params.feeDenom (Dec.ofInt fee)

/-- `GetTokenMintFee` -/
def mintFee (s : State) (len : Nat) : Except Err (String × Int) :=
  match calcIssueFee s.params len with
  | .error e => .error e
  | .ok fee =>
    match (Dec.ofInt fee).mul s.params.mintRatio with
    | none => .error (.panic "mul")
    | some d =>
      match d.truncateInt with
      | none => .error (.panic "truncate")
      | some mf =>
        if mf < 0 then .error (.panic "negative dec coin") else
        toMinCoin s s.params.feeDenom (Dec.ofInt mf)

/-- the community-tax part of a fee: `Dec(fee).Mul(taxRate).TruncateInt()` -/
def taxOf (rate : Dec) (fee : Nat) : Option Int :=
  ((Dec.ofInt (fee : Int)).mul rate).bind Dec.truncateInt

/-- the three bank moves of `feeHandler`: payer → TM (fee), TM → FC (tax), burn the rest from TM -/
def feeMoves (b : Bank) (payer : Addr) (d : String) (fee tax : Nat) : Option Bank :=
  match b.send payer TM d fee with
  | none => none
  | some b1 =>
    match b1.send TM FC d tax with
    | none => none
    | some b2 => b2.burn TM d (fee - tax)

/-- `feeHandler` -/
def feeHandler (s : State) (payer : Addr) (d : String) (fee : Nat) : R :=
  match taxOf s.params.taxRate fee with
  | none => .error (.panic "tax")
  | some tax =>
    if tax < 0 ∨ (fee : Int) < tax then .error (.panic "negative coin") else
    match feeMoves s.bank payer d fee tax.toNat with
    | none => .error (.reject "insufficient funds")
    | some b => .ok { s with bank := b }

/-- deduct a fee given as `GetToken…Fee` computed it -/
def deductFee (s : State) (payer : Addr) (fee : Except Err (String × Int)) : R :=
  match fee with
  | .error e => .error e
  | .ok (d, n) =>
    if n < 0 then .error (.panic "negative coin") else feeHandler s payer d n.toNat

/-! ### Message handlers -/

/-- `NewToken`'s default for `maxSupply = 0` -/
def defaultMax (init max : Nat) (mintable : Bool) : Nat :=
  if max = 0 then (if mintable then maxU64 else init) else max

/-- `MsgIssueToken.ValidateBasic` -/
def issueValid (owner symbol name minUnit : String) (scale init max : Nat) (mintable : Bool) : Bool :=
  isAddr owner && validName name && validSymbol symbol && validSymbol minUnit &&
  decide (init ≤ maxInit) && decide (init ≤ defaultMax init max mintable) && decide (scale ≤ 18)

/-- `AddToken` (after `assertTokenValid`) and minting the initial supply to the owner -/
def addIssued (s : State) (t : Token) : State :=
  { s with tokens := AMap.set s.tokens t.symbol t,
           minUnits := AMap.set s.minUnits t.minUnit t.symbol,
           owners := AMap.set s.owners (t.owner, t.symbol) t.symbol,
           bank := s.bank.mint t.owner t.minUnit (t.initialSupply * pow10 t.scale) }

/-- `NewToken` as `IssueToken` calls it -/
def issuedToken (owner symbol name minUnit : String) (scale init max : Nat) (mintable : Bool) : Token :=
  { symbol := symbol, name := name, scale := scale, minUnit := minUnit, initialSupply := init,
    maxSupply := defaultMax init max mintable, mintable := mintable, owner := owner }

/-- `msgServer.IssueToken` (the method both Msg services end in) -/
def handleIssue (s : State) (owner symbol name minUnit : String) (scale init max : Nat)
    (mintable : Bool) : R :=
  if blocked s owner then .error (.reject "owner is a blocked module account") else
  match deductFee s owner (issueFee s symbol.length) with
  | .error e => .error e
  | .ok s1 =>
    if AMap.contains s1.tokens symbol then .error (.reject "symbol already exists") else
    if AMap.contains s1.minUnits minUnit then .error (.reject "min unit already exists") else
    .ok (addIssued s1 (issuedToken owner symbol name minUnit scale init max mintable))

def stepIssue (s : State) (owner symbol name minUnit : String) (scale init max : Nat)
    (mintable : Bool) : R :=
  if !(issueValid owner symbol name minUnit scale init max mintable) then .error (.reject "invalid message") else
  handleIssue s owner symbol name minUnit scale init max mintable

/-- the token after `EditToken`'s field updates -/
def edited (t : Token) (name : String) (max : Nat) (mintable : String) : Token :=
  { t with maxSupply := if 0 < max then max else t.maxSupply,
           name := if name ≠ doNotModify then name else t.name,
           mintable := if mintable ≠ "" then parseBool mintable else t.mintable }

/-- `msgServer.EditToken` -/
def handleEdit (s : State) (owner symbol name : String) (max : Nat) (mintable : String) : R :=
  match tokenBySymbol s symbol with
  | none => .error (.reject "token does not exist")
  | some t =>
    if owner ≠ t.owner then .error (.reject "not the owner") else
    -- the new maximum, in min units, must cover what circulates
    if 0 < max ∧ max * pow10 t.scale < supplyOf s t.minUnit then .error (.reject "max supply too low") else
    .ok { s with tokens := AMap.set s.tokens symbol (edited t name max mintable) }

def stepEdit (s : State) (owner symbol name : String) (max : Nat) (mintable : String) : R :=
  if !(isAddr owner && validName name && validSymbol symbol) then .error (.reject "invalid message") else
  handleEdit s owner symbol name max mintable

/-- `Keeper.MintToken` after the fee was deducted -/
def mintChecked (s : State) (owner rcpt denom : String) (amount : Nat) : R :=
  match tokenByMinUnit s denom with
  | none => .error (.reject "token does not exist")
  | some t =>
    if owner ≠ t.owner then .error (.reject "not the owner") else
    if !t.mintable then .error (.reject "not mintable") else
    if t.maxSupply * pow10 t.scale < supplyOf s t.minUnit + amount then .error (.reject "exceeds mintable amount") else
    .ok { s with bank := s.bank.mint rcpt denom amount }

/-- the recipient of a mint / swap: the sender when none is given -/
def rcptOf (owner to : String) : String := if to = "" then owner else to

/-- `msgServer.MintToken`: the coin `(denom, amount)` is taken as it comes — positivity and the
shape of the denom are `ValidateBasic`'s business, which the legacy service does not run -/
def handleMint (s : State) (owner to denom : String) (amount : Int) : R :=
  if blocked s (rcptOf owner to) then .error (.reject "recipient is a blocked module account") else
  match AMap.get? s.minUnits denom with
  | none => .error (.reject "min unit does not exist")
  | some sym =>
    match deductFee s owner (mintFee s sym.length) with
    | .error e => .error e
    | .ok s1 => mintChecked s1 owner (rcptOf owner to) denom amount.toNat

def stepMint (s : State) (owner to denom : String) (amount : Int) : R :=
  if !(isAddr owner && (to = "" || isAddr to) && decide (0 < amount) && validSymbol denom) then
    .error (.reject "invalid message") else
  handleMint s owner to denom amount

/-- `msgServer.BurnToken` -/
def handleBurn (s : State) (sender denom : String) (amount : Int) : R :=
  match tokenByMinUnit s denom with
  | none => .error (.reject "token does not exist")
  | some _ =>
    match s.bank.burn sender denom amount.toNat with
    | none => .error (.reject "insufficient funds")
    | some b => .ok { s with bank := b, burned := AMap.set s.burned denom (burnedOf s denom + amount.toNat) }

def stepBurn (s : State) (sender denom : String) (amount : Int) : R :=
  if !(isAddr sender && decide (0 < amount) && validSymbol denom) then .error (.reject "invalid message") else
  handleBurn s sender denom amount

/-- `msgServer.TransferTokenOwner` -/
def handleTransferOwner (s : State) (src dst symbol : String) : R :=
  if blocked s dst then .error (.reject "new owner is a blocked module account") else
  match tokenBySymbol s symbol with
  | none => .error (.reject "token does not exist")
  | some t =>
    if src ≠ t.owner then .error (.reject "not the owner") else
    .ok { s with tokens := AMap.set s.tokens symbol { t with owner := dst },
                 owners := AMap.set (AMap.erase s.owners (src, symbol)) (dst, symbol) symbol }

def stepTransferOwner (s : State) (src dst symbol : String) : R :=
  if !(isAddr src && isAddr dst && src ≠ dst && validSymbol symbol) then .error (.reject "invalid message") else
  handleTransferOwner s src dst symbol

/-! ### The legacy (v1beta1) Msg service (keeper/legacy_msg_server.go)

`ValidateBasic` of the v1beta1 message, then the adapter: `IssueToken` / `EditToken` /
`TransferTokenOwner` copy the fields into the v1 message and call the v1 msg-server method;
`MintToken` / `BurnToken` first resolve the token **by symbol** and convert the `uint64` amount of
main units into a coin of the min unit with `Token.ToMinCoin`. -/

/-- v1beta1 `MsgIssueToken.ValidateBasic`: `v1beta1.NewToken(…).Validate()` — owner, name, symbol,
min unit, initial supply, `maxSupply ≥ initialSupply` (after the default), scale: the v1 rules -/
def legacyIssueValid (owner symbol name minUnit : String) (scale init max : Nat) (mintable : Bool) : Bool :=
  isAddr owner && validName name && validSymbol symbol && validSymbol minUnit &&
  decide (init ≤ maxInit) && decide (init ≤ defaultMax init max mintable) && decide (scale ≤ 18)

def stepLegacyIssue (s : State) (owner symbol name minUnit : String) (scale init max : Nat)
    (mintable : Bool) : R :=
  if !(legacyIssueValid owner symbol name minUnit scale init max mintable) then .error (.reject "invalid message") else
  handleIssue s owner symbol name minUnit scale init max mintable

def stepLegacyEdit (s : State) (owner symbol name : String) (max : Nat) (mintable : String) : R :=
  if !(isAddr owner && validName name && validSymbol symbol) then .error (.reject "invalid message") else
  handleEdit s owner symbol name max mintable

def stepLegacyTransferOwner (s : State) (src dst symbol : String) : R :=
  if !(isAddr src && isAddr dst && src ≠ dst && validSymbol symbol) then .error (.reject "invalid message") else
  handleTransferOwner s src dst symbol

/-- `token.ToMinCoin(sdk.NewDecCoin(symbol, NewIntFromUint64(amount)))` for the token `t` found under
`symbol`: `LegacyDec(amount).Mul(LegacyDec(10^scale)).TruncateInt()` of the min unit; the coin
constructors panic on a denom `sdk.ValidateDenom` rejects -/
def legacyMinCoin (t : Token) (symbol : String) (amount : Nat) : Except Err (String × Int) :=
  if !(validDenom symbol) then .error (.panic "invalid denom") else
  if t.symbol ≠ symbol then .error (.reject "not the token symbol") else
  match (Dec.ofInt (amount : Int)).mul (Dec.ofInt ((pow10 t.scale : Nat) : Int)) with
  | none => .error (.panic "mul")
  | some a =>
    match a.truncateInt with
    | none => .error (.panic "truncate")
    | some n => if !(validDenom t.minUnit) then .error (.panic "invalid denom") else .ok (t.minUnit, n)

/-- v1beta1 `MsgMintToken.ValidateBasic`: owner, optional recipient, `amount ≠ 0` (a `uint64`),
the SYMBOL -/
def legacyMintValid (owner to symbol : String) (amount : Nat) : Bool :=
  isAddr owner && (to = "" || isAddr to) && decide (0 < amount) && decide (amount ≤ maxU64) && validSymbol symbol

def stepLegacyMint (s : State) (owner to symbol : String) (amount : Nat) : R :=
  if !(legacyMintValid owner to symbol amount) then .error (.reject "invalid message") else
  match tokenBySymbol s symbol with
  | none => .error (.reject "token does not exist")
  | some t =>
    match legacyMinCoin t symbol amount with
    | .error e => .error e
    | .ok (d, n) => handleMint s owner to d n

/-- v1beta1 `MsgBurnToken.ValidateBasic` -/
def legacyBurnValid (sender symbol : String) (amount : Nat) : Bool :=
  isAddr sender && decide (0 < amount) && decide (amount ≤ maxU64) && validSymbol symbol

def stepLegacyBurn (s : State) (sender symbol : String) (amount : Nat) : R :=
  if !(legacyBurnValid sender symbol amount) then .error (.reject "invalid message") else
  match tokenBySymbol s symbol with
  | none => .error (.reject "token does not exist")
  | some t =>
    match legacyMinCoin t symbol amount with
    | .error e => .error e
    | .ok (d, n) => handleBurn s sender d n

/-- burn `b` of `denom` from the sender, mint `m` of `target` to the recipient (`SwapFeeToken`) -/
def swapMoves (s : State) (sender rcpt denom target : String) (b m : Int) : R :=
  if b < 0 ∨ m < 0 then .error (.panic "negative coin amount") else
  match s.bank.burn sender denom b.toNat with
  | none => .error (.reject "insufficient funds")
  | some bk =>
    if blocked s rcpt then .error (.reject "recipient is blocked") else
    .ok { s with bank := bk.mint rcpt target m.toNat }

def stepSwapFee (s : State) (sender to denom : String) (amount : Int) : R :=
  if !(isAddr sender && (to = "" || isAddr to) && decide (0 < amount) && validSymbol denom) then
    .error (.reject "invalid message") else
  if to ≠ "" ∧ blocked s to then .error (.reject "recipient is a blocked module account") else
  match tokenByMinUnit s denom with
  | none => .error (.reject "token does not exist")
  | some tb =>
    match AMap.get? s.env.registry tb.minUnit with
    | none => .error (.reject "unregistered swapable fee token")
    | some (target, ratio) =>
      match getToken s target with
      | none => .error (.reject "target token does not exist")
      | some tm =>
        match lossLess amount ratio tb.scale tm.scale with
        | none => .error (.panic "dec overflow")
        | some (b, m) => swapMoves s sender (rcptOf sender to) tb.minUnit target b m

/-- `buildERC20Token`: the existing token of `minUnit`, or a new one for an ICS20 denom -/
def buildErc20Token (s : State) (name symbol minUnit : String) (scale : Nat) : Except Err Token :=
  if AMap.contains s.minUnits minUnit then
    match tokenByMinUnit s minUnit with
    | none => .error (.reject "token does not exist")
    | some t => .ok t
  else if AMap.contains s.tokens symbol then .error (.reject "symbol already exists")
  else .ok { symbol := symbol, name := name, scale := scale, minUnit := minUnit, initialSupply := 0,
             maxSupply := 0, mintable := true, owner := TM }

def stepDeploy (s : State) (authority name symbol minUnit : String) (scale : Nat) : R :=
  if !(isAddr authority && validName name && decide (scale ≤ 18) && validErc20Name minUnit && validErc20Name symbol) then
    .error (.reject "invalid message") else
  if authority ≠ GOV then .error (.reject "invalid authority") else
  match buildErc20Token s name symbol minUnit scale with
  | .error e => .error e
  | .ok t =>
    if t.contract ≠ 0 then .error (.reject "erc20 already deployed") else
    if !s.params.erc20 then .error (.reject "erc20 disabled") else
    if !s.params.beacon then .error (.reject "beacon not set") else
    if s.fault = "call_err" then .error (.reject "evm call failed") else
    .ok { s with nonce := s.nonce + 1,
                 tokens := AMap.set s.tokens t.symbol { t with contract := s.nonce + 1 },
                 minUnits := AMap.set s.minUnits t.minUnit t.symbol,
                 owners := if t.owner = "" then s.owners else AMap.set s.owners (t.owner, t.symbol) t.symbol,
                 contracts := AMap.set s.contracts (s.nonce + 1) t.symbol }

/-- does the (possibly misbehaving) contract make `MintERC20` fail? -/
def mintFaulty (f : String) : Bool := f = "mint_revert" || f = "mint_noop" || f = "mint_short" || f = "call_err"
/-- does the contract make `BurnERC20` fail? -/
def burnFaulty (f : String) : Bool := f = "burn_revert" || f = "burn_noop" || f = "call_err"

def stepSwapToErc20 (s : State) (sender receiver denom : String) (amount : Int) : R :=
  if !(isAddr sender && isEth receiver && validDenom denom && decide (0 < amount)) then
    .error (.reject "invalid message") else
  if !s.params.erc20 then .error (.reject "erc20 disabled") else
  match tokenByMinUnit s denom with
  | none => .error (.reject "token does not exist")
  | some t =>
    if t.contract = 0 then .error (.reject "erc20 not deployed") else
    match s.bank.burn sender denom amount.toNat with
    | none => .error (.reject "insufficient funds")
    | some b =>
      if mintFaulty s.fault then .error (.reject "evm mint failed") else
      .ok { s with bank := b,
                   evm := AMap.set s.evm (t.contract, receiver) (evmBal s t.contract receiver + amount.toNat) }

def stepSwapFromErc20 (s : State) (sender receiver denom : String) (amount : Int) : R :=
  if !(isAddr sender && isAddr receiver && validDenom denom && decide (0 < amount)) then
    .error (.reject "invalid message") else
  if !s.params.erc20 then .error (.reject "erc20 disabled") else
  match tokenByMinUnit s denom with
  | none => .error (.reject "token does not exist")
  | some t =>
    if t.contract = 0 then .error (.reject "erc20 not deployed") else
    if s.fault = "call_err" then .error (.reject "evm call failed") else
    if evmBal s t.contract sender < amount.toNat then .error (.reject "insufficient erc20 balance") else
    if burnFaulty s.fault then .error (.reject "evm burn failed") else
    if blocked s receiver then .error (.reject "receiver is blocked") else
    .ok { s with evm := AMap.set s.evm (t.contract, sender) (evmBal s t.contract sender - amount.toNat),
                 bank := s.bank.mint receiver denom amount.toNat }

/-- an EVM transaction calling `swapToNative(to, amount)` on contract `c`: the contract burns the
caller's ERC20 balance and logs `SwapToNative`; `PostTxProcessing` then mints natively; an error
of the hook reverts the EVM transaction -/
def stepHookSwap (s : State) (src : String) (c : Nat) (to : String) (amount : Int) : R :=
  if !(isEth src) ∨ amount < 0 ∨ to = "" then .error (.reject "invalid call") else
  if c = 0 ∨ s.nonce < c then .error (.reject "no such contract") else
  if evmBal s c src < amount.toNat then .error (.reject "erc20: burn amount exceeds balance") else
  match AMap.get? s.contracts c with
  | none => .ok { s with evm := AMap.set s.evm (c, src) (evmBal s c src - amount.toNat) }
  | some sym =>
    match AMap.get? s.tokens sym with
    | none => .ok { s with evm := AMap.set s.evm (c, src) (evmBal s c src - amount.toNat) }
    | some t =>
      if !s.params.erc20 then .error (.reject "erc20 disabled") else
      if !(isAddr to) then .error (.reject "invalid receiver") else
      if amount = 0 then .error (.reject "invalid amount") else
      if blocked s to then .error (.reject "receiver is blocked") else
      .ok { s with evm := AMap.set s.evm (c, src) (evmBal s c src - amount.toNat),
                   bank := s.bank.mint to t.minUnit amount.toNat }

/-- one log of an EVM transaction: a contract of ours burned the caller's balance before emitting
it, and the hook resolves the token **by the emitting contract**; a log of any other address has
no ERC20 effect here and is ignored by the hook (`getTokenByContract(log.Address)` fails) -/
def stepLog (s : State) (l : SwapLog) : R :=
  match l.emitter with
  | .k c => stepHookSwap s l.src c l.rcv l.amount
  | .u _ => .ok s

/-- the logs of a receipt, in order; any failure reverts the whole transaction -/
def stepLogs (s : State) : List SwapLog → R
  | [] => .ok s
  | l :: rest =>
    match stepLog s l with
    | .error e => .error e
    | .ok s1 => stepLogs s1 rest

/-- an EVM transaction sent to `target` whose receipt carries `logs`, followed by
`PostTxProcessing`: the target of the transaction plays no role -/
def stepEvmTx (s : State) (_target : Emitter) (logs : List SwapLog) : R := stepLogs s logs

def knownFault (m : String) : Bool :=
  m = "none" || m = "mint_revert" || m = "mint_noop" || m = "mint_short" || m = "burn_revert" ||
  m = "burn_noop" || m = "call_err"

def stepEvmFault (s : State) (mode : String) : R :=
  if knownFault mode then .ok { s with fault := mode } else .error (.reject "unknown fault")

/-! ### `UpgradeERC20` (keeper/erc20.go) -/

def natSuffix (p : Char) (a : String) : Option Nat :=
  match a.toList with
  | c :: rest => if c = p ∧ allDigits rest then (String.ofList rest).toNat? else none
  | [] => none

/-- a well-formed hex address for the new implementation: the Ethereum universe plus `I<n>`
(implementation contracts), `K<n>` (contracts of the module account), `B` (the beacon) and `Z`
(the zero address) -/
def isImplAddr (a : String) : Bool :=
  isEth a || a = "B" || a = "Z" || (natSuffix 'I' a).isSome || (natSuffix 'K' a).isSome

/-- does the address carry code?  (`UpgradeableBeacon._setImplementation` reverts otherwise) -/
def hasCode (s : State) (a : String) : Bool :=
  a = "B" || (natSuffix 'I' a).isSome ||
  (match natSuffix 'K' a with | some n => decide (1 ≤ n) && decide (n ≤ s.nonce) | none => false)

def stepUpgradeErc20 (s : State) (authority impl : String) : R :=
  if !(isAddr authority && isImplAddr impl) then .error (.reject "invalid message") else
  if authority ≠ GOV then .error (.reject "invalid authority") else
  if !s.params.erc20 then .error (.reject "erc20 disabled") else
  if !s.params.beacon then .error (.reject "beacon not set") else
  if s.fault = "call_err" then .error (.reject "evm call failed") else
  if !(hasCode s impl) then .error (.reject "beacon: invalid implementation") else
  .ok { s with impl := impl }

/-- `Params.Validate` -/
def paramsValid (p : Params) : Bool :=
  decide (0 ≤ p.taxRate.raw) && decide (p.taxRate.raw ≤ precision) &&
  decide (0 ≤ p.mintRatio.raw) && decide (p.mintRatio.raw ≤ precision) && decide (0 ≤ p.feeAmt) &&
  validDenom p.feeDenom

def stepUpdateParams (s : State) (authority : String) (p : Params) : R :=
  if !(isAddr authority && paramsValid p) then .error (.reject "invalid message") else
  if authority ≠ GOV then .error (.reject "invalid authority") else
  .ok { s with params := p }

def step (s : State) : Op → R
  | .issue owner symbol name minUnit scale init max mintable =>
      stepIssue s owner symbol name minUnit scale init max mintable
  | .edit owner symbol name max mintable => stepEdit s owner symbol name max mintable
  | .mint owner to denom amount => stepMint s owner to denom amount
  | .burn sender denom amount => stepBurn s sender denom amount
  | .transferOwner src dst symbol => stepTransferOwner s src dst symbol
  | .swapFee sender to denom amount => stepSwapFee s sender to denom amount
  | .deploy authority name symbol minUnit scale => stepDeploy s authority name symbol minUnit scale
  | .swapToErc20 sender receiver denom amount => stepSwapToErc20 s sender receiver denom amount
  | .swapFromErc20 sender receiver denom amount => stepSwapFromErc20 s sender receiver denom amount
  | .hookSwap src c to amount => stepHookSwap s src c to amount
  | .evmFault mode => stepEvmFault s mode
  | .updateParams authority p => stepUpdateParams s authority p
  | .evmTx target logs => stepEvmTx s target logs
  | .legacyIssue owner symbol name minUnit scale init max mintable =>
      stepLegacyIssue s owner symbol name minUnit scale init max mintable
  | .legacyEdit owner symbol name max mintable => stepLegacyEdit s owner symbol name max mintable
  | .legacyMint owner to symbol amount => stepLegacyMint s owner to symbol amount
  | .legacyBurn sender symbol amount => stepLegacyBurn s sender symbol amount
  | .legacyTransferOwner src dst symbol => stepLegacyTransferOwner s src dst symbol
  | .upgradeErc20 authority impl => stepUpgradeErc20 s authority impl

/-- the v1 operation a legacy operation is, when the adapter only copies fields -/
def norm : Op → Op
  | .legacyIssue owner symbol name minUnit scale init max mintable =>
      .issue owner symbol name minUnit scale init max mintable
  | .legacyEdit owner symbol name max mintable => .edit owner symbol name max mintable
  | .legacyTransferOwner src dst symbol => .transferOwner src dst symbol
  | op => op

/-- the chain-level step: a rejected message leaves the state unchanged -/
def apply (s : State) (op : Op) : State :=
  match step s op with
  | .ok s' => s'
  | .error _ => s

def run (s : State) (ops : List Op) : State := ops.foldl apply s

/-- the native token of the default genesis -/
def nativeToken : Token :=
  { symbol := "stake", name := "Network_staking_token", scale := 0, minUnit := "stake",
    initialSupply := 2000000000, maxSupply := 10000000000, mintable := true, owner := TM }

/-- the state after `InitGenesis` with the default genesis (bank and configuration given) -/
def genesis (bank : Bank) (params : Params) (env : Env) : State :=
  { tokens := [("stake", nativeToken)], minUnits := [("stake", "stake")],
    owners := [((TM, "stake"), "stake")], bank := bank, params := params, env := env }

end Irismod.Token
