/-
Executable model of the HTLC module: modules/htlc/keeper/{htlc,asset,params,msg_server}.go,
modules/htlc/abci.go, the ValidateBasic rules of modules/htlc/types/{msgs,validation,params}.go.

* Contracts, the expiry queue `(height,id)`, the asset supplies, the asset params and the previous
  block time are the five tables of the module store; the bank slice (balances, supply) is
  `Irismod.Sdk.Bank`; the escrow is the balance of the module account `M`.
* A rejected message leaves the state unchanged (the transaction cache is discarded).  The
  begin blocker runs *without* a cache: `RefundHTLC` errors are swallowed (`abci.go:26`) and the
  partial writes of a failed refund stay — modelled literally (`refundOne`, `subCoins`).
* Ids and hash locks are parameters of the handlers; `step` computes them with `Irismod.Sha256`.
* Amounts are naturals: `sdkmath.Int`'s 256-bit panic is outside the model (assumption recorded
  in checks.d: all amounts and sums stay below 2^255).
Core Lean only.
-/
import Irismod.Sdk.Map
import Irismod.Sdk.Bank
import Irismod.Sdk.Sha256
import Irismod.Sdk.Line

namespace Irismod.Htlc
open Irismod Irismod.Sdk

abbrev Id := String
abbrev Coins := List (Denom × Nat)

inductive HState where
  | open | completed | refunded
  deriving DecidableEq, Repr, Inhabited

inductive Dir where
  | none | incoming | outgoing
  deriving DecidableEq, Repr, Inhabited

structure Contract where
  sender : Addr
  to : Addr
  amount : Coins
  hashLock : String            -- lowercase hex
  secret : String              -- lowercase hex, "" until claimed
  timestamp : Nat
  expiration : Nat
  state : HState
  closedBlock : Nat
  transfer : Bool
  direction : Dir
  deriving DecidableEq, Repr, Inhabited

structure Supply where
  incoming : Nat
  outgoing : Nat
  current : Nat
  tlCurrent : Nat
  elapsed : Int                -- nanoseconds
  deriving DecidableEq, Repr, Inhabited

structure Asset where
  denom : Denom
  limit : Nat
  timeLimited : Bool
  period : Int                 -- nanoseconds
  tbLimit : Nat
  active : Bool
  deputy : Addr
  fixedFee : Nat
  minSwap : Nat
  maxSwap : Nat
  minLock : Nat
  maxLock : Nat
  deriving DecidableEq, Repr, Inhabited

structure State where
  htlcs : AMap Id Contract := []
  queue : List (Nat × Id) := []
  bank : Bank := {}
  supplies : AMap Denom Supply := []
  params : List Asset := []
  prevTime : Option Nat := none      -- nanoseconds
  height : Nat := 0
  time : Nat := 0                    -- nanoseconds since the epoch
  deriving Repr, Inhabited

inductive Op where
  | create (sender to : Addr) (coins : Coins) (lock : String) (ts timeLock : Nat) (transfer : Bool)
  | claim (sender : Addr) (id secret : String)
  | beginBlock (h t : Nat)
  | advance (n dt : Nat)
  | setParams (authority : Addr) (ps : List Asset)
  deriving Repr, Inhabited

inductive Err where
  | reject (why : String)
  | panic (why : String)
  deriving Repr, Inhabited

abbrev R := Except Err State

/-- the htlc module account (escrow) -/
def escrow : Addr := "M"
/-- the governance module account (authority of `MsgUpdateParams`) -/
def gov : Addr := "G"
/-- bank-blocked addresses of the application (representative: the fee collector `F`) -/
def blocked (a : Addr) : Bool := a = "F"

/-! ### coins and the bank -/

/-- amount of denom `d` in a coin list -/
def coinAmt : Coins → Denom → Nat
  | [], _ => 0
  | (d', n) :: r, d => (if d' = d then n else 0) + coinAmt r d

/-- `subUnlockedCoins`: coin by coin; on the first shortfall the earlier debits stay -/
def subCoins (b : Bank) (a : Addr) : Coins → Bank × Bool
  | [] => (b, true)
  | (d, n) :: r =>
    if Bank.balOf b a d < n then (b, false)
    else subCoins (Bank.setBal b a d (Bank.balOf b a d - n)) a r

/-- `addCoins` -/
def addCoins (b : Bank) (a : Addr) : Coins → Bank
  | [] => b
  | (d, n) :: r => addCoins (Bank.setBal b a d (Bank.balOf b a d + n)) a r

/-- `SendCoins`: debit all, then credit all; `false` = "insufficient funds" (partial debit kept) -/
def sendCoins (b : Bank) (src dst : Addr) (cs : Coins) : Bank × Bool :=
  match subCoins b src cs with
  | (b1, false) => (b1, false)
  | (b1, true) => (addCoins b1 dst cs, true)

/-- a send inside a transaction: all or nothing -/
def sendOk (b : Bank) (src dst : Addr) (cs : Coins) : Option Bank :=
  match sendCoins b src dst cs with
  | (b1, true) => some b1
  | (_, false) => none

def addSupply (b : Bank) : Coins → Bank
  | [] => b
  | (d, n) :: r => addSupply { b with supply := AMap.set b.supply d (Bank.supplyOf b d + n) } r

def subSupply (b : Bank) : Coins → Bank
  | [] => b
  | (d, n) :: r => subSupply { b with supply := AMap.set b.supply d (Bank.supplyOf b d - n) } r

/-- `MintCoins(module, cs)` -/
def mintCoins (b : Bank) (a : Addr) (cs : Coins) : Bank := addSupply (addCoins b a cs) cs

/-- `BurnCoins(module, cs)` inside a transaction -/
def burnCoins (b : Bank) (a : Addr) (cs : Coins) : Option Bank :=
  match subCoins b a cs with
  | (b1, true) => some (subSupply b1 cs)
  | (_, false) => none

/-! ### ValidateBasic -/

def isHexChar (c : Char) : Bool :=
  ('0' ≤ c && c ≤ '9') || ('a' ≤ c && c ≤ 'f') || ('A' ≤ c && c ≤ 'F')

/-- `ValidateID` / `ValidateHashLock` / `ValidateSecret`: 64 hex characters -/
def hexOk64 (s : String) : Bool := s.length == 64 && s.toList.all isHexChar

/-- strictly increasing denoms -/
def denomsSorted : Coins → Bool
  | [] => true
  | [_] => true
  | (d1, _) :: (d2, n2) :: r => decide (d1 < d2) && denomsSorted ((d2, n2) :: r)

/-- `amount.IsValid() && amount.IsAllPositive()` (denoms of the line protocol are well formed) -/
def coinsValid (cs : Coins) : Bool :=
  !cs.isEmpty && cs.all (fun c => decide (0 < c.2)) && denomsSorted cs

def minTimeLock : Nat := 50
def maxTimeLock : Nat := 34560

/-- `MsgCreateHTLC.ValidateBasic` -/
def vbCreate (coins : Coins) (lock : String) (timeLock : Nat) (transfer : Bool) : Bool :=
  !(transfer && coins.length != 1) && coinsValid coins && hexOk64 lock &&
    decide (minTimeLock ≤ timeLock) && decide (timeLock ≤ maxTimeLock)

def isLowerAlnum (c : Char) : Bool := ('a' ≤ c && c ≤ 'z') || ('0' ≤ c && c ≤ '9')

/-- denom rule of `validateAssetParams` on the line protocol's alphabet `[a-z0-9]` -/
def assetDenomOk (d : Denom) : Bool :=
  d.startsWith "htlt" && decide (6 ≤ d.length) && decide (d.length ≤ 128) && d.toList.all isLowerAlnum

def assetOk (a : Asset) : Bool :=
  assetDenomOk a.denom && decide (a.tbLimit ≤ a.limit) && decide (minTimeLock ≤ a.minLock) &&
    decide (a.maxLock ≤ maxTimeLock) && decide (a.minLock ≤ a.maxLock) && decide (0 < a.minSwap) &&
    decide (0 < a.maxSwap) && decide (a.minSwap ≤ a.maxSwap)

def noDupDenoms : List Asset → Bool
  | [] => true
  | a :: r => !(r.any (fun b => b.denom == a.denom)) && noDupDenoms r

/-- `Params.Validate` -/
def paramsValid (ps : List Asset) : Bool := ps.all assetOk && noDupDenoms ps

/-! ### tables -/

/-- `GetAsset`: first asset param with the denom -/
def findAsset : List Asset → Denom → Option Asset
  | [], _ => none
  | a :: r, d => if a.denom = d then some a else findAsset r d

def enqueue (q : List (Nat × Id)) (e : Nat × Id) : List (Nat × Id) :=
  if q.contains e then q else q ++ [e]

def dequeue (q : List (Nat × Id)) (e : Nat × Id) : List (Nat × Id) := q.filter (fun x => x != e)

/-- ids queued at height `h` (`IterateHTLCExpiredQueueByHeight`) -/
def dueIds (q : List (Nat × Id)) (h : Nat) : List Id := (q.filter (fun x => x.1 == h)).map (·.2)

/-- `SetHTLC` + `AddHTLCToExpiredQueue` of a new contract -/
def record (s : State) (id : Id) (c : Contract) : State :=
  { s with htlcs := AMap.set s.htlcs id c, queue := enqueue s.queue (c.expiration, id) }

def newContract (s : State) (sender to : Addr) (coins : Coins) (lock : String) (ts timeLock : Nat)
    (transfer : Bool) (dir : Dir) : Contract :=
  { sender := sender, to := to, amount := coins, hashLock := lock, secret := "", timestamp := ts,
    expiration := s.height + timeLock, state := .open, closedBlock := 0, transfer := transfer,
    direction := dir }

/-! ### CreateHTLC -/

def createPlain (s : State) (id : Id) (sender to : Addr) (coins : Coins) (lock : String)
    (ts timeLock : Nat) : R :=
  match sendOk s.bank sender escrow coins with
  | none => .error (.reject "insufficient funds")
  | some b => .ok (record { s with bank := b } id (newContract s sender to coins lock ts timeLock false .none))

/-- unix seconds of a block time -/
def unix (t : Nat) : Nat := t / 1000000000

/-- `timestamp < uint64(now-15min) || timestamp >= uint64(now+30min)` -/
def tsOutOfRange (time ts : Nat) : Bool :=
  decide (unix time < 900) || decide (ts < unix time - 900) || decide (unix time + 1800 ≤ ts)

/-- `IncrementIncomingAssetSupply` guard -/
def incomingFits (a : Asset) (sup : Supply) (n : Nat) : Bool :=
  !(decide (a.limit < sup.current + sup.incoming + n)) &&
    !(a.timeLimited && decide (a.tbLimit < sup.tlCurrent + sup.incoming + n))

def createIncoming (s : State) (id : Id) (sender to : Addr) (d : Denom) (n : Nat) (lock : String)
    (ts timeLock : Nat) (a : Asset) : R :=
  match AMap.get? s.supplies d with
  | none => .error (.reject "asset not supported")
  | some sup =>
    if !incomingFits a sup n then .error (.reject "exceeds supply limit") else
    .ok (record { s with supplies := AMap.set s.supplies d { sup with incoming := sup.incoming + n } } id
      (newContract s sender to [(d, n)] lock ts timeLock true .incoming))

def createOutgoing (s : State) (id : Id) (sender to : Addr) (d : Denom) (n : Nat) (lock : String)
    (ts timeLock : Nat) (a : Asset) : R :=
  if timeLock < a.minLock ∨ a.maxLock < timeLock then .error (.reject "time lock outside range") else
  if n < a.fixedFee + a.minSwap then .error (.reject "insufficient amount") else
  match AMap.get? s.supplies d with
  | none => .error (.reject "asset not supported")
  | some sup =>
    if sup.current < sup.outgoing + n then .error (.reject "exceeds available supply") else
    match sendOk s.bank sender escrow [(d, n)] with
    | none => .error (.reject "insufficient funds")
    | some b =>
      .ok (record { s with bank := b,
                           supplies := AMap.set s.supplies d { sup with outgoing := sup.outgoing + n } } id
        (newContract s sender to [(d, n)] lock ts timeLock true .outgoing))

def createHTLT (s : State) (id : Id) (sender to : Addr) (coins : Coins) (lock : String)
    (ts timeLock : Nat) : R :=
  match coins with
  | [(d, n)] =>
    match findAsset s.params d with
    | none => .error (.reject "asset not supported")
    | some a =>
      if !a.active then .error (.reject "asset not active") else
      if n < a.minSwap ∨ a.maxSwap < n then .error (.reject "amount outside range") else
      if tsOutOfRange s.time ts then .error (.reject "invalid timestamp") else
      if sender = a.deputy then
        if to = a.deputy then .error (.reject "deputy cannot be both sender and receiver")
        else createIncoming s id sender to d n lock ts timeLock a
      else if to ≠ a.deputy then .error (.reject "deputy must be recipient")
      else createOutgoing s id sender to d n lock ts timeLock a
  | _ => .error (.reject "amount must contain exactly one coin")

def stepCreate (s : State) (id : Id) (sender to : Addr) (coins : Coins) (lock : String)
    (ts timeLock : Nat) (transfer : Bool) : R :=
  if !vbCreate coins lock timeLock transfer then .error (.reject "validate basic") else
  if blocked to then .error (.reject "recipient is a module account") else
  if to = escrow then .error (.reject "recipient is the htlc module account") else
  if AMap.contains s.htlcs id then .error (.reject "htlc exists") else
  if transfer then createHTLT s id sender to coins lock ts timeLock
  else createPlain s id sender to coins lock ts timeLock

/-! ### ClaimHTLC -/

/-- `IncrementCurrentAssetSupply` guard (after the incoming decrement) -/
def currentFits (a : Asset) (sup : Supply) (n : Nat) : Bool :=
  !(decide (a.limit < sup.current + n)) && !(a.timeLimited && decide (a.tbLimit < sup.tlCurrent + n))

/-- supply record after `DecrementIncoming` + `IncrementCurrent` -/
def supAfterClaimIn (a : Asset) (sup : Supply) (n : Nat) : Supply :=
  { sup with incoming := sup.incoming - n, current := sup.current + n,
             tlCurrent := if a.timeLimited then sup.tlCurrent + n else sup.tlCurrent }

def claimIncoming (s : State) (c : Contract) (d : Denom) (n : Nat) : R :=
  match AMap.get? s.supplies d with
  | none => .error (.reject "asset not supported")
  | some sup =>
    if sup.incoming < n then .error (.reject "invalid incoming supply") else
    match findAsset s.params d with
    | none => .error (.reject "asset not supported")
    | some a =>
      if !currentFits a sup n then .error (.reject "exceeds supply limit") else
      match sendOk (mintCoins s.bank escrow c.amount) escrow c.to c.amount with
      | none => .error (.reject "insufficient funds")
      | some b => .ok { s with bank := b, supplies := AMap.set s.supplies d (supAfterClaimIn a sup n) }

def claimOutgoing (s : State) (c : Contract) (d : Denom) (n : Nat) : R :=
  match AMap.get? s.supplies d with
  | none => .error (.reject "asset not supported")
  | some sup =>
    if sup.outgoing < n then .error (.reject "invalid outgoing supply") else
    if sup.current < n then .error (.reject "invalid current supply") else
    match burnCoins s.bank escrow c.amount with
    | none => .error (.reject "insufficient funds")
    | some b =>
      .ok { s with bank := b,
                   supplies := AMap.set s.supplies d
                     { sup with outgoing := sup.outgoing - n, current := sup.current - n } }

/-- `claimHTLT` / `claimHTLC`: the funds side of a claim -/
def claimFunds (s : State) (c : Contract) : R :=
  if c.transfer then
    match c.direction with
    | .none => .error (.reject "invalid direction")
    | .incoming =>
      match c.amount with
      | [] => .error (.panic "index out of range")
      | (d, n) :: _ => claimIncoming s c d n
    | .outgoing =>
      match c.amount with
      | [] => .error (.panic "index out of range")
      | (d, n) :: _ => claimOutgoing s c d n
  else
    match sendOk s.bank escrow c.to c.amount with
    | none => .error (.reject "insufficient funds")
    | some b => .ok { s with bank := b }

/-- `SetHTLC` of a closed contract + `DeleteHTLCFromExpiredQueue` -/
def close (s : State) (id : Id) (c : Contract) : State :=
  { s with htlcs := AMap.set s.htlcs id c, queue := dequeue s.queue (c.expiration, id) }

def completed (c : Contract) (secret : String) (h : Nat) : Contract :=
  { c with secret := secret, state := .completed, closedBlock := h }

/-- `lockOfSecret` = hex of `GetHashLock(secret, contract.timestamp)` (computed in `step`) -/
def stepClaim (s : State) (id secret : String) (lockOfSecret : String) : R :=
  if !(hexOk64 id && hexOk64 secret) then .error (.reject "validate basic") else
  match AMap.get? s.htlcs id with
  | none => .error (.reject "unknown htlc")
  | some c =>
    if c.state ≠ .open then .error (.reject "htlc not open") else
    if lockOfSecret ≠ c.hashLock then .error (.reject "invalid secret") else
    match claimFunds s c with
    | .error e => .error e
    | .ok s1 => .ok (close s1 id (completed c secret s.height))

/-! ### BeginBlocker -/

def refunded (c : Contract) (h : Nat) : Contract := { c with state := .refunded, closedBlock := h }

def markRefunded (s : State) (id : Id) (c : Contract) : State :=
  { s with htlcs := AMap.set s.htlcs id (refunded c s.height) }

def refundIncoming (s : State) (id : Id) (c : Contract) (d : Denom) (n : Nat) : State :=
  match AMap.get? s.supplies d with
  | none => s
  | some sup =>
    if sup.incoming < n then s else
    markRefunded { s with supplies := AMap.set s.supplies d { sup with incoming := sup.incoming - n } } id c

def refundOutgoing (s : State) (id : Id) (c : Contract) (d : Denom) (n : Nat) : State :=
  match AMap.get? s.supplies d with
  | none => s
  | some sup =>
    if sup.outgoing < n then s else
    match sendCoins s.bank escrow c.sender c.amount with
    | (b, false) =>
      { s with bank := b, supplies := AMap.set s.supplies d { sup with outgoing := sup.outgoing - n } }
    | (b, true) =>
      markRefunded { s with bank := b,
                            supplies := AMap.set s.supplies d { sup with outgoing := sup.outgoing - n } } id c

def refundPlain (s : State) (id : Id) (c : Contract) : State :=
  match sendCoins s.bank escrow c.sender c.amount with
  | (b, false) => { s with bank := b }
  | (b, true) => markRefunded { s with bank := b } id c

/-- `RefundHTLC` with its error swallowed and no cache: returns the state the block goes on with.
No check of the contract's state is made (the code has none). -/
def refundOne (s : State) (id : Id) : R :=
  match AMap.get? s.htlcs id with
  | none => .ok s
  | some c =>
    if c.transfer then
      match c.direction with
      | .none => .ok s
      | .incoming =>
        match c.amount with
        | [] => .error (.panic "index out of range")
        | (d, n) :: _ => .ok (refundIncoming s id c d n)
      | .outgoing =>
        match c.amount with
        | [] => .error (.panic "index out of range")
        | (d, n) :: _ => .ok (refundOutgoing s id c d n)
    else .ok (refundPlain s id c)

/-- the iteration of `BeginBlocker` over the entries queued at `h` -/
def processDue (s : State) (h : Nat) : List Id → R
  | [] => .ok s
  | id :: r =>
    match refundOne s id with
    | .error e => .error e
    | .ok s1 => processDue { s1 with queue := dequeue s1.queue (h, id) } h r

def zeroSupply : Supply := { incoming := 0, outgoing := 0, current := 0, tlCurrent := 0, elapsed := 0 }

/-- one asset's window update -/
def tick (a : Asset) (dt : Int) (sup : Supply) : Supply :=
  if a.timeLimited && decide (sup.elapsed + dt < a.period) then { sup with elapsed := sup.elapsed + dt }
  else { sup with elapsed := 0, tlCurrent := 0 }

def tickAll (dt : Int) : List Asset → AMap Denom Supply → AMap Denom Supply
  | [], m => m
  | a :: r, m => tickAll dt r (AMap.set m a.denom (tick a dt ((AMap.get? m a.denom).getD zeroSupply)))

/-- `UpdateTimeBasedSupplyLimits` -/
def updateLimits (s : State) : State :=
  if s.params.isEmpty then s else
  { s with supplies := tickAll ((s.time : Int) - ((s.prevTime.getD s.time : Nat) : Int)) s.params s.supplies,
           prevTime := some s.time }

def stepBeginBlock (s : State) (h t : Nat) : R :=
  match processDue { s with height := h, time := t } h (dueIds s.queue h) with
  | .error e => .error e
  | .ok s1 => .ok (updateLimits s1)

/-- `n` consecutive blocks, `dt` nanoseconds apart -/
def advance (s : State) : Nat → Nat → R
  | 0, _ => .ok s
  | n + 1, dt =>
    match stepBeginBlock s (s.height + 1) (s.time + dt) with
    | .error e => .error e
    | .ok s1 => advance s1 n dt

/-! ### UpdateParams -/

def stepSetParams (s : State) (authority : Addr) (ps : List Asset) : R :=
  if !paramsValid ps then .error (.reject "invalid params") else
  if authority ≠ gov then .error (.reject "unauthorized") else
  .ok { s with params := ps }

/-! ### ids -/

/-- the 20 address bytes behind a symbolic account name, as the harness derives them -/
def addrBytes (a : Addr) : ByteArray :=
  let seed : String :=
    if a = "M" then "htlc" else if a = "F" then "fee_collector" else if a = "G" then "gov"
    else if a.startsWith "A" then "verif-acc-" ++ (a.drop 1).toString else "verif-name-" ++ a
  (Sha256.sum seed.toUTF8).extract 0 20

def coinsString (cs : Coins) : String :=
  ",".intercalate (cs.map fun c => toString c.2 ++ c.1)

def be64 (n : Nat) : ByteArray :=
  (List.range 8).foldl (fun acc i => acc.push (UInt8.ofNat ((n >>> (8 * (7 - i))) % 256))) ByteArray.empty

def hexBytes (s : String) : ByteArray := (Line.bytesOfHex s).getD ByteArray.empty

/-- `types.GetID` -/
def genId (lock : String) (sender to : Addr) (coins : Coins) : Id :=
  Line.hexOfBytes (Sha256.sum (hexBytes lock ++ addrBytes sender ++ addrBytes to ++ (coinsString coins).toUTF8))

/-- `types.GetHashLock` -/
def genLock (secret : String) (ts : Nat) : String :=
  Line.hexOfBytes (Sha256.sum (if ts > 0 then hexBytes secret ++ be64 ts else hexBytes secret))

def step (s : State) : Op → R
  | .create sender to coins lock ts timeLock transfer =>
    stepCreate s (genId lock sender to coins) sender to coins lock ts timeLock transfer
  | .claim _ id secret =>
    stepClaim s id secret (genLock secret (((AMap.get? s.htlcs id).map (·.timestamp)).getD 0))
  | .beginBlock h t => stepBeginBlock s h t
  | .advance n dt => advance s n dt
  | .setParams authority ps => stepSetParams s authority ps

/-- the chain-level step: a rejected message leaves the state unchanged -/
def apply (s : State) (op : Op) : State :=
  match step s op with
  | .ok s' => s'
  | .error _ => s

def run (s : State) (ops : List Op) : State := ops.foldl apply s

end Irismod.Htlc
