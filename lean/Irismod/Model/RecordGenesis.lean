/-
Model of the record module's genesis export / validation / import
(modules/record/genesis.go, types/genesis.go) on top of `Irismod.Record`.

`ExportGenesis` iterates the record store (prefix 0x01 ++ id) and emits the records in id byte
order; it emits neither the ids nor the counter. `InitGenesis` replays the records through
`AddRecord`, which derives each id from the record bytes and the *importing* chain's counter
(0, 1, 2, … on an empty store). `ValidateGenesis` is modelled as written, including its early
`return nil` when `ValidateContents` fails (the remaining records are then not looked at); the
bech32 check of `record.Creator` is outside the model (creators in the store passed the same
check in `MsgCreateRecord.ValidateBasic`).

Core Lean only.
-/
import Irismod.Model.Record

namespace Irismod.RecordGenesis
open Irismod Irismod.Record

structure Genesis where
  records : List Rec := []
  deriving DecidableEq, Repr, Inhabited

/-- byte order of ids = order of the store keys `0x01 ++ id` -/
def idLt (a b : Id) : Bool := decide (a.toList < b.toList)

/-- insert into an id-ascending list (store keys are unique: no tie case) -/
def insId (e : Id × Rec) : List (Id × Rec) → List (Id × Rec)
  | [] => [e]
  | x :: t => if idLt e.1 x.1 then e :: x :: t else x :: insId e t

/-- the store in iteration order -/
def sortById (m : AMap Id Rec) : List (Id × Rec) := m.foldr insId []

/-- `ExportGenesis`: the records in store order, without their ids -/
def exportGenesis (s : State) : Genesis := { records := (sortById s.recs).map (·.2) }

/-- `ValidateGenesis` (as written) -/
def validateRecords : List Rec → Except Err Unit
  | [] => .ok ()
  | r :: t =>
    if r.contents.isEmpty then .error (.reject "contents missing") else
    if !(r.contents.all contentOk) then .ok ()      -- `if err := ValidateContents(..); err != nil { return nil }`
    else validateRecords t

def validateGenesis (g : Genesis) : Except Err Unit := validateRecords g.records

/-- the `AddRecord` loop of `InitGenesis`: each id is re-derived with the importing store's counter -/
def importFrom (s : State) : List Rec → State
  | [] => s
  | r :: t => importFrom (addRecord s (idOfPre (preimage r s.counter)) r) t

/-- `InitGenesis` on an empty module store -/
def importGenesis (g : Genesis) : R :=
  match validateGenesis g with
  | .error _ => .error (.panic "invalid genesis")
  | .ok _ => .ok (importFrom {} g.records)

/-- the ids `InitGenesis` gives to a record list when the counter starts at `c` -/
def newIds : UInt32 → List Rec → List Id
  | _, [] => []
  | c, r :: t => idOfPre (preimage r c) :: newIds (c + 1) t

end Irismod.RecordGenesis
