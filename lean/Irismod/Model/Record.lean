/-
Executable model of the record module (modules/record/keeper/{keeper,msg_server}.go,
types/{msgs,validation,types}.go).

State: the record store (prefix 0x01: id -> marshalled record) and the persistent
"intra-tx" counter (key 0x02). The counter is a store key, it is never reset (no
begin/end-block logic, not transient), it is a `uint32` and wraps.

`AddRecord`: id = sha256(protobuf(record) ++ bigEndian32(counter)); `store.Set` under that
id (an existing key is overwritten); counter := counter + 1.

`CreateRecord`: record = (upper-case hex of sha256(ctx.TxBytes()), msg.Contents, msg.Creator).
One operation of the model is one transaction (tx bytes + a list of MsgCreateRecord), which
is all-or-nothing: `ValidateBasic` of every message runs before any handler, and the handler
cannot fail on a message that passed `ValidateBasic`.

The protobuf wire encoding of `Record`/`Content` (gogoproto generated marshaller: proto3
strings omitted when empty, every repeated `Content` emitted length-delimited even if empty)
is written out here for exactly these two messages. Core Lean only.
-/
import Irismod.Sdk.Map
import Irismod.Sdk.Sha256
import Irismod.Sdk.Line

namespace Irismod.Record
open Irismod

abbrev Bytes := List UInt8
/-- a record id: the 32 bytes of a SHA-256 sum -/
abbrev Id := Array UInt8

structure Content where
  digest : String
  algo   : String
  uri    : String
  metadata : String
  deriving DecidableEq, Repr, Inhabited

structure Rec where
  txHash   : String          -- upper-case hex of sha256(tx bytes)
  contents : List Content
  creator  : String          -- bech32 string as submitted
  deriving DecidableEq, Repr, Inhabited

/-- one `MsgCreateRecord`; `creatorOk` is the outcome of `sdk.AccAddressFromBech32(creator)`,
    supplied with the operation (bech32 checksums are not modelled) -/
structure Msg where
  creator   : String
  creatorOk : Bool
  contents  : List Content
  deriving DecidableEq, Repr, Inhabited

structure State where
  recs    : AMap Id Rec := []
  counter : UInt32 := 0
  deriving Repr, Inhabited

inductive Op where
  | tx (txBytes : ByteArray) (msgs : List Msg)
  | query (id : Id)
  | queryAll
  | nextBlock          -- the module's begin/end blockers are no-ops
  deriving Inhabited

inductive Err where
  | reject (why : String)
  | panic (why : String)
  deriving Repr, Inhabited

abbrev R := Except Err State

/-! ### protobuf wire encoding of `Record` -/

/-- base-128 varint, least significant group first -/
def varint (n : Nat) : Bytes :=
  if h : n < 128 then [UInt8.ofNat n] else UInt8.ofNat (n % 128 + 128) :: varint (n / 128)
termination_by n
decreasing_by omega

/-- a length-delimited field: tag byte, length, payload -/
def lenField (tag : UInt8) (b : Bytes) : Bytes := tag :: (varint b.length ++ b)

/-- a proto3 string field: omitted when empty -/
def strField (tag : UInt8) (s : String) : Bytes :=
  if s.toUTF8.data.toList = [] then [] else lenField tag s.toUTF8.data.toList

def encContent (c : Content) : Bytes :=
  strField 0x0a c.digest ++ strField 0x12 c.algo ++ strField 0x1a c.uri ++ strField 0x22 c.metadata

def encContents : List Content → Bytes
  | [] => []
  | c :: t => lenField 0x12 (encContent c) ++ encContents t

def encRecord (r : Rec) : Bytes :=
  strField 0x0a r.txHash ++ encContents r.contents ++ strField 0x1a r.creator

/-- `binary.BigEndian.PutUint32` -/
def be32 (c : UInt32) : Bytes :=
  [UInt8.ofNat (c.toNat / 16777216 % 256), UInt8.ofNat (c.toNat / 65536 % 256),
   UInt8.ofNat (c.toNat / 256 % 256), UInt8.ofNat (c.toNat % 256)]

/-- the byte string that is hashed into the id -/
def preimage (r : Rec) (c : UInt32) : Bytes := encRecord r ++ be32 c

def toBA (b : Bytes) : ByteArray := ByteArray.mk b.toArray

/-- `tmhash.Sum` of a byte string, as an id -/
def idOfPre (pre : Bytes) : Id := (Sha256.sum (toBA pre)).data

def hexUpper (s : String) : String := s.map Char.toUpper

/-- `tmhash.Sum(ctx.TxBytes())` rendered by `HexBytes.String()` (upper case) -/
def txHashOf (txBytes : ByteArray) : String := hexUpper (Line.hexOfBytes (Sha256.sum txBytes))

/-! ### handlers -/

/-- `ValidateContents` -/
def contentOk (c : Content) : Bool := c.digest ≠ "" && c.algo ≠ ""

/-- `MsgCreateRecord.ValidateBasic` -/
def msgOk (m : Msg) : Bool := !m.contents.isEmpty && m.creatorOk && m.contents.all contentOk

def mkRec (txHash : String) (m : Msg) : Rec :=
  { txHash := txHash, contents := m.contents, creator := m.creator }

/-- `AddRecord` with the id already computed -/
def addRecord (s : State) (id : Id) (r : Rec) : State :=
  { recs := AMap.set s.recs id r, counter := s.counter + 1 }

/-- `CreateRecord` of one message: the id mixes in the current counter -/
def createOne (txHash : String) (s : State) (m : Msg) : State :=
  addRecord s (idOfPre (preimage (mkRec txHash m) s.counter)) (mkRec txHash m)

/-- one transaction -/
def stepTx (s : State) (txHash : String) (msgs : List Msg) : R :=
  if msgs.isEmpty then .error (.reject "tx without messages") else
  if !(msgs.all msgOk) then .error (.reject "ValidateBasic") else
  .ok (msgs.foldl (createOne txHash) s)

def step (s : State) : Op → R
  | .tx txBytes msgs => stepTx s (txHashOf txBytes) msgs
  | .query _ => .ok s
  | .queryAll => .ok s
  | .nextBlock => .ok s

def apply (s : State) (op : Op) : State :=
  match step s op with
  | .ok s' => s'
  | .error _ => s

def run (s : State) (ops : List Op) : State := ops.foldl apply s

/-- `GetRecord` -/
def getRecord (s : State) (id : Id) : Option Rec := AMap.get? s.recs id

end Irismod.Record
