/-
Executable model of the irismod NFT module: modules/nft/keeper/{nft,denom,msg_server,
collection}.go and the ValidateBasic rules of modules/nft/types/{msgs,validation}.go.

The irismod keeper wraps the Cosmos SDK keeper `cosmossdk.io/x/nft/keeper` (v0.1.1). That
keeper is MODELLED, NOT VERIFIED: its five key spaces are five tables here

  0x01 class            `classes : ClassId -> ClassRec`            (never deleted)
  0x02 nft              `tokens  : (ClassId, TokenId) -> TokenRec`
  0x04 owner            `owners  : (ClassId, TokenId) -> Addr`
  0x03 nft-of-class-by-owner index   `idx : (Addr, ClassId, TokenId) -> ()`
  0x05 class total supply            `supply : ClassId -> uint64`  (`+1` / `-1` wrap, as in Go)

and its methods `SaveClass/UpdateClass/Mint/Burn/Update/Transfer` perform the same reads, checks
and writes in the same order as class.go / nft.go of x/nft. The irismod metadata (creator,
schema, restriction flags, data; token name and data) lives in the `Any` payload of the x/nft
class / nft records; it is modelled as plain fields of `ClassRec` / `TokenRec`.
`GetBalance` of x/nft counts the index entries of `(owner, class)` whose token can be read back;
the model counts the index entries (the extra read never fails while index ⊆ tokens, which is
part of the invariant proved in Props/C14).

Deleted keys are kept as tombstones (`none`), so `get` after `del` is `none` exactly like a KV
store and every counting lemma is an instance of `AMap.sumIf_set`.

Free-form strings (name, uri, uri hash, data, schema, symbol, description) are carried as the
lowercase hexadecimal encoding of their bytes (`""` = empty string); ids and addresses are
plain strings, the empty address is the invalid one. A rejected message leaves the state
unchanged (the transaction cache is discarded).
-/
import Irismod.Sdk.Map
import Irismod.Model.NftJson

namespace Irismod

/-- a KV table with tombstones -/
abbrev Tbl (K V : Type) := AMap K (Option V)

namespace Tbl
variable {K V : Type} [DecidableEq K]

def get (m : Tbl K V) (k : K) : Option V :=
  match AMap.get? m k with
  | some (some v) => some v
  | _ => none

def has (m : Tbl K V) (k : K) : Bool := (get m k).isSome
def put (m : Tbl K V) (k : K) (v : V) : Tbl K V := AMap.set m k (some v)
def del (m : Tbl K V) (k : K) : Tbl K V := AMap.set m k none

/-- the live bindings -/
def live : Tbl K V → List (K × V)
  | [] => []
  | (k, some v) :: t => (k, v) :: live t
  | (_, none) :: t => live t

def one (o : Option V) : Nat := if o.isSome then 1 else 0

/-- number of live keys satisfying `p` -/
def count (p : K → Bool) (m : Tbl K V) : Nat := AMap.sumIf p one m

end Tbl

namespace Nft

abbrev Addr := String
abbrev ClassId := String
abbrev TokenId := String

/-- x/nft `Class` plus the irismod `DenomMetadata` packed in its `data` -/
structure ClassRec where
  creator          : Addr
  mintRestricted   : Bool
  updateRestricted : Bool
  name        : String
  symbol      : String
  schema      : String
  description : String
  uri         : String
  uriHash     : String
  data        : String
  deriving DecidableEq, Repr, Inhabited

/-- x/nft `NFT` plus the irismod `NFTMetadata` packed in its `data` -/
structure TokenRec where
  name    : String
  uri     : String
  uriHash : String
  data    : String
  deriving DecidableEq, Repr, Inhabited

structure State where
  classes : AMap ClassId ClassRec := []
  tokens  : Tbl (ClassId × TokenId) TokenRec := []
  owners  : Tbl (ClassId × TokenId) Addr := []
  idx     : Tbl (Addr × ClassId × TokenId) Unit := []
  supply  : AMap ClassId Nat := []
  deriving Repr, Inhabited

inductive Op where
  | issue (sender : Addr) (id : ClassId) (mr ur : Bool) (name symbol schema desc uri uriHash data : String)
  | mint (sender rcpt : Addr) (c : ClassId) (t : TokenId) (name uri uriHash data : String)
  | edit (sender : Addr) (c : ClassId) (t : TokenId) (name uri uriHash data : String)
  | transfer (sender rcpt : Addr) (c : ClassId) (t : TokenId) (name uri uriHash data : String)
  | burn (sender : Addr) (c : ClassId) (t : TokenId)
  | transferDenom (sender rcpt : Addr) (c : ClassId)
  deriving Repr, Inhabited, DecidableEq

inductive Err where
  | reject (why : String)
  | panic (why : String)
  deriving Repr, Inhabited

abbrev R := Except Err State

/-! ### types/validation.go -/

/-- hex of `"[do-not-modify]"` -/
def doNotModify : String := "5b646f2d6e6f742d6d6f646966795d"

/-- `Modified` -/
def modified (target : String) : Bool := target != doNotModify
/-- `Modify` -/
def modify (origin target : String) : String := if target = doNotModify then origin else target

def isLower (c : Char) : Bool := 'a' ≤ c && c ≤ 'z'
def isIdChar (c : Char) : Bool := ('a' ≤ c && c ≤ 'z') || ('A' ≤ c && c ≤ 'Z') || ('0' ≤ c && c ≤ '9') || c == '/'

/-- `regexpID`: `^[a-z][a-zA-Z0-9/]{2,100}$` -/
def regexpID (s : String) : Bool :=
  match s.toList with
  | [] => false
  | c :: rest => isLower c && rest.all isIdChar && 2 ≤ rest.length && rest.length ≤ 100

/-- `ValidateDenomID` -/
def validDenomId (s : String) : Bool := regexpID s || s.startsWith "tibc-"
/-- `ValidateTokenID` -/
def validTokenId (s : String) : Bool := regexpID s
/-- `ValidateKeywords` (true = allowed): the id must not begin with peg / ibc / htlt / tibc -/
def keywordFree (s : String) : Bool :=
  !(s.startsWith "peg" || s.startsWith "ibc" || s.startsWith "htlt" || s.startsWith "tibc")
/-- `IsIBCDenom` -/
def isIBCDenom (s : String) : Bool := s.startsWith "ibc/"
/-- `ValidateTokenURI`: at most `MaxTokenURILen = 256` bytes (the argument is hex) -/
def validUri (hexUri : String) : Bool := hexUri.length ≤ 512
/-- an address string parses iff it is not empty (all symbolic accounts are valid bech32) -/
def validAddr (a : Addr) : Bool := a != ""

/-- `len(Data) != 0 && !gjson.Valid(Data)` is an error -/
def dataOkPlain (d : String) : Bool := d == "" || NftJson.validHex d
/-- `len(Data) != 0 && Modified(Data) && !gjson.Valid(Data)` is an error -/
def dataOkMod (d : String) : Bool := d == "" || d == doNotModify || NftJson.validHex d

/-! ### ValidateBasic of the six messages (types/msgs.go); `dataOk` is computed by `step` -/

def issueVB (sender : Addr) (id : ClassId) (dataOk : Bool) : Bool :=
  validDenomId id && validAddr sender && dataOk && keywordFree id
def mintVB (sender rcpt : Addr) (c : ClassId) (t : TokenId) (uri : String) (dataOk : Bool) : Bool :=
  validAddr sender && validAddr rcpt && !isIBCDenom c && validDenomId c && validUri uri && dataOk && validTokenId t
def editVB (sender : Addr) (c : ClassId) (t : TokenId) (uri : String) (dataOk : Bool) : Bool :=
  validAddr sender && validDenomId c && validUri uri && dataOk && validTokenId t
/-- `MsgTransferNFT.ValidateBasic`, with the URI length rule added by /repo commit 878dbc3
(finding F-gen-4: before it, a transfer with changes could store a URI that `MsgMintNFT`,
`MsgEditNFT` and `ValidateGenesis` refuse) -/
def transferVB (sender rcpt : Addr) (c : ClassId) (t : TokenId) (uri : String) (dataOk : Bool) : Bool :=
  validDenomId c && validAddr sender && validAddr rcpt && validUri uri && dataOk && validTokenId t
def burnVB (sender : Addr) (c : ClassId) (t : TokenId) : Bool :=
  validAddr sender && validDenomId c && validTokenId t
def transferDenomVB (sender rcpt : Addr) (c : ClassId) : Bool :=
  validAddr sender && validAddr rcpt && validDenomId c

/-! ### the x/nft keeper (modelled) -/

def hasClass (s : State) (c : ClassId) : Bool := AMap.contains s.classes c
def tokenOf (s : State) (c : ClassId) (t : TokenId) : Option TokenRec := Tbl.get s.tokens (c, t)
def hasNFT (s : State) (c : ClassId) (t : TokenId) : Bool := (tokenOf s c t).isSome
/-- `GetOwner`; `none` is the empty address returned for a missing key -/
def ownerOf (s : State) (c : ClassId) (t : TokenId) : Option Addr := Tbl.get s.owners (c, t)
def idxHas (s : State) (a : Addr) (c : ClassId) (t : TokenId) : Bool := Tbl.has s.idx (a, c, t)
/-- `GetTotalSupply` -/
def supplyOf (s : State) (c : ClassId) : Nat := AMap.getD s.supply c 0

def u64 : Nat := 18446744073709551616

/-- `incrTotalSupply`: `uint64 + 1` -/
def incrSupply (s : State) (c : ClassId) : State :=
  { s with supply := AMap.set s.supply c ((supplyOf s c + 1) % u64) }
/-- `decrTotalSupply`: `uint64 - 1` (wraps at zero, like Go) -/
def decrSupply (s : State) (c : ClassId) : State :=
  { s with supply := AMap.set s.supply c ((supplyOf s c + (u64 - 1)) % u64) }

/-- `setOwner`: owner key and owner index entry -/
def setOwner (s : State) (c : ClassId) (t : TokenId) (a : Addr) : State :=
  { s with owners := Tbl.put s.owners (c, t) a, idx := Tbl.put s.idx (a, c, t) () }

/-- `deleteOwner(ctx, class, id, owner)` with `owner` the result of `GetOwner` -/
def deleteOwner (s : State) (c : ClassId) (t : TokenId) : Option Addr → State
  | none => { s with owners := Tbl.del s.owners (c, t) }
  | some a => { s with owners := Tbl.del s.owners (c, t), idx := Tbl.del s.idx (a, c, t) }

/-- `setNFT` -/
def setNFT (s : State) (c : ClassId) (t : TokenId) (r : TokenRec) : State :=
  { s with tokens := Tbl.put s.tokens (c, t) r }

/-- `Keeper.Mint` -/
def nkMint (s : State) (c : ClassId) (t : TokenId) (r : TokenRec) (receiver : Addr) : R :=
  if !hasClass s c then .error (.reject "class not exists") else
  if hasNFT s c t then .error (.reject "nft exists") else
  .ok (incrSupply (setOwner (setNFT s c t r) c t receiver) c)

/-- `Keeper.Burn` -/
def nkBurn (s : State) (c : ClassId) (t : TokenId) : R :=
  if !hasClass s c then .error (.reject "class not exists") else
  if !hasNFT s c t then .error (.reject "nft not exists") else
  .ok (decrSupply (deleteOwner { s with tokens := Tbl.del s.tokens (c, t) } c t (ownerOf s c t)) c)

/-- `Keeper.Update` -/
def nkUpdate (s : State) (c : ClassId) (t : TokenId) (r : TokenRec) : R :=
  if !hasClass s c then .error (.reject "class not exists") else
  if !hasNFT s c t then .error (.reject "nft not exists") else
  .ok (setNFT s c t r)

/-- `Keeper.Transfer` -/
def nkTransfer (s : State) (c : ClassId) (t : TokenId) (receiver : Addr) : R :=
  if !hasClass s c then .error (.reject "class not exists") else
  if !hasNFT s c t then .error (.reject "nft not exists") else
  .ok (setOwner (deleteOwner s c t (ownerOf s c t)) c t receiver)

/-- `GetBalance` (see the header for the omitted read-back) -/
def balanceOf (s : State) (a : Addr) (c : ClassId) : Nat :=
  Tbl.count (fun k => k.1 = a && k.2.1 = c) s.idx

/-- number of live tokens of a class (`len(GetNFTsOfClass)`) -/
def tokenCount (s : State) (c : ClassId) : Nat := Tbl.count (fun k => k.1 = c) s.tokens

/-! ### the irismod keeper and message server -/

/-- the token record after `Modify` of each field (UpdateNFT / TransferOwnership) -/
def applyChanges (r : TokenRec) (name uri uriHash data : String) : TokenRec :=
  { name := modify r.name name, uri := modify r.uri uri, uriHash := modify r.uriHash uriHash,
    data := modify r.data data }

/-- does the message ask for any metadata change? -/
def anyChange (name uri uriHash data : String) : Bool :=
  modified uri || modified uriHash || modified name || modified data

/-- the class record written by `SaveDenom` -/
def newClass (sender : Addr) (mr ur : Bool) (name symbol schema desc uri uriHash data : String) : ClassRec :=
  { creator := sender, mintRestricted := mr, updateRestricted := ur, name := name, symbol := symbol,
    schema := schema, description := desc, uri := uri, uriHash := uriHash, data := data }

/-- `IssueDenom` → `SaveDenom` → `SaveClass` -/
def stepIssue (s : State) (sender : Addr) (id : ClassId) (mr ur : Bool)
    (name symbol schema desc uri uriHash data : String) (dataOk : Bool) : R :=
  if !issueVB sender id dataOk then .error (.reject "validate-basic") else
  if hasClass s id then .error (.reject "class exists") else
  .ok { s with classes := AMap.set s.classes id (newClass sender mr ur name symbol schema desc uri uriHash data) }

/-- `MintNFT` → `SaveNFT` → `Mint` -/
def stepMint (s : State) (sender rcpt : Addr) (c : ClassId) (t : TokenId)
    (name uri uriHash data : String) (dataOk : Bool) : R :=
  if !mintVB sender rcpt c t uri dataOk then .error (.reject "validate-basic") else
  match AMap.get? s.classes c with
  | none => .error (.reject "denom not exists")
  | some cl =>
    if cl.mintRestricted && cl.creator != sender then .error (.reject "not allowed to mint") else
    nkMint s c t { name := name, uri := uri, uriHash := uriHash, data := data } rcpt

/-- `EditNFT` → `UpdateNFT` -/
def stepEdit (s : State) (sender : Addr) (c : ClassId) (t : TokenId)
    (name uri uriHash data : String) (dataOk : Bool) : R :=
  if !editVB sender c t uri dataOk then .error (.reject "validate-basic") else
  match AMap.get? s.classes c with
  | none => .error (.reject "denom not exists")
  | some cl =>
    if cl.updateRestricted then .error (.reject "nobody can update") else
    if ownerOf s c t ≠ some sender then .error (.reject "unauthorized") else
    if !anyChange name uri uriHash data then .ok s else
    match tokenOf s c t with
    | none => .error (.reject "unknown nft")
    | some r => nkUpdate s c t (applyChanges r name uri uriHash data)

/-- `TransferNFT` → `TransferOwnership` -/
def stepTransfer (s : State) (sender rcpt : Addr) (c : ClassId) (t : TokenId)
    (name uri uriHash data : String) (dataOk : Bool) : R :=
  if !transferVB sender rcpt c t uri dataOk then .error (.reject "validate-basic") else
  match tokenOf s c t with
  | none => .error (.reject "nft not exists")
  | some r =>
    if ownerOf s c t ≠ some sender then .error (.reject "unauthorized") else
    match AMap.get? s.classes c with
    | none => .error (.reject "denom not exists")
    | some cl =>
      if cl.updateRestricted && anyChange name uri uriHash data then .error (.reject "restricted to update") else
      if !anyChange name uri uriHash data then nkTransfer s c t rcpt else
      match nkUpdate s c t (applyChanges r name uri uriHash data) with
      | .error e => .error e
      | .ok s1 => nkTransfer s1 c t rcpt

/-- `BurnNFT` → `RemoveNFT` -/
def stepBurn (s : State) (sender : Addr) (c : ClassId) (t : TokenId) : R :=
  if !burnVB sender c t then .error (.reject "validate-basic") else
  if ownerOf s c t ≠ some sender then .error (.reject "unauthorized") else
  nkBurn s c t

/-- `TransferDenom` → `TransferDenomOwner` → `UpdateClass` -/
def stepTransferDenom (s : State) (sender rcpt : Addr) (c : ClassId) : R :=
  if !transferDenomVB sender rcpt c then .error (.reject "validate-basic") else
  match AMap.get? s.classes c with
  | none => .error (.reject "denom not exists")
  | some cl =>
    if sender ≠ cl.creator then .error (.reject "not allowed to transfer denom") else
    if !hasClass s c then .error (.reject "class not exists") else
    .ok { s with classes := AMap.set s.classes c { cl with creator := rcpt } }

def step (s : State) : Op → R
  | .issue sender id mr ur name symbol schema desc uri uriHash data =>
    stepIssue s sender id mr ur name symbol schema desc uri uriHash data (dataOkPlain data)
  | .mint sender rcpt c t name uri uriHash data =>
    stepMint s sender rcpt c t name uri uriHash data (dataOkPlain data)
  | .edit sender c t name uri uriHash data =>
    stepEdit s sender c t name uri uriHash data (dataOkMod data)
  | .transfer sender rcpt c t name uri uriHash data =>
    stepTransfer s sender rcpt c t name uri uriHash data (dataOkMod data)
  | .burn sender c t => stepBurn s sender c t
  | .transferDenom sender rcpt c => stepTransferDenom s sender rcpt c

/-- the chain-level step: a rejected message leaves the state unchanged -/
def apply (s : State) (op : Op) : State :=
  match step s op with
  | .ok s' => s'
  | .error _ => s

def run (s : State) (ops : List Op) : State := ops.foldl apply s

end Nft
end Irismod
