/-
Model of the NFT module's genesis export / validation / import
(modules/nft/keeper/genesis.go ExportGenesis + InitGenesis, keeper/collection.go GetCollections +
SaveCollection, keeper/nft.go GetNFTs + SaveNFT, keeper/denom.go GetDenomInfo + SaveDenom,
types/genesis.go ValidateGenesis), on top of the state machine of `Irismod.Nft`.

* `GetCollections` walks the x/nft class store (prefix 0x01) and, per class, the nft store
  (prefix 0x02 ‖ class ‖ 0x00) with store iterators: ascending byte order of the ids. Ids of
  stored classes and tokens match `[a-z][a-zA-Z0-9/]{2,100}` (ValidateBasic), so byte order is the
  order of `String.<`; deleted keys (tombstones of the model) are not visited.
* every exported token carries its owner as `GetOwner(...).String()` — the empty string when the
  owner key is missing.
* `ValidateGenesis` checks the class id, and per token: owner parses, token id, URI length.
* `InitGenesis` panics on an invalid document, an unparsable creator, an existing class
  (`SaveClass`) or an existing token (`Mint`); otherwise it writes the class and mints every token
  to its owner, which rebuilds owner keys, owner index and the supply counter.

Core Lean only.
-/
import Irismod.Model.Nft
import Irismod.Model.MtGenesis

namespace Irismod.NftGenesis
open Irismod Irismod.Nft
open Irismod.MtGenesis (sortDedup tail)

/-! ### the genesis document (proto/irismod/nft/genesis.proto) -/

/-- `BaseNFT` -/
structure NftExp where
  id    : TokenId
  tok   : TokenRec
  owner : Addr
  deriving DecidableEq, Repr, Inhabited

/-- `Collection{Denom, NFTs}` -/
structure Collection where
  id   : ClassId
  cls  : ClassRec
  nfts : List NftExp
  deriving DecidableEq, Repr, Inhabited

abbrev Genesis := List Collection

/-! ### ExportGenesis -/

/-- the keys an iterator visits (live bindings only) -/
def liveKeys {K V : Type} (m : Tbl K V) : List K := (Tbl.live m).map (·.1)

/-- `GetNFTs(ctx, c)`: the tokens of class `c` in key order, each with `GetOwner` -/
def exportNfts (s : State) (c : ClassId) : List NftExp :=
  (sortDedup (tail (liveKeys s.tokens) c)).map fun t =>
    { id := t, tok := (tokenOf s c t).getD default, owner := (ownerOf s c t).getD "" }

/-- `GetCollections`: `GetClasses` in key order, `GetDenomInfo` + `GetNFTs` for each -/
def exportGenesis (s : State) : Genesis :=
  (sortDedup (AMap.keys s.classes)).map fun c =>
    { id := c, cls := (AMap.get? s.classes c).getD default, nfts := exportNfts s c }

/-! ### types.ValidateGenesis -/

def validateNft (n : NftExp) : Bool := validAddr n.owner && validTokenId n.id && validUri n.tok.uri

def validateCollection (c : Collection) : Bool := validDenomId c.id && c.nfts.all validateNft

def validateGenesis (g : Genesis) : Bool := g.all validateCollection

/-! ### InitGenesis -/

/-- `SaveCollection`: `SaveNFT` → `Mint` for every token; an error is a panic -/
def importNfts (s : State) (c : ClassId) : List NftExp → R
  | [] => .ok s
  | n :: t =>
    match nkMint s c n.id n.tok n.owner with
    | .error _ => .error (.panic "mint failed")
    | .ok s1 => importNfts s1 c t

/-- the loop over `data.Collections`: creator parses, `SaveDenom` (→ `SaveClass`), `SaveCollection` -/
def importCollections (s : State) : Genesis → R
  | [] => .ok s
  | c :: t =>
    if !validAddr c.cls.creator then .error (.panic "invalid creator") else
    if hasClass s c.id then .error (.panic "class exists") else
    match importNfts { s with classes := AMap.set s.classes c.id c.cls } c.id c.nfts with
    | .error e => .error e
    | .ok s1 => importCollections s1 t

/-- `InitGenesis` on an empty module store -/
def importGenesis (g : Genesis) : R :=
  if !validateGenesis g then .error (.panic "invalid genesis") else importCollections {} g

end Irismod.NftGenesis
