/-
Port of `gjson.Valid` (github.com/tidwall/gjson v1.14.4, functions validpayload / validany /
validobject / validarray / validstring / validnumber / validcolon / validcomma / validtrue /
validfalse / validnull), the JSON syntax check that `ValidateBasic` of the NFT messages applies
to the `data` fields. Byte-oriented, like the Go code (bytes >= 0x80 inside strings are accepted
as they are). Every function returns `(next index, ok)`; recursion is bounded by a fuel that
starts at `4 * size + 8` (at most three nested calls per consumed byte). Core Lean only.
-/
import Irismod.Sdk.Line

namespace Irismod.NftJson

abbrev Bytes := ByteArray

@[inline] def byteAt (d : Bytes) (i : Nat) : UInt8 := d.get! i

def isWs (b : UInt8) : Bool := b == 32 || b == 9 || b == 10 || b == 13
def isDigit (b : UInt8) : Bool := 48 ≤ b && b ≤ 57
def isHex (b : UInt8) : Bool := isDigit b || (97 ≤ b && b ≤ 102) || (65 ≤ b && b ≤ 70)

/-- first index `≥ i` that is not JSON white space (or `size`) -/
def skipWs (d : Bytes) (i : Nat) : Nat :=
  if h : i < d.size then
    if isWs (byteAt d i) then skipWs d (i + 1) else i
  else i
termination_by d.size - i

/-- first index `≥ i` that is not a decimal digit (or `size`) -/
def skipDigits (d : Bytes) (i : Nat) : Nat :=
  if h : i < d.size then
    if isDigit (byteAt d i) then skipDigits d (i + 1) else i
  else i
termination_by d.size - i

/-- `validstring(data, i)`: `i` is the index after the opening quote -/
def validString (d : Bytes) : Nat → Nat → Nat × Bool
  | 0, i => (i, false)
  | fuel + 1, i =>
    if i ≥ d.size then (i, false) else
    if byteAt d i < 32 then (i, false)
    else if byteAt d i == 92 then
      if i + 1 ≥ d.size then (i + 1, false) else
      if byteAt d (i + 1) == 34 || byteAt d (i + 1) == 92 || byteAt d (i + 1) == 47 ||
         byteAt d (i + 1) == 98 || byteAt d (i + 1) == 102 || byteAt d (i + 1) == 110 ||
         byteAt d (i + 1) == 114 || byteAt d (i + 1) == 116 then validString d fuel (i + 2)
      else if byteAt d (i + 1) == 117 then
        if i + 5 < d.size && isHex (byteAt d (i + 2)) && isHex (byteAt d (i + 3)) &&
           isHex (byteAt d (i + 4)) && isHex (byteAt d (i + 5))
        then validString d fuel (i + 6) else (i + 1, false)
      else (i + 1, false)
    else if byteAt d i == 34 then (i + 1, true)
    else validString d fuel (i + 1)

/-- `validnumber(data, i)`: `i` is the index after the first character (`-` or a digit) -/
def validNumber (d : Bytes) (i1 : Nat) : Nat × Bool :=
  let i0 := i1 - 1
  -- sign
  let signOk : Bool := if byteAt d i0 == 45 then i0 + 1 < d.size && isDigit (byteAt d (i0 + 1)) else true
  if !signOk then (i0, false) else
  let i := if byteAt d i0 == 45 then i0 + 1 else i0
  if i ≥ d.size then (i, false) else
  -- int
  let i := if byteAt d i == 48 then i + 1 else skipDigits d i
  -- frac
  if i ≥ d.size then (i, true) else
  let fracBad : Bool := byteAt d i == 46 && !(i + 1 < d.size && isDigit (byteAt d (i + 1)))
  if fracBad then (i, false) else
  let i := if byteAt d i == 46 then skipDigits d (i + 2) else i
  -- exp
  if i ≥ d.size then (i, true) else
  if byteAt d i == 101 || byteAt d i == 69 then
    if i + 1 ≥ d.size then (i, false) else
    let j := if byteAt d (i + 1) == 43 || byteAt d (i + 1) == 45 then i + 2 else i + 1
    if j ≥ d.size then (j, false) else
    if !isDigit (byteAt d j) then (j, false) else
    (skipDigits d (j + 1), true)
  else (i, true)

def validLit (d : Bytes) (i : Nat) (rest : List UInt8) : Nat × Bool :=
  if i + rest.length ≤ d.size && (List.range rest.length).all (fun j => byteAt d (i + j) == rest.getD j 0)
  then (i + rest.length, true) else (i, false)

/-- `validcolon` -/
def validColon (d : Bytes) (i : Nat) : Nat × Bool :=
  let j := skipWs d i
  if j < d.size && byteAt d j == 58 then (j + 1, true) else (j, false)

/-- `validcomma(data, i, end)`: stops *on* the comma or the closing byte -/
def validComma (d : Bytes) (i : Nat) (close : UInt8) : Nat × Bool :=
  let j := skipWs d i
  if j < d.size && (byteAt d j == 44 || byteAt d j == close) then (j, true) else (j, false)

mutual
/-- `validany` -/
def validAny (d : Bytes) : Nat → Nat → Nat × Bool
  | 0, i => (i, false)
  | fuel + 1, i0 =>
    let i := skipWs d i0
    if i ≥ d.size then (i, false) else
    let c := byteAt d i
    if c == 123 then validObject d fuel (i + 1)
    else if c == 91 then validArray d fuel (i + 1)
    else if c == 34 then validString d (d.size + 1) (i + 1)
    else if c == 45 || isDigit c then validNumber d (i + 1)
    else if c == 116 then validLit d (i + 1) [114, 117, 101]
    else if c == 102 then validLit d (i + 1) [97, 108, 115, 101]
    else if c == 110 then validLit d (i + 1) [117, 108, 108]
    else (i, false)

/-- `validobject(data, i)`: `i` is the index after `{` -/
def validObject (d : Bytes) : Nat → Nat → Nat × Bool
  | 0, i => (i, false)
  | fuel + 1, i0 =>
    let i := skipWs d i0
    if i ≥ d.size then (i, false) else
    if byteAt d i == 125 then (i + 1, true)
    else if byteAt d i == 34 then objKey d fuel i
    else (i, false)

/-- the `key:` label of `validobject`: `i` is the index of the key's opening quote -/
def objKey (d : Bytes) : Nat → Nat → Nat × Bool
  | 0, i => (i, false)
  | fuel + 1, i =>
    match validString d (d.size + 1) (i + 1) with
    | (i1, false) => (i1, false)
    | (i1, true) =>
      match validColon d i1 with
      | (i2, false) => (i2, false)
      | (i2, true) =>
        match validAny d fuel i2 with
        | (i3, false) => (i3, false)
        | (i3, true) =>
          match validComma d i3 125 with
          | (i4, false) => (i4, false)
          | (i4, true) =>
            if byteAt d i4 == 125 then (i4 + 1, true) else
            let j := skipWs d (i4 + 1)
            if j < d.size && byteAt d j == 34 then objKey d fuel j else (j, false)

/-- `validarray(data, i)`: `i` is the index after `[` -/
def validArray (d : Bytes) : Nat → Nat → Nat × Bool
  | 0, i => (i, false)
  | fuel + 1, i0 =>
    let i := skipWs d i0
    if i ≥ d.size then (i, false) else
    if byteAt d i == 93 then (i + 1, true) else arrElems d fuel i

/-- the inner loop of `validarray` -/
def arrElems (d : Bytes) : Nat → Nat → Nat × Bool
  | 0, i => (i, false)
  | fuel + 1, i =>
    if i ≥ d.size then (i, false) else
    match validAny d fuel i with
    | (i1, false) => (i1, false)
    | (i1, true) =>
      match validComma d i1 93 with
      | (i2, false) => (i2, false)
      | (i2, true) =>
        if byteAt d i2 == 93 then (i2 + 1, true) else arrElems d fuel (i2 + 1)
end

/-- `gjson.ValidBytes` -/
def validBytes (d : Bytes) : Bool :=
  let i := skipWs d 0
  if i ≥ d.size then false else
  match validAny d (4 * d.size + 8) i with
  | (_, false) => false
  | (j, true) => skipWs d j ≥ d.size

/-- `gjson.Valid` of the string whose bytes are given in hexadecimal (`none` hex = not valid) -/
def validHex (h : String) : Bool :=
  match Line.bytesOfHex h with
  | some b => validBytes b
  | none => false

end Irismod.NftJson
