import Irismod.Model.Oracle
/-
Minimal self-contained model of the oracle module's feed-value history across genesis
export / import (modules/oracle/genesis.go, keeper/feed.go SetFeedValue / GetFeedValues /
deleteOldestFeedValue, types/keys.go GetFeedValueKey). One feed at a time: the value keys of
different feeds have different prefixes and never interact.

The history of a feed is the list of its (batch counter, value) store entries in ascending key
order (`GetFeedValueKey` = prefix ++ big-endian batch counter). Core Lean only.
-/
namespace Irismod.OracleGenesis

structure Value where
  data      : String
  timestamp : Nat
  deriving DecidableEq, Repr, Inhabited

/-- store entries of one feed, ascending by batch counter -/
abbrev Hist := List (Nat × Value)

/-- `store.Set(GetFeedValueKey(feed, batch), v)`: overwrite the entry of that batch, or insert it
in key order -/
def insertBatch (b : Nat) (v : Value) : Hist → Hist
  | [] => [(b, v)]
  | (b', v') :: t =>
    if b < b' then (b, v) :: (b', v') :: t
    else if b = b' then (b, v) :: t
    else (b', v') :: insertBatch b v t

/-- `SetFeedValue`: `delta := count - latestHistory`; delete the `delta + 1` oldest entries (none
when that is ≤ 0); then store under the given batch counter -/
def setFeedValue (h : Hist) (batch latestHistory : Nat) (v : Value) : Hist :=
  insertBatch batch v (h.drop ((h.length : Int) - (latestHistory : Int) + 1).toNat)

/-- `GetFeedValues`: reverse iteration — newest (highest batch counter) first -/
def getFeedValues (h : Hist) : List Value := (h.map (·.2)).reverse

/-- a running feed: one `SetFeedValue` per completed batch, with that batch's counter -/
def runValues (latestHistory : Nat) (h : Hist) (batches : List (Nat × Value)) : Hist :=
  batches.foldl (fun h e => setFeedValue h e.1 latestHistory e.2) h

/-- `ExportGenesis`: `FeedEntry.Values = GetFeedValues(feed)` -/
def exportValues (h : Hist) : List Value := getFeedValues h

/-- `InitGenesis`: every exported value is written with the request context's *current* batch
counter — the same key for all of them -/
def importValues (ctxBatch latestHistory : Nat) (vs : List Value) : Hist :=
  vs.foldl (fun h v => setFeedValue h ctxBatch latestHistory v) []

end Irismod.OracleGenesis

/-!
## The genesis of the full oracle model (`Irismod.Oracle.State`)

`ExportGenesis` / `ValidateGenesis` / `InitGenesis` of modules/oracle (genesis.go, types/genesis.go)
on top of the state machine of `Model/Oracle.lean`, followed LITERALLY:

* `ExportGenesis`: `IteratorFeeds` (store order = byte order of the feed names); a feed whose request
  context is not found is skipped; entry = (feed, `GetFeedValues` newest first, `reqCtx.State`).
* `ValidateGenesis`: feed name, description, aggregate function, latest history, creator — nothing
  about the values or the state.
* `InitGenesis`: validate (panic); per entry `SetFeed`; request context lookup (panic when not
  found); for each value IN EXPORT ORDER `SetFeedValue(name, reqCtx.BatchCounter, latestHistory, v)`
  — the same key for all of them (finding F-gen-2: one value survives, the last written = the
  OLDEST exported one, under the context's CURRENT batch counter); `Enqueue(name, entry.State)`
  (running → index 0x04, anything else → index 0x05).

The model's `Ctx` carries no batch counter: it is a parameter (`batchOf`). Core Lean only.
-/
namespace Irismod.OracleGen
open Irismod Irismod.Oracle

/-- `types.FeedEntry` -/
structure Entry where
  name   : Name
  feed   : Feed
  values : List Value          -- `GetFeedValues`: newest first
  state  : CtxState
  deriving DecidableEq, Repr, Inhabited

/-- `types.GenesisState.Entries` -/
abbrev Genesis := List Entry

/-! ### store order of the feed table -/

/-- `store.Set(GetFeedKey(k), f)` into a table kept in key order -/
def insertFeed (k : Name) (f : Feed) : List (Name × Feed) → List (Name × Feed)
  | [] => [(k, f)]
  | (k', f') :: t =>
    if k < k' then (k, f) :: (k', f') :: t
    else if k = k' then (k, f) :: t
    else (k', f') :: insertFeed k f t

/-- the feed table in the order `IteratorFeeds` visits it: ascending feed name, one binding per
name (the first binding of the association list is the live one) -/
def storeOrder : AMap Name Feed → List (Name × Feed)
  | [] => []
  | (k, f) :: t => insertFeed k f (storeOrder t)

/-! ### ExportGenesis -/

def exportEntries (s : State) : List (Name × Feed) → Genesis
  | [] => []
  | (n, f) :: t =>
    match AMap.get? s.ctxs n with
    | some c => { name := n, feed := f, values := viewOf s n, state := c.state } :: exportEntries s t
    | none => exportEntries s t

def exportGenesis (s : State) : Genesis := exportEntries s (storeOrder s.feeds)

/-! ### ValidateGenesis -/

/-- the five validators of one entry; `creatorOk` = `sdk.AccAddressFromBech32` succeeds -/
def entryValid (creatorOk : Addr → Bool) (e : Entry) : Bool :=
  feedNameValid e.name && decide (e.feed.desc.length ≤ 280) &&
  (decide (1 ≤ e.feed.agg.length) && decide (e.feed.agg.length ≤ 10) && knownAgg e.feed.agg) &&
  (decide (1 ≤ e.feed.hist) && decide (e.feed.hist ≤ 100)) && creatorOk e.feed.creator

def validateGenesis (creatorOk : Addr → Bool) (g : Genesis) : Bool := g.all (entryValid creatorOk)

/-! ### InitGenesis -/

/-- keeper `SetFeedValue(name, batch, latestHistory, v)` -/
def setValue (s : State) (n : Name) (batch hist : Nat) (v : Value) : State :=
  { s with values := AMap.set s.values n (setFeedValue (valuesOf s n) batch hist v) }

/-- keeper `Enqueue(name, state)` -/
def enqueueState (s : State) (n : Name) (st : CtxState) : State :=
  if st = .running then { s with running := enqueue s.running n } else { s with paused := enqueue s.paused n }

/-- the writes of one entry: `SetFeed`, one `SetFeedValue` per value in export order under ONE
key, `Enqueue` -/
def importOne (batchOf : Name → Nat) (s : State) (e : Entry) : State :=
  enqueueState
    (e.values.foldl (fun st v => setValue st e.name (batchOf e.name) e.feed.hist v)
      { s with feeds := AMap.set s.feeds e.name e.feed })
    e.name e.state

def importEntry (batchOf : Name → Nat) (s : State) (e : Entry) : R :=
  match AMap.get? s.ctxs e.name with
  | none => .error (.panic "unknown service request context")
  | some _ => .ok (importOne batchOf s e)

def importEntries (batchOf : Name → Nat) : State → Genesis → R
  | s, [] => .ok s
  | s, e :: r =>
    match importEntry batchOf s e with
    | .error err => .error err
    | .ok s' => importEntries batchOf s' r

/-- `InitGenesis(ctx, k, data)` on the store `s` -/
def importGenesis (creatorOk : Addr → Bool) (batchOf : Name → Nat) (s : State) (g : Genesis) : R :=
  if !validateGenesis creatorOk g then .error (.panic "invalid genesis") else importEntries batchOf s g

/-- the oracle module's own store emptied (feeds, values, both indexes); the service module's
request contexts and the block time are not the oracle's -/
def wipe (s : State) : State := { now := s.now, ctxs := s.ctxs }

/-- export, wipe the oracle store, import the exported document -/
def reimport (creatorOk : Addr → Bool) (batchOf : Name → Nat) (s : State) : R :=
  importGenesis creatorOk batchOf (wipe s) (exportGenesis s)

end Irismod.OracleGen
