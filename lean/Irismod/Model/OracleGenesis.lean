/-
Minimal self-contained model of the oracle module's feed-value history across genesis
export / import (modules/oracle/genesis.go, keeper/feed.go SetFeedValue / GetFeedValues /
deleteOldestFeedValue, types/keys.go GetFeedValueKey). One feed at a time: the value keys of
different feeds have different prefixes and never interact.

The history of a feed is the list of its (batch counter, value) store entries in ascending key
order (`GetFeedValueKey` = prefix ++ big-endian batch counter). Core Lean only.
-/
namespace Irismod.OracleGenesis

structure Value where
  data      : String
  timestamp : Nat
  deriving DecidableEq, Repr, Inhabited

/-- store entries of one feed, ascending by batch counter -/
abbrev Hist := List (Nat × Value)

/-- `store.Set(GetFeedValueKey(feed, batch), v)`: overwrite the entry of that batch, or insert it
in key order -/
def insertBatch (b : Nat) (v : Value) : Hist → Hist
  | [] => [(b, v)]
  | (b', v') :: t =>
    if b < b' then (b, v) :: (b', v') :: t
    else if b = b' then (b, v) :: t
    else (b', v') :: insertBatch b v t

/-- `SetFeedValue`: `delta := count - latestHistory`; delete the `delta + 1` oldest entries (none
when that is ≤ 0); then store under the given batch counter -/
def setFeedValue (h : Hist) (batch latestHistory : Nat) (v : Value) : Hist :=
  insertBatch batch v (h.drop ((h.length : Int) - (latestHistory : Int) + 1).toNat)

/-- `GetFeedValues`: reverse iteration — newest (highest batch counter) first -/
def getFeedValues (h : Hist) : List Value := (h.map (·.2)).reverse

/-- a running feed: one `SetFeedValue` per completed batch, with that batch's counter -/
def runValues (latestHistory : Nat) (h : Hist) (batches : List (Nat × Value)) : Hist :=
  batches.foldl (fun h e => setFeedValue h e.1 latestHistory e.2) h

/-- `ExportGenesis`: `FeedEntry.Values = GetFeedValues(feed)` -/
def exportValues (h : Hist) : List Value := getFeedValues h

/-- `InitGenesis`: every exported value is written with the request context's *current* batch
counter — the same key for all of them -/
def importValues (ctxBatch latestHistory : Nat) (vs : List Value) : Hist :=
  vs.foldl (fun h v => setFeedValue h ctxBatch latestHistory v) []

end Irismod.OracleGenesis
