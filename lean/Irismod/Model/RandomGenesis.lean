/-
Model of the random module's genesis export / validation / import and of its zero-height
preparation (modules/random/genesis.go, types/genesis.go), on top of `Irismod.Random`.

The genesis document has one field, `pending_random_requests : map<string, Requests>`.
* `ExportGenesis` iterates the request queue in store order (ascending `uint64` height, then
  request id bytes) and appends each request to the list filed under the decimal string of
  `int64(height)`; generated randoms (store prefix 0x01) and oracle requests already handed to
  the service module (prefix 0x03) are not exported.
* `ValidateGenesis` requires every height string to parse as an unsigned integer.
* `InitGenesis` panics on an invalid document; otherwise, for each height and each request in
  list order, `EnqueueRandomRequest(ParseInt(height), GenerateRequestID(request), request)`.
* `PrepForZeroHeightGenesis` moves every entry from `height` to `height - currentHeight + 1`.

Abstractions (facts about strings and the store, not about the module's logic):
* a height string is represented by the `int64` it prints (`fmt "%d"` / `strconv.ParseInt` are
  inverse on `int64`; `strconv.ParseUint` fails exactly on the negative ones);
* a Go map has no order: the document lists its groups in order of first insertion, which is
  ascending `uint64` height because the queue is iterated in that order (the harness renders
  the real map in the same order);
* `PrepForZeroHeightGenesis` deletes and re-inserts while iterating; a re-inserted key has a
  height `<=` the one just visited, so it never shadows an entry not yet visited, and the
  loop is modelled as the simultaneous rebasing of all entries (compared with the real
  function on generated states, including one id queued under several heights).
Core Lean only.
-/
import Irismod.Model.Random

namespace Irismod.RandomGenesis
open Irismod Irismod.Random

/-- the document: (height, requests) groups -/
abbrev Genesis := List (Int × List Request)

/-- `int64(height)` of a `uint64` queue key -/
def i64OfKey (k : Nat) : Int := if k < 9223372036854775808 then (k : Int) else (k : Int) - 18446744073709551616

/-- store order of queue keys: ascending height, then ascending id bytes -/
def keyLe (a b : (Nat × Id) × Request) : Bool :=
  decide (a.1.1 < b.1.1) || (a.1.1 == b.1.1 && decide (a.1.2.toList ≤ b.1.2.toList))

/-- the entries an iterator over the queue prefix visits, in order -/
def iterate (q : AMap (Nat × Id) Request) : List ((Nat × Id) × Request) := q.mergeSort keyLe

/-- `pendingRequests[h] = append(pendingRequests[h], r)` (a new group goes last) -/
def addReq : Genesis → Int → Request → Genesis
  | [], h, r => [(h, [r])]
  | (h', rs) :: t, h, r => if h' = h then (h', rs ++ [r]) :: t else (h', rs) :: addReq t h r

/-- `ExportGenesis` -/
def exportGenesis (s : State) : Genesis :=
  (iterate s.queue).foldl (fun g e => addReq g (i64OfKey e.1.1) e.2) []

/-- `ValidateGenesis`: every height parses as an unsigned integer -/
def validateGenesis (g : Genesis) : Except Err Unit :=
  if g.all (fun e => decide (0 ≤ e.1)) then .ok () else .error (.reject "height is not an unsigned integer")

/-- the (height, request) pairs of a document in the order `InitGenesis` visits them -/
def flat (g : Genesis) : List (Int × Request) := g.flatMap fun e => e.2.map fun r => (e.1, r)

/-- the queue `InitGenesis` builds on an empty store -/
def importQueue (rid : Int → String → Id) (g : Genesis) : AMap (Nat × Id) Request :=
  (flat g).foldl (fun q e => AMap.set q (u64 e.1, rid e.2.height e.2.consumer) e.2) []

/-- `InitGenesis` on a wiped module store: only the queue is rebuilt; header fields and the
    environment mirror are not module state and stay as they are -/
def importGenesisWith (rid : Int → String → Id) (base : State) (g : Genesis) : R :=
  match validateGenesis g with
  | .error _ => .error (.panic "failed to initialize random genesis state")
  | .ok _ => .ok { base with queue := importQueue rid g, randoms := [], oracleReqs := [] }

def importGenesis (base : State) (g : Genesis) : R := importGenesisWith requestId base g

/-- `PrepForZeroHeightGenesis`: every entry moves to `height - currentHeight + 1` -/
def prepZeroHeight (s : State) : State :=
  { s with queue := s.queue.map fun e => ((u64 (i64OfKey e.1.1 - s.height + 1), e.1.2), e.2) }

/-- the state a zero-height restart begins with: prepared, exported, imported, at height 1 -/
def restartZeroHeight (s : State) : R :=
  match importGenesis (prepZeroHeight s) (exportGenesis (prepZeroHeight s)) with
  | .error e => .error e
  | .ok s' => .ok { s' with height := 1 }

end Irismod.RandomGenesis
