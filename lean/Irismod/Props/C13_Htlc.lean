/-
C13 (HTLC slice) — begin block never halts and handles each expiring contract exactly once.
Headline theorems about `Irismod.Htlc.stepBeginBlock` (modules/htlc/abci.go) on every state
satisfying the joint invariant `Inv`, which every reachable state does (`Props.C03.inv_step_all`).
-/
import Irismod.Props.C03

namespace Irismod.Props.C13Htlc
open Irismod Irismod.Sdk Irismod.Htlc Irismod.Spec.C03 Irismod.Spec.C04 Irismod.Proofs.Htlc

/-- **totality**: on every state satisfying the invariant, for every header, `BeginBlocker`
completes — it neither panics (`amount[0]` of a malformed transfer) nor aborts -/
theorem beginBlock_total (s : State) (h t : Nat) (hs : Inv s) :
    ∃ s', stepBeginBlock s h t = .ok s' ∧ Inv s' := by
  obtain ⟨s', e⟩ := beginBlock_ok hs h t
  exact ⟨s', e.run, e.inv⟩

theorem beginBlock_never_panics (s : State) (h t : Nat) (hs : Inv s) (why : String) :
    stepBeginBlock s h t ≠ .error (.panic why) := by
  obtain ⟨s', h', _⟩ := beginBlock_total s h t hs
  rw [h']; intro e; cases e

/-- `advance` (n consecutive blocks) is total as well -/
theorem advance_total (s : State) (n dt : Nat) (hs : Inv s) : ∃ s', advance s n dt = .ok s' ∧ Inv s' := by
  obtain ⟨s', h1, h2, _⟩ := advance_ok hs n dt
  exact ⟨s', h1, h2⟩

/-- **exactly once**: the block at height `h` processes each entry queued at `h` once (the due
list has no duplicates): its contract — open and expiring at `h` — becomes `refunded` with
`closedBlock = h`; no other contract changes; afterwards no entry of height `h` remains and all
other entries are kept -/
theorem beginBlock_exactly_once (s : State) (h t : Nat) (hs : Inv s) :
    ∃ s', stepBeginBlock s h t = .ok s' ∧ (dueIds s.queue h).Nodup ∧
      (∀ id, id ∈ dueIds s.queue h ↔ (h, id) ∈ s.queue) ∧
      (∀ id, (h, id) ∈ s.queue → ∃ c, AMap.get? s.htlcs id = some c ∧ c.state = .open ∧ c.expiration = h ∧
          AMap.get? s'.htlcs id = some (refunded c h)) ∧
      (∀ id, (h, id) ∉ s.queue → AMap.get? s'.htlcs id = AMap.get? s.htlcs id) ∧
      (∀ x, x ∈ s'.queue ↔ x ∈ s.queue ∧ x.1 ≠ h) := by
  obtain ⟨s', e⟩ := beginBlock_ok hs h t
  exact ⟨s', e.run, nodup_dueIds _ _ hs.2.1.1, fun id => mem_dueIds _ _ _, e.refunded, e.others, e.queue⟩

/-- **no stale entry**: if every queued height is in the future, the block of the next height
leaves no entry with height ≤ the new current height -/
theorem no_stale_entry (s : State) (t : Nat) (hs : Inv s) (hf : QueueFuture s) :
    ∃ s', stepBeginBlock s (s.height + 1) t = .ok s' ∧ s'.height = s.height + 1 ∧
      ∀ h id, (h, id) ∈ s'.queue → s'.height < h := by
  obtain ⟨s', e⟩ := beginBlock_ok hs (s.height + 1) t
  exact ⟨s', e.run, e.height, queueFuture_beginBlock hf e⟩

/-- **queue hygiene along histories**: in every reachable state entries ↔ open contracts
(`QueueInv`), and on a chain of consecutive blocks nothing queued is at or below the current height -/
theorem queue_hygiene (s : State) (ops : List Op) (hs : Inv s) (hf : QueueFuture s)
    (hops : ∀ op ∈ ops, OpOk op) (hc : Props.C03.Chain s ops) :
    QueueInv (run s ops) ∧ QueueFuture (run s ops) :=
  ⟨Props.C03.queueInv_reachable s ops hs hops, Props.C03.queueFuture_run s ops hs hf hops hc⟩

end Irismod.Props.C13Htlc
