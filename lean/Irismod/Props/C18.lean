/-
C18 — Random: each request is fulfilled once, on time, reproducibly, within [0,1).
Headline theorems about the model `Irismod.Random`, for every state, operation and history.

One class of inputs is excluded by an explicit hypothesis, because the code really fails on it
(reproduced on the real code, findings.d/F-rnd-1.json): block time unix = 0 (the PRNG divides
by it). The full statement is kept as a `def … : Prop`, refuted by a concrete witness, and the
strongest true `_partial` theorem is proved. The former second class (F-rnd-2: a due height
`height + interval >= 2^63` wrapped) is repaired in /repo (f728afa): the handler rejects such an
interval, and the queue theorems below hold for *all* intervals.
-/
import Irismod.Proofs.Random

namespace Irismod.Props.C18
open Irismod Irismod.Random Irismod.Spec.C18 Irismod.Proofs.Random

/-! ### the queue: enqueue at `h + n`, drained by the begin block of `h + n + 1` -/

/-- an accepted request made at height `h` with interval `n` sits in the queue under
    `(uint64(h + n), id(h, consumer))`, holds exactly (h, consumer, tx hash), and nothing else
    in the queue or among the results changes -/
theorem request_enqueued (s s' : State) (c : String) (ok : Bool) (n : Nat) (tx : ByteArray) (feeOk : Bool)
    (h : step s (.request c ok n tx feeOk) = .ok s') :
    AMap.get? s'.queue (u64 (s.height + n), requestId s.height c) =
      some { height := s.height, consumer := c, txHash := txHashOf tx, oracle := false, feeCap := "", ctxId := "" } ∧
    (∀ key, key ≠ (u64 (s.height + n), requestId s.height c) → AMap.get? s'.queue key = AMap.get? s.queue key) ∧
    s'.randoms = s.randoms ∧ s'.height = s.height := by
  simp only [step, stepRequest] at h
  split at h; · cases h
  split at h; · cases h
  split at h; · cases h
  cases h
  exact ⟨AMap.get?_set_self _ _ _, fun key hk => AMap.get?_set_other _ _ _ _ (Ne.symm hk), rfl, rfl⟩

/-- an accepted request (any interval) has a due height that fits `int64`, so its queue key is the
    due height `h + n` itself -/
theorem request_due_height (s s' : State) (c : String) (ok : Bool) (n : Nat) (tx : ByteArray) (feeOk : Bool)
    (hi : QueueInv requestId s) (h : step s (.request c ok n tx feeOk) = .ok s') :
    s.height + (n : Int) < two63 ∧ ((u64 (s.height + n) : Nat) : Int) = s.height + n := by
  simp only [step, stepRequest] at h
  split at h; · cases h
  split at h; · cases h
  split at h; · cases h
  rename_i hn
  have hv := accepted_interval hi.height_nonneg hi.height_lt hn
  exact ⟨hv, u64_of_small (by have := hi.height_nonneg; omega) hv⟩

/-- an interval whose due height would not fit `int64` is rejected (state unchanged), with or
    without oracle, whatever the service module would have answered -/
theorem overflowing_interval_rejected (s : State) (c : String) (ok : Bool) (n : Nat) (tx : ByteArray)
    (fee : String) (feeOk : Bool) (svc : Svc) (h0 : 0 ≤ s.height) (h1 : s.height < two63)
    (hn : s.height + (n : Int) ≥ two63) :
    (∃ why, step s (.request c ok n tx feeOk) = .error (.reject why)) ∧
    (∃ why, step s (.requestOracle c ok n tx fee feeOk svc) = .error (.reject why)) := by
  have hgt : n > maxInterval s.height := by
    unfold maxInterval u64 two64; unfold two63 at *; omega
  constructor
  · simp only [step, stepRequest]
    split; · exact ⟨_, rfl⟩
    split; · exact ⟨_, rfl⟩
    exact ⟨_, rfl⟩
  · simp only [step, stepRequestOracle]
    split; · exact ⟨_, rfl⟩
    split; · exact ⟨_, rfl⟩
    exact ⟨_, rfl⟩

/-- every accepted step of a chain keeps the queue hygienic — for all block intervals -/
theorem queueInv_step (s s' : State) (op : Op) (hi : QueueInv requestId s) (hv : OpValid s op)
    (h : step s op = .ok s') : QueueInv requestId s' := inv_step hi hv h

/-- queue hygiene over all chain histories -/
theorem queueInv_reachable (s : State) (ops : List Op) (hi : QueueInv requestId s) (hv : RunValid s ops) :
    QueueInv requestId (run s ops) := inv_run hi hv

theorem queueInv_init (h : Int) (h0 : 0 ≤ h) (h1 : h < two63) (t : Int) (hash : ByteArray)
    (addrs : List (String × ByteArray)) :
    QueueInv requestId { height := h, unix := t, hash := hash, addrs := addrs } :=
  ⟨h0, h1, by simp, by intro e he; simp at he⟩

/-- no stale entries: in a hygienic state nothing is queued under a height below the current one -/
theorem no_stale_entries (s : State) (hi : QueueInv requestId s) (k : Nat) (id : Id) (hk : (k : Int) < s.height) :
    AMap.get? s.queue (k, id) = none := by
  apply AMap.get?_eq_none_of_not_mem
  intro e he hc
  have := (hi.entry e he).2.2.2.1
  rw [hc] at this
  simp only at this
  omega

theorem due_pairwise {s : State} (hi : QueueInv requestId s) (k : Nat) :
    (dueRequests s.queue k).Pairwise fun a b => requestId a.height a.consumer ≠ requestId b.height b.consumer := by
  unfold dueRequests
  rw [List.pairwise_map]
  have h1 : s.queue.Pairwise (fun a b => a.1 ≠ b.1) := by
    have := hi.nodup
    unfold List.Nodup at this
    rwa [List.pairwise_map] at this
  have h2 := List.Pairwise.filter (fun e : (Nat × Id) × Request => e.1.1 == k) h1
  refine List.Pairwise.imp_of_mem ?_ h2
  intro a b ha hb hab hc
  rw [List.mem_filter] at ha hb
  apply hab
  have ea := (hi.entry a ha.1).1
  have eb := (hi.entry b hb.1).1
  have k1 : a.1.1 = k := by simpa using ha.2
  have k2 : b.1.1 = k := by simpa using hb.2
  exact Prod.ext (by rw [k1, k2]) (by rw [ea, eb, hc])

/-- the begin block of height `h` (= current + 1) removes every entry queued under `h - 1`,
    leaves every other entry untouched, and afterwards every entry is due at `h` or later -/
theorem beginBlock_drains_due (s s' : State) (h t : Int) (hash : ByteArray) (st : List String)
    (hi : QueueInv requestId s) (hv : h = s.height + 1 ∧ h < two63)
    (hs : step s (.beginBlock h t hash st) = .ok s') :
    (∀ id, AMap.get? s'.queue (u64 (h - 1), id) = none) ∧
    (∀ key, key.1 ≠ u64 (h - 1) → AMap.get? s'.queue key = AMap.get? s.queue key) ∧
    (∀ e ∈ s'.queue, h ≤ (e.1.1 : Int)) ∧ s'.height = h := by
  have hi' := inv_beginBlock hi hv hs
  have f := processAll_frame hs
  have hh : s'.height = h := f.2.1
  refine ⟨?_, ?_, ?_, hh⟩
  · intro id
    apply no_stale_entries s' hi'
    rw [hh]
    have := u64_of_small (x := h - 1) (by have := hi.height_nonneg; omega) (by omega)
    omega
  · intro key hk
    rw [f.1]
    exact get?_eraseDue_other _ key hk
  · intro e he
    have := (hi'.entry e he).2.2.2.1
    rwa [hh] at this

/-- every non-oracle request due at `h - 1` is fulfilled by the begin block of `h`: under its id
    the store holds (request tx hash, h - 1, value) where value is the decimal rendering of
    `prngNum appHash blockTime consumer` — a number below 10^20, i.e. a value in [0,1) with 20
    fractional digits that depends on (app hash, block time, consumer) only -/
theorem beginBlock_fulfils_due (s s' : State) (h t : Int) (hash : ByteArray) (st : List String)
    (hi : QueueInv requestId s) (hs : step s (.beginBlock h t hash st) = .ok s')
    (e : (Nat × Id) × Request) (he : e ∈ s.queue) (hk : e.1.1 = u64 (h - 1)) (ho : e.2.oracle = false) :
    ∃ n, prngNum hash t (addrBytes s e.2.consumer) false ByteArray.empty = some n ∧ n < prec ∧
      AMap.get? s'.randoms e.1.2 = some { txHash := e.2.txHash, height := h - 1, value := valueString n } := by
  have hr : e.2 ∈ dueRequests s.queue (u64 (h - 1)) := mem_dueRequests.mpr ⟨e, he, hk, rfl⟩
  obtain ⟨v, hv, hg⟩ := processAll_fulfils hs (due_pairwise hi _) e.2 hr ho
  unfold prngValue at hv
  cases hn : prngNum hash t (addrBytes s e.2.consumer) false ByteArray.empty with
  | none => simp [hn] at hv
  | some n =>
    simp only [hn, Option.map_some, Option.some.injEq] at hv
    refine ⟨n, rfl, prngNum_lt hn, ?_⟩
    rw [(hi.entry e he).1, hg, hv]

/-- a pending entry stays pending until the begin block that drains its height -/
theorem pending_until_due (s : State) (op : Op) (key : Nat × Id) (hp : (AMap.get? s.queue key).isSome)
    (hnot : ∀ h t hash st, op = .beginBlock h t hash st → key.1 ≠ u64 (h - 1)) :
    (AMap.get? (apply s op).queue key).isSome := by
  unfold apply
  cases hs : step s op with
  | error e => exact hp
  | ok s' =>
    simp only
    cases op with
    | beginBlock h t hash st =>
      have f := processAll_frame hs
      rw [f.1, get?_eraseDue_other _ key (hnot h t hash st rfl)]
      exact hp
    | request c ok n tx feeOk =>
      simp only [step, stepRequest] at hs
      split at hs; · cases hs
      split at hs; · cases hs
      split at hs; · cases hs
      cases hs
      by_cases hk : (u64 (s.height + n), requestId s.height c) = key
      · simp only; rw [← hk, AMap.get?_set_self]; rfl
      · simp only; rw [AMap.get?_set_other _ _ _ _ hk]; exact hp
    | requestOracle c ok n tx fee feeOk svc =>
      simp only [step, stepRequestOracle] at hs
      split at hs; · cases hs
      split at hs; · cases hs
      split at hs; · cases hs
      split at hs
      · cases hs
      · cases hs
      · cases hs
        by_cases hk : (u64 (s.height + n), requestId s.height c) = key
        · simp only; rw [← hk, AMap.get?_set_self]; rfl
        · simp only; rw [AMap.get?_set_other _ _ _ _ hk]; exact hp
    | cbResponse ctxId out err =>
      simp only [step] at hs
      rw [(cbResponse_frame hs).1]; exact hp
    | cbState ctxId =>
      simp only [step] at hs
      rw [(cbState_frame hs).1]; exact hp

/-- exactly once: over every chain history, once the chain is past height `k` nothing is (or
    ever again becomes) queued under `k` — together with `pending_until_due` and
    `beginBlock_drains_due`: an entry is consumed by the begin block of `k + 1` and only there -/
theorem absent_after_due (s : State) (ops : List Op) (hi : QueueInv requestId s) (hv : RunValid s ops)
    (k : Nat) (id : Id) (hk : (k : Int) < (run s ops).height) :
    AMap.get? (run s ops).queue (k, id) = none :=
  no_stale_entries _ (inv_run hi hv) k id hk

theorem height_monotone (s : State) (op : Op) (hv : OpValid s op) : s.height ≤ (apply s op).height := by
  unfold apply
  cases hs : step s op with
  | error e => exact Int.le_refl _
  | ok s' =>
    simp only
    cases op with
    | beginBlock h t hash st =>
      have f := processAll_frame hs
      rw [f.2.1]; have := hv.1; simp only [withHeader]; omega
    | request c ok n tx feeOk => rw [(request_enqueued s s' c ok n tx feeOk hs).2.2.2]; exact Int.le_refl _
    | requestOracle c ok n tx fee feeOk svc =>
      simp only [step, stepRequestOracle] at hs
      split at hs; · cases hs
      split at hs; · cases hs
      split at hs; · cases hs
      split at hs
      · cases hs
      · cases hs
      · cases hs; exact Int.le_refl _
    | cbResponse ctxId out err =>
      simp only [step] at hs
      rw [(cbResponse_frame hs).2]; exact Int.le_refl _
    | cbState ctxId =>
      simp only [step] at hs
      rw [(cbState_frame hs).2.1]; exact Int.le_refl _

/-! ### the value -/

/-- the generated number is `n / 10^20` with `0 <= n < 10^20`: a decimal in [0,1) with 20
    fractional digits (`prngNum` is by its type a function of hash, time, initiator and seed only) -/
theorem value_in_unit_interval (hash : ByteArray) (t : Int) (ini : ByteArray) (o : Bool) (seed : ByteArray)
    (n : Nat) (h : prngNum hash t ini o seed = some n) : n < 10^20 := by
  have := prngNum_lt h
  unfold prec at this
  omega

/-- the PRNG is defined exactly when the block time is not the unix epoch -/
theorem prng_defined_iff (hash : ByteArray) (t : Int) (ini : ByteArray) (o : Bool) (seed : ByteArray) :
    (prngNum hash t ini o seed).isSome ↔ t ≠ 0 := by
  constructor
  · intro h ht; rw [ht, prngNum_zero] at h; cases h
  · exact prngNum_isSome

/-! ### results are never overwritten by a different request -/

/-- a stored result changes only when a pending request with the same id is fulfilled -/
theorem result_changes_only_by_same_id (s s' : State) (op : Op) (id : Id) (h : step s op = .ok s') :
    AMap.get? s'.randoms id = AMap.get? s.randoms id ∨
    (∃ e ∈ s.queue, e.2.oracle = false ∧ requestId e.2.height e.2.consumer = id) ∨
    (∃ c r, AMap.get? s.oracleReqs c = some r ∧ requestId r.height r.consumer = id) := by
  cases op with
  | beginBlock hh t hash st =>
    rcases beginBlock_randoms id h with h1 | ⟨e, he, _, ho, hid⟩
    · exact Or.inl h1
    · exact Or.inr (Or.inl ⟨e, he, ho, hid⟩)
  | request c ok n tx feeOk => left; rw [(request_enqueued s s' c ok n tx feeOk h).2.2.1]
  | requestOracle c ok n tx fee feeOk svc =>
    left
    simp only [step, stepRequestOracle] at h
    split at h; · cases h
    split at h; · cases h
    split at h; · cases h
    split at h
    · cases h
    · cases h
    · cases h; rfl
  | cbResponse ctxId out err =>
    simp only [step] at h
    rcases cbResponse_randoms id h with h1 | ⟨r, hr, hid⟩
    · exact Or.inl h1
    · exact Or.inr (Or.inr ⟨ctxId, r, hr, hid⟩)
  | cbState ctxId =>
    simp only [step] at h
    left; rw [(cbState_frame h).2.2]

/-- the id scheme: two requests receive the same id only if they agree on (height, consumer),
    or an explicit SHA-256 collision is exhibited (no injectivity assumed) -/
theorem same_id_same_request (h h' : Int) (c c' : String) (e : requestId h c = requestId h' c') :
    (u64 h = u64 h' ∧ c = c') ∨ Collision := requestId_eq e

/-- hence: the result stored for the request (h0, c0) survives every step in which no pending
    request has the same (height, consumer) — or a SHA-256 collision is exhibited -/
theorem result_never_overwritten_by_distinct_request (s s' : State) (op : Op) (h0 : Int) (c0 : String)
    (h : step s op = .ok s')
    (hq : ∀ e ∈ s.queue, ¬ (u64 e.2.height = u64 h0 ∧ e.2.consumer = c0))
    (ho : ∀ c r, AMap.get? s.oracleReqs c = some r → ¬ (u64 r.height = u64 h0 ∧ r.consumer = c0)) :
    AMap.get? s'.randoms (requestId h0 c0) = AMap.get? s.randoms (requestId h0 c0) ∨ Collision := by
  rcases result_changes_only_by_same_id s s' op (requestId h0 c0) h with h1 | ⟨e, he, _, hid⟩ | ⟨c, r, hr, hid⟩
  · exact Or.inl h1
  · rcases requestId_eq hid with h2 | h2
    · exact absurd h2 (hq e he)
    · exact Or.inr h2
  · rcases requestId_eq hid with h2 | h2
    · exact absurd h2 (ho c r hr)
    · exact Or.inr h2

/-! ### totality of the begin block (F-rnd-1) -/

/-- the full statement "the begin block never aborts" … -/
def BeginBlockTotal : Prop :=
  ∀ (s : State) (h t : Int) (hash : ByteArray) (st : List String),
    QueueInv requestId s → h = s.height + 1 → ∃ s', step s (.beginBlock h t hash st) = .ok s'

def witnessReq : Request :=
  { height := 1, consumer := "c", txHash := "", oracle := false, feeCap := "", ctxId := "" }

/-- a hygienic state at height 1 with one request due at height 1 -/
def witnessState : State := { height := 1, queue := [((1, requestId 1 "c"), witnessReq)] }

theorem witness_inv : QueueInv requestId witnessState :=
  ⟨by decide, by decide, by simp [witnessState],
   by intro e he
      simp only [witnessState, List.mem_singleton] at he
      subst he
      exact ⟨rfl, by decide, by decide, by decide, by decide⟩⟩

theorem witness_panics :
    step witnessState (.beginBlock 2 0 ByteArray.empty []) = .error (.panic "division by zero") := by
  have hk : u64 (2 - 1) = 1 := by unfold u64 two64; omega
  simp only [step, stepBeginBlock, hk]
  simp [witnessState, dueRequests, witnessReq, processAll, processOne, prngValue, prngNum_zero]

/-- … is false (F-rnd-1): with block time unix = 0 and a due request the begin block panics -/
theorem beginBlockTotal_false : ¬ BeginBlockTotal := by
  intro hall
  obtain ⟨s', hs⟩ := hall witnessState 2 0 ByteArray.empty [] witness_inv (by decide)
  rw [witness_panics] at hs
  cases hs

/-- the strongest true form: with block time unix ≠ 0 the begin block is total on every state -/
theorem beginBlockTotal_partial (s : State) (h t : Int) (hash : ByteArray) (st : List String) (ht : t ≠ 0) :
    ∃ s', step s (.beginBlock h t hash st) = .ok s' := by
  simp only [step, stepBeginBlock]
  exact processAll_total _ _ _ (fun r _ _ => prngValue_isSome ht)

/-- and the only way it aborts is the zero block time with a due non-oracle request -/
theorem beginBlock_error_only_zero_time (s : State) (h t : Int) (hash : ByteArray) (st : List String) (e : Err)
    (hs : step s (.beginBlock h t hash st) = .error e) :
    t = 0 ∧ ∃ r ∈ dueRequests s.queue (u64 (h - 1)), r.oracle = false := by
  by_cases ht : t = 0
  · simp only [step, stepBeginBlock] at hs
    obtain ⟨r, hr, ho, _⟩ := processAll_error _ _ _ e hs
    exact ⟨ht, r, hr, ho⟩
  · obtain ⟨s', hs'⟩ := beginBlockTotal_partial s h t hash st ht
    rw [hs'] at hs; cases hs

/-! ### oracle path: fulfilled on the seed response, dropped on failure, never both -/

/-- after the response callback (whatever it carried) the oracle request of that context is no
    longer pending, except for a body that fails the output schema (the service module never
    delivers such a body: it validates outputs against the same schema) -/
theorem cbResponse_drops_request (s s' : State) (ctxId : String) (out : Output) (err : Bool)
    (h : step s (.cbResponse ctxId out err) = .ok s') (hb : out = .invalidBody → err = true) :
    AMap.get? s'.oracleReqs ctxId = none := by
  simp only [step, stepCbResponse] at h
  repeat' split at h
  all_goals first
    | (cases h; exact AMap.get?_erase_self _ _)
    | (cases h; done)
    | (exfalso; cases out <;> simp_all; done)

/-- a failed or timed-out service call (error reported by the service module) stores no random -/
theorem cbResponse_failure_no_random (s s' : State) (ctxId : String) (out : Output)
    (h : step s (.cbResponse ctxId out true) = .ok s') : s'.randoms = s.randoms := by
  simp only [step, stepCbResponse] at h
  repeat' split at h
  all_goals first
    | (cases h; rfl)
    | (cases h; done)
    | (simp_all; done)

/-- the response callback is total when the block time is not the unix epoch and the service
    module respects its contract (no outputs ⇒ an error is reported) -/
theorem cbResponse_total (s : State) (ctxId : String) (out : Output) (err : Bool) (ht : s.unix ≠ 0)
    (hc : out = .empty → err = true) : ∃ s', step s (.cbResponse ctxId out err) = .ok s' := by
  simp only [step, stepCbResponse]
  repeat' split
  all_goals first
    | exact ⟨_, rfl⟩
    | (exfalso; simp_all; done)
    | (rename_i hv; exact absurd hv (prngValue_ne_none ht))

/-! ### a concrete non-trivial execution (used by the audit) -/

def demoAddrs : List (String × ByteArray) := [("cA", "a".toUTF8), ("cB", "b".toUTF8)]
def demoInit : State := { height := 5, unix := 100, hash := "h".toUTF8, addrs := demoAddrs }
/-- two consumers request at height 5 (due 6), one of them again at height 6 (due 6 as well);
    block 6 arrives, then block 7 fulfils all three -/
def demoOps : List Op :=
  [.request "cA" true 1 "t1".toUTF8 true, .request "cB" true 1 "t2".toUTF8 true,
   .beginBlock 6 107 "h6".toUTF8 [], .request "cA" true 0 "t3".toUTF8 true,
   .beginBlock 7 113 "h7".toUTF8 []]

def demoNonvacuous : Bool :=
  let s := run demoInit demoOps
  s.queue.isEmpty && s.randoms.length == 3 && s.height == 7 &&
  s.randoms.all (fun e => isDigits20 e.2.value && e.2.height == 6) &&
  (step witnessState (.beginBlock 2 0 ByteArray.empty [])).toOption.isNone

end Irismod.Props.C18
