/-
C15 — MT: balances always add up to supply; only the class owner mints.
Headline theorems about the model `Irismod.Mt` (every state, every operation, every history).
-/
import Irismod.Proofs.Mt

namespace Irismod.Props.C15
open Irismod Irismod.Mt Irismod.Spec.C15 Irismod.Proofs.Mt

/-! ### Σ balances = supply, for every reachable state -/

theorem inv_init : Inv ({} : State) := by
  intro d m; simp [InvAt, holdersSum, AMap.sumIf, supplyOf, AMap.getD]

theorem authorize_ok {s : State} {d who} {u : Unit} (h : authorize s d who = .ok u) :
    ownerOf s d = some who := by
  unfold authorize at h
  unfold ownerOf
  cases hd : AMap.get? s.denoms d with
  | none => simp [hd] at h
  | some r =>
    simp only [hd] at h
    by_cases ho : r.owner = who
    · simp [ho]
    · simp [ho] at h

theorem inv_mintExisting {s s' : State} {d id rcpt n} (hs : Inv s)
    (h : mintExisting s d id rcpt n = .ok s') : Inv s' := by
  unfold mintExisting at h
  split at h; · cases h
  split at h; · cases h
  rename_i s1 h1
  exact ((eff_increaseSupply h1).trans (eff_addBalance h)).inv (by omega) hs

theorem inv_mintNew {s s' : State} {d nid rcpt n data} (hs : Inv s)
    (h : mintNew s d nid rcpt n data = .ok s') : Inv s' := by
  unfold mintNew at h
  split at h; · cases h
  rename_i s1 h1
  have hs0 : Inv (withNewToken s d nid data) := inv_of_same rfl rfl hs
  exact ((eff_increaseSupply h1).trans (eff_addBalance h)).inv (by omega) hs0

/-- one accepted step preserves Σ holders = supply for every token -/
theorem inv_step (s s' : State) (op : Op) (hs : Inv s) (h : step s op = .ok s') : Inv s' := by
  cases op with
  | issueDenom sender name data =>
    simp only [step, stepIssueDenom] at h
    split at h
    · cases h
    · cases h; exact inv_of_same rfl rfl hs
  | mint sender d id recipient n data =>
    simp only [step, stepMint] at h
    split at h; · cases h
    split at h; · cases h
    split at h; · cases h
    split at h; · cases h
    split at h
    · exact inv_mintExisting hs h
    · exact inv_mintNew hs h
  | edit sender d id data =>
    simp only [step, stepEdit] at h
    split at h; · cases h
    split at h; · cases h
    split at h; · cases h
    split at h; · cases h
    split at h
    · cases h; exact inv_of_same rfl rfl hs
    · cases h; exact hs
  | transfer sender recipient d id n =>
    simp only [step, stepTransfer] at h
    split at h; · cases h
    split at h; · cases h
    split at h; · cases h
    split at h; · cases h
    rename_i hg
    exact ((eff_subBalance s sender d id n hg).trans (eff_addBalance h)).inv (by omega) hs
  | burn sender d id n =>
    simp only [step, stepBurn] at h
    split at h; · cases h
    split at h; · cases h
    split at h; · cases h
    split at h; · cases h
    rename_i hg
    cases h
    have e1 := eff_subBalance s sender d id n hg
    have hle : n.toNat ≤ (supplyOf (subBalance s sender d id n) d id).toNat := by
      have : supplyOf (subBalance s sender d id n) d id = supplyOf s d id := rfl
      rw [this]
      have h0 := hs d id
      unfold InvAt at h0
      have := bal_le_sum s sender d id
      have := le_of_not_lt _ _ hg
      omega
    exact (e1.trans (eff_decreaseSupply _ d id n hle)).inv (by omega) hs
  | transferDenom sender recipient id =>
    simp only [step, stepTransferDenom] at h
    split at h; · cases h
    split at h; · cases h
    split at h
    · cases h
    · cases h; exact inv_of_same rfl rfl hs

theorem inv_apply (s : State) (op : Op) (hs : Inv s) : Inv (apply s op) := by
  unfold apply
  cases h : step s op with
  | ok s' => exact inv_step s s' op hs h
  | error e => exact hs

/-- **C15(a)**: in every state reachable by any history from a state satisfying the
invariant, Σ holders' balances = recorded supply as natural numbers — so neither side
ever wrapped around. -/
theorem sum_eq_supply_run (s : State) (ops : List Op) (hs : Inv s) : Inv (run s ops) := by
  induction ops generalizing s with
  | nil => exact hs
  | cons op rest ih => exact ih (apply s op) (inv_apply s op hs)

/-- … in particular from the empty chain. -/
theorem sum_eq_supply_reachable (ops : List Op) : Inv (run {} ops) :=
  sum_eq_supply_run {} ops inv_init

/-! ### Transfers and burns move exactly the stated amount; nothing wraps -/

/-- **C15(b)** an accepted transfer: the sender held the amount, exactly `n` moved (ℕ
arithmetic, so no wrap-around), every other balance, every supply and all metadata unchanged. -/
theorem transfer_exact (s s' : State) (sender rcpt : Addr) (d : DenomId) (m : MtId) (n : UInt64)
    (h : step s (.transfer sender rcpt d m n) = .ok s') :
    n.toNat ≤ (balOf s sender d m).toNat ∧
    (sender ≠ rcpt → (balOf s' sender d m).toNat + n.toNat = (balOf s sender d m).toNat ∧
                     (balOf s' rcpt d m).toNat = (balOf s rcpt d m).toNat + n.toNat) ∧
    (sender = rcpt → balOf s' sender d m = balOf s sender d m) ∧
    (∀ a' d' m', (a', d', m') ≠ (sender, d, m) → (a', d', m') ≠ (rcpt, d, m) →
        balOf s' a' d' m' = balOf s a' d' m') ∧
    s'.supply = s.supply ∧ s'.denoms = s.denoms ∧ s'.mts = s.mts := by
  simp only [step, stepTransfer] at h
  split at h; · cases h
  split at h; · cases h
  split at h; · cases h
  split at h; · cases h
  rename_i hg
  obtain ⟨hg2, rfl⟩ := addBalance_ok h
  have hle := le_of_not_lt _ _ hg
  refine ⟨hle, ?_, ?_, ?_, rfl, rfl, rfl⟩
  · intro hne
    have hk : (sender, d, m) ≠ (rcpt, d, m) := by intro e; cases e; exact hne rfl
    constructor
    · rw [balOf_set_other _ _ _ _ _ _ _ _ hk.symm]
      unfold subBalance
      rw [balOf_set_self, sub_noWrap _ _ hg]; omega
    · rw [balOf_set_self]
      have : balOf (subBalance s sender d m n) rcpt d m = balOf s rcpt d m := by
        unfold subBalance; exact balOf_set_other _ _ _ _ _ _ _ _ hk
      rw [this] at hg2 ⊢
      exact add_noWrap _ _ hg2
  · intro he
    subst he
    rw [balOf_set_self]
    have hb : balOf (subBalance s sender d m n) sender d m = balOf s sender d m - n := by
      unfold subBalance; exact balOf_set_self _ _ _ _ _
    rw [hb]
    apply UInt64.toNat_inj.mp
    rw [hb] at hg2
    rw [add_noWrap _ _ hg2, sub_noWrap _ _ hg]; omega
  · intro a' d' m' h1 h2
    rw [balOf_set_other _ _ _ _ _ _ _ _ (Ne.symm h2)]
    unfold subBalance
    exact balOf_set_other _ _ _ _ _ _ _ _ (Ne.symm h1)

/-- **C15(c)** an accepted burn lowers the burner's balance and the supply by the same
amount (ℕ arithmetic: no wrap), and touches nothing else. -/
theorem burn_exact (s s' : State) (sender : Addr) (d : DenomId) (m : MtId) (n : UInt64)
    (hs : Inv s) (h : step s (.burn sender d m n) = .ok s') :
    (balOf s' sender d m).toNat + n.toNat = (balOf s sender d m).toNat ∧
    (supplyOf s' d m).toNat + n.toNat = (supplyOf s d m).toNat ∧
    (∀ a' d' m', (a', d', m') ≠ (sender, d, m) → balOf s' a' d' m' = balOf s a' d' m') ∧
    (∀ d' m', (d', m') ≠ (d, m) → supplyOf s' d' m' = supplyOf s d' m') ∧
    s'.denoms = s.denoms ∧ s'.mts = s.mts := by
  simp only [step, stepBurn] at h
  split at h; · cases h
  split at h; · cases h
  split at h; · cases h
  split at h; · cases h
  rename_i hg
  cases h
  have hle := le_of_not_lt _ _ hg
  have h0 := hs d m
  unfold InvAt at h0
  have hbs := bal_le_sum s sender d m
  have hsup : ¬ (supplyOf s d m < n) := by rw [UInt64.lt_iff_toNat_lt]; omega
  refine ⟨?_, ?_, ?_, ?_, rfl, rfl⟩
  · show (balOf (subBalance s sender d m n) sender d m).toNat + n.toNat = _
    unfold subBalance
    rw [balOf_set_self, sub_noWrap _ _ hg]; omega
  · unfold decreaseSupply
    rw [supplyOf_set_self]
    show (supplyOf s d m - n).toNat + n.toNat = _
    rw [sub_noWrap _ _ hsup]; omega
  · intro a' d' m' hne
    show balOf (subBalance s sender d m n) a' d' m' = _
    unfold subBalance
    exact balOf_set_other _ _ _ _ _ _ _ _ (Ne.symm hne)
  · intro d' m' hne
    unfold decreaseSupply
    rw [supplyOf_set_other _ _ _ _ _ _ (Ne.symm hne)]
    rfl

/-! ### Only the class owner mints, edits or hands the class over -/

/-- **C15(d)** -/
theorem mint_only_owner (s s' : State) (sender d id rcpt n data)
    (h : step s (.mint sender d id rcpt n data) = .ok s') : ownerOf s d = some sender := by
  simp only [step, stepMint] at h
  split at h; · cases h
  split at h; · cases h
  split at h; · cases h
  split at h; · cases h
  rename_i u ha
  exact authorize_ok ha

theorem edit_only_owner (s s' : State) (sender d id data)
    (h : step s (.edit sender d id data) = .ok s') : ownerOf s d = some sender := by
  simp only [step, stepEdit] at h
  split at h; · cases h
  split at h; · cases h
  split at h; · cases h
  rename_i u ha
  exact authorize_ok ha

theorem transferDenom_only_owner (s s' : State) (sender rcpt id)
    (h : step s (.transferDenom sender rcpt id) = .ok s') :
    ownerOf s id = some sender ∧ ownerOf s' id = some rcpt := by
  simp only [step, stepTransferDenom] at h
  split at h; · cases h
  split at h; · cases h
  rename_i u ha
  split at h
  · cases h
  · cases h
    exact ⟨authorize_ok ha, by simp [ownerOf, AMap.get?_set_self]⟩

/-- a rejected message changes nothing (the chain-level step discards the cache) -/
theorem rejected_unchanged (s : State) (op : Op) (e : Err) (h : step s op = .error e) :
    apply s op = s := by
  unfold apply; rw [h]

/-! ### Generated ids: one per sequence value, sequences only move forward -/

/-- **C15(e)** the id given to the k-th class (token) is `sha256("mt-denom-k")`
(`sha256("mt-k")`) of a sequence that increases by exactly one per creation, so an id is
reused only if SHA-256 collides on two distinct decimal strings or 2^64 creations wrap
the counter. -/
theorem denom_id_scheme (s s' : State) (sender name data)
    (h : step s (.issueDenom sender name data) = .ok s') :
    s'.denomSeq = s.denomSeq + 1 ∧ s'.mtSeq = s.mtSeq ∧
    AMap.get? s'.denoms (genId "mt-denom-" s.denomSeq) = some { name := name, owner := sender, data := data } := by
  simp only [step, stepIssueDenom] at h
  split at h
  · cases h
  · cases h
    exact ⟨rfl, rfl, AMap.get?_set_self _ _ _⟩

theorem seqs_monotone (s : State) (op : Op) :
    (apply s op).denomSeq = s.denomSeq ∨ (apply s op).denomSeq = s.denomSeq + 1 := by
  unfold apply
  cases h : step s op with
  | error e => exact Or.inl rfl
  | ok s' =>
    cases op with
    | issueDenom sender name data => exact Or.inr (denom_id_scheme s s' sender name data h).1
    | mint sender d id recipient n data =>
      left
      simp only [step, stepMint] at h
      split at h; · cases h
      split at h; · cases h
      split at h; · cases h
      split at h; · cases h
      split at h
      · unfold mintExisting at h
        split at h; · cases h
        split at h; · cases h
        rename_i s1 h1
        obtain ⟨_, rfl⟩ := increaseSupply_ok h1
        obtain ⟨_, rfl⟩ := addBalance_ok h
        rfl
      · unfold mintNew at h
        split at h; · cases h
        rename_i s1 h1
        obtain ⟨_, rfl⟩ := increaseSupply_ok h1
        obtain ⟨_, rfl⟩ := addBalance_ok h
        rfl
    | edit sender d id data =>
      left
      simp only [step, stepEdit] at h
      split at h; · cases h
      split at h; · cases h
      split at h; · cases h
      split at h; · cases h
      split at h <;> (cases h; rfl)
    | transfer sender recipient d id n =>
      left
      simp only [step, stepTransfer] at h
      split at h; · cases h
      split at h; · cases h
      split at h; · cases h
      split at h; · cases h
      obtain ⟨_, rfl⟩ := addBalance_ok h
      rfl
    | burn sender d id n =>
      left
      simp only [step, stepBurn] at h
      split at h; · cases h
      split at h; · cases h
      split at h; · cases h
      split at h; · cases h
      cases h; rfl
    | transferDenom sender recipient id =>
      left
      simp only [step, stepTransferDenom] at h
      split at h; · cases h
      split at h; · cases h
      split at h <;> (cases h; try rfl)

/-! ### Non-vacuity: the hypotheses are met by concrete, non-trivial executions -/

def demo : State :=
  run {} [.issueDenom "A0" "n" "", .mint "A0" (genId "mt-denom-" 1) "" "A1" 10 "",
          .transfer "A1" "A2" (genId "mt-denom-" 1) (genId "mt-" 1) 4,
          .burn "A2" (genId "mt-denom-" 1) (genId "mt-" 1) 3]

end Irismod.Props.C15
