/-
C12 (service) — the exported module state re-imports and preserves what users rely on.

Headline theorems about `Irismod.ServiceGenesis` (export / validate / import / prepare-for-zero-height) on top
of the service state machine `Irismod.Service`.

The shape of every reachable state — `Reach` = C07's bundle `Full` (queues / markers / requests, deposit
escrow identity, request escrow identity), the tally bundle `TB`, and the genesis bundle `GI` (field-level
validity of every stored object, provider ↦ owner index agreeing with the bindings, unique binding keys) —
holds initially and is kept by every accepted operation (`reach_run`).

On every such state:
 (a) after the module's own `PrepForZeroHeightGenesis` the export validates, the import succeeds, definitions /
     bindings (owner, deposit, pricing, QoS, availability) / the owner index / withdraw addresses are the same,
     every context is the old one with the documented resets, every consumer has been refunded exactly the fees
     of its open requests, every provider paid exactly its earned fees, the request escrow is empty and the
     deposit escrow holds exactly the deposits: C07's identities hold on the new chain (`prep_roundtrip`);
 (b) as-is, the export is accepted exactly when every context is PAUSED with a COMPLETED batch; then the
     exported objects round-trip unchanged and the document is a fixpoint (`plain_roundtrip`,
     `export_fixpoint`); requests, responses, volumes, both earned-fee tallies and both queues are dropped.
The two statements the code does not satisfy are kept as `def`s with their negations proved:
 * `PlainExportReimports` fails for every state with a live context (F-gen-6: `export_rejected_with_live_context`);
 * `PlainRoundTripKeepsEscrowIdentity` fails whenever earned fees exist (F-gen-14: the coins stay in the request
   escrow of the new chain, owed to nobody — `plain_roundtrip_strands_earned_fees`).
-/
import Irismod.Proofs.ServiceGenesisTrip
import Irismod.Props.C07

namespace Irismod.Props.C12.Service
open Irismod Irismod.Sdk Irismod.Service Irismod.ServiceGenesis Irismod.Proofs.Service Irismod.Proofs.ServiceGenesis
open Irismod.Proofs.GenesisList Irismod.Spec.C07 Irismod.Spec.C12S

/-! ### every reachable state has the shape -/

/-- a chain on which the service module has not been used, with valid parameters -/
structure Genesis (s : State) : Prop where
  base   : Irismod.Props.C07.Genesis s
  defs   : s.defs = []
  owners : s.owners = []
  params : paramsValid s.params = true

/-- the side conditions of one operation: C07's (`CleanOp`: user accounts, no promotion, fresh context id, no
keeper-only owner-wide withdrawal) and `opGenesisOk` (well-formed arguments of keeper-level entry points) -/
def GenRun : State → List Op → Prop
  | _, [] => True
  | s, op :: rest => Irismod.Props.C07.CleanOp { s with cb := [] } op ∧ opGenesisOk op ∧ GenRun (apply s op) rest

theorem gi_genesis {s : State} (g : Genesis s) : GI s := by
  refine ⟨⟨g.params, ?_, ?_, ?_, ?_⟩, ⟨?_, ?_⟩, ?_, ?_⟩
  · intro n a h; rw [g.defs] at h; simp [AMap.get?] at h
  · intro k b h; rw [g.base.binds] at h; simp [AMap.get?] at h
  · intro o a h; rw [g.base.wd] at h; simp [AMap.get?] at h
  · intro id c h; rw [g.base.ctxs] at h; simp [AMap.get?] at h
  · intro k b h; rw [g.base.binds] at h; simp [AMap.get?] at h
  · intro p o h; rw [g.owners] at h; simp [AMap.get?] at h
  · unfold NodupKeys AMap.keys; rw [g.base.binds]; exact List.nodup_nil
  · intro k b h; rw [g.base.binds] at h; simp [AMap.get?] at h

theorem reach_genesis {s : State} (g : Genesis s) : Reach s :=
  ⟨Irismod.Props.C07.full_genesis g.base, Irismod.Props.C07.tb_genesis g.base, gi_genesis g⟩

theorem reach_apply {s : State} {op : Op} (hs : Reach s) (hc : Irismod.Props.C07.CleanOp { s with cb := [] } op)
    (hg : opGenesisOk op) : Reach (apply s op) := by
  refine ⟨Irismod.Props.C07.full_apply hs.1 hc, Irismod.Props.C07.tb_apply hs.2.1 hc.2.2.2, ?_⟩
  unfold apply step
  have h0 : GI { s with cb := [] } := hs.2.2.of_frame (GFrame.of_eq rfl rfl rfl rfl rfl rfl)
  have hw : WF { s with cb := [] } := hs.1.1.of_same ⟨rfl, rfl, rfl, rfl, rfl, rfl, rfl⟩
  cases h : stepCore { s with cb := [] } op with
  | ok s' => exact GI_stepCore hw h0 hg h
  | error e => exact h0

/-- **reachable lift**: after every history -/
theorem reach_run : ∀ (ops : List Op) (s : State), Reach s → GenRun s ops → Reach (run s ops)
  | [], _, hs, _ => hs
  | op :: rest, s, hs, hr => reach_run rest (apply s op) (reach_apply hs hr.1 hr.2.1) hr.2.2

theorem reach_reachable (s : State) (g : Genesis s) (ops : List Op) (hr : GenRun s ops) : Reach (run s ops) :=
  reach_run ops s (reach_genesis g) hr

/-! ### what the round trip preserves, whatever the state -/

/-- the registry objects answer every lookup alike in `s'` and `s` -/
def RegistrySame (s s' : State) : Prop :=
  s'.params = s.params ∧
  (∀ n, AMap.get? s'.defs n = AMap.get? s.defs n) ∧
  (∀ k, AMap.get? s'.binds k = AMap.get? s.binds k) ∧
  (∀ p, AMap.get? s'.owners p = AMap.get? s.owners p) ∧
  (∀ o, AMap.get? s'.wd o = AMap.get? s.wd o)

/-- **every lookup survives export + import**: parameters, definitions, bindings with all their fields (owner,
deposit, pricing, QoS, availability, disabled time), withdraw addresses, request contexts — on every state,
reachable or not; the provider ↦ owner index on every state where it agrees with the bindings -/
theorem lookups_preserved (rank : Addr → Nat) (s : State) (ho : OwnersInv s) :
    RegistrySame s (roundTrip rank s) ∧ (∀ id, AMap.get? (roundTrip rank s).ctxs id = AMap.get? s.ctxs id) := by
  obtain ⟨l1, l2, l3, l4, l5⟩ := roundTrip_lookups rank s
  exact ⟨⟨l1, l2, l3, roundTrip_owners rank ho, l4⟩, l5⟩

/-- **what is dropped**: requests, active markers, responses, request volumes, both earned-fee tallies, both
batch queues with their markers; the bank, the block header and the exchange rates are not module state -/
theorem dropped_on_import (rank : Addr → Nat) (s : State) :
    (roundTrip rank s).reqs = [] ∧ (roundTrip rank s).active = [] ∧ (roundTrip rank s).resps = [] ∧
    (roundTrip rank s).vols = [] ∧ (roundTrip rank s).earned = [] ∧ (roundTrip rank s).oearned = [] ∧
    (roundTrip rank s).newQ = [] ∧ (roundTrip rank s).newH = [] ∧ (roundTrip rank s).expQ = [] ∧
    (roundTrip rank s).expH = [] ∧ (roundTrip rank s).bank = s.bank ∧ (roundTrip rank s).height = s.height ∧
    (roundTrip rank s).time = s.time ∧ (roundTrip rank s).rates = s.rates :=
  roundTrip_dropped rank s

/-- **fixpoint**: exporting the re-imported state yields the same document (in the same order), for every state
and every order of the bech32 strings -/
theorem export_fixpoint (rank : Addr → Nat) (s : State) :
    exportGenesis rank (roundTrip rank s) = exportGenesis rank s := export_roundTrip rank s

/-! ### as-is: accepted exactly when every context is quiet -/

/-- the full statement for the plain export: it re-imports -/
def PlainExportReimports : Prop := ∀ (rank : Addr → Nat) (s : State), FieldsOk s → ∃ s2, reimport rank s = .ok s2

/-- F-gen-6, in general: a stored context that is not PAUSED with a COMPLETED batch — any running call, any open
batch — makes `InitGenesis` panic on the module's own export -/
theorem export_rejected_with_live_context (rank : Addr → Nat) (s : State) (id : CtxId) (c : Ctx)
    (hg : AMap.get? s.ctxs id = some c) (hl : c.state ≠ .paused ∨ c.batchState ≠ .completed) :
    validateGenesis (exportGenesis rank s) = .error (.reject "invalid genesis") ∧
    ∃ why, reimport rank s = .error (.panic why) := by
  have hq : ctxQuiet c = false := by
    unfold ctxQuiet
    rcases hl with h | h
    · cases hs : c.state <;> simp_all
    · cases hs : c.batchState <;> simp_all
  have hv := genesisInvalid_of_live rank hg hq
  refine ⟨?_, reimport_panics hv⟩
  unfold validateGenesis
  rw [hv]; rfl

def okParams : Params :=
  { maxTimeout := 100, minDepMult := 1, tax := ⟨100000000000000000⟩, slash := ⟨0⟩, complaint := 10, arbitration := 10 }

def wbind : Binding :=
  { owner := "A3", deposit := 100, pricing := { denom := "stake", amount := 10 }, qos := 1, available := true, disabledTime := zeroTime }

/-- a consumer's call is running: one request of batch 1 is open -/
def w6ctx : Ctx :=
  { svc := "s1", providers := ["A0"], consumer := "A5", cap := 100, timeout := 2, batchCounter := 1, batchReqCount := 1,
    batchState := .running, state := .running }

def w6 : State :=
  { params := okParams, height := 11, defs := [("s1", "A3")], binds := [(("s1", "A0"), wbind)], owners := [("A0", "A3")],
    ownerProv := [("A3", "A0")], ctxs := [("c6", w6ctx)],
    bank := { bal := [(("A5", "stake"), 990), (("Mdep", "stake"), 100), (("Mreq", "stake"), 10)] } }

theorem w6_fields : FieldsOk w6 := by
  refine ⟨by decide, ?_, ?_, ?_, ?_⟩
  · intro n a h
    simp only [w6, AMap.get?] at h
    split at h
    · rename_i e; cases h; subst e; decide
    · cases h
  · intro k b h
    simp only [w6, AMap.get?] at h
    split at h
    · rename_i e; cases h; subst e; decide
    · cases h
  · intro o a h; simp [w6, AMap.get?] at h
  · intro id c h
    simp only [w6, AMap.get?] at h
    split at h
    · cases h; decide
    · cases h

/-- the full statement fails: the state with a running call is field-valid, and its export does not re-import -/
theorem plain_export_reimports_fails : ¬ PlainExportReimports := by
  intro h
  obtain ⟨s2, h2⟩ := h (fun _ => 0) w6 w6_fields
  obtain ⟨_, why, hp⟩ := export_rejected_with_live_context (fun _ => 0) w6 "c6" w6ctx rfl (Or.inl (by decide))
  rw [hp] at h2
  cases h2

/-- … and holds exactly on the states whose contexts are all quiet: the export validates, the import succeeds -/
theorem plain_export_reimports_partial (rank : Addr → Nat) (s : State) (hf : FieldsOk s) (hq : Quiescent s) :
    validateGenesis (exportGenesis rank s) = .ok () ∧ reimport rank s = .ok (roundTrip rank s) := by
  have hv := genesisValid_export rank hf hq
  refine ⟨?_, reimport_ok hv⟩
  unfold validateGenesis
  rw [hv]; rfl

/-- (b) **the plain round trip on a reachable state with quiet contexts**: accepted; every exported object is
unchanged (contexts included); the bank is untouched; the deposit escrow still equals the deposits; nothing is
awaiting a response (so no request fee is dropped) — but the request escrow still holds the earned fees whose
tallies were dropped -/
theorem plain_roundtrip (rank : Addr → Nat) (s : State) (h : Reach s) (hq : Quiescent s) :
    reimport rank s = .ok (roundTrip rank s) ∧
    RegistrySame s (roundTrip rank s) ∧ (∀ id, AMap.get? (roundTrip rank s).ctxs id = AMap.get? s.ctxs id) ∧
    (roundTrip rank s).bank = s.bank ∧ s.active = [] ∧ DepositInv (roundTrip rank s) ∧
    (∀ d, Bank.balOf (roundTrip rank s).bank reqAcc d = earnedSum s d) ∧ (∀ d, liabilities (roundTrip rank s) d = 0) := by
  obtain ⟨p1, p2, p3, p4⟩ := plainReimport_spec rank h hq
  obtain ⟨l1, l2⟩ := lookups_preserved rank s h.2.2.own
  exact ⟨p1, l1, l2, rfl, active_nil_of_quiescent h.1.1 hq, p4, p2, p3⟩

/-- the full statement about the money: the request-escrow identity of C07 survives the plain round trip -/
def PlainRoundTripKeepsEscrowIdentity : Prop :=
  ∀ (rank : Addr → Nat) (s s2 : State), EscrowInv s → reimport rank s = .ok s2 → EscrowInv s2

/-- provider A0 has answered a call and earned 9stake (10 less 10% tax), not yet withdrawn; no context is left -/
def w14 : State :=
  { params := okParams, height := 13, defs := [("s1", "A3")], binds := [(("s1", "A0"), wbind)], owners := [("A0", "A3")],
    ownerProv := [("A3", "A0")], earned := [(("A0", "stake"), 9)], oearned := [(("A3", "stake"), 9)],
    bank := { bal := [(("A5", "stake"), 990), (("Mdep", "stake"), 100), (("Mfc", "stake"), 1), (("Mreq", "stake"), 9)] } }

theorem w14_fields : FieldsOk w14 := by
  refine ⟨by decide, ?_, ?_, ?_, ?_⟩
  · intro n a h
    simp only [w14, AMap.get?] at h
    split at h
    · rename_i e; cases h; subst e; decide
    · cases h
  · intro k b h
    simp only [w14, AMap.get?] at h
    split at h
    · rename_i e; cases h; subst e; decide
    · cases h
  · intro o a h; simp [w14, AMap.get?] at h
  · intro id c h; simp [w14, AMap.get?] at h

theorem w14_escrow : EscrowInv w14 := by
  intro d
  by_cases hd : d = "stake"
  · subst hd; decide
  · have e2 : ¬ (("Mreq", "stake") : Addr × Denom) = ("Mreq", d) := fun e => hd (Prod.mk.inj e).2.symm
    have h1 : Bank.balOf w14.bank reqAcc d = 0 := by
      simp [Bank.balOf, AMap.getD, w14, AMap.get?, reqAcc, e2]
    have h2 : earnedSum w14 d = 0 := by
      have : ¬ "stake" = d := fun e => hd e.symm
      simp [earnedSum, w14, AMap.sumIf, this]
    rw [h1, h2]; rfl

/-- F-gen-14: the full statement fails. The witness exports, validates and re-imports without error, and on the new
chain the escrow holds 9stake while nothing records that A0 earned them -/
theorem plain_roundtrip_keeps_escrow_identity_fails : ¬ PlainRoundTripKeepsEscrowIdentity := by
  intro h
  have hq : Quiescent w14 := by intro id c hg; simp [w14, AMap.get?] at hg
  have hr := (plain_export_reimports_partial (fun _ => 0) w14 w14_fields hq).2
  have := h (fun _ => 0) w14 _ w14_escrow hr "stake"
  revert this
  decide

/-- F-gen-14, in general: after the plain round trip of a reachable state the request escrow holds exactly the earned
fees of the old chain, the new chain records none of them, so C07's identity holds there iff nothing was earned -/
theorem plain_roundtrip_strands_earned_fees (rank : Addr → Nat) (s : State) (h : Reach s) (hq : Quiescent s) :
    (∀ d, Bank.balOf (roundTrip rank s).bank reqAcc d = earnedSum s d) ∧
    (roundTrip rank s).earned = [] ∧ (roundTrip rank s).oearned = [] ∧
    (EscrowInv (roundTrip rank s) ↔ ∀ d, earnedSum s d = 0) := by
  obtain ⟨_, p2, p3, _⟩ := plainReimport_spec rank h hq
  refine ⟨p2, rfl, rfl, ?_⟩
  constructor
  · intro he d
    have h1 := he d
    have h2 := p2 d
    have h3 := p3 d
    unfold liabilities at h3
    omega
  · intro hz d
    have h2 := p2 d
    have h3 := p3 d
    unfold liabilities at h3
    rw [h2, hz d]; omega

/-- the partial statement: with no earned fees outstanding the plain round trip keeps C07's request-escrow identity -/
theorem plain_roundtrip_keeps_escrow_identity_partial (rank : Addr → Nat) (s : State) (h : Reach s) (hq : Quiescent s)
    (hz : ∀ d, earnedSum s d = 0) : EscrowInv (roundTrip rank s) :=
  (plain_roundtrip_strands_earned_fees rank s h hq).2.2.2.mpr hz

/-! ### after the module's prepare step: always accepted, everything settled -/

/-- (a) **prepare, export, validate, import** on every reachable state -/
theorem prep_roundtrip (rank : Addr → Nat) (s : State) (h : Reach s) :
    ∃ s1 s2, prepZeroHeight s = .ok s1 ∧ validateGenesis (exportGenesis rank s1) = .ok () ∧
      reimport rank s1 = .ok s2 ∧ prepReimport rank s = .ok s2 ∧
      -- the registry is the old one; every context is the old one, paused, with a completed empty batch
      RegistrySame s s2 ∧ (∀ id, AMap.get? s2.ctxs id = (AMap.get? s.ctxs id).map resetCtx) ∧
      -- exact payouts: open-request fees to the consumers, earned fees to the providers, nothing else moves
      (∀ a d, a ≠ reqAcc → Bank.balOf s2.bank a d = Bank.balOf s.bank a d + refundTo s a d + earnedOf s a d) ∧
      (∀ d, Bank.balOf s2.bank reqAcc d = 0) ∧ (∀ d, Bank.balOf s2.bank depAcc d = Bank.balOf s.bank depAcc d) ∧
      -- C07's identities on the new chain
      EscrowInv s2 ∧ DepositInv s2 ∧ (∀ d, liabilities s2 d = 0) := by
  obtain ⟨b2, q1, q2, q3, q4, q5, q6⟩ := prepReimport_spec rank h
  have hown : OwnersInv (prepared s b2) := ⟨h.2.2.own.own1, h.2.2.own.own2⟩
  obtain ⟨l1, l2⟩ := lookups_preserved rank (prepared s b2) hown
  obtain ⟨e1, e2⟩ := ledger_after_prepReimport rank h q4 q6
  refine ⟨prepared s b2, roundTrip rank (prepared s b2), q1, ?_, reimport_ok q2, q3, l1, ?_, q5, q4, q6, e1, e2, fun _ => rfl⟩
  · unfold validateGenesis; rw [q2]; rfl
  · intro id
    rw [l2 id]
    exact get?_resetCtxs s.ctxs id

/-- … over all histories: whatever the users did, the module's own zero-height procedure produces a genesis its own
import accepts, with the registry intact and every coin the escrow owed paid out -/
theorem prep_roundtrip_reachable (rank : Addr → Nat) (s0 : State) (g : Genesis s0) (ops : List Op) (hr : GenRun s0 ops) :
    ∃ s2, prepReimport rank (run s0 ops) = .ok s2 ∧ RegistrySame (run s0 ops) s2 ∧
      EscrowInv s2 ∧ DepositInv s2 ∧ (∀ d, Bank.balOf s2.bank reqAcc d = 0) := by
  obtain ⟨s1, s2, _, _, _, p4, p5, _, _, p8, _, p10, p11, _⟩ := prep_roundtrip rank (run s0 ops) (reach_reachable s0 g ops hr)
  exact ⟨s2, p4, p5, p10, p11, p8⟩

/-- what a context looks like afterwards: identity, schedule and counters kept; PAUSED, batch COMPLETED and empty -/
theorem reset_context_fields (c : Ctx) :
    (resetCtx c).state = .paused ∧ (resetCtx c).batchState = .completed ∧ (resetCtx c).batchReqCount = 0 ∧
    (resetCtx c).batchRespCount = 0 ∧ (resetCtx c).svc = c.svc ∧ (resetCtx c).providers = c.providers ∧
    (resetCtx c).consumer = c.consumer ∧ (resetCtx c).cap = c.cap ∧ (resetCtx c).timeout = c.timeout ∧
    (resetCtx c).repeated = c.repeated ∧ (resetCtx c).freq = c.freq ∧ (resetCtx c).total = c.total ∧
    (resetCtx c).batchCounter = c.batchCounter ∧ (resetCtx c).respThreshold = c.respThreshold ∧
    (resetCtx c).moduleName = c.moduleName :=
  ⟨rfl, rfl, rfl, rfl, rfl, rfl, rfl, rfl, rfl, rfl, rfl, rfl, rfl, rfl, rfl⟩

end Irismod.Props.C12.Service
