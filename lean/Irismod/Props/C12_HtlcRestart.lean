/-
C12 (htlc slice, continued) — the theorems of C03 / C04 / C13 after a restart from genesis.

The joint invariant `Inv` of C03/C04/C13 contains the ledger identity "current supply = completed
incoming − completed outgoing", a sum over all contracts ever stored.  A chain restarted from its own
genesis has forgotten its closed contracts, so the re-imported state satisfies `Inv` only relative to
the supply at the restart (`Props/C12_Htlc.htlc_inv_roundTrip`).  The theorems here close that gap, for
EVERY history of operations after the restart:

* with one closed ghost contract per supply record in front of the contract table (a completed
  incoming transfer of exactly the current supply, under an id no message can name) the restarted
  state satisfies `Inv` itself, every operation commutes with the ghosts, and `Inv` holds along every
  history after the restart (`htlc_restart_inv`);
* hence on the restarted chain itself, after any history: the begin blocker never halts and keeps
  the invariant (`htlc_restart_block_total`, C13), the expiry queue and the open contracts
  correspond one to one (`htlc_restart_queue`, C03/C13), the escrow covers the open contracts and
  — if it did before the export — equals them exactly (`htlc_restart_escrow`, C04), the supply
  counters equal the sums over the open transfers and the current supply moved by exactly the
  transfers completed SINCE the restart (`htlc_restart_counters`, C04), and every operation has the
  same verdict with and without the ghosts (`htlc_restart_same_verdict`).
-/
import Irismod.Proofs.HtlcRestart
import Irismod.Props.C12_Htlc

namespace Irismod.Props.C12.Htlc
open Irismod Irismod.Sdk Irismod.Htlc Irismod.HtlcGen Irismod.Spec.C03 Irismod.Spec.C04 Irismod.Spec.C12Htlc
open Irismod.Proofs.Htlc Irismod.Proofs.HtlcGen

/-- the ghosts of a restart from `s`: one completed incoming transfer per supply record -/
abbrev restartGhosts (s : State) : AMap Id Contract := ghostsOf s.supplies

/-- **`Inv` along every history after the restart** (state with ghosts), and the histories of the
state with and without ghosts are the same -/
theorem htlc_restart_inv (dp : Nat) (s : State) (hs : Inv s) (hw : GenWF s) (hi : importableB s = true)
    (ops : List Op) (hops : OpsOk ops) :
    Inv (ghost (restartGhosts s) (run (roundTrip dp s) ops)) ∧
    run (ghost (restartGhosts s) (roundTrip dp s)) ops = ghost (restartGhosts s) (run (roundTrip dp s) ops) := by
  rw [roundTrip_eq dp s hs hw hi]
  exact restart_inv_run (ghostIds_ghostsOf _) (ghostly_ghostsOf _) ops _ (inv_ghost_imported dp hs hw) hops

/-- every operation has the same verdict on the restarted chain as on the state with ghosts (which
satisfies `Inv`, so everything proved from `Inv` about verdicts applies) -/
theorem htlc_restart_same_verdict (dp : Nat) (s : State) (hs : Inv s) (hw : GenWF s) (hi : importableB s = true)
    (ops : List Op) (hops : OpsOk ops) (op : Op) (hop : OpOkG op) :
    step (ghost (restartGhosts s) (run (roundTrip dp s) ops)) op =
      mapG (restartGhosts s) (step (run (roundTrip dp s) ops) op) :=
  step_ghost _ (ghostIds_ghostsOf _) _ op hop
    (queueClean_of_inv (ghostly_ghostsOf _) (htlc_restart_inv dp s hs hw hi ops hops).1)

/-- **C13 after a restart**: the begin blocker of any height and time completes on every state the
restarted chain can reach, and the invariant holds afterwards -/
theorem htlc_restart_block_total (dp : Nat) (s : State) (hs : Inv s) (hw : GenWF s) (hi : importableB s = true)
    (ops : List Op) (hops : OpsOk ops) (h t : Nat) :
    ∃ x1, step (run (roundTrip dp s) ops) (.beginBlock h t) = .ok x1 ∧ Inv (ghost (restartGhosts s) x1) :=
  beginBlock_total_of_ghost (ghostly_ghostsOf _) (htlc_restart_inv dp s hs hw hi ops hops).1 h t

/-- **C03 / C13 after a restart**: one table entry per id; every open contract has exactly one queue
entry, at its expiration height, and every queue entry refers to an open contract -/
theorem htlc_restart_queue (dp : Nat) (s : State) (hs : Inv s) (hw : GenWF s) (hi : importableB s = true)
    (ops : List Op) (hops : OpsOk ops) :
    WF (run (roundTrip dp s) ops) ∧ QueueInv (run (roundTrip dp s) ops) :=
  ⟨wf_of_ghost (htlc_restart_inv dp s hs hw hi ops hops).1,
   queueInv_of_ghost (ghostly_ghostsOf _) (htlc_restart_inv dp s hs hw hi ops hops).1⟩

/-- **C04 (escrow) after a restart**: the escrow account covers the open plain and open outgoing
contracts after every history; if the escrow identity held at the export (no donation to the module
account), the escrow holds EXACTLY their sum after every history -/
theorem htlc_restart_escrow (dp : Nat) (s : State) (hs : Inv s) (hw : GenWF s) (hi : importableB s = true)
    (ops : List Op) (hops : OpsOk ops) :
    EscrowGe (run (roundTrip dp s) ops) ∧
    (EscrowEq s → NoSelf s → EscrowEq (run (roundTrip dp s) ops) ∧ NoSelf (run (roundTrip dp s) ops)) := by
  obtain ⟨hinv, hrun⟩ := htlc_restart_inv dp s hs hw hi ops hops
  have hg := ghostly_ghostsOf s.supplies
  refine ⟨escrowGe_of_ghost hg hinv, fun he hn => ?_⟩
  have h0 : Inv (ghost (restartGhosts s) (roundTrip dp s)) :=
    (htlc_restart_inv dp s hs hw hi [] (by intro op h; cases h)).1
  obtain ⟨_, _, _, _, he', hn'⟩ := htlc_inv_roundTrip dp s hs hw hi
  have hE : EscrowEq (ghost (restartGhosts s) (roundTrip dp s)) := (escrowEq_ghost_iff hg _).mpr (he' he)
  have hN : NoSelf (ghost (restartGhosts s) (roundTrip dp s)) := (noSelf_ghost_iff hg h0).mpr (hn' hn)
  obtain ⟨r1, r2⟩ := Irismod.Props.C04.escrowEq_run _ ops h0 hE hN (fun op hop => (hops op hop).opOk)
  rw [hrun] at r1 r2
  exact ⟨(escrowEq_ghost_iff hg _).mp r1, (noSelf_ghost_iff hg hinv).mp r2⟩

/-- **C04 (counters) after a restart**: after every history incoming / outgoing equal the sums over the
open transfers, outgoing ≤ current, and current + completed outgoing = (current supply at the restart)
+ completed incoming, the completed sums now ranging over the contracts closed since the restart -/
theorem htlc_restart_counters (dp : Nat) (s : State) (hs : Inv s) (hw : GenWF s) (hi : importableB s = true)
    (ops : List Op) (hops : OpsOk ops) :
    CounterInvFrom (fun d => (supOf s d).current) (run (roundTrip dp s) ops) := by
  have h := countersFrom_of_ghost (ghostly_ghostsOf s.supplies) (htlc_restart_inv dp s hs hw hi ops hops).1
  have hb : (fun d => AMap.sumBy (dirAmt .completed .incoming d) (ghostsOf s.supplies)) = fun d => (supOf s d).current := by
    funext d; exact sumBy_ghosts_completed_in d s.supplies hw.aux.snodup
  rw [hb] at h
  exact h

/-- all of it for every state reachable from the state a chain starts with, then exported,
re-imported and driven through any further history -/
theorem htlc_restart_reachable (dp : Nat) (s0 : State) (ops1 ops2 : List Op) (h0 : Fresh s0)
    (h1 : OpsOk ops1) (h2 : OpsOk ops2) (hi : importableB (run s0 ops1) = true) :
    let x := run (roundTrip dp (run s0 ops1)) ops2
    WF x ∧ QueueInv x ∧ EscrowGe x ∧ CounterInvFrom (fun d => (supOf (run s0 ops1) d).current) x ∧
    ∀ h t, ∃ x1, step x (.beginBlock h t) = .ok x1 := by
  obtain ⟨hs, hw⟩ := htlc_wf_run s0 ops1 h0 h1
  obtain ⟨a, b⟩ := htlc_restart_queue dp _ hs hw hi ops2 h2
  refine ⟨a, b, (htlc_restart_escrow dp _ hs hw hi ops2 h2).1, htlc_restart_counters dp _ hs hw hi ops2 h2, ?_⟩
  intro h t
  obtain ⟨x1, hx, _⟩ := htlc_restart_block_total dp _ hs hw hi ops2 h2 h t
  exact ⟨x1, hx⟩

end Irismod.Props.C12.Htlc
