/-
C02 — Coinswap: settlement moves exactly the traded coins between the right parties.

Headline theorems about the model `Irismod.Coinswap`, for every state, every message and every
party (recipient equal to or different from the sender, parties that coincide with escrows
included: ledgers are stated in net form over ℤ, `Spec.C02.Ledger`).

Routed swaps: the full settlement statement is proved for every sender and recipient
(`double_hop_settles`, `double_hop_nets`).  Before fix f20f96d it was false of the code for
`recipient ≠ sender` (finding F-swap-1, now `fixed`); the old witness is kept as a regression
example (`witness_outcome`).
-/
import Irismod.Proofs.Coinswap

namespace Irismod.Props.C02
open Irismod Irismod.Sdk Irismod.Coinswap Irismod.Spec.C02 Irismod.Proofs.Coinswap

/-! ### swaps -/

/-- **C02(a)** an accepted single-hop swap: the ledger is exactly "sender pays the sold coin to
the pool, the pool pays the bought coin to the recipient" — every other (account, denom) and every
supply unchanged —, the exact side is the stated amount, the bound (minimum received / maximum
paid) and the deadline are respected, and the recipient is not a blocked address. -/
theorem swap_single_exact (s s' : State) (sender rcpt : Addr) (inD outD : Denom) (inA outA : Int)
    (buy : Bool) (dl : Int) (resp : CoinList) (hsingle : isDouble s inD outD = false)
    (h : step s (.swap sender rcpt inD inA outD outA buy dl) = .ok (s', resp)) :
    ∃ n sold bought, lookupLpt s inD outD = .ok n ∧
      Ledger s.bank s'.bank (singleSpec sender rcpt n inD outD sold bought) ∧
      (buy = false → (sold : Int) = inA ∧ outA ≤ (bought : Int)) ∧
      (buy = true → (bought : Int) = outA ∧ (sold : Int) ≤ inA) ∧
      InTime s.now dl ∧ s.blocked.contains rcpt = false ∧ SameCfg s s' := by
  obtain ⟨hvb, hs, _⟩ := step_swap_ok h
  simp only [vb] at hvb
  have hv := firstErr_none hvb
  have hin : 0 < inA := vbSide_none (hv (vbSide sender inD inA) (by simp))
  have hout : 0 < outA := vbSide_none (hv (vbSide rcpt outD outA) (by simp))
  unfold stepSwap at hs
  split at hs
  · cases hs
  · rename_i hexp
    split at hs
    · cases hs
    · rename_i hblk
      have hT := inTime_of_not_expired (by simpa using hexp)
      simp only [hsingle] at hs
      cases buy with
      | true =>
        simp only [if_true, Bool.false_eq_true, if_false] at hs
        obtain ⟨n, sold, hleg, hmax, hled, hcfg⟩ := tradeOut_ok hs
        have hl : lookupLpt s inD outD = .ok n := by rw [lookupLpt_symm]; exact hleg.look
        refine ⟨n, sold, outA.toNat, hl, hled, by simp, ?_, hT, by simpa using hblk, hcfg⟩
        intro _; constructor <;> omega
      | false =>
        simp only [Bool.false_eq_true, if_false] at hs
        obtain ⟨n, bought, hleg, hmin, hled, hcfg⟩ := tradeIn_ok hs
        refine ⟨n, inA.toNat, bought, hleg.look, hled, ?_, by simp, hT, by simpa using hblk, hcfg⟩
        intro _; constructor <;> omega

/-- **C02(b)** the literal ledger of an accepted routed (token→token) swap: first leg
`swapCoins(sender, sender, …)`, second leg `swapCoins(sender, recipient, …)` -/
theorem swap_double_ledger (s s' : State) (sender rcpt : Addr) (inD outD : Denom) (inA outA : Int)
    (buy : Bool) (dl : Int) (resp : CoinList) (hdouble : isDouble s inD outD = true)
    (h : step s (.swap sender rcpt inD inA outD outA buy dl) = .ok (s', resp)) :
    ∃ na nb sold k bought, lookupLpt s inD s.std = .ok na ∧ lookupLpt s s.std outD = .ok nb ∧
      Ledger s.bank s'.bank (doubleCode sender rcpt na nb inD s.std outD sold k bought) ∧ 0 < k ∧
      (buy = false → (sold : Int) = inA ∧ outA ≤ (bought : Int)) ∧
      (buy = true → (bought : Int) = outA ∧ (sold : Int) ≤ inA) ∧
      InTime s.now dl ∧ s.blocked.contains rcpt = false ∧ SameCfg s s' := by
  obtain ⟨hvb, hs, _⟩ := step_swap_ok h
  simp only [vb] at hvb
  have hv := firstErr_none hvb
  have hin : 0 < inA := vbSide_none (hv (vbSide sender inD inA) (by simp))
  have hout : 0 < outA := vbSide_none (hv (vbSide rcpt outD outA) (by simp))
  unfold stepSwap at hs
  split at hs
  · cases hs
  · rename_i hexp
    split at hs
    · cases hs
    · rename_i hblk
      have hT := inTime_of_not_expired (by simpa using hexp)
      try simp only [hdouble] at hs
      cases buy with
      | true =>
        simp only [if_true] at hs
        obtain ⟨na, nb, k, sold, s1, hlegB, hlegA, hmax, hled1, hcfg1, hled2, hcfg2⟩ := doubleOut_ok hs
        have hla : lookupLpt s inD s.std = .ok na := by rw [lookupLpt_symm]; exact hlegA.look
        have hlb : lookupLpt s s.std outD = .ok nb := by rw [lookupLpt_symm]; exact hlegB.look
        have hk : 0 < k := by
          have hp := hlegB.price
          unfold outputPrice at hp
          split at hp
          · cases hp; exact Nat.succ_pos _
          · cases hp
        refine ⟨na, nb, sold, k, outA.toNat, hla, hlb, Ledger.trans hled1 hled2, hk, by simp, ?_, hT,
          by simpa using hblk, hcfg1.trans hcfg2⟩
        intro _; constructor <;> omega
      | false =>
        simp only [Bool.false_eq_true, if_false] at hs
        obtain ⟨na, nb, k, bought, s1, hleg1, hled1, hcfg1, hleg2, hmin, hled2, hcfg2⟩ := doubleIn_ok hs
        have hlb : lookupLpt s s.std outD = .ok nb := by
          rw [← lookupLpt_cfg hcfg1]; exact hleg2.look
        have hk : 0 < k := by
          -- a zero intermediate amount buys nothing, and the minimum is at least 1
          rcases Nat.eq_zero_or_pos k with hk0 | hk0
          · subst hk0
            have hp := hleg2.price
            unfold inputPrice at hp
            split at hp
            · simp at hp; omega
            · cases hp
          · exact hk0
        refine ⟨na, nb, inA.toNat, k, bought, hleg1.look, hlb, Ledger.trans hled1 hled2, hk, ?_, by simp, hT,
          by simpa using hblk, hcfg1.trans hcfg2⟩
        intro _; constructor <;> omega

/-- the literal moves of the code net to the property's ledger for every sender and recipient:
the intermediate standard coin leaves the first pool and arrives in the second -/
theorem doubleCode_net (sender rcpt : Addr) (na nb : Nat) (inD std outD : Denom) (sold k bought : Nat) :
    (∀ a d, netBal (doubleCode sender rcpt na nb inD std outD sold k bought) a d
          = netBal (doubleSpec sender rcpt na nb inD std outD sold k bought) a d) ∧
    (∀ d, netSup (doubleCode sender rcpt na nb inD std outD sold k bought) d
          = netSup (doubleSpec sender rcpt na nb inD std outD sold k bought) d) := by
  constructor
  · intro a d
    simp only [doubleCode, doubleSpec, netBal, Mv.bal]
    split <;> split <;> split <;> omega
  · intro d
    simp [doubleCode, doubleSpec, netSup, Mv.sup]

/-- **C02(c)** an accepted routed swap settles exactly as the property demands, for every sender
and every recipient (equal or different, escrows included): sold coin from the sender to the first
pool, the intermediate standard coin from the first pool to the second, bought coin from the second
pool to the recipient; every other (account, denom) and every supply unchanged; bound and deadline
respected. -/
theorem double_hop_settles (s s' : State) (sender rcpt : Addr) (inD outD : Denom) (inA outA : Int)
    (buy : Bool) (dl : Int) (resp : CoinList) (hdouble : isDouble s inD outD = true)
    (h : step s (.swap sender rcpt inD inA outD outA buy dl) = .ok (s', resp)) :
    ∃ na nb sold k bought, lookupLpt s inD s.std = .ok na ∧ lookupLpt s s.std outD = .ok nb ∧
      Ledger s.bank s'.bank (doubleSpec sender rcpt na nb inD s.std outD sold k bought) ∧ 0 < k ∧
      (buy = false → (sold : Int) = inA ∧ outA ≤ (bought : Int)) ∧
      (buy = true → (bought : Int) = outA ∧ (sold : Int) ≤ inA) ∧
      InTime s.now dl ∧ s.blocked.contains rcpt = false ∧ SameCfg s s' := by
  obtain ⟨na, nb, sold, k, bought, hla, hlb, hled, hk, h1, h2, hT, hb, hc⟩ :=
    swap_double_ledger s s' sender rcpt inD outD inA outA buy dl resp hdouble h
  obtain ⟨e1, e2⟩ := doubleCode_net sender rcpt na nb inD s.std outD sold k bought
  exact ⟨na, nb, sold, k, bought, hla, hlb, Ledger.congr hled e1 e2, hk, h1, h2, hT, hb, hc⟩

/-- **C02(c′)** in particular the intermediate standard coin nets to zero for the sender and for
the recipient (parties that are not themselves escrows) -/
theorem double_hop_nets (s s' : State) (sender rcpt : Addr) (inD outD : Denom) (inA outA : Int)
    (buy : Bool) (dl : Int) (resp : CoinList) (hdouble : isDouble s inD outD = true)
    (hs : ∀ n, sender ≠ poolAddr n) (hr : ∀ n, rcpt ≠ poolAddr n)
    (h : step s (.swap sender rcpt inD inA outD outA buy dl) = .ok (s', resp)) :
    s'.bank.balOf sender s.std = s.bank.balOf sender s.std ∧
    s'.bank.balOf rcpt s.std = s.bank.balOf rcpt s.std := by
  obtain ⟨na, nb, sold, k, bought, _, _, hled, _⟩ :=
    double_hop_settles s s' sender rcpt inD outD inA outA buy dl resp hdouble h
  have hdi : inD ≠ s.std ∧ outD ≠ s.std := by
    simp only [isDouble, Bool.and_eq_true, bne_iff_ne] at hdouble; exact hdouble
  have a1 := hled.1 sender s.std
  have a2 := hled.1 rcpt s.std
  have p1 : ¬ poolAddr na = sender := fun e => hs na e.symm
  have p2 : ¬ poolAddr nb = sender := fun e => hs nb e.symm
  have p3 : ¬ poolAddr na = rcpt := fun e => hr na e.symm
  have p4 : ¬ poolAddr nb = rcpt := fun e => hr nb e.symm
  simp only [doubleSpec, netBal, Mv.bal, hdi.1, hdi.2, p1, p2, and_false, false_and, if_false] at a1
  simp only [doubleSpec, netBal, Mv.bal, hdi.1, hdi.2, p3, p4, and_false, false_and, if_false] at a2
  constructor <;> omega

/-- regression example (the witness of the former finding F-swap-1): two pools of 10^6/10^6, A0
sells 1000 btc for eth to A1 -/
def witnessState : State :=
  { std := "stake", pools := [("btc", 1), ("eth", 2)], seq := 3,
    bank := { bal := [(("A0", "btc"), 5000), (("A0", "stake"), 5000), (("P1", "btc"), 1000000),
                      (("P1", "stake"), 1000000), (("P2", "eth"), 1000000), (("P2", "stake"), 1000000)],
              supply := [("lpt-1", 1000000), ("lpt-2", 1000000)] } }

def witnessOp : Op := .swap "A0" "A1" "btc" 1000 "eth" 1 false 100

/-- on the witness the fixed routing leaves the sender's stake untouched, credits the recipient
no stake and 992 eth (before f20f96d: sender −996 stake, recipient +996 stake) -/
theorem witness_outcome :
    (match step witnessState witnessOp with
     | .ok (s', _) => (s'.bank.balOf "A0" "btc", s'.bank.balOf "A0" "stake", s'.bank.balOf "A1" "stake", s'.bank.balOf "A1" "eth")
     | .error _ => (0, 0, 0, 0)) = (4000, 5000, 0, 992) := by decide

/-! ### liquidity messages -/

/-- **C02(d)** an accepted `MsgAddLiquidity`: exactly the stated standard amount and at most the
stated maximum of the token are deposited into the pool, at least the stated minimum of liquidity
tokens is minted — to the sender, and only together with the deposit —; when the pool is created the
creation fee is charged: tax to the fee collector, the rest burned (the only supply that falls). -/
theorem add_liquidity_exact (s s' : State) (sender : Addr) (cp : Denom) (maxA dS minL dl : Int) (resp : CoinList)
    (htax : s.params.tax ≤ D)
    (h : step s (.add sender cp maxA dS minL dl) = .ok (s', resp)) :
    ∃ (n t m : Nat), AMap.get? s'.pools cp = some n ∧ (t : Int) ≤ maxA ∧ minL ≤ (m : Int) ∧ 0 < dS ∧
      resp = [(lptDenom n, m)] ∧ InTime s.now dl ∧
      ((AMap.get? s.pools cp = none ∧ n = s.seq ∧
          Ledger s.bank s'.bank (feeSpec s sender ++ addMoves s.std sender n cp dS.toNat t m)) ∨
       (AMap.get? s.pools cp = some n ∧
          Ledger s.bank s'.bank (addMoves s.std sender n cp dS.toNat t m) ∧ SameCfg s s')) := by
  obtain ⟨hvb, hs⟩ := step_add_ok h
  simp only [vb] at hvb
  have hv := firstErr_none hvb
  have hmax : 0 < maxA := vbToken_none (hv (vbToken cp maxA) (by simp))
  have hdS : 0 < dS := by
    have := hv (if dS ≤ 0 then some "vb:sdk/18" else none) (by simp)
    split at this
    · cases this
    · omega
  have hminL : 0 ≤ minL := by
    have := hv (if minL < 0 then some "vb:sdk/18" else none) (by simp)
    split at this
    · cases this
    · omega
  obtain ⟨hexp, hstd, hcase⟩ := stepAdd_ok hs
  have hT := inTime_of_not_expired hexp
  rcases hcase with ⟨hnone, s1, hfee, hmin, hadd⟩ | ⟨n, hsome, _, hmin, hadd⟩ | ⟨n, hsome, _, hex⟩
  · obtain ⟨hled1, hcfg1⟩ := deductFee_ok hfee
    obtain ⟨hled2, hcfg2, hresp⟩ := addLiq_ok hadd
    obtain ⟨c1, c2, c3, c4, c5, c6⟩ := hcfg1
    obtain ⟨d1, d2, d3, d4, d5, d6⟩ := hcfg2
    simp only at d1 d3 hled2
    refine ⟨s.seq, maxA.toNat, dS.toNat, ?_, by omega, by omega, hdS, by rw [hresp, c4], hT, Or.inl ⟨hnone, rfl, ?_⟩⟩
    · rw [d3, c3, c4]; exact AMap.get?_set_self _ _ _
    · obtain ⟨e1, e2⟩ := feeMoves_net s sender htax
      have := Ledger.trans (Ledger.congr hled1 e1 e2) hled2
      rw [c1, c4] at this
      exact this
  · obtain ⟨hled, hcfg, hresp⟩ := addLiq_ok hadd
    refine ⟨n, maxA.toNat, dS.toNat, ?_, by omega, by omega, hdS, hresp, hT, Or.inr ⟨hsome, hled, hcfg⟩⟩
    rw [hcfg.2.2.1]; exact hsome
  · obtain ⟨_, _, _, hmin, hmaxle, hadd⟩ := addExisting_ok hex
    obtain ⟨hled, hcfg, hresp⟩ := addLiq_ok hadd
    refine ⟨n, resY s n cp * dS.toNat / resX s n + 1, shares s n * dS.toNat / resX s n, ?_, by omega, by omega, hdS, hresp, hT,
      Or.inr ⟨hsome, hled, hcfg⟩⟩
    rw [hcfg.2.2.1]; exact hsome

/-- **C02(e)** an accepted one-sided add: exactly the stated coin is deposited, at least the stated
minimum of liquidity tokens is minted to the sender, nothing else moves. -/
theorem add_unilateral_exact (s s' : State) (sender : Addr) (cp tokD : Denom) (a minL dl : Int) (resp : CoinList)
    (h : step s (.add1 sender cp tokD a minL dl) = .ok (s', resp)) :
    ∃ (n m : Nat), AMap.get? s.pools cp = some n ∧ (tokD = cp ∨ tokD = s.std) ∧ minL ≤ (m : Int) ∧ 0 < a ∧
      Ledger s.bank s'.bank (add1Moves sender n tokD a.toNat m) ∧ resp = [(lptDenom n, m)] ∧
      InTime s.now dl ∧ SameCfg s s' := by
  obtain ⟨hvb, hs⟩ := step_add1_ok h
  simp only [vb] at hvb
  have hv := firstErr_none hvb
  have ha : 0 < a := vbToken_none (hv (vbToken tokD a) (by simp))
  obtain ⟨hexp, n, hsome, hside, _, hmin, hled, hcfg, hresp⟩ := stepAdd1_ok hs
  exact ⟨n, add1Mint (s.bank.balOf (poolAddr n) tokD) (shares s n) a.toNat (D - s.params.ufee), hsome, hside, by omega, ha,
    hled, hresp, inTime_of_not_expired hexp, hcfg⟩

/-- **C02(f)** an accepted `MsgRemoveLiquidity`: exactly the stated liquidity tokens of the sender
are burned, and only together with the withdrawal: at least the stated minima of both coins are paid
from the pool to the sender; nothing else moves. -/
theorem remove_liquidity_exact (s s' : State) (sender : Addr) (lptD : Denom) (w minStd minTok dl : Int) (resp : CoinList)
    (h : step s (.remove sender lptD w minStd minTok dl) = .ok (s', resp)) :
    ∃ (cp : Denom) (n x y : Nat), findByLpt s.pools lptD = some (cp, n) ∧ lptDenom n = lptD ∧
      minStd ≤ (x : Int) ∧ minTok ≤ (y : Int) ∧ 0 < w ∧
      Ledger s.bank s'.bank (removeMoves s.std sender n cp w.toNat x y) ∧ resp = coins [(s.std, x), (cp, y)] ∧
      InTime s.now dl ∧ SameCfg s s' := by
  obtain ⟨hvb, hs⟩ := step_remove_ok h
  simp only [vb] at hvb
  have hv := firstErr_none hvb
  have hw : 0 < w := by
    have := hv (if !(validDenom lptD && decide (0 < w)) then some "vb:sdk/10" else none) (by simp)
    split at this
    · cases this
    · rename_i hc; simp at hc; exact hc.2
  obtain ⟨hexp, cp, n, hfind, _, _, hmin1, hmin2, hrem⟩ := stepRemove_ok hs
  obtain ⟨hled, hcfg, hresp⟩ := removeLiq_ok hrem
  exact ⟨cp, n, w.toNat * resX s n / shares s n, w.toNat * resY s n cp / shares s n, hfind, (findByLpt_some hfind).1,
    by omega, by omega, hw, hled, hresp,
    inTime_of_not_expired hexp, hcfg⟩

/-- **C02(g)** an accepted one-sided remove: exactly the stated liquidity tokens of the sender are
burned and at least the stated minimum of the one coin is paid from the pool to the sender. -/
theorem remove_unilateral_exact (s s' : State) (sender : Addr) (cp minD : Denom) (minA w dl : Int) (resp : CoinList)
    (h : step s (.rem1 sender cp minD minA w dl) = .ok (s', resp)) :
    ∃ (n out : Nat), AMap.get? s.pools cp = some n ∧ (minD = cp ∨ minD = s.std) ∧ minA ≤ (out : Int) ∧ 0 ≤ w ∧
      Ledger s.bank s'.bank (rem1Moves sender n minD w.toNat out) ∧ resp = coins [(minD, out)] ∧
      InTime s.now dl ∧ SameCfg s s' := by
  obtain ⟨hvb, hs⟩ := step_rem1_ok h
  simp only [vb] at hvb
  have hv := firstErr_none hvb
  have hw : 0 ≤ w := by
    have := hv (if w < 0 then some "vb:sdk/18" else none) (by simp)
    split at this
    · cases this
    · omega
  obtain ⟨hexp, n, hsome, hside, _, _, hmin, hrem⟩ := stepRem1_ok hs
  obtain ⟨hled, hcfg, hresp⟩ := rem1Liq_ok hrem
  exact ⟨n, rem1Out (s.bank.balOf (poolAddr n) minD) (shares s n) w.toNat (D - s.params.ufee), hsome, hside, by omega, hw,
    hled, hresp, inTime_of_not_expired hexp, hcfg⟩

/-- **C02(h)** messages that are not liquidity messages (swaps of either kind, plain sends,
parameter updates, block boundaries) change no coin's total supply: liquidity tokens are minted
only by adds and burned only by removes. -/
theorem supply_frame (s s' : State) (op : Op) (resp : CoinList)
    (hop : match op with | .add .. | .add1 .. | .remove .. | .rem1 .. => False | _ => True)
    (h : step s op = .ok (s', resp)) : ∀ d, s'.bank.supplyOf d = s.bank.supplyOf d := by
  intro d
  cases op with
  | add | add1 | remove | rem1 => exact absurd hop (by simp)
  | block t => have := step_block_ok h; cases this; rfl
  | setParams auth fee tax ufee pcfD pcfA =>
    obtain ⟨_, hs⟩ := step_params_ok h
    unfold stepParams at hs
    split at hs
    · cases hs
    · cases hs; rfl
  | donate src dst dd a =>
    obtain ⟨hled, _⟩ := stepDonate_ok (step_donate_ok h)
    have := hled.2 d
    simp [netSup, Mv.sup] at this
    omega
  | swap sender rcpt inD inA outD outA buy dl =>
    cases hd : isDouble s inD outD with
    | false =>
      obtain ⟨n, sold, bought, _, hled, _⟩ := swap_single_exact s s' sender rcpt inD outD inA outA buy dl resp hd h
      have := hled.2 d
      simp [singleSpec, netSup, Mv.sup] at this
      omega
    | true =>
      obtain ⟨na, nb, sold, k, bought, _, _, hled, _⟩ := swap_double_ledger s s' sender rcpt inD outD inA outA buy dl resp hd h
      have := hled.2 d
      simp [doubleCode, netSup, Mv.sup] at this
      omega

/-- a rejected or panicking message changes nothing -/
theorem rejected_unchanged (s : State) (op : Op) (e : Err) (h : step s op = .error e) : apply s op = s := by
  unfold apply; rw [h]

end Irismod.Props.C02
