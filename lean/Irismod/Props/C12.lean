/-
C12 — exported state re-imports and preserves what users rely on.
Headline theorems (MT: the full statement holds; record / HTLC / oracle: the full statement is
false in the code — negation by witness plus the strongest true partial statement; see the
per-module sections and findings F-gen-2, F-gen-3; F-gen-1 is fixed — the HTLC statement now holds,
here for the mini-model of the timestamp rule and in `Props/C12_Htlc.lean` for the complete model).
-/
import Irismod.Proofs.MtGenesis
import Irismod.Props.C15
import Irismod.Proofs.RecordGenesis
import Irismod.Proofs.HtlcOracleGenesis

namespace Irismod.Props.C12
open Irismod

/-! ## MT -/
section mt
open Irismod.Mt Irismod.MtGenesis Irismod.Spec.C12.Mt Irismod.Spec.C15
open Irismod.Proofs.MtGenesis Irismod.Proofs.MtGenesisWF Irismod.Proofs.MtGenesisExport
open Irismod.Proofs.MtGenesisImport

/-- the reachable shape holds on the empty store … -/
theorem mt_wf_init : WF ({} : State) := wf_init

/-- … and is preserved by every accepted message whose generated id is fresh (ids are SHA-256
of a counter: freshness fails only on a hash collision or after 2^64 creations) -/
theorem mt_wf_step (s s' : State) (op : Op) (hw : WF s) (hf : IdFresh s op) (h : step s op = .ok s') :
    WF s' := wf_step s s' op hw hf h

/-- hence on every state reached by any history with fresh ids -/
theorem mt_wf_reachable (ops : List Op) (hf : FreshRun {} ops) : WF (run {} ops) :=
  wf_run {} ops wf_init hf

/-- **C12/MT (a)** the genesis exported from a well-shaped store satisfying Σ holders = supply
passes `ValidateGenesis`: every class under an owner is a collection, token counts agree, and
each token's recorded supply equals the (wrapping `uint64`) sum of the listed balances. -/
theorem mt_export_validates (s : State) (hw : WF s) (hinv : Inv s) :
    validateGenesis (exportGenesis s) = .ok () := validate_export s hw hinv

/-- **C12/MT (b)** `InitGenesis` of that export does not panic (no overflow while the supplies
are rebuilt from the balance entries: partial sums ≤ recorded supply < 2^64) and the imported
store answers every read — classes, token metadata, supplies, class supplies, balances, both
id sequences — exactly like the exported store. -/
theorem mt_import_preserves (s : State) (hw : WF s) (hinv : Inv s) :
    ∃ s', importGenesis (exportGenesis s) = .ok s' ∧ ObsEq s' s := by
  obtain ⟨s', h1, h2, _⟩ := import_export s hw hinv
  exact ⟨s', h1, h2⟩

/-- **C12/MT (c)** export ∘ import ∘ export = export (fixpoint), together with (a) and (b). -/
theorem mt_roundtrip (s : State) (hw : WF s) (hinv : Inv s) : RoundTrip s := by
  obtain ⟨s', h1, h2, _⟩ := import_export s hw hinv
  exact ⟨validate_export s hw hinv, s', h1, h2, export_congr h2⟩

/-- the queries users rely on, spelled out -/
theorem mt_queries_preserved (s : State) (hw : WF s) (hinv : Inv s) :
    ∃ s', importGenesis (exportGenesis s) = .ok s' ∧
      (∀ a d m, balOf s' a d m = balOf s a d m) ∧ (∀ d m, supplyOf s' d m = supplyOf s d m) ∧
      (∀ d, ownerOf s' d = ownerOf s d) ∧ (∀ d, AMap.get? s'.denoms d = AMap.get? s.denoms d) ∧
      (∀ d m, AMap.get? s'.mts (d, m) = AMap.get? s.mts (d, m)) ∧
      (∀ d, AMap.getD s'.denomSupply d 0 = AMap.getD s.denomSupply d 0) ∧
      s'.denomSeq = s.denomSeq ∧ s'.mtSeq = s.mtSeq := by
  obtain ⟨s', h1, h2, _⟩ := import_export s hw hinv
  refine ⟨s', h1, ?_, ?_, ?_, h2.denoms, fun d m => h2.mts (d, m), ?_, h2.denomSeq, h2.mtSeq⟩
  · intro a d m; unfold balOf AMap.getD; rw [h2.bal]
  · intro d m; unfold supplyOf AMap.getD; rw [h2.supply]
  · intro d; unfold ownerOf; rw [h2.denoms]
  · intro d; unfold AMap.getD; rw [h2.denomSupply]

/-- the imported store is again well-shaped and satisfies C15's invariant, so every C15 theorem
and this round trip apply to the restarted chain as well -/
theorem mt_import_closed (s : State) (hw : WF s) (hinv : Inv s) :
    ∃ s', importGenesis (exportGenesis s) = .ok s' ∧ WF s' ∧ Inv s' := by
  obtain ⟨s', h1, h2, n1, n2, n3⟩ := import_export s hw hinv
  exact ⟨s', h1, wf_of_obsEq h2 n1 n2 n3 hw, inv_of_obsEq h2 n3 hw.nd_bal hinv⟩

/-- **C12/MT, all reachable states**: after any history of messages (accepted or rejected, by
owners and strangers, amounts over the whole 64-bit range) along which SHA-256 produced no
repeated id, the export validates, re-imports without panic to an observationally equal store,
and is a fixpoint. -/
theorem mt_roundtrip_reachable (ops : List Op) (hf : FreshRun {} ops) : RoundTrip (run {} ops) :=
  mt_roundtrip _ (wf_run {} ops wf_init hf) (Irismod.Props.C15.sum_eq_supply_reachable ops)

/-- a second export/import cycle behaves the same (round trips compose) -/
theorem mt_roundtrip_twice (s : State) (hw : WF s) (hinv : Inv s) :
    ∃ s', importGenesis (exportGenesis s) = .ok s' ∧ RoundTrip s' := by
  obtain ⟨s', h1, hw', hinv'⟩ := mt_import_closed s hw hinv
  exact ⟨s', h1, mt_roundtrip s' hw' hinv'⟩

theorem mt_idFresh_of_B (s : State) (op : Op) (h : idFreshB s op = true) : IdFresh s op := by
  cases op with
  | issueDenom sender name data => simpa [idFreshB, IdFresh] using h
  | mint sender d id recipient n data =>
    intro hid
    subst hid
    simpa [idFreshB] using h
  | edit sender d id data => trivial
  | transfer sender recipient d id n => trivial
  | burn sender d id n => trivial
  | transferDenom sender recipient id => trivial

theorem mt_freshRun_of_B : ∀ (ops : List Op) (s : State), freshRunB s ops = true → FreshRun s ops
  | [], _, _ => trivial
  | op :: t, s, h => by
    simp only [freshRunB, Bool.and_eq_true] at h
    exact ⟨mt_idFresh_of_B s op h.1, mt_freshRun_of_B t _ h.2⟩

/-- non-vacuity: a history with two classes (one empty), two tokens, a transfer that leaves a
zero-amount balance entry, and a burn -/
def mtDemoOps : List Op := [.issueDenom "A0" "n" "", .issueDenom "A1" "z" "aa", .mint "A0" (genId "mt-denom-" 1) "" "A1" 10 "",
          .mint "A0" (genId "mt-denom-" 1) "" "A0" 18446744073709551615 "bb",
          .transfer "A1" "A2" (genId "mt-denom-" 1) (genId "mt-" 1) 4,
          .burn "A2" (genId "mt-denom-" 1) (genId "mt-" 1) 4]

def mtDemo : State := run {} mtDemoOps

def mtDemoCheck : Bool :=
  freshRunB {} mtDemoOps &&
  match validateGenesis (exportGenesis mtDemo), importGenesis (exportGenesis mtDemo) with
  | .ok _, .ok s' =>
    decide (exportGenesis s' = exportGenesis mtDemo) && (exportGenesis mtDemo).owners.length == 3 &&
    (exportGenesis mtDemo).collections.length == 2 && s'.denomSeq == mtDemo.denomSeq && s'.mtSeq == mtDemo.mtSeq &&
    balOf s' "A2" (genId "mt-denom-" 1) (genId "mt-" 1) == 0 &&
    supplyOf s' (genId "mt-denom-" 1) (genId "mt-" 2) == 18446744073709551615
  | _, _ => false

end mt

/-! ## record (finding F-gen-3: ids are re-derived on import) -/
section record
open Irismod.Record Irismod.RecordGenesis Irismod.Spec.C12.Record Irismod.Proofs.RecordGenesis
open Irismod.Proofs.GenesisList

/-- the export of every reachable record store passes `ValidateGenesis` -/
theorem record_export_validates (ops : List Op) : validateGenesis (exportGenesis (run {} ops)) = .ok () :=
  validate_export _ (recsOk_run ops {} (by intro e he; simp at he))

/-- **C12/record, the true part**: the export of every reachable store imports without panic;
the imported store holds exactly the exported records — tx hash, contents, creator — in export
order, keyed by ids re-derived with fresh counters 0, 1, 2, … (provided SHA-256 does not
collide on those); as a multiset the records are the exporting chain's records, and the
counter equals their number. Only the ids (and the iteration order that follows them) change. -/
theorem record_import_partial (ops : List Op)
    (hnc : (newIds 0 (exportGenesis (run {} ops)).records).Nodup) :
    ∃ s', importGenesis (exportGenesis (run {} ops)) = .ok s' ∧
      s'.recs = (newIds 0 (exportGenesis (run {} ops)).records).zip (exportGenesis (run {} ops)).records ∧
      (s'.recs.map (·.2)) = (exportGenesis (run {} ops)).records ∧
      (s'.recs.map (·.2)).Perm ((run {} ops).recs.map (·.2)) ∧
      (exportGenesis s').records.Perm (exportGenesis (run {} ops)).records ∧
      s'.counter = UInt32.ofNat (run {} ops).recs.length := by
  refine ⟨importFrom {} (exportGenesis (run {} ops)).records, ?_, ?_, ?_, ?_, ?_, ?_⟩
  · unfold importGenesis; rw [record_export_validates ops]
  · exact importFrom_empty_recs _ hnc
  · exact importFrom_empty_snd _ hnc
  · rw [importFrom_empty_snd _ hnc]; exact export_perm _
  · refine (export_perm _).trans ?_
    rw [importFrom_empty_snd _ hnc]
  · rw [importFrom_counter, export_length]
    show (0 : UInt32) + _ = _
    rw [UInt32.zero_add]

/-- the id `AddRecord` derives for record `r` when the counter is `c` -/
abbrev idOf (r : Rec) (c : UInt32) : Id := idOfPre (preimage r c)

/-- **the mechanism of F-gen-3**, for any two records: if the store order of the ids
(byte order of two SHA-256 values) is the reverse of the creation order, then after
export → import the first record's id is unknown to the importing chain (unless SHA-256
collides on the re-derived ids), although the exporting chain answered it. -/
theorem record_two_swap (r0 r1 : Rec)
    (hlt : idLt (idOf r0 0) (idOf r1 1) = false)
    (h0 : idOf r0 0 ≠ idOf r1 0) (h1 : idOf r0 0 ≠ idOf r0 1)
    (hv : validateGenesis { records := [r1, r0] } = .ok ()) :
    getRecord { recs := [(idOf r0 0, r0), (idOf r1 1, r1)], counter := 2 } (idOf r0 0) = some r0 ∧
    ∃ s', importGenesis (exportGenesis { recs := [(idOf r0 0, r0), (idOf r1 1, r1)], counter := 2 }) = .ok s' ∧
      getRecord s' (idOf r0 0) = none := by
  constructor
  · simp [getRecord, AMap.get?]
  · have hexp : exportGenesis { recs := [(idOf r0 0, r0), (idOf r1 1, r1)], counter := 2 } = { records := [r1, r0] } := by
      simp [exportGenesis, sortById, insId, hlt]
    rw [hexp]
    refine ⟨importFrom {} [r1, r0], ?_, ?_⟩
    · unfold importGenesis; rw [hv]
    · show AMap.get? (importFrom {} [r1, r0]).recs (idOf r0 0) = none
      simp only [importFrom, addRecord]
      rw [AMap.get?_set_other _ _ _ _ (Ne.symm _), AMap.get?_set_other _ _ _ _ (Ne.symm _)]
      · rfl
      · exact h0
      · exact h1

theorem run_two (b0 b1 : ByteArray) (m0 m1 : Msg) (h0 : msgOk m0 = true) (h1 : msgOk m1 = true) :
    run {} [.tx b0 [m0], .tx b1 [m1]] = importFrom {} [mkRec (txHashOf b0) m0, mkRec (txHashOf b1) m1] := by
  simp [run, apply, step, stepTx, h0, h1, createOne, importFrom]

theorem importFrom_two (r0 r1 : Rec) (hne : idOfPre (preimage r0 0) ≠ idOfPre (preimage r1 1)) :
    importFrom {} [r0, r1] = { recs := [(idOf r0 0, r0), (idOf r1 1, r1)], counter := 2 } := by
  simp [importFrom, addRecord, AMap.set, hne]

/-- **negation of the full statement by witness** (two transactions creating one record each):
given the four closed SHA-256 facts `WitnessFacts` (evaluated in `Audit/C12.lean`; the same
history fails on the real keeper), not every reachable store keeps its ids across
export → import. -/
theorem record_roundtrip_fails (hw : WitnessFacts) : ¬ RoundTripAll := by
  intro H
  obtain ⟨hne, hlt, h0, h1⟩ := hw
  obtain ⟨s', hs', hq⟩ := H wOps
  have hrun : run {} wOps = { recs := [(wI0, wR0), (wI1, wR1)], counter := 2 } := by
    unfold wOps
    rw [run_two _ _ _ _ (by decide) (by decide)]
    exact importFrom_two wR0 wR1 hne
  obtain ⟨hget, s'', hs'', hnone⟩ := record_two_swap wR0 wR1 hlt h0 h1 (by rfl)
  have hget : getRecord { recs := [(wI0, wR0), (wI1, wR1)], counter := 2 } wI0 = some wR0 := hget
  have hnone : getRecord s'' wI0 = none := hnone
  rw [hrun] at hs' hq
  have : s' = s'' := by
    have := hs'.symm.trans hs''
    cases this; rfl
  subst this
  have := hq wI0
  rw [hnone] at this
  rw [hget] at this
  cases this

end record

/-! ## HTLC (finding F-gen-1, FIXED by 1f718dc: creation accepts timestamp 0, genesis validation used to reject it)

The theorems of this section are about the mini-model of the timestamp rule (`Irismod.HtlcGenesis`);
the round trip of the complete HTLC model — export validates, import succeeds outside the class
F-gen-5, observational equality, fixpoint, invariants again — is in `Props/C12_Htlc.lean`. -/
section htlc
open Irismod.HtlcGenesis Irismod.Proofs.HtlcGenesis

/-- the C12 statement for the HTLC timestamp/expiry rules: the export of every reachable store
passes `ValidateGenesis`.  TRUE since 1f718dc (`htlc_export_validates_mini`). -/
def HtlcExportValidates : Prop :=
  ∀ (s0 : State) (ops : List Op), s0.htlcs = [] → 900 < s0.time →
    validateGenesis (exportGenesis (run s0 ops)) = true

/-- the same statement for `ValidateGenesis` as it was before 1f718dc.  FALSE. -/
def HtlcExportValidatedPre : Prop :=
  ∀ (s0 : State) (ops : List Op), s0.htlcs = [] → 900 < s0.time →
    validateGenesisPre (exportGenesis (run s0 ops)) = true

/-- **the finding, kept for the record**: with the pre-1f718dc rule one plain HTLC created without a
timestamp (accepted by `CreateHTLC`: the timestamp of a non-transfer contract is never checked)
made the module's own export invalid -/
theorem htlc_prefix_rule_failed : ¬ HtlcExportValidatedPre := by
  intro H
  have := H { time := 1700000000 } [.create "h1" 0 50 false] rfl (by decide)
  revert this
  decide

/-- **regression example**: the same witness PASSES `ValidateGenesis` as it is now -/
theorem htlc_gen1_regression :
    validateGenesis (exportGenesis (run { time := 1700000000 } [.create "h1" 0 50 false])) = true := by
  decide

theorem htlc_inv_init (s0 : State) (h0 : s0.htlcs = []) (hc : 900 < s0.time) : Inv s0 :=
  ⟨by rw [h0]; simp [AMap.keys], by rw [h0]; intro e he; simp at he, by rw [h0]; intro e he; simp at he, hc⟩

/-- the strongest statement that was true BEFORE the fix, excluded class explicit: if no open
contract carries timestamp 0, the export of every reachable store passed the old rule -/
theorem htlc_validate_partial (s0 : State) (ops : List Op) (h0 : s0.htlcs = []) (hc : 900 < s0.time)
    (hts : ∀ e ∈ exportGenesis (run s0 ops), e.2.timestamp ≠ 0) :
    validateGenesisPre (exportGenesis (run s0 ops)) = true := by
  have hi := inv_run ops s0 (htlc_inv_init s0 h0 hc)
  apply validateWith_ok _ _ [] (nodup_export _ hi.nodup) (by intro k _; simp)
  intro e he
  obtain ⟨hm, ho⟩ := mem_export he
  refine ⟨ho, ?_⟩
  simp only [validateContractPre, Bool.and_eq_true, decide_eq_true_eq]
  exact ⟨hi.exp e hm, hts e he⟩

/-- with the rule of 1f718dc (timestamp only for HTLTs) the export of every reachable store
validates: an HTLT's timestamp was checked against the clock at creation, so it is not 0 -/
theorem htlc_fixed_validates (s0 : State) (ops : List Op) (h0 : s0.htlcs = []) (hc : 900 < s0.time) :
    validateGenesisFixed (exportGenesis (run s0 ops)) = true := by
  have hi := inv_run ops s0 (htlc_inv_init s0 h0 hc)
  apply validateWith_ok _ _ [] (nodup_export _ hi.nodup) (by intro k _; simp)
  intro e he
  obtain ⟨hm, ho⟩ := mem_export he
  refine ⟨ho, ?_⟩
  simp only [validateContractFixed, Bool.and_eq_true, decide_eq_true_eq, Bool.or_eq_true,
    Bool.not_eq_true']
  refine ⟨hi.exp e hm, ?_⟩
  cases htr : e.2.transfer with
  | false => exact Or.inl rfl
  | true => exact Or.inr (hi.htlt e hm htr)

/-- **C12/htlc validation, mini-model, all reachable stores**: the full statement holds -/
theorem htlc_export_validates_mini : HtlcExportValidates :=
  fun s0 ops h0 hc => htlc_fixed_validates s0 ops h0 hc

end htlc

/-! ## oracle (finding F-gen-2: the feed-value history collapses on import) -/
section oracle
open Irismod.OracleGenesis Irismod.Proofs.OracleGenesis

/-- the C12 statement for a feed's value history: a feed that ran through any sequence of
batches (increasing batch counters, `latestHistory ≥ 1`) shows the same values after
export → import. FALSE in the code. -/
def OracleHistoryPreserved : Prop :=
  ∀ (lh ctxBatch : Nat) (batches : List (Nat × Value)), 1 ≤ lh → batches.Pairwise (fun a b => a.1 < b.1) →
    getFeedValues (importValues ctxBatch lh (exportValues (runValues lh [] batches))) =
      getFeedValues (runValues lh [] batches)

/-- **what import really does**: whatever was exported, the imported feed has exactly one value —
the last one written, i.e. the last of the export list, i.e. the OLDEST stored value (the export
lists newest first). -/
theorem oracle_import_keeps_last_written (ctxBatch lh : Nat) (h : Hist) :
    getFeedValues (importValues ctxBatch lh (exportValues h)) = (h.head?.map (·.2)).toList := by
  rw [importValues_eq, getLast?_export]
  cases h with
  | nil => rfl
  | cons e t => rfl

/-- **negation by witness**: two batches, `latestHistory = 2` -/
theorem oracle_roundtrip_fails : ¬ OracleHistoryPreserved := by
  intro H
  have := H 2 2 [(1, ⟨"1.0", 10⟩), (2, ⟨"2.0", 20⟩)] (by decide) (by simp)
  revert this
  decide

/-- **the true part**: a feed with at most one stored value keeps it -/
theorem oracle_roundtrip_partial (ctxBatch lh : Nat) (h : Hist) (hl : h.length ≤ 1) :
    getFeedValues (importValues ctxBatch lh (exportValues h)) = getFeedValues h := by
  rw [oracle_import_keeps_last_written]
  match h, hl with
  | [], _ => rfl
  | [e], _ => rfl

end oracle

end Irismod.Props.C12
