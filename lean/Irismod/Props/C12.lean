/-
C12 — exported state re-imports and preserves what users rely on.
Headline theorems (MT: the full statement holds; record / HTLC / oracle: the full statement is
false in the code — negation by witness plus the strongest true partial statement; see the
per-module sections and findings F-gen-1, F-gen-2, F-gen-3).
-/
import Irismod.Proofs.MtGenesis
import Irismod.Props.C15

namespace Irismod.Props.C12
open Irismod

/-! ## MT -/
section mt
open Irismod.Mt Irismod.MtGenesis Irismod.Spec.C12.Mt Irismod.Spec.C15
open Irismod.Proofs.MtGenesis Irismod.Proofs.MtGenesisWF Irismod.Proofs.MtGenesisExport
open Irismod.Proofs.MtGenesisImport

/-- the reachable shape holds on the empty store … -/
theorem mt_wf_init : WF ({} : State) := wf_init

/-- … and is preserved by every accepted message whose generated id is fresh (ids are SHA-256
of a counter: freshness fails only on a hash collision or after 2^64 creations) -/
theorem mt_wf_step (s s' : State) (op : Op) (hw : WF s) (hf : IdFresh s op) (h : step s op = .ok s') :
    WF s' := wf_step s s' op hw hf h

/-- hence on every state reached by any history with fresh ids -/
theorem mt_wf_reachable (ops : List Op) (hf : FreshRun {} ops) : WF (run {} ops) :=
  wf_run {} ops wf_init hf

/-- **C12/MT (a)** the genesis exported from a well-shaped store satisfying Σ holders = supply
passes `ValidateGenesis`: every class under an owner is a collection, token counts agree, and
each token's recorded supply equals the (wrapping `uint64`) sum of the listed balances. -/
theorem mt_export_validates (s : State) (hw : WF s) (hinv : Inv s) :
    validateGenesis (exportGenesis s) = .ok () := validate_export s hw hinv

/-- **C12/MT (b)** `InitGenesis` of that export does not panic (no overflow while the supplies
are rebuilt from the balance entries: partial sums ≤ recorded supply < 2^64) and the imported
store answers every read — classes, token metadata, supplies, class supplies, balances, both
id sequences — exactly like the exported store. -/
theorem mt_import_preserves (s : State) (hw : WF s) (hinv : Inv s) :
    ∃ s', importGenesis (exportGenesis s) = .ok s' ∧ ObsEq s' s := by
  obtain ⟨s', h1, h2, _⟩ := import_export s hw hinv
  exact ⟨s', h1, h2⟩

/-- **C12/MT (c)** export ∘ import ∘ export = export (fixpoint), together with (a) and (b). -/
theorem mt_roundtrip (s : State) (hw : WF s) (hinv : Inv s) : RoundTrip s := by
  obtain ⟨s', h1, h2, _⟩ := import_export s hw hinv
  exact ⟨validate_export s hw hinv, s', h1, h2, export_congr h2⟩

/-- the queries users rely on, spelled out -/
theorem mt_queries_preserved (s : State) (hw : WF s) (hinv : Inv s) :
    ∃ s', importGenesis (exportGenesis s) = .ok s' ∧
      (∀ a d m, balOf s' a d m = balOf s a d m) ∧ (∀ d m, supplyOf s' d m = supplyOf s d m) ∧
      (∀ d, ownerOf s' d = ownerOf s d) ∧ (∀ d, AMap.get? s'.denoms d = AMap.get? s.denoms d) ∧
      (∀ d m, AMap.get? s'.mts (d, m) = AMap.get? s.mts (d, m)) ∧
      (∀ d, AMap.getD s'.denomSupply d 0 = AMap.getD s.denomSupply d 0) ∧
      s'.denomSeq = s.denomSeq ∧ s'.mtSeq = s.mtSeq := by
  obtain ⟨s', h1, h2, _⟩ := import_export s hw hinv
  refine ⟨s', h1, ?_, ?_, ?_, h2.denoms, fun d m => h2.mts (d, m), ?_, h2.denomSeq, h2.mtSeq⟩
  · intro a d m; unfold balOf AMap.getD; rw [h2.bal]
  · intro d m; unfold supplyOf AMap.getD; rw [h2.supply]
  · intro d; unfold ownerOf; rw [h2.denoms]
  · intro d; unfold AMap.getD; rw [h2.denomSupply]

/-- the imported store is again well-shaped and satisfies C15's invariant, so every C15 theorem
and this round trip apply to the restarted chain as well -/
theorem mt_import_closed (s : State) (hw : WF s) (hinv : Inv s) :
    ∃ s', importGenesis (exportGenesis s) = .ok s' ∧ WF s' ∧ Inv s' := by
  obtain ⟨s', h1, h2, n1, n2, n3⟩ := import_export s hw hinv
  exact ⟨s', h1, wf_of_obsEq h2 n1 n2 n3 hw, inv_of_obsEq h2 n3 hw.nd_bal hinv⟩

/-- **C12/MT, all reachable states**: after any history of messages (accepted or rejected, by
owners and strangers, amounts over the whole 64-bit range) along which SHA-256 produced no
repeated id, the export validates, re-imports without panic to an observationally equal store,
and is a fixpoint. -/
theorem mt_roundtrip_reachable (ops : List Op) (hf : FreshRun {} ops) : RoundTrip (run {} ops) :=
  mt_roundtrip _ (wf_run {} ops wf_init hf) (Irismod.Props.C15.sum_eq_supply_reachable ops)

/-- a second export/import cycle behaves the same (round trips compose) -/
theorem mt_roundtrip_twice (s : State) (hw : WF s) (hinv : Inv s) :
    ∃ s', importGenesis (exportGenesis s) = .ok s' ∧ RoundTrip s' := by
  obtain ⟨s', h1, hw', hinv'⟩ := mt_import_closed s hw hinv
  exact ⟨s', h1, mt_roundtrip s' hw' hinv'⟩

/-- non-vacuity: a history with two classes (one empty), two tokens, a transfer that leaves a
zero-amount balance entry, and a burn -/
def mtDemo : State :=
  run {} [.issueDenom "A0" "n" "", .issueDenom "A1" "z" "aa", .mint "A0" (genId "mt-denom-" 1) "" "A1" 10 "",
          .mint "A0" (genId "mt-denom-" 1) "" "A0" 18446744073709551615 "bb",
          .transfer "A1" "A2" (genId "mt-denom-" 1) (genId "mt-" 1) 4,
          .burn "A2" (genId "mt-denom-" 1) (genId "mt-" 1) 4]

def mtDemoCheck : Bool :=
  match validateGenesis (exportGenesis mtDemo), importGenesis (exportGenesis mtDemo) with
  | .ok _, .ok s' =>
    decide (exportGenesis s' = exportGenesis mtDemo) && (exportGenesis mtDemo).owners.length == 3 &&
    (exportGenesis mtDemo).collections.length == 2 && s'.denomSeq == mtDemo.denomSeq && s'.mtSeq == mtDemo.mtSeq &&
    balOf s' "A2" (genId "mt-denom-" 1) (genId "mt-" 1) == 0 &&
    supplyOf s' (genId "mt-denom-" 1) (genId "mt-" 2) == 18446744073709551615
  | _, _ => false

end mt

end Irismod.Props.C12
