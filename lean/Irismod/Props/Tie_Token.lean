/-
Tie between the token model's fee-token swap arithmetic and /repo's `types.LossLessSwap`, over the
REGENERATED translation (`Gen/PureToken.lean`): the Go function — big.Int mutations, library range checks
and all — computes exactly `Token.lossLess` for every input, ratio and scale pair.  C10's theorems
(`FullValue`, `burned ≤ offered`, exactness at ratio 1) are statements about `Token.lossLess`.
-/
import Irismod.Gen.PureToken
import Irismod.Model.Token
import Irismod.Proofs.GoSemLemmas
namespace Irismod.Props.Tie
open Irismod.Sdk Irismod.GoSem Irismod.Gen.PureToken

theorem token_all_translated : Irismod.Gen.PureToken.untranslated = [] := rfl

theorem pow10_eq (n : Nat) : Irismod.Gen.PureToken.pow10 n = some (((Irismod.Token.pow10 n : Nat)) : Int) := by
  unfold Irismod.Gen.PureToken.pow10 Irismod.Token.pow10
  rw [Big_Exp_ten_nat]

private theorem pow10_pos (n : Nat) : (0 : Int) < ((Irismod.Token.pow10 n : Nat) : Int) := by
  unfold Irismod.Token.pow10
  exact Int.natCast_pos.mpr (Nat.pow_pos (by decide))

private theorem do_match (a b : Option Int) :
    (a >>= fun t4 => b >>= fun t5 => some (t4, t5)) =
      (match a with | none => none | some x => match b with | none => none | some m => some (x, m)) := by
  cases a <;> cases b <;> rfl

/-- `LossLessSwap` (token/types/types.go) = the model's `lossLess`, for all arguments -/
theorem LossLessSwap_eq_model (input : Int) (ratio : Dec) (si so : Nat) :
    LossLessSwap input ratio si so = Irismod.Token.lossLess input ratio si so := by
  unfold LossLessSwap Irismod.Token.lossLess
  by_cases hc : input ≤ 0 ∨ ratio.raw ≤ 0
  · have : ((!(Int_IsPositive input)) || (!(Dec_IsPositive ratio))) = true := by
      simp only [Int_IsPositive, Dec_IsPositive, Bool.or_eq_true, Bool.not_eq_true', decide_eq_false_iff_not, Int.not_lt]
      exact hc
    rw [if_pos this, if_pos hc]; rfl
  · have hb : ((!(Int_IsPositive input)) || (!(Dec_IsPositive ratio))) = false := by
      simp only [Int_IsPositive, Dec_IsPositive, Bool.or_eq_false_iff, Bool.not_eq_false', decide_eq_true_eq]
      omega
    have hr : 0 < ratio.raw := by omega
    rw [if_neg (by simp [hb]), if_neg hc]
    have h18 : ((18 : Nat) : Nat) = 18 := rfl
    simp only [pow10_eq, obind_some, Dec_BigInt, Int_BigInt, Big_Mul, Big_Add, Big_Sub, Big_NewInt]
    have hprec : ((Irismod.Token.pow10 18 : Nat) : Int) = precision := by decide
    have hden : precision * ((Irismod.Token.pow10 si : Nat) : Int) ≠ 0 := by
      rw [← hprec]; exact Int.ne_of_gt (Int.mul_pos (pow10_pos 18) (pow10_pos si))
    have hnum : ratio.raw * ((Irismod.Token.pow10 so : Nat) : Int) ≠ 0 :=
      Int.ne_of_gt (Int.mul_pos hr (pow10_pos so))
    simp only [hprec, Big_Quo, hden, hnum, if_false, obind_some, NewIntFromBigInt,
      Irismod.Token.swapNum, Irismod.Token.swapDen, Irismod.Token.swapOutput, Irismod.Token.swapTaken]
    exact do_match _ _

end Irismod.Props.Tie
