/-
Tie between the token model's fee-token swap arithmetic and /repo's `types.LossLessSwap`, over the
REGENERATED translation (`Gen/PureToken.lean`): the Go function — big.Int mutations, library range checks
and all — computes exactly `Token.lossLess` for every input, ratio and scale pair.  C10's theorems
(`FullValue`, `burned ≤ offered`, exactness at ratio 1) are statements about `Token.lossLess`.
-/
import Irismod.Gen.PureToken
import Irismod.Model.Token
import Irismod.Proofs.GoSemLemmas
namespace Irismod.Props.Tie
open Irismod.Sdk Irismod.GoSem Irismod.Gen.PureToken

theorem token_all_translated : Irismod.Gen.PureToken.untranslated = [] := rfl

theorem pow10_eq (n : Nat) : Irismod.Gen.PureToken.pow10 n = some (((Irismod.Token.pow10 n : Nat)) : Int) := by
  unfold Irismod.Gen.PureToken.pow10 Irismod.Token.pow10
  rw [Big_Exp_ten_nat]

private theorem pow10_pos (n : Nat) : (0 : Int) < ((Irismod.Token.pow10 n : Nat) : Int) := by
  unfold Irismod.Token.pow10
  exact Int.natCast_pos.mpr (Nat.pow_pos (by decide))

private theorem do_match (a b : Option Int) :
    (a >>= fun t4 => b >>= fun t5 => some (t4, t5)) =
      (match a with | none => none | some x => match b with | none => none | some m => some (x, m)) := by
  cases a <;> cases b <;> rfl

/-- `LossLessSwap` (token/types/types.go) = the model's `lossLess`, for all arguments -/
theorem LossLessSwap_eq_model (input : Int) (ratio : Dec) (si so : Nat) :
    LossLessSwap input ratio si so = Irismod.Token.lossLess input ratio si so := by
  unfold LossLessSwap Irismod.Token.lossLess
  by_cases hc : input ≤ 0 ∨ ratio.raw ≤ 0
  · have : ((!(Int_IsPositive input)) || (!(Dec_IsPositive ratio))) = true := by
      simp only [Int_IsPositive, Dec_IsPositive, Bool.or_eq_true, Bool.not_eq_true', decide_eq_false_iff_not, Int.not_lt]
      exact hc
    rw [if_pos this, if_pos hc]; rfl
  · have hb : ((!(Int_IsPositive input)) || (!(Dec_IsPositive ratio))) = false := by
      simp only [Int_IsPositive, Dec_IsPositive, Bool.or_eq_false_iff, Bool.not_eq_false', decide_eq_true_eq]
      omega
    have hr : 0 < ratio.raw := by omega
    rw [if_neg (by simp [hb]), if_neg hc]
    have h18 : ((18 : Nat) : Nat) = 18 := rfl
    simp only [pow10_eq, obind_some, Dec_BigInt, Int_BigInt, Big_Mul, Big_Add, Big_Sub, Big_NewInt]
    have hprec : ((Irismod.Token.pow10 18 : Nat) : Int) = precision := by decide
    have hden : precision * ((Irismod.Token.pow10 si : Nat) : Int) ≠ 0 := by
      rw [← hprec]; exact Int.ne_of_gt (Int.mul_pos (pow10_pos 18) (pow10_pos si))
    have hnum : ratio.raw * ((Irismod.Token.pow10 so : Nat) : Int) ≠ 0 :=
      Int.ne_of_gt (Int.mul_pos hr (pow10_pos so))
    simp only [hprec, Big_Quo, hden, hnum, if_false, obind_some, NewIntFromBigInt,
      Irismod.Token.swapNum, Irismod.Token.swapDen, Irismod.Token.swapOutput, Irismod.Token.swapTaken]
    exact do_match _ _


/-- the rejecting guards of the ERC20 swap handlers and of the EVM hook around `LossLessSwap`, as source text in source order -/
theorem token_guards_pinned : Irismod.Gen.PureToken.guards =
    ["erc20Hook.PostTxProcessing: eventArgs, err := erc20.Unpack(event.Name, log.Data); err != nil",
     "erc20Hook.PostTxProcessing: len(eventArgs) != 3",
     "erc20Hook.PostTxProcessing: !ok || len(to) == 0",
     "erc20Hook.PostTxProcessing: receiver, err := sdk.AccAddressFromBech32(to); err != nil",
     "erc20Hook.PostTxProcessing: !ok || amount.Cmp(big.NewInt(0)) == 0",
     "erc20Hook.PostTxProcessing: err := hook.k.bankKeeper.MintCoins(ctx, types.ModuleName, mintedCoins); err != nil",
     "erc20Hook.PostTxProcessing: err := hook.k.bankKeeper.SendCoinsFromModuleToAccount(ctx, types.ModuleName, receiver, mintedCoins); err != nil",
     "Keeper.SwapFromERC20: token, err := k.getTokenByMinUnit(ctx, wantedAmount.Denom); err != nil",
     "Keeper.SwapFromERC20: len(token.Contract) == 0",
     "Keeper.SwapFromERC20: err := k.BurnERC20(ctx, contract, sender, wantedAmount.Amount.BigInt()); err != nil",
     "Keeper.SwapFromERC20: err := k.bankKeeper.MintCoins(ctx, types.ModuleName, mintedCoins); err != nil",
     "Keeper.SwapFromERC20: err := k.bankKeeper.SendCoinsFromModuleToAccount(ctx, types.ModuleName, receiver, mintedCoins); err != nil",
     "Keeper.SwapToERC20: !k.evmKeeper.SupportedKey(receiverAcc.GetPubKey())",
     "Keeper.SwapToERC20: token, err := k.getTokenByMinUnit(ctx, amount.Denom); err != nil",
     "Keeper.SwapToERC20: len(token.Contract) == 0",
     "Keeper.SwapToERC20: err := k.bankKeeper.SendCoinsFromAccountToModule(ctx, sender, types.ModuleName, amt); err != nil",
     "Keeper.SwapToERC20: err := k.bankKeeper.BurnCoins(ctx, types.ModuleName, amt); err != nil",
     "Keeper.SwapToERC20: err := k.MintERC20(ctx, contract, receiver, amount.Amount.BigInt()); err != nil",
     "msgServer.SwapFromERC20: sender, err := sdk.AccAddressFromBech32(msg.Sender); err != nil",
     "msgServer.SwapFromERC20: receiver, err := sdk.AccAddressFromBech32(msg.Receiver); err != nil",
     "msgServer.SwapFromERC20: err := m.k.SwapFromERC20(ctx, common.BytesToAddress(sender.Bytes()), receiver, msg.WantedAmount); err != nil",
     "msgServer.SwapToERC20: sender, err := sdk.AccAddressFromBech32(msg.Sender); err != nil",
     "msgServer.SwapToERC20: err := m.k.SwapToERC20(ctx, sender, receiver, msg.Amount); err != nil"] := rfl

/-- their effect statements (calls whose result is dropped, field writes) with nesting depth, in source order -/
theorem token_effects_pinned : Irismod.Gen.PureToken.effects =
    ["LossLessSwap: d0 output.Quo(output, den)",
     "LossLessSwap: d0 taken.Add(taken, new(big.Int).Sub(num, big.NewInt(1)))",
     "LossLessSwap: d0 taken.Quo(taken, num)"] := rfl

end Irismod.Props.Tie
