/-
C04 — HTLC: escrow balance and cross-chain supply counters match the open contracts.
Headline theorems about the model `Irismod.Htlc`, for every state satisfying the joint invariant,
every operation and every history.

The full escrow *identity* (`EscrowEqAlways`) is false of the code: a contract whose recipient is
the htlc module account itself (not bank-blocked in the application) strands its amount in escrow
when claimed (finding F-htlc-self-recipient).  Proved here: the negation from a concrete witness,
the exact identity that does hold (`EscrowExact`: escrow = open contracts + stranded amounts), and
the partial theorem (`escrowEq_partial`: the identity on histories without self-recipient creates).
-/
import Irismod.Proofs.HtlcLedger

namespace Irismod.Props.C04
open Irismod Irismod.Sdk Irismod.Htlc Irismod.Spec.C03 Irismod.Spec.C04 Irismod.Proofs.Htlc

/-! ### counters and coverage in every reachable state -/

/-- **counters**: in every reachable state, for every denom: incoming = Σ open incoming transfers,
outgoing = Σ open outgoing transfers, current + Σ completed outgoing = Σ completed incoming, and
outgoing ≤ current -/
theorem counters_reachable (s : State) (ops : List Op) (hs : Inv s) (hops : ∀ op ∈ ops, OpOk op) :
    CounterInv (run s ops) := (inv_run ops hs hops).2.2.2

/-- the escrow always covers the open plain + open outgoing contracts, denom by denom -/
theorem escrowGe_reachable (s : State) (ops : List Op) (hs : Inv s) (hops : ∀ op ∈ ops, OpOk op) :
    EscrowGe (run s ops) := (inv_run ops hs hops).2.2.1

/-- donations (any bank change that does not lower the escrow balance — a plain bank send into
the module account) keep the joint invariant, hence everything that follows from it -/
theorem inv_donation (s : State) (b' : Bank) (hs : Inv s)
    (hb : ∀ d, Bank.balOf s.bank escrow d ≤ Bank.balOf b' escrow d) : Inv { s with bank := b' } := by
  obtain ⟨hwf, hq, hge, hcnt⟩ := hs
  refine ⟨hwf, hq, ?_, hcnt⟩
  intro d
  have h1 := hge d
  have h2 := hb d
  show openEscrow s d ≤ Bank.balOf b' escrow d
  omega

/-! ### the escrow identity -/

theorem exact_apply {s : State} {op : Op} (hs : Inv s) (hx : EscrowExact s) (hop : OpOk op) :
    EscrowExact (apply s op) := by
  unfold apply
  cases h : step s op with
  | ok s' => exact exact_step hs hx hop h
  | error e => exact hx

/-- **the identity the code maintains**: in every reachable state the escrow holds exactly the
open plain + open outgoing amounts plus the amounts of completed contracts whose recipient was
the escrow account itself -/
theorem escrowExact_run (s : State) (ops : List Op) (hs : Inv s) (hx : EscrowExact s)
    (hops : ∀ op ∈ ops, OpOk op) : EscrowExact (run s ops) := by
  induction ops generalizing s with
  | nil => exact hx
  | cons op r ih =>
    have hop := hops op (by simp)
    exact ih (apply s op) (inv_apply hs hop) (exact_apply hs hx hop) (fun o ho => hops o (by simp [ho]))

theorem stranded_zero {s : State} (hwf : WF s) (hn : NoSelf s) (d : Denom) : strandedSum s d = 0 := by
  unfold strandedSum
  apply sumBy_eq_zero _ _ hwf.1
  intro k c hg
  have := hn k c hg
  simp [strandedAmt, this]

theorem exact_of_eq {s : State} (hwf : WF s) (hn : NoSelf s) (he : EscrowEq s) : EscrowExact s := by
  intro d; rw [stranded_zero hwf hn d]; exact he d

theorem eq_of_exact {s : State} (hwf : WF s) (hn : NoSelf s) (hx : EscrowExact s) : EscrowEq s := by
  intro d; have := hx d; rw [stranded_zero hwf hn d] at this; exact this

theorem noSelf_apply {s : State} {op : Op} (hs : Inv s) (hn : NoSelf s) (hns : ¬ SelfRecipient op) :
    NoSelf (apply s op) := by
  intro id c' hg'
  cases hg : AMap.get? s.htlcs id with
  | some c =>
    obtain ⟨c1, hg1, t⟩ := apply_trans (op := op) hs hg
    rw [hg'] at hg1; cases hg1
    have hto := hn id c hg
    cases t with
    | stay => exact hto
    | claimed _ _ _ _ _ => simpa [completed] using hto
    | refunded _ _ => simpa [refunded] using hto
  | none =>
    unfold apply at hg'
    cases h : step s op with
    | error e => rw [h] at hg'; simp only at hg'; rw [hg] at hg'; cases hg'
    | ok s' =>
      rw [h] at hg'; simp only at hg'
      rcases step_absent hs h hg with h0 | ⟨sender, to, coins, lock, ts, tl, tr, dir, rfl, _, h1⟩
      · rw [h0] at hg'; cases hg'
      · rw [h1] at hg'; cases hg'
        simpa [SelfRecipient, newContract] using hns

/-- the statement of C04's first sentence in full: the escrow identity holds along every history -/
def EscrowEqAlways : Prop :=
  ∀ (s : State) (ops : List Op), Inv s → EscrowEq s → (∀ op ∈ ops, OpOk op) → EscrowEq (run s ops)

/-- **partial theorem**: on histories in which no contract names the escrow account itself as
recipient (the excluded, decidable class `SelfRecipient`), the escrow holds exactly the sum of the
open plain contracts and open outgoing transfers, denom by denom, in every reachable state -/
theorem escrowEq_partial (s : State) (ops : List Op) (hs : Inv s) (he : EscrowEq s) (hn : NoSelf s)
    (hops : ∀ op ∈ ops, OpOk op ∧ ¬ SelfRecipient op) : EscrowEq (run s ops) ∧ NoSelf (run s ops) := by
  induction ops generalizing s with
  | nil => exact ⟨he, hn⟩
  | cons op r ih =>
    obtain ⟨hop, hns⟩ := hops op (by simp)
    have hs' := inv_apply hs hop
    have hn' := noSelf_apply hs hn hns
    have hx' := exact_apply hs (exact_of_eq hs.1 hn he) hop
    exact ih (apply s op) hs' (eq_of_exact hs'.1 hn' hx') hn' (fun o ho => hops o (by simp [ho]))

/-! #### the witness: a plain contract paying to the escrow account -/

def z64 : String := "0000000000000000000000000000000000000000000000000000000000000000"

/-- an open plain contract of 5 stake from `A0` to the htlc module account `M` -/
def wC : Contract :=
  { sender := "A0", to := "M", amount := [("stake", 5)], hashLock := genLock z64 0, secret := "",
    timestamp := 0, expiration := 100, state := .open, closedBlock := 0, transfer := false, direction := .none }

/-- the state right after that contract was created: the escrow holds its 5 stake -/
def wS : State :=
  { htlcs := [(z64, wC)], queue := [(100, z64)], bank := { bal := [(("M", "stake"), 5)], supply := [] }, height := 10 }

theorem wS_inv : Inv wS := by
  refine ⟨⟨by simp [wS], ?_⟩, ⟨by simp [wS], ?_, ?_⟩, ?_, ?_⟩
  · intro id c hg
    simp only [wS, AMap.get?] at hg
    split at hg
    · cases hg; simp [wC, escrow]
    · cases hg
  · intro id c hg ho
    simp only [wS, AMap.get?] at hg
    split at hg
    · rename_i e; cases hg; subst e; simp [wS, wC]
    · cases hg
  · intro h id hm
    simp [wS] at hm
    obtain ⟨rfl, rfl⟩ := hm
    exact ⟨wC, by simp [wS, AMap.get?], rfl, rfl⟩
  · intro d
    simp [wS, wC, openEscrow, AMap.sumBy, AMap.sumIf, escrowAmt, escrowed, coinAmt, Bank.balOf, AMap.getD,
      AMap.get?, escrow]
    split <;> simp_all
  · intro d
    simp [wS, wC, supOf, sumDir, AMap.sumBy, AMap.sumIf, dirAmt, zeroSupply]

theorem wS_eq : EscrowEq wS := by
  intro d
  simp [wS, wC, openEscrow, AMap.sumBy, AMap.sumIf, escrowAmt, escrowed, coinAmt, Bank.balOf, AMap.getD,
    AMap.get?, escrow]
  split <;> simp_all

/-- claiming it leaves 5 stake in escrow that no open contract accounts for -/
theorem wS_claim_breaks : ¬ EscrowEq (run wS [.claim "A1" z64 z64]) := by
  have hstep : step wS (.claim "A1" z64 z64) =
      .ok (close { wS with bank := (sendCoins wS.bank escrow "M" [("stake", 5)]).1 } z64 (completed wC z64 10)) := by
    have hid : hexOk64 z64 = true := by decide
    have hsend : sendOk wS.bank escrow "M" [("stake", 5)] = some (sendCoins wS.bank escrow "M" [("stake", 5)]).1 := by
      simp [sendOk, sendCoins, subCoins, addCoins, wS, Bank.balOf, Bank.setBal, AMap.getD, AMap.get?, AMap.set, escrow]
    simp [step, stepClaim, hid, wS, AMap.get?, wC, claimFunds]
    simp [wS, wC] at hsend
    simp [hsend]
  intro h
  have h5 := h "stake"
  simp only [run, List.foldl, apply, hstep] at h5
  revert h5
  simp [close, completed, wC, wS, openEscrow, AMap.sumBy, AMap.sumIf, AMap.set, escrowAmt, escrowed,
    sendCoins, subCoins, addCoins, Bank.balOf, Bank.setBal, AMap.getD, AMap.get?, escrow]

/-- **the full identity is false of the code** (negation by witness; finding F-htlc-self-recipient) -/
theorem escrowEq_always_fails : ¬ EscrowEqAlways := by
  intro h
  exact wS_claim_breaks (h wS [.claim "A1" z64 z64] wS_inv wS_eq (by intro op hop; simp at hop; subst hop; trivial))

/-! ### limits, while the asset params are unchanged -/

/-- **limits**: along every history without parameter updates, for every supported asset
current + incoming ≤ limit and, if time-limited, (amount completed in the running window) +
incoming ≤ time-based limit -/
theorem limits_run (s : State) (ops : List Op) (hs : Inv s) (hl : LimitInv s)
    (hops : ∀ op ∈ ops, OpOk op ∧ KeepsParams op) : LimitInv (run s ops) := by
  induction ops generalizing s with
  | nil => exact hl
  | cons op r ih =>
    obtain ⟨hop, hk⟩ := hops op (by simp)
    refine ih (apply s op) (inv_apply hs hop) ?_ (fun o ho => hops o (by simp [ho]))
    unfold apply
    cases h : step s op with
    | ok s' => exact limit_step hs hl hk h
    | error e => exact hl

/-- a state without supply records satisfies the limits -/
theorem limits_init (s : State) (h : s.supplies = []) : LimitInv s := by
  intro d a _; simp [supOf, h, zeroSupply]

/-- **bank supply**: the bank supply of every denom is the supply that entered the chain outside
the module (`k`, constant) plus the recorded current supply — with `k = 0` the asset's whole
bank supply is `current` -/
theorem supplyTrack_run (k : Denom → Nat) (s : State) (ops : List Op) (hs : Inv s) (hk : SupplyTrack k s)
    (hops : ∀ op ∈ ops, OpOk op) : SupplyTrack k (run s ops) := by
  induction ops generalizing s with
  | nil => exact hk
  | cons op r ih =>
    have hop := hops op (by simp)
    refine ih (apply s op) (inv_apply hs hop) ?_ (fun o ho => hops o (by simp [ho]))
    unfold apply
    cases h : step s op with
    | ok s' => exact track_step hs hk h
    | error e => exact hk

/-! ### the time window -/

theorem tick_congr (a : Asset) (dt : Int) (x y : Supply) (h1 : x.elapsed = y.elapsed) (h2 : x.tlCurrent = y.tlCurrent) :
    (tick a dt x).elapsed = (tick a dt y).elapsed ∧ (tick a dt x).tlCurrent = (tick a dt y).tlCurrent := by
  unfold tick; rw [h1]; split <;> simp [h2]

/-- **window**: a block at time `t` updates the window of every supported asset by exactly one
`tick` with `dt = t − previous block time`: while the accumulated time stays below the period
(and the asset is time-limited) the elapsed time accumulates and the time-limited supply is
kept; exactly when it reaches the period both are reset to zero -/
theorem window_exact (s : State) (h t : Nat) (hs : Inv s) (hnd : noDupDenoms s.params = true)
    (d : Denom) (a : Asset) (ha : findAsset s.params d = some a) :
    ∃ s', step s (.beginBlock h t) = .ok s' ∧ s'.prevTime = some t ∧
      (supOf s' d).elapsed = (tick a ((t : Int) - ((s.prevTime.getD t : Nat) : Int)) (supOf s d)).elapsed ∧
      (supOf s' d).tlCurrent = (tick a ((t : Int) - ((s.prevTime.getD t : Nat) : Int)) (supOf s d)).tlCurrent := by
  have hnd' := nodup_dueIds s.queue h hs.2.1.1
  have hin : ∀ id ∈ dueIds s.queue h, (h, id) ∈ ({ s with height := h, time := t } : State).queue :=
    fun id hid => (mem_dueIds s.queue h id).mp hid
  obtain ⟨s1, e⟩ := processDue_ok (dueIds s.queue h) (inv_ctx hs h t) hnd' hin
  have hp : s1.params = s.params := e.params
  have hne : s1.params.isEmpty = false := by
    rw [hp]; cases hps : s.params with
    | nil => rw [hps] at ha; cases ha
    | cons _ _ => rfl
  have ht : s1.time = t := e.time
  have hpv : s1.prevTime = s.prevTime := e.prev
  refine ⟨updateLimits s1, by simp only [step, stepBeginBlock, e.run], ?_, ?_⟩
  · simp [updateLimits, hne, ht]
  · have hx := tickAll_exact ((s1.time : Int) - ((s1.prevTime.getD s1.time : Nat) : Int)) s1.params s1.supplies d a
      (by rw [hp]; exact hnd) (by rw [hp]; exact ha)
    have hsup : supOf (updateLimits s1) d = tick a ((t : Int) - ((s.prevTime.getD t : Nat) : Int)) (supOf s1 d) := by
      rw [ht, hpv] at hx
      simp only [updateLimits, hne, supOf_eq]
      simpa [ht, hpv] using hx
    rw [hsup]
    obtain ⟨_, _, h3, h4⟩ := e.sup d
    exact tick_congr a _ _ _ h4 h3

/-- between blocks the window state moves only by accepted claims of incoming transfers of a
time-limited asset, by exactly the claimed amount; the elapsed time never moves -/
theorem tl_only_by_incoming_claim (s s' : State) (sender id secret : String) (hs : Inv s)
    (h : step s (.claim sender id secret) = .ok s') :
    ∃ c, AMap.get? s.htlcs id = some c ∧ ∀ d,
      (supOf s' d).elapsed = (supOf s d).elapsed ∧
      (supOf s' d).tlCurrent = (supOf s d).tlCurrent + tlAdd s c d :=
  tl_stepClaim hs h

/-- a create changes neither the window state nor the current supply -/
theorem create_keeps_window (s s' : State) (sender to : Addr) (coins : Coins) (lock : String) (ts tl : Nat)
    (transfer : Bool) (h : step s (.create sender to coins lock ts tl transfer) = .ok s') (d : Denom) :
    (supOf s' d).elapsed = (supOf s d).elapsed ∧ (supOf s' d).tlCurrent = (supOf s d).tlCurrent ∧
    (supOf s' d).current = (supOf s d).current :=
  tl_stepCreate h d

/-! ### corollaries: what cannot fail -/

/-- **refund at expiry cannot fail**: for every queue entry of a state satisfying the invariant,
`RefundHTLC` succeeds and marks the contract refunded — the error swallowed at abci.go:26 is dead -/
theorem refund_cannot_fail (s : State) (h : Nat) (id : Id) (hs : Inv s) (hm : (h, id) ∈ s.queue) :
    ∃ c s1, AMap.get? s.htlcs id = some c ∧ c.state = .open ∧ c.expiration = h ∧ refundOne s id = .ok s1 ∧
      AMap.get? s1.htlcs id = some (refunded c s.height) ∧ s1.bank = payRefund s.bank c := by
  obtain ⟨c, s1, e⟩ := refundOne_due hs hm
  exact ⟨c, s1, e.get, e.isOpen, e.exp, e.run, by rw [e.htlcs, get?_set]; simp, e.bank⟩

/-- **a claim of an incoming transfer never fails on a limit**: while the limits hold (params
unchanged since the invariant was established) and the asset is still supported, a well-formed
claim with the right secret of an open incoming transfer is accepted -/
theorem claim_incoming_never_fails (s : State) (sender id secret : String) (c : Contract) (d : Denom) (n : Nat)
    (a : Asset) (hs : Inv s) (hl : LimitInv s) (hg : AMap.get? s.htlcs id = some c) (ho : c.state = .open)
    (ht : c.transfer = true) (hdir : c.direction = .incoming) (hamt : c.amount = [(d, n)])
    (ha : findAsset s.params d = some a) (hid : hexOk64 id = true) (hsec : hexOk64 secret = true)
    (hlk : genLock secret c.timestamp = c.hashLock) :
    ∃ s', step s (.claim sender id secret) = .ok s' := by
  obtain ⟨s', h⟩ := claimIncoming_succeeds (secret := secret) hs hl hg ho ht hdir hamt ha hid hsec
  refine ⟨s', ?_⟩
  simp only [step, hg, Option.map_some, Option.getD_some, hlk]
  exact h

end Irismod.Props.C04
