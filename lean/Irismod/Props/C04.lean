/-
C04 — HTLC: escrow balance and cross-chain supply counters match the open contracts.
Headline theorems about the model `Irismod.Htlc`, for every state satisfying the joint invariant,
every operation and every history.

The escrow identity is proved in full (`escrowEq_run`).  It relies on `CreateHTLC` rejecting the
escrow account itself as recipient (guard added by fix a0f373c; before it a claim of such a
contract stranded the amount in escrow — finding F-htlc-self-recipient, now fixed).
-/
import Irismod.Proofs.HtlcLedger

namespace Irismod.Props.C04
open Irismod Irismod.Sdk Irismod.Htlc Irismod.Spec.C03 Irismod.Spec.C04 Irismod.Proofs.Htlc

/-! ### counters and coverage in every reachable state -/

/-- **counters**: in every reachable state, for every denom: incoming = Σ open incoming transfers,
outgoing = Σ open outgoing transfers, current + Σ completed outgoing = Σ completed incoming, and
outgoing ≤ current -/
theorem counters_reachable (s : State) (ops : List Op) (hs : Inv s) (hops : ∀ op ∈ ops, OpOk op) :
    CounterInv (run s ops) := (inv_run ops hs hops).2.2.2

/-- the escrow always covers the open plain + open outgoing contracts, denom by denom -/
theorem escrowGe_reachable (s : State) (ops : List Op) (hs : Inv s) (hops : ∀ op ∈ ops, OpOk op) :
    EscrowGe (run s ops) := (inv_run ops hs hops).2.2.1

/-- donations (any bank change that does not lower the escrow balance — a plain bank send into
the module account) keep the joint invariant, hence everything that follows from it -/
theorem inv_donation (s : State) (b' : Bank) (hs : Inv s)
    (hb : ∀ d, Bank.balOf s.bank escrow d ≤ Bank.balOf b' escrow d) : Inv { s with bank := b' } := by
  obtain ⟨hwf, hq, hge, hcnt⟩ := hs
  refine ⟨hwf, hq, ?_, hcnt⟩
  intro d
  have h1 := hge d
  have h2 := hb d
  show openEscrow s d ≤ Bank.balOf b' escrow d
  omega

/-! ### the escrow identity -/

/-- **escrow identity, one step**: no stored contract names the escrow account as recipient and the
escrow holds exactly Σ open plain + Σ open outgoing, denom by denom — preserved by every operation -/
theorem escrowEq_apply (s : State) (op : Op) (hs : Inv s) (he : EscrowEq s) (hn : NoSelf s) (hop : OpOk op) :
    EscrowEq (apply s op) ∧ NoSelf (apply s op) := by
  have hs' := inv_apply hs hop
  have hn' := noSelf_apply (op := op) hs hn
  exact ⟨eq_of_exact hs'.1 hn' (exact_apply hs (exact_of_eq hs.1 hn he) hop), hn'⟩

/-- **escrow identity (C04, first sentence), all histories**: from any state satisfying the
invariant and the identity, along every history of create / claim / blocks / parameter updates,
the htlc escrow account holds exactly the sum of the amounts of the open ordinary contracts and
open outgoing cross-chain transfers, for every denom -/
theorem escrowEq_run (s : State) (ops : List Op) (hs : Inv s) (he : EscrowEq s) (hn : NoSelf s)
    (hops : ∀ op ∈ ops, OpOk op) : EscrowEq (run s ops) ∧ NoSelf (run s ops) := by
  induction ops generalizing s with
  | nil => exact ⟨he, hn⟩
  | cons op r ih =>
    have hop := hops op (by simp)
    obtain ⟨he', hn'⟩ := escrowEq_apply s op hs he hn hop
    exact ih (apply s op) (inv_apply hs hop) he' hn' (fun o ho => hops o (by simp [ho]))

/-- … in particular in every state reachable from an initial state whose escrow account is empty -/
theorem escrowEq_reachable (b : Bank) (ps : List Asset) (prev : Option Nat) (h t : Nat) (ops : List Op)
    (hb : ∀ d, Bank.balOf b escrow d = 0) (hops : ∀ op ∈ ops, OpOk op) :
    EscrowEq (run { bank := b, params := ps, prevTime := prev, height := h, time := t } ops) := by
  refine (escrowEq_run _ ops (inv_fresh rfl rfl rfl) ?_ ?_ hops).1
  · intro d; simp [openEscrow, AMap.sumBy, AMap.sumIf, hb d]
  · intro id c hg; simp at hg

/-- the escrow account itself is never accepted as a recipient -/
theorem escrow_recipient_rejected (s : State) (sender : Addr) (coins : Coins) (lock : String) (ts tl : Nat)
    (transfer : Bool) : ∃ why, step s (.create sender escrow coins lock ts tl transfer) = .error (.reject why) := by
  simp only [step, stepCreate]
  split
  · exact ⟨_, rfl⟩
  · split
    · exact ⟨_, rfl⟩
    · exact ⟨_, rfl⟩

/-! ### limits, while the asset params are unchanged -/

/-- **limits**: along every history without parameter updates, for every supported asset
current + incoming ≤ limit and, if time-limited, (amount completed in the running window) +
incoming ≤ time-based limit -/
theorem limits_run (s : State) (ops : List Op) (hs : Inv s) (hl : LimitInv s)
    (hops : ∀ op ∈ ops, OpOk op ∧ KeepsParams op) : LimitInv (run s ops) := by
  induction ops generalizing s with
  | nil => exact hl
  | cons op r ih =>
    obtain ⟨hop, hk⟩ := hops op (by simp)
    refine ih (apply s op) (inv_apply hs hop) ?_ (fun o ho => hops o (by simp [ho]))
    unfold apply
    cases h : step s op with
    | ok s' => exact limit_step hs hl hk h
    | error e => exact hl

/-- a state without supply records satisfies the limits -/
theorem limits_init (s : State) (h : s.supplies = []) : LimitInv s := by
  intro d a _; simp [supOf, h, zeroSupply]

/-- **bank supply**: the bank supply of every denom is the supply that entered the chain outside
the module (`k`, constant) plus the recorded current supply — with `k = 0` the asset's whole
bank supply is `current` -/
theorem supplyTrack_run (k : Denom → Nat) (s : State) (ops : List Op) (hs : Inv s) (hk : SupplyTrack k s)
    (hops : ∀ op ∈ ops, OpOk op) : SupplyTrack k (run s ops) := by
  induction ops generalizing s with
  | nil => exact hk
  | cons op r ih =>
    have hop := hops op (by simp)
    refine ih (apply s op) (inv_apply hs hop) ?_ (fun o ho => hops o (by simp [ho]))
    unfold apply
    cases h : step s op with
    | ok s' => exact track_step hs hk h
    | error e => exact hk

/-! ### the time window -/

theorem tick_congr (a : Asset) (dt : Int) (x y : Supply) (h1 : x.elapsed = y.elapsed) (h2 : x.tlCurrent = y.tlCurrent) :
    (tick a dt x).elapsed = (tick a dt y).elapsed ∧ (tick a dt x).tlCurrent = (tick a dt y).tlCurrent := by
  unfold tick; rw [h1]; split <;> simp [h2]

/-- **window**: a block at time `t` updates the window of every supported asset by exactly one
`tick` with `dt = t − previous block time`: while the accumulated time stays below the period
(and the asset is time-limited) the elapsed time accumulates and the time-limited supply is
kept; exactly when it reaches the period both are reset to zero -/
theorem window_exact (s : State) (h t : Nat) (hs : Inv s) (hnd : noDupDenoms s.params = true)
    (d : Denom) (a : Asset) (ha : findAsset s.params d = some a) :
    ∃ s', step s (.beginBlock h t) = .ok s' ∧ s'.prevTime = some t ∧
      (supOf s' d).elapsed = (tick a ((t : Int) - ((s.prevTime.getD t : Nat) : Int)) (supOf s d)).elapsed ∧
      (supOf s' d).tlCurrent = (tick a ((t : Int) - ((s.prevTime.getD t : Nat) : Int)) (supOf s d)).tlCurrent := by
  have hnd' := nodup_dueIds s.queue h hs.2.1.1
  have hin : ∀ id ∈ dueIds s.queue h, (h, id) ∈ ({ s with height := h, time := t } : State).queue :=
    fun id hid => (mem_dueIds s.queue h id).mp hid
  obtain ⟨s1, e⟩ := processDue_ok (dueIds s.queue h) (inv_ctx hs h t) hnd' hin
  have hp : s1.params = s.params := e.params
  have hne : s1.params.isEmpty = false := by
    rw [hp]; cases hps : s.params with
    | nil => rw [hps] at ha; cases ha
    | cons _ _ => rfl
  have ht : s1.time = t := e.time
  have hpv : s1.prevTime = s.prevTime := e.prev
  refine ⟨updateLimits s1, by simp only [step, stepBeginBlock, e.run], ?_, ?_⟩
  · simp [updateLimits, hne, ht]
  · have hx := tickAll_exact ((s1.time : Int) - ((s1.prevTime.getD s1.time : Nat) : Int)) s1.params s1.supplies d a
      (by rw [hp]; exact hnd) (by rw [hp]; exact ha)
    have hsup : supOf (updateLimits s1) d = tick a ((t : Int) - ((s.prevTime.getD t : Nat) : Int)) (supOf s1 d) := by
      rw [ht, hpv] at hx
      simp only [updateLimits, hne, supOf_eq]
      simpa [ht, hpv] using hx
    rw [hsup]
    obtain ⟨_, _, h3, h4⟩ := e.sup d
    exact tick_congr a _ _ _ h4 h3

/-- between blocks the window state moves only by accepted claims of incoming transfers of a
time-limited asset, by exactly the claimed amount; the elapsed time never moves -/
theorem tl_only_by_incoming_claim (s s' : State) (sender id secret : String) (hs : Inv s)
    (h : step s (.claim sender id secret) = .ok s') :
    ∃ c, AMap.get? s.htlcs id = some c ∧ ∀ d,
      (supOf s' d).elapsed = (supOf s d).elapsed ∧
      (supOf s' d).tlCurrent = (supOf s d).tlCurrent + tlAdd s c d :=
  tl_stepClaim hs h

/-- a create changes neither the window state nor the current supply -/
theorem create_keeps_window (s s' : State) (sender to : Addr) (coins : Coins) (lock : String) (ts tl : Nat)
    (transfer : Bool) (h : step s (.create sender to coins lock ts tl transfer) = .ok s') (d : Denom) :
    (supOf s' d).elapsed = (supOf s d).elapsed ∧ (supOf s' d).tlCurrent = (supOf s d).tlCurrent ∧
    (supOf s' d).current = (supOf s d).current :=
  tl_stepCreate h d

/-! ### corollaries: what cannot fail -/

/-- **refund at expiry cannot fail**: for every queue entry of a state satisfying the invariant,
`RefundHTLC` succeeds and marks the contract refunded — the error swallowed at abci.go:26 is dead -/
theorem refund_cannot_fail (s : State) (h : Nat) (id : Id) (hs : Inv s) (hm : (h, id) ∈ s.queue) :
    ∃ c s1, AMap.get? s.htlcs id = some c ∧ c.state = .open ∧ c.expiration = h ∧ refundOne s id = .ok s1 ∧
      AMap.get? s1.htlcs id = some (refunded c s.height) ∧ s1.bank = payRefund s.bank c := by
  obtain ⟨c, s1, e⟩ := refundOne_due hs hm
  exact ⟨c, s1, e.get, e.isOpen, e.exp, e.run, by rw [e.htlcs, get?_set]; simp, e.bank⟩

/-- **a claim of an incoming transfer never fails on a limit**: while the limits hold (params
unchanged since the invariant was established) and the asset is still supported, a well-formed
claim with the right secret of an open incoming transfer is accepted -/
theorem claim_incoming_never_fails (s : State) (sender id secret : String) (c : Contract) (d : Denom) (n : Nat)
    (a : Asset) (hs : Inv s) (hl : LimitInv s) (hg : AMap.get? s.htlcs id = some c) (ho : c.state = .open)
    (ht : c.transfer = true) (hdir : c.direction = .incoming) (hamt : c.amount = [(d, n)])
    (ha : findAsset s.params d = some a) (hid : hexOk64 id = true) (hsec : hexOk64 secret = true)
    (hlk : genLock secret c.timestamp = c.hashLock) :
    ∃ s', step s (.claim sender id secret) = .ok s' := by
  obtain ⟨s', h⟩ := claimIncoming_succeeds (secret := secret) hs hl hg ho ht hdir hamt ha hid hsec
  refine ⟨s', ?_⟩
  simp only [step, hg, Option.map_some, Option.getD_some, hlk]
  exact h

end Irismod.Props.C04
