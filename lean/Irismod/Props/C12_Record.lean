/-
C12 (record slice) — the exported record store re-imports and preserves what users rely on,
for EVERY reachable store (`run {} ops`, any history of transactions / queries / blocks), over the
literal genesis model `Irismod.RecordGenesis` that the `record export` / `record reimport` lines of
`h_record -genesis` compare with the real ExportGenesis / ValidateGenesis / InitGenesis.

What holds (the ids excepted — finding F-gen-3, negation kept in `Props/C12.lean`):
* `record_reachable_is_import` — a reachable store IS an `InitGenesis` image: the `AddRecord` loop
  over the history's records in creation order. (Ids change across a round trip only because
  `ExportGenesis` lists the records in id order instead.)
* `record_roundtrip_succeeds` — the export validates and `InitGenesis` accepts it.
* `record_roundtrip_records` — tx hash / contents / creator survive as a multiset (`Perm`), as many
  records as before, and the counter is the number of records.
* `record_roundtrip_ids` — the new ids are `newIds 0 document`, a function of the exported document
  alone; the store is the document zipped with them and the i-th id answers with the i-th record.
* `record_no_record_lost` — a record is held (under some id) after the round trip iff it was before.
* `record_counter_preserved` — the counter itself is unchanged (no id clash along the history).
* `record_rounds_succeed`, `record_rounds` — round trips compose: after any number n of
  export → import rounds the store again exports a valid document that imports, and the records
  multiset, the exported documents (up to order), their length and the counter are what they were.
  NOT claimed: a list-level fixpoint of the exported document from the second round on — it is
  false (each round re-sorts by fresh SHA-256 ids; `Audit/C12_Record.lean` evaluates a witness).
* `record_ids_kept_when_ascending`, `record_single_keeps_id` — the positive side of F-gen-3: a
  store whose creation order is its id order (in particular a store with one record) is a fixpoint
  of the round trip, every id answers as before.
SHA-256 collision freedom enters as an explicit `Nodup (newIds …)` hypothesis, as in
`record_import_partial`.
-/
import Irismod.Proofs.RecordGenesisRounds
import Irismod.Spec.C12
import Irismod.Spec.C12_Record

namespace Irismod.Props.C12.Record
open Irismod Irismod.Record Irismod.RecordGenesis Irismod.Proofs.RecordGenesis
open Irismod.Proofs.GenesisList Irismod.Spec.C12.Record

theorem recsOk_reachable (ops : List Op) : RecsOk (run {} ops) := recsOk_run ops {} recsOk_empty

/-- **reachable stores are `InitGenesis` images**: the store after any history is what the
`AddRecord` loop of `InitGenesis` builds, on an empty store, from the records the history created,
listed in creation order — ids, bindings and counter included -/
theorem record_reachable_is_import (ops : List Op) : run {} ops = importFrom {} (created ops) :=
  run_eq_importFrom ops {}

/-- **export validates, import succeeds** for every reachable store, and the imported store is
`roundTrip` of it -/
theorem record_roundtrip_succeeds (ops : List Op) :
    validateGenesis (exportGenesis (run {} ops)) = .ok () ∧
    importGenesis (exportGenesis (run {} ops)) = .ok (roundTrip (run {} ops)) :=
  ⟨validate_export _ (recsOk_reachable ops), importGenesis_export (recsOk_reachable ops)⟩

/-- **records preserved as a multiset**: tx hash, contents and creator of every record survive
(with multiplicity), there are as many records as before, the counter is their number, and the
next export lists the same records up to order -/
theorem record_roundtrip_records (ops : List Op)
    (hnc : (newIds 0 (exportGenesis (run {} ops)).records).Nodup) :
    ((roundTrip (run {} ops)).recs.map (·.2)).Perm ((run {} ops).recs.map (·.2)) ∧
    (roundTrip (run {} ops)).recs.length = (run {} ops).recs.length ∧
    (roundTrip (run {} ops)).counter = UInt32.ofNat (run {} ops).recs.length ∧
    (exportGenesis (roundTrip (run {} ops))).records.Perm (exportGenesis (run {} ops)).records :=
  ⟨roundTrip_perm hnc, roundTrip_length hnc, roundTrip_counter _,
   rounds_export_perm 1 (fun k hk => by
     have : k = 0 := by omega
     subst this; exact hnc)⟩

/-- **ids re-derived deterministically**: the ids of the imported store are `newIds 0` of the
exported document (SHA-256 of each record followed by its position), nothing else enters; the
store is the document zipped with them, in document order, and the i-th id answers with the i-th
record -/
theorem record_roundtrip_ids (ops : List Op)
    (hnc : (newIds 0 (exportGenesis (run {} ops)).records).Nodup) :
    AMap.keys (roundTrip (run {} ops)).recs = newIds 0 (exportGenesis (run {} ops)).records ∧
    (roundTrip (run {} ops)).recs =
      (newIds 0 (exportGenesis (run {} ops)).records).zip (exportGenesis (run {} ops)).records ∧
    ∀ (i : Nat) (h1 : i < (newIds 0 (exportGenesis (run {} ops)).records).length)
      (h2 : i < (exportGenesis (run {} ops)).records.length),
      getRecord (roundTrip (run {} ops)) ((newIds 0 (exportGenesis (run {} ops)).records)[i]) =
        some ((exportGenesis (run {} ops)).records[i]) :=
  ⟨roundTrip_keys hnc, roundTrip_recs hnc, fun i h1 h2 => roundTrip_get hnc i h1 h2⟩

/-- **no record lost, none invented**: a record is readable (under some id) after the round trip
iff it was readable (under some id) before -/
theorem record_no_record_lost (ops : List Op)
    (hnc : (newIds 0 (exportGenesis (run {} ops)).records).Nodup) (r : Rec) :
    Holds (roundTrip (run {} ops)) r ↔ Holds (run {} ops) r := by
  have hk : NodupKeys (run {} ops).recs := by
    rw [record_reachable_is_import]; exact nodupKeys_importFrom _ _ nodupKeys_empty
  rw [holds_iff_mem (nodupKeys_roundTrip _), holds_iff_mem hk]
  exact (roundTrip_perm hnc).mem_iff

/-- **counter preserved**: with no id clash along the history (SHA-256 collision freedom for the
ids the history itself handed out) the counter after the round trip is the counter before -/
theorem record_counter_preserved (ops : List Op) (hc : (newIds 0 (created ops)).Nodup) :
    (roundTrip (run {} ops)).counter = (run {} ops).counter := by
  rw [roundTrip_counter, record_reachable_is_import, importFrom_counter, importFrom_empty_recs _ hc]
  show _ = (0 : UInt32) + _
  rw [UInt32.zero_add, List.length_zip, length_newIds, Nat.min_self]

/-- **round trips compose (acceptance)**: after any number of export → import rounds the store
again exports a document that validates and that `InitGenesis` accepts — no hypothesis -/
theorem record_rounds_succeed (ops : List Op) (n : Nat) :
    validateGenesis (exportGenesis (rounds n (run {} ops))) = .ok () ∧
    importGenesis (exportGenesis (rounds n (run {} ops))) = .ok (rounds (n + 1) (run {} ops)) :=
  ⟨validate_export _ (recsOk_rounds (recsOk_reachable ops) n),
   importGenesis_export (recsOk_rounds (recsOk_reachable ops) n)⟩

/-- **round trips compose (content)**: over any number n of rounds (no re-derived ids clashing in
any of them) the records multiset is the original one, the exported document is a permutation of the
first export with the same length, and from the first round on the counter is the number of
records -/
theorem record_rounds (ops : List Op) (n : Nat) (hnc : NoClashRounds n (run {} ops)) :
    ((rounds n (run {} ops)).recs.map (·.2)).Perm ((run {} ops).recs.map (·.2)) ∧
    (exportGenesis (rounds n (run {} ops))).records.Perm (exportGenesis (run {} ops)).records ∧
    (exportGenesis (rounds n (run {} ops))).records.length = (exportGenesis (run {} ops)).records.length ∧
    (rounds (n + 1) (run {} ops)).counter = UInt32.ofNat (run {} ops).recs.length :=
  ⟨rounds_perm n hnc, rounds_export_perm n hnc, (rounds_export_perm n hnc).length_eq, rounds_counter n hnc⟩

/-- **ids kept when creation order = id order**: if the ids the history handed out (counters
0, 1, 2, … in creation order) ascend in byte order, the round trip gives back the very same store —
every id answers as before (`IdsPreserved`, the full C12 statement for this store) -/
theorem record_ids_kept_when_ascending (ops : List Op) (h : Ascending (newIds 0 (created ops))) :
    roundTrip (run {} ops) = run {} ops ∧ IdsPreserved (run {} ops) := by
  have hfix : roundTrip (run {} ops) = run {} ops := by
    rw [record_reachable_is_import]; exact roundTrip_of_ascending _ h
  refine ⟨hfix, run {} ops, ?_, fun _ => rfl⟩
  have := (record_roundtrip_succeeds ops).2
  rw [hfix] at this
  exact this

/-- **a single record keeps its id**: a history that created at most one record round-trips to
the same store -/
theorem record_single_keeps_id (ops : List Op) (h : (created ops).length ≤ 1) :
    roundTrip (run {} ops) = run {} ops ∧ IdsPreserved (run {} ops) := by
  apply record_ids_kept_when_ascending
  unfold Ascending
  match hc : created ops, h with
  | [], _ => simp [newIds]
  | [r], _ => simp [newIds]
  | _ :: _ :: _, h => simp at h

end Irismod.Props.C12.Record
