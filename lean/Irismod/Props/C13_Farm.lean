/-
C13 (farm slice) — the farm EndBlocker never aborts, handles each ending pool exactly once,
and the active-pool queue mirrors the pools that have not ended.  All statements hold for every
reachable state (`Inv`, `Proofs.Farm.inv_run`).
-/
import Irismod.Proofs.FarmWitness
import Irismod.Proofs.FarmCpSettle

namespace Irismod.Props.C13Farm
open Irismod Irismod.Sdk Irismod.Farm Irismod.Spec Irismod.Spec.C13Farm Irismod.Proofs.Farm

/-- **queue hygiene**: along every history every queue entry names
an existing pool at exactly its end height, never in the past; a pool has at most one entry;
every pool whose end height lies ahead has its entry. -/
theorem queue_ok_run (s0 : State) (ops : List Op) (hg : C05.Genesis s0) (hh : 0 ≤ s0.height) :
    QueueOK (run s0 ops) :=
  (inv_run ops s0 (inv_genesis hg hh)).core.queue

/-- **totality**: in a state of the bundle the farm EndBlocker runs to completion — no
rejection is left half-way, no panic — provided `rewardPerShare` of the pools due now stays
inside the 315-bit range of `LegacyDec` (`DueInRange`; amounts below 2^190 always do). -/
theorem end_block_total (s : State) (hi : Inv s) (hr : DueInRange s) : ∃ s', endBlocker s = .ok s' :=
  endBlocker_ok hi hr

/-- … and a whole run of blocks never reports a panic. -/
theorem end_blocks_total : ∀ (n : Nat) (s : State), Inv s →
    (∀ k s', k < n → s' = (endBlocks k s).1 → DueInRange s') → (endBlocks n s).2 = false
  | 0, _, _, _ => rfl
  | n + 1, s, hi, hr => by
    obtain ⟨s1, h1⟩ := endBlocker_ok hi (hr 0 s (by omega) rfl)
    unfold endBlocks
    rw [h1]
    simp only
    rcases endBlocker_inv hi with ⟨w, e⟩ | ⟨s2, e, i2, _⟩
    · rw [h1] at e; cases e
    · rw [h1] at e; cases e
      apply end_blocks_total n _ i2
      intro k s' hk hs'
      apply hr (k + 1) s' (by omega)
      rw [hs']
      show _ = (endBlocks (k + 1) s).1
      conv => rhs; unfold endBlocks; rw [h1]

/-- **each ending pool is handled, the others are not touched**: after the EndBlocker at height
`h`, every pool that had a queue entry at `h` has ended at `h` with its budget returned (all
rules `remaining = 0`, refund booked), its entry is gone, every other entry and every other
pool is unchanged, and the bundle holds at height `h + 1`. -/
theorem end_block_handles_due (s s' : State) (hi : Inv s) (h : endBlocker s = .ok s') :
    Inv { s' with height := s'.height + 1 } ∧ s'.height = s.height ∧
    (∀ e, e ∈ s'.queue ↔ e ∈ s.queue ∧ e.1 ≠ s.height) ∧
    (∀ id, (s.height, id) ∉ s.queue → getPool s' id = getPool s id) ∧
    (∀ id, (s.height, id) ∈ s.queue → Handled s' s.height id) := by
  rcases endBlocker_inv hi with ⟨w, e⟩ | ⟨s2, e, i2, h2, q2, o2, d2⟩
  · rw [h] at e; cases e
  · rw [h] at e; cases e
    exact ⟨i2, h2, q2, o2, d2⟩

/-- **exactly once**: in every state of the bundle a rule is refunded at most once, and a pool
handled by the EndBlocker has been refunded exactly once. -/
theorem handled_exactly_once (s s' : State) (hi : Inv s) (h : endBlocker s = .ok s') (id : PoolId)
    (hdue : (s.height, id) ∈ s.queue) :
    ∃ pf, getPool s' id = some pf ∧ ∀ r ∈ pf.rules, r.nRefund = 1 ∧ r.remaining = 0 := by
  obtain ⟨i2, _, _, _, d2⟩ := end_block_handles_due s s' hi h
  obtain ⟨pf, hpf, _, hall⟩ := d2 id hdue
  refine ⟨pf, hpf, ?_⟩
  intro r hr
  have hg : getPool { s' with height := s'.height + 1 } id = some pf := hpf
  have := (i2.core.ghost id pf hg r hr).2.1
  have := hall r hr
  exact ⟨by omega, this.1⟩

/-- **gov's EndBlocker with the farm hooks never aborts**: in every state of the bundles the
processing of a proposal — deposits refunded, the handler of a passed proposal run on its cache
context, the hook called — runs to completion, for every proposal id, whatever its status. -/
theorem gov_step_total (s : State) (pid : Nat) (hi : Inv s) (hc : CpInv s) :
    (govVote s pid true).2 = false ∧ (govVote s pid false).2 = false ∧ (govFailDeposit s pid).2 = false :=
  ⟨(govVote_spec pid true hc hi.cpu).1, (govVote_spec pid false hc hi.cpu).1, (govFailDeposit_spec pid hc hi.cpu).1⟩

/-- … so the three operations are accepted block steps of the model and keep both bundles -/
theorem gov_step_ok (s : State) (pid : Nat) (hi : Inv s) (hc : CpInv s) :
    (∃ s', step s (.cpPass pid) = .ok s') ∧ (∃ s', step s (.cpReject pid) = .ok s') ∧
    (∃ s', step s (.cpFailDeposit pid) = .ok s') := by
  obtain ⟨h1, h2, h3⟩ := gov_step_total s pid hi hc
  exact ⟨⟨(govVote s pid true).1, by simp [step, h1]⟩, ⟨(govVote s pid false).1, by simp [step, h2]⟩,
    ⟨(govFailDeposit s pid).1, by simp [step, h3]⟩⟩

/-- a pool created from the community pool is refunded by the EndBlocker like any other: the
queue hygiene, totality and exactly-once statements above are about every pool of the bundle; its
refund credits the community pool (`Props.C06.refund_community_pool`) -/
theorem cp_pool_is_queued (s : State) (hi : Inv s) (id : PoolId) (p : Pool) (hp : getPool s id = some p)
    (hlt : s.height < p.endH) : (p.endH, id) ∈ s.queue := hi.core.queue.2.1 id p hp hlt

set_option maxRecDepth 100000 in
/-- regression witness of the fixed finding F-farm-2: after the end-block top-up history the
pool that was due (at height 15, the end height the repaired `AdjustPool` keeps) has been
handled — every rule refunded exactly once, nothing left, queue empty. -/
theorem end_topup_history_handled :
    ((getPool (run w2Genesis w2Ops) "farm-1").map (fun p => (p.endH, p.rules.all (fun r => r.remaining == 0 && r.nRefund == 1)))) = some (15, true)
    ∧ (run w2Genesis w2Ops).queue = [] := by
  decide

end Irismod.Props.C13Farm
