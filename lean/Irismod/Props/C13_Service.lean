/-
C13 (service slice) — the end block of the service scheduler never halts and handles each due
queue entry exactly once; queue entries and the contexts awaiting them correspond.
Headline theorems about the model `Irismod.Service` (every state, every operation, every history).
-/
import Irismod.Proofs.ServiceNoStale

namespace Irismod.Props.C13S
open Irismod Irismod.Sdk Irismod.Service Irismod.Spec.C13S Irismod.Proofs.Service

/-- every operation of a history creates a context id that is not in use (context ids are
`tmhash(tx bytes) ‖ per-block index`: modulo SHA-256 collisions and the uniqueness of transactions) -/
def FreshRun : State → List Op → Prop
  | _, [] => True
  | s, op :: rest => FreshOp { s with cb := [] } op ∧ FreshRun (apply s op) rest

/-- a chain on which the scheduler is empty -/
structure EmptySched (s : State) : Prop where
  newQ : s.newQ = []
  newH : s.newH = []
  expQ : s.expQ = []
  expH : s.expH = []
  active : s.active = []
  ctxs : s.ctxs = []

theorem wf_empty {s : State} (e : EmptySched s) : WF s := by
  refine ⟨?_, ?_, ?_, ?_, ?_, ?_, ?_, ?_, ?_⟩
  · rw [e.newQ, e.newH]
    constructor
    · intro _ _ h; cases h
    · intro _ _ h; simp [AMap.get?] at h
  · rw [e.expQ, e.expH]
    constructor
    · intro _ _ h; cases h
    · intro _ _ h; simp [AMap.get?] at h
  · intro id h; rw [e.newH] at h; simp [AMap.contains, AMap.get?] at h
  · intro id h
    rw [e.newH, e.expH] at h
    simp [AMap.contains, AMap.get?] at h
  · intro r h; rw [e.active] at h; cases h
  · rw [e.active]; simp
  · rw [e.newQ]; simp
  · rw [e.expQ]; simp
  · intro id c h; rw [e.ctxs] at h; simp [AMap.get?] at h

theorem wf_apply {s : State} {op : Op} (hs : WF s) (hf : FreshOp { s with cb := [] } op) : WF (apply s op) := by
  unfold apply step
  have h0 : WF { s with cb := [] } := hs.of_same ⟨rfl, rfl, rfl, rfl, rfl, rfl, rfl⟩
  cases h : stepCore { s with cb := [] } op with
  | ok s' => exact WF_stepCore h0 hf h
  | error e => exact h0

/-- **the scheduler invariant over all histories** -/
theorem wf_run : ∀ (ops : List Op) (s : State), WF s → FreshRun s ops → WF (run s ops)
  | [], _, hs, _ => hs
  | op :: rest, s, hs, hf => wf_run rest (apply s op) (wf_apply hs hf.1) hf.2

theorem wf_reachable (s : State) (e : EmptySched s) (ops : List Op) (hf : FreshRun s ops) : WF (run s ops) :=
  wf_run ops s (wf_empty e) hf

/-! ### what the invariant says about the queues -/

/-- queue entries and per-context markers describe the same sets, in both queues -/
theorem queue_entries_match_markers (s : State) (e : EmptySched s) (ops : List Op) (hf : FreshRun s ops) :
    MarkersAgree (run s ops).newQ (run s ops).newH ∧ MarkersAgree (run s ops).expQ (run s ops).expH :=
  ⟨(wf_reachable s e ops hf).newM, (wf_reachable s e ops hf).expM⟩

/-- a context has at most one entry per queue (and no duplicates): two entries for one context are the same entry -/
theorem one_entry_per_context {s : State} (hs : WF s) (id : CtxId) (h1 h2 : Int) :
    ((h1, id) ∈ s.newQ → (h2, id) ∈ s.newQ → h1 = h2) ∧ ((h1, id) ∈ s.expQ → (h2, id) ∈ s.expQ → h1 = h2) := by
  constructor
  · intro a b
    have := (hs.newM.1 _ _ a).symm.trans (hs.newM.1 _ _ b)
    exact Option.some.inj this
  · intro a b
    have := (hs.expM.1 _ _ a).symm.trans (hs.expM.1 _ _ b)
    exact Option.some.inj this

/-- a context is never in both queues -/
theorem not_in_both_queues {s : State} (hs : WF s) (id : CtxId) (h1 h2 : Int) :
    (h1, id) ∈ s.newQ → (h2, id) ∉ s.expQ := by
  intro a b
  have hn := (contains_iff _ _).mpr ⟨_, hs.newM.1 _ _ a⟩
  have := hs.excl id hn
  rw [contains_false_iff] at this
  rw [hs.expM.1 _ _ b] at this; cases this

/-- every queue entry refers to a stored context -/
theorem entries_refer_to_contexts {s : State} (hs : WF s) (h : Int) (id : CtxId) :
    ((h, id) ∈ s.newQ ∨ (h, id) ∈ s.expQ) → ∃ c, AMap.get? s.ctxs id = some c := by
  intro hq
  rw [← contains_iff]
  apply hs.live
  rcases hq with hq | hq
  · exact Or.inl ((contains_iff _ _).mpr ⟨_, hs.newM.1 _ _ hq⟩)
  · exact Or.inr ((contains_iff _ _).mpr ⟨_, hs.expM.1 _ _ hq⟩)

/-- every active request awaits exactly the expiry of its context's running batch: its context is
stored, that batch is running, and the context's expired-batch entry is at the request's expiration height -/
theorem active_request_awaits_expiry {s : State} (hs : WF s) (rid : ReqId) (hr : rid ∈ s.active) :
    ∃ rq c, AMap.get? s.reqs rid = some rq ∧ AMap.get? s.ctxs rid.ctx = some c ∧ c.batchState = .running ∧
      c.batchCounter = rid.batch ∧ (rq.expH, rid.ctx) ∈ s.expQ := by
  obtain ⟨rq, c, h1, _, _, h4, h5, h6, h7⟩ := hs.act rid hr
  exact ⟨rq, c, h1, h4, h5, h6, hs.expM.2 _ _ h7⟩

/-! ### the end block -/

/-- the end block is total: it never aborts -/
theorem end_block_total (s : State) (dt : Int) : step s (.next dt) = .ok (nextBlock { s with cb := [] } dt) := rfl

/-- every expired-batch entry of the current height is handled in this block: none is left, the
other entries are untouched -/
theorem expired_entries_processed {s : State} (hs : WF s) (id : CtxId) : (s.height, id) ∉ (expiredPhase s).expQ :=
  (WF_expiredPhase hs).2.2 id

/-- handling one expired-batch entry removes exactly that entry (exactly once: it cannot be met again) -/
theorem expire_removes_exactly_its_entry {s : State} (hs : WF s) (id : CtxId) (hq : (s.height, id) ∈ s.expQ) :
    ∀ e, e ∈ (expireCtx s id).expQ ↔ e ∈ s.expQ ∧ e ≠ (s.height, id) :=
  (WF_expireCtx hs id (hs.expM.1 _ _ hq)).2.2

/-- the new-batch handler never adds a new-batch entry and leaves the entries of other contexts alone -/
theorem new_batch_handler_local {s : State} (hs : WF s) (id : CtxId) (hq : (s.height, id) ∈ s.newQ) :
    (∀ e, e ∈ (newBatch s id).newQ → e ∈ s.newQ) ∧
    (∀ id', id' ≠ id → AMap.get? (newBatch s id).newH id' = AMap.get? s.newH id') :=
  ⟨(WF_newBatch hs id (hs.newM.1 _ _ hq)).2.2.1, (WF_newBatch hs id (hs.newM.1 _ _ hq)).2.2.2⟩

/-- every new-batch entry of the current height is handled in this block, whatever its handler decides
(since /repo f0f40e8 also when no exchange rate is available): none is left, none is added -/
theorem new_batch_entries_processed (s : State) (e : Int × CtxId) (h : e ∈ (newPhase s).newQ) :
    e ∈ s.newQ ∧ e.1 ≠ s.height :=
  newPhase_newQ s e h

/-- handling one new-batch entry removes exactly that entry -/
theorem new_batch_removes_exactly_its_entry (s : State) (id : CtxId) :
    (newBatch s id).newQ = s.newQ.filter (fun y => decide (y ≠ (s.height, id))) :=
  newBatch_newQ s id

/-! ### no entry is ever in the past -/

/-- module-level entry points are used the way the code base uses them (a module context is created under a
module name, so `ValidateRequest` runs; a keeper-level update carries a non-negative timeout) -/
def ValidatedHistory (ops : List Op) : Prop := ∀ op ∈ ops, opValidated op

theorem ns_empty {s : State} (e : EmptySched s) : NS s := by
  refine ⟨wf_empty e, ?_, ?_⟩
  · intro id c h; rw [e.ctxs] at h; simp [AMap.get?] at h
  · constructor
    · intro h id hm; rw [e.newQ] at hm; cases hm
    · intro h id hm; rw [e.expQ] at hm; cases hm

theorem ns_apply {s : State} {op : Op} (hs : NS s) (hf : FreshOp { s with cb := [] } op) (hv : opValidated op) :
    NS (apply s op) := by
  unfold apply step
  have h0 : NS { s with cb := [] } :=
    ⟨hs.1.of_same ⟨rfl, rfl, rfl, rfl, rfl, rfl, rfl⟩, (CQ.of_same (s' := { s with cb := [] }) hs.2 rfl rfl rfl rfl).1,
     (CQ.of_same (s' := { s with cb := [] }) hs.2 rfl rfl rfl rfl).2⟩
  cases h : stepCore { s with cb := [] } op with
  | ok s' => exact NS_stepCore h0 hf hv h
  | error e => exact h0

theorem ns_run : ∀ (ops : List Op) (s : State), NS s → FreshRun s ops → ValidatedHistory ops → NS (run s ops)
  | [], _, hs, _, _ => hs
  | op :: rest, s, hs, hf, hv =>
    ns_run rest (apply s op) (ns_apply hs hf.1 (hv op (List.mem_cons_self ..))) hf.2
      (fun o ho => hv o (List.mem_cons_of_mem _ ho))

/-- **no stale entries, after every history**: every new-batch and expired-batch entry is for the current
block or a later one, so the end blocker will meet it (the statement F-svc-3 used to refute for the new-batch
queue; holds since /repo f0f40e8) -/
theorem no_stale_entries (s : State) (e : EmptySched s) (ops : List Op) (hf : FreshRun s ops) (hv : ValidatedHistory ops) :
    NoStale (run s ops) :=
  (ns_run ops s (ns_empty e) hf hv).2.2

/-- stored contexts always have a positive timeout, and a frequency of at least the timeout when repeated -/
theorem contexts_well_timed (s : State) (e : EmptySched s) (ops : List Op) (hf : FreshRun s ops) (hv : ValidatedHistory ops)
    (id : CtxId) (c : Ctx) (hg : AMap.get? (run s ops).ctxs id = some c) :
    0 < c.timeout ∧ (c.repeated = true → c.timeout ≤ (c.freq : Int)) :=
  (ns_run ops s (ns_empty e) hf hv).2.1 id c hg

/-- the end blocker leaves only entries of later blocks: everything due now has been handled, and whatever
the handlers queue (next batch of a repeated context, expiration of a new batch) lies strictly ahead -/
theorem end_block_leaves_only_future_entries {s : State} (hs : NS s) :
    (∀ h id, (h, id) ∈ (endBlock s).newQ → s.height < h) ∧ (∀ h id, (h, id) ∈ (endBlock s).expQ → s.height < h) := by
  obtain ⟨_, e2, e3⟩ := endBlock_stale hs.1 hs.2.1 ((noStale_iff s).mp hs.2.2)
  exact ⟨fun h id hm => e2 (h, id) hm, fun h id hm => e3 (h, id) hm⟩

end Irismod.Props.C13S
