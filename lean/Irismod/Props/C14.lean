/-
C14 — NFT: each token has one owner; only owners and class creators can act.
Headline theorems about the model `Irismod.Nft` (every state, every operation, every history).
The SDK x/nft keeper is part of the model (modelled, not verified).
-/
import Irismod.Proofs.Nft

namespace Irismod.Props.C14
open Irismod Irismod.Nft Irismod.Spec.C14 Irismod.Proofs.Nft

/-! ### The invariant holds in every reachable state -/

theorem inv_init : Inv ({} : State) := by
  constructor
  · intro c t; rfl
  · intro a c t
    simp [idxHas, ownerOf, Tbl.has, Tbl.get, AMap.get?]
  · intro c t h; simp [hasNFT, tokenOf, Tbl.get, AMap.get?] at h
  · intro c; simp [supplyOf, tokenCount, Tbl.count, AMap.sumIf, AMap.getD, AMap.get?]
  · intro c; rfl

theorem hasClass_of_get {s : State} {c cl} (h : AMap.get? s.classes c = some cl) : hasClass s c = true := by
  simp [hasClass, AMap.contains, h]

theorem inv_putToken {s : State} (hs : Inv s) {c t} (r : TokenRec) (hc : hasClass s c = true)
    (hn : hasNFT s c t = true) : Inv { s with tokens := Tbl.put s.tokens (c, t) r } := by
  apply inv_nkUpdate hs (c := c) (t := t) (r := r)
  unfold nkUpdate; simp [hc, hn]; rfl

theorem inv_moveOwner {s : State} (hs : Inv s) {c t o} (rc : Addr) (hc : hasClass s c = true)
    (hn : hasNFT s c t = true) (ho : ownerOf s c t = some o) :
    Inv { s with owners := Tbl.put (Tbl.del s.owners (c, t)) (c, t) rc,
                 idx := Tbl.put (Tbl.del s.idx (o, c, t)) (rc, c, t) () } := by
  apply inv_nkTransfer hs (c := c) (t := t) (rc := rc)
  unfold nkTransfer; simp [hc, hn, ho]; rfl

/-- one accepted message preserves the invariant -/
theorem inv_step (s s' : State) (op : Op) (hs : Inv s) (h : step s op = .ok s') : Inv s' := by
  cases op with
  | issue sender id mr ur name symbol schema desc uri uriHash data =>
    obtain ⟨_, _, rfl⟩ := stepIssue_ok h
    exact inv_setClass hs _ _
  | mint sender rcpt c t name uri uriHash data =>
    obtain ⟨_, cl, _, _, hm⟩ := stepMint_ok h
    exact inv_nkMint hs hm
  | edit sender c t name uri uriHash data =>
    obtain ⟨_, cl, hcl, _, ho, hr⟩ := stepEdit_ok h
    rcases hr with rfl | ⟨r, _, rfl⟩
    · exact hs
    · exact inv_putToken hs _ (hasClass_of_get hcl) (has_of_owner hs ho)
  | transfer sender rcpt c t name uri uriHash data =>
    obtain ⟨_, r, cl, _, ho, hcl, _, tk, htk, rfl⟩ := stepTransfer_ok h
    have hc := hasClass_of_get hcl
    have hn := has_of_owner hs ho
    rcases htk with rfl | ⟨_, rfl⟩
    · exact inv_moveOwner hs rcpt hc hn ho
    · have h1 := inv_putToken hs (applyChanges r name uri uriHash data) hc hn
      have hn1 : hasNFT { s with tokens := Tbl.put s.tokens (c, t) (applyChanges r name uri uriHash data) } c t = true := by
        simp [hasNFT, tokenOf, get_put]
      exact inv_moveOwner h1 rcpt hc hn1 ho
  | burn sender c t =>
    simp only [step] at h
    unfold stepBurn at h
    split at h; · cases h
    split at h; · cases h
    exact inv_nkBurn hs h
  | transferDenom sender rcpt c =>
    obtain ⟨_, cl, _, _, rfl⟩ := stepTransferDenom_ok h
    exact inv_setClass hs _ _

theorem inv_apply (s : State) (op : Op) (hs : Inv s) : Inv (apply s op) := by
  unfold apply
  cases h : step s op with
  | ok s' => exact inv_step s s' op hs h
  | error e => exact hs

/-- **C14(a)** the invariant survives every history of messages, accepted or rejected, by anybody -/
theorem inv_run (s : State) (ops : List Op) (hs : Inv s) : Inv (run s ops) := by
  induction ops generalizing s with
  | nil => exact hs
  | cons op rest ih => exact ih (apply s op) (inv_apply s op hs)

/-- … in particular in every state reachable from the empty chain. -/
theorem inv_reachable (ops : List Op) : Inv (run {} ops) := inv_run {} ops inv_init

/-! ### Every token has exactly one owner -/

/-- **C14(b)** a live token has an owner `a`; the owner index lists it under `a` and under nobody else -/
theorem one_owner (s : State) (hs : Inv s) (c : ClassId) (t : TokenId) (h : hasNFT s c t = true) :
    ∃ a, ownerOf s c t = some a ∧ idxHas s a c t = true ∧ ∀ b, idxHas s b c t = true → b = a := by
  obtain ⟨a, ha⟩ := owner_some_of_has hs h
  refine ⟨a, ha, (hs.idx_owner a c t).mpr ha, ?_⟩
  intro b hb
  have := (hs.idx_owner b c t).mp hb
  rw [ha] at this
  cases this; rfl

/-- no owner without a token: owner keys and index entries only for live tokens of existing classes -/
theorem no_ghost_owner (s : State) (hs : Inv s) (a : Addr) (c : ClassId) (t : TokenId)
    (h : idxHas s a c t = true ∨ ownerOf s c t = some a) : hasNFT s c t = true ∧ hasClass s c = true := by
  have ho : ownerOf s c t = some a := by
    rcases h with h | h
    · exact (hs.idx_owner a c t).mp h
    · exact h
  have hn := has_of_owner hs ho
  exact ⟨hn, hs.tok_class c t hn⟩

theorem one_owner_reachable (ops : List Op) (c : ClassId) (t : TokenId) (h : hasNFT (run {} ops) c t = true) :
    ∃ a, ownerOf (run {} ops) c t = some a ∧ idxHas (run {} ops) a c t = true ∧
      ∀ b, idxHas (run {} ops) b c t = true → b = a :=
  one_owner _ (inv_reachable ops) c t h

/-! ### supply(class) = number of its tokens = Σ over owners of balances -/

/-- **C14(c)** the uint64 supply counter equals the number of live tokens (below the counter's width) -/
theorem supply_eq_count (s : State) (hs : Inv s) (c : ClassId) (hlt : tokenCount s c < u64) :
    supplyOf s c = tokenCount s c := by
  have := hs.supply_count c
  rw [this]; exact Nat.mod_eq_of_lt hlt

/-- the accounts listed cover every account that appears in the owner index -/
def Covers (accts : List Addr) (s : State) : Prop := ∀ e ∈ s.idx, e.2.isSome = true → e.1.1 ∈ accts

/-- **C14(c)** Σ over any duplicate-free list of accounts that covers the owners of
`balanceOf` = number of live tokens of the class -/
theorem balances_sum (s : State) (hs : Inv s) (accts : List Addr) (hnd : accts.Nodup) (hcov : Covers accts s)
    (c : ClassId) : (accts.map fun a => balanceOf s a c).sum = tokenCount s c := by
  rw [← hs.idx_count c]
  unfold balanceOf idxCount Tbl.count
  have h1 := sumIf_split_by accts hnd (fun k : Addr × ClassId × TokenId => k.1)
    (fun k => decide (k.2.1 = c)) (Tbl.one (V := Unit)) s.idx
  rw [h1]
  apply sumIf_congr
  intro e he
  cases hv : e.2 with
  | none => simp [Tbl.one]
  | some u =>
    have := hcov e he (by rw [hv]; rfl)
    simp [this]

/-- the accounts that receive a token somewhere in a history -/
def recipients : List Op → List Addr
  | [] => []
  | .mint _ r _ _ _ _ _ _ :: rest => r :: recipients rest
  | .transfer _ r _ _ _ _ _ _ :: rest => r :: recipients rest
  | _ :: rest => recipients rest

theorem covers_put {accts : List Addr} {m : Tbl (Addr × ClassId × TokenId) Unit} {a c t}
    (hm : ∀ e ∈ m, e.2.isSome = true → e.1.1 ∈ accts) (ha : a ∈ accts) :
    ∀ e ∈ Tbl.put m (a, c, t) (), e.2.isSome = true → e.1.1 ∈ accts := by
  intro e he hsome
  rcases mem_set he with h | h
  · exact hm e h hsome
  · subst h; exact ha

theorem covers_del {accts : List Addr} {m : Tbl (Addr × ClassId × TokenId) Unit} {k}
    (hm : ∀ e ∈ m, e.2.isSome = true → e.1.1 ∈ accts) :
    ∀ e ∈ Tbl.del m k, e.2.isSome = true → e.1.1 ∈ accts := by
  intro e he hsome
  rcases mem_set he with h | h
  · exact hm e h hsome
  · subst h; cases hsome

/-- owners only ever come from the recipients of mints and transfers -/
theorem covers_apply (accts : List Addr) (s : State) (op : Op) (hcov : Covers accts s)
    (hr : ∀ r ∈ recipients [op], r ∈ accts) : Covers accts (apply s op) := by
  unfold apply
  cases h : step s op with
  | error e => exact hcov
  | ok s' =>
    cases op with
    | issue sender id mr ur name symbol schema desc uri uriHash data =>
      obtain ⟨_, _, rfl⟩ := stepIssue_ok h; exact hcov
    | mint sender rcpt c t name uri uriHash data =>
      obtain ⟨_, _, _, _, hm⟩ := stepMint_ok h
      obtain ⟨_, _, rfl⟩ := nkMint_ok hm
      exact covers_put hcov (hr rcpt (by simp [recipients]))
    | edit sender c t name uri uriHash data =>
      obtain ⟨_, _, _, _, _, hres⟩ := stepEdit_ok h
      rcases hres with rfl | ⟨_, _, rfl⟩ <;> exact hcov
    | transfer sender rcpt c t name uri uriHash data =>
      obtain ⟨_, _, _, _, _, _, _, tk, _, rfl⟩ := stepTransfer_ok h
      exact covers_put (covers_del hcov) (hr rcpt (by simp [recipients]))
    | burn sender c t =>
      obtain ⟨_, _, _, rfl⟩ := stepBurn_ok h
      exact covers_del hcov
    | transferDenom sender rcpt c =>
      obtain ⟨_, _, _, _, rfl⟩ := stepTransferDenom_ok h; exact hcov

theorem recipients_cons_sub (op : Op) (rest : List Op) (accts : List Addr)
    (hr : ∀ r ∈ recipients (op :: rest), r ∈ accts) :
    (∀ r ∈ recipients [op], r ∈ accts) ∧ (∀ r ∈ recipients rest, r ∈ accts) := by
  cases op with
  | mint sender rcpt c t name uri uriHash data =>
    refine ⟨fun r h => hr r ?_, fun r h => hr r ?_⟩
    · simp only [recipients, List.mem_cons, List.not_mem_nil, or_false] at h
      simp [recipients, h]
    · simp [recipients, h]
  | transfer sender rcpt c t name uri uriHash data =>
    refine ⟨fun r h => hr r ?_, fun r h => hr r ?_⟩
    · simp only [recipients, List.mem_cons, List.not_mem_nil, or_false] at h
      simp [recipients, h]
    · simp [recipients, h]
  | issue sender id mr ur name symbol schema desc uri uriHash data =>
    exact ⟨fun r h => by simp [recipients] at h, fun r h => hr r (by simpa [recipients] using h)⟩
  | edit sender c t name uri uriHash data =>
    exact ⟨fun r h => by simp [recipients] at h, fun r h => hr r (by simpa [recipients] using h)⟩
  | burn sender c t =>
    exact ⟨fun r h => by simp [recipients] at h, fun r h => hr r (by simpa [recipients] using h)⟩
  | transferDenom sender rcpt c =>
    exact ⟨fun r h => by simp [recipients] at h, fun r h => hr r (by simpa [recipients] using h)⟩

theorem covers_run (accts : List Addr) (s : State) (ops : List Op) (hcov : Covers accts s)
    (hr : ∀ r ∈ recipients ops, r ∈ accts) : Covers accts (run s ops) := by
  induction ops generalizing s with
  | nil => exact hcov
  | cons op rest ih =>
    obtain ⟨h1, h2⟩ := recipients_cons_sub op rest accts hr
    exact ih (apply s op) (covers_apply accts s op hcov h1) h2

/-- **C14(c), histories**: after any history from the empty chain, for every class, the supply
counter is the number of live tokens (mod 2^64) and the balances of any duplicate-free list of
accounts containing the history's recipients add up to the number of live tokens -/
theorem supply_count_balances_reachable (ops : List Op) (accts : List Addr) (hnd : accts.Nodup)
    (hr : ∀ r ∈ recipients ops, r ∈ accts) (c : ClassId) :
    supplyOf (run {} ops) c = tokenCount (run {} ops) c % u64 ∧
    (accts.map fun a => balanceOf (run {} ops) a c).sum = tokenCount (run {} ops) c :=
  ⟨(inv_reachable ops).supply_count c,
   balances_sum _ (inv_reachable ops) accts hnd
     (covers_run accts {} ops (fun e he => by cases he) hr) c⟩

/-! ### Only the current owner transfers, edits or burns; a rejected message changes nothing -/

/-- **C14(d)** -/
theorem transfer_only_owner (s s' : State) (sender rcpt c t name uri uriHash data)
    (h : step s (.transfer sender rcpt c t name uri uriHash data) = .ok s') :
    ownerOf s c t = some sender ∧ ownerOf s' c t = some rcpt := by
  obtain ⟨_, r, cl, _, ho, _, _, tk, _, rfl⟩ := stepTransfer_ok h
  exact ⟨ho, by simp [ownerOf, get_put]⟩

theorem edit_only_owner (s s' : State) (sender c t name uri uriHash data)
    (h : step s (.edit sender c t name uri uriHash data) = .ok s') :
    ownerOf s c t = some sender ∧ ownerOf s' c t = some sender := by
  obtain ⟨_, cl, _, _, ho, hr⟩ := stepEdit_ok h
  rcases hr with rfl | ⟨r, _, rfl⟩
  · exact ⟨ho, ho⟩
  · exact ⟨ho, ho⟩

theorem burn_only_owner (s s' : State) (sender c t) (h : step s (.burn sender c t) = .ok s') :
    ownerOf s c t = some sender ∧ hasNFT s' c t = false ∧ ownerOf s' c t = none := by
  obtain ⟨_, ho, _, rfl⟩ := stepBurn_ok h
  exact ⟨ho, by simp [hasNFT, tokenOf, get_del], by simp [ownerOf, get_del]⟩

/-- a rejected message changes nothing (the chain-level step discards the cache) -/
theorem rejected_unchanged (s : State) (op : Op) (e : Err) (h : step s op = .error e) : apply s op = s := by
  unfold apply; rw [h]

/-- transfer, edit and burn by anybody but the recorded owner are rejected and leave the state unchanged -/
theorem nonowner_rejected (s : State) (sender : Addr) (c : ClassId) (t : TokenId)
    (hne : ownerOf s c t ≠ some sender) :
    (∀ rcpt name uri uriHash data, (step s (.transfer sender rcpt c t name uri uriHash data)).isOk = false ∧
        apply s (.transfer sender rcpt c t name uri uriHash data) = s) ∧
    (∀ name uri uriHash data, (step s (.edit sender c t name uri uriHash data)).isOk = false ∧
        apply s (.edit sender c t name uri uriHash data) = s) ∧
    ((step s (.burn sender c t)).isOk = false ∧ apply s (.burn sender c t) = s) := by
  refine ⟨?_, ?_, ?_⟩
  · intro rcpt name uri uriHash data
    cases h : step s (.transfer sender rcpt c t name uri uriHash data) with
    | ok s' => exact absurd (transfer_only_owner _ _ _ _ _ _ _ _ _ _ h).1 hne
    | error e => exact ⟨rfl, rejected_unchanged _ _ _ h⟩
  · intro name uri uriHash data
    cases h : step s (.edit sender c t name uri uriHash data) with
    | ok s' => exact absurd (edit_only_owner _ _ _ _ _ _ _ _ _ h).1 hne
    | error e => exact ⟨rfl, rejected_unchanged _ _ _ h⟩
  · cases h : step s (.burn sender c t) with
    | ok s' => exact absurd (burn_only_owner _ _ _ _ _ h).1 hne
    | error e => exact ⟨rfl, rejected_unchanged _ _ _ h⟩

/-! ### Minting into a mint-restricted class only by its creator -/

/-- **C14(e)** an accepted mint: the class exists, the id was free, the recipient owns the new
token, and if the class is mint-restricted the sender is its creator -/
theorem mint_restricted_only_creator (s s' : State) (sender rcpt c t name uri uriHash data)
    (h : step s (.mint sender rcpt c t name uri uriHash data) = .ok s') :
    hasClass s c = true ∧ (mintRestricted s c = true → creatorOf s c = some sender) ∧
    hasNFT s c t = false ∧ ownerOf s' c t = some rcpt ∧
    tokenOf s' c t = some { name := name, uri := uri, uriHash := uriHash, data := data } := by
  obtain ⟨_, cl, hcl, hmr, hm⟩ := stepMint_ok h
  obtain ⟨hc, hn, rfl⟩ := nkMint_ok hm
  refine ⟨hc, ?_, hn, by simp [ownerOf, get_put], by simp [tokenOf, get_put]⟩
  intro h1
  simp only [mintRestricted, hcl] at h1
  simp [creatorOf, hcl, hmr h1]

/-- a stranger's mint into a mint-restricted class is rejected and changes nothing -/
theorem mint_by_stranger_rejected (s : State) (sender rcpt c t name uri uriHash data)
    (hmr : mintRestricted s c = true) (hne : creatorOf s c ≠ some sender) :
    (step s (.mint sender rcpt c t name uri uriHash data)).isOk = false ∧
    apply s (.mint sender rcpt c t name uri uriHash data) = s := by
  cases h : step s (.mint sender rcpt c t name uri uriHash data) with
  | ok s' => exact absurd ((mint_restricted_only_creator _ _ _ _ _ _ _ _ _ _ h).2.1 hmr) hne
  | error e => exact ⟨rfl, rejected_unchanged _ _ _ h⟩

/-! ### Classes: never disappear, flags never change, hand-over only by the current creator -/

/-- **C14(f)** across an accepted message a class keeps its record, except that `TransferDenom`
sent by its current creator replaces the creator by the recipient; no other field ever changes -/
theorem class_step (s s' : State) (op : Op) (h : step s op = .ok s') (c : ClassId) (cl : ClassRec)
    (hcl : AMap.get? s.classes c = some cl) :
    AMap.get? s'.classes c = some cl ∨
    ∃ rcpt, op = .transferDenom cl.creator rcpt c ∧ AMap.get? s'.classes c = some { cl with creator := rcpt } := by
  cases op with
  | issue sender id mr ur name symbol schema desc uri uriHash data =>
    obtain ⟨_, hnc, rfl⟩ := stepIssue_ok h
    left
    have hne : id ≠ c := by
      intro e; subst e
      simp [hasClass, AMap.contains, hcl] at hnc
    simp only []
    rw [AMap.get?_set_other _ _ _ _ hne]; exact hcl
  | mint sender rcpt c' t name uri uriHash data =>
    obtain ⟨_, _, _, _, hm⟩ := stepMint_ok h
    obtain ⟨_, _, rfl⟩ := nkMint_ok hm
    exact Or.inl hcl
  | edit sender c' t name uri uriHash data =>
    obtain ⟨_, _, _, _, _, hr⟩ := stepEdit_ok h
    rcases hr with rfl | ⟨r, _, rfl⟩ <;> exact Or.inl hcl
  | transfer sender rcpt c' t name uri uriHash data =>
    obtain ⟨_, r, _, _, _, _, _, tk, _, rfl⟩ := stepTransfer_ok h
    exact Or.inl hcl
  | burn sender c' t =>
    obtain ⟨_, _, _, rfl⟩ := stepBurn_ok h
    exact Or.inl hcl
  | transferDenom sender rcpt c' =>
    obtain ⟨_, cl', hcl', hcr, rfl⟩ := stepTransferDenom_ok h
    by_cases hcc : c' = c
    · subst hcc
      rw [hcl] at hcl'; cases hcl'
      right
      refine ⟨rcpt, by rw [hcr], ?_⟩
      simp only []
      exact AMap.get?_set_self _ _ _
    · left
      simp only []
      rw [AMap.get?_set_other _ _ _ _ hcc]; exact hcl

/-- a class changes hands only through `TransferDenom` signed by its current creator -/
theorem class_handover_only_creator (s s' : State) (op : Op) (h : step s op = .ok s') (c : ClassId)
    (a : Addr) (hcr : creatorOf s c = some a) (hch : creatorOf s' c ≠ some a) :
    ∃ rcpt, op = .transferDenom a rcpt c ∧ creatorOf s' c = some rcpt := by
  unfold creatorOf at hcr
  cases hcl : AMap.get? s.classes c with
  | none => rw [hcl] at hcr; cases hcr
  | some cl =>
    rw [hcl] at hcr
    simp only [Option.map_some, Option.some.injEq] at hcr
    rcases class_step s s' op h c cl hcl with h1 | ⟨rcpt, hop, h1⟩
    · exact absurd (by simp [creatorOf, h1, hcr]) hch
    · exact ⟨rcpt, by rw [hop, hcr], by simp [creatorOf, h1]⟩

/-- over any history: a class that exists keeps existing with the same restriction flags
(and every other field except the creator) -/
theorem class_stable_run (s : State) (ops : List Op) (c : ClassId) (cl : ClassRec)
    (hcl : AMap.get? s.classes c = some cl) :
    ∃ a, AMap.get? (run s ops).classes c = some { cl with creator := a } := by
  induction ops generalizing s cl with
  | nil => exact ⟨cl.creator, by simpa [run] using hcl⟩
  | cons op rest ih =>
    simp only [run, List.foldl_cons]
    have key : ∃ a, AMap.get? (apply s op).classes c = some { cl with creator := a } := by
      unfold apply
      cases h : step s op with
      | error e => exact ⟨cl.creator, hcl⟩
      | ok s' =>
        rcases class_step s s' op h c cl hcl with h1 | ⟨rcpt, _, h1⟩
        · exact ⟨cl.creator, h1⟩
        · exact ⟨rcpt, h1⟩
    obtain ⟨a, ha⟩ := key
    obtain ⟨b, hb⟩ := ih (apply s op) { cl with creator := a } ha
    exact ⟨b, hb⟩

/-! ### Tokens: ids are stable, never reused while live; owners move only by transfer -/

/-- **C14(g)** across an accepted message every token that was live stays live with the same owner,
unless the message is its own burn (by its owner) or its own transfer (by its owner, to the
recipient); a token appears only by its own mint, on an id that was free -/
theorem token_step (s s' : State) (op : Op) (h : step s op = .ok s') (c : ClassId) (t : TokenId) :
    (hasNFT s c t = true →
        (hasNFT s' c t = true ∧ ownerOf s' c t = ownerOf s c t) ∨
        (∃ sender, op = .burn sender c t ∧ ownerOf s c t = some sender ∧ hasNFT s' c t = false) ∨
        (∃ sender rcpt name uri uriHash data, op = .transfer sender rcpt c t name uri uriHash data ∧
            ownerOf s c t = some sender ∧ hasNFT s' c t = true ∧ ownerOf s' c t = some rcpt)) ∧
    (hasNFT s c t = false → hasNFT s' c t = true →
        ∃ sender rcpt name uri uriHash data, op = .mint sender rcpt c t name uri uriHash data ∧
            ownerOf s' c t = some rcpt) := by
  cases op with
  | issue sender id mr ur name symbol schema desc uri uriHash data =>
    obtain ⟨_, _, rfl⟩ := stepIssue_ok h
    exact ⟨fun hn => Or.inl ⟨hn, rfl⟩, fun h0 h1 => by have h2 : hasNFT s c t = true := h1; rw [h0] at h2; cases h2⟩
  | mint sender rcpt c' t' name uri uriHash data =>
    obtain ⟨_, _, _, _, hm⟩ := stepMint_ok h
    obtain ⟨_, hn0, rfl⟩ := nkMint_ok hm
    by_cases hk : (c', t') = (c, t)
    · cases hk
      refine ⟨fun hn => (by rw [hn0] at hn; cases hn), fun _ _ => ⟨sender, rcpt, name, uri, uriHash, data, rfl, ?_⟩⟩
      simp [ownerOf, get_put]
    · refine ⟨fun hn => Or.inl ⟨?_, ?_⟩, fun h0 h1 => ?_⟩
      · simpa [hasNFT, tokenOf, get_put, hk] using hn
      · simp [ownerOf, get_put, hk]
      · simp only [hasNFT, tokenOf, get_put, hk, if_false] at h0 h1
        rw [h0] at h1; cases h1
  | edit sender c' t' name uri uriHash data =>
    obtain ⟨_, _, _, _, ho, hr⟩ := stepEdit_ok h
    rcases hr with rfl | ⟨r, hr, rfl⟩
    · exact ⟨fun hn => Or.inl ⟨hn, rfl⟩, fun h0 h1 => by rw [h0] at h1; cases h1⟩
    · by_cases hk : (c', t') = (c, t)
      · cases hk
        refine ⟨fun _ => Or.inl ⟨by simp [hasNFT, tokenOf, get_put], rfl⟩, fun h0 _ => ?_⟩
        simp [hasNFT, hr] at h0
      · refine ⟨fun hn => Or.inl ⟨by simpa [hasNFT, tokenOf, get_put, hk] using hn, rfl⟩, fun h0 h1 => ?_⟩
        simp only [hasNFT, tokenOf, get_put, hk, if_false] at h0 h1
        rw [h0] at h1; cases h1
  | transfer sender rcpt c' t' name uri uriHash data =>
    obtain ⟨_, r, _, hr, ho, _, _, tk, htk, rfl⟩ := stepTransfer_ok h
    have htok : ∀ c2 t2, (Tbl.get tk (c2, t2)).isSome = (Tbl.get s.tokens (c2, t2)).isSome := by
      intro c2 t2
      rcases htk with rfl | ⟨_, rfl⟩
      · rfl
      · rw [get_put]
        by_cases hk2 : (c', t') = (c2, t2)
        · cases hk2
          have : tokenOf s c' t' = some r := hr
          unfold tokenOf at this
          simp [this]
        · simp [hk2]
    by_cases hk : (c', t') = (c, t)
    · cases hk
      refine ⟨fun hn => Or.inr (Or.inr ⟨sender, rcpt, name, uri, uriHash, data, rfl, ho, ?_, ?_⟩), fun h0 _ => ?_⟩
      · simp only [hasNFT, tokenOf]; rw [htok]; exact hn
      · simp [ownerOf, get_put]
      · simp [hasNFT, hr] at h0
    · refine ⟨fun hn => Or.inl ⟨?_, ?_⟩, fun h0 h1 => ?_⟩
      · simp only [hasNFT, tokenOf]; rw [htok]; exact hn
      · simp [ownerOf, get_put, get_del, hk]
      · simp only [hasNFT, tokenOf] at h0 h1
        rw [htok, h0] at h1; cases h1
  | burn sender c' t' =>
    obtain ⟨_, ho, _, rfl⟩ := stepBurn_ok h
    by_cases hk : (c', t') = (c, t)
    · cases hk
      refine ⟨fun _ => Or.inr (Or.inl ⟨sender, rfl, ho, by simp [hasNFT, tokenOf, get_del]⟩), fun _ h1 => ?_⟩
      simp [hasNFT, tokenOf, get_del] at h1
    · refine ⟨fun hn => Or.inl ⟨by simpa [hasNFT, tokenOf, get_del, hk] using hn, by simp [ownerOf, get_del, hk]⟩,
        fun h0 h1 => ?_⟩
      simp only [hasNFT, tokenOf, get_del, hk, if_false] at h0 h1
      rw [h0] at h1; cases h1
  | transferDenom sender rcpt c' =>
    obtain ⟨_, _, _, _, rfl⟩ := stepTransferDenom_ok h
    exact ⟨fun hn => Or.inl ⟨hn, rfl⟩, fun h0 h1 => by have h2 : hasNFT s c t = true := h1; rw [h0] at h2; cases h2⟩

/-! ### Tokens of an update-restricted class keep uri / uriHash / name / data -/

/-- **C14(h)** one accepted message — edit, transfer with or without changes, anything — leaves the
record of every token of an update-restricted class untouched as long as the token is not burnt -/
theorem update_restricted_step (s s' : State) (op : Op) (h : step s op = .ok s') (c : ClassId) (t : TokenId)
    (r : TokenRec) (hur : updateRestricted s c = true) (hr : tokenOf s c t = some r)
    (hlive : hasNFT s' c t = true) : tokenOf s' c t = some r := by
  cases op with
  | issue sender id mr ur name symbol schema desc uri uriHash data =>
    obtain ⟨_, _, rfl⟩ := stepIssue_ok h; exact hr
  | mint sender rcpt c' t' name uri uriHash data =>
    obtain ⟨_, _, _, _, hm⟩ := stepMint_ok h
    obtain ⟨_, hn0, rfl⟩ := nkMint_ok hm
    have hk : (c', t') ≠ (c, t) := by
      intro e; cases e
      simp [hasNFT, hr] at hn0
    simp only [tokenOf, get_put, hk, if_false]; exact hr
  | edit sender c' t' name uri uriHash data =>
    obtain ⟨_, cl, hcl, hnr, _, hres⟩ := stepEdit_ok h
    rcases hres with rfl | ⟨r', _, rfl⟩
    · exact hr
    · have hk : (c', t') ≠ (c, t) := by
        intro e; cases e
        simp [updateRestricted, hcl, hnr] at hur
      simp only [tokenOf, get_put, hk, if_false]; exact hr
  | transfer sender rcpt c' t' name uri uriHash data =>
    obtain ⟨_, r', cl, _, _, hcl, hnc, tk, htk, rfl⟩ := stepTransfer_ok h
    rcases htk with rfl | ⟨hch, rfl⟩
    · exact hr
    · have hk : (c', t') ≠ (c, t) := by
        intro e; cases e
        have : cl.updateRestricted = true := by simpa [updateRestricted, hcl] using hur
        rw [hnc this] at hch; cases hch
      simp only [tokenOf, get_put, hk, if_false]; exact hr
  | burn sender c' t' =>
    obtain ⟨_, _, _, rfl⟩ := stepBurn_ok h
    have hk : (c', t') ≠ (c, t) := by
      intro e; cases e
      simp [hasNFT, tokenOf, get_del] at hlive
    simp only [tokenOf, get_del, hk, if_false]; exact hr
  | transferDenom sender rcpt c' =>
    obtain ⟨_, _, _, _, rfl⟩ := stepTransferDenom_ok h; exact hr

/-- the flag itself never changes -/
theorem update_restricted_stable (s s' : State) (op : Op) (h : step s op = .ok s') (c : ClassId)
    (hur : updateRestricted s c = true) : updateRestricted s' c = true := by
  unfold updateRestricted at hur
  cases hcl : AMap.get? s.classes c with
  | none => rw [hcl] at hur; cases hur
  | some cl =>
    rw [hcl] at hur
    rcases class_step s s' op h c cl hcl with h1 | ⟨_, _, h1⟩
    · simp [updateRestricted, h1]; exact hur
    · simp [updateRestricted, h1]; exact hur

def isBurnOf (c : ClassId) (t : TokenId) : Op → Bool
  | .burn _ c' t' => c' == c && t' == t
  | _ => false

/-- **C14(h), histories**: over any history that does not burn the token, a token of an
update-restricted class is still there with exactly the record it had — whatever edits and
transfers-with-changes owners and strangers attempt -/
theorem update_restricted_run (s : State) (ops : List Op) (c : ClassId) (t : TokenId) (r : TokenRec)
    (hur : updateRestricted s c = true) (hr : tokenOf s c t = some r)
    (hnb : ∀ op ∈ ops, isBurnOf c t op = false) : tokenOf (run s ops) c t = some r := by
  induction ops generalizing s with
  | nil => exact hr
  | cons op rest ih =>
    simp only [run, List.foldl_cons]
    have hnb' : ∀ op ∈ rest, isBurnOf c t op = false := fun o ho => hnb o (List.mem_cons_of_mem _ ho)
    have hop : isBurnOf c t op = false := hnb op List.mem_cons_self
    have key : updateRestricted (apply s op) c = true ∧ tokenOf (apply s op) c t = some r := by
      unfold apply
      cases h : step s op with
      | error e => exact ⟨hur, hr⟩
      | ok s' =>
        refine ⟨update_restricted_stable s s' op h c hur, ?_⟩
        apply update_restricted_step s s' op h c t r hur hr
        have hn : hasNFT s c t = true := by simp [hasNFT, hr]
        rcases (token_step s s' op h c t).1 hn with h1 | ⟨sender, hb, _, _⟩ | ⟨_, _, _, _, _, _, _, _, h1, _⟩
        · exact h1.1
        · subst hb; simp [isBurnOf] at hop
        · exact h1
    exact ih (apply s op) key.1 key.2 hnb'

/-! ### Burn then re-mint of the same id -/

/-- the state after `Burn` of `(c, t)` owned by `o` -/
def burnt (s : State) (o : Addr) (c : ClassId) (t : TokenId) : State :=
  { classes := s.classes, tokens := Tbl.del s.tokens (c, t), owners := Tbl.del s.owners (c, t),
    idx := Tbl.del s.idx (o, c, t), supply := AMap.set s.supply c ((supplyOf s c + (u64 - 1)) % u64) }

/-- the state after `Mint` of `(c, t)` with record `r` to `a` -/
def minted (s : State) (c : ClassId) (t : TokenId) (r : TokenRec) (a : Addr) : State :=
  incrSupply (setOwner (setNFT s c t r) c t a) c

/-- **C14(i)** after its owner burns a token the id is free again: a mint of the same id by anybody
entitled to mint is accepted, the token is back with the new owner and the new record, the class
holds as many tokens as before the burn, and the invariant holds — ids are unique among live tokens -/
theorem burn_then_remint (s : State) (hs : Inv s) (o minter rcpt : Addr) (c : ClassId) (t : TokenId)
    (name uri uriHash data : String)
    (ho : ownerOf s c t = some o) (hvb : burnVB o c t = true)
    (hmvb : mintVB minter rcpt c t uri (dataOkPlain data) = true)
    (hallowed : mintRestricted s c = true → creatorOf s c = some minter) :
    ∃ s1 s2, step s (.burn o c t) = .ok s1 ∧ hasNFT s1 c t = false ∧
      step s1 (.mint minter rcpt c t name uri uriHash data) = .ok s2 ∧
      ownerOf s2 c t = some rcpt ∧
      tokenOf s2 c t = some { name := name, uri := uri, uriHash := uriHash, data := data } ∧
      tokenCount s2 c = tokenCount s c ∧ Inv s2 := by
  have hn := has_of_owner hs ho
  have hc := hs.tok_class c t hn
  have hb : step s (.burn o c t) = .ok (burnt s o c t) := by
    simp [step, stepBurn, hvb, ho, nkBurn, hc, hn]
    rfl
  have hn1 : hasNFT (burnt s o c t) c t = false := by simp [burnt, hasNFT, tokenOf, get_del]
  have hs1 := inv_step _ _ _ hs hb
  cases hcl : AMap.get? s.classes c with
  | none => simp [hasClass, AMap.contains, hcl] at hc
  | some cl =>
    have hgate : (cl.mintRestricted && cl.creator != minter) = false := by
      cases hmr : cl.mintRestricted with
      | false => rfl
      | true =>
        have := hallowed (by simp [mintRestricted, hcl, hmr])
        simp [creatorOf, hcl] at this
        simp [this]
    have hcl1 : AMap.get? (burnt s o c t).classes c = some cl := hcl
    have hc1 : hasClass (burnt s o c t) c = true := hc
    have hm : step (burnt s o c t) (.mint minter rcpt c t name uri uriHash data)
        = .ok (minted (burnt s o c t) c t { name := name, uri := uri, uriHash := uriHash, data := data } rcpt) := by
      simp [step, stepMint, hmvb, hcl1, hgate, nkMint, hc1, hn1, minted]
    refine ⟨_, _, hb, hn1, hm, ?_, ?_, ?_, inv_step _ _ _ hs1 hm⟩
    · simp [minted, ownerOf, setOwner, setNFT, incrSupply, get_put]
    · simp [minted, tokenOf, setOwner, setNFT, incrSupply, get_put]
    · have hd := count_del (fun k : ClassId × TokenId => k.1 = c) s.tokens (c, t)
      have hp := count_put (fun k : ClassId × TokenId => k.1 = c) (Tbl.del s.tokens (c, t)) (c, t)
        ({ name := name, uri := uri, uriHash := uriHash, data := data } : TokenRec)
      rw [← hasNFT_eq, hn] at hd
      rw [has_del] at hp
      simp at hd hp
      simp only [minted, burnt, tokenCount, setOwner, setNFT, incrSupply]
      omega

/-! ### Non-vacuity: a concrete history exercising every clause -/

def demo : State :=
  run {} [.issue "A0" "cla" true true "" "" "" "" "" "" "",
          .mint "A0" "A1" "cla" "tok1" "6e" "75" "" "",
          .mint "A0" "A1" "cla" "tok2" "" "" "" "",
          .transfer "A1" "A2" "cla" "tok1" doNotModify doNotModify doNotModify doNotModify,
          .transferDenom "A0" "A3" "cla",
          .burn "A1" "cla" "tok2"]

end Irismod.Props.C14
