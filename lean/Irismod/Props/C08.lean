/-
C08 — Service: each request gets exactly one outcome; contexts follow their schedule.
Headline theorems about the model `Irismod.Service` (every state, every operation).

Since /repo f0f40e8 (F-svc-3) and 1a7f3af (F-svc-5) the scheduler statements hold in full: a due new-batch
entry is consumed whatever its handler decides (`due_entry_processed`, `new_phase_leaves_no_due_entry`), no
batch is issued beyond the repeated total (`no_batch_beyond_total`, `start_respects_total`, `below_total_run`),
and no queue entry ever lies in the past (`no_stale_entry_step`; over histories
`Irismod.Props.C13S.no_stale_entries`).  Hypotheses, all explicit: `FreshOp` (a new context id is not in use —
`tmhash(tx) ‖ index`, modulo collisions), `opValidated` (module contexts are created under a module name, so
`ValidateRequest` runs; keeper-level updates carry a non-negative timeout), `UnmodifiedHistory` for the
total bound (an update may lower the total below what is queued — the keeper rejects only `total < counter`).
-/
import Irismod.Proofs.ServiceNoStale
import Irismod.Spec.C08

namespace Irismod.Props.C08
open Irismod Irismod.Sdk Irismod.Service Irismod.Proofs.Service

/-! ### answers: only by the addressed provider, only while active, exactly once -/

/-- what an accepted `respond` presupposes and does to the outcome of the request -/
theorem respond_only_addressee_while_active (s s' : State) (provider : Addr) (rid : ReqId) (code : Nat) (out : OutKind)
    (resOk : Bool) (h : stepRespond s provider (some rid) code out resOk = .ok s') :
    (∃ rq rc, getRequest s rid = some (rq, rc) ∧ rq.provider = provider) ∧
    s.active.contains rid = true ∧ s'.active = s.active.filter (· ≠ rid) ∧
    (∃ r, AMap.get? s'.resps rid = some r ∧ r.provider = provider) := by
  unfold stepRespond at h
  split at h
  · cases h
  simp only at h
  unfold keeperRespond at h
  split at h
  · cases h
  rename_i rq rc hg
  split at h
  · cases h
  rename_i hp
  split at h
  · cases h
  rename_i ha
  split at h
  · cases h
  rename_i s1 hfee
  cases h
  have hact : s1.active = s.active ∧ s1.resps = s.resps := by
    unfold addEarnedFee at hfee
    split at hfee
    · cases hfee
    split at hfee
    · cases hfee
    cases hfee
    exact ⟨rfl, rfl⟩
  have hcr : ∀ (t : State) (id : CtxId), (countResponse t id).active = t.active ∧ (countResponse t id).resps = t.resps := by
    intro t id
    unfold countResponse storeCtx completeBatch callback
    split
    · split <;> exact ⟨rfl, rfl⟩
    · exact ⟨rfl, rfl⟩
  refine ⟨⟨rq, rc, hg, ?_⟩, by simpa using ha, ?_, ?_⟩
  · exact (Decidable.of_not_not hp).symm
  · rw [(hcr _ _).1]
    simp only [recordResponse, hact.1]
  · rw [(hcr _ _).2]
    simp only [recordResponse]
    exact ⟨_, AMap.get?_set_self _ _ _, rfl⟩

/-- a second answer to the same request (or an answer after expiry) is rejected: once the marker is
gone, `respond` fails -/
theorem respond_inactive_rejected (s : State) (provider : Addr) (rid : ReqId) (code : Nat) (out : OutKind) (resOk : Bool)
    (h : s.active.contains rid = false) : ∃ e, stepRespond s provider (some rid) code out resOk = .error e := by
  cases hr : stepRespond s provider (some rid) code out resOk with
  | error e => exact ⟨e, rfl⟩
  | ok s' =>
    have := (respond_only_addressee_while_active s s' provider rid code out resOk hr).2.1
    rw [h] at this; cases this

/-- an answer from anyone but the addressed provider is rejected -/
theorem respond_stranger_rejected (s : State) (provider : Addr) (rid : ReqId) (code : Nat) (out : OutKind) (resOk : Bool)
    (rq : Req) (rc : Ctx) (hg : getRequest s rid = some (rq, rc)) (hp : rq.provider ≠ provider) :
    ∃ e, stepRespond s provider (some rid) code out resOk = .error e := by
  cases hr : stepRespond s provider (some rid) code out resOk with
  | error e => exact ⟨e, rfl⟩
  | ok s' =>
    obtain ⟨⟨rq', rc', hg', hp'⟩, _⟩ := respond_only_addressee_while_active s s' provider rid code out resOk hr
    rw [hg] at hg'; cases hg'
    exact absurd hp' hp

/-- a rejected operation leaves the state unchanged (only the per-operation callback log is reset) -/
theorem rejected_unchanged (s : State) (op : Op) (e : Err) (h : step s op = .error e) :
    apply s op = { s with cb := [] } := by
  unfold apply; rw [h]

/-! ### only the consumer controls a context -/

theorem ctxMsgGuard_ok {s : State} {consumer : Addr} {id : String} {u : Unit}
    (h : ctxMsgGuard s consumer id = .ok u) :
    ∃ rc, AMap.get? s.ctxs id.toLower = some rc ∧ rc.consumer = consumer ∧ rc.moduleName = "" := by
  unfold ctxMsgGuard at h
  split at h
  · cases h
  split at h
  · cases h
  unfold checkAuthority at h
  split at h
  · cases h
  rename_i rc hg
  split at h
  · cases h
  rename_i hc
  split at h
  · cases h
  rename_i hm
  refine ⟨rc, hg, (Decidable.of_not_not hc).symm, ?_⟩
  simp at hm
  exact hm

/-- pause / start / kill through messages are accepted only from the consumer of a context that
is not owned by a module -/
theorem control_only_by_consumer (s s' : State) (consumer : Addr) (id : String)
    (h : stepPause s consumer id = .ok s' ∨ stepStart s consumer id = .ok s' ∨ stepKill s consumer id = .ok s') :
    ∃ rc, AMap.get? s.ctxs id.toLower = some rc ∧ rc.consumer = consumer ∧ rc.moduleName = "" := by
  rcases h with h | h | h
  · unfold stepPause at h
    split at h
    · cases h
    · rename_i u hg; exact ctxMsgGuard_ok hg
  · unfold stepStart at h
    split at h
    · cases h
    · rename_i u hg; exact ctxMsgGuard_ok hg
  · unfold stepKill at h
    split at h
    · cases h
    · rename_i u hg; exact ctxMsgGuard_ok hg

theorem update_only_by_consumer (s s' : State) (consumer : Addr) (id : String) (providers : List Addr) (cap : Coins)
    (timeout : Int) (freq : Nat) (total : Int)
    (h : stepUpdateCtx s consumer id providers cap timeout freq total = .ok s') :
    ∃ rc, AMap.get? s.ctxs id.toLower = some rc ∧ rc.consumer = consumer ∧ rc.moduleName = "" := by
  unfold stepUpdateCtx at h
  split at h
  · cases h
  split at h
  · cases h
  split at h
  · cases h
  split at h
  · cases h
  split at h
  · cases h
  rename_i u hg
  unfold checkAuthority at hg
  split at hg
  · cases hg
  rename_i rc hgc
  split at hg
  · cases hg
  rename_i hc
  split at hg
  · cases hg
  rename_i hm
  refine ⟨rc, hgc, (Decidable.of_not_not hc).symm, ?_⟩
  simp at hm
  exact hm

/-- the keeper entry points used by modules check the consumer for module-owned contexts -/
theorem module_control_only_by_consumer (s s' : State) (consumer : Addr) (id : CtxId) (rc : Ctx)
    (hg : AMap.get? s.ctxs id = some rc) (hm : rc.moduleName ≠ "")
    (h : keeperPause s id consumer = .ok s' ∨ keeperStart s id consumer = .ok s' ∨ keeperKill s id consumer = .ok s') :
    rc.consumer = consumer := by
  have key : ∀ u, moduleAuth s rc consumer id = .ok u → rc.consumer = consumer := by
    intro u ha
    unfold moduleAuth at ha
    rw [if_pos hm] at ha
    unfold checkAuthority at ha
    rw [hg] at ha
    simp only at ha
    split at ha
    · cases ha
    rename_i hc
    exact (Decidable.of_not_not hc).symm
  rcases h with h | h | h
  · unfold keeperPause at h
    rw [hg] at h
    simp only at h
    split at h
    · cases h
    · rename_i u ha; exact key u ha
  · unfold keeperStart at h
    rw [hg] at h
    simp only at h
    split at h
    · cases h
    · rename_i u ha; exact key u ha
  · unfold keeperKill at h
    rw [hg] at h
    simp only at h
    split at h
    · cases h
    · rename_i u ha; exact key u ha

/-! ### the scheduler -/

/-- nothing is issued for a context that is not running: its due queue entry is just dropped -/
theorem paused_issues_nothing (s : State) (id : CtxId) (h : (getCtx s id).state ≠ .running) :
    newBatch s id = delNew s id s.height := by
  unfold newBatch
  rw [if_neg h]

/-- a batch that starts at height `h` expires at `h + timeout` … -/
theorem batch_expiry_height (s : State) (id : CtxId) (rc : Ctx) (provs : List Addr) (total : Coins)
    (hpay : (debitCoins s.bank rc.consumer (sortCoins total)).2 = true) :
    AMap.get? (chargeAndStart s id rc provs total).expH id = some (s.height + rc.timeout) := by
  unfold chargeAndStart
  rw [if_pos hpay]
  simp only [delNew, addExp]
  exact AMap.get?_set_self _ _ _

/-- … and when that expiry is processed, a running repeated context below its total is queued for
`expiry − timeout + frequency`, i.e. exactly `frequency` after the batch started; otherwise a
running context is removed, a completed one is removed, a paused one is left alone -/
theorem next_batch_height (s : State) (id : CtxId) (rc : Ctx) (hr : rc.state = .running) (hrep : rc.repeated = true)
    (hmore : rc.total < 0 ∨ (rc.batchCounter : Int) < rc.total) :
    settleCtx s id rc = addNew s id (s.height - rc.timeout + (rc.freq : Int)) := by
  unfold settleCtx
  rw [if_neg (by rw [hr]; decide), if_pos hr, if_pos ⟨hrep, hmore⟩]

theorem schedule_law (h0 timeout : Int) (freq : Nat) : (h0 + timeout) - timeout + (freq : Int) = h0 + freq := by omega

theorem one_shot_removed (s : State) (id : CtxId) (rc : Ctx) (hr : rc.state = .running) (hrep : rc.repeated = false) :
    settleCtx s id rc = eraseCtx s id := by
  unfold settleCtx
  rw [if_neg (by rw [hr]; decide), if_pos hr, if_neg (by rw [hrep]; simp)]

theorem total_reached_removed (s : State) (id : CtxId) (rc : Ctx) (hr : rc.state = .running)
    (hdone : 0 ≤ rc.total ∧ rc.total ≤ (rc.batchCounter : Int)) :
    settleCtx s id rc = eraseCtx s id := by
  unfold settleCtx
  rw [if_neg (by rw [hr]; decide), if_pos hr, if_neg (by intro ⟨_, h⟩; omega)]

theorem paused_left_alone (s : State) (id : CtxId) (rc : Ctx) (hp : rc.state = .paused) : settleCtx s id rc = s := by
  unfold settleCtx
  rw [if_neg (by rw [hp]; decide), if_neg (by rw [hp]; decide)]

/-! ### callbacks -/

/-- completing a batch fires the registered response callback exactly once for a module-owned
context — with the error flag iff fewer outputs than the batch's threshold were recorded — and never
for a context created by a message -/
theorem callback_once_per_completion (s : State) (rc : Ctx) (id : CtxId) :
    (completeBatch s rc id).1.cb =
      s.cb ++ (if rc.moduleName ≠ "" then
        [CbEvent.resp id (getCtx s id).batchCounter (respOutputs s id (getCtx s id).batchCounter)
          (decide (respOutputs s id (getCtx s id).batchCounter < (getCtx s id).batchRespThreshold))] else []) ∧
    (completeBatch s rc id).2.batchState = .completed := by
  unfold completeBatch callback
  split <;> simp

/-! ### queue entries are always consumed; no batch beyond the total -/

def w5ctx : Ctx :=
  { svc := "s1", providers := ["A0"], consumer := "A5", cap := 100, timeout := 2, repeated := true, freq := 2,
    total := 3, batchCounter := 1, batchReqCount := 1, batchRespCount := 0, batchState := .completed, state := .running }
def w5bind : Binding :=
  { owner := "A3", deposit := 100, pricing := { denom := "stake", amount := 10 }, qos := 2, available := true, disabledTime := 0 }
/-- an example state: a running repeated context waiting in the new-batch queue (used for non-vacuity) -/
def w5 : State :=
  { height := 20, ctxs := [("c", w5ctx)], binds := [(("s1", "A0"), w5bind)], bank := { bal := [(("A5", "stake"), 1000)] },
    newQ := [(20, "c")], newH := [("c", 20)] }

/-- **every due new-batch entry is processed**: whatever the handler decides (batch issued, batch skipped,
context paused for lack of funds or of an exchange rate, context not running) its queue entry is gone afterwards -/
theorem due_entry_processed (s : State) (id : CtxId) : (s.height, id) ∉ (newBatch s id).newQ :=
  Irismod.Proofs.Service.due_entry_processed s id

/-- … and the whole new-batch phase of a block leaves no entry of the block's height behind and adds none -/
theorem new_phase_leaves_no_due_entry (s : State) (e : Int × CtxId) (h : e ∈ (newPhase s).newQ) :
    e ∈ s.newQ ∧ e.1 ≠ s.height :=
  newPhase_newQ s e h

/-- histories that do not modify the settings of a context (the property's "unmodified") -/
def UnmodifiedHistory (ops : List Op) : Prop := ∀ op ∈ ops, opUnmodified op

theorem below_total_apply {s : State} {op : Op} (hs : BelowTotal s) (hu : opUnmodified op) : BelowTotal (apply s op) := by
  unfold apply step
  have h0 : BelowTotal { s with cb := [] } := hs.of_same rfl rfl
  cases h : stepCore { s with cb := [] } op with
  | ok s' => exact BelowTotal_stepCore h0 hu h
  | error e => exact h0

/-- over every history without settings updates, a context waits in the new-batch queue only while it has
issued fewer batches than its total (creation, pause / start / kill, answers, any number of blocks) -/
theorem below_total_run : ∀ (ops : List Op) (s : State), BelowTotal s → UnmodifiedHistory ops → BelowTotal (run s ops)
  | [], _, hs, _ => hs
  | op :: rest, s, hs, hu =>
    below_total_run rest (apply s op) (below_total_apply hs (hu op (List.mem_cons_self ..)))
      (fun o ho => hu o (List.mem_cons_of_mem _ ho))

/-- **no batch beyond the total**: in every state reachable from an empty scheduler without settings updates,
the new-batch handler leaves a repeated context with a positive total at or below that total -/
theorem no_batch_beyond_total (s0 : State) (h0 : s0.newH = []) (ops : List Op) (hu : UnmodifiedHistory ops)
    (id : CtxId) (hq : AMap.contains (run s0 ops).newH id = true) (c : Ctx)
    (hg : AMap.get? (run s0 ops).ctxs id = some c) (hr : c.repeated = true) (ht : 1 ≤ c.total) :
    ((getCtx (newBatch (run s0 ops) id) id).batchCounter : Int) ≤ c.total := by
  have hb : BelowTotal s0 := by
    intro id' c' hn; rw [h0] at hn; simp [AMap.contains, AMap.get?] at hn
  exact newBatch_within_total (below_total_run ops s0 hb hu) id hq c hg hr ht

/-- a paused context that has used up its total cannot be started again -/
theorem start_respects_total (s : State) (id : CtxId) (consumer : Addr) (rc : Ctx)
    (hg : AMap.get? s.ctxs id = some rc) (hm : rc.moduleName = "") (hp : rc.state = .paused) (hr : rc.repeated = true)
    (ht : 0 ≤ rc.total ∧ rc.total ≤ (rc.batchCounter : Int)) : ∃ e, keeperStart s id consumer = .error e := by
  unfold keeperStart
  rw [hg]
  simp only [moduleAuth, hm, ne_eq, not_true_eq_false, if_false]
  rw [if_neg (by rw [hp]; decide), if_pos ⟨hr, ht⟩]
  exact ⟨_, rfl⟩

/-! ### the outcome automaton over histories -/

/-- **absorbing**: a request that is not active and whose issue height lies in the past is never active
again, whatever happens — so an answered or expired request stays answered / expired -/
theorem no_reactivation (s : State) (rid : ReqId) (h1 : rid ∉ s.active) (h2 : rid.h < s.height) (ops : List Op) :
    rid ∉ (run s ops).active := by
  intro h
  rcases (run_grows ops s).2 rid h with h' | h'
  · exact h1 h'
  · omega

/-- requests are stamped with the height of the block that issued them: every active request of a
reachable state was issued in a past block -/
theorem active_issued_in_past (s : State) (h0 : s.active = []) (ops : List Op) :
    ∀ r, r ∈ (run s ops).active → s.height ≤ r.h ∧ r.h < (run s ops).height := by
  intro r hr
  rcases (run_grows ops s).2 r hr with h | h
  · rw [h0] at h; cases h
  · exact h

/-- **answered once**: after an accepted answer every later answer to the same request is rejected,
by whoever and after any history -/
theorem answered_is_final (s0 : State) (h0 : s0.active = []) (ops : List Op) (s' : State) (provider : Addr) (rid : ReqId)
    (code : Nat) (out : OutKind) (resOk : Bool)
    (h : stepRespond (run s0 ops) provider (some rid) code out resOk = .ok s') (ops' : List Op)
    (provider' : Addr) (code' : Nat) (out' : OutKind) (resOk' : Bool) :
    ∃ e, stepRespond (run s' ops') provider' (some rid) code' out' resOk' = .error e := by
  obtain ⟨_, hact, hfil, _⟩ := respond_only_addressee_while_active _ _ _ _ _ _ _ h
  have hin : rid ∈ (run s0 ops).active := by simpa using hact
  have hpast := (active_issued_in_past s0 h0 ops rid hin).2
  have hq : Quiet (run s0 ops) s' := by
    unfold stepRespond at h
    split at h
    · cases h
    exact keeperRespond_quiet h
  have hgone : rid ∉ s'.active := by
    rw [hfil, List.mem_filter]; simp
  have := no_reactivation s' rid hgone (by rw [hq.1]; exact hpast) ops'
  exact respond_inactive_rejected _ _ _ _ _ _ (by simpa using this)

/-- **expired exactly at the expiration height**: on a well-formed state an active request whose expiration
height is the current height is no longer active after the end block … -/
theorem expires_at_expiration_height (s : State) (hw : WF s) (rid : ReqId) (hr : rid ∈ s.active) (hpast : rid.h < s.height)
    (rq : Req) (hq : AMap.get? s.reqs rid = some rq) (hexp : rq.expH = s.height) : rid ∉ (endBlock s).active := by
  obtain ⟨rq', c, a1, _, _, _, _, _, a7⟩ := hw.act rid hr
  rw [hq] at a1
  have e : rq = rq' := Option.some.inj a1
  subst e
  rw [hexp] at a7
  have hdue : rid.ctx ∈ dueIds s.expQ s.height := (mem_dueIds _ _ _).mpr (hw.expM.2 _ _ a7)
  intro h
  unfold endBlock newPhase at h
  rcases foldl_newBatch_active _ _ rid h with h1 | h1
  · unfold expiredPhase at h1
    exact foldl_expireCtx_removes _ s hw (nodup_dueIds _ _ hw.expND)
      (fun id hm => hw.expM.1 _ _ ((mem_dueIds _ _ _).mp hm)) rid h1 hdue
  · unfold expiredPhase at h1
    rw [foldl_expireCtx_height] at h1
    omega

/-- … and one whose expiration height is not the current height stays active (it cannot expire early or late) -/
theorem not_expired_before_its_height (s : State) (hw : WF s) (rid : ReqId) (hr : rid ∈ s.active)
    (rq : Req) (hq : AMap.get? s.reqs rid = some rq) (hexp : rq.expH ≠ s.height) : rid ∈ (endBlock s).active := by
  obtain ⟨rq', c, a1, _, _, _, _, _, a7⟩ := hw.act rid hr
  rw [hq] at a1
  have e : rq = rq' := Option.some.inj a1
  subst e
  unfold endBlock newPhase
  apply foldl_newBatch_mono
  unfold expiredPhase
  apply (foldl_expireCtx_active _ s rid).2 hr
  intro hm
  have := hw.expM.1 _ _ ((mem_dueIds _ _ _).mp hm)
  rw [a7] at this
  exact hexp (Option.some.inj this)

/-- **no stale queue entry**: one accepted operation keeps "every queue entry is for the current block or a
later one" (together with the queue/marker invariant `WF` and well-timed contexts, bundle `NS`); over
histories: `Irismod.Props.C13S.no_stale_entries` -/
theorem no_stale_entry_step (s s' : State) (op : Op) (hs : NS s) (hf : FreshOp { s with cb := [] } op) (hv : opValidated op)
    (h : step s op = .ok s') : Irismod.Spec.C13S.NoStale s' ∧ NS s' := by
  unfold step at h
  have h0 : NS { s with cb := [] } :=
    ⟨hs.1.of_same ⟨rfl, rfl, rfl, rfl, rfl, rfl, rfl⟩, (CQ.of_same (s' := { s with cb := [] }) hs.2 rfl rfl rfl rfl).1,
     (CQ.of_same (s' := { s with cb := [] }) hs.2 rfl rfl rfl rfl).2⟩
  have := NS_stepCore h0 hf hv h
  exact ⟨this.2.2, this⟩

end Irismod.Props.C08
