/-
C11 — headline theorems. `Irismod.Gen.Nondet` is regenerated from /repo on every run, so
`no_unreviewed_nondeterminism_site` is re-checked by the kernel against the current sources:
a new clock/random/env read, map range, float computation or stateful keeper field breaks it.
-/
import Irismod.Spec.C11
import Irismod.Model.Mt
import Irismod.Props.C15
import Irismod.Proofs.Order

namespace Irismod.Props.C11
open Irismod Irismod.Spec.C11

theorem no_unreviewed_nondeterminism_site : allSitesAllowed = true := by decide

/-- the models are functions of chain data alone: equal genesis and equal operation
    histories give equal states (no clock, map-order or process argument exists to vary) -/
theorem mt_run_deterministic (g : Mt.State) (h₁ h₂ : List Mt.Op) (e : h₁ = h₂) :
    Mt.run g h₁ = Mt.run g h₂ := by rw [e]

/-- replay after a restart at any block boundary: running a history in two pieces from the
    intermediate state equals running it in one piece -/
theorem mt_run_append (g : Mt.State) (h₁ h₂ : List Mt.Op) :
    Mt.run (Mt.run g h₁) h₂ = Mt.run g (h₁ ++ h₂) := by
  unfold Mt.run; rw [List.foldl_append]

/-! ### the reasons on the allow-list, as theorems

A Go map yields its entries in an arbitrary order. The allow-list admits a `range` over a map
only for one of three reasons; each is a theorem about the corresponding model operation,
with the arbitrary order modelled as an arbitrary permutation of the entry list. -/

/-- "keys are collected and sorted before use" (mt `sortedKeys`, service `getSortedKeys`, the
token-fee ante decorator): the sorted key list is the same for every order — and every
multiplicity — in which the keys arrive -/
theorem sorted_keys_order_independent {l₁ l₂ : List String} (h : l₁.Perm l₂) :
    MtGenesis.sortDedup l₁ = MtGenesis.sortDedup l₂ :=
  Proofs.Order.sortDedup_perm h

/-- "each entry is written under its own key" (random `InitGenesis`): writing entries with
pairwise distinct keys gives the same store content in every visiting order -/
theorem distinct_key_writes_order_independent {K V : Type} [DecidableEq K] (m : AMap K V)
    {es₁ es₂ : List (K × V)} (hp : es₁.Perm es₂) (hn : (es₁.map (·.1)).Nodup) (k : K) :
    AMap.get? (Proofs.Order.writeAll m es₁) k = AMap.get? (Proofs.Order.writeAll m es₂) k :=
  Proofs.Order.writeAll_perm m hp hn k

/-- "order decides only which error text is reported; accept/reject is order-independent"
(the `ValidateGenesis` loops over maps): a per-entry check accepts all entries in one order iff
it does in any other -/
theorem validation_verdict_order_independent {α : Type} (p : α → Bool) {l₁ l₂ : List α}
    (h : l₁.Perm l₂) : l₁.all p = l₂.all p :=
  Proofs.Order.all_perm p h

/-- the MT genesis export (the site repaired by fix 948278d) is a function of the store
content: two states whose tables answer every lookup alike — whatever the order in which their
entries were inserted — export the same document -/
theorem mt_export_order_independent (s₁ s₂ : Mt.State) (h : Proofs.Order.SameContent s₁ s₂) :
    MtGenesis.exportGenesis s₁ = MtGenesis.exportGenesis s₂ :=
  Proofs.Order.exportGenesis_content s₁ s₂ h

/-- non-vacuity: two balance tables with the same content, filled in opposite orders -/
example :
    let s₁ : Mt.State := { bal := [(("A1", "d1", "m1"), 3), (("A0", "d1", "m1"), 4)] }
    let s₂ : Mt.State := { bal := [(("A0", "d1", "m1"), 4), (("A1", "d1", "m1"), 3)] }
    s₁.bal ≠ s₂.bal ∧ MtGenesis.exportGenesis s₁ = MtGenesis.exportGenesis s₂ := by decide

end Irismod.Props.C11
