/-
C11 — headline theorems. `Irismod.Gen.Nondet` is regenerated from /repo on every run, so
`no_unreviewed_nondeterminism_site` is re-checked by the kernel against the current sources:
a new clock/random/env read, map range, float computation or stateful keeper field breaks it.
-/
import Irismod.Spec.C11
import Irismod.Model.Mt
import Irismod.Props.C15

namespace Irismod.Props.C11
open Irismod Irismod.Spec.C11

theorem no_unreviewed_nondeterminism_site : allSitesAllowed = true := by decide

/-- the models are functions of chain data alone: equal genesis and equal operation
    histories give equal states (no clock, map-order or process argument exists to vary) -/
theorem mt_run_deterministic (g : Mt.State) (h₁ h₂ : List Mt.Op) (e : h₁ = h₂) :
    Mt.run g h₁ = Mt.run g h₂ := by rw [e]

/-- replay after a restart at any block boundary: running a history in two pieces from the
    intermediate state equals running it in one piece -/
theorem mt_run_append (g : Mt.State) (h₁ h₂ : List Mt.Op) :
    Mt.run (Mt.run g h₁) h₂ = Mt.run g (h₁ ++ h₂) := by
  unfold Mt.run; rw [List.foldl_append]

end Irismod.Props.C11
