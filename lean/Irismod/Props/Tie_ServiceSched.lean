/-
Tie between the service model's scheduling arithmetic (C08: batch n+1 exactly its frequency after batch n, the
repeated-total boundary, the frequency ≥ timeout rule of an update; C13: queue heights) and /repo's source, over the
REGENERATED translation `Gen/PureServiceSched.lean` (`extract/x_pure`, every run): the height arguments the end blocker
and `StartRequestContext` hand to the new-batch / expiration queues, and the guards and branch conditions of the end
blocker, `UpdateRequestContext` and `StartRequestContext`, translated with Go's int64 / uint64 conversions, are the
expressions of `Service.settleCtx`, `Service.chargeAndStart`, `Service.keeperStart` and `Service.keeperUpdate`.
-/
import Irismod.Gen.PureServiceSched
import Irismod.Model.Service
namespace Irismod.Props.Tie
open Irismod.GoSem Irismod.Gen.PureServiceSched Irismod.Service

theorem servicesched_all_translated : Irismod.Gen.PureServiceSched.untranslated = [] := rfl

/-- the translated definitions are exactly these, in source order (a new queue operation, guard or branch in the end
blocker or in the two handlers shows up here) -/
theorem servicesched_translated_pinned : Irismod.Gen.PureServiceSched.translated =
    ["EndBlocker_cond_1(requestContext_BatchState)",
     "EndBlocker_call_DeleteRequestBatchExpiration_1_arg2(read_ctx_BlockHeight)",
     "EndBlocker_cond_2(requestContext_State)",
     "EndBlocker_cond_3(requestContext_State)",
     "EndBlocker_cond_4(requestContext_Repeated,requestContext_RepeatedTotal,requestContext_BatchCounter)",
     "EndBlocker_call_AddNewRequestBatch_1_arg2(read_ctx_BlockHeight,requestContext_Timeout,requestContext_RepeatedFrequency)",
     "EndBlocker_cond_5(requestContext_State)",
     "EndBlocker_call_DeleteNewRequestBatch_1_arg2(read_ctx_BlockHeight)",
     "EndBlocker_cond_6(read_len_providers,requestContext_ResponseThreshold)",
     "EndBlocker_cond_7(requestContext_State)",
     "EndBlocker_call_AddRequestBatchExpiration_1_arg2(read_ctx_BlockHeight,requestContext_Timeout)",
     "EndBlocker_call_DeleteNewRequestBatch_2_arg2(read_ctx_BlockHeight)",
     "EndBlocker_cond_8(read_len_str)",
     "UpdateRequestContext_cond_1(read_len_requestContext_ModuleName)",
     "UpdateRequestContext_cond_2(requestContext_State)",
     "UpdateRequestContext_cond_3(read_len_requestContext_ModuleName)",
     "UpdateRequestContext_cond_4(respThreshold)",
     "UpdateRequestContext_cond_5(read_len_pds)",
     "UpdateRequestContext_guard_6(respThreshold,read_len_pds)",
     "UpdateRequestContext_cond_7(respThreshold)",
     "UpdateRequestContext_cond_8(read_serviceFeeCap_Empty)",
     "UpdateRequestContext_guard_9(timeout,maxRequestTimeout)",
     "UpdateRequestContext_cond_10(timeout)",
     "UpdateRequestContext_timeout_1(requestContext_Timeout)",
     "UpdateRequestContext_cond_11(repeatedFreq)",
     "UpdateRequestContext_repeatedFreq_1(requestContext_RepeatedFrequency)",
     "UpdateRequestContext_guard_12(repeatedFreq,timeout)",
     "UpdateRequestContext_guard_13(repeatedTotal,requestContext_BatchCounter)",
     "UpdateRequestContext_cond_14(read_len_pds)",
     "UpdateRequestContext_cond_15(timeout)",
     "UpdateRequestContext_requestContext_Timeout_1(timeout)",
     "UpdateRequestContext_cond_16(repeatedFreq)",
     "UpdateRequestContext_requestContext_RepeatedFrequency_1(repeatedFreq)",
     "UpdateRequestContext_cond_17(repeatedTotal)",
     "UpdateRequestContext_requestContext_RepeatedTotal_1(repeatedTotal)",
     "StartRequestContext_cond_1(read_len_requestContext_ModuleName)",
     "StartRequestContext_cond_2(requestContext_State)",
     "StartRequestContext_guard_3(requestContext_Repeated,requestContext_RepeatedTotal,requestContext_BatchCounter)",
     "StartRequestContext_cond_4(read_k_HasRequestBatchExpiration_ctx_requestContextID,read_k_HasNewRequestBatch_ctx_requestContextID)",
     "StartRequestContext_call_AddNewRequestBatch_1_arg2(read_ctx_BlockHeight)"] := rfl

/-- every rejecting guard (an `if` ending in the return of an error, or in a panic) of the translated functions and of
the handlers around them, as source text in source order: removing, weakening or reordering one breaks this -/
theorem servicesched_guards_pinned : Irismod.Gen.PureServiceSched.guards =
    ["UpdateRequestContext: !found",
     "UpdateRequestContext: err := k.CheckAuthority(ctx, consumer, requestContextID, false); err != nil",
     "UpdateRequestContext: err := types.ValidateRequestContextUpdating(providers, serviceFeeCap, timeout, repeatedFreq, repeatedTotal); err != nil",
     "UpdateRequestContext: respThreshold > uint32(len(pds))",
     "UpdateRequestContext: err := k.validateServiceFeeCap(ctx, serviceFeeCap); err != nil",
     "UpdateRequestContext: timeout > maxRequestTimeout",
     "UpdateRequestContext: repeatedFreq < uint64(timeout)",
     "UpdateRequestContext: repeatedTotal >= 1 && repeatedTotal < int64(requestContext.BatchCounter)",
     "StartRequestContext: !found",
     "StartRequestContext: err := k.CheckAuthority(ctx, consumer, requestContextID, false); err != nil",
     "StartRequestContext: requestContext.Repeated && requestContext.RepeatedTotal >= 0 && int64(requestContext.BatchCounter) >= requestContext.RepeatedTotal",
     "Keeper.CreateRequestContext: _, err := k.GetResponseCallback(moduleName); err != nil",
     "Keeper.CreateRequestContext: _, err := k.GetStateCallback(moduleName); err != nil",
     "Keeper.CreateRequestContext: err := types.ValidateRequest( serviceName, serviceFeeCap, providers, input, timeout, repeated, repeatedFrequency, repeatedTotal, ); err != nil",
     "Keeper.CreateRequestContext: responseThreshold < 1 || int(responseThreshold) > len(providers)",
     "Keeper.CreateRequestContext: !found",
     "Keeper.CreateRequestContext: err := types.ValidateRequestInput(input); err != nil",
     "Keeper.CreateRequestContext: err := k.validateServiceFeeCap(ctx, serviceFeeCap); err != nil",
     "Keeper.CreateRequestContext: timeout > maxRequestTimeout",
     "Keeper.PauseRequestContext: !found",
     "Keeper.PauseRequestContext: err := k.CheckAuthority(ctx, consumer, requestContextID, false); err != nil",
     "Keeper.KillRequestContext: !found",
     "Keeper.KillRequestContext: err := k.CheckAuthority(ctx, consumer, requestContextID, false); err != nil",
     "Keeper.AddResponse: !found",
     "Keeper.AddResponse: !provider.Equals(requestProvider)",
     "Keeper.AddResponse: !k.IsRequestActive(ctx, requestID)",
     "Keeper.AddResponse: err := types.ValidateResponseOutput(output); err != nil",
     "Keeper.AddResponse: err := k.AddEarnedFee(ctx, provider, request.ServiceFee); err != nil",
     "Keeper.CheckAuthority: !found",
     "Keeper.CheckAuthority: consumer.String() != requestContext.Consumer",
     "Keeper.CheckAuthority: checkModule && len(requestContext.ModuleName) > 0",
     "Keeper.validateServiceFeeCap: len(serviceFeeCap) != 1 || serviceFeeCap[0].Denom != baseDenom"] := rfl

/-- every statement of these functions executed for its effect — a call whose result is dropped (store and bank
writes, queue moves, hooks) or a write to a record field — with its nesting depth, in source order: a write that is
dropped, duplicated, reordered or moved into or out of a branch breaks this -/
theorem servicesched_effects_pinned : Irismod.Gen.PureServiceSched.effects =
    ["EndBlocker: d1 k.DeleteActiveRequest( ctx, request.ServiceName, provider, request.ExpirationHeight, requestID, )",
     "EndBlocker: d2 k.IterateActiveRequests( ctx, requestContextID, requestContext.BatchCounter, expiredRequestHandler, )",
     "EndBlocker: d1 k.DeleteRequestBatchExpiration(ctx, requestContextID, ctx.BlockHeight())",
     "EndBlocker: d1 k.SetRequestContext(ctx, requestContextID, requestContext)",
     "EndBlocker: d2 k.CompleteServiceContext(ctx, requestContext, requestContextID)",
     "EndBlocker: d3 k.AddNewRequestBatch( ctx, requestContextID, ctx.BlockHeight()-requestContext.Timeout+int64( requestContext.RepeatedFrequency, ), )",
     "EndBlocker: d3 k.CompleteServiceContext(ctx, requestContext, requestContextID)",
     "EndBlocker: d1 k.CleanBatch(ctx, requestContext, requestContextID)",
     "EndBlocker: d3 k.OnRequestContextPaused(ctx, requestContext, requestContextID, \"no exchange rate\")",
     "EndBlocker: d3 k.DeleteNewRequestBatch(ctx, requestContextID, ctx.BlockHeight())",
     "EndBlocker: d4 k.OnRequestContextPaused( ctx, requestContext, requestContextID, \"insufficient balances\", )",
     "EndBlocker: d4 writeCache()",
     "EndBlocker: d4 k.AddRequestBatchExpiration( ctx, requestContextID, ctx.BlockHeight()+requestContext.Timeout, )",
     "EndBlocker: d3 k.SkipCurrentRequestBatch(ctx, requestContextID, *requestContext)",
     "EndBlocker: d1 k.DeleteNewRequestBatch(ctx, requestContextID, ctx.BlockHeight())",
     "EndBlocker: d0 k.IterateExpiredRequestBatch(ctx, ctx.BlockHeight(), expiredRequestBatchHandler)",
     "EndBlocker: d0 k.IterateNewRequestBatch(ctx, ctx.BlockHeight(), newRequestBatchHandler)",
     "UpdateRequestContext: d2 requestContext.ResponseThreshold = respThreshold",
     "UpdateRequestContext: d1 requestContext.ServiceFeeCap = serviceFeeCap",
     "UpdateRequestContext: d1 requestContext.Providers = pds",
     "UpdateRequestContext: d1 requestContext.Timeout = timeout",
     "UpdateRequestContext: d1 requestContext.RepeatedFrequency = repeatedFreq",
     "UpdateRequestContext: d1 requestContext.RepeatedTotal = repeatedTotal",
     "UpdateRequestContext: d0 k.SetRequestContext(ctx, requestContextID, requestContext)",
     "StartRequestContext: d0 requestContext.State = types.RUNNING",
     "StartRequestContext: d0 k.SetRequestContext(ctx, requestContextID, requestContext)",
     "StartRequestContext: d1 k.AddNewRequestBatch(ctx, requestContextID, ctx.BlockHeight())",
     "Keeper.InitiateRequests: d0 requestContext.BatchCounter++",
     "Keeper.InitiateRequests: d1 k.SetCompactRequest(ctx, requestID, request)",
     "Keeper.InitiateRequests: d1 k.AddActiveRequest( ctx, requestContext.ServiceName, provider, ctx.BlockHeight()+requestContext.Timeout, requestID, )",
     "Keeper.InitiateRequests: d0 requestContext.BatchState = types.BATCHRUNNING",
     "Keeper.InitiateRequests: d0 requestContext.BatchResponseCount = 0",
     "Keeper.InitiateRequests: d0 requestContext.BatchRequestCount = uint32(len(providers))",
     "Keeper.InitiateRequests: d0 requestContext.BatchResponseThreshold = requestContext.ResponseThreshold",
     "Keeper.InitiateRequests: d0 k.SetRequestContext(ctx, requestContextID, requestContext)",
     "Keeper.SkipCurrentRequestBatch: d0 requestContext.BatchCounter++",
     "Keeper.SkipCurrentRequestBatch: d0 requestContext.BatchState = types.BATCHRUNNING",
     "Keeper.SkipCurrentRequestBatch: d0 requestContext.BatchRequestCount = 0",
     "Keeper.SkipCurrentRequestBatch: d0 requestContext.BatchResponseCount = 0",
     "Keeper.SkipCurrentRequestBatch: d0 requestContext.BatchResponseThreshold = requestContext.ResponseThreshold",
     "Keeper.SkipCurrentRequestBatch: d0 k.SetRequestContext(ctx, requestContextID, requestContext)",
     "Keeper.SkipCurrentRequestBatch: d0 k.AddRequestBatchExpiration(ctx, requestContextID, ctx.BlockHeight()+requestContext.Timeout)",
     "Keeper.CreateRequestContext: d0 k.SetRequestContext(ctx, requestContextID, requestContext)",
     "Keeper.CreateRequestContext: d1 k.AddNewRequestBatch(ctx, requestContextID, ctx.BlockHeight())",
     "Keeper.PauseRequestContext: d0 requestContext.State = types.PAUSED",
     "Keeper.PauseRequestContext: d0 k.SetRequestContext(ctx, requestContextID, requestContext)",
     "Keeper.KillRequestContext: d0 requestContext.State = types.COMPLETED",
     "Keeper.KillRequestContext: d0 k.SetRequestContext(ctx, requestContextID, requestContext)",
     "Keeper.AddResponse: d0 k.SetResponse(ctx, requestID, response)",
     "Keeper.AddResponse: d0 k.DeleteActiveRequest(ctx, request.ServiceName, provider, request.ExpirationHeight, requestID)",
     "Keeper.AddResponse: d0 k.IncreaseRequestVolume(ctx, consumer, request.ServiceName, provider)",
     "Keeper.AddResponse: d0 requestContext.BatchResponseCount++",
     "Keeper.AddResponse: d0 k.SetRequestContext(ctx, requestContextID, requestContext)",
     "Keeper.CompleteBatch: d0 requestContext.BatchState = types.BATCHCOMPLETED",
     "Keeper.CompleteBatch: d1 k.Callback(ctx, requestContextID)",
     "Keeper.CompleteServiceContext: d0 k.DeleteRequestContext(ctx, requestContextID)",
     "Keeper.OnRequestContextPaused: d0 requestContext.BatchState = types.BATCHCOMPLETED",
     "Keeper.OnRequestContextPaused: d0 requestContext.State = types.PAUSED",
     "Keeper.OnRequestContextPaused: d0 k.SetRequestContext(ctx, requestContextID, *requestContext)",
     "Keeper.OnRequestContextPaused: d1 stateCallback(ctx, requestContextID, cause)"] := rfl

private theorem wrap_id (x : Int) (h : -9223372036854775808 ≤ x ∧ x < 9223372036854775808) : I64_wrap x = x := by
  unfold I64_wrap
  have e : (x + 9223372036854775808).emod 18446744073709551616 = x + 9223372036854775808 :=
    Int.emod_eq_of_lt (by omega) (by omega)
  rw [e]; omega

/-- the queue heights: the next batch of a running repeated context is queued at `h − timeout + frequency`
(`settleCtx`), a started batch expires at `h + timeout` (`chargeAndStart`), both entries are removed at the current
height, a started context is queued at the current height (`keeperStart`) — for heights, timeouts and frequencies of a
chain (below 2^61, so that int64 arithmetic does not wrap) -/
theorem queue_heights_eq_model (h timeout : Int) (freq : Nat)
    (hh : 0 ≤ h ∧ h < 2305843009213693952) (ht : 0 ≤ timeout ∧ timeout < 2305843009213693952)
    (hf : freq < 2305843009213693952) :
    EndBlocker_call_AddNewRequestBatch_1_arg2 h timeout freq = some (h - timeout + (freq : Int)) ∧
    EndBlocker_call_AddRequestBatchExpiration_1_arg2 h timeout = some (h + timeout) ∧
    EndBlocker_call_DeleteRequestBatchExpiration_1_arg2 h = some h ∧
    EndBlocker_call_DeleteNewRequestBatch_1_arg2 h = some h ∧ EndBlocker_call_DeleteNewRequestBatch_2_arg2 h = some h ∧
    StartRequestContext_call_AddNewRequestBatch_1_arg2 h = some h := by
  refine ⟨?_, ?_, rfl, rfl, rfl, rfl⟩
  · unfold EndBlocker_call_AddNewRequestBatch_1_arg2 I64_Add I64_Sub
    rw [wrap_id (h - timeout) (by omega), wrap_id (freq : Int) (by omega), wrap_id _ (by omega)]
  · unfold EndBlocker_call_AddRequestBatchExpiration_1_arg2 I64_Add
    rw [wrap_id _ (by omega)]

/-- "there is another batch": the end blocker's condition is the model's (`settleCtx`), and `StartRequestContext`'s
"repeated total reached" guard is the model's (`keeperStart`), for batch counters below 2^63 -/
theorem repeated_total_conditions_eq_model (repeated : Bool) (total : Int) (counter : Nat) (hc : counter < 9223372036854775808) :
    EndBlocker_cond_4 repeated total counter = some (decide (repeated = true ∧ (total < 0 ∨ (counter : Int) < total))) ∧
    StartRequestContext_guard_3 repeated total counter =
      some (decide (repeated = true ∧ 0 ≤ total ∧ total ≤ (counter : Int))) := by
  unfold EndBlocker_cond_4 StartRequestContext_guard_3
  rw [wrap_id (counter : Int) (by omega)]
  constructor <;> (cases repeated <;> simp <;> (try omega))

/-- `UpdateRequestContext`: "0 means keep" for timeout and frequency, the frequency ≥ timeout rule on the effective
values (`effFreq`, `effTimeout`; `uint64(timeout)` of a validated, non-negative timeout), the max-timeout and total
guards, and the three conditional writes (`updatedCtx`) -/
theorem update_rules_eq_model (rc : Ctx) (timeout total maxTimeout : Int) (freq : Nat)
    (ht : 0 ≤ effTimeout rc timeout ∧ effTimeout rc timeout < 9223372036854775808)
    (hc : rc.batchCounter < 9223372036854775808) :
    UpdateRequestContext_guard_9 timeout maxTimeout = some (decide (maxTimeout < timeout)) ∧
    (UpdateRequestContext_cond_10 timeout >>= fun z => if z then UpdateRequestContext_timeout_1 rc.timeout else some timeout) =
      some (effTimeout rc timeout) ∧
    (UpdateRequestContext_cond_11 freq >>= fun z => if z then UpdateRequestContext_repeatedFreq_1 rc.freq else some freq) =
      some (effFreq rc freq) ∧
    UpdateRequestContext_guard_12 (effFreq rc freq) (effTimeout rc timeout) =
      some (decide ((effFreq rc freq : Int) < effTimeout rc timeout)) ∧
    UpdateRequestContext_guard_13 total rc.batchCounter = some (decide (1 ≤ total ∧ total < (rc.batchCounter : Int))) := by
  refine ⟨rfl, ?_, ?_, ?_, ?_⟩
  · unfold UpdateRequestContext_cond_10 UpdateRequestContext_timeout_1 effTimeout
    by_cases h : timeout = 0 <;> simp [h]
  · unfold UpdateRequestContext_cond_11 UpdateRequestContext_repeatedFreq_1 effFreq
    by_cases h : freq = 0 <;> simp [h]
  · unfold UpdateRequestContext_guard_12 U64_ofI64
    have e : (effTimeout rc timeout).emod 18446744073709551616 = effTimeout rc timeout :=
      Int.emod_eq_of_lt (by omega) (by omega)
    rw [e]
    congr 1
    have : (effFreq rc freq < (effTimeout rc timeout).toNat) ↔ ((effFreq rc freq : Int) < effTimeout rc timeout) := by omega
    simp only [this]
  · unfold UpdateRequestContext_guard_13
    rw [wrap_id (rc.batchCounter : Int) (by omega)]
    by_cases a : 1 ≤ total <;> by_cases b : total < (rc.batchCounter : Int) <;> simp [a, b]

end Irismod.Props.Tie
