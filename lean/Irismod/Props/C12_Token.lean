/-
C12 (token slice) — the exported state of the token module re-imports and preserves what users
rely on: every token by symbol and by min unit, the owner index, the ERC20 contract binding, the
burned tally and the parameters.

The full statement is **false of the code** in three recorded ways (each confirmed on the real
`ExportGenesis` / `ValidateGenesis` / `InitGenesis` through the harness):
* F-gen-9  — `EditToken` may lower max supply below the recorded initial supply (after burns);
             `Token.Validate` then rejects the chain's own export;
* F-gen-10 — `MsgUpdateParams` accepts a base-fee denom that is not a registered token symbol;
             `InitGenesis` then panics;
* F-gen-13 — `DeployERC20` for an ICS20 denom stores a token whose min unit (`ibc/…`) and possibly
             symbol `Token.Validate` rejects.
The file carries the full statement, its negation from one witness per class, and the strongest
true form: every reachable state outside the three (decidable) classes round-trips.

What the genesis format does not carry (so the theorems do not speak about): bank balances,
supplies and denom metadata (bank genesis), the module account's sequence (auth), the ERC20
ledger (EVM module), the swap registry (keeper wiring, process state).
-/
import Irismod.Proofs.TokenGenesis
import Irismod.Props.C10

namespace Irismod.Props.C12.Token
open Irismod Irismod.Sdk Irismod.Token Irismod.TokenGenesis Irismod.Spec.C12.Token
open Irismod.Spec.C09 (WF OwnIdx)
open Irismod.Proofs.TokenGenesis

/-! ### the facts `ValidateGenesis` relies on hold in every reachable state -/

theorem tok_genOK_step (s s' : State) (op : Op) (hwf : WF s) (h : GenOK s) (hs : step s op = .ok s') : GenOK s' :=
  genOK_step s s' op hwf h hs

theorem tok_genOK_run (s : State) (ops : List Op) (hwf : WF s) (h : GenOK s) : GenOK (run s ops) := by
  induction ops generalizing s with
  | nil => exact h
  | cons op rest ih =>
    refine ih (apply s op) (Props.C09.wf_apply s op hwf) ?_
    unfold apply
    cases hs : step s op with
    | ok s' => exact genOK_step s s' op hwf h hs
    | error e => exact h

/-- everything the round trip needs of a state, all of it invariant over every history -/
structure Reach (s : State) : Prop where
  wf  : WF s
  own : OwnIdx s
  ctr : CtrOK s
  gen : GenOK s

theorem ctrOK_of_boundInv {s : State} (h : Props.C10.BoundInv s) : CtrOK s where
  fwd := h.bound.1
  bwd := by
    intro c sym hcs
    obtain ⟨t, ht, hc⟩ := h.bound.2 c sym hcs
    exact ⟨t, ht, hc, h.pos c sym hcs⟩

/-- **every state reached from a genesis with valid parameters by any history of the 13
operations** (accepted or rejected, by owners, strangers and governance) satisfies `Reach` -/
theorem tok_reach (bank : Bank) (p : Params) (env : Env) (hp : paramsValid p = true) (ops : List Op) :
    Reach (run (genesis bank p env) ops) where
  wf := Props.C09.wf_reachable bank p env ops
  own := Props.C09.ownidx_run _ ops (Props.C09.wf_genesis bank p env) (Props.C09.ownidx_genesis bank p env)
  ctr := ctrOK_of_boundInv (Props.C10.boundinv_run _ ops (Props.C10.boundinv_genesis bank p env))
  gen := tok_genOK_run _ ops (Props.C09.wf_genesis bank p env) (genOK_genesis bank p env hp)

/-! ### the round trip outside the three classes -/

/-- **C12/token (a)** the export validates -/
theorem tok_export_validates (s : State) (h : Reach s) (h9 : maxBelowInit s = false) (h11 : badIdentity s = false) :
    validateGenesis (exportGenesis s) = true := validate_export s h.gen h.wf h9 h11

/-- **C12/token (b, c)** the import succeeds, every query is preserved, the export is a fixpoint -/
theorem tok_roundtrip (s : State) (h : Reach s) (h9 : maxBelowInit s = false)
    (h10 : feeDenomUnregistered s = false) (h11 : badIdentity s = false) : RoundTrip s :=
  roundtrip s h.wf h.own h.ctr h.gen h9 h10 h11

/-- the queries users rely on, spelled out -/
theorem tok_queries_preserved (s : State) (h : Reach s) (h9 : maxBelowInit s = false)
    (h10 : feeDenomUnregistered s = false) (h11 : badIdentity s = false) :
    ∃ s', reimport s = .ok s' ∧
      (∀ sym, tokenBySymbol s' sym = tokenBySymbol s sym) ∧
      (∀ m, tokenByMinUnit s' m = tokenByMinUnit s m) ∧
      (∀ d, getToken s' d = getToken s d) ∧
      (∀ o sym, AMap.get? s'.owners (o, sym) = AMap.get? s.owners (o, sym)) ∧
      (∀ c, AMap.get? s'.contracts c = AMap.get? s.contracts c) ∧
      (∀ d, burnedOf s' d = burnedOf s d) ∧ s'.params = s.params ∧
      s'.bank = s.bank ∧ s'.evm = s.evm ∧ s'.nonce = s.nonce := by
  obtain ⟨_, s', h1, ho, _⟩ := tok_roundtrip s h h9 h10 h11
  have e2 : ∀ m, tokenByMinUnit s' m = tokenByMinUnit s m := by
    intro m; unfold tokenByMinUnit; rw [ho.minUnits m]
    cases AMap.get? s.minUnits m with
    | none => rfl
    | some sym => exact ho.tokens sym
  refine ⟨s', h1, ho.tokens, e2, ?_, fun o sym => ho.owners (o, sym), ho.contracts, ho.burned, ho.params,
    ho.bank, ho.evm, ho.nonce⟩
  intro d; unfold getToken; rw [ho.tokens d, e2 d]

/-- which parts of the state `InitGenesis` **rebuilds** rather than reads: the document carries
only the token records (and tallies, parameters); the symbol table, the min-unit index, the
owner index and the contract index of the imported state are all derived from those records, and
are again mutually consistent — so every theorem of C09 / C10 / this file applies to the
restarted chain -/
theorem tok_import_closed (s : State) (h : Reach s) (h9 : maxBelowInit s = false)
    (h10 : feeDenomUnregistered s = false) (h11 : badIdentity s = false) :
    ∃ s', reimport s = .ok s' ∧ Reach s' := by
  obtain ⟨_, s', h1, ho, _⟩ := tok_roundtrip s h h9 h10 h11
  have hwf' : WF s' := by
    constructor
    · intro sym t ht; rw [ho.tokens] at ht; rw [ho.minUnits]; exact h.wf.1 sym t ht
    · intro m sym hm; rw [ho.minUnits] at hm
      obtain ⟨t, ht, e⟩ := h.wf.2 m sym hm
      exact ⟨t, by rw [ho.tokens]; exact ht, e⟩
  have hown' : OwnIdx s' := by
    constructor
    · intro sym t ht; rw [ho.tokens] at ht; rw [ho.owners]; exact h.own.1 sym t ht
    · intro o sym v hv; rw [ho.owners] at hv
      obtain ⟨e, t, ht, eo⟩ := h.own.2 o sym v hv
      exact ⟨e, t, by rw [ho.tokens]; exact ht, eo⟩
  have hctr' : CtrOK s' := by
    constructor
    · intro sym t ht hc; rw [ho.tokens] at ht; rw [ho.contracts]; exact h.ctr.fwd sym t ht hc
    · intro c sym hcs; rw [ho.contracts] at hcs
      obtain ⟨t, ht, e⟩ := h.ctr.bwd c sym hcs
      exact ⟨t, by rw [ho.tokens]; exact ht, e⟩
  have hgen' : GenOK s' := by
    refine ⟨?_, by rw [ho.params]; exact h.gen.params, ?_⟩
    · intro sym t ht; rw [ho.tokens] at ht; exact h.gen.fields sym t ht
    · intro d hd; exact h.gen.burned d ((ho.burnedKeys d).mp hd)
  have hr' : Reach s' := ⟨hwf', hown', hctr', hgen'⟩
  exact ⟨s', h1, hr'⟩

/-! ### the full statement, its negation, and the strongest true form over all histories -/

/-- a genesis with the default parameters (base-fee denom `stake`, the native token) -/
def genesis0 (bank : Bank) (env : Env) : State := genesis bank {} env

/-- the full statement: after **any** history the export validates, re-imports and preserves every query -/
def FullRoundTrip : Prop := ∀ (bank : Bank) (env : Env) (ops : List Op), RoundTrip (run (genesis0 bank env) ops)

def wBank : Bank := { bal := [(("A0", "stake"), 1000000)], supply := [("stake", 1000000)] }

/-- **F-gen-9**: issue 2 (max 2), burn 1, lower the maximum to 1 — accepted, 1 circulates — and the
chain's own export is rejected: `max supply 1 < initial supply 2` -/
def witness9 : List Op :=
  [.issue "A0" "abc" "n1" "uabc" 0 2 2 false, .burn "A0" "uabc" 1, .edit "A0" "abc" "[do-not-modify]" 1 ""]

theorem witness9_outcome :
    maxBelowInit (run (genesis0 wBank {}) witness9) = true ∧
    validateGenesis (exportGenesis (run (genesis0 wBank {}) witness9)) = false ∧
    (match reimport (run (genesis0 wBank {}) witness9) with | .error (.panic _) => true | _ => false) = true := by
  decide +kernel

/-- **F-gen-10**: governance sets the base-fee denom to `uabc` — a valid denom, a registered *min
unit*, but not a token symbol — and `InitGenesis` of the export panics -/
def witness10 : List Op :=
  [.issue "A0" "abc" "n1" "uabc" 0 2 2 false,
   .updateParams "GOV" { feeDenom := "uabc" }]

theorem witness10_outcome :
    feeDenomUnregistered (run (genesis0 wBank {}) witness10) = true ∧
    validateGenesis (exportGenesis (run (genesis0 wBank {}) witness10)) = true ∧
    (match reimport (run (genesis0 wBank {}) witness10) with | .error (.panic _) => true | _ => false) = true := by
  decide +kernel

/-- **F-gen-13**: `DeployERC20` for the ICS20 denom `ibc/DEAD0` stores a token with that min unit,
which `Token.Validate` rejects (`/`, upper case, the reserved prefix `ibc`) -/
def witness11 : List Op := [.updateParams "GOV" { beacon := true }, .deploy "GOV" "ics0" "ics0" "ibc/DEAD0" 6]

theorem witness11_outcome :
    badIdentity (run (genesis0 wBank {}) witness11) = true ∧
    validateGenesis (exportGenesis (run (genesis0 wBank {}) witness11)) = false ∧
    (match reimport (run (genesis0 wBank {}) witness11) with | .error (.panic _) => true | _ => false) = true := by
  decide +kernel

theorem not_roundTrip_of_invalid {s : State} (h : validateGenesis (exportGenesis s) = false) : ¬ RoundTrip s := by
  intro hr; rw [hr.1] at h; cases h

theorem not_roundTrip_of_panic {s : State}
    (h : (match reimport s with | .error (.panic _) => true | _ => false) = true) : ¬ RoundTrip s := by
  intro hr
  obtain ⟨_, s', h1, _⟩ := hr
  rw [h1] at h; cases h

/-- the full statement is false of the code — by the witness of F-gen-9 … -/
theorem not_FullRoundTrip_max_below_initial : ¬ FullRoundTrip :=
  fun h => not_roundTrip_of_invalid witness9_outcome.2.1 (h wBank {} witness9)

/-- … by the witness of F-gen-10 (whose export *validates*: only the import fails) … -/
theorem not_FullRoundTrip_fee_denom : ¬ FullRoundTrip :=
  fun h => not_roundTrip_of_panic witness10_outcome.2.2 (h wBank {} witness10)

/-- … and by the witness of F-gen-13 -/
theorem not_FullRoundTrip_ics20_identity : ¬ FullRoundTrip :=
  fun h => not_roundTrip_of_invalid witness11_outcome.2.1 (h wBank {} witness11)

/-- **C12/token, all reachable states (strongest true form)**: after any history of the 13
operations from a genesis with valid parameters, if every token has `maxSupply ≥ initialSupply`
(not F-gen-9), the base-fee denom is a registered symbol (not F-gen-10) and every token has a
symbol and min unit `Token.Validate` accepts (not F-gen-13), then the export validates, the
import succeeds, every query is preserved and the export is a fixpoint -/
theorem tok_roundtrip_reachable_partial (bank : Bank) (p : Params) (env : Env) (hp : paramsValid p = true)
    (ops : List Op)
    (h9 : maxBelowInit (run (genesis bank p env) ops) = false)
    (h10 : feeDenomUnregistered (run (genesis bank p env) ops) = false)
    (h11 : badIdentity (run (genesis bank p env) ops) = false) :
    RoundTrip (run (genesis bank p env) ops) :=
  tok_roundtrip _ (tok_reach bank p env hp ops) h9 h10 h11

/-- a panicking import is exactly one of the classes: for a reachable state outside F-gen-9 and
F-gen-13 the *only* way `InitGenesis` of the export can fail is the base-fee denom (F-gen-10) -/
theorem tok_import_fails_only_by_fee_denom (s : State) (h : Reach s) (h9 : maxBelowInit s = false)
    (h11 : badIdentity s = false) (hfail : ∀ s', reimport s ≠ .ok s') : feeDenomUnregistered s = true := by
  cases h10 : feeDenomUnregistered s with
  | true => rfl
  | false =>
    obtain ⟨_, s', h1, _⟩ := tok_roundtrip s h h9 h10 h11
    exact absurd h1 (hfail s')

/-! ### non-vacuity -/

def demoEnv : Env := { blocked := ["FC"] }

def demoOps : List Op :=
  [.updateParams "GOV" { beacon := true },
   .issue "A0" "abc" "n1" "uabc" 6 5 9 true, .issue "A0" "eth" "n2" "wei" 18 0 0 true,
   .mint "A0" "A1" "uabc" 2500000, .burn "A1" "uabc" 500000, .transferOwner "A0" "A2" "eth",
   .deploy "GOV" "erca" "abc" "uabc" 6, .swapToErc20 "A1" "E1" "uabc" 7,
   .updateParams "GOV" { beacon := true, feeDenom := "abc", feeAmt := 5 }]

def demo : State := run (genesis wBank {} demoEnv) demoOps

def demoCheck : Bool :=
  validateGenesis (exportGenesis demo) && !maxBelowInit demo && !feeDenomUnregistered demo && !badIdentity demo &&
  (exportGenesis demo).tokens.map (·.symbol) == ["abc", "eth", "stake"] &&
  (exportGenesis demo).burned == [("uabc", 500000)] &&
  match reimport demo with
  | .ok s' =>
    (exportGenesis s').tokens == (exportGenesis demo).tokens && (exportGenesis s').burned == (exportGenesis demo).burned &&
    decide (s'.params = demo.params) && Spec.C09.bankSame demo s' && Spec.C09.wfB s' && Spec.C09.ownIdxB s' &&
    (tokenByMinUnit s' "uabc").map (·.contract) == some 1 && AMap.get? s'.contracts 1 == some "abc" &&
    AMap.get? s'.owners ("A2", "eth") == some "eth" && burnedOf s' "uabc" == 500000 &&
    s'.params.feeDenom == "abc"
  | .error _ => false

end Irismod.Props.C12.Token
