/-
C09 — Token: identity is unique, only the owner governs, supply never exceeds the cap.
Headline theorems about the model `Irismod.Token` (every state, every operation, every history).
-/
import Irismod.Proofs.Token

namespace Irismod.Props.C09
open Irismod Irismod.Sdk Irismod.Token Irismod.Spec.C09 Irismod.Proofs.Token

/-! ### 1. Identity: the symbol and min-unit maps are injective and never rebound -/

/-- a state whose tables have the same lookups is as well-formed -/
theorem wf_of_lookups {s s' : State} (h : WF s)
    (e1 : ∀ k, AMap.get? s'.tokens k = AMap.get? s.tokens k)
    (e2 : ∀ k, AMap.get? s'.minUnits k = AMap.get? s.minUnits k) : WF s' := by
  constructor
  · intro sym t ht
    rw [e1] at ht
    rw [e2]
    exact h.1 sym t ht
  · intro m sym hm
    rw [e2] at hm
    obtain ⟨t, ht, hmu⟩ := h.2 m sym hm
    exact ⟨t, by rw [e1]; exact ht, hmu⟩

/-- replacing a token by one with the same symbol and min unit -/
theorem wf_modify {s s' : State} {sym : String} {t t' : Token} (h : WF s)
    (ht : AMap.get? s.tokens sym = some t) (h1 : t'.symbol = t.symbol) (h2 : t'.minUnit = t.minUnit)
    (e1 : ∀ k, AMap.get? s'.tokens k = if sym = k then some t' else AMap.get? s.tokens k)
    (e2 : ∀ k, AMap.get? s'.minUnits k = AMap.get? s.minUnits k) : WF s' := by
  have hsym := h.1 sym t ht
  constructor
  · intro sym2 t2 ht2
    rw [e1] at ht2
    rw [e2]
    by_cases hk : sym = sym2
    · subst hk
      simp only [if_true, Option.some.injEq] at ht2
      subst ht2
      rw [h1, h2]; exact hsym
    · simp only [hk, if_false] at ht2
      exact h.1 sym2 t2 ht2
  · intro m sym2 hm
    rw [e2] at hm
    obtain ⟨t2, ht2, hmu⟩ := h.2 m sym2 hm
    by_cases hk : sym = sym2
    · subst hk
      rw [ht] at ht2; cases ht2
      exact ⟨t', by rw [e1]; simp, by rw [h2]; exact hmu⟩
    · exact ⟨t2, by rw [e1]; simp [hk, ht2], hmu⟩

/-- adding a token whose symbol and min unit are both new -/
theorem wf_add {s s' : State} {t : Token} (h : WF s)
    (hn1 : AMap.get? s.tokens t.symbol = none) (hn2 : AMap.get? s.minUnits t.minUnit = none)
    (e1 : ∀ k, AMap.get? s'.tokens k = if t.symbol = k then some t else AMap.get? s.tokens k)
    (e2 : ∀ k, AMap.get? s'.minUnits k = if t.minUnit = k then some t.symbol else AMap.get? s.minUnits k) :
    WF s' := by
  constructor
  · intro sym2 t2 ht2
    rw [e1] at ht2
    by_cases hk : t.symbol = sym2
    · simp only [hk, if_true, Option.some.injEq] at ht2
      subst ht2
      exact ⟨hk, by rw [e2]; simp [hk]⟩
    · simp only [hk, if_false] at ht2
      obtain ⟨hs2, hm2⟩ := h.1 sym2 t2 ht2
      refine ⟨hs2, ?_⟩
      rw [e2]
      have : t.minUnit ≠ t2.minUnit := by
        intro e; rw [e, hm2] at hn2; cases hn2
      simp [this, hm2]
  · intro m sym2 hm
    rw [e2] at hm
    by_cases hk : t.minUnit = m
    · simp only [hk, if_true, Option.some.injEq] at hm
      subst hm
      exact ⟨t, by rw [e1]; simp, hk⟩
    · simp only [hk, if_false] at hm
      obtain ⟨t2, ht2, hmu⟩ := h.2 m sym2 hm
      have : t.symbol ≠ sym2 := by
        intro e; rw [e, ht2] at hn1; cases hn1
      exact ⟨t2, by rw [e1]; simp [this, ht2], hmu⟩

/-- the token a min unit resolves to has that min unit (and the indexed symbol) -/
theorem tokenByMinUnit_wf {s : State} (h : WF s) {m : String} {t : Token} (ht : tokenByMinUnit s m = some t) :
    t.minUnit = m ∧ AMap.get? s.tokens t.symbol = some t ∧ AMap.get? s.minUnits m = some t.symbol := by
  unfold tokenByMinUnit at ht
  split at ht
  · cases ht
  · rename_i sym hs
    obtain ⟨t2, ht2, hmu⟩ := h.2 m sym hs
    rw [ht2] at ht; cases ht
    have := (h.1 sym t ht2).1
    subst this
    exact ⟨hmu, ht2, hs⟩

/-- **C09(1a)** two tokens with the same min unit are the same token: the min-unit map is injective -/
theorem minUnit_identifies_one_token {s : State} (h : WF s) {sym1 sym2 : String} {t1 t2 : Token}
    (h1 : AMap.get? s.tokens sym1 = some t1) (h2 : AMap.get? s.tokens sym2 = some t2)
    (hm : t1.minUnit = t2.minUnit) : sym1 = sym2 ∧ t1 = t2 := by
  have a := (h.1 sym1 t1 h1).2
  have b := (h.1 sym2 t2 h2).2
  rw [hm, b] at a
  cases a
  rw [h1] at h2; cases h2
  exact ⟨rfl, rfl⟩

/-- the index entries of two different min units name two different symbols -/
theorem minUnit_index_injective {s : State} (h : WF s) {m1 m2 sym : String}
    (h1 : AMap.get? s.minUnits m1 = some sym) (h2 : AMap.get? s.minUnits m2 = some sym) : m1 = m2 := by
  obtain ⟨t1, ht1, e1⟩ := h.2 m1 sym h1
  obtain ⟨t2, ht2, e2⟩ := h.2 m2 sym h2
  rw [ht1] at ht2; cases ht2
  rw [← e1, ← e2]

theorem wf_genesis (bank : Bank) (p : Params) (env : Env) : WF (genesis bank p env) := by
  constructor
  · intro sym t ht
    simp only [genesis, AMap.get?] at ht
    split at ht
    · rename_i hk
      cases ht; subst hk
      exact ⟨rfl, by simp [genesis, AMap.get?, nativeToken]⟩
    · cases ht
  · intro m sym hm
    simp only [genesis, AMap.get?] at hm
    split at hm
    · rename_i hk
      cases hm; subst hk
      exact ⟨nativeToken, by simp [genesis, AMap.get?], rfl⟩
    · cases hm

theorem wf_empty : WF ({} : State) := by
  constructor
  · intro sym t ht; simp [AMap.get?] at ht
  · intro m sym hm; simp [AMap.get?] at hm

/-- the token `buildERC20Token` returns for an existing min unit, or a fresh identity -/
theorem buildErc20_cases {s : State} (h : WF s) {name symbol minUnit : String} {scale : Nat} {t : Token}
    (hb : buildErc20Token s name symbol minUnit scale = .ok t) :
    (AMap.get? s.tokens t.symbol = some t ∧ AMap.get? s.minUnits t.minUnit = some t.symbol) ∨
    (AMap.get? s.tokens t.symbol = none ∧ AMap.get? s.minUnits t.minUnit = none ∧ t.contract = 0 ∧
      t.symbol = symbol ∧ t.minUnit = minUnit) := by
  unfold buildErc20Token at hb
  split at hb
  · split at hb
    · cases hb
    · rename_i t' ht'
      cases hb
      obtain ⟨e1, e2, e3⟩ := tokenByMinUnit_wf h ht'
      left; exact ⟨e2, by rw [e1]; exact e3⟩
  · rename_i hc
    split at hb
    · cases hb
    · rename_i hs
      cases hb
      right
      exact ⟨contains_false (by simpa using hs), contains_false (by simpa using hc), rfl, rfl, rfl⟩

theorem wf_mintH {s s' : State} {owner to denom : String} {amount : Int} (h : WF s)
    (hh : handleMint s owner to denom amount = .ok s') : WF s' := by
  obtain ⟨_, sym, s1, _, h1, h2⟩ := mintH_ok hh
  obtain ⟨_, _, _, _, _, _, _, rfl⟩ := deductFee_ok h1
  obtain ⟨_, _, _, _, _, rfl⟩ := mintChecked_ok h2
  exact wf_of_lookups h (fun _ => rfl) (fun _ => rfl)

theorem wf_burnH {s s' : State} {sender denom : String} {amount : Int} (h : WF s)
    (hh : handleBurn s sender denom amount = .ok s') : WF s' := by
  obtain ⟨_, b, _, rfl⟩ := burnH_ok hh
  exact wf_of_lookups h (fun _ => rfl) (fun _ => rfl)

theorem wf_step_core (s s' : State) (op : Op) (hn : norm op = op) (h : WF s) (hs : step s op = .ok s') : WF s' := by
  cases op with
  | issue owner symbol name minUnit scale init max mintable =>
    obtain ⟨_, _, s1, h1, hc1, hc2, rfl⟩ := issue_ok hs
    obtain ⟨d, n, tax, b', _, _, _, rfl⟩ := deductFee_ok h1
    refine wf_add (t := issuedToken owner symbol name minUnit scale init max mintable)
      h (contains_false hc1) (contains_false hc2) ?_ ?_
    · intro k; simp only [addIssued]; exact get?_set _ _ _ _
    · intro k; simp only [addIssued]; exact get?_set _ _ _ _
  | edit owner symbol name max mintable =>
    obtain ⟨t, ht, _, _, rfl⟩ := edit_ok hs
    exact wf_modify (t' := edited t name max mintable) h ht rfl rfl (fun k => get?_set _ _ _ _) (fun _ => rfl)
  | mint owner to denom amount => exact wf_mintH h (mint_handle hs).2.2
  | burn sender denom amount => exact wf_burnH h (burn_handle hs).2.2
  | transferOwner src dst symbol =>
    obtain ⟨_, t, ht, _, rfl⟩ := transferOwner_ok hs
    exact wf_modify (t' := { t with owner := dst }) h ht rfl rfl (fun k => get?_set _ _ _ _) (fun _ => rfl)
  | swapFee sender to denom amount =>
    obtain ⟨_, tb, target, ratio, tm, b, m, _, _, _, _, h2⟩ := swapFee_ok hs
    obtain ⟨_, _, _, bk, _, rfl⟩ := swapMoves_ok h2
    exact wf_of_lookups h (fun _ => rfl) (fun _ => rfl)
  | deploy authority name symbol minUnit scale =>
    obtain ⟨t, hb, hc, rfl⟩ := deploy_ok hs
    rcases buildErc20_cases h hb with ⟨e1, e2⟩ | ⟨e1, e2, _, _, _⟩
    · refine wf_modify (t' := { t with contract := s.nonce + 1 }) h e1 rfl rfl (fun k => get?_set _ _ _ _) ?_
      intro k
      show AMap.get? (AMap.set s.minUnits t.minUnit t.symbol) k = _
      rw [get?_set]
      by_cases hk : t.minUnit = k
      · subst hk; simp [e2]
      · simp [hk]
    · exact wf_add (t := { t with contract := s.nonce + 1 }) h e1 e2 (fun k => get?_set _ _ _ _)
        (fun k => get?_set _ _ _ _)
  | swapToErc20 sender receiver denom amount =>
    obtain ⟨_, _, t, b, _, _, _, rfl⟩ := swapTo_ok hs
    exact wf_of_lookups h (fun _ => rfl) (fun _ => rfl)
  | swapFromErc20 sender receiver denom amount =>
    obtain ⟨_, _, _, t, _, _, _, rfl⟩ := swapFrom_ok hs
    exact wf_of_lookups h (fun _ => rfl) (fun _ => rfl)
  | hookSwap src c to amount =>
    obtain ⟨_, _, h3⟩ := hook_ok hs
    rcases h3 with ⟨rfl, _⟩ | ⟨sym, t, _, _, _, _, rfl⟩
    · exact wf_of_lookups h (fun _ => rfl) (fun _ => rfl)
    · exact wf_of_lookups h (fun _ => rfl) (fun _ => rfl)
  | evmFault mode =>
    rw [evmFault_ok hs]
    exact wf_of_lookups h (fun _ => rfl) (fun _ => rfl)
  | updateParams authority p =>
    rw [(updateParams_ok hs).2]
    exact wf_of_lookups h (fun _ => rfl) (fun _ => rfl)
  | evmTx target logs =>
    have f := logs_frame (evmTx_ok hs)
    exact wf_of_lookups h (fun _ => by rw [f.tokens]) (fun _ => by rw [f.minUnits])
  | legacyIssue _ _ _ _ _ _ _ _ => cases hn
  | legacyEdit _ _ _ _ _ => cases hn
  | legacyTransferOwner _ _ _ => cases hn
  | legacyMint owner to symbol amount =>
    obtain ⟨_, _, t, _, _, _, hh⟩ := legacyMint_ok hs
    exact wf_mintH h hh
  | legacyBurn sender symbol amount =>
    obtain ⟨_, _, t, _, _, _, hh⟩ := legacyBurn_ok hs
    exact wf_burnH h hh
  | upgradeErc20 authority impl =>
    obtain ⟨_, _, _, _, _, rfl⟩ := upgrade_ok hs
    exact wf_of_lookups h (fun _ => rfl) (fun _ => rfl)

/-- **C09(1b)** every accepted operation — of the whole module: both Msg services (v1 and the
legacy v1beta1 one), conversions, deployment and upgrade included — keeps the symbol table and the
min-unit index consistent -/
theorem wf_step (s s' : State) (op : Op) (h : WF s) (hs : step s op = .ok s') : WF s' :=
  wf_step_core s s' (norm op) (norm_idem op) h (by rw [← step_norm]; exact hs)

theorem wf_apply (s : State) (op : Op) (h : WF s) : WF (apply s op) := by
  unfold apply
  cases hs : step s op with
  | ok s' => exact wf_step s s' op h hs
  | error e => exact h

/-- **C09(1c)** over every history of operations: a symbol names one token, a min unit names
one token, and the two tables agree — from any well-formed state, in particular from genesis -/
theorem wf_run (s : State) (ops : List Op) (h : WF s) : WF (run s ops) := by
  induction ops generalizing s with
  | nil => exact h
  | cons op rest ih => exact ih (apply s op) (wf_apply s op h)

theorem wf_reachable (bank : Bank) (p : Params) (env : Env) (ops : List Op) :
    WF (run (genesis bank p env) ops) := wf_run _ ops (wf_genesis bank p env)

/-! #### never rebound -/

/-- the hand-over an operation is, if it is one: (sender, recipient, symbol) — through the v1 or
through the legacy Msg service -/
def handOver : Op → Option (String × String × String)
  | .transferOwner src dst symbol => some (src, dst, symbol)
  | .legacyTransferOwner src dst symbol => some (src, dst, symbol)
  | _ => none

theorem handOver_norm (op : Op) : handOver (norm op) = handOver op := by cases op <;> rfl

/-- how an accepted operation may change the token table: not at all, by replacing one token
with one of the same identity (and the same owner unless the operation is that owner's
hand-over), or by adding a token whose symbol and min unit are both new -/
inductive Change (s s' : State) (op : Op) : Prop
  | same (e1 : ∀ k, AMap.get? s'.tokens k = AMap.get? s.tokens k)
         (e2 : ∀ k, AMap.get? s'.minUnits k = AMap.get? s.minUnits k)
  | modify (sym : String) (t t' : Token) (ht : AMap.get? s.tokens sym = some t)
         (hsym : t'.symbol = t.symbol) (hmu : t'.minUnit = t.minUnit) (hsc : t'.scale = t.scale)
         (hinit : t'.initialSupply = t.initialSupply)
         (hown : t'.owner = t.owner ∨ ∃ dst, handOver op = some (t.owner, dst, sym) ∧ t'.owner = dst)
         (e1 : ∀ k, AMap.get? s'.tokens k = if sym = k then some t' else AMap.get? s.tokens k)
         (e2 : ∀ k, AMap.get? s'.minUnits k = AMap.get? s.minUnits k)
  | add (t : Token) (hn1 : AMap.get? s.tokens t.symbol = none) (hn2 : AMap.get? s.minUnits t.minUnit = none)
         (e1 : ∀ k, AMap.get? s'.tokens k = if t.symbol = k then some t else AMap.get? s.tokens k)
         (e2 : ∀ k, AMap.get? s'.minUnits k = if t.minUnit = k then some t.symbol else AMap.get? s.minUnits k)

theorem Change.of_norm {s s' : State} {op : Op} (h : Change s s' (norm op)) : Change s s' op := by
  cases h with
  | same e1 e2 => exact .same e1 e2
  | modify sym t t' ht hsym hmu hsc hinit hown e1 e2 =>
    rw [handOver_norm] at hown
    exact .modify sym t t' ht hsym hmu hsc hinit hown e1 e2
  | add t hn1 hn2 e1 e2 => exact .add t hn1 hn2 e1 e2

theorem same_mintH {s s' : State} {owner to denom : String} {amount : Int}
    (hh : handleMint s owner to denom amount = .ok s') :
    s'.tokens = s.tokens ∧ s'.minUnits = s.minUnits ∧ s'.owners = s.owners ∧ s'.burned = s.burned := by
  obtain ⟨_, sym, s1, _, h1, h2⟩ := mintH_ok hh
  obtain ⟨_, _, _, _, _, _, _, rfl⟩ := deductFee_ok h1
  obtain ⟨_, _, _, _, _, rfl⟩ := mintChecked_ok h2
  exact ⟨rfl, rfl, rfl, rfl⟩

theorem same_burnH {s s' : State} {sender denom : String} {amount : Int}
    (hh : handleBurn s sender denom amount = .ok s') :
    s'.tokens = s.tokens ∧ s'.minUnits = s.minUnits ∧ s'.owners = s.owners := by
  obtain ⟨_, b, _, rfl⟩ := burnH_ok hh
  exact ⟨rfl, rfl, rfl⟩

theorem change_step_core (s s' : State) (op : Op) (hn : norm op = op) (h : WF s) (hs : step s op = .ok s') :
    Change s s' op := by
  cases op with
  | issue owner symbol name minUnit scale init max mintable =>
    obtain ⟨_, _, s1, h1, hc1, hc2, rfl⟩ := issue_ok hs
    obtain ⟨d, n, tax, b', _, _, _, rfl⟩ := deductFee_ok h1
    exact .add (issuedToken owner symbol name minUnit scale init max mintable)
      (contains_false hc1) (contains_false hc2) (fun k => get?_set _ _ _ _) (fun k => get?_set _ _ _ _)
  | edit owner symbol name max mintable =>
    obtain ⟨t, ht, _, _, rfl⟩ := edit_ok hs
    exact .modify symbol t (edited t name max mintable) ht rfl rfl rfl rfl (Or.inl rfl)
      (fun k => get?_set _ _ _ _) (fun _ => rfl)
  | mint owner to denom amount =>
    obtain ⟨e1, e2, _, _⟩ := same_mintH (mint_handle hs).2.2
    exact .same (fun _ => by rw [e1]) (fun _ => by rw [e2])
  | burn sender denom amount =>
    obtain ⟨e1, e2, _⟩ := same_burnH (burn_handle hs).2.2
    exact .same (fun _ => by rw [e1]) (fun _ => by rw [e2])
  | transferOwner src dst symbol =>
    obtain ⟨_, t, ht, ho, rfl⟩ := transferOwner_ok hs
    exact .modify symbol t { t with owner := dst } ht rfl rfl rfl rfl (Or.inr ⟨dst, by rw [ho]; rfl, rfl⟩)
      (fun k => get?_set _ _ _ _) (fun _ => rfl)
  | swapFee sender to denom amount =>
    obtain ⟨_, tb, target, ratio, tm, b, m, _, _, _, _, h2⟩ := swapFee_ok hs
    obtain ⟨_, _, _, bk, _, rfl⟩ := swapMoves_ok h2
    exact .same (fun _ => rfl) (fun _ => rfl)
  | deploy authority name symbol minUnit scale =>
    obtain ⟨t, hb, hc, rfl⟩ := deploy_ok hs
    rcases buildErc20_cases h hb with ⟨e1, e2⟩ | ⟨e1, e2, _, _, _⟩
    · refine .modify t.symbol t { t with contract := s.nonce + 1 } e1 rfl rfl rfl rfl (Or.inl rfl)
        (fun k => get?_set _ _ _ _) ?_
      intro k
      show AMap.get? (AMap.set s.minUnits t.minUnit t.symbol) k = _
      rw [get?_set]
      by_cases hk : t.minUnit = k
      · subst hk; simp [e2]
      · simp [hk]
    · exact .add { t with contract := s.nonce + 1 } e1 e2 (fun k => get?_set _ _ _ _) (fun k => get?_set _ _ _ _)
  | swapToErc20 sender receiver denom amount =>
    obtain ⟨_, _, t, b, _, _, _, rfl⟩ := swapTo_ok hs
    exact .same (fun _ => rfl) (fun _ => rfl)
  | swapFromErc20 sender receiver denom amount =>
    obtain ⟨_, _, _, t, _, _, _, rfl⟩ := swapFrom_ok hs
    exact .same (fun _ => rfl) (fun _ => rfl)
  | hookSwap src c to amount =>
    obtain ⟨_, _, h3⟩ := hook_ok hs
    rcases h3 with ⟨rfl, _⟩ | ⟨sym, t, _, _, _, _, rfl⟩
    · exact .same (fun _ => rfl) (fun _ => rfl)
    · exact .same (fun _ => rfl) (fun _ => rfl)
  | evmFault mode =>
    rw [evmFault_ok hs]
    exact .same (fun _ => rfl) (fun _ => rfl)
  | updateParams authority p =>
    rw [(updateParams_ok hs).2]
    exact .same (fun _ => rfl) (fun _ => rfl)
  | evmTx target logs =>
    have f := logs_frame (evmTx_ok hs)
    exact .same (fun _ => by rw [f.tokens]) (fun _ => by rw [f.minUnits])
  | legacyIssue _ _ _ _ _ _ _ _ => cases hn
  | legacyEdit _ _ _ _ _ => cases hn
  | legacyTransferOwner _ _ _ => cases hn
  | legacyMint owner to symbol amount =>
    obtain ⟨_, _, t, _, _, _, hh⟩ := legacyMint_ok hs
    obtain ⟨e1, e2, _, _⟩ := same_mintH hh
    exact .same (fun _ => by rw [e1]) (fun _ => by rw [e2])
  | legacyBurn sender symbol amount =>
    obtain ⟨_, _, t, _, _, _, hh⟩ := legacyBurn_ok hs
    obtain ⟨e1, e2, _⟩ := same_burnH hh
    exact .same (fun _ => by rw [e1]) (fun _ => by rw [e2])
  | upgradeErc20 authority impl =>
    obtain ⟨_, _, _, _, _, rfl⟩ := upgrade_ok hs
    exact .same (fun _ => rfl) (fun _ => rfl)

theorem change_step (s s' : State) (op : Op) (h : WF s) (hs : step s op = .ok s') : Change s s' op :=
  Change.of_norm (change_step_core s s' (norm op) (norm_idem op) h (by rw [← step_norm]; exact hs))

theorem keeps_refl (s : State) : Keeps s s :=
  ⟨fun _ t ht => ⟨t, ht, rfl, rfl, rfl⟩, fun _ _ hm => hm⟩

theorem keeps_trans {a b c : State} (h1 : Keeps a b) (h2 : Keeps b c) : Keeps a c := by
  constructor
  · intro sym t ht
    obtain ⟨t1, ht1, a1, a2, a3⟩ := h1.1 sym t ht
    obtain ⟨t2, ht2, b1, b2, b3⟩ := h2.1 sym t1 ht1
    exact ⟨t2, ht2, b1.trans a1, b2.trans a2, b3.trans a3⟩
  · intro m sym hm
    exact h2.2 m sym (h1.2 m sym hm)

/-- **C09(1d)** one accepted operation never re-binds an identity: every symbol keeps its min
unit and scale, every min unit keeps its symbol -/
theorem keeps_step (s s' : State) (op : Op) (h : WF s) (hs : step s op = .ok s') : Keeps s s' := by
  cases change_step s s' op h hs with
  | same e1 e2 =>
    exact ⟨fun sym t ht => ⟨t, by rw [e1]; exact ht, rfl, rfl, rfl⟩, fun m sym hm => by rw [e2]; exact hm⟩
  | modify sym t t' ht hsym hmu hsc _ _ e1 e2 =>
    constructor
    · intro sym2 t2 ht2
      by_cases hk : sym = sym2
      · subst hk
        rw [ht] at ht2; cases ht2
        exact ⟨t', by rw [e1]; simp, hsym, hmu, hsc⟩
      · exact ⟨t2, by rw [e1]; simp [hk, ht2], rfl, rfl, rfl⟩
    · intro m sym2 hm; rw [e2]; exact hm
  | add t hn1 hn2 e1 e2 =>
    constructor
    · intro sym2 t2 ht2
      have hk : t.symbol ≠ sym2 := by intro e; rw [e, ht2] at hn1; cases hn1
      exact ⟨t2, by rw [e1]; simp [hk, ht2], rfl, rfl, rfl⟩
    · intro m sym2 hm
      have hk : t.minUnit ≠ m := by intro e; rw [e, hm] at hn2; cases hn2
      rw [e2]; simp [hk, hm]

theorem keeps_apply (s : State) (op : Op) (h : WF s) : Keeps s (apply s op) := by
  unfold apply
  cases hs : step s op with
  | ok s' => exact keeps_step s s' op h hs
  | error e => exact keeps_refl s

/-- **C09(1e)** over every history: an identity once bound is bound forever -/
theorem never_rebound_run (s : State) (ops : List Op) (h : WF s) : Keeps s (run s ops) := by
  induction ops generalizing s with
  | nil => exact keeps_refl s
  | cons op rest ih =>
    exact keeps_trans (keeps_apply s op h) (ih (apply s op) (wf_apply s op h))

/-- **C09(1f)** issuing a symbol or a min unit that is already bound is rejected -/
theorem issue_bound_identity_rejected (s : State) (owner symbol name minUnit : String) (scale init max : Nat)
    (mintable : Bool)
    (hb : (AMap.get? s.tokens symbol).isSome = true ∨ (AMap.get? s.minUnits minUnit).isSome = true) :
    ∃ e, step s (.issue owner symbol name minUnit scale init max mintable) = .error e := by
  cases hs : step s (.issue owner symbol name minUnit scale init max mintable) with
  | error e => exact ⟨e, rfl⟩
  | ok s' =>
    exfalso
    obtain ⟨_, _, s1, h1, hc1, hc2, _⟩ := issue_ok hs
    obtain ⟨_, _, _, _, _, _, _, rfl⟩ := deductFee_ok h1
    have c1 := contains_false hc1
    have c2 := contains_false hc2
    simp only at c1 c2
    rcases hb with hb | hb
    · rw [c1] at hb; cases hb
    · rw [c2] at hb; cases hb

/-! ### 2. Authority: only the current owner edits, mints or hands over -/

/-- **C09(2a)** an accepted edit was sent by the current owner -/
theorem edit_only_owner (s s' : State) (owner symbol name : String) (max : Nat) (mintable : String)
    (h : step s (.edit owner symbol name max mintable) = .ok s') : ownerOf s symbol = some owner := by
  obtain ⟨t, ht, ho, _, _⟩ := edit_ok h
  simp [ownerOf, ht, ho]

/-- **C09(2b)** an accepted mint was sent by the current owner of a mintable token -/
theorem mint_only_owner_and_mintable (s s' : State) (owner to denom : String) (amount : Int)
    (h : step s (.mint owner to denom amount) = .ok s') :
    ∃ t, tokenByMinUnit s denom = some t ∧ t.owner = owner ∧ t.mintable = true := by
  obtain ⟨_, _, sym, s1, _, h1, h2⟩ := mint_ok h
  obtain ⟨_, _, _, _, _, _, _, rfl⟩ := deductFee_ok h1
  obtain ⟨t, ht, ho, hm, _, _⟩ := mintChecked_ok h2
  exact ⟨t, ht, ho.symm, hm⟩

/-- **C09(2c)** an accepted hand-over was sent by the current owner and makes the recipient the owner -/
theorem transfer_only_owner (s s' : State) (src dst symbol : String)
    (h : step s (.transferOwner src dst symbol) = .ok s') :
    ownerOf s symbol = some src ∧ ownerOf s' symbol = some dst := by
  obtain ⟨_, t, ht, ho, rfl⟩ := transferOwner_ok h
  exact ⟨by simp [ownerOf, ht, ho], by simp [ownerOf, AMap.get?_set_self]⟩

/-- … so anyone else is rejected, and a rejected message changes nothing -/
theorem edit_by_stranger_rejected (s : State) (o sender symbol name : String) (max : Nat) (mintable : String)
    (ho : ownerOf s symbol = some o) (hne : sender ≠ o) :
    apply s (.edit sender symbol name max mintable) = s := by
  unfold apply
  cases hs : step s (.edit sender symbol name max mintable) with
  | error e => rfl
  | ok s' =>
    have := edit_only_owner s s' sender symbol name max mintable hs
    rw [ho] at this; cases this; exact absurd rfl hne

theorem transfer_by_stranger_rejected (s : State) (o sender dst symbol : String)
    (ho : ownerOf s symbol = some o) (hne : sender ≠ o) :
    apply s (.transferOwner sender dst symbol) = s := by
  unfold apply
  cases hs : step s (.transferOwner sender dst symbol) with
  | error e => rfl
  | ok s' =>
    have := (transfer_only_owner s s' sender dst symbol hs).1
    rw [ho] at this; cases this; exact absurd rfl hne

theorem mint_by_stranger_or_unmintable_rejected (s : State) (t : Token) (sender to denom : String) (amount : Int)
    (ht : tokenByMinUnit s denom = some t) (hne : sender ≠ t.owner ∨ t.mintable = false) :
    apply s (.mint sender to denom amount) = s := by
  unfold apply
  cases hs : step s (.mint sender to denom amount) with
  | error e => rfl
  | ok s' =>
    obtain ⟨t', ht', ho, hm⟩ := mint_only_owner_and_mintable s s' sender to denom amount hs
    rw [ht] at ht'; cases ht'
    rcases hne with hne | hne
    · exact absurd ho.symm hne
    · rw [hm] at hne; cases hne

theorem rejected_unchanged (s : State) (op : Op) (e : Err) (h : step s op = .error e) : apply s op = s := by
  unfold apply; rw [h]

/-- **C09(2d)** authority follows ownership: the owner of an existing token changes only by a
hand-over — a `MsgTransferTokenOwner` of the v1 or of the legacy Msg service — sent by the current
owner, to the recipient it names; no other operation of the extended alphabet changes an owner -/
theorem owner_changes_only_by_transfer (s : State) (op : Op) (h : WF s) (sym : String) (t t' : Token)
    (ht : AMap.get? s.tokens sym = some t) (ht' : AMap.get? (apply s op).tokens sym = some t')
    (hne : t'.owner ≠ t.owner) :
    ∃ dst, (op = .transferOwner t.owner dst sym ∨ op = .legacyTransferOwner t.owner dst sym) ∧ t'.owner = dst := by
  have key : ∃ dst, handOver op = some (t.owner, dst, sym) ∧ t'.owner = dst := by
    unfold apply at ht'
    cases hs : step s op with
    | error e => rw [hs] at ht'; simp only at ht'; rw [ht] at ht'; cases ht'; exact absurd rfl hne
    | ok s' =>
      rw [hs] at ht'
      simp only at ht'
      cases change_step s s' op h hs with
      | same e1 _ => rw [e1, ht] at ht'; cases ht'; exact absurd rfl hne
      | modify sym2 t2 t2' ht2 _ _ _ _ hown e1 _ =>
        rw [e1] at ht'
        by_cases hk : sym2 = sym
        · subst hk
          simp only [if_true, Option.some.injEq] at ht'
          subst ht'
          rw [ht] at ht2; cases ht2
          rcases hown with ho | ho
          · exact absurd ho hne
          · exact ho
        · simp only [hk, if_false] at ht'
          rw [ht] at ht'; cases ht'; exact absurd rfl hne
      | add t2 hn1 _ e1 _ =>
        rw [e1] at ht'
        have hk : t2.symbol ≠ sym := by intro e; rw [e, ht] at hn1; cases hn1
        simp only [hk, if_false] at ht'
        rw [ht] at ht'; cases ht'; exact absurd rfl hne
  obtain ⟨dst, hh, hd⟩ := key
  refine ⟨dst, ?_, hd⟩
  cases op with
  | transferOwner a b c =>
    simp only [handOver, Option.some.injEq, Prod.mk.injEq] at hh
    obtain ⟨rfl, rfl, rfl⟩ := hh; exact Or.inl rfl
  | legacyTransferOwner a b c =>
    simp only [handOver, Option.some.injEq, Prod.mk.injEq] at hh
    obtain ⟨rfl, rfl, rfl⟩ := hh; exact Or.inr rfl
  | _ => simp [handOver] at hh

/-! ### 3. The circulating amount never exceeds the declared maximum -/

/-- the invariant of C09's supply clause: consistent identities, every token within its cap,
and no unregistered denomination in circulation -/
structure Good (s : State) : Prop where
  wf  : WF s
  cap : CapInv s
  reg : SupplyReg s

/-- a change that keeps the tables and does not raise any supply keeps the invariant -/
theorem good_of_supply_le {s s' : State} (h : Good s) (e1 : s'.tokens = s.tokens) (e2 : s'.minUnits = s.minUnits)
    (hle : ∀ d, supplyOf s' d ≤ supplyOf s d) : Good s' where
  wf := wf_of_lookups h.wf (fun _ => by rw [e1]) (fun _ => by rw [e2])
  cap := by
    intro sym t ht
    rw [e1] at ht
    exact Nat.le_trans (hle _) (h.cap sym t ht)
  reg := by
    intro d hd
    rw [e2]
    exact h.reg d (Nat.lt_of_lt_of_le hd (hle d))

theorem good_deductFee {s s1 : State} {payer fee} (h : Good s) (h1 : deductFee s payer fee = .ok s1) : Good s1 := by
  obtain ⟨d, n, tax, b', _, _, he, rfl⟩ := deductFee_ok h1
  exact good_of_supply_le h rfl rfl (fun d' => he.sup_le d')

theorem issueValid_init_le {owner symbol name minUnit : String} {scale init max : Nat} {mintable : Bool}
    (h : issueValid owner symbol name minUnit scale init max mintable = true) :
    init ≤ defaultMax init max mintable := by
  unfold issueValid at h
  simp only [Bool.and_eq_true, decide_eq_true_eq] at h
  exact h.1.2

theorem good_mintH {s s' : State} {owner to denom : String} {amount : Int} (h : Good s)
    (hh : handleMint s owner to denom amount = .ok s') : Good s' := by
  have hwf' := wf_mintH h.wf hh
  obtain ⟨_, sym, s1, _, h1, h2⟩ := mintH_ok hh
  have g1 := good_deductFee h h1
  obtain ⟨t, ht, _, _, hroom, rfl⟩ := mintChecked_ok h2
  obtain ⟨emu, etok, eidx⟩ := tokenByMinUnit_wf g1.wf ht
  refine ⟨hwf', ?_, ?_⟩
  · intro sym2 t2 ht2
    simp only at ht2
    simp only [supplyOf]
    by_cases hk : denom = t2.minUnit
    · have := (minUnit_identifies_one_token g1.wf etok ht2 (by rw [emu, hk])).2
      subst this
      rw [← hk, supplyOf_mint_self]
      rw [emu] at hroom
      exact hroom
    · rw [supplyOf_mint_other _ _ _ _ _ hk]
      exact g1.cap sym2 t2 ht2
  · intro d hd
    simp only [supplyOf] at hd ⊢
    by_cases hk : denom = d
    · subst hk; simp [eidx]
    · rw [supplyOf_mint_other _ _ _ _ _ hk] at hd
      exact g1.reg d hd

theorem good_burnH {s s' : State} {sender denom : String} {amount : Int} (h : Good s)
    (hh : handleBurn s sender denom amount = .ok s') : Good s' := by
  obtain ⟨_, b, hb, rfl⟩ := burnH_ok hh
  obtain ⟨_, _, e3, _, e5⟩ := burn_ok hb
  refine good_of_supply_le h rfl rfl ?_
  intro d
  simp only [supplyOf]
  by_cases hk : denom = d
  · subst hk; rw [e3]; omega
  · rw [e5 d hk]; exact Nat.le_refl _

theorem isC09Op_norm (op : Op) : isC09Op (norm op) = isC09Op op := by cases op <;> rfl

theorem good_step_core (s s' : State) (op : Op) (hn : norm op = op) (h : Good s) (hop : isC09Op op = true)
    (hs : step s op = .ok s') : Good s' := by
  have hwf' := wf_step s s' op h.wf hs
  cases op with
  | issue owner symbol name minUnit scale init max mintable =>
    obtain ⟨hv, _, s1, h1, hc1, hc2, rfl⟩ := issue_ok hs
    have g1 := good_deductFee h h1
    have c1 := contains_false hc1
    have c2 := contains_false hc2
    have hz : s1.bank.supplyOf minUnit = 0 := by
      cases hz : s1.bank.supplyOf minUnit with
      | zero => rfl
      | succ k =>
        have := g1.reg minUnit (by unfold supplyOf; omega)
        rw [c2] at this; cases this
    refine ⟨hwf', ?_, ?_⟩
    · intro sym2 t2 ht2
      simp only [addIssued, issuedToken] at ht2 ⊢
      rw [get?_set] at ht2
      by_cases hk : symbol = sym2
      · simp only [hk, if_true, Option.some.injEq] at ht2
        subst ht2
        simp only [supplyOf]
        rw [supplyOf_mint_self, hz, Nat.zero_add]
        exact Nat.mul_le_mul_right _ (issueValid_init_le hv)
      · simp only [hk, if_false] at ht2
        have hm2 := (g1.wf.1 sym2 t2 ht2).2
        have hne : minUnit ≠ t2.minUnit := by intro e; rw [← e, c2] at hm2; cases hm2
        simp only [supplyOf]
        rw [supplyOf_mint_other _ _ _ _ _ hne]
        exact g1.cap sym2 t2 ht2
    · intro d hd
      simp only [addIssued, issuedToken, supplyOf] at hd ⊢
      rw [get?_set]
      by_cases hk : minUnit = d
      · simp [hk]
      · simp only [hk, if_false]
        rw [supplyOf_mint_other _ _ _ _ _ hk] at hd
        exact g1.reg d hd
  | edit owner symbol name max mintable =>
    obtain ⟨t, ht, _, hm, rfl⟩ := edit_ok hs
    refine ⟨hwf', ?_, h.reg⟩
    intro sym2 t2 ht2
    simp only at ht2
    rw [get?_set] at ht2
    by_cases hk : symbol = sym2
    · simp only [hk, if_true, Option.some.injEq] at ht2
      subst ht2
      have hcap := h.cap symbol t ht
      show supplyOf s t.minUnit ≤ (if 0 < max then max else t.maxSupply) * pow10 t.scale
      by_cases hmax : 0 < max
      · simp only [hmax, if_true]
        have : ¬ (max * pow10 t.scale < supplyOf s t.minUnit) := fun hc => hm ⟨hmax, hc⟩
        omega
      · simp only [hmax, if_false]; exact hcap
    · simp only [hk, if_false] at ht2
      exact h.cap sym2 t2 ht2
  | mint owner to denom amount => exact good_mintH h (mint_handle hs).2.2
  | burn sender denom amount => exact good_burnH h (burn_handle hs).2.2
  | transferOwner src dst symbol =>
    obtain ⟨_, t, ht, _, rfl⟩ := transferOwner_ok hs
    refine ⟨hwf', ?_, h.reg⟩
    intro sym2 t2 ht2
    simp only at ht2
    rw [get?_set] at ht2
    by_cases hk : symbol = sym2
    · simp only [hk, if_true, Option.some.injEq] at ht2
      subst ht2
      exact h.cap symbol t ht
    · simp only [hk, if_false] at ht2
      exact h.cap sym2 t2 ht2
  | legacyMint owner to symbol amount =>
    obtain ⟨_, _, t, _, _, _, hh⟩ := legacyMint_ok hs
    exact good_mintH h hh
  | legacyBurn sender symbol amount =>
    obtain ⟨_, _, t, _, _, _, hh⟩ := legacyBurn_ok hs
    exact good_burnH h hh
  | legacyIssue _ _ _ _ _ _ _ _ => cases hn
  | legacyEdit _ _ _ _ _ => cases hn
  | legacyTransferOwner _ _ _ => cases hn
  | swapFee _ _ _ _ => cases hop
  | deploy _ _ _ _ _ => cases hop
  | swapToErc20 _ _ _ _ => cases hop
  | swapFromErc20 _ _ _ _ => cases hop
  | hookSwap _ _ _ _ => cases hop
  | evmFault _ => cases hop
  | updateParams _ _ => cases hop
  | evmTx _ _ => cases hop
  | upgradeErc20 _ _ => cases hop

/-- **C09(3a)** one accepted issue / edit / mint / burn / hand-over — through the v1 or through the
legacy Msg service — keeps every token within its cap -/
theorem good_step (s s' : State) (op : Op) (h : Good s) (hop : isC09Op op = true)
    (hs : step s op = .ok s') : Good s' :=
  good_step_core s s' (norm op) (norm_idem op) h (by rw [isC09Op_norm]; exact hop) (by rw [← step_norm]; exact hs)

theorem good_apply (s : State) (op : Op) (h : Good s) (hop : isC09Op op = true) : Good (apply s op) := by
  unfold apply
  cases hs : step s op with
  | ok s' => exact good_step s s' op h hop hs
  | error e => exact h

/-- **C09(3b)** over every history of issue / edit / mint / burn / hand-over by anyone, through
either Msg service (v1 and legacy v1beta1 messages mixed in one history), at every scale and
amount: every token stays within `maxSupply · 10^scale` -/
theorem cap_run (s : State) (ops : List Op) (h : Good s) (hops : ∀ op ∈ ops, isC09Op op = true) :
    Good (run s ops) := by
  induction ops generalizing s with
  | nil => exact h
  | cons op rest ih =>
    exact ih (apply s op) (good_apply s op h (hops op (List.mem_cons_self ..)))
      (fun o ho => hops o (List.mem_cons_of_mem _ ho))

/-- a genesis whose only circulating denomination is the native token, within its cap -/
theorem good_genesis (bank : Bank) (p : Params) (env : Env)
    (h1 : ∀ d, d ≠ "stake" → bank.supplyOf d = 0) (h2 : bank.supplyOf "stake" ≤ 10000000000) :
    Good (genesis bank p env) where
  wf := wf_genesis bank p env
  cap := by
    intro sym t ht
    simp only [genesis, AMap.get?] at ht
    split at ht
    · cases ht
      simp only [nativeToken, supplyOf, genesis, pow10]
      omega
    · cases ht
  reg := by
    intro d hd
    by_cases hk : d = "stake"
    · subst hk; simp [genesis, AMap.get?]
    · simp only [supplyOf, genesis] at hd
      rw [h1 d hk] at hd; cases hd

/-- the full statement of the supply clause -/
def CapAlways : Prop :=
  ∀ (s : State) (ops : List Op), Good s → (∀ op ∈ ops, isC09Op op = true) → CapInv (run s ops)

/-- **C09(3c)** the supply clause in full: the circulating amount never exceeds the declared
maximum through issue, mint, edit and burn (and hand-over), over all histories -/
theorem cap_always : CapAlways := fun s ops h hops => (cap_run s ops h hops).cap

/-- "the maximum can never be lowered below what circulates", for one edit -/
def MaxNeverBelowCirculating : Prop :=
  ∀ (s s' : State) (owner symbol name : String) (max : Nat) (mintable : String) (t' : Token),
    step s (.edit owner symbol name max mintable) = .ok s' → 0 < max →
    AMap.get? s'.tokens symbol = some t' → supplyOf s' t'.minUnit ≤ max * pow10 t'.scale

/-- **C09(3d)** an accepted edit that sets a maximum leaves the circulating amount within it — in
every state, whatever fraction of a main unit circulates -/
theorem max_never_below_circulating : MaxNeverBelowCirculating := by
  intro s s' owner symbol name max mintable t' hs hmax ht'
  obtain ⟨t, ht, _, hm, rfl⟩ := edit_ok hs
  simp only at ht'
  rw [AMap.get?_set_self] at ht'
  cases ht'
  show supplyOf s t.minUnit ≤ max * pow10 t.scale
  have : ¬ (max * pow10 t.scale < supplyOf s t.minUnit) := fun hc => hm ⟨hmax, hc⟩
  omega

/-- regression example (the former witness of F-tok-1): issue 2.0 at scale 1, burn 0.5, then
`maxSupply := 1` -/
def witnessState : State :=
  genesis { bal := [(("A0", "stake"), 100000)], supply := [("stake", 100000)] } {} {}

def witnessOps : List Op :=
  [.issue "A0" "abc" "n1" "uabc" 1 2 2 false, .burn "A0" "uabc" 5, .edit "A0" "abc" "[do-not-modify]" 1 ""]

/-- … the edit is now rejected: 1.5 circulates and the maximum is still 2 -/
theorem former_witness_rejected :
    supplyOf (run witnessState witnessOps) "uabc" = 15 ∧
    (AMap.get? (run witnessState witnessOps).tokens "abc").map (fun t => (t.minUnit, t.maxSupply, t.scale))
      = some ("uabc", 2, 1) ∧
    (match step (run witnessState (witnessOps.take 2)) (.edit "A0" "abc" "[do-not-modify]" 1 "") with
     | .ok _ => false | .error _ => true) = true := by
  decide +kernel

/-! ### 4. Burned amounts are tallied exactly -/

theorem burned_mintH {s s' : State} {owner to denom : String} {amount : Int}
    (hh : handleMint s owner to denom amount = .ok s') : s'.burned = s.burned := (same_mintH hh).2.2.2

theorem burned_burnH {s s' : State} {sender denom : String} {amount : Int}
    (hh : handleBurn s sender denom amount = .ok s') (d : String) :
    burnedOf s' d = burnedOf s d + (if denom = d then amount.toNat else 0) := by
  obtain ⟨_, b, _, rfl⟩ := burnH_ok hh
  simp only [burnedOf]
  by_cases hk : denom = d
  · subst hk; simp [getD_set_self]
  · simp [hk, getD_set_other _ _ _ _ _ hk]

theorem burnAdds_norm (d : String) (s : State) (op : Op) : burnAdds d s (norm op) = burnAdds d s op := by
  cases op <;> rfl

theorem burned_step_core (s s' : State) (op : Op) (hn : norm op = op) (hs : step s op = .ok s') (d : String) :
    burnedOf s' d = burnedOf s d + burnAdds d s op := by
  cases op with
  | issue owner symbol name minUnit scale init max mintable =>
    obtain ⟨_, _, s1, h1, _, _, rfl⟩ := issue_ok hs
    obtain ⟨_, _, _, _, _, _, _, rfl⟩ := deductFee_ok h1
    rfl
  | edit owner symbol name max mintable =>
    obtain ⟨t, _, _, _, rfl⟩ := edit_ok hs
    rfl
  | mint owner to denom amount =>
    simp only [burnedOf, burnAdds, burned_mintH (mint_handle hs).2.2, Nat.add_zero]
  | burn sender denom amount => exact burned_burnH (burn_handle hs).2.2 d
  | transferOwner src dst symbol =>
    obtain ⟨_, t, _, _, rfl⟩ := transferOwner_ok hs
    rfl
  | swapFee sender to denom amount =>
    obtain ⟨_, tb, target, ratio, tm, b, m, _, _, _, _, h2⟩ := swapFee_ok hs
    obtain ⟨_, _, _, bk, _, rfl⟩ := swapMoves_ok h2
    rfl
  | deploy authority name symbol minUnit scale =>
    obtain ⟨t, _, _, rfl⟩ := deploy_ok hs
    rfl
  | swapToErc20 sender receiver denom amount =>
    obtain ⟨_, _, t, b, _, _, _, rfl⟩ := swapTo_ok hs
    rfl
  | swapFromErc20 sender receiver denom amount =>
    obtain ⟨_, _, _, t, _, _, _, rfl⟩ := swapFrom_ok hs
    rfl
  | hookSwap src c to amount =>
    obtain ⟨_, _, h3⟩ := hook_ok hs
    rcases h3 with ⟨rfl, _⟩ | ⟨sym, t, _, _, _, _, rfl⟩ <;> rfl
  | evmFault mode => rw [evmFault_ok hs]; rfl
  | updateParams authority p => rw [(updateParams_ok hs).2]; rfl
  | evmTx target logs =>
    have f := logs_frame (evmTx_ok hs)
    simp only [burnedOf, burnAdds, f.burned, Nat.add_zero]
  | legacyIssue _ _ _ _ _ _ _ _ => cases hn
  | legacyEdit _ _ _ _ _ => cases hn
  | legacyTransferOwner _ _ _ => cases hn
  | legacyMint owner to symbol amount =>
    obtain ⟨_, _, t, _, _, _, hh⟩ := legacyMint_ok hs
    simp only [burnedOf, burnAdds, burned_mintH hh, Nat.add_zero]
  | legacyBurn sender symbol amount =>
    obtain ⟨_, _, t, ht, _, _, hh⟩ := legacyBurn_ok hs
    rw [burned_burnH hh d]
    simp only [burnAdds, ht, Int.toNat_natCast]
  | upgradeErc20 authority impl =>
    obtain ⟨_, _, _, _, _, rfl⟩ := upgrade_ok hs
    rfl

/-- **C09(4a)** an accepted burn adds exactly its amount to the tally of its denomination — a legacy
burn `amount · 10^scale` to the tally of the min unit of the token its symbol names; no other
operation touches any tally -/
theorem burned_step (s s' : State) (op : Op) (hs : step s op = .ok s') (d : String) :
    burnedOf s' d = burnedOf s d + burnAdds d s op := by
  rw [← burnAdds_norm]
  exact burned_step_core s s' (norm op) (norm_idem op) (by rw [← step_norm]; exact hs) d

theorem burnSum_cons (d : String) (s : State) (op : Op) (rest : List Op) :
    burnSum d s (op :: rest) =
      (match step s op with | .ok _ => burnAdds d s op | .error _ => 0) + burnSum d (apply s op) rest := rfl

/-- **C09(4b)** over every history (v1 and legacy burns mixed): the tally of a denomination is what
it was plus the sum of the accepted burns of that denomination -/
theorem burned_tally_run (s : State) (ops : List Op) (d : String) :
    burnedOf (run s ops) d = burnedOf s d + burnSum d s ops := by
  induction ops generalizing s with
  | nil => simp [run, burnSum]
  | cons op rest ih =>
    show burnedOf (run (apply s op) rest) d = _
    rw [ih (apply s op), burnSum_cons]
    unfold apply
    cases hs : step s op with
    | ok s' => simp only; rw [burned_step s s' op hs d]; omega
    | error e => simp

/-- **C09(4c)** an accepted burn takes exactly the amount from the burner and from the supply -/
theorem burn_exact (s s' : State) (sender denom : String) (amount : Int)
    (hs : step s (.burn sender denom amount) = .ok s') :
    0 < amount ∧ amount.toNat ≤ balOf s sender denom ∧
    balOf s' sender denom = balOf s sender denom - amount.toNat ∧
    supplyOf s' denom = supplyOf s denom - amount.toNat ∧
    burnedOf s' denom = burnedOf s denom + amount.toNat ∧
    (∀ a' d', (sender, denom) ≠ (a', d') → balOf s' a' d' = balOf s a' d') ∧
    (∀ d', denom ≠ d' → supplyOf s' d' = supplyOf s d') ∧ s'.tokens = s.tokens := by
  obtain ⟨hpos, _, b, hb, rfl⟩ := burn_step_ok hs
  obtain ⟨e1, e2, e3, e4, e5⟩ := burn_ok hb
  exact ⟨hpos, e1, e2, e3, by simp [burnedOf, getD_set_self], e4, e5, rfl⟩

/-! ### 5. The fee is split between the fee pool and burning; the module account keeps nothing -/

/-- **C09(5a)** `feeHandler`: the fee leaves the payer, `tax` of it reaches the fee collector,
`fee - tax` is burned, and the token module account ends where it started -/
theorem fee_split (s s' : State) (payer : Addr) (d : String) (fee : Nat)
    (h : feeHandler s payer d fee = .ok s') (hp1 : payer ≠ TM) (hp2 : payer ≠ FC) :
    ∃ tax burned, fee = tax + burned ∧
      balOf s' payer d + fee = balOf s payer d ∧
      balOf s' FC d = balOf s FC d + tax ∧
      supplyOf s' d = supplyOf s d - burned ∧
      balOf s' TM d = balOf s TM d ∧
      (∀ a' d', (a', d') ≠ (payer, d) → (a', d') ≠ (TM, d) → (a', d') ≠ (FC, d) → balOf s' a' d' = balOf s a' d') ∧
      (∀ d', d ≠ d' → supplyOf s' d' = supplyOf s d') := by
  obtain ⟨tax, b', ht, _, he, rfl⟩ := feeHandler_ok h
  exact ⟨tax, fee - tax, by omega, he.payer_ hp1 hp2, he.fc hp1 hp2, he.sup_self, he.tm hp1, he.others, he.sup_other⟩

/-- **C09(5a')** with a sound bank (Σ balances ≤ supply) the burned part leaves the supply exactly -/
theorem fee_burn_exact (s s' : State) (payer : Addr) (d : String) (fee : Nat) (hsound : Sound s.bank)
    (h : feeHandler s payer d fee = .ok s') :
    ∃ tax, tax ≤ fee ∧ taxOf s.params.taxRate fee = some (tax : Int) ∧ supplyOf s' d + (fee - tax) = supplyOf s d := by
  unfold feeHandler at h
  split at h; · cases h
  rename_i tax htax
  split at h; · cases h
  rename_i hr
  split at h; · cases h
  rename_i b' hm
  cases h
  refine ⟨tax.toNat, by omega, ?_, (sound_feeMoves hsound hm).2⟩
  rw [htax]; congr 1; omega

/-- the token module account is untouched by a fee deduction -/
theorem deductFee_module_zero {s s1 : State} {payer fee} (h1 : deductFee s payer fee = .ok s1) (hp : payer ≠ TM)
    (d : String) : balOf s1 TM d = balOf s TM d := by
  obtain ⟨fd, n, tax, b', _, _, he, rfl⟩ := deductFee_ok h1
  by_cases hk : fd = d
  · subst hk; exact he.tm hp
  · refine he.others TM d ?_ ?_ ?_
    · intro e; exact hp (congrArg Prod.fst e).symm
    · intro e; exact hk (congrArg Prod.snd e).symm
    · intro e; exact hk (congrArg Prod.snd e).symm

/-- **C09(5b)** an accepted issue leaves nothing in (and takes nothing from) the module account -/
theorem issue_module_account_zero (s s' : State) (owner symbol name minUnit : String) (scale init max : Nat)
    (mintable : Bool) (hs : step s (.issue owner symbol name minUnit scale init max mintable) = .ok s')
    (hp : owner ≠ TM) (d : String) : balOf s' TM d = balOf s TM d := by
  obtain ⟨_, _, s1, h1, _, _, rfl⟩ := issue_ok hs
  rw [← deductFee_module_zero h1 hp d]
  simp only [addIssued, issuedToken, balOf]
  exact balOf_mint_other _ _ _ _ _ _ (by intro e; cases e; exact hp rfl)

/-- **C09(5c)** … and so does an accepted mint to anyone but the module account itself -/
theorem mint_module_account_zero (s s' : State) (owner to denom : String) (amount : Int)
    (hs : step s (.mint owner to denom amount) = .ok s') (hp : owner ≠ TM) (hr : rcptOf owner to ≠ TM)
    (d : String) : balOf s' TM d = balOf s TM d := by
  obtain ⟨_, _, sym, s1, _, h1, h2⟩ := mint_ok hs
  obtain ⟨_, _, _, _, _, rfl⟩ := mintChecked_ok h2
  rw [← deductFee_module_zero h1 hp d]
  simp only [balOf]
  exact balOf_mint_other _ _ _ _ _ _ (by intro e; exact hr (congrArg Prod.fst e))

/-- **C09(5d)** the fee of an accepted issue: charged to the owner in the fee denomination,
split into tax (to the fee collector) and burn, nothing else moves in that denomination -/
theorem issue_fee_split (s s' : State) (owner symbol name minUnit : String) (scale init max : Nat)
    (mintable : Bool) (hs : step s (.issue owner symbol name minUnit scale init max mintable) = .ok s')
    (hp1 : owner ≠ TM) (hp2 : owner ≠ FC) :
    ∃ fd, ∃ fee tax : Nat, issueFee s symbol.length = .ok (fd, (fee : Int)) ∧ tax ≤ fee ∧
      (fd ≠ minUnit →
        balOf s' owner fd + fee = balOf s owner fd ∧ balOf s' FC fd = balOf s FC fd + tax ∧
        supplyOf s' fd = supplyOf s fd - (fee - tax)) := by
  obtain ⟨_, _, s1, h1, _, _, rfl⟩ := issue_ok hs
  obtain ⟨fd, n, tax, b', hf, ht, he, rfl⟩ := deductFee_ok h1
  refine ⟨fd, n, tax, hf, ht, ?_⟩
  intro hne
  simp only [addIssued, issuedToken, balOf, supplyOf]
  refine ⟨?_, ?_, ?_⟩
  · rw [balOf_mint_other _ _ _ _ _ _ (by intro e; cases e; exact hne rfl)]
    exact he.payer_ hp1 hp2
  · rw [balOf_mint_other _ _ _ _ _ _ (by intro e; cases e; exact hne rfl)]
    exact he.fc hp1 hp2
  · rw [supplyOf_mint_other _ _ _ _ _ (Ne.symm hne)]
    exact he.sup_self

/-! ### 6. The owner index follows ownership -/

theorem ownidx_of_same {s s' : State} (h : OwnIdx s) (e1 : s'.tokens = s.tokens) (e2 : s'.owners = s.owners) :
    OwnIdx s' := by
  constructor
  · intro sym t ht; rw [e1] at ht; rw [e2]; exact h.1 sym t ht
  · intro o sym v hv; rw [e2] at hv; rw [e1]; exact h.2 o sym v hv

/-- replacing a token by one with the same owner keeps the index -/
theorem ownidx_modify {s s' : State} {sym : String} {t t' : Token} (h : OwnIdx s)
    (ht : AMap.get? s.tokens sym = some t) (ho : t'.owner = t.owner)
    (e1 : s'.tokens = AMap.set s.tokens sym t')
    (e2 : ∀ k, AMap.get? s'.owners k = AMap.get? s.owners k) : OwnIdx s' := by
  constructor
  · intro sym2 t2 ht2
    rw [e1, get?_set] at ht2
    rw [e2]
    by_cases hk : sym = sym2
    · subst hk
      simp only [if_true, Option.some.injEq] at ht2
      subst ht2
      rw [ho]; exact h.1 sym t ht
    · simp only [hk, if_false] at ht2
      exact h.1 sym2 t2 ht2
  · intro o sym2 v hv
    rw [e2] at hv
    obtain ⟨hv', t2, ht2, ho2⟩ := h.2 o sym2 v hv
    refine ⟨hv', ?_⟩
    rw [e1, get?_set]
    by_cases hk : sym = sym2
    · subst hk
      rw [ht] at ht2; cases ht2
      exact ⟨t', by simp, by rw [ho]; exact ho2⟩
    · exact ⟨t2, by simp [hk, ht2], ho2⟩

/-- adding a token with a new symbol together with its index entry -/
theorem ownidx_add {s s' : State} {t : Token} {sym : String} (h : OwnIdx s)
    (hn : AMap.get? s.tokens sym = none)
    (e1 : s'.tokens = AMap.set s.tokens sym t)
    (e2 : s'.owners = AMap.set s.owners (t.owner, sym) sym) : OwnIdx s' := by
  constructor
  · intro sym2 t2 ht2
    rw [e1, get?_set] at ht2
    rw [e2, get?_set]
    by_cases hk : sym = sym2
    · subst hk
      simp only [if_true, Option.some.injEq] at ht2
      subst ht2
      simp
    · simp only [hk, if_false] at ht2
      have : (t.owner, sym) ≠ (t2.owner, sym2) := by intro e; exact hk (congrArg Prod.snd e)
      simp only [this, if_false]
      exact h.1 sym2 t2 ht2
  · intro o sym2 v hv
    rw [e2, get?_set] at hv
    rw [e1]
    by_cases hk : (t.owner, sym) = (o, sym2)
    · simp only [hk, if_true, Option.some.injEq] at hv
      cases hk
      exact ⟨hv.symm, t, by simp [get?_set], rfl⟩
    · simp only [hk, if_false] at hv
      obtain ⟨hv', t2, ht2, ho2⟩ := h.2 o sym2 v hv
      have hne : sym ≠ sym2 := by intro e; rw [e, ht2] at hn; cases hn
      exact ⟨hv', t2, by rw [get?_set]; simp [hne, ht2], ho2⟩

theorem TM_ne_empty : TM ≠ "" := by decide

theorem ownidx_step_core (s s' : State) (op : Op) (hn : norm op = op) (hwf : WF s) (h : OwnIdx s)
    (hs : step s op = .ok s') : OwnIdx s' := by
  cases op with
  | issue owner symbol name minUnit scale init max mintable =>
    obtain ⟨_, _, s1, h1, hc1, _, rfl⟩ := issue_ok hs
    obtain ⟨_, _, _, _, _, _, _, rfl⟩ := deductFee_ok h1
    exact ownidx_add (t := issuedToken owner symbol name minUnit scale init max mintable) h (contains_false hc1) rfl rfl
  | edit owner symbol name max mintable =>
    obtain ⟨t, ht, _, _, rfl⟩ := edit_ok hs
    exact ownidx_modify (t' := edited t name max mintable) h ht rfl rfl (fun _ => rfl)
  | mint owner to denom amount =>
    obtain ⟨e1, _, e3, _⟩ := same_mintH (mint_handle hs).2.2
    exact ownidx_of_same h e1 e3
  | burn sender denom amount =>
    obtain ⟨e1, _, e3⟩ := same_burnH (burn_handle hs).2.2
    exact ownidx_of_same h e1 e3
  | legacyIssue _ _ _ _ _ _ _ _ => cases hn
  | legacyEdit _ _ _ _ _ => cases hn
  | legacyTransferOwner _ _ _ => cases hn
  | legacyMint owner to symbol amount =>
    obtain ⟨_, _, t, _, _, _, hh⟩ := legacyMint_ok hs
    obtain ⟨e1, _, e3, _⟩ := same_mintH hh
    exact ownidx_of_same h e1 e3
  | legacyBurn sender symbol amount =>
    obtain ⟨_, _, t, _, _, _, hh⟩ := legacyBurn_ok hs
    obtain ⟨e1, _, e3⟩ := same_burnH hh
    exact ownidx_of_same h e1 e3
  | upgradeErc20 authority impl =>
    obtain ⟨_, _, _, _, _, rfl⟩ := upgrade_ok hs
    exact ownidx_of_same h rfl rfl
  | transferOwner src dst symbol =>
    obtain ⟨_, t, ht, ho, rfl⟩ := transferOwner_ok hs
    constructor
    · intro sym2 t2 ht2
      simp only at ht2 ⊢
      rw [get?_set] at ht2
      rw [get?_set]
      by_cases hk : symbol = sym2
      · subst hk
        simp only [if_true, Option.some.injEq] at ht2
        subst ht2
        simp
      · simp only [hk, if_false] at ht2
        have n1 : (dst, symbol) ≠ (t2.owner, sym2) := by intro e; exact hk (congrArg Prod.snd e)
        have n2 : (src, symbol) ≠ (t2.owner, sym2) := by intro e; exact hk (congrArg Prod.snd e)
        simp only [n1, if_false]
        rw [get?_erase_other _ _ _ n2]
        exact h.1 sym2 t2 ht2
    · intro o sym2 v hv
      simp only at hv ⊢
      rw [get?_set] at hv
      by_cases hk : (dst, symbol) = (o, sym2)
      · simp only [hk, if_true, Option.some.injEq] at hv
        cases hk
        exact ⟨hv.symm, { t with owner := dst }, by simp [get?_set], rfl⟩
      · simp only [hk, if_false] at hv
        by_cases hk2 : (src, symbol) = (o, sym2)
        · rw [← hk2, get?_erase_self] at hv; cases hv
        · rw [get?_erase_other _ _ _ hk2] at hv
          obtain ⟨hv', t2, ht2, ho2⟩ := h.2 o sym2 v hv
          refine ⟨hv', ?_⟩
          have hne : symbol ≠ sym2 := by
            intro e
            subst e
            rw [ht] at ht2; cases ht2
            apply hk2
            rw [ho, ho2]
          exact ⟨t2, by rw [get?_set]; simp [hne, ht2], ho2⟩
  | swapFee sender to denom amount =>
    obtain ⟨_, tb, target, ratio, tm, b, m, _, _, _, _, h2⟩ := swapFee_ok hs
    obtain ⟨_, _, _, bk, _, rfl⟩ := swapMoves_ok h2
    exact ownidx_of_same h rfl rfl
  | deploy authority name symbol minUnit scale =>
    obtain ⟨t, hb, hc, rfl⟩ := deploy_ok hs
    rcases buildErc20_cases hwf hb with ⟨e1, _⟩ | ⟨e1, _, _, _, _⟩
    · have hidx := h.1 t.symbol t e1
      refine ownidx_modify (t' := { t with contract := s.nonce + 1 }) h e1 rfl rfl ?_
      intro k
      simp only
      split
      · rfl
      · rw [get?_set]
        by_cases hk : (t.owner, t.symbol) = k
        · subst hk; simp [hidx]
        · simp [hk]
    · -- a new ICS20 token is owned by the module account
      have hown : t.owner ≠ "" := by
        unfold buildErc20Token at hb
        split at hb
        · split at hb
          · cases hb
          · rename_i t' ht'
            cases hb
            obtain ⟨_, e2, _⟩ := tokenByMinUnit_wf hwf ht'
            rw [e2] at e1; cases e1
        · split at hb
          · cases hb
          · cases hb; exact TM_ne_empty
      refine ownidx_add (t := { t with contract := s.nonce + 1 }) h e1 rfl ?_
      simp [hown]
  | swapToErc20 sender receiver denom amount =>
    obtain ⟨_, _, t, b, _, _, _, rfl⟩ := swapTo_ok hs
    exact ownidx_of_same h rfl rfl
  | swapFromErc20 sender receiver denom amount =>
    obtain ⟨_, _, _, t, _, _, _, rfl⟩ := swapFrom_ok hs
    exact ownidx_of_same h rfl rfl
  | hookSwap src c to amount =>
    obtain ⟨_, _, h3⟩ := hook_ok hs
    rcases h3 with ⟨rfl, _⟩ | ⟨sym, t, _, _, _, _, rfl⟩
    · exact ownidx_of_same h rfl rfl
    · exact ownidx_of_same h rfl rfl
  | evmFault mode => rw [evmFault_ok hs]; exact ownidx_of_same h rfl rfl
  | updateParams authority p => rw [(updateParams_ok hs).2]; exact ownidx_of_same h rfl rfl
  | evmTx target logs =>
    have f := logs_frame (evmTx_ok hs)
    exact ownidx_of_same h f.tokens f.owners

/-- **C09(6a)** every accepted operation keeps the owner index in step with the token table: a
hand-over (v1 or legacy) removes the old owner's entry and adds the new owner's -/
theorem ownidx_step (s s' : State) (op : Op) (hwf : WF s) (h : OwnIdx s) (hs : step s op = .ok s') : OwnIdx s' :=
  ownidx_step_core s s' (norm op) (norm_idem op) hwf h (by rw [← step_norm]; exact hs)

theorem ownidx_genesis (bank : Bank) (p : Params) (env : Env) : OwnIdx (genesis bank p env) := by
  constructor
  · intro sym t ht
    simp only [genesis, AMap.get?] at ht
    split at ht
    · rename_i hk
      cases ht; subst hk
      simp [genesis, AMap.get?, nativeToken]
    · cases ht
  · intro o sym v hv
    simp only [genesis, AMap.get?] at hv
    split at hv
    · rename_i hk
      cases hv; cases hk
      exact ⟨rfl, nativeToken, by simp [genesis, AMap.get?], rfl⟩
    · cases hv

/-- **C09(6b)** over every history from genesis the owner index lists exactly the current owners -/
theorem ownidx_run (s : State) (ops : List Op) (hwf : WF s) (h : OwnIdx s) : OwnIdx (run s ops) := by
  induction ops generalizing s with
  | nil => exact h
  | cons op rest ih =>
    refine ih (apply s op) (wf_apply s op hwf) ?_
    unfold apply
    cases hs : step s op with
    | ok s' => exact ownidx_step s s' op hwf h hs
    | error e => exact h

/-! ### 7. The legacy (v1beta1) Msg service refines the v1 service

Both services are registered on the router and end in the same msg-server methods.  Where the
adapter copies fields (issue, edit, transfer-owner) the legacy message and the v1 message with the
same fields are the same operation — same `ValidateBasic` rules, same outcome, accepted or rejected.
For mint and burn the adapter resolves the token by SYMBOL and calls the v1 method with the coin
`amount · 10^scale` of that token's min unit; the v1 `ValidateBasic` is not run on that coin, so the
exact statement is about the msg-server method, and about the whole v1 message whenever the min unit
is one a v1 message may carry (always, except for a token `DeployERC20` created for an ICS20 denom). -/

/-- **C09(7a)** a legacy issue is the v1 issue with the same fields -/
theorem legacy_issue_refines_v1 (s : State) (owner symbol name minUnit : String) (scale init max : Nat) (mintable : Bool) :
    step s (.legacyIssue owner symbol name minUnit scale init max mintable) =
    step s (.issue owner symbol name minUnit scale init max mintable) := rfl

/-- **C09(7b)** a legacy edit is the v1 edit with the same fields -/
theorem legacy_edit_refines_v1 (s : State) (owner symbol name : String) (max : Nat) (mintable : String) :
    step s (.legacyEdit owner symbol name max mintable) = step s (.edit owner symbol name max mintable) := rfl

/-- **C09(7c)** a legacy hand-over is the v1 hand-over with the same fields -/
theorem legacy_transfer_owner_refines_v1 (s : State) (src dst symbol : String) :
    step s (.legacyTransferOwner src dst symbol) = step s (.transferOwner src dst symbol) := rfl

/-- **C09(7d)** an accepted legacy mint of `amount` main units of `symbol` has exactly the effect of
the v1 mint of `amount · 10^scale` of the min unit of the token `symbol` names: it is that call of the
v1 msg-server method, and it is the v1 *message* whenever the min unit is a legal v1 denom -/
theorem legacy_mint_refines_v1 (s s' : State) (owner to symbol : String) (amount : Nat)
    (hs : step s (.legacyMint owner to symbol amount) = .ok s') :
    0 < amount ∧ amount ≤ maxU64 ∧
    ∃ t, AMap.get? s.tokens symbol = some t ∧
      handleMint s owner to t.minUnit ((amount * pow10 t.scale : Nat) : Int) = .ok s' ∧
      (validSymbol t.minUnit = true →
        step s (.mint owner to t.minUnit ((amount * pow10 t.scale : Nat) : Int)) = .ok s') := by
  have hs0 : stepLegacyMint s owner to symbol amount = .ok s' := hs
  obtain ⟨hpos, hle, t, ht, _, _, hh⟩ := legacyMint_ok hs0
  refine ⟨hpos, hle, t, ht, hh, ?_⟩
  intro hv
  show stepMint s owner to t.minUnit _ = .ok s'
  unfold stepLegacyMint at hs0
  split at hs0; · cases hs0
  rename_i hval
  have hval' : legacyMintValid owner to symbol amount = true := by simpa using hval
  unfold legacyMintValid at hval'
  simp only [Bool.and_eq_true, decide_eq_true_eq] at hval'
  unfold stepMint
  have hp := legacy_amount_pos (scale := t.scale) hpos
  have : (isAddr owner && (to = "" || isAddr to) && decide (0 < ((amount * pow10 t.scale : Nat) : Int)) &&
      validSymbol t.minUnit) = true := by
    simp only [Bool.and_eq_true, decide_eq_true_eq]
    exact ⟨⟨⟨hval'.1.1.1.1, hval'.1.1.1.2⟩, hp⟩, hv⟩
  simp only [this, Bool.not_true, Bool.false_eq_true, if_false]
  exact hh

/-- **C09(7e)** an accepted legacy burn of `amount` main units of `symbol` has exactly the effect of
the v1 burn of `amount · 10^scale` of the min unit of the token `symbol` names -/
theorem legacy_burn_refines_v1 (s s' : State) (sender symbol : String) (amount : Nat)
    (hs : step s (.legacyBurn sender symbol amount) = .ok s') :
    0 < amount ∧ amount ≤ maxU64 ∧
    ∃ t, AMap.get? s.tokens symbol = some t ∧
      handleBurn s sender t.minUnit ((amount * pow10 t.scale : Nat) : Int) = .ok s' ∧
      (validSymbol t.minUnit = true →
        step s (.burn sender t.minUnit ((amount * pow10 t.scale : Nat) : Int)) = .ok s') := by
  have hs0 : stepLegacyBurn s sender symbol amount = .ok s' := hs
  obtain ⟨hpos, hle, t, ht, _, _, hh⟩ := legacyBurn_ok hs0
  refine ⟨hpos, hle, t, ht, hh, ?_⟩
  intro hv
  show stepBurn s sender t.minUnit _ = .ok s'
  unfold stepLegacyBurn at hs0
  split at hs0; · cases hs0
  rename_i hval
  have hval' : legacyBurnValid sender symbol amount = true := by simpa using hval
  unfold legacyBurnValid at hval'
  simp only [Bool.and_eq_true, decide_eq_true_eq] at hval'
  unfold stepBurn
  have hp := legacy_amount_pos (scale := t.scale) hpos
  have : (isAddr sender && decide (0 < ((amount * pow10 t.scale : Nat) : Int)) && validSymbol t.minUnit) = true := by
    simp only [Bool.and_eq_true, decide_eq_true_eq]
    exact ⟨⟨hval'.1.1.1, hp⟩, hv⟩
  simp only [this, Bool.not_true, Bool.false_eq_true, if_false]
  exact hh

/-- **C09(7f)** owner-only through the legacy service: an accepted legacy edit / hand-over was sent by
the current owner; an accepted legacy mint by the current owner of a mintable token -/
theorem legacy_edit_only_owner (s s' : State) (owner symbol name : String) (max : Nat) (mintable : String)
    (h : step s (.legacyEdit owner symbol name max mintable) = .ok s') : ownerOf s symbol = some owner :=
  edit_only_owner s s' owner symbol name max mintable h

theorem legacy_transfer_only_owner (s s' : State) (src dst symbol : String)
    (h : step s (.legacyTransferOwner src dst symbol) = .ok s') :
    ownerOf s symbol = some src ∧ ownerOf s' symbol = some dst :=
  transfer_only_owner s s' src dst symbol h

theorem mintH_only_owner_and_mintable {s s' : State} {owner to denom : String} {amount : Int}
    (hh : handleMint s owner to denom amount = .ok s') :
    ∃ t, tokenByMinUnit s denom = some t ∧ t.owner = owner ∧ t.mintable = true := by
  obtain ⟨_, sym, s1, _, h1, h2⟩ := mintH_ok hh
  obtain ⟨_, _, _, _, _, _, _, rfl⟩ := deductFee_ok h1
  obtain ⟨t, ht, ho, hm, _, _⟩ := mintChecked_ok h2
  exact ⟨t, ht, ho.symm, hm⟩

theorem legacy_mint_only_owner_and_mintable (s s' : State) (hwf : WF s) (owner to symbol : String) (amount : Nat)
    (h : step s (.legacyMint owner to symbol amount) = .ok s') :
    ∃ t, AMap.get? s.tokens symbol = some t ∧ t.owner = owner ∧ t.mintable = true := by
  obtain ⟨_, _, t, ht, _, _, hh⟩ := legacyMint_ok h
  obtain ⟨t', ht', ho, hm⟩ := mintH_only_owner_and_mintable hh
  obtain ⟨emu, etok, _⟩ := tokenByMinUnit_wf hwf ht'
  have := (minUnit_identifies_one_token hwf ht etok emu.symm).2
  subst this
  exact ⟨t, ht, ho, hm⟩

/-- … so a stranger's legacy message is rejected and changes nothing -/
theorem legacy_edit_by_stranger_rejected (s : State) (o sender symbol name : String) (max : Nat) (mintable : String)
    (ho : ownerOf s symbol = some o) (hne : sender ≠ o) :
    apply s (.legacyEdit sender symbol name max mintable) = s :=
  edit_by_stranger_rejected s o sender symbol name max mintable ho hne

theorem legacy_transfer_by_stranger_rejected (s : State) (o sender dst symbol : String)
    (ho : ownerOf s symbol = some o) (hne : sender ≠ o) :
    apply s (.legacyTransferOwner sender dst symbol) = s :=
  transfer_by_stranger_rejected s o sender dst symbol ho hne

theorem legacy_mint_by_stranger_or_unmintable_rejected (s : State) (hwf : WF s) (t : Token)
    (sender to symbol : String) (amount : Nat)
    (ht : AMap.get? s.tokens symbol = some t) (hne : sender ≠ t.owner ∨ t.mintable = false) :
    apply s (.legacyMint sender to symbol amount) = s := by
  unfold apply
  cases hs : step s (.legacyMint sender to symbol amount) with
  | error e => rfl
  | ok s' =>
    obtain ⟨t', ht', ho, hm⟩ := legacy_mint_only_owner_and_mintable s s' hwf sender to symbol amount hs
    rw [ht] at ht'; cases ht'
    rcases hne with hne | hne
    · exact absurd ho.symm hne
    · rw [hm] at hne; cases hne

/-- **C09(7g)** the maximum can never be lowered below what circulates through the legacy edit either -/
theorem legacy_max_never_below_circulating (s s' : State) (owner symbol name : String) (max : Nat) (mintable : String)
    (t' : Token) (hs : step s (.legacyEdit owner symbol name max mintable) = .ok s') (hmax : 0 < max)
    (ht' : AMap.get? s'.tokens symbol = some t') : supplyOf s' t'.minUnit ≤ max * pow10 t'.scale :=
  max_never_below_circulating s s' owner symbol name max mintable t' hs hmax ht'

/-- **C09(7h)** an accepted legacy burn takes exactly `amount · 10^scale` of the token's min unit from
the burner and from the supply, and adds exactly that to the burned tally -/
theorem legacy_burn_exact (s s' : State) (sender symbol : String) (amount : Nat)
    (hs : step s (.legacyBurn sender symbol amount) = .ok s') :
    ∃ t, AMap.get? s.tokens symbol = some t ∧ 0 < amount ∧
      amount * pow10 t.scale ≤ balOf s sender t.minUnit ∧
      balOf s' sender t.minUnit = balOf s sender t.minUnit - amount * pow10 t.scale ∧
      supplyOf s' t.minUnit = supplyOf s t.minUnit - amount * pow10 t.scale ∧
      burnedOf s' t.minUnit = burnedOf s t.minUnit + amount * pow10 t.scale ∧
      (∀ a' d', (sender, t.minUnit) ≠ (a', d') → balOf s' a' d' = balOf s a' d') ∧
      (∀ d', t.minUnit ≠ d' → supplyOf s' d' = supplyOf s d') ∧ s'.tokens = s.tokens := by
  obtain ⟨hpos, _, t, ht, _, _, hh⟩ := legacyBurn_ok hs
  obtain ⟨_, b, hb, rfl⟩ := burnH_ok hh
  rw [Int.toNat_natCast] at hb
  obtain ⟨e1, e2, e3, e4, e5⟩ := burn_ok hb
  refine ⟨t, ht, hpos, e1, e2, e3, ?_, e4, e5, rfl⟩
  simp only [burnedOf, getD_set_self, Int.toNat_natCast]

/-- **C09(7i)** the fee of a legacy issue / mint is the fee of the v1 message: nothing stays in the
module account -/
theorem legacy_issue_module_account_zero (s s' : State) (owner symbol name minUnit : String) (scale init max : Nat)
    (mintable : Bool) (hs : step s (.legacyIssue owner symbol name minUnit scale init max mintable) = .ok s')
    (hp : owner ≠ TM) (d : String) : balOf s' TM d = balOf s TM d :=
  issue_module_account_zero s s' owner symbol name minUnit scale init max mintable hs hp d

theorem legacy_mint_module_account_zero (s s' : State) (owner to symbol : String) (amount : Nat)
    (hs : step s (.legacyMint owner to symbol amount) = .ok s') (hp : owner ≠ TM) (hr : rcptOf owner to ≠ TM)
    (d : String) : balOf s' TM d = balOf s TM d := by
  obtain ⟨_, _, t, _, _, _, hh⟩ := legacyMint_ok hs
  obtain ⟨_, sym, s1, _, h1, h2⟩ := mintH_ok hh
  obtain ⟨_, _, _, _, _, rfl⟩ := mintChecked_ok h2
  rw [← deductFee_module_zero h1 hp d]
  simp only [balOf]
  exact balOf_mint_other _ _ _ _ _ _ (by intro e; exact hr (congrArg Prod.fst e))

end Irismod.Props.C09
