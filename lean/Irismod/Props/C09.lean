/-
C09 — Token: identity is unique, only the owner governs, supply never exceeds the cap.
Headline theorems about the model `Irismod.Token` (every state, every operation, every history).
-/
import Irismod.Proofs.Token

namespace Irismod.Props.C09
open Irismod Irismod.Sdk Irismod.Token Irismod.Spec.C09 Irismod.Proofs.Token

/-! ### 1. Identity: the symbol and min-unit maps are injective and never rebound -/

/-- a state whose tables have the same lookups is as well-formed -/
theorem wf_of_lookups {s s' : State} (h : WF s)
    (e1 : ∀ k, AMap.get? s'.tokens k = AMap.get? s.tokens k)
    (e2 : ∀ k, AMap.get? s'.minUnits k = AMap.get? s.minUnits k) : WF s' := by
  constructor
  · intro sym t ht
    rw [e1] at ht
    rw [e2]
    exact h.1 sym t ht
  · intro m sym hm
    rw [e2] at hm
    obtain ⟨t, ht, hmu⟩ := h.2 m sym hm
    exact ⟨t, by rw [e1]; exact ht, hmu⟩

/-- replacing a token by one with the same symbol and min unit -/
theorem wf_modify {s s' : State} {sym : String} {t t' : Token} (h : WF s)
    (ht : AMap.get? s.tokens sym = some t) (h1 : t'.symbol = t.symbol) (h2 : t'.minUnit = t.minUnit)
    (e1 : ∀ k, AMap.get? s'.tokens k = if sym = k then some t' else AMap.get? s.tokens k)
    (e2 : ∀ k, AMap.get? s'.minUnits k = AMap.get? s.minUnits k) : WF s' := by
  have hsym := h.1 sym t ht
  constructor
  · intro sym2 t2 ht2
    rw [e1] at ht2
    rw [e2]
    by_cases hk : sym = sym2
    · subst hk
      simp only [if_true, Option.some.injEq] at ht2
      subst ht2
      rw [h1, h2]; exact hsym
    · simp only [hk, if_false] at ht2
      exact h.1 sym2 t2 ht2
  · intro m sym2 hm
    rw [e2] at hm
    obtain ⟨t2, ht2, hmu⟩ := h.2 m sym2 hm
    by_cases hk : sym = sym2
    · subst hk
      rw [ht] at ht2; cases ht2
      exact ⟨t', by rw [e1]; simp, by rw [h2]; exact hmu⟩
    · exact ⟨t2, by rw [e1]; simp [hk, ht2], hmu⟩

/-- adding a token whose symbol and min unit are both new -/
theorem wf_add {s s' : State} {t : Token} (h : WF s)
    (hn1 : AMap.get? s.tokens t.symbol = none) (hn2 : AMap.get? s.minUnits t.minUnit = none)
    (e1 : ∀ k, AMap.get? s'.tokens k = if t.symbol = k then some t else AMap.get? s.tokens k)
    (e2 : ∀ k, AMap.get? s'.minUnits k = if t.minUnit = k then some t.symbol else AMap.get? s.minUnits k) :
    WF s' := by
  constructor
  · intro sym2 t2 ht2
    rw [e1] at ht2
    by_cases hk : t.symbol = sym2
    · simp only [hk, if_true, Option.some.injEq] at ht2
      subst ht2
      exact ⟨hk, by rw [e2]; simp [hk]⟩
    · simp only [hk, if_false] at ht2
      obtain ⟨hs2, hm2⟩ := h.1 sym2 t2 ht2
      refine ⟨hs2, ?_⟩
      rw [e2]
      have : t.minUnit ≠ t2.minUnit := by
        intro e; rw [e, hm2] at hn2; cases hn2
      simp [this, hm2]
  · intro m sym2 hm
    rw [e2] at hm
    by_cases hk : t.minUnit = m
    · simp only [hk, if_true, Option.some.injEq] at hm
      subst hm
      exact ⟨t, by rw [e1]; simp, hk⟩
    · simp only [hk, if_false] at hm
      obtain ⟨t2, ht2, hmu⟩ := h.2 m sym2 hm
      have : t.symbol ≠ sym2 := by
        intro e; rw [e, ht2] at hn1; cases hn1
      exact ⟨t2, by rw [e1]; simp [this, ht2], hmu⟩

/-- the token a min unit resolves to has that min unit (and the indexed symbol) -/
theorem tokenByMinUnit_wf {s : State} (h : WF s) {m : String} {t : Token} (ht : tokenByMinUnit s m = some t) :
    t.minUnit = m ∧ AMap.get? s.tokens t.symbol = some t ∧ AMap.get? s.minUnits m = some t.symbol := by
  unfold tokenByMinUnit at ht
  split at ht
  · cases ht
  · rename_i sym hs
    obtain ⟨t2, ht2, hmu⟩ := h.2 m sym hs
    rw [ht2] at ht; cases ht
    have := (h.1 sym t ht2).1
    subst this
    exact ⟨hmu, ht2, hs⟩

/-- **C09(1a)** two tokens with the same min unit are the same token: the min-unit map is injective -/
theorem minUnit_identifies_one_token {s : State} (h : WF s) {sym1 sym2 : String} {t1 t2 : Token}
    (h1 : AMap.get? s.tokens sym1 = some t1) (h2 : AMap.get? s.tokens sym2 = some t2)
    (hm : t1.minUnit = t2.minUnit) : sym1 = sym2 ∧ t1 = t2 := by
  have a := (h.1 sym1 t1 h1).2
  have b := (h.1 sym2 t2 h2).2
  rw [hm, b] at a
  cases a
  rw [h1] at h2; cases h2
  exact ⟨rfl, rfl⟩

/-- the index entries of two different min units name two different symbols -/
theorem minUnit_index_injective {s : State} (h : WF s) {m1 m2 sym : String}
    (h1 : AMap.get? s.minUnits m1 = some sym) (h2 : AMap.get? s.minUnits m2 = some sym) : m1 = m2 := by
  obtain ⟨t1, ht1, e1⟩ := h.2 m1 sym h1
  obtain ⟨t2, ht2, e2⟩ := h.2 m2 sym h2
  rw [ht1] at ht2; cases ht2
  rw [← e1, ← e2]

theorem wf_genesis (bank : Bank) (p : Params) (env : Env) : WF (genesis bank p env) := by
  constructor
  · intro sym t ht
    simp only [genesis, AMap.get?] at ht
    split at ht
    · rename_i hk
      cases ht; subst hk
      exact ⟨rfl, by simp [genesis, AMap.get?, nativeToken]⟩
    · cases ht
  · intro m sym hm
    simp only [genesis, AMap.get?] at hm
    split at hm
    · rename_i hk
      cases hm; subst hk
      exact ⟨nativeToken, by simp [genesis, AMap.get?], rfl⟩
    · cases hm

theorem wf_empty : WF ({} : State) := by
  constructor
  · intro sym t ht; simp [AMap.get?] at ht
  · intro m sym hm; simp [AMap.get?] at hm

/-- the token `buildERC20Token` returns for an existing min unit, or a fresh identity -/
theorem buildErc20_cases {s : State} (h : WF s) {name symbol minUnit : String} {scale : Nat} {t : Token}
    (hb : buildErc20Token s name symbol minUnit scale = .ok t) :
    (AMap.get? s.tokens t.symbol = some t ∧ AMap.get? s.minUnits t.minUnit = some t.symbol) ∨
    (AMap.get? s.tokens t.symbol = none ∧ AMap.get? s.minUnits t.minUnit = none ∧ t.contract = 0 ∧
      t.symbol = symbol ∧ t.minUnit = minUnit) := by
  unfold buildErc20Token at hb
  split at hb
  · split at hb
    · cases hb
    · rename_i t' ht'
      cases hb
      obtain ⟨e1, e2, e3⟩ := tokenByMinUnit_wf h ht'
      left; exact ⟨e2, by rw [e1]; exact e3⟩
  · rename_i hc
    split at hb
    · cases hb
    · rename_i hs
      cases hb
      right
      exact ⟨contains_false (by simpa using hs), contains_false (by simpa using hc), rfl, rfl, rfl⟩

/-- **C09(1b)** every accepted operation — of the whole module, conversions and deployment
included — keeps the symbol table and the min-unit index consistent -/
theorem wf_step (s s' : State) (op : Op) (h : WF s) (hs : step s op = .ok s') : WF s' := by
  cases op with
  | issue owner symbol name minUnit scale init max mintable =>
    obtain ⟨_, _, s1, h1, hc1, hc2, rfl⟩ := issue_ok hs
    obtain ⟨d, n, tax, b', _, _, _, rfl⟩ := deductFee_ok h1
    refine wf_add (t := issuedToken owner symbol name minUnit scale init max mintable)
      h (contains_false hc1) (contains_false hc2) ?_ ?_
    · intro k; simp only [addIssued]; exact get?_set _ _ _ _
    · intro k; simp only [addIssued]; exact get?_set _ _ _ _
  | edit owner symbol name max mintable =>
    obtain ⟨t, ht, _, _, rfl⟩ := edit_ok hs
    exact wf_modify (t' := edited t name max mintable) h ht rfl rfl (fun k => get?_set _ _ _ _) (fun _ => rfl)
  | mint owner to denom amount =>
    obtain ⟨_, _, sym, s1, _, h1, h2⟩ := mint_ok hs
    obtain ⟨_, _, _, _, _, _, _, rfl⟩ := deductFee_ok h1
    obtain ⟨_, _, _, _, _, rfl⟩ := mintChecked_ok h2
    exact wf_of_lookups h (fun _ => rfl) (fun _ => rfl)
  | burn sender denom amount =>
    obtain ⟨_, _, b, _, rfl⟩ := burn_step_ok hs
    exact wf_of_lookups h (fun _ => rfl) (fun _ => rfl)
  | transferOwner src dst symbol =>
    obtain ⟨_, t, ht, _, rfl⟩ := transferOwner_ok hs
    exact wf_modify (t' := { t with owner := dst }) h ht rfl rfl (fun k => get?_set _ _ _ _) (fun _ => rfl)
  | swapFee sender to denom amount =>
    obtain ⟨_, tb, target, ratio, tm, b, m, _, _, _, _, h2⟩ := swapFee_ok hs
    obtain ⟨_, _, _, bk, _, rfl⟩ := swapMoves_ok h2
    exact wf_of_lookups h (fun _ => rfl) (fun _ => rfl)
  | deploy authority name symbol minUnit scale =>
    obtain ⟨t, hb, hc, rfl⟩ := deploy_ok hs
    rcases buildErc20_cases h hb with ⟨e1, e2⟩ | ⟨e1, e2, _, _, _⟩
    · refine wf_modify (t' := { t with contract := s.nonce + 1 }) h e1 rfl rfl (fun k => get?_set _ _ _ _) ?_
      intro k
      show AMap.get? (AMap.set s.minUnits t.minUnit t.symbol) k = _
      rw [get?_set]
      by_cases hk : t.minUnit = k
      · subst hk; simp [e2]
      · simp [hk]
    · exact wf_add (t := { t with contract := s.nonce + 1 }) h e1 e2 (fun k => get?_set _ _ _ _)
        (fun k => get?_set _ _ _ _)
  | swapToErc20 sender receiver denom amount =>
    obtain ⟨_, t, b, _, _, _, rfl⟩ := swapTo_ok hs
    exact wf_of_lookups h (fun _ => rfl) (fun _ => rfl)
  | swapFromErc20 sender receiver denom amount =>
    obtain ⟨_, _, t, _, _, _, rfl⟩ := swapFrom_ok hs
    exact wf_of_lookups h (fun _ => rfl) (fun _ => rfl)
  | hookSwap src c to amount =>
    obtain ⟨_, _, h3⟩ := hook_ok hs
    rcases h3 with ⟨rfl, _⟩ | ⟨sym, t, _, _, _, _, rfl⟩
    · exact wf_of_lookups h (fun _ => rfl) (fun _ => rfl)
    · exact wf_of_lookups h (fun _ => rfl) (fun _ => rfl)
  | evmFault mode =>
    rw [evmFault_ok hs]
    exact wf_of_lookups h (fun _ => rfl) (fun _ => rfl)
  | updateParams authority p =>
    rw [(updateParams_ok hs).2]
    exact wf_of_lookups h (fun _ => rfl) (fun _ => rfl)

theorem wf_apply (s : State) (op : Op) (h : WF s) : WF (apply s op) := by
  unfold apply
  cases hs : step s op with
  | ok s' => exact wf_step s s' op h hs
  | error e => exact h

/-- **C09(1c)** over every history of operations: a symbol names one token, a min unit names
one token, and the two tables agree — from any well-formed state, in particular from genesis -/
theorem wf_run (s : State) (ops : List Op) (h : WF s) : WF (run s ops) := by
  induction ops generalizing s with
  | nil => exact h
  | cons op rest ih => exact ih (apply s op) (wf_apply s op h)

theorem wf_reachable (bank : Bank) (p : Params) (env : Env) (ops : List Op) :
    WF (run (genesis bank p env) ops) := wf_run _ ops (wf_genesis bank p env)

end Irismod.Props.C09
