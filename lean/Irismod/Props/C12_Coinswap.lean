/-
C12 (coinswap) — the exported module state re-imports and preserves what users rely on.

Headline theorems about `Irismod.CoinswapGenesis` on top of the coinswap state machine:
the registry shape `CsWF` holds initially and is preserved by every message (so by every history);
for every such state the exported genesis passes `ValidateGenesis`, `InitGenesis` of it succeeds,
and afterwards every query of the module's projection answers the same — parameters, standard
denom, next sequence, `GetPool` by counterparty, `GetPoolByLptDenom`, `GetAllPools` (the export is a
fixpoint) — the bank is untouched, the C01 invariant still holds, and the next pool creation gets
the same sequence / liquidity denom / escrow as without the round trip.
No violation of any of these was found in the code: no finding.
-/
import Irismod.Proofs.CoinswapGenesis

namespace Irismod.Props.C12.Coinswap
open Irismod Irismod.Sdk Irismod.Coinswap Irismod.CoinswapGenesis Irismod.Spec.C01
open Irismod.Proofs.GenesisList Irismod.Proofs.Coinswap Irismod.Proofs.CoinswapShare
open Irismod.Proofs.CoinswapGenesis

/-- the registry shape of every reachable state -/
def CsWF (s : State) : Prop := RegWF s ∧ GenWF s

/-- fewer than 2^64 pools were ever created (`Sequence` is a `uint64`) -/
def SeqInRange (s : State) : Prop := s.seq ≤ 18446744073709551616

/-- the state after `InitGenesis(ExportGenesis(s))` on an emptied module store -/
abbrev roundTrip (s : State) : State := reimport s

/-! ### well-formedness of every reachable state -/

/-- a chain initialised with valid parameters and a valid standard denom, no pools yet -/
theorem cs_wf_init (b : Bank) (std : Denom) (p : Params) (now : Nat) (blocked : List Addr)
    (hstd : validDenom std = true) (hp : validParams p = true) :
    CsWF { bank := b, std := std, params := p, pools := [], seq := 1, now := now, blocked := blocked } := by
  constructor
  · exact (Irismod.Props.C01.inv_init b std p now blocked).1
  · refine ⟨by simp [NodupKeys, AMap.keys], hstd, by simp [AMap.keys], hp, Nat.le_refl _, ?_, ?_⟩
    · intro cp n h; simp [AMap.get?] at h
    · intro n h1 h2; simp only at h2; omega

/-- one accepted message of any kind by any sender -/
theorem cs_wf_step (s s' : State) (op : Op) (resp : CoinList) (hw : CsWF s) (h : step s op = .ok (s', resp)) :
    CsWF s' :=
  have hr := regStep_of_step s s' op resp h
  ⟨regwf_of_regStep hw.1 hw.2 hr, genwf_of_regStep hw.1 hw.2 hr⟩

theorem cs_wf_apply (s : State) (op : Op) (hw : CsWF s) : CsWF (apply s op) := by
  unfold apply
  cases h : step s op with
  | ok r => obtain ⟨s', resp⟩ := r; exact cs_wf_step s s' op resp hw h
  | error e => exact hw

/-- **reachable lift**: after every history -/
theorem cs_wf_run (s : State) (ops : List Op) (hw : CsWF s) : CsWF (run s ops) := by
  induction ops generalizing s with
  | nil => exact hw
  | cons op rest ih => exact ih (apply s op) (cs_wf_apply s op hw)

/-! ### the round trip -/

/-- **export validates** -/
theorem cs_export_validates (s : State) (hw : CsWF s) (hr : SeqInRange s) :
    validateGenesis (exportGenesis s) = .ok () := validate_export s hw.1 hw.2 hr

/-- **import succeeds** (no panic) and yields the round-trip state -/
theorem cs_import_succeeds (s : State) (hw : CsWF s) (hr : SeqInRange s) :
    importGenesis s (exportGenesis s) = .ok (roundTrip s) := import_export s hw.1 hw.2 hr

/-- **every query is preserved**: parameters, standard denom, next sequence, `GetPool` by
counterparty, `GetPoolByLptDenom`; bank, block time and application configuration are not touched -/
theorem cs_queries_preserved (s : State) (hw : CsWF s) :
    (roundTrip s).params = s.params ∧ (roundTrip s).std = s.std ∧ (roundTrip s).seq = s.seq ∧
    (∀ cp, AMap.get? (roundTrip s).pools cp = AMap.get? s.pools cp) ∧
    (∀ d, findByLpt (roundTrip s).pools d = findByLpt s.pools d) ∧
    (roundTrip s).bank = s.bank ∧ (roundTrip s).now = s.now ∧ (roundTrip s).blocked = s.blocked := by
  refine ⟨rfl, rfl, rfl, get?_reimportPools s, ?_, rfl, rfl, rfl⟩
  intro d
  exact findByLpt_congr (nodup_reimportPools s) hw.2.nodup hw.1.inj (get?_reimportPools s) d

/-- **fixpoint**: `GetAllPools` and the whole exported document are the same after the round trip -/
theorem cs_export_fixpoint (s : State) : exportGenesis (roundTrip s) = exportGenesis s := export_reimport s

/-- the round-trip state is again of the reachable shape … -/
theorem cs_wf_roundTrip (s : State) (hw : CsWF s) : CsWF (roundTrip s) :=
  ⟨regwf_reimport hw.1, genwf_reimport hw.2⟩

/-- … every pool view (reserves, share supply) is literally the same … -/
theorem cs_view_roundTrip (s : State) (cp : Denom) (n : Nat) : view (roundTrip s) cp n = view s cp n := rfl

/-- … and the C01 invariant survives (so all C01 / C02 theorems apply to the re-imported chain) -/
theorem cs_inv_roundTrip (s : State) (hinv : Irismod.Props.C01.Inv s) : Irismod.Props.C01.Inv (roundTrip s) := by
  refine ⟨regwf_reimport hinv.1, ?_⟩
  intro cp n hg
  rw [cs_view_roundTrip]
  exact hinv.2 cp n (by rw [← get?_reimportPools]; exact hg)

/-- **the next pool creation** after the round trip is accepted exactly when it is without it, with
the same response (minted `lpt-<seq>` coin), the same bank, the same next sequence, and registers the
new pool under the same sequence `s.seq` -/
theorem cs_next_pool_same (s t : State) (sender : Addr) (cp : Denom) (maxA dS minL dl : Int) (resp : CoinList)
    (hnone : AMap.get? s.pools cp = none)
    (h : step s (.add sender cp maxA dS minL dl) = .ok (t, resp)) :
    ∃ t', step (roundTrip s) (.add sender cp maxA dS minL dl) = .ok (t', resp) ∧
      t'.bank = t.bank ∧ t'.seq = t.seq ∧ t'.params = t.params ∧ t'.std = t.std ∧
      AMap.get? t.pools cp = some s.seq ∧ AMap.get? t'.pools cp = some s.seq ∧
      resp = [(lptDenom s.seq, dS.toNat)] := by
  obtain ⟨hvb, hs⟩ := step_add_ok h
  obtain ⟨hexp, hstd, hcase⟩ := stepAdd_ok hs
  rcases hcase with ⟨_, s1, hfee, hmin, hadd⟩ | ⟨n, hsome, _⟩ | ⟨n, hsome, _⟩
  · obtain ⟨_, c1, c2, c3, c4, c5, c6⟩ := deductFee_ok hfee
    obtain ⟨_, ⟨d1, d2, d3, d4, d5, d6⟩, hresp⟩ := addLiq_ok hadd
    simp only at d1 d2 d3 d4
    -- the same computation on the round-trip state
    have hframe := addLiq_frame
      { s1 with pools := AMap.set s1.pools cp s1.seq, seq := s1.seq + 1 }
      { s1 with pools := AMap.set (reimportPools s) cp s1.seq, seq := s1.seq + 1 } rfl rfl
      sender s1.seq cp dS.toNat maxA.toNat dS.toNat
    rw [hadd] at hframe
    simp only at hframe
    refine ⟨{ bank := t.bank, std := s1.std, params := s1.params, pools := AMap.set (reimportPools s) cp s1.seq,
              seq := s1.seq + 1, now := s1.now, blocked := s1.blocked }, ?_, ?_⟩
    · unfold step
      have hvb' : vb (.add sender cp maxA dS minL dl) = none := hvb
      rw [hvb']
      simp only
      unfold stepAdd
      have hexp' : expired (roundTrip s).now dl = false := hexp
      have hnone' : AMap.get? (roundTrip s).pools cp = none := by
        show AMap.get? (reimportPools s) cp = none
        rw [get?_reimportPools]; exact hnone
      have hstd' : ¬ cp = (roundTrip s).std := hstd
      simp only [hexp', Bool.false_eq_true, if_false, hstd', hnone']
      have hfee' : deductFee (roundTrip s) sender = .ok { s1 with pools := reimportPools s } := by
        show deductFee { s with pools := reimportPools s } sender = _
        rw [deductFee_withPools, hfee]
      rw [hfee']
      simp only
      have hlt : ¬ dS.toNat < minL.toNat := by omega
      simp only [hlt, if_false]
      exact hframe
    · refine ⟨rfl, ?_, ?_, ?_, ?_, ?_, ?_⟩
      · show s1.seq + 1 = t.seq
        rw [d4]
      · show s1.params = t.params
        rw [d2]
      · show s1.std = t.std
        rw [d1]
      · rw [d3, c3, c4]; exact AMap.get?_set_self _ _ _
      · show AMap.get? (AMap.set (reimportPools s) cp s1.seq) cp = some s.seq
        rw [c4]; exact AMap.get?_set_self _ _ _
      · rw [hresp, c4]
  · rw [hnone] at hsome; cases hsome
  · rw [hnone] at hsome; cases hsome

end Irismod.Props.C12.Coinswap
