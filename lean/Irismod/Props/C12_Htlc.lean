/-
C12 (htlc slice) — the exported HTLC state re-imports and preserves what users rely on.

Headline theorems about `Irismod.HtlcGen` (ExportGenesis / ValidateGenesis / InitGenesis of
modules/htlc, after the repair 1f718dc of F-gen-1) on top of the HTLC state machine `Irismod.Htlc`,
for EVERY state reachable by any history of create / claim / blocks / parameter updates from the
state a chain starts with (no contract, valid parameters, previous block time set):

* the joint invariant `Inv` of C03/C04/C13 and the genesis well-formedness `GenWF` hold
  (`htlc_wf_run`); the exported document passes `ValidateGenesis` (`htlc_export_validates`) —
  the statement that was FALSE before 1f718dc (`Props.C12.HtlcExportValidates`, finding F-gen-1);
  the old witness, a plain HTLC without a timestamp, now validates and re-imports
  (`htlc_regression_gen1`);
* `InitGenesis` of the export succeeds EXACTLY for the states outside the recorded class F-gen-5
  (`importableB`: every open HTLT's asset is listed and active, every supply record's asset is
  listed with a limit covering it): `htlc_import_succeeds`, `htlc_import_fails_in_class`,
  `htlc_import_iff`.  The class is reachable only through `MsgUpdateParams`
  (`htlc_importable_without_params_update`), and it is reachable (`htlc_roundtrip_fails_gen5`,
  negation of the unrestricted statement by a two-operation witness);
* outside the class the imported state answers every read like the exported one, closed contracts
  aside — open contracts, expiry queue (rebuilt), supplies, parameters, previous block time, bank,
  height, clock (`htlc_queries_preserved`); the export is a fixpoint (`htlc_export_fixpoint`);
  the imported state satisfies the joint invariant again, its history clause (current supply =
  completed incoming − completed outgoing, a sum over contracts a genesis does not carry) relative
  to the supply at the restart, together with `GenWF`, the escrow identity, the limit asserted by
  `InitGenesis`, and importability (`htlc_inv_roundTrip`); round trips compose
  (`htlc_roundtrip_twice`).
-/
import Irismod.Proofs.HtlcGenesisRoundTrip
import Irismod.Proofs.HtlcGenesisClass
import Irismod.Props.C04

namespace Irismod.Props.C12.Htlc
open Irismod Irismod.Sdk Irismod.Htlc Irismod.HtlcGen Irismod.Spec.C03 Irismod.Spec.C04 Irismod.Spec.C12Htlc
open Irismod.Proofs.Htlc Irismod.Proofs.HtlcGen

/-- the state a chain starts with: no contract, no queue entry, no supply record, valid
parameters, the previous block time set (`InitGenesis` writes it), a block time after
1970-01-01 00:15:01 -/
structure Fresh (s : State) : Prop where
  htlcs    : s.htlcs = []
  queue    : s.queue = []
  supplies : s.supplies = []
  params   : paramsValid s.params = true
  prev     : s.prevTime.isSome = true
  clock    : minTime ≤ s.time

/-- a history of the alphabet: `OpOkG` for every operation -/
def OpsOk (ops : List Op) : Prop := ∀ op ∈ ops, OpOkG op

/-! ### every reachable state is well formed -/

theorem htlc_wf_fresh {s : State} (h : Fresh s) : Inv s ∧ GenWF s :=
  ⟨inv_fresh h.htlcs h.queue h.supplies, genWF_fresh h.htlcs h.supplies h.params h.prev h.clock⟩

theorem htlc_wf_step (s : State) (op : Op) (hs : Inv s) (hw : GenWF s) (hop : OpOkG op) :
    Inv (apply s op) ∧ GenWF (apply s op) :=
  ⟨inv_apply hs hop.opOk, genWF_apply hs hw hop⟩

/-- **reachable lift** -/
theorem htlc_wf_run (s0 : State) (ops : List Op) (h0 : Fresh s0) (hops : OpsOk ops) :
    Inv (run s0 ops) ∧ GenWF (run s0 ops) :=
  genWF_run ops (htlc_wf_fresh h0).1 (htlc_wf_fresh h0).2 hops

/-! ### the export validates (F-gen-1 is fixed) -/

/-- the exported document of every well-formed state passes the module's own `ValidateGenesis` -/
theorem htlc_export_validates (dp : Nat) (s : State) (hs : Inv s) (hw : GenWF s) :
    validateGenesis (exportGenesis dp s) = true := validate_export dp hs hw

/-- **C12/htlc, validation, all reachable states** — the full statement, true since 1f718dc -/
theorem htlc_export_validates_reachable (dp : Nat) (s0 : State) (ops : List Op) (h0 : Fresh s0) (hops : OpsOk ops) :
    validateGenesis (exportGenesis dp (run s0 ops)) = true :=
  validate_export dp (htlc_wf_run s0 ops h0 hops).1 (htlc_wf_run s0 ops h0 hops).2

/-! ### the import: exactly outside the class F-gen-5 -/

/-- outside the class `InitGenesis` of the export succeeds … -/
theorem htlc_import_succeeds (dp : Nat) (s : State) (hs : Inv s) (hw : GenWF s) (hi : importableB s = true) :
    ∃ s', importGenesis s (exportGenesis dp s) = .ok s' := ⟨_, import_export dp hs hw hi⟩

/-- … inside the class it panics (finding F-gen-5) -/
theorem htlc_import_fails_in_class (dp : Nat) (s : State) (hs : Inv s) (hw : GenWF s) (hi : importableB s = false) :
    ∃ w, importGenesis s (exportGenesis dp s) = .error w := import_fails dp hs hw hi

/-- the class predicate is exact: the decidable carve-out is neither too wide nor too narrow -/
theorem htlc_import_iff (dp : Nat) (s : State) (hs : Inv s) (hw : GenWF s) :
    (∃ s', importGenesis s (exportGenesis dp s) = .ok s') ↔ importableB s = true := by
  constructor
  · rintro ⟨s', h⟩
    cases hi : importableB s with
    | true => rfl
    | false =>
      obtain ⟨w, hw'⟩ := import_fails dp hs hw hi
      rw [h] at hw'; cases hw'
  · exact htlc_import_succeeds dp s hs hw

/-- the state the chain restarts from -/
abbrev roundTrip (dp : Nat) (s : State) : State := reimport dp s

theorem roundTrip_eq (dp : Nat) (s : State) (hs : Inv s) (hw : GenWF s) (hi : importableB s = true) :
    roundTrip dp s = imported dp s := by
  unfold roundTrip reimport
  rw [import_export dp hs hw hi]

/-! ### what the restarted chain answers -/

/-- every read of the module answers the same after the round trip, closed contracts aside:
open contracts (all fields), the expiry queue — REBUILT, one entry per open contract at its
expiration height —, supplies, parameters, previous block time, bank, height and clock -/
theorem htlc_queries_preserved (dp : Nat) (s : State) (hs : Inv s) (hw : GenWF s) (hi : importableB s = true) :
    SameOpen s (roundTrip dp s) := by
  rw [roundTrip_eq dp s hs hw hi]; exact sameOpen_imported dp hs hw

/-- the queries users rely on, spelled out -/
theorem htlc_queries_spelled_out (dp : Nat) (s : State) (hs : Inv s) (hw : GenWF s) (hi : importableB s = true) :
    (∀ id c, AMap.get? s.htlcs id = some c → c.state = .open → AMap.get? (roundTrip dp s).htlcs id = some c) ∧
    (∀ id, (∀ c, AMap.get? s.htlcs id = some c → c.state ≠ .open) → AMap.get? (roundTrip dp s).htlcs id = none) ∧
    (∀ h id, (h, id) ∈ (roundTrip dp s).queue ↔ (h, id) ∈ s.queue) ∧
    (∀ d, supOf (roundTrip dp s) d = supOf s d) ∧
    (roundTrip dp s).params = s.params ∧ (roundTrip dp s).prevTime = s.prevTime ∧
    (∀ a d, Bank.balOf (roundTrip dp s).bank a d = Bank.balOf s.bank a d) ∧
    (∀ d, openEscrow (roundTrip dp s) d = openEscrow s d) := by
  have h := htlc_queries_preserved dp s hs hw hi
  refine ⟨h.open_kept, ?_, fun hh id => h.queue (hh, id), ?_, h.params, h.prevTime, ?_, ?_⟩
  · intro id hclosed
    cases hg : AMap.get? (roundTrip dp s).htlcs id with
    | none => rfl
    | some c =>
      obtain ⟨h1, h2⟩ := h.only_open id c hg
      exact absurd h2 (hclosed c h1)
  · intro d; unfold supOf; rw [h.supplies]
  · intro a d; rw [h.bank]
  · intro d; rw [roundTrip_eq dp s hs hw hi]; exact openEscrow_imported dp s d

/-- exporting the imported state gives the same document -/
theorem htlc_export_fixpoint (dp : Nat) (s : State) (hs : Inv s) (hw : GenWF s) (hi : importableB s = true) :
    exportGenesis dp (roundTrip dp s) = exportGenesis dp s := by
  rw [roundTrip_eq dp s hs hw hi]; exact export_imported dp s

/-- **the imported state satisfies the invariants again**: the joint invariant of C03/C04/C13 with
its history clause relative to the current supply at the restart (`InvFrom`; `Inv` itself when no
supply is current), the genesis well-formedness, importability, the limit `InitGenesis` asserts,
and — if they held before — the escrow identity and the no-self-recipient fact of C04 -/
theorem htlc_inv_roundTrip (dp : Nat) (s : State) (hs : Inv s) (hw : GenWF s) (hi : importableB s = true) :
    InvFrom (fun d => (supOf s d).current) (roundTrip dp s) ∧ GenWF (roundTrip dp s) ∧
    importableB (roundTrip dp s) = true ∧
    (∀ d a, findAsset (roundTrip dp s).params d = some a →
      (supOf (roundTrip dp s) d).current + (supOf (roundTrip dp s) d).incoming ≤ a.limit) ∧
    (EscrowEq s → EscrowEq (roundTrip dp s)) ∧ (NoSelf s → NoSelf (roundTrip dp s)) := by
  rw [roundTrip_eq dp s hs hw hi]
  exact ⟨invFrom_imported dp hs hw, genWF_imported dp hs hw, importable_imported dp hi,
    limit_of_importable (importable_imported dp hi), escrowEq_imported dp, noSelf_imported dp hs hw⟩

/-- when no supply is current at the restart (no completed cross-chain transfer yet, or none left),
the imported state satisfies `Inv` literally: every theorem of C03 / C04 / C13 applies to it as is -/
theorem htlc_inv_roundTrip_exact (dp : Nat) (s : State) (hs : Inv s) (hw : GenWF s) (hi : importableB s = true)
    (h0 : ∀ d, (supOf s d).current = 0) : Inv (roundTrip dp s) := by
  have h := (htlc_inv_roundTrip dp s hs hw hi).1
  have : (fun d => (supOf s d).current) = fun _ => 0 := funext h0
  rw [this] at h
  exact inv_of_invFrom_zero h

/-- a second export / import cycle behaves the same (round trips compose): the re-imported state
is again importable, and its own round trip is the state itself -/
theorem htlc_roundtrip_twice (dp : Nat) (s : State) (hs : Inv s) (hw : GenWF s) (hi : importableB s = true) :
    importGenesis (roundTrip dp s) (exportGenesis dp (roundTrip dp s)) = .ok (roundTrip dp s) := by
  rw [roundTrip_eq dp s hs hw hi, export_imported]
  -- `InitGenesis` reads only the document and the environment (bank, height, clock), which are equal
  have h := import_export dp hs hw hi
  unfold importGenesis at h ⊢
  exact h

/-- **all reachable states**: after any history, outside the class F-gen-5, the export validates,
imports, is a fixpoint, and the imported state answers like the exported one -/
theorem htlc_roundtrip_reachable (dp : Nat) (s0 : State) (ops : List Op) (h0 : Fresh s0) (hops : OpsOk ops)
    (hi : importableB (run s0 ops) = true) :
    validateGenesis (exportGenesis dp (run s0 ops)) = true ∧
    (∃ s', importGenesis (run s0 ops) (exportGenesis dp (run s0 ops)) = .ok s') ∧
    SameOpen (run s0 ops) (roundTrip dp (run s0 ops)) ∧
    exportGenesis dp (roundTrip dp (run s0 ops)) = exportGenesis dp (run s0 ops) := by
  obtain ⟨hs, hw⟩ := htlc_wf_run s0 ops h0 hops
  exact ⟨validate_export dp hs hw, htlc_import_succeeds dp _ hs hw hi, htlc_queries_preserved dp _ hs hw hi,
    htlc_export_fixpoint dp _ hs hw hi⟩

/-! ### F-gen-5 needs a parameter update -/

theorem importable_run_aux (ops : List Op) : ∀ (s : State), Inv s → GenWF s → ClassInv s → LimitInv s →
    (∀ op ∈ ops, OpOkG op ∧ KeepsParams op) → importableB (run s ops) = true := by
  induction ops with
  | nil => intro s hs hw hc hl _; exact importable_of_classInv hs hw hc hl
  | cons op r ih =>
    intro s hs hw hc hl hops
    obtain ⟨hop, hk⟩ := hops op (by simp)
    have hrest : ∀ o ∈ r, OpOkG o ∧ KeepsParams o := fun o ho => hops o (by simp [ho])
    show importableB (run (apply s op) r) = true
    unfold apply
    cases h : step s op with
    | error e => exact ih s hs hw hc hl hrest
    | ok s' =>
      exact ih s' (inv_step hs hop.opOk h) (genWF_step hs hw hop h) (classInv_step hs hc hk h)
        (limit_step hs hl hk h) hrest

/-- **the class F-gen-5 is reachable only through `MsgUpdateParams`**: along every history without
a parameter update the state stays importable, so its export validates, re-imports, is a fixpoint and
answers like the original (`htlc_roundtrip_reachable`) -/
theorem htlc_importable_without_params_update (s0 : State) (ops : List Op) (h0 : Fresh s0) (hops : OpsOk ops)
    (hk : ∀ op ∈ ops, KeepsParams op) : importableB (run s0 ops) = true :=
  importable_run_aux ops s0 (htlc_wf_fresh h0).1 (htlc_wf_fresh h0).2 (classInv_fresh h0.htlcs h0.supplies)
    (Irismod.Props.C04.limits_init s0 h0.supplies) (fun op hop => ⟨hops op hop, hk op hop⟩)

/-! ### F-gen-5: the unrestricted statement is false (negation by witness) -/

/-- the C12 statement without the carve-out: the export of every reachable state re-imports. FALSE
in the code (finding F-gen-5). -/
def HtlcImportsAll : Prop :=
  ∀ (dp : Nat) (s0 : State) (ops : List Op), Fresh s0 → OpsOk ops →
    ∃ s', importGenesis (run s0 ops) (exportGenesis dp (run s0 ops)) = .ok s'

def g5Asset : Asset :=
  { denom := "htltaaa", limit := 1000, timeLimited := false, period := 0, tbLimit := 1000, active := true,
    deputy := "A4", fixedFee := 0, minSwap := 1, maxSwap := 1000, minLock := 50, maxLock := 34560 }

/-- one supported asset, no contract -/
def g5Start : State :=
  { params := [g5Asset], prevTime := some 1700000000000000000, height := 10, time := 1700000000000000000 }

/-- one block (the begin blocker creates the asset's supply record), then governance removes the
asset: the supply record stays, `GetSupplyLimit` fails in `InitGenesis` -/
def g5Ops : List Op := [.beginBlock 11 1700000005000000000, .setParams gov []]

theorem g5_fresh : Fresh g5Start := by
  refine ⟨rfl, rfl, rfl, ?_, rfl, by decide⟩
  show paramsValid [g5Asset] = true
  simp [paramsValid, assetOk, assetDenomOk, noDupDenoms, g5Asset, isLowerAlnum, minTimeLock, maxTimeLock]
  decide

theorem g5_opsOk : OpsOk g5Ops := by
  intro op hop
  simp only [g5Ops, List.mem_cons, List.mem_nil_iff, or_false] at hop
  rcases hop with rfl | rfl
  · show minTime ≤ 1700000005000000000; decide
  · trivial

/-- **negation by witness** (no contract involved at all: a supply record of a delisted asset) -/
theorem htlc_roundtrip_fails_gen5 : ¬ HtlcImportsAll := by
  intro H
  obtain ⟨hs, hw⟩ := htlc_wf_run g5Start g5Ops g5_fresh g5_opsOk
  have := (htlc_import_iff 0 _ hs hw).mp (H 0 g5Start g5Ops g5_fresh g5_opsOk)
  revert this
  decide

/-! ### F-gen-1: regression example (the old witness now passes) -/

def g1Id : Id := "00000000000000000000000000000000000000000000000000000000000000aa"
def g1Lock : String := "00000000000000000000000000000000000000000000000000000000000000bb"

/-- a store holding one open plain HTLC created WITHOUT a timestamp (`MsgCreateHTLC` accepts it:
`GetHashLock` then hashes the secret alone) — the state on which `ValidateGenesis` failed before
1f718dc -/
def g1 : State :=
  { htlcs := [(g1Id, { sender := "A0", to := "A1", amount := [("stake", 5)], hashLock := g1Lock, secret := "",
                       timestamp := 0, expiration := 60, state := .open, closedBlock := 0, transfer := false,
                       direction := .none })],
    queue := [(60, g1Id)], bank := { bal := [(("M", "stake"), 5)], supply := [("stake", 5)] },
    prevTime := some 1700000000000000000, height := 10, time := 1700000000000000000 }

/-- the export of the old F-gen-1 witness validates, and `InitGenesis` restores the contract and
its queue entry -/
theorem htlc_regression_gen1 :
    validateGenesis (exportGenesis 0 g1) = true ∧
    (match importGenesis g1 (exportGenesis 0 g1) with
     | .ok s' => decide (s'.htlcs = g1.htlcs) && decide (s'.queue = g1.queue)
     | .error _ => false) = true := by
  decide

/-- the timestamp rule that remains: an HTLT without a timestamp is refused by `ValidateGenesis`
(and can never be stored: `createHTLT` checks the timestamp against the clock) -/
theorem htlc_htlt_timestamp_rule (id : Id) (c : Contract) (ht : c.transfer = true) (h0 : c.timestamp = 0) :
    validateContract id c = false := by
  simp [validateContract, ht, h0]

end Irismod.Props.C12.Htlc
