/-
C19 — Record: a stored record is immutable and its id is unique and permanent.
Headline theorems about the model `Irismod.Record`, for every state, transaction and history.

"Unique" and "permanent" hold up to the two escape clauses the code really has: the counter
is a `uint32` (ids can repeat only after it wrapped, i.e. >= 2^32 creations apart) and ids
are SHA-256 sums (an id clash between distinct hashed byte strings *is* a collision, and the
theorems exhibit the colliding pair; no injectivity of SHA-256 is assumed).
-/
import Irismod.Proofs.Record

namespace Irismod.Props.C19
open Irismod Irismod.Record Irismod.Spec.C19 Irismod.Proofs.Record

/-- a rejected transaction (or any failing operation) leaves the state unchanged -/
theorem rejected_unchanged (s : State) (op : Op) (e : Err) (h : step s op = .error e) :
    apply s op = s := by
  simp [apply, h]

/-- queries and block boundaries never change the state -/
theorem reads_unchanged (s : State) : (∀ id, apply s (.query id) = s) ∧ apply s .queryAll = s ∧
    apply s .nextBlock = s := by
  simp [apply, step]

theorem txEntries_rcd (h : String) (c : UInt32) (msgs : List Msg) :
    (txEntries h c msgs).map (·.rcd) = msgs.map (mkRec h) := by
  induction msgs generalizing c with
  | nil => rfl
  | cons m t ih => simp [txEntries, entryOf, ih]

/-- an accepted transaction creates exactly one record per message, holding exactly the
    transaction's hash, the submitted contents and the creator, in order -/
theorem created_records_exact (s s' : State) (b : ByteArray) (msgs : List Msg)
    (h : step s (.tx b msgs) = .ok s') :
    (opEntries s (.tx b msgs)).map (·.rcd) = msgs.map (mkRec (txHashOf b)) := by
  have h' : stepTx s (txHashOf b) msgs = .ok s' := h
  simp only [opEntries, h']
  exact txEntries_rcd _ _ _

/-- the counter counts creations (modulo 2^32): it is never reset -/
theorem counter_counts_creations (s : State) (ops : List Op) :
    (run s ops).counter = s.counter + UInt32.ofNat (runLog s ops).length := by
  induction ops generalizing s with
  | nil =>
    show s.counter = s.counter + UInt32.ofNat 0
    apply UInt32.toNat_inj.mp
    simp
  | cons op t ih =>
    show (run (apply s op) t).counter = _
    rw [ih, (apply_recs s op).2]
    apply UInt32.toNat_inj.mp
    simp [runLog, UInt32.toNat_add, UInt32.toNat_ofNat']
    omega

/-- append-only, one step: the record stored under an id changes only if the operation
    creates a record that receives the very same id -/
theorem append_only_step (s : State) (op : Op) (id : Id) (r : Rec) (h : getRecord s id = some r) :
    getRecord (apply s op) id = some r ∨ ∃ e ∈ opEntries s op, e.id = id := by
  unfold getRecord
  rw [(apply_recs s op).1]
  exact get_replay_stable _ _ _ _ h

theorem get_replay_isSome (m : AMap Id Rec) (log : List Entry) (id : Id)
    (h : (AMap.get? m id).isSome ∨ ∃ e ∈ log, e.id = id) : (AMap.get? (replayOn m log) id).isSome := by
  induction log generalizing m with
  | nil =>
    rcases h with h | ⟨e, he, _⟩
    · exact h
    · simp at he
  | cons x t ih =>
    have hr : replayOn m (x :: t) = replayOn (AMap.set m x.id x.rcd) t := rfl
    rw [hr]
    apply ih
    by_cases hx : x.id = id
    · left; rw [← hx, AMap.get?_set_self]; rfl
    · rcases h with h | ⟨e, he, hid⟩
      · left; rw [AMap.get?_set_other _ _ _ _ hx]; exact h
      · rcases List.mem_cons.mp he with rfl | het
        · exact absurd hid hx
        · exact Or.inr ⟨e, het, hid⟩

/-- nothing is ever deleted: an id that can be read stays readable after any history -/
theorem never_deleted (s : State) (ops : List Op) (id : Id) (h : (getRecord s id).isSome) :
    (getRecord (run s ops) id).isSome := by
  unfold getRecord
  rw [(run_log s ops).1]
  exact get_replay_isSome _ _ _ (Or.inl h)

/-- ids are unique: if two creations of any history (from any start state) receive the same
    id, then the `uint32` counter wrapped between them or a SHA-256 collision is exhibited -/
theorem ids_unique (s : State) (ops : List Op) (i j : Nat) (hi : i < (runLog s ops).length)
    (hj : j < (runLog s ops).length) (hij : i < j)
    (hid : (runLog s ops)[i].id = (runLog s ops)[j].id) :
    2^32 ≤ j - i ∨ Collision :=
  wf_same_id (run_log s ops).2 i j hi hj hij hid

/-- byte-identical records (same tx hash, contents and creator) created at different
    positions still differ in the hashed byte string whenever fewer than 2^32 creations lie
    between them: the counter suffix differs -/
theorem identical_records_distinct_preimages (s : State) (ops : List Op) (i j : Nat)
    (hi : i < (runLog s ops).length) (hj : j < (runLog s ops).length) (hij : i < j)
    (hw : j - i < 2^32) : (runLog s ops)[i].pre ≠ (runLog s ops)[j].pre := by
  intro hp
  have h := (run_log s ops).2
  rw [(wf_getElem h i hi).1, (wf_getElem h j hj).1] at hp
  have := ofNat_eq_mod (preimage_eq hp).2
  omega

/-- immutability over all histories: a record created anywhere in a history `ops` is read
    back unchanged under its id after every continuation `ops'`, as long as the whole history
    has at most 2^32 creations — or a SHA-256 collision is exhibited -/
theorem immutable_forever (s : State) (ops ops' : List Op) (e : Entry) (he : e ∈ runLog s ops)
    (hlen : (runLog s (ops ++ ops')).length ≤ 2^32) :
    getRecord (run s (ops ++ ops')) e.id = some e.rcd ∨ Collision := by
  have hrl := run_log s (ops ++ ops')
  rcases wf_noClash hrl.2 hlen with hn | hc
  · left
    unfold getRecord
    rw [hrl.1]
    apply get_replay_noClash _ _ hn
    rw [runLog_append]
    exact List.mem_append_left _ he
  · exact Or.inr hc

/-- in particular from genesis: every id a history ever returned maps to exactly the record
    submitted under it, at the end of the history -/
theorem every_returned_id_reads_back (ops : List Op) (e : Entry) (he : e ∈ runLog {} ops)
    (hlen : (runLog {} ops).length ≤ 2^32) :
    getRecord (run {} ops) e.id = some e.rcd ∨ Collision := by
  have := immutable_forever {} ops [] e he (by simpa using hlen)
  simpa using this

/-! ### a concrete non-trivial execution (used by the audit) -/

def demoC : Content := { digest := "d0", algo := "sha256", uri := "", metadata := "m" }
def demoM : Msg := { creator := "cosmos1xyz", creatorOk := true, contents := [demoC] }
/-- one transaction with two byte-identical messages, then the same transaction bytes again -/
def demoOps : List Op := [.tx "tx".toUTF8 [demoM, demoM], .nextBlock, .tx "tx".toUTF8 [demoM]]

def demoNonvacuous : Bool :=
  let log := runLog {} demoOps
  let s := run {} demoOps
  log.length == 3 && s.counter == 3 &&
  pairwiseDistinct (log.map fun e => Line.hexOfBytes (ByteArray.mk e.id)) &&
  log.all (fun e => getRecord s e.id == some e.rcd) &&
  (log.map (·.rcd)).all (· == mkRec (txHashOf "tx".toUTF8) demoM)

end Irismod.Props.C19
