/-
C12 (NFT part) — exported state re-imports and preserves what users rely on.
Headline theorems about the export / validate / import model `Irismod.NftGenesis` over the state
machine `Irismod.Nft`: for every reachable store the full statement holds (after /repo commit
878dbc3, finding F-gen-4: before it `MsgTransferNFT` could store a URI that `ValidateGenesis`
rejects; `nft_tok_uri_bounded` is the clause that needed the fix).
-/
import Irismod.Proofs.NftGenesis
import Irismod.Props.C14

namespace Irismod.Props.C12.Nft
open Irismod Irismod.Nft Irismod.NftGenesis Irismod.Spec.C12.Nft Irismod.Spec.C14
open Irismod.Proofs.NftGenesis Irismod.Proofs.Nft

/-- the reachable shape holds on the empty store … -/
theorem nft_wf_init : WF ({} : State) := wf_init

/-- … and is preserved by every accepted message (no side condition: ids are chosen by users
and checked by `ValidateBasic`, tables are written through `set` only) -/
theorem nft_wf_step (s s' : State) (op : Op) (hw : WF s) (h : step s op = .ok s') : WF s' :=
  wf_step s s' op hw h

/-- hence on every state reached by any history -/
theorem nft_wf_reachable (ops : List Op) : WF (run {} ops) := wf_run {} ops wf_init

/-- every stored token URI is within `MaxTokenURILen`, whichever of mint / edit / transfer-with-
changes wrote it — the fact `ValidateGenesis` relies on (finding F-gen-4 before the fix) -/
theorem nft_tok_uri_bounded (ops : List Op) (c : ClassId) (t : TokenId) (r : TokenRec)
    (h : tokenOf (run {} ops) c t = some r) : validTokenId t = true ∧ validUri r.uri = true :=
  (wf_run {} ops wf_init).tok_ok c t r h

/-- **C12/NFT (a)** the genesis exported from a well-shaped store satisfying C14's invariant
passes `ValidateGenesis`: legal class ids, and per token an owner that parses, a legal id and a
URI of at most 256 bytes -/
theorem nft_export_validates (s : State) (hw : WF s) (hi : Inv s) :
    validateGenesis (exportGenesis s) = true := validate_export s hw hi

/-- **C12/NFT (b)** `InitGenesis` of that export does not panic (creators parse, no class and no
token is written twice) and the imported store answers every query like the exported store -/
theorem nft_import_preserves (s : State) (hw : WF s) (hi : Inv s) :
    ∃ s', importGenesis (exportGenesis s) = .ok s' ∧ ObsEq s' s := by
  obtain ⟨s', h1, h2, _⟩ := import_export s hw hi
  exact ⟨s', h1, h2⟩

/-- **C12/NFT (c)** export ∘ import ∘ export = export (fixpoint), together with (a) and (b) -/
theorem nft_roundtrip (s : State) (hw : WF s) (hi : Inv s) : RoundTrip s := by
  obtain ⟨s', h1, h2, hg⟩ := import_export s hw hi
  exact ⟨validate_export s hw hi, s', h1, h2, export_congr h2 hg.nd_tokens hw.nd_tokens⟩

/-- the queries users rely on, spelled out: owner of every token (owner key and owner index),
supply of every class, balance of every account in every class, every class record — creator,
both restriction flags, name, symbol, schema, description, uri, uri hash, data — and every token
record — name, uri, uri hash, data -/
theorem nft_queries_preserved (s : State) (hw : WF s) (hi : Inv s) :
    ∃ s', importGenesis (exportGenesis s) = .ok s' ∧
      (∀ c t, ownerOf s' c t = ownerOf s c t) ∧ (∀ a c t, idxHas s' a c t = idxHas s a c t) ∧
      (∀ c, supplyOf s' c = supplyOf s c) ∧ (∀ a c, balanceOf s' a c = balanceOf s a c) ∧
      (∀ c, AMap.get? s'.classes c = AMap.get? s.classes c) ∧
      (∀ c, creatorOf s' c = creatorOf s c) ∧
      (∀ c, mintRestricted s' c = mintRestricted s c) ∧ (∀ c, updateRestricted s' c = updateRestricted s c) ∧
      (∀ c t, tokenOf s' c t = tokenOf s c t) ∧ (∀ c, tokenCount s' c = tokenCount s c) := by
  obtain ⟨s', h1, h2, _⟩ := import_export s hw hi
  refine ⟨s', h1, h2.owners, h2.idx, h2.supply, h2.balances, h2.classes, ?_, ?_, ?_, h2.tokens, h2.count⟩
  · intro c; unfold creatorOf; rw [h2.classes]
  · intro c; unfold mintRestricted; rw [h2.classes]
  · intro c; unfold updateRestricted; rw [h2.classes]

/-- the imported store is again well-shaped and satisfies C14's invariant, so every C14 theorem and
this round trip apply to the restarted chain as well -/
theorem nft_import_closed (s : State) (hw : WF s) (hi : Inv s) :
    ∃ s', importGenesis (exportGenesis s) = .ok s' ∧ WF s' ∧ Inv s' := by
  obtain ⟨s', h1, h2, hg⟩ := import_export s hw hi
  exact ⟨s', h1, wf_of_obsEq h2 hg hw, hg.inv⟩

/-- **C12/NFT, all reachable states**: after any history of the six messages (accepted or
rejected, by owners and strangers) the export validates, re-imports without panic to an
observationally equal store, and is a fixpoint -/
theorem nft_roundtrip_reachable (ops : List Op) : RoundTrip (run {} ops) :=
  nft_roundtrip _ (wf_run {} ops wf_init) (Irismod.Props.C14.inv_reachable ops)

/-- a second export/import cycle behaves the same (round trips compose) -/
theorem nft_roundtrip_twice (s : State) (hw : WF s) (hi : Inv s) :
    ∃ s', importGenesis (exportGenesis s) = .ok s' ∧ RoundTrip s' := by
  obtain ⟨s', h1, hw', hi'⟩ := nft_import_closed s hw hi
  exact ⟨s', h1, nft_roundtrip s' hw' hi'⟩

/-- non-vacuity: the demo history of C14 extended with a second class (empty), a burnt token (a
tombstone the iterator must skip), an edited token and a token whose URI has the maximal length -/
def nftDemoOps : List Op :=
  [.issue "A0" "clb" false false "6e" "" "" "" "" "" "7b7d",
   .issue "A1" "cla" true true "" "" "" "" "" "" "",
   .mint "A3" "A2" "clb" "tokz" "6e" "75" "" "",
   .mint "A3" "A2" "clb" "toka" "" (String.mk (List.replicate 512 'a')) "" "",
   .mint "A1" "A1" "cla" "tok1" "" "" "" "",
   .edit "A2" "clb" "tokz" "6e6577" doNotModify doNotModify "5b315d",
   .transfer "A2" "A0" "clb" "toka" doNotModify doNotModify doNotModify doNotModify,
   .burn "A1" "cla" "tok1",
   .transferDenom "A1" "A3" "cla"]

def nftDemo : State := run {} nftDemoOps

def nftDemoCheck : Bool :=
  validateGenesis (exportGenesis nftDemo) &&
  match importGenesis (exportGenesis nftDemo) with
  | .ok s' =>
    decide (exportGenesis s' = exportGenesis nftDemo) && (exportGenesis nftDemo).length == 2 &&
    ((exportGenesis nftDemo).map (·.id)) == ["cla", "clb"] &&
    ((exportGenesis nftDemo).map fun c => c.nfts.map (·.id)) == [[], ["toka", "tokz"]] &&
    ownerOf s' "clb" "toka" == some "A0" && ownerOf s' "clb" "tokz" == some "A2" &&
    supplyOf s' "clb" == 2 && supplyOf s' "cla" == 0 && balanceOf s' "A0" "clb" == 1 &&
    creatorOf s' "cla" == some "A3" && updateRestricted s' "cla" && mintRestricted s' "cla" &&
    !hasNFT s' "cla" "tok1" && (tokenOf s' "clb" "tokz").map (·.name) == some "6e6577" &&
    invB (obsOf s') && sameObs (obsOf nftDemo) (obsOf s')
  | .error _ => false

end Irismod.Props.C12.Nft
