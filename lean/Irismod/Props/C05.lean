/-
C05 — Farm: staked principal is exactly accounted for and always withdrawable.
Headline theorems about the model `Irismod.Farm` (every state, every operation, every history).

* (a) Σ farmers' stakes = pool total (`stakes_sum_run`), (b) module account = Σ stakes +
  Σ undistributed budgets (`module_account_run`), (c) principal leg always covered
  (`principal_covered_run`): invariants of *all* histories.
* (e) community-pool farms (MsgCreatePoolWithCommunityPool, the proposal handler, the gov hooks):
  the escrow collector holds exactly the funds of the escrow infos on record
  (`escrow_account_run`), the gov account exactly the recorded deposits (`gov_account_run`), the
  escrow infos mirror the live proposals (`escrow_tables_run`), the community pool is covered by
  the distribution module account and moves in lock-step with it (`community_pool_backed_run`,
  `community_pool_lockstep`): invariants of all histories over the extended operation alphabet;
  (a)–(c) hold for pools created from the community pool as for any other.
* (d) "a withdrawal up to the recorded stake never fails" is FALSE of the code
  (`withdraw_can_fail`, witness F-farm-1); what is true: it can only fail through a reward-
  collector shortfall (F-farm-1) or a decimal-range panic (`unstake_ok_partial`).
(The former exclusion of the F-farm-2 class is gone: the code was repaired in commit 966aea0
and the model follows the repaired `AdjustPool`.)
-/
import Irismod.Proofs.FarmWitness
import Irismod.Proofs.FarmCpSettle

namespace Irismod.Props.C05
open Irismod Irismod.Sdk Irismod.Farm Irismod.Spec Irismod.Spec.C05 Irismod.Proofs.Farm

/-! ### (a) Σ stakes = pool total, for every history -/

/-- `Stakes` = C05(a) plus uniqueness of farmer keys; it holds initially … -/
theorem stakes_genesis {s : State} (hg : Genesis s) : Stakes s := by
  obtain ⟨hp, hf, _⟩ := hg
  refine ⟨?_, by unfold NodupKeys; rw [hf]; exact List.nodup_nil⟩
  intro id
  unfold stakedSum lockedOf getPool
  rw [hf, hp]; rfl

/-- … is preserved by every operation, accepted or not, including block ends whose refunds
fail half-way … -/
theorem stakes_step (s : State) (op : Op) (hs : Stakes s) : Stakes (apply s op) := stakes_apply s op hs

/-- … hence along every history. -/
theorem stakes_sum_run (s : State) (ops : List Op) (hs : Stakes s) : StakesSum (run s ops) :=
  (stakes_run ops s hs).sum

/-- **C05(a)**: in every reachable state, for every pool, the farmers' recorded stakes add up
to the pool's recorded total. -/
theorem stakes_sum_reachable (s : State) (hr : Reachable s) : StakesSum s := by
  obtain ⟨s0, ops, hg, rfl⟩ := hr
  exact stakes_sum_run s0 ops (stakes_genesis hg)

/-! ### (b), (c) module account identity and principal coverage -/

/-- the bundle holds initially … -/
theorem inv_init {s : State} (hg : Genesis s) (hh : 0 ≤ s.height) : Inv s := inv_genesis hg hh

/-- … and is preserved by every operation. -/
theorem inv_step (s : State) (op : Op) (hi : Inv s) : Inv (apply s op) :=
  inv_apply s op hi

/-- **C05(b)**: along every history the farm module account holds exactly all pools' staked
tokens plus all undistributed reward budgets, denom by denom. -/
theorem module_account_run (s0 : State) (ops : List Op) (hg : Genesis s0) (hh : 0 ≤ s0.height) :
    ModuleAccount (run s0 ops) :=
  (inv_run ops s0 (inv_genesis hg hh)).modacc

theorem principal_covered_of_inv {s : State} (hi : Inv s) : PrincipalCovered s := by
  intro a id f p hf hp
  have h1 : f.locked ≤ stakedSum s id :=
    get?_le_sumIf (fun k : Addr × PoolId => k.2 = id) (fun f : Farmer => f.locked) s.farmers (a, id) f hf (by simp)
  have h2 := hi.stakes.sum id
  unfold lockedOf at h2
  rw [hp] at h2
  simp only [Option.map, Option.getD] at h2
  have h3 := poolHolds_le_expected hp p.lpt
  unfold poolHolds at h3
  simp only [if_true] at h3
  have h4 := hi.modacc p.lpt
  omega

/-- **C05(c)**: the principal leg of any withdrawal up to the recorded stake is covered by
the module account. -/
theorem principal_covered_run (s0 : State) (ops : List Op) (hg : Genesis s0) (hh : 0 ≤ s0.height) :
    PrincipalCovered (run s0 ops) :=
  principal_covered_of_inv (inv_run ops s0 (inv_genesis hg hh))

/-! ### (e) community-pool farms: escrow collector, gov account, community pool -/

/-- the bundle of the community-pool path holds initially … -/
theorem cp_inv_init {s : State} (hg : Genesis s) : CpInv s := cpInv_genesis hg

/-- … and is preserved by every operation (with the bundle `Inv`) … -/
theorem cp_inv_step (s : State) (op : Op) (hi : Inv s) (hc : CpInv s) : CpInv (apply s op) := cpInv_apply s op hi hc

/-- … hence along every history. -/
theorem cp_inv_run (s0 : State) (ops : List Op) (hg : Genesis s0) (hh : 0 ≤ s0.height) : CpInv (run s0 ops) :=
  cpInv_run ops s0 (inv_genesis hg hh) (cpInv_genesis hg)

/-- **C05(e)**: along every history `balance(EscrowCollector) = Σ escrowInfos (fundApplied +
fundSelfBond)`, denom by denom. -/
theorem escrow_account_run (s0 : State) (ops : List Op) (hg : Genesis s0) (hh : 0 ≤ s0.height) :
    EscrowAccount (run s0 ops) := (cp_inv_run s0 ops hg hh).escrow

/-- along every history the gov module account holds exactly the deposits of the proposals on
record (so gov's refund of a deposit cannot fail) -/
theorem gov_account_run (s0 : State) (ops : List Op) (hg : Genesis s0) (hh : 0 ≤ s0.height) :
    GovAccount (run s0 ops) := (cp_inv_run s0 ops hg hh).gov

/-- along every history an escrow info exists exactly for the proposals gov has not finished
with, and carries the proposer and the funds of the proposal -/
theorem escrow_tables_run (s0 : State) (ops : List Op) (hg : Genesis s0) (hh : 0 ≤ s0.height) :
    Tables (run s0 ops) := (cp_inv_run s0 ops hg hh).tables

/-- **community pool covered**: along every history the fee pool's community pool never exceeds
what the distribution module account holds. -/
theorem community_pool_backed_run (s0 : State) (ops : List Op) (hg : Genesis s0) (hh : 0 ≤ s0.height) :
    Backed (run s0 ops) := (cp_inv_run s0 ops hg hh).backed

/-- **lock-step**: no operation changes `balance(distribution) × 10¹⁸ − communityPool`: whatever
the farm module moves into or out of the distribution module account (escrow of applied funds,
refund of an escrow, refund of an ended community-pool farm) it books on the community pool, coin
for coin. -/
theorem community_pool_lockstep (s : State) (op : Op) (hi : Inv s) (hc : CpInv s) (d : Denom) :
    distrGap (apply s op) d = distrGap s d := lock_apply s op hi hc d

/-- … so along every history the difference is what it was at the start -/
theorem community_pool_lockstep_run : ∀ (ops : List Op) (s : State), Inv s → CpInv s → ∀ d, distrGap (run s ops) d = distrGap s d
  | [], _, _, _, _ => rfl
  | op :: ops, s, hi, hc, d => by
    show distrGap (run (apply s op) ops) d = _
    rw [community_pool_lockstep_run ops _ (inv_apply s op hi) (cpInv_apply s op hi hc) d]
    exact lock_apply s op hi hc d

/-! ### (d) the full statement is false: witness F-farm-1 -/

set_option maxRecDepth 100000 in
/-- **C05(d) is false of the code**: A2's withdrawal of his own recorded stake is rejected
(the reward collector is short by the floored debts) — finding F-farm-1. -/
theorem withdraw_can_fail : ¬ WithdrawNeverFails := by
  intro h
  have hr : Reachable (run w1Genesis w1Ops) := ⟨w1Genesis, w1Ops, w1_genesis, rfl⟩
  cases hf : getFarmer (run w1Genesis w1Ops) "A2" "farm-1" with
  | none =>
    have : (getFarmer (run w1Genesis w1Ops) "A2" "farm-1").isSome = true := by decide
    rw [hf] at this; cases this
  | some f =>
  have hfl : f.locked = 1 := by
    have : (getFarmer (run w1Genesis w1Ops) "A2" "farm-1").map (·.locked) = some 1 := by decide
    rw [hf] at this; simpa using this
  cases hp : getPool (run w1Genesis w1Ops) "farm-1" with
  | none =>
    have : (getPool (run w1Genesis w1Ops) "farm-1").isSome = true := by decide
    rw [hp] at this; cases this
  | some p =>
    have hl : p.lpt = "lpt-1" := by
      have : (getPool (run w1Genesis w1Ops) "farm-1").map (·.lpt) = some "lpt-1" := by decide
      rw [hp] at this; simpa using this
    obtain ⟨s', hs'⟩ := h _ hr "A2" "farm-1" f p 1 hf hp (by omega) (by omega)
    rw [hl] at hs'
    have : C05.isOkE (step (run w1Genesis w1Ops) (.unstake "A2" "farm-1" "lpt-1" 1)) = false := by decide
    rw [hs'] at this
    cases this

/-! ### (d') what is true -/

/-- the reward collector can pay what `Unstake` computes for this farmer (the hypothesis that
fails in F-farm-1) -/
def CollectorCovers (s : State) (a : Addr) (id : PoolId) (amt : Nat) (p : Pool) (f : Farmer) : Prop :=
  ∀ s2 p1 rewards debt, unstakeAt s a id p.lpt amt p f = .ok (s2, p1, rewards, debt) →
    ∀ d, sumOf rewards d ≤ s2.bank.balOf collectorAcc d

/-- the step does not leave the 315-bit range of `LegacyDec` (or produce a negative coin) -/
def NoRangePanic (s : State) (a : Addr) (id : PoolId) (amt : Nat) (p : Pool) (f : Farmer) : Prop :=
  ∀ w, unstakeAt s a id p.lpt amt p f ≠ .error (.panic w)

/-- **C05(d')**: in a state of the bundle (every reachable state, `inv_run`), a user's withdrawal of any positive amount up to the recorded stake is accepted whenever
the reward collector covers the accrued reward and no decimal-range panic occurs: `Unstake`
never rejects for any other reason — not for the principal, not for the pool update, at any
height, before or after the pool has ended or been destroyed. -/
theorem unstake_ok_partial (s : State) (hi : Inv s) (a : Addr) (id : PoolId) (f : Farmer) (p : Pool) (amt : Nat)
    (hu : isModuleAcc a = false) (hv : validPoolId id = true)
    (hf : getFarmer s a id = some f) (hp : getPool s id = some p) (hpos : 0 < amt) (ha : amt ≤ f.locked)
    (hcov : CollectorCovers s a id amt p f) (hnp : NoRangePanic s a id amt p f) :
    ∃ s', step s (.unstake a id p.lpt amt) = .ok s' := by
  obtain ⟨une1, une2, _⟩ := user_ne hu
  -- the recorded stake is below the pool total
  have hle : amt ≤ p.locked := by
    have h1 : f.locked ≤ stakedSum s id :=
      get?_le_sumIf (fun k : Addr × PoolId => k.2 = id) (fun f : Farmer => f.locked) s.farmers (a, id) f hf (by simp)
    have h2 := hi.stakes.sum id
    unfold lockedOf at h2
    rw [hp] at h2
    simp only [Option.map, Option.getD] at h2
    omega
  -- the pool leg succeeds (or panics)
  have hpool : (∃ s1 p1, unstakePool s id p amt = (s1, .ok p1)) ∨ (∃ s1 w, unstakePool s id p amt = (s1, .error (.panic w))) := by
    unfold unstakePool
    split
    · exact Or.inl ⟨_, _, rfl⟩
    · rename_i hexp
      have hnx : expired s id p = false := by simpa using hexp
      unfold expired at hnx
      have hact : C06.active s id p = true ∧ s.height ≤ p.endH := by
        split at hnx
        · cases hnx
        · rename_i hgt
          split at hnx
          · rename_i heq
            exact ⟨by unfold C06.active; simpa using hnx, by omega⟩
          · rename_i hne
            have hlt : s.height < p.endH := by omega
            have := hi.core.queue.2.1 id p hp hlt
            exact ⟨by unfold C06.active; simpa using this, by omega⟩
      exact updatePool_total_of_inv hi hp hact.1 hact.2 s rfl rfl
  have hstep : step s (.unstake a id p.lpt amt) = stepUnstake s a id p.lpt amt := by
    simp [step, Op.sender, hu, stepMsg]
  rw [hstep]
  unfold stepUnstake
  have hnz : ¬ (amt = 0) := by omega
  simp only [hv, Bool.not_true, Bool.false_eq_true, if_false, hnz, hp, ne_eq, not_true_eq_false, hf]
  -- unfold the core
  have hnp' := hnp
  have hcov' := hcov
  unfold NoRangePanic at hnp'
  unfold CollectorCovers at hcov'
  unfold unstakeAt at hnp' hcov' ⊢
  have c1 : ¬ (f.locked < amt) := by omega
  have c2 : ¬ (p.locked < amt) := by omega
  simp only [c1, c2, if_false] at hnp' hcov' ⊢
  rcases hpool with ⟨s1, p1, hpl⟩ | ⟨s1, w, hpl⟩
  · rw [hpl] at hnp' hcov' ⊢
    simp only at hnp' hcov' ⊢
    obtain ⟨cc1, hp1, _, hg1⟩ := unstakePool_core hi.core hp hle hpl
    -- the principal leg is covered
    have hcovp : ∀ d, sumOf (nonzero [(p.lpt, amt)]) d ≤ s1.bank.balOf farmAcc d := by
      intro d
      rw [sumOf_single]
      have g := hg1 d
      rw [(moduleAccount_iff s).mp hi.modacc d] at g
      unfold gap at g
      split
      · rename_i e; simp only [e, if_true] at g; omega
      · exact Nat.zero_le _
    obtain ⟨b2, hb2⟩ := sendCoins_ok _ _ farmAcc a (Ne.symm une1) hcovp
    have hsend : sendAll s1 farmAcc a (nonzero [(p.lpt, amt)]) = .ok { s1 with bank := b2 } := by
      unfold sendAll; rw [hb2]
    rw [hsend] at hnp' hcov' ⊢
    simp only at hnp' hcov' ⊢
    cases hc : caclRewards p1.rules f (-(amt : Int)) with
    | none =>
      rw [hc] at hnp'
      exact absurd rfl (hnp' _)
    | some rd =>
      obtain ⟨rewards, debt⟩ := rd
      rw [hc] at hcov'
      simp only at hcov' ⊢
      have hcv := hcov' _ _ _ _ rfl
      have hpay : ∃ s3, payRewards { s1 with bank := b2 } a rewards = .ok s3 := by
        unfold payRewards
        split
        · exact ⟨_, rfl⟩
        · obtain ⟨b3, hb3⟩ := sendCoins_ok _ _ collectorAcc a (Ne.symm une2) hcv
          unfold sendAll
          rw [hb3]
          exact ⟨_, rfl⟩
      obtain ⟨s3, hs3⟩ := hpay
      unfold unstakeFinish
      rw [hs3]
      exact ⟨_, rfl⟩
  · rw [hpl] at hnp'
    exact absurd rfl (hnp' w)

end Irismod.Props.C05
