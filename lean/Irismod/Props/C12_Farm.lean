/-
C12 (farm slice) — the exported farm state re-imports and preserves what users rely on.

Headline theorems about `Irismod.FarmGenesis` (ExportGenesis / ValidateGenesis / InitGenesis of
modules/farm, after the repairs 0c5f83b and 815496d) on top of the farm state machine:

* the genesis well-formedness `GenWF` (unique pool keys, ids `farm-<n>` with `n ≤ sequence`,
  bounded descriptions, farmer records with positive stake and a valid debt coin set, valid
  parameters) holds initially and is preserved by every operation, so — with the invariant
  bundle `Inv` of C05/C06/C13 — by every history (`farm_wf_run`);
* for every such state the exported document passes `ValidateGenesis` (`farm_export_validates`);
* an export is taken between two blocks (`BlockStart`: no pool has ended at the current height;
  true after every block end, `farm_block_start`).  For every such state `InitGenesis` of the
  export succeeds and every query of the projection answers the same: pools with heights, rules,
  remaining budgets and reward per share, farmers with stake and reward debt, the active queue
  (rebuilt exactly for the pools that have not ended), the sequence (the next pool gets the same
  id), the parameters, the bank, the height (`farm_import_succeeds`, `farm_queries_preserved`,
  `farm_next_pool_same_id`); the pending reward of every farmer is the same
  (`farm_pending_preserved`); the export is a fixpoint (`farm_export_fixpoint`); the imported
  state satisfies the bundle and the well-formedness again (`farm_inv_roundTrip`).
* the two histories on which the code used to violate this (F-gen-11: a pool ending at the
  import height lost its queue entry; F-gen-12: a reward per share truncated to zero made the
  export invalid) now round-trip (`farm_regression_gen11`, `farm_regression_gen12`).
* the escrow infos of pending community-pool proposals are exported (ascending proposal id) and
  re-imported: every lookup answers the same after the round trip, the community pool, the gov
  proposals and the bank — which the farm genesis does not carry — stay in place
  (`farm_escrow_preserved`), and the bundle of the community-pool path (escrow-collector
  identity, tables) holds for the imported state (`farm_cp_inv_roundTrip`).
-/
import Irismod.Proofs.FarmGenesisRoundTrip
import Irismod.Proofs.FarmCpSettle
import Irismod.Spec.C12Farm

namespace Irismod.Props.C12.Farm
open Irismod Irismod.Sdk Irismod.Farm Irismod.FarmGenesis Irismod.Spec
open Irismod.Proofs.Farm Irismod.Proofs.FarmGenesis

/-- the state after `InitGenesis(ExportGenesis(s))` on an emptied module store -/
abbrev roundTrip (s : State) : State := reimport s

/-! ### well-formedness of every reachable state -/

theorem farm_wf_init {s : State} (hg : C05.Genesis s) (hp : validParams s.params = true) : GenWF s :=
  genWF_genesis hg hp

theorem farm_wf_step (s : State) (op : Op) (hi : Inv s) (hg : GenWF s) : GenWF (apply s op) :=
  genWF_apply s op hi hg

/-- **reachable lift**: bundle and well-formedness after every history -/
theorem farm_wf_run (s0 : State) (ops : List Op) (hg : C05.Genesis s0) (hh : 0 ≤ s0.height)
    (hp : validParams s0.params = true) : Inv (run s0 ops) ∧ GenWF (run s0 ops) :=
  ⟨inv_run ops s0 (inv_genesis hg hh), genWF_run ops s0 (inv_genesis hg hh) (genWF_genesis hg hp)⟩

/-- **between blocks**: after any run of block ends that did not abort, no pool has ended at
the current height (and initially there is no pool at all) -/
theorem farm_block_start (s : State) (n : Nat) (hi : Inv s) (hf : (endBlocks (n + 1) s).2 = false) :
    BlockStart (endBlocks (n + 1) s).1 :=
  blockStart_endBlocks n s hi hf

/-! ### the round trip -/

/-- the export of every reachable state passes the module's own `ValidateGenesis` -/
theorem farm_export_validates (s : State) (hi : Inv s) (hg : GenWF s) (hr : SeqInRange s) :
    validateGenesis (exportGenesis s) = .ok () :=
  export_validates hi hg hr

/-- `InitGenesis` of the export succeeds -/
theorem farm_import_succeeds (s : State) (hi : Inv s) (hg : GenWF s) (hr : SeqInRange s) (hb : BlockStart s) :
    ∃ s', importGenesis s (exportGenesis s) = .ok s' := by
  obtain ⟨s', h, _⟩ := import_export hi hg hr hb
  exact ⟨s', h⟩

theorem roundTrip_same (s : State) (hi : Inv s) (hg : GenWF s) (hr : SeqInRange s) (hb : BlockStart s) :
    SameQueries s (roundTrip s) := by
  obtain ⟨s', h, hq⟩ := import_export hi hg hr hb
  unfold roundTrip reimport
  rw [h]; exact hq

/-- every query of the projection answers the same after the round trip -/
theorem farm_queries_preserved (s : State) (hi : Inv s) (hg : GenWF s) (hr : SeqInRange s) (hb : BlockStart s) :
    (∀ id, getPool (roundTrip s) id = getPool s id) ∧
    (∀ a id, getFarmer (roundTrip s) a id = getFarmer s a id) ∧
    (∀ e, e ∈ (roundTrip s).queue ↔ e ∈ s.queue) ∧ (roundTrip s).queue.Nodup ∧
    (roundTrip s).seq = s.seq ∧ (roundTrip s).params = s.params ∧
    (roundTrip s).bank = s.bank ∧ (roundTrip s).height = s.height := by
  have h := roundTrip_same s hi hg hr hb
  exact ⟨h.pools, h.farmers, h.queue, h.qnodup, h.seq, h.params, h.bank, h.height⟩

/-- the escrow infos answer the same after the round trip; what the farm genesis does not carry
(community pool, gov's proposals and sequence) is untouched -/
theorem farm_escrow_preserved (s : State) (hi : Inv s) (hg : GenWF s) (hr : SeqInRange s) (hb : BlockStart s) :
    (∀ pid, AMap.get? (roundTrip s).cp.escrow pid = AMap.get? s.cp.escrow pid) ∧
    (exportGenesis (roundTrip s)).escrow = (exportGenesis s).escrow ∧
    (roundTrip s).cp.pool = s.cp.pool ∧ (roundTrip s).cp.props = s.cp.props ∧ (roundTrip s).cp.nextId = s.cp.nextId := by
  have h := roundTrip_same s hi hg hr hb
  exact ⟨h.escrow, exportEscrow_congr h.escrow, h.cpPool, h.cpProps, h.cpNext⟩

/-- the bundle of the community-pool path (escrow-collector identity, gov account, community pool
covered, escrow infos ↔ live proposals) survives the round trip -/
theorem farm_cp_inv_roundTrip (s : State) (hi : Inv s) (hc : CpInv s) (hg : GenWF s) (hr : SeqInRange s) (hb : BlockStart s) :
    CpInv (roundTrip s) := by
  have h := roundTrip_same s hi hg hr hb
  obtain ⟨t1, t2, t3, t4, t5, t6⟩ := hc.tables
  have hperm : (roundTrip s).cp.escrow.Perm s.cp.escrow :=
    Irismod.Proofs.GenesisList.perm_of_mem h.ekeys t4 (mem_iff_of_get h.ekeys t4 h.escrow)
  refine ⟨?_, ?_, ?_, ?_⟩
  · intro d
    unfold C05.expectedEscrow AMap.sumBy
    rw [h.bank, Irismod.Proofs.GenesisList.sumIf_perm _ _ hperm]
    exact hc.escrow d
  · unfold C05.GovAccount C05.expectedGov
    rw [h.bank, h.cpProps]; exact hc.gov
  · intro d
    unfold C05.cpoolOf
    rw [h.bank, h.cpPool]; exact hc.backed d
  · refine ⟨?_, ?_, ?_, h.ekeys, by rw [h.cpProps]; exact t5, ?_⟩
    · intro pid e hge; rw [h.escrow] at hge; rw [h.cpProps]; exact t1 pid e hge
    · intro pid pr hgp ha; rw [h.cpProps] at hgp; rw [h.escrow]; exact t2 pid pr hgp ha
    · intro pid hle; rw [h.cpNext] at hle; rw [h.cpProps, h.escrow]; exact t3 pid hle
    · intro pid pr hgp ha; rw [h.cpProps] at hgp; exact t6 pid pr hgp ha

/-- the next pool gets the same id with or without the round trip -/
theorem farm_next_pool_same_id (s : State) (hi : Inv s) (hg : GenWF s) (hr : SeqInRange s) (hb : BlockStart s) :
    poolIdOf ((roundTrip s).seq + 1) = poolIdOf (s.seq + 1) := by
  rw [(roundTrip_same s hi hg hr hb).seq]

/-- a pool is expired after the round trip iff it was before (so every message meets the same
guard) -/
theorem farm_expired_preserved (s : State) (hi : Inv s) (hg : GenWF s) (hr : SeqInRange s) (hb : BlockStart s)
    (id : PoolId) (p : Pool) : expired (roundTrip s) id p = expired s id p := by
  have h := roundTrip_same s hi hg hr hb
  have ha := active_same h id p
  unfold C06.active at ha
  unfold expired
  rw [h.height, ha]

/-- the pending reward of every farmer (stake × stored reward per share − debt, rule by rule)
and the debt the next interaction would record are the same -/
theorem farm_pending_preserved (s : State) (hi : Inv s) (hg : GenWF s) (hr : SeqInRange s) (hb : BlockStart s)
    (a : Addr) (id : PoolId) :
    ((getFarmer (roundTrip s) a id).bind fun f => (getPool (roundTrip s) id).bind fun p => caclRewards p.rules f 0) =
    ((getFarmer s a id).bind fun f => (getPool s id).bind fun p => caclRewards p.rules f 0) := by
  have h := roundTrip_same s hi hg hr hb
  rw [h.farmers, h.pools]

/-- exporting the imported state gives the same document -/
theorem farm_export_fixpoint (s : State) (hi : Inv s) (hg : GenWF s) (hr : SeqInRange s) (hb : BlockStart s) :
    exportGenesis (roundTrip s) = exportGenesis s :=
  export_same (roundTrip_same s hi hg hr hb)

/-- the imported state satisfies the invariant bundle and the well-formedness again, and is
again a between-blocks state: everything proved about reachable states (C05, C06, C13) holds
for the restarted chain -/
theorem farm_inv_roundTrip (s : State) (hi : Inv s) (hg : GenWF s) (hr : SeqInRange s) (hb : BlockStart s) :
    Inv (roundTrip s) ∧ GenWF (roundTrip s) ∧ BlockStart (roundTrip s) := by
  have h := roundTrip_same s hi hg hr hb
  obtain ⟨i, g⟩ := inv_same h hi hg
  refine ⟨i, g, ?_⟩
  intro id p hp hend
  rw [h.pools] at hp; rw [h.height] at hend
  rw [active_same h]; exact hb id p hp hend

/-! ### regression witnesses of the two repaired findings -/

/-- F-gen-11: btc 5 at 1/block from height 10, A1 stakes 2, five block ends: the pool is due at
the import height 15 -/
def g11 : State :=
  run { height := 10, bank := { bal := [(("A0", "btc"), 1000), (("A0", "stake"), 10000), (("A1", "lpt-1"), 10)] } }
    [.createPool "A0" "d1" "lpt-1" 10 [("btc", 1)] [("btc", 5)] true, .stake "A1" "farm-1" "lpt-1" 2, .endBlocks 5]

/-- F-gen-12: reward 1/block, A1 stakes 2·10¹⁸, one block, harvest: reward per share stays 0 -/
def g12 : State :=
  run { height := 10, bank := { bal := [(("A0", "btc"), 1000), (("A0", "stake"), 10000), (("A1", "lpt-1"), 5000000000000000000)] } }
    [.createPool "A0" "d1" "lpt-1" 10 [("btc", 1)] [("btc", 5)] true, .stake "A1" "farm-1" "lpt-1" 2000000000000000000,
     .endBlocks 1, .harvest "A1" "farm-1"]

set_option maxRecDepth 100000 in
/-- the pool ending at the import height keeps its queue entry, and the EndBlocker of that block
refunds it after the round trip exactly as without it -/
theorem farm_regression_gen11 :
    g11.queue = [(15, "farm-1")] ∧ (roundTrip g11).queue = [(15, "farm-1")] ∧
    ((endBlocks 1 (roundTrip g11)).1.queue = []) ∧
    ((endBlocks 1 (roundTrip g11)).1.bank.balOf collectorAcc "btc" = (endBlocks 1 g11).1.bank.balOf collectorAcc "btc") := by
  decide

set_option maxRecDepth 100000 in
/-- a released rule with reward per share 0 validates and re-imports -/
theorem farm_regression_gen12 :
    (((getPool g12 "farm-1").map fun p => p.rules.map fun r => (r.rps.raw, r.remaining, r.total)) = some [(0, 4, 5)]) ∧
    C05.isOkE (validateGenesis (exportGenesis g12)) = true ∧ C05.isOkE (importGenesis g12 (exportGenesis g12)) = true := by
  decide

end Irismod.Props.C12.Farm
