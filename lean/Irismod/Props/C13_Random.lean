/-
C13 (random slice) — the random module's begin block never halts (for block time unix ≠ 0,
the boundary recorded as F-rnd-1), handles every due request exactly once, and the request
queue is hygienic on every reachable state (every entry sits under the id of its own request
and is due at the current height or later — for every block interval: the handler rejects
intervals whose due height does not fit `int64`, fix f728afa / F-rnd-2). In this module the queue entry *is* the pending request (there is no
separate object table), so "queue entries <-> pending requests" is the statement that the key
of every entry is determined by its request and by nothing else.
-/
import Irismod.Props.C18

namespace Irismod.Props.C13Random
open Irismod Irismod.Random Irismod.Spec.C18 Irismod.Proofs.Random Irismod.Props.C18

/-- totality: with block time unix ≠ 0 the begin block completes on *every* state (no
    invariant needed), whatever is queued -/
theorem beginBlock_total (s : State) (h t : Int) (hash : ByteArray) (st : List String) (ht : t ≠ 0) :
    ∃ s', step s (.beginBlock h t hash st) = .ok s' := beginBlockTotal_partial s h t hash st ht

/-- the only abort is the zero block time meeting a due non-oracle request (F-rnd-1) -/
theorem beginBlock_aborts_only_at_zero_time (s : State) (h t : Int) (hash : ByteArray) (st : List String) (e : Err)
    (hs : step s (.beginBlock h t hash st) = .error e) :
    t = 0 ∧ ∃ r ∈ dueRequests s.queue (u64 (h - 1)), r.oracle = false :=
  beginBlock_error_only_zero_time s h t hash st e hs

/-- and it does abort there: the unrestricted totality statement is false -/
theorem beginBlock_total_unrestricted_false : ¬ BeginBlockTotal := beginBlockTotal_false

/-- each due request is processed exactly once: the begin block of height `h` removes every
    entry queued under `h - 1`, fulfils each non-oracle one (result readable under its id), hands
    each oracle one to the service callbacks or drops it, touches no other entry, and leaves
    nothing due before `h` -/
theorem each_due_request_processed (s s' : State) (h t : Int) (hash : ByteArray) (st : List String)
    (hi : QueueInv requestId s) (hv : h = s.height + 1 ∧ h < two63)
    (hs : step s (.beginBlock h t hash st) = .ok s') :
    (∀ id, AMap.get? s'.queue (u64 (h - 1), id) = none) ∧
    (∀ key, key.1 ≠ u64 (h - 1) → AMap.get? s'.queue key = AMap.get? s.queue key) ∧
    (∀ e ∈ s'.queue, h ≤ (e.1.1 : Int)) ∧
    (∀ e ∈ s.queue, e.1.1 = u64 (h - 1) → e.2.oracle = false →
       ∃ n, prngNum hash t (addrBytes s e.2.consumer) false ByteArray.empty = some n ∧
            AMap.get? s'.randoms e.1.2 = some { txHash := e.2.txHash, height := h - 1, value := valueString n }) := by
  obtain ⟨a, b, c, _⟩ := beginBlock_drains_due s s' h t hash st hi hv hs
  refine ⟨a, b, c, ?_⟩
  intro e he hk ho
  obtain ⟨n, h1, _, h3⟩ := beginBlock_fulfils_due s s' h t hash st hi hs e he hk ho
  exact ⟨n, h1, h3⟩

/-- nothing but its own begin block removes a pending entry -/
theorem entry_survives_other_steps (s : State) (op : Op) (key : Nat × Id) (hp : (AMap.get? s.queue key).isSome)
    (hnot : ∀ h t hash st, op = .beginBlock h t hash st → key.1 ≠ u64 (h - 1)) :
    (AMap.get? (apply s op).queue key).isSome := pending_until_due s op key hp hnot

/-- queue hygiene on every state reachable through a chain history -/
theorem queue_hygiene_reachable (s : State) (ops : List Op) (hi : QueueInv requestId s) (hv : RunValid s ops) :
    QueueInv requestId (run s ops) ∧
    ∀ (k : Nat) (id : Id), (k : Int) < (run s ops).height → AMap.get? (run s ops).queue (k, id) = none :=
  ⟨inv_run hi hv, fun k id hk => absent_after_due s ops hi hv k id hk⟩

end Irismod.Props.C13Random
