/-
Tie between the fee arithmetic of the token model and /repo's source, over the REGENERATED translation
`Gen/PureTokenFee.lean` (`extract/x_pure`, every run): the mint-fee ratio step, the community tax of a fee and the
issue-fee quotient are the expressions of `Token.mintFee`, `Token.taxOf` and `Token.calcIssueFee`.
-/
import Irismod.Gen.PureTokenFee
import Irismod.Model.Token
import Irismod.Proofs.GoSemLemmas
namespace Irismod.Props.Tie
open Irismod.Sdk Irismod.GoSem

theorem tokenfee_all_translated : Irismod.Gen.PureTokenFee.untranslated = [] := rfl
theorem tokenfee_translated_pinned : Irismod.Gen.PureTokenFee.translated =
    ["MintToken_guard_1(read_owner_String,token_Owner)",
     "MintToken_guard_2(token_Mintable)",
     "MintToken_precision_1(token_Scale)",
     "MintToken_mintableAmt_1(token_MaxSupply,precision,supply)",
     "MintToken_guard_3(coinMinted,mintableAmt)",
     "MintToken_cond_4(read_recipient_Empty)",
     "EditToken_guard_1(read_owner_String,token_Owner)",
     "EditToken_cond_2(maxSupply)",
     "EditToken_issuedAmt_1(read_k_getTokenSupply_ctx_token_MinUnit)",
     "EditToken_precision_1(token_Scale)",
     "EditToken_guard_3(maxSupply,precision,issuedAmt)",
     "EditToken_token_MaxSupply_1(maxSupply)",
     "EditToken_cond_4(name)",
     "EditToken_token_Name_1(name)",
     "EditToken_cond_5(exist)",
     "EditToken_cond_6(mintable)",
     "EditToken_token_Mintable_1(read_mintable_ToBool)",
     "GetTokenMintFee_mintFee_1(fee,params_MintTokenFeeRatio)",
     "feeHandler_communityTaxCoin_1(fee,tokenTaxRate)",
     "calcFeeByBase_actualFee_1(baseFee,feeFactor)"] := rfl

/-- every rejecting guard (an `if` ending in the return of an error, or in a panic) of the translated functions and of
the handlers around them, as source text in source order: removing, weakening or reordering one breaks this -/
theorem tokenfee_guards_pinned : Irismod.Gen.PureTokenFee.guards =
    ["MintToken: token, err := k.getTokenByMinUnit(ctx, coinMinted.Denom); err != nil",
     "MintToken: owner.String() != token.Owner",
     "MintToken: !token.Mintable",
     "MintToken: coinMinted.Amount.GT(mintableAmt)",
     "MintToken: err := k.bankKeeper.MintCoins(ctx, types.ModuleName, mintCoins); err != nil",
     "EditToken: token, err := k.getTokenBySymbol(ctx, symbol); err != nil",
     "EditToken: owner.String() != token.Owner",
     "EditToken: sdkmath.NewIntFromUint64(maxSupply).Mul(precision).LT(issuedAmt)",
     "GetTokenMintFee: token, err := k.GetToken(ctx, fee.Denom); err != nil",
     "feeHandler: err := k.bankKeeper.SendCoinsFromAccountToModule( ctx, feeAcc, types.ModuleName, sdk.NewCoins(fee), ); err != nil",
     "feeHandler: err := k.bankKeeper.SendCoinsFromModuleToModule(ctx, types.ModuleName, k.feeCollectorName, sdk.NewCoins(communityTaxCoin)); err != nil",
     "Keeper.IssueToken: err := k.AddToken(ctx, token, true); err != nil",
     "Keeper.IssueToken: err := k.bankKeeper.MintCoins(ctx, types.ModuleName, mintCoins); err != nil",
     "Keeper.BurnToken: _, err := k.getTokenByMinUnit(ctx, coinBurnt.Denom); err != nil",
     "Keeper.BurnToken: err := k.bankKeeper.SendCoinsFromAccountToModule(ctx, owner, types.ModuleName, burnCoins); err != nil",
     "Keeper.TransferTokenOwner: token, err := k.getTokenBySymbol(ctx, symbol); err != nil",
     "Keeper.TransferTokenOwner: srcOwner.String() != token.Owner",
     "Keeper.SwapFeeToken: burnedCoin, mintedCoin, err := k.calcFeeTokenMinted(ctx, feePaid); err != nil",
     "Keeper.SwapFeeToken: err := k.bankKeeper.SendCoinsFromAccountToModule(ctx, sender, types.ModuleName, burnedCoins); err != nil",
     "Keeper.SwapFeeToken: err := k.bankKeeper.BurnCoins(ctx, types.ModuleName, burnedCoins); err != nil",
     "Keeper.SwapFeeToken: err := k.bankKeeper.MintCoins(ctx, types.ModuleName, mintedCoins); err != nil",
     "msgServer.IssueToken: owner, err := sdk.AccAddressFromBech32(msg.Owner); err != nil",
     "msgServer.IssueToken: m.k.blockedAddrs[msg.Owner]",
     "msgServer.IssueToken: err := m.k.DeductIssueTokenFee(ctx, owner, msg.Symbol); err != nil",
     "msgServer.IssueToken: err := m.k.IssueToken( ctx, msg.Symbol, msg.Name, msg.MinUnit, msg.Scale, msg.InitialSupply, msg.MaxSupply, msg.Mintable, owner, ); err != nil",
     "msgServer.EditToken: owner, err := sdk.AccAddressFromBech32(msg.Owner); err != nil",
     "msgServer.EditToken: err := m.k.EditToken( ctx, msg.Symbol, msg.Name, msg.MaxSupply, msg.Mintable, owner, ); err != nil",
     "msgServer.MintToken: owner, err := sdk.AccAddressFromBech32(msg.Owner); err != nil",
     "msgServer.MintToken: recipient, err = sdk.AccAddressFromBech32(msg.Receiver); err != nil",
     "msgServer.MintToken: m.k.blockedAddrs[recipient.String()]",
     "msgServer.MintToken: symbol, err := m.k.getSymbolByMinUnit(ctx, msg.Coin.Denom); err != nil",
     "msgServer.MintToken: err := m.k.DeductMintTokenFee(ctx, owner, symbol); err != nil",
     "msgServer.MintToken: err := m.k.MintToken(ctx, msg.Coin, recipient, owner); err != nil",
     "msgServer.BurnToken: owner, err := sdk.AccAddressFromBech32(msg.Sender); err != nil",
     "msgServer.BurnToken: err := m.k.BurnToken(ctx, msg.Coin, owner); err != nil",
     "msgServer.TransferTokenOwner: srcOwner, err := sdk.AccAddressFromBech32(msg.SrcOwner); err != nil",
     "msgServer.TransferTokenOwner: dstOwner, err := sdk.AccAddressFromBech32(msg.DstOwner); err != nil",
     "msgServer.TransferTokenOwner: m.k.blockedAddrs[msg.DstOwner]",
     "msgServer.TransferTokenOwner: err := m.k.TransferTokenOwner(ctx, msg.Symbol, srcOwner, dstOwner); err != nil",
     "msgServer.SwapFeeToken: sender, err := sdk.AccAddressFromBech32(msg.Sender); err != nil",
     "msgServer.SwapFeeToken: recipient, err = sdk.AccAddressFromBech32(msg.Receiver); err != nil",
     "msgServer.SwapFeeToken: m.k.blockedAddrs[msg.Receiver]",
     "msgServer.SwapFeeToken: feePaid, feeGot, err := m.k.SwapFeeToken(ctx, msg.FeePaid, sender, recipient); err != nil"] := rfl

/-- every statement of these functions executed for its effect — a call whose result is dropped (store and bank
writes, queue moves, hooks) or a write to a record field — with its nesting depth, in source order: a write that is
dropped, duplicated, reordered or moved into or out of a branch breaks this -/
theorem tokenfee_effects_pinned : Irismod.Gen.PureTokenFee.effects =
    ["EditToken: d1 token.MaxSupply = maxSupply",
     "EditToken: d1 token.Name = name",
     "EditToken: d2 metadata.Description = name",
     "EditToken: d2 k.bankKeeper.SetDenomMetaData(ctx, metadata)",
     "EditToken: d1 token.Mintable = mintable.ToBool()",
     "EditToken: d0 k.setToken(ctx, token)",
     "Keeper.BurnToken: d0 k.AddBurnCoin(ctx, coinBurnt)"] := rfl

/-- token: the community tax of a fee (`feeHandler`) is the model's `taxOf`, as a coin of the fee's denomination -/
theorem token_taxOf_eq_translation (d : String) (fee : Nat) (rate : Dec) :
    Irismod.Gen.PureTokenFee.feeHandler_communityTaxCoin_1 ⟨d, fee⟩ rate =
      (Irismod.Token.taxOf rate fee >>= fun t => NewCoin d t) := by
  unfold Irismod.Gen.PureTokenFee.feeHandler_communityTaxCoin_1 Irismod.Token.taxOf Dec_Mul Dec_TruncateInt LegacyNewDecFromInt
  cases (Dec.ofInt (fee : Int)).mul rate with
  | none => simp only [obind_none, Option.bind_none]
  | some x =>
    simp only [obind_some, Option.bind_some]
    cases x.truncateInt with
    | none => simp only [obind_none]
    | some t => simp only [obind_some]; cases NewCoin d t <;> simp only [obind_some, obind_none]

/-- token: the mint fee before conversion to min units (`GetTokenMintFee`) and the issue-fee quotient
(`calcFeeByBase`) are the steps of the model's `mintFee` / `calcIssueFee` -/
theorem token_mint_and_issue_fee_steps (d : String) (fee base : Int) (ratio f : Dec) :
    Irismod.Gen.PureTokenFee.GetTokenMintFee_mintFee_1 ⟨d, fee⟩ ratio = ((Dec.ofInt fee).mul ratio).bind Dec.truncateInt ∧
    Irismod.Gen.PureTokenFee.calcFeeByBase_actualFee_1 base f = (Dec.ofInt base).quo f := by
  unfold Irismod.Gen.PureTokenFee.GetTokenMintFee_mintFee_1 Irismod.Gen.PureTokenFee.calcFeeByBase_actualFee_1
    Dec_Mul Dec_TruncateInt Dec_Quo LegacyNewDecFromInt
  constructor
  · cases (Dec.ofInt fee).mul ratio with
    | none => simp only [obind_none, Option.bind_none]
    | some x => simp only [obind_some, Option.bind_some]; cases x.truncateInt <;> simp only [obind_some, obind_none]
  · cases (Dec.ofInt base).quo f <;> simp only [obind_some, obind_none]

/-- `MintToken`: the mintable room `maxSupply · 10^scale − supply` and the rejection `amount > room` are the model's
cap check `maxSupply · 10^scale < supply + amount` (C09 `CapAlways`), for every token whose cap is inside the
`sdkmath.Int` range (max ≤ 2^64−1 and scale ≤ 18 always are) -/
theorem MintToken_cap_eq_model (maxSupply scale supply amount : Nat) (d : String)
    (hcap : maxSupply * Irismod.Token.pow10 scale < pow2_256) (hs : supply ≤ maxSupply * Irismod.Token.pow10 scale) :
    (Irismod.Gen.PureTokenFee.MintToken_precision_1 scale >>= fun p =>
      Irismod.Gen.PureTokenFee.MintToken_mintableAmt_1 maxSupply p supply >>= fun room =>
      Irismod.Gen.PureTokenFee.MintToken_guard_3 ⟨d, amount⟩ room) =
      (if Irismod.Token.pow10 scale < pow2_256 then
        some (decide (maxSupply * Irismod.Token.pow10 scale < supply + amount)) else none) := by
  unfold Irismod.Gen.PureTokenFee.MintToken_precision_1 Irismod.Gen.PureTokenFee.MintToken_mintableAmt_1
    Irismod.Gen.PureTokenFee.MintToken_guard_3 NewIntWithDecimal NewIntFromUint64
  have e : (1 : Int) * (((10 ^ ((scale : Int)).toNat : Nat)) : Int) = ((Irismod.Token.pow10 scale : Nat) : Int) := by
    simp [Irismod.Token.pow10]
  rw [e, chkInt_natCast]
  by_cases hp : Irismod.Token.pow10 scale < pow2_256
  · have hroom : maxSupply * Irismod.Token.pow10 scale - supply < pow2_256 := by omega
    simp only [hp, if_true, obind_some, Int_Mul_nat, hcap, Int_Sub_nat _ _ hs, hroom, Int_GT, Int.ofNat_lt]
    congr 1
    have : (maxSupply * Irismod.Token.pow10 scale - supply < amount) ↔ (maxSupply * Irismod.Token.pow10 scale < supply + amount) := by omega
    simp only [this]
  · simp only [hp, if_false, obind_none]

/-- `EditToken`: a new maximum (only when `maxSupply > 0`) is refused exactly when `maxSupply · 10^scale` is below the
circulating amount in min units — the comparison of the model's edit handler (C09 `MaxNeverBelowCirculating`, after fix
9de2d2d) — whatever the mintable flag is -/
theorem EditToken_cap_eq_model (maxSupply scale supply : Nat)
    (hcap : maxSupply * Irismod.Token.pow10 scale < pow2_256) (hp : Irismod.Token.pow10 scale < pow2_256) :
    (Irismod.Gen.PureTokenFee.EditToken_precision_1 scale >>= fun p =>
      Irismod.Gen.PureTokenFee.EditToken_guard_3 maxSupply p supply) =
      some (decide (maxSupply * Irismod.Token.pow10 scale < supply)) ∧
    Irismod.Gen.PureTokenFee.EditToken_cond_2 maxSupply = some (decide (0 < maxSupply)) ∧
    Irismod.Gen.PureTokenFee.EditToken_token_MaxSupply_1 maxSupply = some maxSupply := by
  refine ⟨?_, rfl, rfl⟩
  unfold Irismod.Gen.PureTokenFee.EditToken_precision_1 Irismod.Gen.PureTokenFee.EditToken_guard_3
    NewIntWithDecimal NewIntFromUint64
  have e : (1 : Int) * (((10 ^ ((scale : Int)).toNat : Nat)) : Int) = ((Irismod.Token.pow10 scale : Nat) : Int) := by
    simp [Irismod.Token.pow10]
  rw [e, chkInt_natCast]
  simp only [hp, if_true, obind_some, Int_Mul_nat, hcap, Int_LT, Int.ofNat_lt]

end Irismod.Props.Tie
