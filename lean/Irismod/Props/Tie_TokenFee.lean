/-
Tie between the fee arithmetic of the token model and /repo's source, over the REGENERATED translation
`Gen/PureTokenFee.lean` (`extract/x_pure`, every run): the mint-fee ratio step, the community tax of a fee and the
issue-fee quotient are the expressions of `Token.mintFee`, `Token.taxOf` and `Token.calcIssueFee`.
-/
import Irismod.Gen.PureTokenFee
import Irismod.Model.Token
import Irismod.Proofs.GoSemLemmas
namespace Irismod.Props.Tie
open Irismod.Sdk Irismod.GoSem

theorem tokenfee_all_translated : Irismod.Gen.PureTokenFee.untranslated = [] := rfl
theorem tokenfee_translated_pinned : Irismod.Gen.PureTokenFee.translated =
    ["GetTokenMintFee_mintFee_1", "feeHandler_communityTaxCoin_1", "calcFeeByBase_actualFee_1"] := rfl

/-- token: the community tax of a fee (`feeHandler`) is the model's `taxOf`, as a coin of the fee's denomination -/
theorem token_taxOf_eq_translation (d : String) (fee : Nat) (rate : Dec) :
    Irismod.Gen.PureTokenFee.feeHandler_communityTaxCoin_1 ⟨d, fee⟩ rate =
      (Irismod.Token.taxOf rate fee >>= fun t => NewCoin d t) := by
  unfold Irismod.Gen.PureTokenFee.feeHandler_communityTaxCoin_1 Irismod.Token.taxOf Dec_Mul Dec_TruncateInt LegacyNewDecFromInt
  cases (Dec.ofInt (fee : Int)).mul rate with
  | none => simp only [obind_none, Option.bind_none]
  | some x =>
    simp only [obind_some, Option.bind_some]
    cases x.truncateInt with
    | none => simp only [obind_none]
    | some t => simp only [obind_some]; cases NewCoin d t <;> simp only [obind_some, obind_none]

/-- token: the mint fee before conversion to min units (`GetTokenMintFee`) and the issue-fee quotient
(`calcFeeByBase`) are the steps of the model's `mintFee` / `calcIssueFee` -/
theorem token_mint_and_issue_fee_steps (d : String) (fee base : Int) (ratio f : Dec) :
    Irismod.Gen.PureTokenFee.GetTokenMintFee_mintFee_1 ⟨d, fee⟩ ratio = ((Dec.ofInt fee).mul ratio).bind Dec.truncateInt ∧
    Irismod.Gen.PureTokenFee.calcFeeByBase_actualFee_1 base f = (Dec.ofInt base).quo f := by
  unfold Irismod.Gen.PureTokenFee.GetTokenMintFee_mintFee_1 Irismod.Gen.PureTokenFee.calcFeeByBase_actualFee_1
    Dec_Mul Dec_TruncateInt Dec_Quo LegacyNewDecFromInt
  constructor
  · cases (Dec.ofInt fee).mul ratio with
    | none => simp only [obind_none, Option.bind_none]
    | some x => simp only [obind_some, Option.bind_some]; cases x.truncateInt <;> simp only [obind_some, obind_none]
  · cases (Dec.ofInt base).quo f <;> simp only [obind_some, obind_none]

end Irismod.Props.Tie
