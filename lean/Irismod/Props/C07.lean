/-
C07 — Service: deposits and fees are conserved across escrow, providers and consumers.
Headline theorems about the model `Irismod.Service` (every state, every operation, every history).
-/
import Irismod.Proofs.ServiceDeposit

namespace Irismod.Props.C07
open Irismod Irismod.Sdk Irismod.Service Irismod.Spec.C07 Irismod.Proofs.Service

/-- a chain on which the service module has not been used yet: no bindings, no contexts, no
withdraw addresses, empty escrow accounts (user balances, params, rates are arbitrary) -/
structure Genesis (s : State) : Prop where
  binds : s.binds = []
  ctxs : s.ctxs = []
  wd : s.wd = []
  reqs : s.reqs = []
  active : s.active = []
  earned : s.earned = []
  oearned : s.oearned = []
  dep : ∀ d, Bank.balOf s.bank depAcc d = 0
  req : ∀ d, Bank.balOf s.bank reqAcc d = 0

/-- all the accounts a history's messages pay or debit are user accounts -/
def UserHistory (ops : List Op) : Prop := ∀ op ∈ ops, opUsers op

/-! ### deposit escrow = Σ deposits -/

theorem di_genesis {s : State} (g : Genesis s) : DI s := by
  refine ⟨⟨?_, ?_, ?_⟩, ?_⟩
  · intro k b h; rw [g.binds] at h; simp [AMap.get?] at h
  · intro k b h; rw [g.ctxs] at h; simp [AMap.get?] at h
  · intro k b h; rw [g.wd] at h; simp [AMap.get?] at h
  · intro d
    rw [g.dep d]
    unfold depositSum
    rw [g.binds]
    simp [AMap.sumBy, AMap.sumIf]

theorem di_apply {s : State} {op : Op} (hs : DI s) (hu : opUsers op) : DI (apply s op) := by
  unfold apply step
  have h0 : DI { s with cb := [] } := DI.of_core (s' := { s with cb := [] }) hs ⟨rfl, rfl, rfl, rfl⟩ rfl
  cases h : stepCore { s with cb := [] } op with
  | ok s' => exact DI_stepCore h0 hu h
  | error e => exact h0

theorem di_run : ∀ (ops : List Op) (s : State), DI s → UserHistory ops → DI (run s ops)
  | [], _, hs, _ => hs
  | op :: rest, s, hs, hu =>
    di_run rest (apply s op) (di_apply hs (hu op (List.mem_cons_self ..)))
      (fun o ho => hu o (List.mem_cons_of_mem _ ho))

/-- **C07(a)**: one accepted operation keeps `deposit escrow = Σ bindings' deposits` (in the base
denom; nothing else ever sits in the deposit escrow) -/
theorem deposit_escrow_step (s s' : State) (op : Op) (hs : DI s) (hu : opUsers op)
    (h : step s op = .ok s') : DepositInv s' := by
  unfold step at h
  exact (DI_stepCore (DI.of_core (s' := { s with cb := [] }) hs ⟨rfl, rfl, rfl, rfl⟩ rfl) hu h).2

/-- **C07(a)** over all histories: define / bind / update / enable / disable / refund-deposit /
call / respond / withdraw / pause / start / kill / update / any number of blocks with expiry and
slashing, from any chain on which the module is unused -/
theorem deposit_escrow_reachable (s : State) (g : Genesis s) (ops : List Op) (hu : UserHistory ops) :
    DepositInv (run s ops) :=
  (di_run ops s (di_genesis g) hu).2

end Irismod.Props.C07
