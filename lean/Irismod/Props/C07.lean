/-
C07 — Service: deposits and fees are conserved across escrow, providers and consumers.
Headline theorems about the model `Irismod.Service` (every state, every operation, every history).

Hypotheses that appear below, all explicit:
  `UserHistory` — the account arguments the ledger pays or debits are not the module's own escrow
                  accounts (module accounts hold no keys);
  `CleanRun`    — additionally: no pricing document carries a promotion (F-svc-1 otherwise), context ids
                  are fresh (`tmhash(tx) ‖ index`, modulo collisions), and the keeper-only entry point
                  `WithdrawEarnedFees(owner, nil)` is not used (no message reaches it).
The one full statement that the code does *not* satisfy (F-svc-1, pinned by the repository's own tests) is
kept as a `def` with its negation proved from a witness (`escrow_kept_by_new_batch_fails`); the statements
that F-svc-2 and F-svc-4 used to exclude are proved in full since /repo 5529ca8 and 3670fd1
(`tally_reachable`: the tallies agree after every history; `charge_eq_fees_partial`, now without a payment
hypothesis).
-/
import Irismod.Proofs.ServiceTallyInv

namespace Irismod.Props.C07
open Irismod Irismod.Sdk Irismod.Service Irismod.Spec.C07 Irismod.Proofs.Service

/-- a chain on which the service module has not been used yet: no bindings, contexts, requests,
queue entries, earned fees; empty escrow accounts (user balances, params, rates are arbitrary) -/
structure Genesis (s : State) : Prop where
  binds : s.binds = []
  ctxs : s.ctxs = []
  wd : s.wd = []
  reqs : s.reqs = []
  active : s.active = []
  earned : s.earned = []
  oearned : s.oearned = []
  newQ : s.newQ = []
  newH : s.newH = []
  expQ : s.expQ = []
  expH : s.expH = []
  dep : ∀ d, Bank.balOf s.bank depAcc d = 0
  req : ∀ d, Bank.balOf s.bank reqAcc d = 0

/-- all the accounts a history's messages pay or debit are user accounts -/
def UserHistory (ops : List Op) : Prop := ∀ op ∈ ops, opUsers op

/-! ### (a) deposit escrow = Σ deposits -/

theorem di_genesis {s : State} (g : Genesis s) : DI s := by
  refine ⟨⟨?_, ?_, ?_⟩, ?_⟩
  · intro k b h; rw [g.binds] at h; simp [AMap.get?] at h
  · intro k b h; rw [g.ctxs] at h; simp [AMap.get?] at h
  · intro k b h; rw [g.wd] at h; simp [AMap.get?] at h
  · intro d
    rw [g.dep d]
    unfold depositSum
    rw [g.binds]
    simp [AMap.sumBy, AMap.sumIf]

theorem di_apply {s : State} {op : Op} (hs : DI s) (hu : opUsers op) : DI (apply s op) := by
  unfold apply step
  have h0 : DI { s with cb := [] } := DI.of_core (s' := { s with cb := [] }) hs ⟨rfl, rfl, rfl, rfl⟩ rfl
  cases h : stepCore { s with cb := [] } op with
  | ok s' => exact DI_stepCore h0 hu h
  | error e => exact h0

theorem di_run : ∀ (ops : List Op) (s : State), DI s → UserHistory ops → DI (run s ops)
  | [], _, hs, _ => hs
  | op :: rest, s, hs, hu =>
    di_run rest (apply s op) (di_apply hs (hu op (List.mem_cons_self ..)))
      (fun o ho => hu o (List.mem_cons_of_mem _ ho))

/-- one accepted operation keeps `deposit escrow = Σ bindings' deposits` (in the base denom; nothing
else ever sits in the deposit escrow) -/
theorem deposit_escrow_step (s s' : State) (op : Op) (hs : DI s) (hu : opUsers op)
    (h : step s op = .ok s') : DepositInv s' := by
  unfold step at h
  exact (DI_stepCore (DI.of_core (s' := { s with cb := [] }) hs ⟨rfl, rfl, rfl, rfl⟩ rfl) hu h).2

/-- … over all histories: define / bind / update / enable / disable / refund-deposit / call / respond /
withdraw / pause / start / kill / update / any number of blocks with expiry and slashing -/
theorem deposit_escrow_reachable (s : State) (g : Genesis s) (ops : List Op) (hu : UserHistory ops) :
    DepositInv (run s ops) :=
  (di_run ops s (di_genesis g) hu).2

/-! ### (b) request escrow = Σ fees of active requests + Σ earned fees -/

/-- the side conditions of one operation in state `s` -/
def CleanOp (s : State) (op : Op) : Prop := opUsers op ∧ opNoPromo op ∧ FreshOp s op ∧ opReachable op

def CleanRun : State → List Op → Prop
  | _, [] => True
  | s, op :: rest => CleanOp { s with cb := [] } op ∧ CleanRun (apply s op) rest

theorem full_genesis {s : State} (g : Genesis s) : Full s := by
  refine ⟨?_, di_genesis g, ?_, ?_⟩
  · refine ⟨?_, ?_, ?_, ?_, ?_, ?_, ?_, ?_, ?_⟩
    · rw [g.newQ, g.newH]
      constructor
      · intro _ _ h; cases h
      · intro _ _ h; simp [AMap.get?] at h
    · rw [g.expQ, g.expH]
      constructor
      · intro _ _ h; cases h
      · intro _ _ h; simp [AMap.get?] at h
    · intro id h; rw [g.newH] at h; simp [AMap.contains, AMap.get?] at h
    · intro id h
      rw [g.newH, g.expH] at h
      simp [AMap.contains, AMap.get?] at h
    · intro r h; rw [g.active] at h; cases h
    · rw [g.active]; simp
    · rw [g.newQ]; simp
    · rw [g.expQ]; simp
    · intro id c h; rw [g.ctxs] at h; simp [AMap.get?] at h
  · intro k b h; rw [g.binds] at h; simp [AMap.get?] at h
  · intro d
    rw [g.req d]
    unfold activeFee earnedSum
    rw [g.active, g.earned]
    simp [sumList, AMap.sumIf]

theorem full_apply {s : State} {op : Op} (hs : Full s) (hc : CleanOp { s with cb := [] } op) : Full (apply s op) := by
  unfold apply step
  have h0 : Full { s with cb := [] } :=
    ⟨hs.1.of_same ⟨rfl, rfl, rfl, rfl, rfl, rfl, rfl⟩, DI.of_core (s' := { s with cb := [] }) hs.2.1 ⟨rfl, rfl, rfl, rfl⟩ rfl,
     hs.2.2.1.of_binds rfl, EscrowInv.of_frame ⟨fun _ => rfl, rfl, fun _ _ => rfl, rfl⟩ hs.2.2.2⟩
  cases h : stepCore { s with cb := [] } op with
  | ok s' => exact Full_stepCore h0 hc.1 hc.2.1 hc.2.2.1 hc.2.2.2 h
  | error e => exact h0

theorem full_run : ∀ (ops : List Op) (s : State), Full s → CleanRun s ops → Full (run s ops)
  | [], _, hs, _ => hs
  | op :: rest, s, hs, hc => full_run rest (apply s op) (full_apply hs hc.1) hc.2

/-- one accepted operation keeps `request escrow = Σ fees of the active requests + Σ earned fees`, per denom -/
theorem request_escrow_step (s s' : State) (op : Op) (hs : Full s) (hc : CleanOp { s with cb := [] } op)
    (h : step s op = .ok s') : EscrowInv s' := by
  have := full_apply hs hc
  unfold apply at this
  rw [h] at this
  exact this.2.2.2

/-- … over all clean histories -/
theorem request_escrow_reachable (s : State) (g : Genesis s) (ops : List Op) (hc : CleanRun s ops) :
    EscrowInv (run s ops) :=
  (full_run ops s (full_genesis g) hc).2.2.2

/-- the full statement, without the "no promotion" side condition: the new-batch handler keeps the identity -/
def EscrowKeptByNewBatch : Prop :=
  ∀ (s : State) (id : CtxId), WF s → DI s → EscrowInv s → AMap.get? s.newH id = some s.height → EscrowInv (newBatch s id)

def w1bind : Binding :=
  { owner := "A3", deposit := 100, pricing := { denom := "stake", amount := 10, ptime := [(0, 100, ⟨500000000000000000⟩)] },
    qos := 2, available := true, disabledTime := 0 }
def w1ctx : Ctx :=
  { svc := "s1", providers := ["A0"], consumer := "A5", cap := 100, timeout := 2, repeated := false,
    batchState := .completed, state := .running }
/-- price 10 with a 0.5 time promotion active; the consumer's context is due -/
def w1 : State :=
  { height := 20, time := 50, ctxs := [("c", w1ctx)], binds := [(("s1", "A0"), w1bind)],
    bank := { bal := [(("A5", "stake"), 1000), (("Mdep", "stake"), 100)] }, newQ := [(20, "c")], newH := [("c", 20)] }

theorem w1_wf : WF w1 := by
  refine ⟨?_, ?_, ?_, ?_, ?_, ?_, ?_, ?_, ?_⟩
  · constructor
    · intro h id hm
      simp only [w1, List.mem_singleton] at hm
      cases hm; decide
    · intro id h hg
      simp only [w1, AMap.get?] at hg
      split at hg
      · rename_i e; cases hg; subst e; simp [w1]
      · cases hg
  · constructor
    · intro h id hm; simp [w1] at hm
    · intro id h hg; simp [w1, AMap.get?] at hg
  · intro id _; simp [w1, AMap.contains, AMap.get?]
  · intro id h
    simp only [w1, AMap.contains, AMap.get?] at h ⊢
    rcases h with h | h
    · split at h
      · rename_i e; subst e; simp
      · simp at h
    · simp at h
  · intro r h; simp [w1] at h
  · simp [w1]
  · simp [w1]
  · simp [w1]
  · intro id c hg hrun
    simp only [w1, AMap.get?] at hg
    split at hg
    · cases hg; simp [w1ctx] at hrun
    · cases hg

theorem w1_di : DI w1 := by
  refine ⟨⟨?_, ?_, ?_⟩, ?_⟩
  · intro k b hg
    simp only [w1, AMap.get?] at hg
    split at hg
    · cases hg; decide
    · cases hg
  · intro k c hg
    simp only [w1, AMap.get?] at hg
    split at hg
    · cases hg; decide
    · cases hg
  · intro k a hg; simp [w1, AMap.get?] at hg
  · intro d
    by_cases hd : d = "stake"
    · subst hd; decide
    · have h1 : Bank.balOf w1.bank depAcc d = 0 := by
        simp only [Bank.balOf, AMap.getD, w1, AMap.get?, depAcc]
        have e2 : ¬ (("Mdep", "stake") : Addr × Denom) = ("Mdep", d) := by
          intro e; exact hd (Prod.mk.inj e).2.symm
        simp [e2]
      rw [h1]
      have : w1.params.base = "stake" := rfl
      rw [this, if_neg hd]

theorem w1_escrow : EscrowInv w1 := by
  intro d
  have h1 : Bank.balOf w1.bank reqAcc d = 0 := by
    simp [Bank.balOf, AMap.getD, w1, AMap.get?, reqAcc]
  rw [h1]
  simp [activeFee, earnedSum, w1, sumList, AMap.sumIf]

/-- F-svc-1: it fails — the consumer is charged the undiscounted 10, the request records the discounted 5,
and 5 stay in the escrow without liability -/
theorem escrow_kept_by_new_batch_fails : ¬ EscrowKeptByNewBatch := by
  intro h
  have := h w1 "c" w1_wf w1_di w1_escrow (by decide) "stake"
  revert this
  decide

/-! ### (c) the consumer is charged exactly the fees of the requests issued for them -/

/-- without promotions the end block debits the consumer by exactly the fees recorded on the requests it
creates for them — also when the consumer cannot pay the whole batch: the deduction is atomic, nothing is
debited and nothing is created (the promotion side condition is F-svc-1) -/
theorem charge_eq_fees_partial (s : State) (hs : Full s) (id : CtxId) (hm : AMap.get? s.newH id = some s.height)
    (c : Ctx) (hg : AMap.get? s.ctxs id = some c) (d : Denom) :
    Bank.balOf (newBatch s id).bank c.consumer d + activeFee (newBatch s id) d =
      Bank.balOf s.bank c.consumer d + activeFee s d :=
  charge_eq_fees hs.1 hs.2.1 hs.2.2.1 id hm hg d

def w4bindA : Binding :=
  { owner := "A3", deposit := 100, pricing := { denom := "stake", amount := 10 }, qos := 2, available := true, disabledTime := 0 }
def w4bindB : Binding :=
  { owner := "A3", deposit := 100, pricing := { denom := "dbb", amount := 20 }, qos := 2, available := true, disabledTime := 0 }
def w4ctx : Ctx :=
  { svc := "s1", providers := ["A0", "A1"], consumer := "A5", cap := 100, timeout := 2, repeated := false,
    batchState := .completed, state := .running }
/-- providers priced 10stake and 20dbb, the consumer holds 1000dbb but only 5stake (the former F-svc-4 witness) -/
def w4 : State :=
  { height := 20, time := 50, ctxs := [("c", w4ctx)], binds := [(("s1", "A0"), w4bindA), (("s1", "A1"), w4bindB)],
    rates := [("dbb", ("2.0", ⟨2000000000000000000⟩))],
    bank := { bal := [(("A5", "stake"), 5), (("A5", "dbb"), 1000), (("Mdep", "stake"), 200)] },
    newQ := [(20, "c")], newH := [("c", 20)] }

/-- the failed deduction is atomic: the consumer keeps the 1000dbb, no request is created, the context is paused -/
theorem w4_atomic_deduction :
    Bank.balOf (newBatch w4 "c").bank "A5" "dbb" = 1000 ∧ (newBatch w4 "c").active = [] ∧
    (getCtx (newBatch w4 "c") "c").state = .paused := by decide

/-! ### (d) exact movements -/

/-- the fee of an answered request: `⌊fee·tax⌋` to the fee collector, the rest to the provider's and the
owner's earned-fee tallies -/
theorem respond_fee_split (s s' : State) (provider : Addr) (rid : ReqId) (hasOut : Bool)
    (h : keeperRespond s provider rid hasOut = .ok s') :
    ∃ rq, AMap.get? s.reqs rid = some rq ∧ taxOf s rq.feeAmt ≤ rq.feeAmt ∧
      Bank.balOf s'.bank fcAcc rq.feeDenom = Bank.balOf s.bank fcAcc rq.feeDenom + taxOf s rq.feeAmt ∧
      Bank.balOf s'.bank reqAcc rq.feeDenom + taxOf s rq.feeAmt = Bank.balOf s.bank reqAcc rq.feeDenom ∧
      AMap.getD s'.earned (provider, rq.feeDenom) 0 = AMap.getD s.earned (provider, rq.feeDenom) 0 + (rq.feeAmt - taxOf s rq.feeAmt) ∧
      AMap.getD s'.oearned (AMap.getD s.owners provider "", rq.feeDenom) 0 =
        AMap.getD s.oearned (AMap.getD s.owners provider "", rq.feeDenom) 0 + (rq.feeAmt - taxOf s rq.feeAmt) ∧
      (∀ k, k ≠ (provider, rq.feeDenom) → AMap.getD s'.earned k 0 = AMap.getD s.earned k 0) ∧
      (∀ a d, (a, d) ≠ (reqAcc, rq.feeDenom) → (a, d) ≠ (fcAcc, rq.feeDenom) → Bank.balOf s'.bank a d = Bank.balOf s.bank a d) :=
  Irismod.Proofs.Service.respond_fee_split h

/-- the fee of an expired request goes back to the consumer in full -/
theorem expiry_refund (s : State) (hs : Full s) (rid : ReqId) (hr : rid ∈ s.active) :
    ∃ rq c, AMap.get? s.reqs rid = some rq ∧ AMap.get? s.ctxs rid.ctx = some c ∧
      Bank.balOf (expireReq s rid).bank c.consumer rq.feeDenom =
        Bank.balOf (slash s c.svc rq.provider).bank c.consumer rq.feeDenom + rq.feeAmt ∧
      Bank.balOf (expireReq s rid).bank reqAcc rq.feeDenom + rq.feeAmt = Bank.balOf s.bank reqAcc rq.feeDenom ∧
      rid ∉ (expireReq s rid).active :=
  expiry_refund_exact hs.1.actOK hs.2.1.1 hs.2.2.2 hr

/-- slashing moves exactly `⌊deposit · slashFraction⌋` (rounded down) from the deposit escrow to the fee
collector and lowers the binding's deposit by the same amount; on invariant states the escrow can always pay -/
theorem slash_moves_exact_fraction (s : State) (hd : DepositInv s) (svc : String) (p : Addr) (b : Binding)
    (hb : AMap.get? s.binds (svc, p) = some b) (hle : slashAmount s b ≤ b.deposit) :
    ((AMap.get? (slash s svc p).binds (svc, p)).map (·.deposit)) = some (b.deposit - slashAmount s b) ∧
    Bank.balOf (slash s svc p).bank depAcc s.params.base + slashAmount s b = Bank.balOf s.bank depAcc s.params.base ∧
    Bank.balOf (slash s svc p).bank fcAcc s.params.base = Bank.balOf s.bank fcAcc s.params.base + slashAmount s b ∧
    slashAmount s b = mulTrunc b.deposit s.params.slash :=
  slash_exact s svc p b hb hle (slash_funded hd svc p b hb hle)

/-! ### (e) owner-side and provider-side tallies -/

/-- a per-provider withdrawal keeps provider-side and owner-side tallies in agreement, with any number of fee
denoms (the stored tables have unique keys, which every operation maintains: they are only written through
`set` / filtered) -/
theorem tally_kept_by_withdrawal (s s' : State) (owner p : Addr) (ht : TallyInv s) (hn1 : KeysNodup s.earned)
    (hn2 : KeysNodup s.oearned) (h : withdrawProvider s owner p = .ok s') :
    TallyInv s' ∧ KeysNodup s'.earned ∧ KeysNodup s'.oearned :=
  tally_withdrawProvider ht hn1 hn2 h

/-- an answer credits the provider's entry and its owner's entry with the same amount, so the tallies stay in
agreement -/
theorem tally_kept_by_answer (s : State) (ht : TallyInv s) (p o : Addr) (ho : AMap.get? s.owners p = some o) (d0 : Denom)
    (n : Nat) (s' : State) (e1 : s'.earned = bump s.earned p d0 n) (e2 : s'.oearned = bump s.oearned o d0 n)
    (e3 : s'.owners = s.owners) : TallyInv s' :=
  tally_bump ht ho d0 n s' e1 e2 e3

/-- no operation of the history is the keeper-only `WithdrawEarnedFees(owner, nil)` (the message server parses
the provider address, so no message reaches it) -/
def ReachableHistory (ops : List Op) : Prop := ∀ op ∈ ops, opReachable op

theorem tb_genesis {s : State} (g : Genesis s) : TB s := TB_empty s g.earned g.oearned g.reqs g.binds

theorem tb_apply {s : State} {op : Op} (hs : TB s) (hr : opReachable op) : TB (apply s op) := by
  unfold apply step
  have h0 : TB { s with cb := [] } := hs.of_frame (TBFrame.of_eq rfl rfl rfl rfl rfl)
  cases h : stepCore { s with cb := [] } op with
  | ok s' => exact TB_stepCore h0 hr h
  | error e => exact h0

theorem tb_run : ∀ (ops : List Op) (s : State), TB s → ReachableHistory ops → TB (run s ops)
  | [], _, hs, _ => hs
  | op :: rest, s, hs, hr =>
    tb_run rest (apply s op) (tb_apply hs (hr op (List.mem_cons_self ..))) (fun o ho => hr o (List.mem_cons_of_mem _ ho))

/-- one accepted operation — any message, any number of fee denoms, an end block with expiry and new batches —
keeps `Σ earned fees of the owner's providers = owner-side tally` for every owner and denom. `TB` is the
inductive bundle: the agreement itself, unique keys in both tables, and "every provider with earned fees, a
request or a binding has an owner" -/
theorem tally_step (s s' : State) (op : Op) (hs : TB s) (hr : opReachable op) (h : step s op = .ok s') :
    TallyInv s' ∧ TB s' := by
  have := tb_apply (s := s) hs hr
  unfold apply at this
  rw [h] at this
  exact ⟨this.tally, this⟩

/-- **the owner-side and provider-side tallies agree after every history** from a chain on which the module
has not been used (the statement F-svc-2 used to refute; holds since /repo 5529ca8) -/
theorem tally_reachable (s : State) (g : Genesis s) (ops : List Op) (hr : ReachableHistory ops) :
    TallyInv (run s ops) :=
  (tb_run ops s (tb_genesis g) hr).tally

/-- owner A3 with providers A0 (9stake earned) and A1 (18dbb earned): the former F-svc-2 witness -/
def w2 : State :=
  { owners := [("A0", "A3"), ("A1", "A3")], ownerProv := [("A3", "A0"), ("A3", "A1")],
    earned := [(("A0", "stake"), 9), (("A1", "dbb"), 18)], oearned := [(("A3", "stake"), 9), (("A3", "dbb"), 18)],
    bank := { bal := [(("Mreq", "stake"), 9), (("Mreq", "dbb"), 18)] } }

/-- after withdrawing for A0 the owner-side tally no longer mentions stake -/
theorem w2_withdrawal :
    ∃ s', withdrawProvider w2 "A3" "A0" = .ok s' ∧ ownerEarned s' "A3" "stake" = 0 ∧ providersEarned s' "A3" "stake" = 0 ∧
      ownerEarned s' "A3" "dbb" = 18 ∧ providersEarned s' "A3" "dbb" = 18 := by
  refine ⟨_, rfl, ?_, ?_, ?_, ?_⟩ <;> decide

end Irismod.Props.C07
