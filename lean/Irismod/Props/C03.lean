/-
C03 — HTLC: locked funds leave escrow exactly once — by secret, else refund at expiry.
Headline theorems about the model `Irismod.Htlc`, for every state satisfying the joint invariant
`Inv` (which holds in every reachable state), every operation and every history.

`Inv = WF ∧ QueueInv ∧ EscrowGe ∧ CounterInv` (Proofs/HtlcInv.lean); `OpOk` only says that the htlc
module account never signs a `create`.
-/
import Irismod.Proofs.HtlcLedger

namespace Irismod.Props.C03
open Irismod Irismod.Sdk Irismod.Htlc Irismod.Spec.C03 Irismod.Spec.C04 Irismod.Proofs.Htlc

/-! ### reachable states satisfy the invariant; `QueueInv` (v) -/

/-- the initial state of a history (any balances, any params, no contracts) satisfies `Inv` -/
theorem inv_init (b : Bank) (ps : List Asset) (prev : Option Nat) (h t : Nat) :
    Inv { bank := b, params := ps, prevTime := prev, height := h, time := t } :=
  inv_fresh rfl rfl rfl

/-- every state reachable from an initial state by any history (module account never a sender)
satisfies the joint invariant — the hypothesis `Inv s` of the theorems below is no restriction -/
theorem inv_reachable (b : Bank) (ps : List Asset) (prev : Option Nat) (h t : Nat) (ops : List Op)
    (hops : ∀ op ∈ ops, OpOk op) :
    Inv (run { bank := b, params := ps, prevTime := prev, height := h, time := t } ops) :=
  inv_run ops (inv_init b ps prev h t) hops

/-- one operation preserves the joint invariant -/
theorem inv_step_all (s : State) (op : Op) (hs : Inv s) (hop : OpOk op) : Inv (apply s op) :=
  inv_apply hs hop

/-- **(v)** in every state reachable by any history: every open contract has exactly one queue
entry, at its expiration height, and every queue entry refers to an open contract -/
theorem queueInv_reachable (s : State) (ops : List Op) (hs : Inv s) (hops : ∀ op ∈ ops, OpOk op) :
    QueueInv (run s ops) := (inv_run ops hs hops).2.1

/-- "exactly one": an open contract's id is queued at no other height -/
theorem queue_entry_unique {s : State} (hq : QueueInv s) {id : Id} {c : Contract} {h : Nat}
    (hg : AMap.get? s.htlcs id = some c) (hm : (h, id) ∈ s.queue) : h = c.expiration ∧ c.state = .open := by
  obtain ⟨c', hg', ho, he⟩ := hq.2.2 h id hm
  rw [hg] at hg'; cases hg'
  exact ⟨he.symm, ho⟩

/-! ### (i) the state automaton -/

/-- **(i)** one step: every contract persists; its record is unchanged, or it was open and this
very claim (with a secret hashing to its lock) completed it, or it was open and the block of its
expiration height refunded it -/
theorem automaton_step (s : State) (op : Op) (hs : Inv s) (id : Id) (c : Contract)
    (hg : AMap.get? s.htlcs id = some c) :
    ∃ c', AMap.get? (apply s op).htlcs id = some c' ∧ Trans s op id c c' :=
  apply_trans hs hg

/-- `completed` / `refunded` are absorbing and the closed record is frozen -/
theorem closed_absorbing_step (s : State) (op : Op) (hs : Inv s) (id : Id) (c : Contract)
    (hg : AMap.get? s.htlcs id = some c) (hc : c.state ≠ .open) :
    AMap.get? (apply s op).htlcs id = some c := by
  obtain ⟨c', hg', t⟩ := apply_trans (op := op) hs hg
  rw [t.closed_eq hc] at hg'; exact hg'

/-- … along every history -/
theorem closed_forever (s : State) (ops : List Op) (hs : Inv s) (hops : ∀ op ∈ ops, OpOk op)
    (id : Id) (c : Contract) (hg : AMap.get? s.htlcs id = some c) (hc : c.state ≠ .open) :
    AMap.get? (run s ops).htlcs id = some c := by
  induction ops generalizing s with
  | nil => exact hg
  | cons op r ih =>
    exact ih (apply s op) (inv_apply hs (hops op (by simp))) (fun o ho => hops o (by simp [ho]))
      (closed_absorbing_step s op hs id c hg hc)

/-- a contract never disappears -/
theorem exists_forever (s : State) (ops : List Op) (hs : Inv s) (hops : ∀ op ∈ ops, OpOk op)
    (id : Id) (c : Contract) (hg : AMap.get? s.htlcs id = some c) :
    ∃ c', AMap.get? (run s ops).htlcs id = some c' := by
  induction ops generalizing s c with
  | nil => exact ⟨c, hg⟩
  | cons op r ih =>
    obtain ⟨c1, hg1, _⟩ := apply_trans (op := op) hs hg
    exact ih (apply s op) (inv_apply hs (hops op (by simp))) (fun o ho => hops o (by simp [ho])) c1 hg1

/-- a contract comes into existence only by an accepted `create`, under the id
`sha256(hashLock ‖ sender ‖ to ‖ amount)`, in state open, expiring at `height + timeLock` -/
theorem born_open (s : State) (op : Op) (hs : Inv s) (id : Id) (hg : AMap.get? s.htlcs id = none) :
    AMap.get? (apply s op).htlcs id = none ∨
    ∃ sender to coins lock ts tl transfer dir,
      op = .create sender to coins lock ts tl transfer ∧ id = genId lock sender to coins ∧
      AMap.get? (apply s op).htlcs id = some (newContract s sender to coins lock ts tl transfer dir) := by
  unfold apply
  cases h : step s op with
  | ok s' => exact step_absent hs h hg
  | error e => exact Or.inl hg

/-! ### (iii) rejections move nothing -/

/-- a rejected (or panicking) message leaves the state unchanged -/
theorem rejected_unchanged (s : State) (op : Op) (e : Err) (h : step s op = .error e) : apply s op = s := by
  simp [apply, h]

/-- a claim with a secret that does not hash to the lock is rejected -/
theorem wrong_secret_rejected (s : State) (sender id secret : String) (c : Contract)
    (hg : AMap.get? s.htlcs id = some c) (hne : genLock secret c.timestamp ≠ c.hashLock) :
    ∃ why, step s (.claim sender id secret) = .error (.reject why) := by
  simp only [step, stepClaim, hg, Option.map_some, Option.getD_some]
  split
  · exact ⟨_, rfl⟩
  · split
    · exact ⟨_, rfl⟩
    · exact ⟨_, rfl⟩

/-- a claim of a contract that is not open (second claim, claim after refund) is rejected -/
theorem closed_claim_rejected (s : State) (sender id secret : String) (c : Contract)
    (hg : AMap.get? s.htlcs id = some c) (hc : c.state ≠ .open) :
    ∃ why, step s (.claim sender id secret) = .error (.reject why) := by
  simp only [step, stepClaim, hg, Option.map_some, Option.getD_some]
  split
  · exact ⟨_, rfl⟩
  · exact ⟨_, rfl⟩

/-- a claim of an unknown id is rejected -/
theorem unknown_claim_rejected (s : State) (sender id secret : String) (hg : AMap.get? s.htlcs id = none) :
    ∃ why, step s (.claim sender id secret) = .error (.reject why) := by
  simp only [step, stepClaim, hg]
  split <;> exact ⟨_, rfl⟩

/-- after an accepted claim every further claim of the same contract is rejected, whatever the secret -/
theorem second_claim_rejected (s s' : State) (sender id secret : String)
    (h : step s (.claim sender id secret) = .ok s') (sender2 secret2 : String) :
    ∃ why, step s' (.claim sender2 id secret2) = .error (.reject why) := by
  obtain ⟨c, hg, _, _, _, hh, _⟩ := stepClaim_bank h
  have hg' : AMap.get? s'.htlcs id = some (completed c secret s.height) := by rw [hh, get?_set]; simp
  exact closed_claim_rejected s' sender2 id secret2 _ hg' (by simp [completed])

/-- creating a contract whose id already exists (open or closed) is rejected -/
theorem duplicate_id_rejected (s : State) (sender to : Addr) (coins : Coins) (lock : String) (ts tl : Nat)
    (transfer : Bool) (c : Contract) (hg : AMap.get? s.htlcs (genId lock sender to coins) = some c) :
    ∃ why, step s (.create sender to coins lock ts tl transfer) = .error (.reject why) := by
  simp only [step, stepCreate]
  split
  · exact ⟨_, rfl⟩
  · split
    · exact ⟨_, rfl⟩
    · split
      · exact ⟨_, rfl⟩
      · simp [AMap.contains, hg]

/-! ### a claim with the right secret of an open contract is accepted -/

/-- plain contract: a well-formed claim presenting a secret that hashes (with the contract's
timestamp) to the lock is accepted in every state satisfying the invariant — the escrow covers it -/
theorem right_secret_accepted_plain (s : State) (sender id secret : String) (c : Contract) (hs : Inv s)
    (hg : AMap.get? s.htlcs id = some c) (ho : c.state = .open) (ht : c.transfer = false)
    (hid : hexOk64 id = true) (hsec : hexOk64 secret = true) (hlk : genLock secret c.timestamp = c.hashLock) :
    ∃ s', step s (.claim sender id secret) = .ok s' := by
  obtain ⟨s', h⟩ := claimPlain_succeeds (secret := secret) hs hg ho ht hid hsec
  exact ⟨s', by simp only [step, hg, Option.map_some, Option.getD_some, hlk]; exact h⟩

/-- outgoing cross-chain transfer: likewise (the counters and the escrow cover the burn); for
incoming transfers see `Props.C04.claim_incoming_never_fails` -/
theorem right_secret_accepted_outgoing (s : State) (sender id secret : String) (c : Contract) (hs : Inv s)
    (hg : AMap.get? s.htlcs id = some c) (ho : c.state = .open) (ht : c.transfer = true)
    (hdir : c.direction = .outgoing) (hid : hexOk64 id = true) (hsec : hexOk64 secret = true)
    (hlk : genLock secret c.timestamp = c.hashLock) :
    ∃ s', step s (.claim sender id secret) = .ok s' := by
  obtain ⟨s', h⟩ := claimOutgoing_succeeds (secret := secret) hs hg ho ht hdir hid hsec
  exact ⟨s', by simp only [step, hg, Option.map_some, Option.getD_some, hlk]; exact h⟩

/-- the monitor clause `claimLiveOk` (a well-formed claim with the bound preimage on an open,
fundable contract is accepted) holds on every model step: the handler has no other way to reject -/
theorem claimLive_sound (s : State) (op : Op) :
    claimLiveOk s op (match step s op with | .ok _ => true | .error _ => false) = true := by
  cases op with
  | claim sender id secret =>
    simp only [claimLiveOk, step]
    cases hg : AMap.get? s.htlcs id with
    | none => simp
    | some c =>
      simp only [Option.map_some, Option.getD_some]
      cases hcf : claimFunds s c with
      | error e => simp
      | ok s1 =>
        by_cases h1 : (c.state == .open && hexOk64 id && hexOk64 secret &&
            genLock secret c.timestamp == c.hashLock) = true
        · simp only [Bool.and_eq_true, beq_iff_eq] at h1
          obtain ⟨⟨⟨ho, hid⟩, hsec⟩, hlk⟩ := h1
          simp [stepClaim, hid, hsec, hg, ho, hlk, hcf]
        · simp only [Bool.not_eq_true] at h1
          simp only [h1, Bool.false_and, Bool.not_false, Bool.or_true]
  | _ => simp [claimLiveOk]

/-! ### (ii) what moves, and only then: exact bank deltas -/

/-- an accepted claim: the contract was open, the secret hashes (with the contract's timestamp)
to its lock, the record becomes `completed`, its queue entry goes, and the bank changes by
exactly the claim payout (`payClaim`: plain — escrow → `to`; incoming — minted to `to`;
outgoing — burnt from escrow) -/
theorem claim_exact (s s' : State) (sender id secret : String) (h : step s (.claim sender id secret) = .ok s') :
    ∃ c, AMap.get? s.htlcs id = some c ∧ c.state = .open ∧ genLock secret c.timestamp = c.hashLock ∧
      s'.bank = payClaim s.bank c ∧ s'.htlcs = AMap.set s.htlcs id (completed c secret s.height) ∧
      s'.queue = dequeue s.queue (c.expiration, id) := by
  obtain ⟨c, hg, ho, hlk, hb, hh, hq⟩ := stepClaim_bank h
  exact ⟨c, hg, ho, by simpa [hg] using hlk, hb, hh, hq⟩

/-- an accepted create: the bank changes by exactly the escrow-in of the new contract (plain /
outgoing: sender → escrow; incoming: nothing) -/
theorem create_exact (s s' : State) (sender to : Addr) (coins : Coins) (lock : String) (ts tl : Nat)
    (transfer : Bool) (h : step s (.create sender to coins lock ts tl transfer) = .ok s') :
    ∃ dir, AMap.get? s'.htlcs (genId lock sender to coins)
        = some (newContract s sender to coins lock ts tl transfer dir) ∧
      s'.bank = payCreate s.bank (newContract s sender to coins lock ts tl transfer dir) :=
  stepCreate_bank h

/-- a block at height `h`: exactly the contracts queued at `h` — all open and expiring at `h` —
become `refunded`, nothing else changes in the contract table, all entries of height `h` leave
the queue, and the bank changes by exactly their refunds (`payRefund`: plain / outgoing —
escrow → sender; incoming — nothing), each applied once -/
theorem refund_exact (s : State) (h t : Nat) (hs : Inv s) :
    ∃ s', step s (.beginBlock h t) = .ok s' ∧
      s'.bank = refundAll s.htlcs s.bank (dueIds s.queue h) ∧ (dueIds s.queue h).Nodup ∧
      (∀ id, (h, id) ∈ s.queue → ∃ c, AMap.get? s.htlcs id = some c ∧ c.state = .open ∧
          c.expiration = h ∧ AMap.get? s'.htlcs id = some (refunded c h)) ∧
      (∀ id, (h, id) ∉ s.queue → AMap.get? s'.htlcs id = AMap.get? s.htlcs id) ∧
      (∀ x, x ∈ s'.queue ↔ x ∈ s.queue ∧ x.1 ≠ h) := by
  obtain ⟨s', e⟩ := beginBlock_ok hs h t
  exact ⟨s', e.run, e.bank, nodup_dueIds _ _ hs.2.1.1, e.refunded, e.others, e.queue⟩

/-- a parameter update moves no funds and touches no contract -/
theorem setParams_moves_nothing (s s' : State) (auth : Addr) (ps : List Asset)
    (h : step s (.setParams auth ps) = .ok s') : s'.bank = s.bank ∧ s'.htlcs = s.htlcs ∧ s'.queue = s.queue := by
  simp only [step, stepSetParams] at h
  split at h; · cases h
  split at h; · cases h
  cases h; exact ⟨rfl, rfl, rfl⟩

/-- balances form of the plain claim payout: the recipient gains the amount and the escrow loses it
(recipient ≠ escrow) -/
theorem claim_plain_balances (s s' : State) (sender id secret : String) (c : Contract)
    (hg : AMap.get? s.htlcs id = some c) (ht : c.transfer = false) (hto : c.to ≠ escrow)
    (h : step s (.claim sender id secret) = .ok s') (d : Denom) :
    Bank.balOf s'.bank c.to d = Bank.balOf s.bank c.to d + coinAmt c.amount d ∧
    Bank.balOf s'.bank escrow d + coinAmt c.amount d = Bank.balOf s.bank escrow d ∧
    ∀ a, a ≠ c.to → a ≠ escrow → Bank.balOf s'.bank a d = Bank.balOf s.bank a d := by
  simp only [step] at h
  obtain ⟨c0, s1, hget, hopen, _, hf, rfl⟩ := stepClaim_ok h
  rw [hg] at hget; cases hget
  rcases claimFunds_ok hf with ⟨_, b, hb, rfl⟩ | ⟨ht', _⟩ | ⟨ht', _⟩
  · refine ⟨?_, ?_, fun a h1 h2 => ?_⟩
    · have := sendCoins_ok hb c.to d; simp [hto] at this; exact this
    · have := sendCoins_ok hb escrow d
      have hne : ¬ (escrow = c.to) := fun e => hto e.symm
      simp [hne] at this; exact this
    · have := sendCoins_ok hb a d; simp [h1, h2] at this; exact this
  · rw [ht] at ht'; cases ht'
  · rw [ht] at ht'; cases ht'

/-! ### `PaidOnce` as a history invariant -/

/-- number of steps of the history in which contract `id` leaves the open state — the steps in
which funds attributable to `id` leave escrow (by `claim_exact` / `refund_exact` no other step
pays anything out of escrow) -/
def closings (s : State) : List Op → Id → Nat
  | [], _ => 0
  | op :: r, id =>
    (if stateOf s id = some .open ∧ stateOf (apply s op) id ≠ some .open then 1 else 0)
      + closings (apply s op) r id

/-- once closed, a contract is never paid again -/
theorem closings_closed (s : State) (ops : List Op) (hs : Inv s) (hops : ∀ op ∈ ops, OpOk op) (id : Id)
    (c : Contract) (hg : AMap.get? s.htlcs id = some c) (hc : c.state ≠ .open) : closings s ops id = 0 := by
  induction ops generalizing s with
  | nil => rfl
  | cons op r ih =>
    simp only [closings]
    have h1 : ¬ (stateOf s id = some .open ∧ stateOf (apply s op) id ≠ some .open) := by
      rintro ⟨h, _⟩; simp [stateOf, hg] at h; exact hc h
    rw [if_neg h1, Nat.zero_add]
    exact ih (apply s op) (inv_apply hs (hops op (by simp))) (fun o ho => hops o (by simp [ho]))
      (closed_absorbing_step s op hs id c hg hc)

/-- **(ii) `PaidOnce`**: in every history, for every contract id, there is at most one step in
which the contract leaves the open state — funds attributable to a contract leave escrow at
most once -/
theorem paid_at_most_once (s : State) (ops : List Op) (hs : Inv s) (hops : ∀ op ∈ ops, OpOk op) (id : Id) :
    closings s ops id ≤ 1 := by
  induction ops generalizing s with
  | nil => simp [closings]
  | cons op r ih =>
    simp only [closings]
    have hs' := inv_apply hs (hops op (by simp))
    have hops' : ∀ o ∈ r, OpOk o := fun o ho => hops o (by simp [ho])
    split
    · rename_i hP
      obtain ⟨hopen, hclosed⟩ := hP
      cases hg : AMap.get? s.htlcs id with
      | none => simp [stateOf, hg] at hopen
      | some c =>
        obtain ⟨c', hg', _⟩ := apply_trans (op := op) hs hg
        have hc' : c'.state ≠ .open := by
          intro e; apply hclosed; simp [stateOf, hg', e]
        rw [closings_closed (apply s op) r hs' hops' id c' hg' hc']; omega
    · have := ih (apply s op) hs' hops'
      omega

/-- the only causes of a payout: the step that closes contract `id` is either a claim of `id`
with a secret hashing to its lock (→ completed), or a block running at its expiration height
(→ refunded) -/
theorem closing_cause (s : State) (op : Op) (hs : Inv s) (id : Id) (h : closesIn s op id) :
    ∃ c, AMap.get? s.htlcs id = some c ∧ c.state = .open ∧
      ((∃ sender secret, op = .claim sender id secret ∧ genLock secret c.timestamp = c.hashLock ∧
          AMap.get? (apply s op).htlcs id = some (completed c secret s.height)) ∨
       (RunsBlock s op c.expiration ∧ AMap.get? (apply s op).htlcs id = some (refunded c c.expiration))) := by
  obtain ⟨hopen, hclosed⟩ := h
  cases hg : AMap.get? s.htlcs id with
  | none => simp [stateOf, hg] at hopen
  | some c =>
    have ho : c.state = .open := by simpa [stateOf, hg] using hopen
    obtain ⟨c', hg', t⟩ := apply_trans (op := op) hs hg
    refine ⟨c, rfl, ho, ?_⟩
    cases t with
    | stay => exfalso; apply hclosed; simp [stateOf, hg', ho]
    | claimed sender secret hop _ hlk => exact Or.inl ⟨sender, secret, hop, hlk, hg'⟩
    | refunded _ hr => exact Or.inr ⟨hr, hg'⟩

/-! ### (iv) no claim at or after the expiration height -/

/-- when the begin blocker of the current height has run (`QueueFuture`), an accepted claim
happens strictly before the contract's expiration height -/
theorem claim_before_expiry (s s' : State) (sender id secret : String) (hs : Inv s) (hf : QueueFuture s)
    (h : step s (.claim sender id secret) = .ok s') :
    ∃ c, AMap.get? s.htlcs id = some c ∧ s.height < c.expiration := by
  obtain ⟨c, hg, ho, _⟩ := stepClaim_bank h
  exact ⟨c, hg, hf _ _ (hs.2.1.2.1 id c hg ho)⟩

/-- the heights of the explicit blocks of a history are consecutive -/
def Chain (s : State) : List Op → Prop
  | [] => True
  | op :: r => ChainOp s op ∧ Chain (apply s op) r

/-- on a chain of consecutive blocks every queued height stays in the future: no entry with
height ≤ current survives a block, so a claim at height ≥ expiration cannot be accepted -/
theorem queueFuture_run (s : State) (ops : List Op) (hs : Inv s) (hf : QueueFuture s)
    (hops : ∀ op ∈ ops, OpOk op) (hc : Chain s ops) : QueueFuture (run s ops) := by
  induction ops generalizing s with
  | nil => exact hf
  | cons op r ih =>
    have hs' := inv_apply hs (hops op (by simp))
    refine ih (apply s op) hs' ?_ (fun o ho => hops o (by simp [ho])) hc.2
    unfold apply
    cases h : step s op with
    | ok s1 => exact queueFuture_step hs hf hc.1 h
    | error e => exact hf

/-- a contract open at a height ≥ its expiration does not exist on a chain of consecutive blocks -/
theorem no_open_past_expiry (s : State) (hs : Inv s) (hf : QueueFuture s) (id : Id) (c : Contract)
    (hg : AMap.get? s.htlcs id = some c) (ho : c.state = .open) : s.height < c.expiration :=
  hf _ _ (hs.2.1.2.1 id c hg ho)

/-! ### a concrete history (used by the audit files for non-vacuity) -/

namespace Demo
def t0 : Nat := 1700000000000000000
def sec (k : Nat) : String := Line.hexOfBytes (Sha256.sum (toString k).toUTF8)
def asset : Asset :=
  { denom := "htltaaa", limit := 1000, timeLimited := true, period := 30000000000, tbLimit := 500, active := true,
    deputy := "A4", fixedFee := 1, minSwap := 1, maxSwap := 1000, minLock := 50, maxLock := 34560 }
def s0 : State :=
  { bank := { bal := [(("A0", "stake"), 100)], supply := [("stake", 100)] }, params := [asset],
    prevTime := some t0, height := 10, time := t0 }
def ts : Nat := 1700000000
def plainId : Id := genId (genLock (sec 1) ts) "A0" "A1" [("stake", 30)]
def inId : Id := genId (genLock (sec 2) ts) "A4" "A2" [("htltaaa", 40)]
def outId : Id := genId (genLock (sec 3) ts) "A2" "A4" [("htltaaa", 10)]
def ops : List Op :=
  [ .beginBlock 11 (t0 + 1000000000),
    .create "A0" "A1" [("stake", 30)] (genLock (sec 1) ts) ts 50 false,
    .create "A4" "A2" [("htltaaa", 40)] (genLock (sec 2) ts) ts 50 true,
    .claim "A3" inId (sec 9),          -- wrong secret: rejected
    .claim "A3" inId (sec 2),          -- minted to A2
    .claim "A3" inId (sec 2),          -- second claim: rejected
    .create "A2" "A4" [("htltaaa", 10)] (genLock (sec 3) ts) ts 50 true,
    .advance 60 1000000000,            -- the plain and the outgoing contract expire and are refunded
    .claim "A1" plainId (sec 1) ]      -- claim after refund: rejected
def final : State := run s0 ops
def st (id : Id) : Option HState := stateOf final id
end Demo

end Irismod.Props.C03
