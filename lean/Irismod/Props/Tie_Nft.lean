/-
Tie between the NFT model's authority and restriction guards (C14) and /repo's source, over the REGENERATED
translation `Gen/PureNft.lean` (`extract/x_pure`, every run): the sentinel functions `types.Modified` / `types.Modify`
(whole), and the guards, branch conditions and metadata writes of `UpdateNFT`, `TransferOwnership`, `MintNFT`,
`TransferDenomOwner` and `Authorize`, are the decisions `Nft.stepEdit`, `Nft.stepTransfer`, `Nft.stepMint` and
`Nft.stepTransferDenom` take. (The model carries the strings of the line protocol hex-encoded; the sentinel is compared
as a raw string here and as its hex form there.)
-/
import Irismod.Gen.PureNft
import Irismod.Proofs.GoSemLemmas
namespace Irismod.Props.Tie
open Irismod.GoSem Irismod.Gen.PureNft

theorem nft_all_translated : Irismod.Gen.PureNft.untranslated = [] := rfl

theorem nft_translated_pinned : Irismod.Gen.PureNft.translated =
    ["Modified(target)",
     "Modify(origin,target)",
     "UpdateNFT_guard_1(denom_UpdateRestricted)",
     "UpdateNFT_cond_2(tokenURI,tokenURIHash,tokenNm,tokenData)",
     "UpdateNFT_token_Uri_1(token_Uri,tokenURI)",
     "UpdateNFT_token_UriHash_1(token_UriHash,tokenURIHash)",
     "UpdateNFT_cond_3(tokenNm,tokenData)",
     "UpdateNFT_nftMetadata_Name_1(nftMetadata_Name,tokenNm)",
     "UpdateNFT_nftMetadata_Data_1(nftMetadata_Data,tokenData)",
     "TransferOwnership_tokenChanged_1(tokenURI,tokenURIHash)",
     "TransferOwnership_tokenMetadataChanged_1(tokenNm,tokenData)",
     "TransferOwnership_guard_1(denom_UpdateRestricted,tokenChanged,tokenMetadataChanged)",
     "TransferOwnership_guard_2(tokenChanged,tokenMetadataChanged)",
     "TransferOwnership_token_Uri_1(token_Uri,tokenURI)",
     "TransferOwnership_token_UriHash_1(token_UriHash,tokenURIHash)",
     "TransferOwnership_cond_3(tokenMetadataChanged)",
     "TransferOwnership_nftMetadata_Name_1(nftMetadata_Name,tokenNm)",
     "TransferOwnership_nftMetadata_Data_1(nftMetadata_Data,tokenData)",
     "MintNFT_guard_1(denom_MintRestricted,denom_Creator,read_sender_String)",
     "TransferDenomOwner_guard_1(read_srcOwner_String,denom_Creator)",
     "Authorize_guard_1(read_owner_Equals_k_nk_GetOwner_ctx_denomID_tokenID)"] := rfl

/-- the do-not-modify sentinel -/
def sentinel : String := "[do-not-modify]"

theorem Modified_eq (t : String) : Modified t = some (t != sentinel) := rfl
theorem Modify_eq (o t : String) : Modify o t = some (if t = sentinel then o else t) := by
  unfold Modify sentinel
  by_cases h : t = "[do-not-modify]" <;> simp [h]

/-- "anything changes": the disjunction the edit and transfer paths branch on -/
def anyChange (name uri uriHash data : String) : Bool :=
  (name != sentinel) || (uri != sentinel) || (uriHash != sentinel) || (data != sentinel)

/-- `UpdateNFT` (edit): refused outright in an update-restricted class; a no-op exactly when nothing changes; the
metadata record is rewritten exactly when name or data change; the four writes are `Modify` of the stored value -/
theorem UpdateNFT_decisions (ur : Bool) (name uri uriHash data old : String) :
    UpdateNFT_guard_1 ur = some ur ∧
    UpdateNFT_cond_2 uri uriHash name data = some (!(anyChange name uri uriHash data)) ∧
    UpdateNFT_cond_3 name data = some ((name != sentinel) || (data != sentinel)) ∧
    UpdateNFT_token_Uri_1 old uri = Modify old uri ∧ UpdateNFT_token_UriHash_1 old uriHash = Modify old uriHash ∧
    UpdateNFT_nftMetadata_Name_1 old name = Modify old name ∧ UpdateNFT_nftMetadata_Data_1 old data = Modify old data := by
  refine ⟨rfl, ?_, ?_, ?_, ?_, ?_, ?_⟩
  · unfold UpdateNFT_cond_2 anyChange
    simp only [Modified_eq, obind_some]
    cases (name != sentinel) <;> cases (uri != sentinel) <;> cases (uriHash != sentinel) <;> cases (data != sentinel) <;> rfl
  · unfold UpdateNFT_cond_3
    simp only [Modified_eq, obind_some]
    cases (name != sentinel) <;> cases (data != sentinel) <;> rfl
  all_goals
    first
    | (unfold UpdateNFT_token_Uri_1; cases Modify old uri <;> rfl)
    | (unfold UpdateNFT_token_UriHash_1; cases Modify old uriHash <;> rfl)
    | (unfold UpdateNFT_nftMetadata_Name_1; cases Modify old name <;> rfl)
    | (unfold UpdateNFT_nftMetadata_Data_1; cases Modify old data <;> rfl)

/-- `TransferOwnership`: a transfer that changes anything is refused in an update-restricted class (uri, hash, NAME and
DATA alike — seeds C14-1 / C14-5 dropped the last two), and a transfer that changes nothing is a plain transfer -/
theorem TransferOwnership_decisions (ur : Bool) (name uri uriHash data : String) :
    (TransferOwnership_tokenChanged_1 uri uriHash >>= fun tc =>
      TransferOwnership_tokenMetadataChanged_1 name data >>= fun tm => TransferOwnership_guard_1 ur tc tm) =
      some (ur && anyChange name uri uriHash data) ∧
    (TransferOwnership_tokenChanged_1 uri uriHash >>= fun tc =>
      TransferOwnership_tokenMetadataChanged_1 name data >>= fun tm => TransferOwnership_guard_2 tc tm) =
      some (!(anyChange name uri uriHash data)) := by
  unfold TransferOwnership_tokenChanged_1 TransferOwnership_tokenMetadataChanged_1 TransferOwnership_guard_1
    TransferOwnership_guard_2 anyChange
  simp only [Modified_eq, obind_some]
  constructor <;>
    (cases ur <;> cases (name != sentinel) <;> cases (uri != sentinel) <;> cases (uriHash != sentinel) <;>
      cases (data != sentinel) <;> rfl)

/-- who may mint, hand a class over, and act on a token: the three authority comparisons -/
theorem authority_guards (mr : Bool) (creator sender : String) (isOwner : Bool) :
    MintNFT_guard_1 mr creator sender = some (mr && (creator != sender)) ∧
    TransferDenomOwner_guard_1 sender creator = some (sender != creator) ∧
    Authorize_guard_1 isOwner = some (!isOwner) := ⟨rfl, rfl, rfl⟩

end Irismod.Props.Tie
