/-
Tie between the NFT model's authority and restriction guards (C14) and /repo's source, over the REGENERATED
translation `Gen/PureNft.lean` (`extract/x_pure`, every run): the sentinel functions `types.Modified` / `types.Modify`
(whole), and the guards, branch conditions and metadata writes of `UpdateNFT`, `TransferOwnership`, `MintNFT`,
`TransferDenomOwner` and `Authorize`, are the decisions `Nft.stepEdit`, `Nft.stepTransfer`, `Nft.stepMint` and
`Nft.stepTransferDenom` take. (The model carries the strings of the line protocol hex-encoded; the sentinel is compared
as a raw string here and as its hex form there.)
-/
import Irismod.Gen.PureNft
import Irismod.Proofs.GoSemLemmas
namespace Irismod.Props.Tie
open Irismod.GoSem Irismod.Gen.PureNft

theorem nft_all_translated : Irismod.Gen.PureNft.untranslated = [] := rfl

theorem nft_translated_pinned : Irismod.Gen.PureNft.translated =
    ["Modified(target)",
     "Modify(origin,target)",
     "UpdateNFT_guard_1(denom_UpdateRestricted)",
     "UpdateNFT_cond_2(tokenURI,tokenURIHash,tokenNm,tokenData)",
     "UpdateNFT_token_Uri_1(token_Uri,tokenURI)",
     "UpdateNFT_token_UriHash_1(token_UriHash,tokenURIHash)",
     "UpdateNFT_cond_3(tokenNm,tokenData)",
     "UpdateNFT_nftMetadata_Name_1(nftMetadata_Name,tokenNm)",
     "UpdateNFT_nftMetadata_Data_1(nftMetadata_Data,tokenData)",
     "TransferOwnership_tokenChanged_1(tokenURI,tokenURIHash)",
     "TransferOwnership_tokenMetadataChanged_1(tokenNm,tokenData)",
     "TransferOwnership_guard_1(denom_UpdateRestricted,tokenChanged,tokenMetadataChanged)",
     "TransferOwnership_guard_2(tokenChanged,tokenMetadataChanged)",
     "TransferOwnership_token_Uri_1(token_Uri,tokenURI)",
     "TransferOwnership_token_UriHash_1(token_UriHash,tokenURIHash)",
     "TransferOwnership_cond_3(tokenMetadataChanged)",
     "TransferOwnership_nftMetadata_Name_1(nftMetadata_Name,tokenNm)",
     "TransferOwnership_nftMetadata_Data_1(nftMetadata_Data,tokenData)",
     "MintNFT_guard_1(denom_MintRestricted,denom_Creator,read_sender_String)",
     "TransferDenomOwner_guard_1(read_srcOwner_String,denom_Creator)",
     "Authorize_guard_1(read_owner_Equals_k_nk_GetOwner_ctx_denomID_tokenID)"] := rfl

/-- every rejecting guard (an `if` ending in the return of an error, or in a panic) of the translated functions and of
the handlers around them, as source text in source order: removing, weakening or reordering one breaks this -/
theorem nft_guards_pinned : Irismod.Gen.PureNft.guards =
    ["UpdateNFT: denom, err := k.GetDenomInfo(ctx, denomID); err != nil",
     "UpdateNFT: denom.UpdateRestricted",
     "UpdateNFT: err := k.Authorize(ctx, denomID, tokenID, owner); err != nil",
     "UpdateNFT: !exist",
     "UpdateNFT: nftMetadata, err := types.UnmarshalNFTMetadata(k.cdc, token.Data.GetValue()); err != nil",
     "UpdateNFT: data, err := codectypes.NewAnyWithValue(&nftMetadata); err != nil",
     "TransferOwnership: !exist",
     "TransferOwnership: err := k.Authorize(ctx, denomID, tokenID, srcOwner); err != nil",
     "TransferOwnership: denom, err := k.GetDenomInfo(ctx, denomID); err != nil",
     "TransferOwnership: denom.UpdateRestricted && (tokenChanged || tokenMetadataChanged)",
     "TransferOwnership: !tokenChanged && !tokenMetadataChanged",
     "TransferOwnership: nftMetadata, err := types.UnmarshalNFTMetadata(k.cdc, token.Data.GetValue()); err != nil",
     "TransferOwnership: data, err := codectypes.NewAnyWithValue(&nftMetadata); err != nil",
     "TransferOwnership: err := k.nk.Update(ctx, token); err != nil",
     "MintNFT: recipient, err := sdk.AccAddressFromBech32(msg.Recipient); err != nil",
     "MintNFT: sender, err := sdk.AccAddressFromBech32(msg.Sender); err != nil",
     "MintNFT: denom, err := k.GetDenomInfo(ctx, msg.DenomId); err != nil",
     "MintNFT: denom.MintRestricted && denom.Creator != sender.String()",
     "MintNFT: err := k.SaveNFT(ctx, msg.DenomId, msg.Id, msg.Name, msg.URI, msg.UriHash, msg.Data, recipient, ); err != nil",
     "TransferDenomOwner: denom, err := k.GetDenomInfo(ctx, denomID); err != nil",
     "TransferDenomOwner: srcOwner.String() != denom.Creator",
     "TransferDenomOwner: data, err := codectypes.NewAnyWithValue(denomMetadata); err != nil",
     "Authorize: !owner.Equals(k.nk.GetOwner(ctx, denomID, tokenID))",
     "Keeper.IssueDenom: sender, err := sdk.AccAddressFromBech32(msg.Sender); err != nil",
     "Keeper.IssueDenom: err := k.SaveDenom(ctx, msg.Id, msg.Name, msg.Schema, msg.Symbol, sender, msg.MintRestricted, msg.UpdateRestricted, msg.Description, msg.Uri, msg.UriHash, msg.Data, ); err != nil",
     "Keeper.EditNFT: sender, err := sdk.AccAddressFromBech32(msg.Sender); err != nil",
     "Keeper.EditNFT: err := k.UpdateNFT(ctx, msg.DenomId, msg.Id, msg.Name, msg.URI, msg.UriHash, msg.Data, sender, ); err != nil",
     "Keeper.TransferNFT: sender, err := sdk.AccAddressFromBech32(msg.Sender); err != nil",
     "Keeper.TransferNFT: recipient, err := sdk.AccAddressFromBech32(msg.Recipient); err != nil",
     "Keeper.TransferNFT: err := k.TransferOwnership(ctx, msg.DenomId, msg.Id, msg.Name, msg.URI, msg.UriHash, msg.Data, sender, recipient, ); err != nil",
     "Keeper.BurnNFT: sender, err := sdk.AccAddressFromBech32(msg.Sender); err != nil",
     "Keeper.BurnNFT: err := k.RemoveNFT(ctx, msg.DenomId, msg.Id, sender); err != nil",
     "Keeper.TransferDenom: sender, err := sdk.AccAddressFromBech32(msg.Sender); err != nil",
     "Keeper.TransferDenom: recipient, err := sdk.AccAddressFromBech32(msg.Recipient); err != nil",
     "Keeper.TransferDenom: err := k.TransferDenomOwner(ctx, msg.Id, sender, recipient); err != nil",
     "Keeper.RemoveNFT: err := k.Authorize(ctx, denomID, tokenID, owner); err != nil",
     "Keeper.SaveNFT: data, err := codectypes.NewAnyWithValue(nftMetadata); err != nil"] := rfl

/-- every statement of these functions executed for its effect — a call whose result is dropped (store and bank
writes, queue moves, hooks) or a write to a record field — with its nesting depth, in source order: a write that is
dropped, duplicated, reordered or moved into or out of a branch breaks this -/
theorem nft_effects_pinned : Irismod.Gen.PureNft.effects =
    ["UpdateNFT: d0 token.Uri = types.Modify(token.Uri, tokenURI)",
     "UpdateNFT: d0 token.UriHash = types.Modify(token.UriHash, tokenURIHash)",
     "UpdateNFT: d1 nftMetadata.Name = types.Modify(nftMetadata.Name, tokenNm)",
     "UpdateNFT: d1 nftMetadata.Data = types.Modify(nftMetadata.Data, tokenData)",
     "UpdateNFT: d1 token.Data = data",
     "TransferOwnership: d0 token.Uri = types.Modify(token.Uri, tokenURI)",
     "TransferOwnership: d0 token.UriHash = types.Modify(token.UriHash, tokenURIHash)",
     "TransferOwnership: d1 nftMetadata.Name = types.Modify(nftMetadata.Name, tokenNm)",
     "TransferOwnership: d1 nftMetadata.Data = types.Modify(nftMetadata.Data, tokenData)",
     "TransferOwnership: d1 token.Data = data"] := rfl

/-- the do-not-modify sentinel -/
def sentinel : String := "[do-not-modify]"

theorem Modified_eq (t : String) : Modified t = some (t != sentinel) := rfl
theorem Modify_eq (o t : String) : Modify o t = some (if t = sentinel then o else t) := by
  unfold Modify sentinel
  by_cases h : t = "[do-not-modify]" <;> simp [h]

/-- "anything changes": the disjunction the edit and transfer paths branch on -/
def anyChange (name uri uriHash data : String) : Bool :=
  (name != sentinel) || (uri != sentinel) || (uriHash != sentinel) || (data != sentinel)

/-- `UpdateNFT` (edit): refused outright in an update-restricted class; a no-op exactly when nothing changes; the
metadata record is rewritten exactly when name or data change; the four writes are `Modify` of the stored value -/
theorem UpdateNFT_decisions (ur : Bool) (name uri uriHash data old : String) :
    UpdateNFT_guard_1 ur = some ur ∧
    UpdateNFT_cond_2 uri uriHash name data = some (!(anyChange name uri uriHash data)) ∧
    UpdateNFT_cond_3 name data = some ((name != sentinel) || (data != sentinel)) ∧
    UpdateNFT_token_Uri_1 old uri = Modify old uri ∧ UpdateNFT_token_UriHash_1 old uriHash = Modify old uriHash ∧
    UpdateNFT_nftMetadata_Name_1 old name = Modify old name ∧ UpdateNFT_nftMetadata_Data_1 old data = Modify old data := by
  refine ⟨rfl, ?_, ?_, ?_, ?_, ?_, ?_⟩
  · unfold UpdateNFT_cond_2 anyChange
    simp only [Modified_eq, obind_some]
    cases (name != sentinel) <;> cases (uri != sentinel) <;> cases (uriHash != sentinel) <;> cases (data != sentinel) <;> rfl
  · unfold UpdateNFT_cond_3
    simp only [Modified_eq, obind_some]
    cases (name != sentinel) <;> cases (data != sentinel) <;> rfl
  all_goals
    first
    | (unfold UpdateNFT_token_Uri_1; cases Modify old uri <;> rfl)
    | (unfold UpdateNFT_token_UriHash_1; cases Modify old uriHash <;> rfl)
    | (unfold UpdateNFT_nftMetadata_Name_1; cases Modify old name <;> rfl)
    | (unfold UpdateNFT_nftMetadata_Data_1; cases Modify old data <;> rfl)

/-- `TransferOwnership`: a transfer that changes anything is refused in an update-restricted class (uri, hash, NAME and
DATA alike — seeds C14-1 / C14-5 dropped the last two), and a transfer that changes nothing is a plain transfer -/
theorem TransferOwnership_decisions (ur : Bool) (name uri uriHash data : String) :
    (TransferOwnership_tokenChanged_1 uri uriHash >>= fun tc =>
      TransferOwnership_tokenMetadataChanged_1 name data >>= fun tm => TransferOwnership_guard_1 ur tc tm) =
      some (ur && anyChange name uri uriHash data) ∧
    (TransferOwnership_tokenChanged_1 uri uriHash >>= fun tc =>
      TransferOwnership_tokenMetadataChanged_1 name data >>= fun tm => TransferOwnership_guard_2 tc tm) =
      some (!(anyChange name uri uriHash data)) := by
  unfold TransferOwnership_tokenChanged_1 TransferOwnership_tokenMetadataChanged_1 TransferOwnership_guard_1
    TransferOwnership_guard_2 anyChange
  simp only [Modified_eq, obind_some]
  constructor <;>
    (cases ur <;> cases (name != sentinel) <;> cases (uri != sentinel) <;> cases (uriHash != sentinel) <;>
      cases (data != sentinel) <;> rfl)

/-- who may mint, hand a class over, and act on a token: the three authority comparisons -/
theorem authority_guards (mr : Bool) (creator sender : String) (isOwner : Bool) :
    MintNFT_guard_1 mr creator sender = some (mr && (creator != sender)) ∧
    TransferDenomOwner_guard_1 sender creator = some (sender != creator) ∧
    Authorize_guard_1 isOwner = some (!isOwner) := ⟨rfl, rfl, rfl⟩

end Irismod.Props.Tie
