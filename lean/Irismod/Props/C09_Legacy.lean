/-
C09 — the legacy (v1beta1) Msg service, exact form: for every `uint64` amount and every token of scale
≤ 18 the adapter's conversion `Token.ToMinCoin` neither fails nor panics, so a legacy mint / burn that
passes the v1beta1 `ValidateBasic` and names an existing token IS the call of the v1 msg-server method
with the coin `amount · 10^scale` of that token's min unit — accepted and rejected alike.
-/
import Irismod.Proofs.TokenGenesis

namespace Irismod.Props.C09
open Irismod Irismod.Sdk Irismod.Token Irismod.Spec.C09 Irismod.Proofs.Token

theorem pow10_18 : pow10 18 = 1000000000000000000 := by decide

theorem pow10_le_18 {n : Nat} (h : n ≤ 18) : pow10 n ≤ 1000000000000000000 := by
  rw [← pow10_18]
  exact Nat.pow_le_pow_right (by decide) h

theorem hlt1 : 18446744073709551615 * 1000000000000000000 * 1000000000000000000 < pow2_315 := by decide

theorem inDec_small {m : Nat} (h : m ≤ 18446744073709551615 * 1000000000000000000) :
    inDec ((m * 1000000000000000000 : Nat) : Int) = true := by
  have h1 : m * 1000000000000000000 ≤ 18446744073709551615 * 1000000000000000000 * 1000000000000000000 :=
    Nat.mul_le_mul_right _ h
  have h2 : m * 1000000000000000000 < pow2_315 := Nat.lt_of_le_of_lt h1 hlt1
  unfold inDec
  rw [Int.natAbs_natCast]
  exact decide_eq_true h2

theorem hlt2 : 18446744073709551615 * 1000000000000000000 < pow2_256 := by decide

theorem inInt_small {m : Nat} (h : m ≤ 18446744073709551615 * 1000000000000000000) :
    inInt256 ((m : Nat) : Int) = true := by
  have h2 : m < pow2_256 := Nat.lt_of_le_of_lt h hlt2
  unfold inInt256
  rw [Int.natAbs_natCast]
  exact decide_eq_true h2

theorem mul_trunc_total {a b : Nat} (h : a * b ≤ 18446744073709551615 * 1000000000000000000) :
    ((Dec.ofInt (a : Int)).mul (Dec.ofInt (b : Int))).bind Dec.truncateInt = some ((a * b : Nat) : Int) := by
  have e1 : (Dec.ofInt (a : Int)).mul (Dec.ofInt (b : Int)) = some ⟨((a * b * 1000000000000000000 : Nat) : Int)⟩ := by
    unfold Dec.mul
    rw [chopRound_ofInt_mul]
    unfold chkDec
    rw [inDec_small h]
    rfl
  have e2 : Dec.truncateInt ⟨((a * b * 1000000000000000000 : Nat) : Int)⟩ = some ((a * b : Nat) : Int) := by
    unfold Dec.truncateInt
    simp only
    rw [chopTrunc_mul]
    unfold chkInt
    rw [inInt_small h]
    rfl
  rw [e1, Option.bind_some, e2]

/-- `ToMinCoin` of a `uint64` amount at a scale ≤ 18 stays far inside the 315-bit / 256-bit ranges -/
theorem legacyMinCoin_total {t : Token} {symbol : String} {amount : Nat} (hsym : t.symbol = symbol)
    (hvs : validDenom symbol = true) (hvd : validDenom t.minUnit = true) (ha : amount ≤ maxU64) (hsc : t.scale ≤ 18) :
    legacyMinCoin t symbol amount = .ok (t.minUnit, ((amount * pow10 t.scale : Nat) : Int)) := by
  have hb := pow10_le_18 hsc
  have ha' : amount ≤ 18446744073709551615 := ha
  have hab : amount * pow10 t.scale ≤ 18446744073709551615 * 1000000000000000000 := Nat.mul_le_mul ha' hb
  have e1 : (Dec.ofInt (amount : Int)).mul (Dec.ofInt ((pow10 t.scale : Nat) : Int))
      = some ⟨((amount * pow10 t.scale * 1000000000000000000 : Nat) : Int)⟩ := by
    unfold Dec.mul
    rw [chopRound_ofInt_mul]
    unfold chkDec
    rw [inDec_small hab]
    rfl
  have e2 : Dec.truncateInt ⟨((amount * pow10 t.scale * 1000000000000000000 : Nat) : Int)⟩
      = some ((amount * pow10 t.scale : Nat) : Int) := by
    unfold Dec.truncateInt
    simp only
    rw [chopTrunc_mul]
    unfold chkInt
    rw [inInt_small hab]
    rfl
  unfold legacyMinCoin
  split
  · rename_i h; rw [hvs] at h; cases h
  split
  · rename_i h; exact absurd hsym h
  split
  · rename_i h; rw [e1] at h; cases h
  rename_i a hA
  rw [e1] at hA; cases hA
  split
  · rename_i h; rw [e2] at h; cases h
  rename_i n hn
  rw [e2] at hn; cases hn
  split
  · rename_i h; rw [hvd] at h; cases h
  rfl

/-- **C09(7d′)** exact form of the legacy mint: valid v1beta1 message, existing token (scale ≤ 18, as
every token of a reachable state) ⇒ the legacy message is the v1 msg-server call on `amount · 10^scale` -/
theorem legacy_mint_exact (s : State) (hwf : WF s) (owner to symbol : String) (amount : Nat) (t : Token)
    (hv : legacyMintValid owner to symbol amount = true) (ht : AMap.get? s.tokens symbol = some t)
    (hvd : validDenom t.minUnit = true) (hsc : t.scale ≤ 18) :
    step s (.legacyMint owner to symbol amount) =
      handleMint s owner to t.minUnit ((amount * pow10 t.scale : Nat) : Int) := by
  have hsym := (hwf.1 symbol t ht).1
  have hv' := hv
  unfold legacyMintValid at hv'
  simp only [Bool.and_eq_true, decide_eq_true_eq] at hv'
  have hvs := Proofs.TokenGenesis.validSymbol_validDenom hv'.2
  show stepLegacyMint s owner to symbol amount = _
  unfold stepLegacyMint
  simp only [hv, Bool.not_true, Bool.false_eq_true, if_false]
  have : tokenBySymbol s symbol = some t := ht
  simp only [this, legacyMinCoin_total hsym hvs hvd hv'.1.2 hsc]

/-- **C09(7e′)** exact form of the legacy burn -/
theorem legacy_burn_exact_call (s : State) (hwf : WF s) (sender symbol : String) (amount : Nat) (t : Token)
    (hv : legacyBurnValid sender symbol amount = true) (ht : AMap.get? s.tokens symbol = some t)
    (hvd : validDenom t.minUnit = true) (hsc : t.scale ≤ 18) :
    step s (.legacyBurn sender symbol amount) =
      handleBurn s sender t.minUnit ((amount * pow10 t.scale : Nat) : Int) := by
  have hsym := (hwf.1 symbol t ht).1
  have hv' := hv
  unfold legacyBurnValid at hv'
  simp only [Bool.and_eq_true, decide_eq_true_eq] at hv'
  have hvs := Proofs.TokenGenesis.validSymbol_validDenom hv'.2
  show stepLegacyBurn s sender symbol amount = _
  unfold stepLegacyBurn
  simp only [hv, Bool.not_true, Bool.false_eq_true, if_false]
  have : tokenBySymbol s symbol = some t := ht
  simp only [this, legacyMinCoin_total hsym hvs hvd hv'.1.2 hsc]

/-- a legacy mint / burn whose symbol names no token is rejected -/
theorem legacy_unknown_symbol_rejected (s : State) (a b symbol : String) (amount : Nat)
    (hn : AMap.get? s.tokens symbol = none) :
    apply s (.legacyMint a b symbol amount) = s ∧ apply s (.legacyBurn a symbol amount) = s := by
  have : tokenBySymbol s symbol = none := hn
  constructor
  · unfold apply
    cases hs : step s (.legacyMint a b symbol amount) with
    | error e => rfl
    | ok s' =>
      obtain ⟨_, _, t, ht, _⟩ := legacyMint_ok hs
      rw [hn] at ht; cases ht
  · unfold apply
    cases hs : step s (.legacyBurn a symbol amount) with
    | error e => rfl
    | ok s' =>
      obtain ⟨_, _, t, ht, _⟩ := legacyBurn_ok hs
      rw [hn] at ht; cases ht

end Irismod.Props.C09
