/-
Tie between the farm model's reward arithmetic and /repo's source, over the REGENERATED translation
`Gen/PureFarm.lean` (written by `extract/x_pure` on every run): the assignments of `Keeper.updatePool`'s release loop
(keeper/pool.go) and of `FarmPool.CaclRewards` (types/farm.go), each translated on its own with the libraries' range
checks, compose to exactly `Farm.collectRule` and `Farm.shareOf` — the two functions every C05 / C06 theorem about
released, remaining and pending amounts is stated over.
-/
import Irismod.Gen.PureFarm
import Irismod.Model.Farm
import Irismod.Proofs.GoSemLemmas
namespace Irismod.Props.Tie
open Irismod.Sdk Irismod.GoSem Irismod.Gen.PureFarm Irismod.Farm

theorem farm_all_translated : Irismod.Gen.PureFarm.untranslated = [] := rfl

/-- the translated definitions are exactly these, in source order -/
theorem farm_translated_pinned : Irismod.Gen.PureFarm.translated =
    ["updatePool_guard_1(height,pool_LastHeightDistrRewards)",
     "updatePool_guard_2(read_len_rules)",
     "updatePool_cond_3(height,pool_LastHeightDistrRewards,pool_TotalLptLocked)",
     "updatePool_blockInterval_1(height,pool_LastHeightDistrRewards)",
     "updatePool_rewardCollected_1(rules_i_RewardPerBlock,blockInterval)",
     "updatePool_guard_4(rules_i_RemainingReward,rewardCollected)",
     "updatePool_newRewardPerShare_1(rewardCollected,pool_TotalLptLocked)",
     "updatePool_rules_i_RewardPerShare_1(rules_i_RewardPerShare,newRewardPerShare)",
     "updatePool_rules_i_RemainingReward_1(rules_i_RemainingReward,rewardCollected)",
     "updatePool_cond_5(read_rewardTotal_IsAllPositive)",
     "updatePool_cond_6(isDestroy)",
     "updatePool_cond_7(pool_StartHeight,pool_EndHeight)",
     "AdjustPool_guard_1(pool_Editable)",
     "AdjustPool_guard_2(read_creator_String,pool_Creator)",
     "AdjustPool_guard_3(read_k_Expired_ctx_pool)",
     "AdjustPool_startHeight_1(pool_StartHeight)",
     "AdjustPool_cond_4(read_pool_Started_ctx)",
     "AdjustPool_startHeight_2(read_ctx_BlockHeight)",
     "AdjustPool_call_updatePool_1_arg2()",
     "AdjustPool_call_updatePool_1_arg3()",
     "AdjustPool_rules_i_TotalReward_1(rules_i_TotalReward,read_reward_AmountOf_rules_i_Reward)",
     "AdjustPool_rules_i_RemainingReward_1(rules_i_RemainingReward,read_reward_AmountOf_rules_i_Reward)",
     "AdjustPool_cond_5(read_pool_Started_ctx)",
     "AdjustPool_remainingHeight_1(pool_EndHeight,startHeight)",
     "AdjustPool_call_UpdateWith_1_arg0(rewardPerBlock)",
     "AdjustPool_call_SetRewardRules_1_arg1(pool_Id)",
     "AdjustPool_availableHeight_1()",
     "AdjustPool_inteval_1(read_availableReward_AmountOf_r_Reward,r_RewardPerBlock)",
     "AdjustPool_cond_6(availableHeight,inteval)",
     "AdjustPool_availableHeight_2(inteval)",
     "AdjustPool_expiredHeight_1(startHeight,availableHeight)",
     "AdjustPool_cond_7(expiredHeight,pool_EndHeight)",
     "AdjustPool_call_DequeueActivePool_1_arg1(pool_Id)",
     "AdjustPool_call_DequeueActivePool_1_arg2(pool_EndHeight)",
     "AdjustPool_pool_EndHeight_1(expiredHeight)",
     "AdjustPool_call_EnqueueActivePool_1_arg1(pool_Id)",
     "AdjustPool_call_EnqueueActivePool_1_arg2(pool_EndHeight)",
     "CaclRewards_cond_1(farmInfo_Locked)",
     "CaclRewards_pendingRewardTotal_1(r_RewardPerShare,farmInfo_Locked)",
     "CaclRewards_pendingReward_1(pendingRewardTotal,read_farmInfo_RewardDebt_AmountOf_r_Reward)",
     "CaclRewards_locked_1(farmInfo_Locked,deltaAmt)",
     "CaclRewards_debt_1(r_Reward,r_RewardPerShare,locked)"] := rfl

/-- every rejecting guard (an `if` ending in the return of an error, or in a panic) of the translated functions and of
the handlers around them, as source text in source order: removing, weakening or reordering one breaks this -/
theorem farm_guards_pinned : Irismod.Gen.PureFarm.guards =
    ["updatePool: height < pool.LastHeightDistrRewards",
     "updatePool: len(rules) == 0",
     "updatePool: rules[i].RemainingReward.LT(rewardCollected)",
     "updatePool: err := k.bk.SendCoinsFromModuleToModule(ctx, types.ModuleName, types.RewardCollector, rewardTotal); err != nil",
     "AdjustPool: !exist",
     "AdjustPool: !pool.Editable",
     "AdjustPool: creator.String() != pool.Creator",
     "AdjustPool: k.Expired(ctx, pool)",
     "AdjustPool: rewardPerBlock != nil && !rewardPerBlock.DenomsSubsetOf(rules.RewardsPerBlock())",
     "AdjustPool: reward != nil && !rules.Contains(reward)",
     "AdjustPool: pool, _, err = k.updatePool(ctx, pool, math.ZeroInt(), false); err != nil",
     "AdjustPool: err := k.bk.SendCoinsFromAccountToModule(ctx, creator, types.ModuleName, reward); err != nil",
     "Keeper.Stake: !exist",
     "Keeper.Stake: pool.StartHeight > ctx.BlockHeight()",
     "Keeper.Stake: k.Expired(ctx, pool)",
     "Keeper.Stake: lpToken.Denom != pool.TotalLptLocked.Denom",
     "Keeper.Stake: err := k.bk.SendCoinsFromAccountToModule(ctx, sender, types.ModuleName, sdk.NewCoins(lpToken)); err != nil",
     "Keeper.Stake: pool, _, err = k.updatePool(ctx, pool, lpToken.Amount, false); err != nil",
     "Keeper.Stake: err = k.bk.SendCoinsFromModuleToAccount(ctx, types.RewardCollector, sender, rewards); err != nil",
     "Keeper.Unstake: !exist",
     "Keeper.Unstake: lpToken.Denom != pool.TotalLptLocked.Denom",
     "Keeper.Unstake: !exist",
     "Keeper.Unstake: farmInfo.Locked.LT(lpToken.Amount)",
     "Keeper.Unstake: pool.TotalLptLocked.Amount.LT(lpToken.Amount)",
     "Keeper.Unstake: pool, _, err = k.updatePool(ctx, pool, lpToken.Amount.Neg(), false); err != nil",
     "Keeper.Unstake: err = k.bk.SendCoinsFromModuleToAccount(ctx, types.ModuleName, sender, sdk.NewCoins(lpToken)); err != nil",
     "Keeper.Unstake: err = k.bk.SendCoinsFromModuleToAccount(ctx, types.RewardCollector, sender, rewards); err != nil",
     "Keeper.Harvest: !exist",
     "Keeper.Harvest: k.Expired(ctx, pool)",
     "Keeper.Harvest: !exist",
     "Keeper.Harvest: pool, _, err := k.updatePool(ctx, pool, amtAdded, false); err != nil",
     "Keeper.Harvest: err = k.bk.SendCoinsFromModuleToAccount(ctx, types.RewardCollector, sender, rewards); err != nil",
     "Keeper.Refund: pool, _, err := k.updatePool(ctx, pool, math.ZeroInt(), true); err != nil",
     "Keeper.Refund: creator, err := sdk.AccAddressFromBech32(pool.Creator); err != nil",
     "Keeper.Refund: !refundTotal.IsAllPositive()",
     "Keeper.Refund: distrModuleAddr.Equals(creator)",
     "Keeper.Refund: err := k.bk.SendCoinsFromModuleToAccount(ctx, types.ModuleName, creator, refundTotal); err != nil",
     "Keeper.CreatePool: err := k.DeductPoolCreationFee(ctx, creator); err != nil",
     "Keeper.CreatePool: err := k.bk.SendCoinsFromAccountToModule(ctx, creator, types.ModuleName, totalReward); err != nil",
     "Keeper.DestroyPool: !exist",
     "Keeper.DestroyPool: creator.String() != pool.Creator",
     "Keeper.DestroyPool: !pool.Editable",
     "Keeper.DestroyPool: k.Expired(ctx, pool)",
     "Keeper.createPool: endHeight, err := pool.ExpiredHeight(); err != nil",
     "msgServer.CreatePool: creator, err := sdk.AccAddressFromBech32(msg.Creator); err != nil",
     "msgServer.CreatePool: ctx.BlockHeight() > msg.StartHeight",
     "msgServer.CreatePool: maxRewardCategories := m.k.MaxRewardCategories(ctx); uint32( len(msg.TotalReward), ) > maxRewardCategories",
     "msgServer.CreatePool: err := m.k.ck.ValidatePool(ctx, msg.LptDenom); err != nil",
     "msgServer.CreatePool: pool, err := m.k.CreatePool( ctx, msg.Description, msg.LptDenom, msg.StartHeight, msg.RewardPerBlock.Sort(), msg.TotalReward.Sort(), msg.Editable, creator, ); err != nil",
     "msgServer.CreatePoolWithCommunityPool: proposer, err := sdk.AccAddressFromBech32(msg.Proposer); err != nil",
     "msgServer.CreatePoolWithCommunityPool: uint32(len(totalReward)) > maxRewardCategories",
     "msgServer.CreatePoolWithCommunityPool: err := m.k.ck.ValidatePool(ctx, msg.Content.LptDenom); err != nil",
     "msgServer.CreatePoolWithCommunityPool: err := m.k.bk.SendCoinsFromAccountToModule(ctx, proposer, types.EscrowCollector, msg.Content.FundSelfBond); err != nil",
     "msgServer.CreatePoolWithCommunityPool: err := m.k.escrowFromFeePool(ctx, msg.Content.FundApplied); err != nil",
     "msgServer.CreatePoolWithCommunityPool: data, err := codectypes.NewAnyWithValue(&msg.Content); err != nil",
     "msgServer.CreatePoolWithCommunityPool: proposal, err := m.k.gk.SubmitProposal( ctx, msgs, \"\", msg.Content.Title, msg.Content.Description, proposer, false, ); err != nil",
     "msgServer.CreatePoolWithCommunityPool: _, err = m.k.gk.AddDeposit(ctx, proposal.Id, proposer, msg.InitialDeposit); err != nil",
     "msgServer.DestroyPool: creator, err := sdk.AccAddressFromBech32(msg.Creator); err != nil",
     "msgServer.DestroyPool: refundCoin, err := m.k.DestroyPool(ctx, msg.PoolId, creator); err != nil",
     "msgServer.AdjustPool: creator, err := sdk.AccAddressFromBech32(msg.Creator); err != nil",
     "msgServer.AdjustPool: err = m.k.AdjustPool( ctx, msg.PoolId, msg.AdditionalReward, msg.RewardPerBlock, creator, ); err != nil",
     "msgServer.Stake: sender, err := sdk.AccAddressFromBech32(msg.Sender); err != nil",
     "msgServer.Stake: reward, err := m.k.Stake(ctx, msg.PoolId, msg.Amount, sender); err != nil",
     "msgServer.Unstake: sender, err := sdk.AccAddressFromBech32(msg.Sender); err != nil",
     "msgServer.Unstake: reward, err := m.k.Unstake(ctx, msg.PoolId, msg.Amount, sender); err != nil",
     "msgServer.Harvest: sender, err := sdk.AccAddressFromBech32(msg.Sender); err != nil",
     "msgServer.Harvest: reward, err := m.k.Harvest(ctx, msg.PoolId, sender); err != nil"] := rfl

/-- every statement of these functions executed for its effect — a call whose result is dropped (store and bank
writes, queue moves, hooks) or a write to a record field — with its nesting depth, in source order: a write that is
dropped, duplicated, reordered or moved into or out of a branch breaks this -/
theorem farm_effects_pinned : Irismod.Gen.PureFarm.effects =
    ["updatePool: d2 rules[i].RewardPerShare = rules[i].RewardPerShare.Add(newRewardPerShare)",
     "updatePool: d2 rules[i].RemainingReward = rules[i].RemainingReward.Sub(rewardCollected)",
     "updatePool: d2 k.SetRewardRule(ctx, pool.Id, rules[i])",
     "updatePool: d0 pool.TotalLptLocked = sdk.NewCoin( pool.TotalLptLocked.Denom, pool.TotalLptLocked.Amount.Add(amount), )",
     "updatePool: d0 pool.LastHeightDistrRewards = ctx.BlockHeight()",
     "updatePool: d1 pool.EndHeight = ctx.BlockHeight()",
     "updatePool: d2 pool.StartHeight = pool.EndHeight",
     "updatePool: d0 pool.Rules = rules",
     "updatePool: d0 k.SetPool(ctx, pool)",
     "AdjustPool: d0 pool.Rules = k.GetRewardRules(ctx, pool.Id)",
     "AdjustPool: d2 rules[i].TotalReward = rules[i].TotalReward.Add(reward.AmountOf(rules[i].Reward))",
     "AdjustPool: d2 rules[i].RemainingReward = rules[i].RemainingReward.Add(reward.AmountOf(rules[i].Reward))",
     "AdjustPool: d0 pool.Rules = rules.UpdateWith(rewardPerBlock)",
     "AdjustPool: d0 k.SetRewardRules(ctx, pool.Id, pool.Rules)",
     "AdjustPool: d0 k.DequeueActivePool(ctx, pool.Id, pool.EndHeight)",
     "AdjustPool: d0 pool.EndHeight = expiredHeight",
     "AdjustPool: d0 k.SetPool(ctx, pool)",
     "AdjustPool: d0 k.EnqueueActivePool(ctx, pool.Id, pool.EndHeight)",
     "EndBlocker: d0 k.IteratorExpiredPool(ctx, ctx.BlockHeight(), func(pool types.FarmPool) { logger.Info( \"The farm pool has expired, refund to creator\", \"poolId\", pool.Id, \"endHeight\", pool.EndHeight, \"lastHeightDistrRewards\", pool.LastHeightDistrRewards, \"totalLptLocked\", pool.TotalLptLocked, \"creator\", pool.Creator, ) if _, err := k.Refund(ctx, pool); err != nil { logger.Error(\"The farm pool refund failed\", \"poolId\", pool.Id, \"creator\", pool.Creator, \"errMsg\", err.Error(), ) } })",
     "EndBlocker: d1 logger.Info( \"The farm pool has expired, refund to creator\", \"poolId\", pool.Id, \"endHeight\", pool.EndHeight, \"lastHeightDistrRewards\", pool.LastHeightDistrRewards, \"totalLptLocked\", pool.TotalLptLocked, \"creator\", pool.Creator, )",
     "EndBlocker: d2 logger.Error(\"The farm pool refund failed\", \"poolId\", pool.Id, \"creator\", pool.Creator, \"errMsg\", err.Error(), )",
     "Keeper.Stake: d0 farmInfo.RewardDebt = rewardDebt",
     "Keeper.Stake: d0 farmInfo.Locked = farmInfo.Locked.Add(lpToken.Amount)",
     "Keeper.Stake: d0 k.SetFarmInfo(ctx, farmInfo)",
     "Keeper.Unstake: d1 pool.Rules = k.GetRewardRules(ctx, pool.Id)",
     "Keeper.Unstake: d1 pool.TotalLptLocked = pool.TotalLptLocked.Sub(lpToken)",
     "Keeper.Unstake: d1 k.SetPool(ctx, pool)",
     "Keeper.Unstake: d0 farmInfo.RewardDebt = rewardDebt",
     "Keeper.Unstake: d0 farmInfo.Locked = farmInfo.Locked.Sub(lpToken.Amount)",
     "Keeper.Unstake: d1 k.DeleteFarmInfo(ctx, poolId, sender.String())",
     "Keeper.Unstake: d0 k.SetFarmInfo(ctx, farmInfo)",
     "Keeper.Harvest: d0 farmInfo.RewardDebt = rewardDebt",
     "Keeper.Harvest: d0 k.SetFarmInfo(ctx, farmInfo)",
     "Keeper.Refund: d0 k.DequeueActivePool(ctx, pool.Id, pool.EndHeight)",
     "Keeper.Refund: d1 r.RemainingReward = math.ZeroInt()",
     "Keeper.Refund: d1 k.SetRewardRule(ctx, pool.Id, r)",
     "Keeper.createPool: d1 k.SetRewardRule(ctx, pool.Id, rewardRule)",
     "Keeper.createPool: d1 pool.Rules = append(pool.Rules, rewardRule)",
     "Keeper.createPool: d0 pool.EndHeight = endHeight",
     "Keeper.createPool: d0 k.SetPool(ctx, pool)",
     "Keeper.createPool: d0 k.EnqueueActivePool(ctx, pool.Id, pool.EndHeight)",
     "msgServer.CreatePoolWithCommunityPool: d0 m.k.SetEscrowInfo(ctx, types.EscrowInfo{ Proposer: msg.Proposer, FundApplied: msg.Content.FundApplied, FundSelfBond: msg.Content.FundSelfBond, ProposalId: proposal.Id, })"] := rfl

/-- block interval of a release: `height - last` (int64 subtraction does not wrap for heights of a chain) -/
theorem updatePool_blockInterval_eq (h last : Nat) (hl : last ≤ h) (hh : h < 9223372036854775808) :
    updatePool_blockInterval_1 h last = some ((h - last : Nat) : Int) := by
  unfold updatePool_blockInterval_1 I64_Sub I64_wrap
  congr 1
  have e : ((h : Int) - (last : Int) + 9223372036854775808).emod 18446744073709551616 =
      (h : Int) - (last : Int) + 9223372036854775808 := Int.emod_eq_of_lt (by omega) (by omega)
  rw [e]; omega

/-- the height guard and the per-rule budget guard of `updatePool` -/
theorem updatePool_guards (h last rem rc : Int) :
    updatePool_guard_1 h last = some (decide (h < last)) ∧ updatePool_guard_4 rem rc = some (decide (rem < rc)) :=
  ⟨rfl, rfl⟩

/-- what one iteration of the release loop stores for a rule: the new reward per share and the new remaining budget
(`none`: the iteration rejects or panics) — composed from the translated assignments in source order -/
def releaseIteration (rpb remaining : Int) (rps : Dec) (interval locked : Int) : Option (Dec × Int) :=
  updatePool_rewardCollected_1 rpb interval >>= fun rc =>
  updatePool_guard_4 remaining rc >>= fun short =>
  if short then none else
  updatePool_newRewardPerShare_1 rc ⟨"", locked⟩ >>= fun q =>
  updatePool_rules_i_RewardPerShare_1 rps q >>= fun rps' =>
  updatePool_rules_i_RemainingReward_1 remaining rc >>= fun rem' => some (rps', rem')

/-- **the release loop's arithmetic is the model's `collectRule`**, for every rule, interval and locked total within
the `sdkmath.Int` range (the model does not carry the 256-bit checks of `MulRaw` / `Sub` at this site: amounts of a
history stay far below them — an assumption of C05 / C06 recorded in their configuration) -/
theorem collectRule_eq_translation (interval locked : Nat) (r : Rule)
    (h1 : r.rpb * interval < pow2_256) (h2 : r.remaining < pow2_256) :
    releaseIteration r.rpb r.remaining r.rps interval locked =
      (match collectRule interval locked r with
       | .ok r' => some (r'.rps, (r'.remaining : Int))
       | .error _ => none) := by
  unfold releaseIteration updatePool_rewardCollected_1 updatePool_guard_4 updatePool_newRewardPerShare_1
    updatePool_rules_i_RewardPerShare_1 updatePool_rules_i_RemainingReward_1 collectRule
  simp only [Int_Mul_nat, h1, if_true, obind_some, Int_LT, LegacyNewDecFromInt, Dec_QuoInt, Dec_Add]
  have hcast : ((r.remaining : Int) < ((r.rpb * interval : Nat) : Int)) ↔ r.remaining < r.rpb * interval := Int.ofNat_lt
  simp only [hcast]
  by_cases hs : r.remaining < r.rpb * interval
  · simp only [hs, decide_true, if_true]
  · simp only [hs, decide_false, if_false, Bool.false_eq_true]
    cases hq : (Dec.ofInt ((r.rpb * interval : Nat) : Int)).quoInt (locked : Int) with
    | none => simp only [obind_none]
    | some q =>
      simp only [obind_some]
      cases ha : r.rps.add q with
      | none => simp only [obind_none]
      | some rps' =>
        have hle : r.rpb * interval ≤ r.remaining := Nat.le_of_not_lt hs
        have hlt : r.remaining - r.rpb * interval < pow2_256 := by omega
        simp only [obind_some, Int_Sub_nat _ _ hle, hlt, if_true]

/-- `floor(rps × locked)`: `RewardPerShare.MulInt(locked).TruncateInt()` of `CaclRewards` is the model's `shareOf` -/
theorem shareOf_eq_translation (rps : Dec) (locked : Int) :
    CaclRewards_pendingRewardTotal_1 rps locked = shareOf rps locked := by
  unfold CaclRewards_pendingRewardTotal_1 shareOf Dec_MulInt Dec_TruncateInt
  cases rps.mulInt locked with
  | none => simp only [obind_none]
  | some d => simp only [obind_some]; cases d.truncateInt <;> simp [obind_some, obind_none]

/-- pending reward = total share − recorded debt; new stake = stake + delta (both checked `sdkmath.Int` operations) -/
theorem CaclRewards_pending_and_locked (tot debt locked delta : Int) :
    CaclRewards_pendingReward_1 tot debt = I256.sub tot debt ∧ CaclRewards_locked_1 locked delta = I256.add locked delta := by
  unfold CaclRewards_pendingReward_1 CaclRewards_locked_1 Int_Sub Int_Add
  constructor
  · cases I256.sub tot debt <;> simp [obind_some, obind_none]
  · cases I256.add locked delta <;> simp [obind_some, obind_none]

/-- the new reward debt is `shareOf rps (locked + delta)` as a coin; `sdk.NewCoin` aborts on a negative amount (the
model's `debt < 0 → none`) -/
theorem CaclRewards_debt_eq (d : String) (rps : Dec) (locked : Int) (hd : ValidateDenom d = true) :
    CaclRewards_debt_1 d rps locked =
      (match shareOf rps locked with
       | none => none
       | some a => if a < 0 then none else some ⟨d, a⟩) := by
  unfold CaclRewards_debt_1 shareOf Dec_MulInt Dec_TruncateInt NewCoin
  cases rps.mulInt locked with
  | none => simp only [obind_none]
  | some x =>
    simp only [obind_some]
    cases x.truncateInt with
    | none => simp only [obind_none]
    | some a =>
      simp only [obind_some, hd, Bool.true_and]
      by_cases ha : a < 0
      · have : ¬ (0 ≤ a) := by omega
        simp [ha, this, obind_none]
      · have : 0 ≤ a := by omega
        simp [ha, this, obind_some]

/-! ### `AdjustPool` (keeper/pool.go): the end-height arithmetic, one loop iteration of the minimum, and the order of
the writes (the pinned list is in source order: the remaining-height computation reads the OLD reward per block because
`UpdateWith` / `SetRewardRules` come after it — seeds C05-6, C06-5 moved them) -/

private theorem wrapI (x : Int) (h : -9223372036854775808 ≤ x ∧ x < 9223372036854775808) : I64_wrap x = x := by
  unfold I64_wrap
  have e : (x + 9223372036854775808).emod 18446744073709551616 = x + 9223372036854775808 :=
    Int.emod_eq_of_lt (by omega) (by omega)
  rw [e]; omega

/-- the heights: remaining = end − start, new end = start + available, and the queue is moved from the old end height to
the new one (`adjustCore`), for heights of a chain (no int64 wrap; the wrap near 2^63 is outside the operation alphabet) -/
theorem AdjustPool_heights_eq_model (start endH avail : Int)
    (hs : 0 ≤ start ∧ start < 4611686018427387904) (he : 0 ≤ endH ∧ endH < 4611686018427387904)
    (ha : -1 ≤ avail ∧ avail < 4611686018427387904) :
    AdjustPool_remainingHeight_1 endH start = some (endH - start) ∧
    AdjustPool_expiredHeight_1 start avail = some (start + avail) ∧
    AdjustPool_cond_7 (start + avail) endH = some (decide (start + avail = endH)) ∧
    AdjustPool_call_DequeueActivePool_1_arg2 endH = some endH ∧
    AdjustPool_pool_EndHeight_1 (start + avail) = some (start + avail) ∧
    AdjustPool_call_EnqueueActivePool_1_arg2 (start + avail) = some (start + avail) := by
  refine ⟨?_, ?_, ?_, rfl, rfl, rfl⟩
  · unfold AdjustPool_remainingHeight_1 I64_Sub; rw [wrapI _ (by omega)]
  · unfold AdjustPool_expiredHeight_1 I64_Add; rw [wrapI _ (by omega)]
  · unfold AdjustPool_cond_7
    by_cases h : start + avail = endH <;> simp [h]

/-- one iteration of the minimum over the reward rules: `available / rewardPerBlock` as an int64 (a panic for a zero
rate or a quotient of 2^63 and more), taken when the running minimum is the sentinel −1 or larger — the body of the
model's `availableHeight` -/
theorem AdjustPool_interval_step_eq_model (avail rpb : Nat) (m : Int) (ha : avail < Irismod.Sdk.pow2_256) :
    AdjustPool_inteval_1 avail rpb =
      (if rpb = 0 then none else if avail / rpb ≥ 9223372036854775808 then none else some ((avail / rpb : Nat) : Int)) ∧
    AdjustPool_cond_6 m ((avail / rpb : Nat) : Int) = some (decide (m < 0 ∨ m > ((avail / rpb : Nat) : Int))) ∧
    AdjustPool_availableHeight_1 = some (-1) ∧
    AdjustPool_availableHeight_2 ((avail / rpb : Nat) : Int) = some ((avail / rpb : Nat) : Int) := by
  refine ⟨?_, ?_, rfl, rfl⟩
  · unfold AdjustPool_inteval_1
    simp only [Int_Quo_nat]
    by_cases h0 : rpb = 0
    · simp only [h0, if_true, obind_none]
    · simp only [h0, if_false, obind_some, Int_Int64]
      generalize avail / rpb = q
      by_cases hb : q ≥ 9223372036854775808
      · have : ¬ (-9223372036854775808 ≤ (q : Int) ∧ (q : Int) < 9223372036854775808) := by omega
        simp only [hb, this, if_true, if_false, obind_none]
      · have : (-9223372036854775808 ≤ (q : Int) ∧ (q : Int) < 9223372036854775808) := by omega
        simp only [hb, this, and_self, if_true, if_false, obind_some]
  · unfold AdjustPool_cond_6
    by_cases a : m < 0 <;> by_cases b : m > ((avail / rpb : Nat) : Int) <;> simp [a, b]

/-- a top-up adds the same amount to a rule's total and to its remaining budget (`adjustRules`) -/
theorem AdjustPool_topup_eq_model (total remaining add : Nat) (h1 : total + add < Irismod.Sdk.pow2_256)
    (h2 : remaining + add < Irismod.Sdk.pow2_256) :
    AdjustPool_rules_i_TotalReward_1 total add = some ((total + add : Nat) : Int) ∧
    AdjustPool_rules_i_RemainingReward_1 remaining add = some ((remaining + add : Nat) : Int) := by
  unfold AdjustPool_rules_i_TotalReward_1 AdjustPool_rules_i_RemainingReward_1
  simp only [Int_Add_nat, h1, h2, if_true, obind_some, and_self]

end Irismod.Props.Tie
