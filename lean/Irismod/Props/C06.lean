/-
C06 — Farm: rewards are conserved and paid pro rata to stake and time.
Headline theorems about the model `Irismod.Farm`, for every history.

* (a) per rule `total = remaining + released + refunded`, a rule is refunded at most once and
  a refunded rule belongs to an ended pool with nothing left (`conserved_run`,
  `refund_once_run`);
* (b) one `updatePool` releases exactly `rewardPerBlock × span` per rule iff the pool had stake
  over the span, else nothing (`release_exact`);
* (c) budget solvency `remaining ≥ rewardPerBlock × (end − max(last, start))` of every active
  pool (`budget_step`, `budget_run`) — the invariant the code violated before commit 966aea0;
* (d) fairness: each farmer's cumulative payout is within `n × (1 − 10⁻¹⁸)` base units of
  `Σ Δ rewardPerShare × stake` (`fair_run`; `n` = the farmer's number of interactions),
  per-step floor bound (`payout_step_bound`); the accumulator is the exact per-share release
  truncated at 18 decimals (`release_truncation`, over ℚ); and against the exact rational
  stake-time share: `paid − exact ≤ n`, `exact − paid ≤ n + slack·10⁻¹⁸` (`fairQ_run`).
-/
import Irismod.Proofs.FarmWitness
import Irismod.Proofs.FarmFairQ
import Irismod.Proofs.FarmCpGuards
import Mathlib.Algebra.Order.Field.Rat
import Mathlib.Tactic.FieldSimp

namespace Irismod.Props.C06
open Irismod Irismod.Sdk Irismod.Farm Irismod.Spec Irismod.Spec.C06 Irismod.Proofs.Farm

/-! ### (a) conservation, refund exactly once -/

theorem ghost_conserved {s : State} (h : GhostOK s) : Conserved s :=
  fun id p hp r hr => (h id p hp r hr).1

theorem ghost_refundOnce {s : State} (h : GhostOK s) : RefundOnce s :=
  fun id p hp r hr => (h id p hp r hr).2

/-- **C06(a)**: along every history, every reward rule satisfies
funded budget = remaining + released + refunded. -/
theorem conserved_run (s0 : State) (ops : List Op) (hg : C05.Genesis s0) (hh : 0 ≤ s0.height) :
    Conserved (run s0 ops) :=
  ghost_conserved (inv_run ops s0 (inv_genesis hg hh)).core.ghost

/-- **C06(a')**: … and is refunded at most once; a refunded rule has nothing left and its pool
has ended (left the queue, end height reached) — so no later operation can touch it:
`Refund` runs only from `DestroyPool` and the EndBlocker, both of which require the queue
entry that the refund removes. -/
theorem refund_once_run (s0 : State) (ops : List Op) (hg : C05.Genesis s0) (hh : 0 ≤ s0.height) :
    RefundOnce (run s0 ops) :=
  ghost_refundOnce (inv_run ops s0 (inv_genesis hg hh)).core.ghost

/-- the refund itself: an accepted destroy (or a due end-block refund) returns exactly the
remaining budget — the module account pays `Σ remaining` to the creator (for a community-pool
farm: to the distribution module account, and the fee pool's community pool is credited with the
same coins) and the rules are zeroed (`zeroRules` books `refunded += remaining`) -/
theorem refund_pays_remaining {s s' : State} {id : PoolId} {p : Pool} (h : refund s id p = (s', none)) :
    ∃ s1 p1 s2, updatePool (dequeue s id p.endH) id p 0 true = (s1, .ok p1) ∧
      sendAll (zeroed s1 id p1) farmAcc p1.creator (refundCoins p1.rules) = .ok s2 ∧
      s' = creditIf (p1.creator == distrAcc) s2 (refundCoins p1.rules) ∧
      ∀ d, sumOf (refundCoins p1.rules) d = C05.remainingIn d p1.rules := by
  rcases refund_cases s id p with ⟨s1, e, _, hr⟩ | ⟨s1, p1, hu, hr⟩
  · rw [hr] at h; cases h
  · rcases hr with ⟨_, hr⟩ | ⟨_, e, _, hr⟩ | ⟨_, s2, hs, hr⟩
    · rw [hr] at h; cases h
    · rw [hr] at h; cases h
    · rw [hr] at h
      simp only [Prod.mk.injEq, and_true] at h
      subst h
      exact ⟨s1, p1, s2, hu, hs, rfl, fun d => sumOf_refundCoins _ d⟩

/-- **refund to the community pool**: when the creator is the distribution module account (a farm
created from the community pool), an accepted refund moves exactly the remaining budget from the
farm module account to the distribution module account and credits the fee pool's community pool
with the same coins — nothing goes to any user account. -/
theorem refund_community_pool {s s' : State} {id : PoolId} {p : Pool} (h : refund s id p = (s', none))
    (hc : p.creator = distrAcc) :
    ∃ s1 p1, updatePool (dequeue s id p.endH) id p 0 true = (s1, .ok p1) ∧
      (∀ d, s'.bank.balOf distrAcc d = s.bank.balOf distrAcc d + C05.remainingIn d p1.rules) ∧
      (∀ d, C05.cpoolOf s' d = C05.cpoolOf s d + C05.remainingIn d p1.rules * decUnit) ∧
      (∀ d, s'.bank.balOf farmAcc d + C05.remainingIn d p1.rules = s1.bank.balOf farmAcc d) ∧
      (∀ a d, a ≠ farmAcc → a ≠ collectorAcc → a ≠ distrAcc → s'.bank.balOf a d = s.bank.balOf a d) := by
  obtain ⟨s1, p1, s2, hu, hs, rfl, hsum⟩ := refund_pays_remaining h
  have ok := updatePool_ok hu
  have hcre : p1.creator = distrAcc := by rw [(updOk_fields ok).1]; exact hc
  rw [hcre] at hs ⊢
  have hfd : farmAcc ≠ distrAcc := by decide
  obtain ⟨x1, x2, x3⟩ := sendCoins_deltas _ _ _ _ _ hfd (sendAll_ok hs).2
  have b := (sendAll_ok hs).1
  refine ⟨s1, p1, hu, ?_, ?_, ?_, ?_⟩
  · intro d
    show s2.bank.balOf distrAcc d = _
    rw [x2 d, hsum d]
    show s1.bank.balOf distrAcc d + _ = _
    rw [ok.others distrAcc d (by decide) (by decide)]; rfl
  · intro d
    unfold C05.cpoolOf
    show cpGet (if (distrAcc == distrAcc) = true then cpAddCoins s2.cp.pool (refundCoins p1.rules) else s2.cp.pool) d = _
    simp only [beq_self_eq_true, if_true]
    rw [cpGet_addCoins, hsum d, b.cp]
    show cpGet s1.cp.pool d + _ = _
    rw [ok.cp]; rfl
  · intro d
    show s2.bank.balOf farmAcc d + _ = _
    have := x1 d
    rw [hsum d] at this
    exact this
  · intro a d h1 h2 h3
    show s2.bank.balOf a d = _
    rw [x3 a d h1 h3]
    show s1.bank.balOf a d = _
    rw [ok.others a d h1 h2]; rfl

/-! ### (a'') community-pool farms: each escrow is settled exactly once -/

/-- **every tally ends in one of three ways, never half-way**: in every state of the bundles
gov's EndBlocker on a proposal in its voting period does not abort, the proposal's escrow info is
there, and the block ends with the handler executed and the info deleted, or with the escrow
refunded (handler failed, or tally rejected). -/
theorem cp_tally_cases (s : State) (pid : Nat) (pr : Proposal) (passes : Bool) (hi : Inv s) (hc : CpInv s)
    (hp : AMap.get? s.cp.props pid = some pr) (hv : pr.status = .voting) :
    ∃ e s1, AMap.get? s.cp.escrow pid = some e ∧ refundDeposit s pr = .ok s1 ∧
      (govVote s pid passes).2 = false ∧ TallyEnd s pid pr e passes s1 (govVote s pid passes).1 := by
  obtain ⟨e, s1, he, h1, hna, hend⟩ := govTally_cases passes hc hi.cpu hp (alive_of_voting hv)
  have : govVote s pid passes = govTally s pid pr passes := by
    unfold govVote; rw [hp]; simp only; rw [if_pos hv]
  rw [this]
  exact ⟨e, s1, he, h1, hna, hend⟩

/-- **pass → pool budget** (see `Proofs.Farm.tally_executed`): exactly the escrowed funds become
the budget of the new pool; escrow collector −, farm module account +, distribution account and
community pool untouched; the info is deleted. -/
theorem cp_pass_funds_pool {s s1 s2 : State} {pid : Nat} {pr : Proposal} {e : Escrow} (hi : Inv s) (hc : CpInv s)
    (hp : AMap.get? s.cp.props pid = some pr) (he : AMap.get? s.cp.escrow pid = some e)
    (h1 : refundDeposit s pr = .ok s1) (hh : cpHandler s1 pr.content = .ok s2) :
    let s' := delEscrow (setProp s2 pid { pr with status := .passed, deposit := 0 }) pid
    AMap.get? s'.cp.escrow pid = none ∧
    (∃ pr', AMap.get? s'.cp.props pid = some pr' ∧ pr'.status = .passed) ∧
    (∃ p, getPool s' (poolIdOf (s.seq + 1)) = some p ∧ p.creator = distrAcc ∧ p.editable = false ∧ p.start = s.height ∧
      ∀ d, C05.remainingIn d p.rules = C05.escrowHolds d e) ∧
    (∀ d, s'.bank.balOf escrowAcc d + C05.escrowHolds d e = s.bank.balOf escrowAcc d) ∧
    (∀ d, s'.bank.balOf farmAcc d = s.bank.balOf farmAcc d + C05.escrowHolds d e) ∧
    (∀ d, s'.bank.balOf distrAcc d = s.bank.balOf distrAcc d) ∧ (∀ d, C05.cpoolOf s' d = C05.cpoolOf s d) :=
  tally_executed hc hi.cpu hp he h1 hh

/-- **reject / failed handler → back to proposer and community pool** (see
`Proofs.Farm.tally_refunded`). -/
theorem cp_refunded {s s1 : State} {pid : Nat} {pr : Proposal} {e : Escrow} (st : PStatus) (hi : Inv s) (hc : CpInv s)
    (hp : AMap.get? s.cp.props pid = some pr) (he : AMap.get? s.cp.escrow pid = some e)
    (h1 : refundDeposit s pr = .ok s1) :
    let s' := refundEscrow (setProp s1 pid { pr with status := st, deposit := 0 }) pid e
    AMap.get? s'.cp.escrow pid = none ∧
    (∃ pr', AMap.get? s'.cp.props pid = some pr' ∧ pr'.status = st) ∧
    (∀ d, s'.bank.balOf escrowAcc d + C05.escrowHolds d e = s.bank.balOf escrowAcc d) ∧
    (∀ d, s'.bank.balOf e.proposer d = s.bank.balOf e.proposer d + sumOf e.selfBond d + (if d = depositDenom then pr.deposit else 0)) ∧
    (∀ d, s'.bank.balOf distrAcc d = s.bank.balOf distrAcc d + sumOf e.applied d) ∧
    (∀ d, C05.cpoolOf s' d = C05.cpoolOf s d + sumOf e.applied d * decUnit) ∧
    (∀ d, s'.bank.balOf farmAcc d = s.bank.balOf farmAcc d) ∧ s'.pools = s.pools :=
  tally_refunded st hc hi.cpu hp he h1

/-- **failed minimum deposit → back to proposer and community pool**. -/
theorem cp_fail_deposit_refunded {s : State} {pid : Nat} {pr : Proposal} (hi : Inv s) (hc : CpInv s)
    (hp : AMap.get? s.cp.props pid = some pr) (hd : pr.status = .deposit) :
    ∃ e, AMap.get? s.cp.escrow pid = some e ∧
    let s' := (govFailDeposit s pid).1
    AMap.get? s'.cp.escrow pid = none ∧ AMap.get? s'.cp.props pid = none ∧
    (∀ d, s'.bank.balOf escrowAcc d + C05.escrowHolds d e = s.bank.balOf escrowAcc d) ∧
    (∀ d, s'.bank.balOf e.proposer d = s.bank.balOf e.proposer d + sumOf e.selfBond d + (if d = depositDenom then pr.deposit else 0)) ∧
    (∀ d, s'.bank.balOf distrAcc d = s.bank.balOf distrAcc d + sumOf e.applied d) ∧
    (∀ d, C05.cpoolOf s' d = C05.cpoolOf s d + sumOf e.applied d * decUnit) :=
  failDeposit_refunded hc hi.cpu hp hd

/-- **exactly once**: for a proposal gov has finished with (or never had) every further pass /
reject / failed-deposit processing leaves the state as it is — the same proposal passed or
rejected twice, a reject after a pass, … settle nothing a second time. -/
theorem cp_settled_once {s : State} (pid : Nat) (hc : CpInv s)
    (h : ∀ pr, AMap.get? s.cp.props pid = some pr → C05.alive pr = false) :
    apply s (.cpPass pid) = s ∧ apply s (.cpReject pid) = s ∧ apply s (.cpFailDeposit pid) = s := by
  obtain ⟨h1, h2⟩ := settled_once pid hc h
  exact ⟨h1 true, h1 false, h2⟩

/-- **the swallowed errors of `refundEscrow` never occur**: in every state of the bundles the
refund of an escrow info on record runs to completion — it cannot stop after the self-bond leg
with the info still in place (which a second hook call would refund again). -/
theorem refund_escrow_never_partial {s : State} {pid : Nat} {e : Escrow} (hi : Inv s) (hc : CpInv s)
    (he : AMap.get? s.cp.escrow pid = some e) :
    AMap.get? (refundEscrow s pid e).cp.escrow pid = none ∧
    ∀ d, (refundEscrow s pid e).bank.balOf escrowAcc d + C05.escrowHolds d e = s.bank.balOf escrowAcc d := by
  have r := refundEscrow_done (pid := pid) (hi.cpu.1 pid e he) (fun d => holds_le_escrow hc he d)
  exact ⟨by rw [r.esc]; exact get?_erase_self _ _, r.escrow⟩

/-- **the model's handler guards are vacuous**: for a content that passed `ValidateBasic` the three
guards of the model's `cpHandler` do not fire (the merged total of two coin lists sorted by denom
is sorted by denom and, by the length check of `ValidateFund`, not empty) — the handler of the
model fails exactly where the Go handler does. -/
theorem cp_handler_guards_never_fire (c : Content) (hd : c.desc.utf8ByteSize ≤ 280) (hs : sortedCoins c.applied = true)
    (hne : c.applied ≠ []) (hlen : c.applied.length + c.selfBond.length = (totalOf c).length) :
    ¬ (c.desc.utf8ByteSize > 280) ∧ totalOf c ≠ [] ∧ sortedCoins (totalOf c) = true :=
  cpHandler_guards_never_fire c hd hs hne hlen

/-! ### (b) release = per block × span iff someone is staked -/

/-- **C06(b)**: a successful `updatePool` releases, for every rule, exactly
`rewardPerBlock × (height − last)` when the pool had stake and time has passed, and nothing
otherwise; what is released leaves the remaining budget and arrives at the reward collector. -/
theorem release_exact {s s' : State} {id : PoolId} {p p' : Pool} {amount : Int} {b : Bool}
    (h : updatePool s id p amount b = (s', .ok p')) :
    (∀ r' ∈ p'.rules, ∃ r ∈ p.rules, r'.denom = r.denom ∧
      r'.released = r.released + (if s.height > p.last ∧ p.locked > 0 then r.rpb * (s.height - p.last).toNat else 0) ∧
      r'.remaining + (if s.height > p.last ∧ p.locked > 0 then r.rpb * (s.height - p.last).toNat else 0) = r.remaining) ∧
    (∀ d, s'.bank.balOf collectorAcc d + C05.remainingIn d p'.rules = s.bank.balOf collectorAcc d + C05.remainingIn d p.rules) := by
  have ok := updatePool_ok h
  refine ⟨?_, ?_⟩
  · intro r' hr'
    rcases ok.rules with e | ⟨hi, hL, f2⟩
    · have hno : ¬ (s.height > p.last ∧ p.locked > 0) := ok.relIff.mp e
      rw [e] at hr'
      exact ⟨r', hr', rfl, by simp only [hno, if_false]; omega, by simp only [hno, if_false]; omega⟩
    · have hrel : s.height > p.last ∧ p.locked > 0 := ⟨by omega, hL⟩
      obtain ⟨r, hr, hst⟩ := all2_mem f2 r' hr'
      obtain ⟨hden, _, _, hrem, hrl, _⟩ := stepped_facts hst
      exact ⟨r, hr, hden, by simp only [hrel, and_self, if_true]; exact hrl, by simp only [hrel, and_self, if_true]; exact hrem⟩
  · intro d
    have := ok.coll d
    have := ok.remLe d
    omega

/-! ### (c) budget solvency -/

/-- **C06(c)**, one step: every operation keeps every active pool's remaining budget above what
the rest of its schedule costs. -/
theorem budget_step (s : State) (op : Op) (hi : Inv s) : BudgetOK (apply s op) :=
  (inv_apply s op hi).core.budget

/-- **C06(c)**, all histories. -/
theorem budget_run (s0 : State) (ops : List Op) (hg : C05.Genesis s0) (hh : 0 ≤ s0.height) :
    BudgetOK (run s0 ops) :=
  (inv_run ops s0 (inv_genesis hg hh)).core.budget

/-! ### (d) fairness -/

/-- **C06(d)**, per step: the floor arithmetic of one payout. With `U = 10¹⁸`, a payout
`⌊rps·L/U⌋ − ⌊mark·L/U⌋` differs from the exact accumulator share `(rps − mark)·L/U` by less
than one base unit (by at most `(U−1)/U`). -/
theorem payout_step_bound (rps mark : Int) (L : Nat) :
    (((rps * (L : Int)) / precision - (mark * (L : Int)) / precision) * (unit : Int) - (rps - mark) * (L : Int)).natAbs
      ≤ unit - 1 := payout_bound rps mark L

/-- **C06(d)**, telescoped over every history: for every farmer,
pool and reward denom, `|paid × 10¹⁸ − Σ Δ rewardPerShare.raw × stake| ≤ n × (10¹⁸ − 1)` where
`n` is the farmer's number of interactions — the cumulative payout is within `n` base units
(strictly less) of the farmer's accumulator share, however the interactions are interleaved
with other farmers' and however often anyone harvests. -/
theorem fair_run (s0 : State) (ops : List Op) (hg : C05.Genesis s0) (hh : 0 ≤ s0.height) :
    Fair (run s0 ops) :=
  (ledgerInv_run ops s0 (inv_genesis hg hh) (ledgerInv_genesis hg)).fair

/-- **C06(d)**, against the exact rational stake-time share, over ℚ and every history: with `exact = Σ_k released_k × stake_k / totalStake_k` (the untruncated
share accrued up to the farmer's last interaction), `n` the farmer's number of interactions
and `slack = Σ stake × (releases in the interval)`,
`paid − exact ≤ n` and `exact − paid ≤ n + slack × 10⁻¹⁸`. -/
theorem fairQ_run (s0 : State) (ops : List Op) (hg : C05.Genesis s0) (hh : 0 ≤ s0.height) :
    ∀ k, LedgerFairQ (AMap.getD (run s0 ops).ledger k {}) := by
  intro k
  have hi := inv_genesis hg hh
  exact fairQ_of ((ledgerInv_run ops s0 hi (ledgerInv_genesis hg)).fair k)
    ((qInv_run ops s0 hi (qInv_genesis hg)).x k)

/-- harvest-frequency independence as a corollary of `fair_run`: two histories in which a
farmer's accumulator share is the same (`owed`) pay him amounts that differ by less than the
total number of his interactions in the two histories. -/
theorem harvest_independence (l1 l2 : Ledger) (h1 : LedgerFair l1) (h2 : LedgerFair l2) (ho : l1.owed = l2.owed) :
    ((l1.paid : Int) * unit - (l2.paid : Int) * unit).natAbs ≤ (l1.n + l2.n) * (unit - 1) := by
  unfold LedgerFair at h1 h2
  rw [ho] at h1
  have : (l1.n + l2.n) * (unit - 1) = l1.n * (unit - 1) + l2.n * (unit - 1) := Nat.add_mul _ _ _
  omega

/-- **C06(d)**, the accumulator is exact up to the 18-decimal truncation, over ℚ: one release
of `c = rewardPerBlock × span` base units over a total stake `T > 0` adds exactly
`⌊c·10¹⁸/T⌋` to `rewardPerShare.raw` — per staked unit between `c/T − 10⁻¹⁸` (exclusive)
and `c/T`. -/
theorem release_truncation {i L : Nat} {r r' : Rule} (h : Stepped i L r r') :
    ((r'.rps.raw - r.rps.raw : Int) : ℚ) ≤ ((r.rpb * i : Nat) : ℚ) * (unit : ℚ) / (L : ℚ) ∧
    ((r.rpb * i : Nat) : ℚ) * (unit : ℚ) / (L : ℚ) < ((r'.rps.raw - r.rps.raw : Int) : ℚ) + 1 := by
  obtain ⟨_, _, _, _, _, _, _, _, _, hL, hraw⟩ := stepped_facts h
  have hLpos : (0 : ℚ) < (L : ℚ) := by exact_mod_cast Nat.pos_of_ne_zero hL
  -- the increment is the natural-number quotient
  have hq : r'.rps.raw - r.rps.raw = (((r.rpb * i * unit) / L : Nat) : Int) := by
    rw [hraw]
    have : (((r.rpb * i : Nat) : Int) * precision).tdiv (L : Int) = (((r.rpb * i * unit) / L : Nat) : Int) := by
      rw [Int.tdiv_eq_ediv_of_nonneg (by unfold precision; positivity)]
      unfold precision unit
      push_cast
      rfl
    omega
  rw [hq]
  have h1 : (r.rpb * i * unit) / L * L ≤ r.rpb * i * unit := Nat.div_mul_le_self _ _
  have h2 : r.rpb * i * unit < L * ((r.rpb * i * unit) / L + 1) := Nat.lt_mul_div_succ _ (Nat.pos_of_ne_zero hL)
  generalize (r.rpb * i * unit) / L = q at h1 h2 ⊢
  generalize r.rpb * i = c at h1 h2 ⊢
  rw [Int.cast_natCast]
  constructor
  · rw [le_div_iff₀ hLpos]
    exact_mod_cast h1
  · rw [div_lt_iff₀ hLpos]
    have : ((c * unit : Nat) : ℚ) < ((L * (q + 1) : Nat) : ℚ) := by exact_mod_cast h2
    push_cast at this
    linarith

end Irismod.Props.C06
