/-
C06 — Farm: rewards are conserved and paid pro rata to stake and time.
Headline theorems about the model `Irismod.Farm`, for every history.

* (a) per rule `total = remaining + released + refunded`, a rule is refunded at most once and
  a refunded rule belongs to an ended pool with nothing left (`conserved_run`,
  `refund_once_run`);
* (b) one `updatePool` releases exactly `rewardPerBlock × span` per rule iff the pool had stake
  over the span, else nothing (`release_exact`);
* (c) budget solvency `remaining ≥ rewardPerBlock × (end − max(last, start))` of every active
  pool (`budget_step`, `budget_run`) — the invariant the code violated before commit 966aea0;
* (d) fairness: each farmer's cumulative payout is within `n × (1 − 10⁻¹⁸)` base units of
  `Σ Δ rewardPerShare × stake` (`fair_run`; `n` = the farmer's number of interactions),
  per-step floor bound (`payout_step_bound`); the accumulator is the exact per-share release
  truncated at 18 decimals (`release_truncation`, over ℚ); and against the exact rational
  stake-time share: `paid − exact ≤ n`, `exact − paid ≤ n + slack·10⁻¹⁸` (`fairQ_run`).
-/
import Irismod.Proofs.FarmWitness
import Irismod.Proofs.FarmFairQ
import Mathlib.Algebra.Order.Field.Rat
import Mathlib.Tactic.FieldSimp

namespace Irismod.Props.C06
open Irismod Irismod.Sdk Irismod.Farm Irismod.Spec Irismod.Spec.C06 Irismod.Proofs.Farm

/-! ### (a) conservation, refund exactly once -/

theorem ghost_conserved {s : State} (h : GhostOK s) : Conserved s :=
  fun id p hp r hr => (h id p hp r hr).1

theorem ghost_refundOnce {s : State} (h : GhostOK s) : RefundOnce s :=
  fun id p hp r hr => (h id p hp r hr).2

/-- **C06(a)**: along every history, every reward rule satisfies
funded budget = remaining + released + refunded. -/
theorem conserved_run (s0 : State) (ops : List Op) (hg : C05.Genesis s0) (hh : 0 ≤ s0.height) :
    Conserved (run s0 ops) :=
  ghost_conserved (inv_run ops s0 (inv_genesis hg hh)).core.ghost

/-- **C06(a')**: … and is refunded at most once; a refunded rule has nothing left and its pool
has ended (left the queue, end height reached) — so no later operation can touch it:
`Refund` runs only from `DestroyPool` and the EndBlocker, both of which require the queue
entry that the refund removes. -/
theorem refund_once_run (s0 : State) (ops : List Op) (hg : C05.Genesis s0) (hh : 0 ≤ s0.height) :
    RefundOnce (run s0 ops) :=
  ghost_refundOnce (inv_run ops s0 (inv_genesis hg hh)).core.ghost

/-- the refund itself: an accepted destroy (or a due end-block refund) returns exactly the
remaining budget — the module account pays `Σ remaining` to the creator and the rules are
zeroed (`zeroRules` books `refunded += remaining`) -/
theorem refund_pays_remaining {s s' : State} {id : PoolId} {p : Pool} (h : refund s id p = (s', none)) :
    ∃ s1 p1, updatePool (dequeue s id p.endH) id p 0 true = (s1, .ok p1) ∧
      sendAll (zeroed s1 id p1) farmAcc p1.creator (refundCoins p1.rules) = .ok s' ∧
      ∀ d, sumOf (refundCoins p1.rules) d = C05.remainingIn d p1.rules := by
  rcases refund_cases s id p with ⟨s1, e, _, hr⟩ | ⟨s1, p1, hu, hr⟩
  · rw [hr] at h; cases h
  · rcases hr with ⟨_, hr⟩ | ⟨_, e, _, hr⟩ | ⟨_, s2, hs, hr⟩
    · rw [hr] at h; cases h
    · rw [hr] at h; cases h
    · rw [hr] at h
      simp only [Prod.mk.injEq, and_true] at h
      subst h
      exact ⟨s1, p1, hu, hs, fun d => sumOf_refundCoins _ d⟩

/-! ### (b) release = per block × span iff someone is staked -/

/-- **C06(b)**: a successful `updatePool` releases, for every rule, exactly
`rewardPerBlock × (height − last)` when the pool had stake and time has passed, and nothing
otherwise; what is released leaves the remaining budget and arrives at the reward collector. -/
theorem release_exact {s s' : State} {id : PoolId} {p p' : Pool} {amount : Int} {b : Bool}
    (h : updatePool s id p amount b = (s', .ok p')) :
    (∀ r' ∈ p'.rules, ∃ r ∈ p.rules, r'.denom = r.denom ∧
      r'.released = r.released + (if s.height > p.last ∧ p.locked > 0 then r.rpb * (s.height - p.last).toNat else 0) ∧
      r'.remaining + (if s.height > p.last ∧ p.locked > 0 then r.rpb * (s.height - p.last).toNat else 0) = r.remaining) ∧
    (∀ d, s'.bank.balOf collectorAcc d + C05.remainingIn d p'.rules = s.bank.balOf collectorAcc d + C05.remainingIn d p.rules) := by
  have ok := updatePool_ok h
  refine ⟨?_, ?_⟩
  · intro r' hr'
    rcases ok.rules with e | ⟨hi, hL, f2⟩
    · have hno : ¬ (s.height > p.last ∧ p.locked > 0) := ok.relIff.mp e
      rw [e] at hr'
      exact ⟨r', hr', rfl, by simp only [hno, if_false]; omega, by simp only [hno, if_false]; omega⟩
    · have hrel : s.height > p.last ∧ p.locked > 0 := ⟨by omega, hL⟩
      obtain ⟨r, hr, hst⟩ := all2_mem f2 r' hr'
      obtain ⟨hden, _, _, hrem, hrl, _⟩ := stepped_facts hst
      exact ⟨r, hr, hden, by simp only [hrel, and_self, if_true]; exact hrl, by simp only [hrel, and_self, if_true]; exact hrem⟩
  · intro d
    have := ok.coll d
    have := ok.remLe d
    omega

/-! ### (c) budget solvency -/

/-- **C06(c)**, one step: every operation keeps every active pool's remaining budget above what
the rest of its schedule costs. -/
theorem budget_step (s : State) (op : Op) (hi : Inv s) : BudgetOK (apply s op) :=
  (inv_apply s op hi).core.budget

/-- **C06(c)**, all histories. -/
theorem budget_run (s0 : State) (ops : List Op) (hg : C05.Genesis s0) (hh : 0 ≤ s0.height) :
    BudgetOK (run s0 ops) :=
  (inv_run ops s0 (inv_genesis hg hh)).core.budget

/-! ### (d) fairness -/

/-- **C06(d)**, per step: the floor arithmetic of one payout. With `U = 10¹⁸`, a payout
`⌊rps·L/U⌋ − ⌊mark·L/U⌋` differs from the exact accumulator share `(rps − mark)·L/U` by less
than one base unit (by at most `(U−1)/U`). -/
theorem payout_step_bound (rps mark : Int) (L : Nat) :
    (((rps * (L : Int)) / precision - (mark * (L : Int)) / precision) * (unit : Int) - (rps - mark) * (L : Int)).natAbs
      ≤ unit - 1 := payout_bound rps mark L

/-- **C06(d)**, telescoped over every history: for every farmer,
pool and reward denom, `|paid × 10¹⁸ − Σ Δ rewardPerShare.raw × stake| ≤ n × (10¹⁸ − 1)` where
`n` is the farmer's number of interactions — the cumulative payout is within `n` base units
(strictly less) of the farmer's accumulator share, however the interactions are interleaved
with other farmers' and however often anyone harvests. -/
theorem fair_run (s0 : State) (ops : List Op) (hg : C05.Genesis s0) (hh : 0 ≤ s0.height) :
    Fair (run s0 ops) :=
  (ledgerInv_run ops s0 (inv_genesis hg hh) (ledgerInv_genesis hg)).fair

/-- **C06(d)**, against the exact rational stake-time share, over ℚ and every history: with `exact = Σ_k released_k × stake_k / totalStake_k` (the untruncated
share accrued up to the farmer's last interaction), `n` the farmer's number of interactions
and `slack = Σ stake × (releases in the interval)`,
`paid − exact ≤ n` and `exact − paid ≤ n + slack × 10⁻¹⁸`. -/
theorem fairQ_run (s0 : State) (ops : List Op) (hg : C05.Genesis s0) (hh : 0 ≤ s0.height) :
    ∀ k, LedgerFairQ (AMap.getD (run s0 ops).ledger k {}) := by
  intro k
  have hi := inv_genesis hg hh
  exact fairQ_of ((ledgerInv_run ops s0 hi (ledgerInv_genesis hg)).fair k)
    ((qInv_run ops s0 hi (qInv_genesis hg)).x k)

/-- harvest-frequency independence as a corollary of `fair_run`: two histories in which a
farmer's accumulator share is the same (`owed`) pay him amounts that differ by less than the
total number of his interactions in the two histories. -/
theorem harvest_independence (l1 l2 : Ledger) (h1 : LedgerFair l1) (h2 : LedgerFair l2) (ho : l1.owed = l2.owed) :
    ((l1.paid : Int) * unit - (l2.paid : Int) * unit).natAbs ≤ (l1.n + l2.n) * (unit - 1) := by
  unfold LedgerFair at h1 h2
  rw [ho] at h1
  have : (l1.n + l2.n) * (unit - 1) = l1.n * (unit - 1) + l2.n * (unit - 1) := Nat.add_mul _ _ _
  omega

/-- **C06(d)**, the accumulator is exact up to the 18-decimal truncation, over ℚ: one release
of `c = rewardPerBlock × span` base units over a total stake `T > 0` adds exactly
`⌊c·10¹⁸/T⌋` to `rewardPerShare.raw` — per staked unit between `c/T − 10⁻¹⁸` (exclusive)
and `c/T`. -/
theorem release_truncation {i L : Nat} {r r' : Rule} (h : Stepped i L r r') :
    ((r'.rps.raw - r.rps.raw : Int) : ℚ) ≤ ((r.rpb * i : Nat) : ℚ) * (unit : ℚ) / (L : ℚ) ∧
    ((r.rpb * i : Nat) : ℚ) * (unit : ℚ) / (L : ℚ) < ((r'.rps.raw - r.rps.raw : Int) : ℚ) + 1 := by
  obtain ⟨_, _, _, _, _, _, _, _, _, hL, hraw⟩ := stepped_facts h
  have hLpos : (0 : ℚ) < (L : ℚ) := by exact_mod_cast Nat.pos_of_ne_zero hL
  -- the increment is the natural-number quotient
  have hq : r'.rps.raw - r.rps.raw = (((r.rpb * i * unit) / L : Nat) : Int) := by
    rw [hraw]
    have : (((r.rpb * i : Nat) : Int) * precision).tdiv (L : Int) = (((r.rpb * i * unit) / L : Nat) : Int) := by
      rw [Int.tdiv_eq_ediv_of_nonneg (by unfold precision; positivity)]
      unfold precision unit
      push_cast
      rfl
    omega
  rw [hq]
  have h1 : (r.rpb * i * unit) / L * L ≤ r.rpb * i * unit := Nat.div_mul_le_self _ _
  have h2 : r.rpb * i * unit < L * ((r.rpb * i * unit) / L + 1) := Nat.lt_mul_div_succ _ (Nat.pos_of_ne_zero hL)
  generalize (r.rpb * i * unit) / L = q at h1 h2 ⊢
  generalize r.rpb * i = c at h1 h2 ⊢
  rw [Int.cast_natCast]
  constructor
  · rw [le_div_iff₀ hLpos]
    exact_mod_cast h1
  · rw [div_lt_iff₀ hLpos]
    have : ((c * unit : Nat) : ℚ) < ((L * (q + 1) : Nat) : ℚ) := by exact_mod_cast h2
    push_cast at this
    linarith

end Irismod.Props.C06
