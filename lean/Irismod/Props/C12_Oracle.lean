/-
C12 (oracle slice) — the exported oracle state re-imports and preserves what users rely on,
EXCEPT the value history beyond one value (finding F-gen-2).

Headline theorems about `Irismod.OracleGen` (the literal ExportGenesis / ValidateGenesis /
InitGenesis of modules/oracle, Model/OracleGenesis.lean) on top of the oracle state machine of C17:

* the genesis invariant `GInv` = the C17 bundle `Inv` (index mirrors the contexts, feeds and
  contexts created together, histories bounded) + `FeedsOk` (every stored feed passes the five
  validators of `ValidateGenesis`: it went through `MsgCreateFeed` / `MsgEditFeed` `ValidateBasic`)
  holds initially and is preserved by every operation, hence by every history (`oracle_ginv_run`);
* for every such state and ANY batch counters of the request contexts: the exported document passes
  `ValidateGenesis` (`oracle_export_validates`); `InitGenesis` of it on the emptied oracle store
  succeeds (`oracle_import_succeeds`); afterwards every feed (description, aggregate, path, latest
  history, creator) and every request-context binding is what it was (`oracle_feeds_preserved`),
  the running / paused index is rebuilt from the contexts' states (`oracle_index_rebuilt`) — equal
  to the old index for every feed whose context is running or paused (`oracle_index_preserved`), a
  `completed` context lands in the paused index (`oracle_completed_lands_paused`);
* the values: after the round trip a feed shows exactly the OLDEST of its values, or none
  (`oracle_values_collapse`), stored under the context's CURRENT batch counter
  (`oracle_values_key`); so a feed with at most one value is preserved exactly
  (`oracle_short_history_preserved`) and a state whose feeds all hold at most one value is preserved
  in every observation (`oracle_roundtrip_partial`);
* the re-imported state satisfies `GInv` again (`oracle_inv_roundTrip`: every C17 theorem applies
  after a restart from genesis) and one round is enough: the second export is the first, the views
  and stored entries are equal (`oracle_export_fixpoint`);
* the FULL statement (the views are preserved) is false on the code: negation by a reachable witness
  in the full model (`oracle_roundtrip_fails_full`: create, start, two completed batches); the
  negation in the mini model stays in `Props.C12.oracle_roundtrip_fails`.

Abstract: `creatorOk` (the bech32 check of the creator, enforced when the feed was created —
hypothesis `OpOk` on the history) and `batchOf` (the batch counters of the service module).
-/
import Irismod.Proofs.OracleGenesis
import Irismod.Spec.C12_Oracle

namespace Irismod.Props.C12.Oracle
open Irismod Irismod.Oracle Irismod.OracleGen Irismod.Spec.C17 Irismod.Proofs.Oracle Irismod.Proofs.OracleGen

/-- the invariant the genesis theorems need: the C17 bundle and the validity of stored feeds -/
def GInv (creatorOk : Addr → Bool) (s : State) : Prop := Props.C17.Inv s ∧ FeedsOk creatorOk s

/-! ### every reachable state satisfies the invariant -/

theorem oracle_ginv_init (creatorOk : Addr → Bool) (t : Nat) : GInv creatorOk { now := t } :=
  ⟨Props.C17.inv_init t, fun n f h => by simp at h⟩

theorem oracle_ginv_step (creatorOk : Addr → Bool) (s : State) (op : Op) (h : GInv creatorOk s) (ho : OpOk creatorOk op) :
    GInv creatorOk (apply s op) :=
  ⟨Props.C17.inv_apply s op h.1, feedsOk_apply s op h.2 ho⟩

/-- **reachable lift**: after every history whose accepted creators are account addresses -/
theorem oracle_ginv_run (creatorOk : Addr → Bool) (s : State) (ops : List Op) (h : GInv creatorOk s)
    (ho : ∀ op ∈ ops, OpOk creatorOk op) : GInv creatorOk (run s ops) :=
  ⟨Props.C17.mirror_and_bound_run s ops h.1, feedsOk_run ops s h.2 ho⟩

theorem oracle_ginv_reachable (creatorOk : Addr → Bool) (t : Nat) (ops : List Op) (ho : ∀ op ∈ ops, OpOk creatorOk op) :
    GInv creatorOk (run { now := t } ops) :=
  oracle_ginv_run creatorOk _ ops (oracle_ginv_init creatorOk t) ho

/-! ### the round trip -/

/-- the export of every reachable state passes the module's own `ValidateGenesis` -/
theorem oracle_export_validates (creatorOk : Addr → Bool) (s : State) (h : GInv creatorOk s) :
    validateGenesis creatorOk (exportGenesis s) = true :=
  export_valid s h.2

/-- `InitGenesis` of the exported document on the emptied oracle store succeeds, whatever the batch
counters of the request contexts -/
theorem oracle_import_succeeds (creatorOk : Addr → Bool) (batchOf : Name → Nat) (s : State) (h : GInv creatorOk s) :
    ∃ s', reimport creatorOk batchOf s = .ok s' :=
  ⟨_, reimport_eq batchOf s h.2⟩

theorem reimport_is_imp {creatorOk : Addr → Bool} {batchOf : Name → Nat} {s s' : State} (h : GInv creatorOk s)
    (hr : reimport creatorOk batchOf s = .ok s') : s' = imp batchOf s := by
  rw [reimport_eq batchOf s h.2] at hr
  cases hr; rfl

/-- every feed (with its creator), every request-context binding and the block time are what they
were -/
theorem oracle_feeds_preserved (creatorOk : Addr → Bool) (batchOf : Name → Nat) (s s' : State) (h : GInv creatorOk s)
    (hr : reimport creatorOk batchOf s = .ok s') :
    (∀ n, AMap.get? s'.feeds n = AMap.get? s.feeds n) ∧ (∀ n, creatorOf s' n = creatorOf s n) ∧
    s'.ctxs = s.ctxs ∧ s'.now = s.now := by
  rw [reimport_is_imp h hr]
  refine ⟨imp_get?_feeds batchOf s h.1.1, ?_, imp_ctxs batchOf s, imp_now batchOf s⟩
  intro n
  unfold creatorOf
  rw [imp_get?_feeds batchOf s h.1.1]

/-- the index after the import: a feed is in the running index iff its context is running, in the
paused index iff its context is in any other state -/
theorem oracle_index_rebuilt (creatorOk : Addr → Bool) (batchOf : Name → Nat) (s s' : State) (h : GInv creatorOk s)
    (hr : reimport creatorOk batchOf s = .ok s') (n : Name) :
    (n ∈ s'.running ↔ ∃ f c, AMap.get? s.feeds n = some f ∧ AMap.get? s.ctxs n = some c ∧ c.state = .running) ∧
    (n ∈ s'.paused ↔ ∃ f c, AMap.get? s.feeds n = some f ∧ AMap.get? s.ctxs n = some c ∧ c.state ≠ .running) := by
  rw [reimport_is_imp h hr]
  exact ⟨imp_running batchOf s n, imp_paused batchOf s n⟩

/-- index membership is preserved for every feed whose context is running or paused -/
theorem oracle_index_preserved (creatorOk : Addr → Bool) (batchOf : Name → Nat) (s s' : State) (h : GInv creatorOk s)
    (hr : reimport creatorOk batchOf s = .ok s') (n : Name) (f : Feed) (c : Ctx)
    (hf : AMap.get? s.feeds n = some f) (hc : AMap.get? s.ctxs n = some c) (hs : c.state = .running ∨ c.state = .paused) :
    (n ∈ s'.running ↔ n ∈ s.running) ∧ (n ∈ s'.paused ↔ n ∈ s.paused) := by
  obtain ⟨hrun, hpau⟩ := oracle_index_rebuilt creatorOk batchOf s s' h hr n
  have hm := h.1.2.1 n f c hf hc
  rw [hrun, hpau]
  rcases hs with hs | hs
  · obtain ⟨h1, h2⟩ := hm.1 hs
    constructor
    · exact ⟨fun _ => h1, fun _ => ⟨f, c, hf, hc, hs⟩⟩
    · constructor
      · rintro ⟨_, c', _, hc', hs'⟩
        rw [hc] at hc'; cases hc'; exact absurd hs hs'
      · intro hp; exact absurd hp h2
  · obtain ⟨h1, h2⟩ := hm.2 hs
    constructor
    · constructor
      · rintro ⟨_, c', _, hc', hs'⟩
        rw [hc] at hc'; cases hc'; rw [hs] at hs'; cases hs'
      · intro hp; exact absurd hp h2
    · exact ⟨fun _ => h1, fun _ => ⟨f, c, hf, hc, by rw [hs]; decide⟩⟩

/-- a feed whose context is `completed` lands in the paused index (and only there), wherever it was -/
theorem oracle_completed_lands_paused (creatorOk : Addr → Bool) (batchOf : Name → Nat) (s s' : State) (h : GInv creatorOk s)
    (hr : reimport creatorOk batchOf s = .ok s') (n : Name) (f : Feed) (c : Ctx)
    (hf : AMap.get? s.feeds n = some f) (hc : AMap.get? s.ctxs n = some c) (hs : c.state = .completed) :
    n ∈ s'.paused ∧ n ∉ s'.running := by
  obtain ⟨hrun, hpau⟩ := oracle_index_rebuilt creatorOk batchOf s s' h hr n
  rw [hrun, hpau]
  refine ⟨⟨f, c, hf, hc, by rw [hs]; decide⟩, ?_⟩
  rintro ⟨_, c', _, hc', hs'⟩
  rw [hc] at hc'; cases hc'; rw [hs] at hs'; cases hs'

/-- **F-gen-2, exactly**: after the round trip a feed shows the OLDEST of its values (the last
element of the newest-first view), or nothing if it had none -/
theorem oracle_values_collapse (creatorOk : Addr → Bool) (batchOf : Name → Nat) (s s' : State) (h : GInv creatorOk s)
    (hr : reimport creatorOk batchOf s = .ok s') (n : Name) :
    viewOf s' n = (viewOf s n).getLast?.toList := by
  rw [reimport_is_imp h hr]
  exact imp_view batchOf s h.1.1 h.1.2.2 n

/-- the surviving value sits under the request context's CURRENT batch counter (so the result of a
batch that is still open at the import replaces it) -/
theorem oracle_values_key (creatorOk : Addr → Bool) (batchOf : Name → Nat) (s s' : State) (h : GInv creatorOk s)
    (hr : reimport creatorOk batchOf s = .ok s') (n : Name) :
    valuesOf s' n = ((valuesOf s n).head?.map fun e => (batchOf n, e.2)).toList := by
  rw [reimport_is_imp h hr]
  exact imp_values batchOf s h.1.1 h.1.2.2 n

/-- a feed with at most one value is preserved exactly -/
theorem oracle_short_history_preserved (creatorOk : Addr → Bool) (batchOf : Name → Nat) (s s' : State) (h : GInv creatorOk s)
    (hr : reimport creatorOk batchOf s = .ok s') (n : Name) (hl : (viewOf s n).length ≤ 1) :
    viewOf s' n = viewOf s n := by
  rw [oracle_values_collapse creatorOk batchOf s s' h hr n]
  match hv : viewOf s n, hl with
  | [], _ => rfl
  | [v], _ => rfl

/-- **the true part of C12 for the oracle**: outside the class F-gen-2 (no feed holds two or more
values) everything a query shows is preserved: feeds, creators, contexts, index membership of
every running or paused feed, every value view, the block time -/
theorem oracle_roundtrip_partial (creatorOk : Addr → Bool) (batchOf : Name → Nat) (s s' : State) (h : GInv creatorOk s)
    (hr : reimport creatorOk batchOf s = .ok s') (hshort : ∀ n, (viewOf s n).length ≤ 1) :
    (∀ n, AMap.get? s'.feeds n = AMap.get? s.feeds n) ∧ s'.ctxs = s.ctxs ∧ s'.now = s.now ∧
    (∀ n, viewOf s' n = viewOf s n) ∧
    (∀ n f c, AMap.get? s.feeds n = some f → AMap.get? s.ctxs n = some c → c.state = .running ∨ c.state = .paused →
      ((n ∈ s'.running ↔ n ∈ s.running) ∧ (n ∈ s'.paused ↔ n ∈ s.paused))) := by
  obtain ⟨h1, _, h3, h4⟩ := oracle_feeds_preserved creatorOk batchOf s s' h hr
  exact ⟨h1, h3, h4, fun n => oracle_short_history_preserved creatorOk batchOf s s' h hr n (hshort n),
    fun n f c hf hc hs => oracle_index_preserved creatorOk batchOf s s' h hr n f c hf hc hs⟩

/-- the re-imported state satisfies the invariant again: every C17 theorem applies after a restart
from genesis -/
theorem oracle_inv_roundTrip (creatorOk : Addr → Bool) (batchOf : Name → Nat) (s s' : State) (h : GInv creatorOk s)
    (hr : reimport creatorOk batchOf s = .ok s') : GInv creatorOk s' := by
  rw [reimport_is_imp h hr]
  exact ⟨imp_inv batchOf s h.1, imp_feedsOk batchOf s h.1.1 h.2⟩

/-- **fixpoint after one round**: with `s₁` the re-imported state and `s₂` the state after a second
round trip (any batch counters), the second export is the first one, every view is equal, the
feed table and the contexts are equal; with the same batch counters the stored entries are equal -/
theorem oracle_export_fixpoint (creatorOk : Addr → Bool) (b1 b2 : Name → Nat) (s s1 s2 : State) (h : GInv creatorOk s)
    (hr1 : reimport creatorOk b1 s = .ok s1) (hr2 : reimport creatorOk b2 s1 = .ok s2) :
    exportGenesis s2 = exportGenesis s1 ∧ (∀ n, viewOf s2 n = viewOf s1 n) ∧ s2.feeds = s1.feeds ∧ s2.ctxs = s1.ctxs ∧
    (∀ n, b2 n = b1 n → valuesOf s2 n = valuesOf s1 n) := by
  have h1 := oracle_inv_roundTrip creatorOk b1 s s1 h hr1
  have e1 := reimport_is_imp h hr1
  have e2 := reimport_is_imp h1 hr2
  have hfeeds : s2.feeds = s1.feeds := by
    rw [e2, imp_feeds b2 s1 h1.1.1, e1, imp_feeds b1 s h.1.1]
    exact storeOrder_of_asc _ (asc_storeOrder _)
  have hctx : s2.ctxs = s1.ctxs := by rw [e2, imp_ctxs]
  have hview : ∀ n, viewOf s2 n = viewOf s1 n := by
    intro n
    rw [oracle_values_collapse creatorOk b2 s1 s2 h1 hr2 n, oracle_values_collapse creatorOk b1 s s1 h hr1 n]
    exact toList_getLast?_toList _
  refine ⟨exportGenesis_congr (by rw [hfeeds]) (fun n => by rw [hctx]) hview, hview, hfeeds, hctx, ?_⟩
  intro n hb
  rw [oracle_values_key creatorOk b2 s1 s2 h1 hr2 n, oracle_values_key creatorOk b1 s s1 h hr1 n, hb]
  cases (valuesOf s n).head? <;> rfl

/-! ### the full statement is false on the code (finding F-gen-2) -/

/-- the C12 statement for the oracle in full: for every reachable state the round trip preserves
every value view. FALSE in the code. -/
def OracleViewsPreserved : Prop :=
  ∀ (t : Nat) (ops : List Op) (batchOf : Name → Nat) (s' : State),
    reimport (fun _ => true) batchOf (run { now := t } ops) = .ok s' →
    ∀ n, viewOf s' n = viewOf (run { now := t } ops) n

/-- witness history: a feed keeping two values, started, two completed batches -/
def witnessOps : List Op :=
  [ .create { name := "f1", creator := "A0", agg := "max", path := "last", hist := 2, desc := "", service := "price",
              providers := ["P0", "P1"], thr := 1, timeout := 1, freq := 1, cap := .coin 100 "stake", input := "ok" },
    .start "f1" "A0",
    .block 5 [],
    .respond true [.done "f1" 1 1 ["n1"]],
    .block 5 [],
    .respond true [.done "f1" 2 1 ["n2"]] ]

def witness : State := run { now := 1700000000000000000 } witnessOps

theorem witness_ginv : GInv (fun _ => true) witness :=
  oracle_ginv_reachable _ _ _ (fun op _ => by cases op <;> trivial)

/-- **negation by witness in the full model**: the reachable state `witness` shows
`2.00000000, 1.00000000` before and only `1.00000000` (the OLDEST value) after the round trip -/
theorem oracle_roundtrip_fails_full : ¬ OracleViewsPreserved := by
  intro H
  have hr := reimport_eq (creatorOk := fun _ => true) (fun _ => 2) witness witness_ginv.2
  have := H 1700000000000000000 witnessOps (fun _ => 2) _ hr "f1"
  rw [oracle_values_collapse _ _ _ _ witness_ginv hr "f1"] at this
  revert this
  decide

end Irismod.Props.C12.Oracle
