/-
C01 — Coinswap: pool value per liquidity share never falls; swaps priced fee-inclusive.

Headline theorems about the model `Irismod.Coinswap`: the two pricing functions satisfy the
constant-product rule with the fee on the input side, exact-in output is maximal, exact-out price
is within one unit of minimal; for every message (swap single / routed, add, remove, one-sided add,
one-sided remove, plain sends = donations, parameter updates; rejected and panicking messages
included) and every registered pool, X'·Y'·L² ≥ X·Y·L'² and "outstanding shares are backed on
both sides" is preserved; lifted to every history by induction; integer square root specification.
-/
import Irismod.Proofs.CoinswapShare

namespace Irismod.Props.C01
open Irismod Irismod.Sdk Irismod.Coinswap Irismod.Spec.C01 Irismod.Spec.C02
open Irismod.Proofs.Coinswap Irismod.Proofs.CoinswapShare Irismod.Proofs.CoinswapArith

/-! ### integer square root -/

/-- **C01(6)** the model's `isqrt` is the integer square root (`big.Int.Sqrt`'s contract) -/
theorem isqrt_spec (n : Nat) : isqrt n * isqrt n ≤ n ∧ n < (isqrt n + 1) * (isqrt n + 1) :=
  Irismod.Proofs.CoinswapArith.isqrt_spec n

/-! ### pricing functions -/

theorem inputPrice_val {dx X Y fee v : Nat} (h : inputPrice dx X Y fee = some v) :
    v = dx * (D - fee) * Y / (X * D + dx * (D - fee)) := by
  unfold inputPrice at h
  split at h
  · cases h; rfl
  · cases h

theorem outputPrice_val {dy X Y fee p : Nat} (h : outputPrice dy X Y fee = some p) :
    p = X * dy * D / ((Y - dy) * (D - fee)) + 1 ∧ 0 < (Y - dy) * (D - fee) := by
  unfold outputPrice at h
  split at h
  · rename_i hf
    cases h
    simp only [outputPriceFits, Bool.and_eq_true, decide_eq_true_eq] at hf
    exact ⟨rfl, by omega⟩
  · cases h

/-- **C01(1a)** `GetInputPrice` satisfies the constant-product rule with the fee on the input side -/
theorem input_price_rule {dx X Y fee v : Nat} (h : inputPrice dx X Y fee = some v) : Cp X Y fee dx v := by
  rw [inputPrice_val h]; unfold Cp
  exact inPrice_cp X Y dx (D - fee) D

/-- **C01(2a)** … and its result is the largest output the rule allows -/
theorem exact_in_maximal {dx X Y fee v : Nat} (h : inputPrice dx X Y fee = some v) (hX : 0 < X) (hY : 0 < Y) :
    ¬ Cp X Y fee dx (v + 1) := by
  rw [inputPrice_val h]; unfold Cp
  have hpos : 0 < X * D * Y := Nat.mul_pos (Nat.mul_pos hX (by decide)) hY
  have := inPrice_max X Y dx (D - fee) D hpos
  omega

/-- **C01(1b)** `GetOutputPrice` satisfies the rule -/
theorem output_price_rule {dy X Y fee p : Nat} (h : outputPrice dy X Y fee = some p) (hdy : dy ≤ Y) :
    Cp X Y fee p dy := by
  obtain ⟨hp, hm⟩ := outputPrice_val h
  rw [hp]; unfold Cp
  exact outPrice_cp X Y dy (D - fee) D hdy hm

/-- **C01(2b)** … and charges at most one unit more than the smallest payment the rule allows -/
theorem exact_out_within_one {dy X Y fee p : Nat} (h : outputPrice dy X Y fee = some p) (hdy : dy ≤ Y)
    (p' : Nat) (hcp : Cp X Y fee p' dy) : p ≤ p' + 1 := by
  obtain ⟨hp, hm⟩ := outputPrice_val h
  have := outPrice_min X Y dy (D - fee) D p' hdy hm hcp
  omega

theorem legIn_price {s : State} {soldD boughtD : Denom} {soldA n v : Nat} (h : LegIn s soldD soldA boughtD n v) :
    v < s.bank.balOf (poolAddr n) boughtD ∧
    s.bank.balOf (poolAddr n) soldD * s.bank.balOf (poolAddr n) boughtD
      ≤ (s.bank.balOf (poolAddr n) soldD + soldA) * (s.bank.balOf (poolAddr n) boughtD - v) := by
  rw [inputPrice_val h.price]
  have hXD : 0 < s.bank.balOf (poolAddr n) soldD * D := Nat.mul_pos h.xpos (by decide)
  exact ⟨inPrice_lt _ _ _ _ _ hXD h.ypos, swapIn_prod _ _ _ _ _ (Nat.sub_le _ _)⟩

theorem legOut_price {s : State} {soldD boughtD : Denom} {boughtA n v : Nat} (h : LegOut s boughtD boughtA soldD n v) :
    boughtA < s.bank.balOf (poolAddr n) boughtD ∧
    s.bank.balOf (poolAddr n) soldD * s.bank.balOf (poolAddr n) boughtD
      ≤ (s.bank.balOf (poolAddr n) soldD + v) * (s.bank.balOf (poolAddr n) boughtD - boughtA) := by
  obtain ⟨hp, hm⟩ := outputPrice_val h.price
  rw [hp]
  exact ⟨h.ylt, swapOut_prod _ _ _ _ _ (Nat.sub_le _ _) (Nat.le_of_lt h.ylt) hm⟩


/-! ### swap messages are priced by the rule -/

/-- what "priced by the rule" means for one leg with pre-reserves `X` (input side) and `Y` -/
def LegPriced (X Y fee paid recv : Nat) (exactOut : Bool) : Prop :=
  0 < X ∧ 0 < Y ∧ Cp X Y fee paid recv ∧
  (exactOut = false → ¬ Cp X Y fee paid (recv + 1)) ∧
  (exactOut = true → ∀ p', Cp X Y fee p' recv → paid ≤ p' + 1)

theorem legIn_priced {s : State} {soldD boughtD : Denom} {soldA n v : Nat} (h : LegIn s soldD soldA boughtD n v) :
    LegPriced (s.bank.balOf (poolAddr n) soldD) (s.bank.balOf (poolAddr n) boughtD) s.params.fee soldA v false :=
  ⟨h.xpos, h.ypos, input_price_rule h.price, fun _ => exact_in_maximal h.price h.xpos h.ypos, fun e => (by cases e)⟩

theorem legOut_priced {s : State} {soldD boughtD : Denom} {boughtA n v : Nat} (h : LegOut s boughtD boughtA soldD n v) :
    LegPriced (s.bank.balOf (poolAddr n) soldD) (s.bank.balOf (poolAddr n) boughtD) s.params.fee v boughtA true :=
  ⟨h.xpos, Nat.lt_of_le_of_lt (Nat.zero_le _) h.ylt, output_price_rule h.price (Nat.le_of_lt h.ylt),
    fun e => (by cases e), fun _ => exact_out_within_one h.price (Nat.le_of_lt h.ylt)⟩

/-- **C01(1,2)** an accepted single-hop swap message: the amounts that actually moved (the ledger
of C02) satisfy the constant-product rule with the configured fee on the input side against the
pool's reserves before the message; exact-in output is maximal, exact-out payment within one unit
of minimal -/
theorem swap_single_priced (s s' : State) (sender rcpt : Addr) (inD outD : Denom) (inA outA : Int)
    (buy : Bool) (dl : Int) (resp : CoinList) (hsingle : isDouble s inD outD = false)
    (h : step s (.swap sender rcpt inD inA outD outA buy dl) = .ok (s', resp)) :
    ∃ (n sold bought : Nat), lookupLpt s inD outD = .ok n ∧
      Ledger s.bank s'.bank (singleSpec sender rcpt n inD outD sold bought) ∧
      (buy = false → (sold : Int) = inA) ∧ (buy = true → (bought : Int) = outA) ∧
      LegPriced (s.bank.balOf (poolAddr n) inD) (s.bank.balOf (poolAddr n) outD) s.params.fee sold bought buy := by
  obtain ⟨hvb, hs, _⟩ := step_swap_ok h
  simp only [vb] at hvb
  have hv := firstErr_none hvb
  have hin : 0 < inA := vbSide_none (hv (vbSide sender inD inA) (by simp))
  have hout : 0 < outA := vbSide_none (hv (vbSide rcpt outD outA) (by simp))
  unfold stepSwap at hs
  split at hs
  · cases hs
  · split at hs
    · cases hs
    · simp only [hsingle] at hs
      cases buy with
      | true =>
        simp only [if_true, Bool.false_eq_true, if_false] at hs
        obtain ⟨n, sold, hleg, _, hled, _⟩ := tradeOut_ok hs
        have hl : lookupLpt s inD outD = .ok n := by rw [lookupLpt_symm]; exact hleg.look
        exact ⟨n, sold, outA.toNat, hl, hled, by simp, fun _ => by omega, legOut_priced hleg⟩
      | false =>
        simp only [Bool.false_eq_true, if_false] at hs
        obtain ⟨n, bought, hleg, _, hled, _⟩ := tradeIn_ok hs
        exact ⟨n, inA.toNat, bought, hleg.look, hled, fun _ => by omega, by simp, legIn_priced hleg⟩

/-- **C01(1,2)** an accepted routed swap message: both legs are priced by the rule, the first
against the first pool's reserves before the message, the second against the second pool's reserves
when its price is computed (after the first leg for exact-in orders, before it for exact-out) -/
theorem swap_double_priced (s s' : State) (sender rcpt : Addr) (inD outD : Denom) (inA outA : Int)
    (buy : Bool) (dl : Int) (resp : CoinList) (hdouble : isDouble s inD outD = true)
    (h : step s (.swap sender rcpt inD inA outD outA buy dl) = .ok (s', resp)) :
    ∃ (na nb sold k bought : Nat) (s1 : State),
      Ledger s.bank s1.bank (singleSpec sender sender na inD s.std sold k) ∧
      Ledger s1.bank s'.bank (singleSpec sender rcpt nb s.std outD k bought) ∧
      (buy = false → (sold : Int) = inA) ∧ (buy = true → (bought : Int) = outA) ∧
      LegPriced (s.bank.balOf (poolAddr na) inD) (s.bank.balOf (poolAddr na) s.std) s.params.fee sold k buy ∧
      LegPriced ((if buy then s else s1).bank.balOf (poolAddr nb) s.std)
                ((if buy then s else s1).bank.balOf (poolAddr nb) outD) s.params.fee k bought buy := by
  obtain ⟨hvb, hs, _⟩ := step_swap_ok h
  simp only [vb] at hvb
  have hv := firstErr_none hvb
  have hin : 0 < inA := vbSide_none (hv (vbSide sender inD inA) (by simp))
  have hout : 0 < outA := vbSide_none (hv (vbSide rcpt outD outA) (by simp))
  unfold stepSwap at hs
  split at hs
  · cases hs
  · split at hs
    · cases hs
    · try simp only [hdouble] at hs
      cases buy with
      | true =>
        simp only [if_true] at hs
        obtain ⟨na, nb, k, sold, s1, hlegB, hlegA, _, hled1, _, hled2, _⟩ := doubleOut_ok hs
        exact ⟨na, nb, sold, k, outA.toNat, s1, hled1, hled2, by simp, fun _ => by omega,
          legOut_priced hlegA, by simpa using legOut_priced hlegB⟩
      | false =>
        simp only [Bool.false_eq_true, if_false] at hs
        obtain ⟨na, nb, k, bought, s1, hleg1, hled1, hcfg1, hleg2, _, hled2, _⟩ := doubleIn_ok hs
        have hp2 := legIn_priced hleg2
        rw [hcfg1.2.1] at hp2
        exact ⟨na, nb, inA.toNat, k, bought, s1, hled1, hled2, fun _ => by omega, by simp,
          legIn_priced hleg1, by simpa using hp2⟩

/-! ### the invariant and one message -/

/-- state invariant: well-formed registry, and every registered pool with outstanding shares is
backed on both sides -/
def Inv (s : State) : Prop :=
  RegWF s ∧ ∀ cp n, AMap.get? s.pools cp = some n → PoolInv (view s cp n)

/-- the signer of a message -/
def senderOf : Op → Option Addr
  | .block _ => none
  | .swap sender _ _ _ _ _ _ _ => some sender
  | .add sender _ _ _ _ _ => some sender
  | .remove sender _ _ _ _ _ => some sender
  | .add1 sender _ _ _ _ _ => some sender
  | .rem1 sender _ _ _ _ _ => some sender
  | .donate src _ _ _ => some src
  | .setParams _ _ _ _ _ _ => none

/-- escrow addresses are hashes of the liquidity denom: nobody holds their key, they never sign -/
def SenderOk (op : Op) : Prop := ∀ a, senderOf op = some a → ∀ n, a ≠ poolAddr n

/-- the invariant holds afterwards and no registered pool lost share value -/
def Good (s s' : State) : Prop :=
  Inv s' ∧ (∀ cp n, AMap.get? s.pools cp = some n → ShareLE (view s cp n) (view s' cp n)) ∧
  (∀ cp n, AMap.get? s.pools cp = some n → AMap.get? s'.pools cp = some n)

theorem good_of_pools {s s' : State} (hinv : Inv s) (hcfg : SameCfg s s')
    (h : ∀ cp j, AMap.get? s.pools cp = some j →
      ShareLE (view s cp j) (view s' cp j) ∧ (PoolInv (view s cp j) → PoolInv (view s' cp j))) : Good s s' := by
  refine ⟨⟨hinv.1.cfg hcfg, ?_⟩, fun cp n hg => (h cp n hg).1, fun cp n hg => by rw [hcfg.2.2.1]; exact hg⟩
  intro cp n hg
  rw [hcfg.2.2.1] at hg
  exact (h cp n hg).2 (hinv.2 cp n hg)

theorem good_refl {s : State} (hinv : Inv s) : Good s s := ⟨hinv, fun _ _ _ => shareLE_refl _, fun _ _ h => h⟩

/-- the counterparty denom of the pool a leg runs on -/
theorem lookup_cp {s : State} {d : Denom} {n : Nat} (hd : d ≠ s.std) (h : lookupLpt s d s.std = .ok n) :
    AMap.get? s.pools d = some n := by
  obtain ⟨cp, hg, hne, hdir⟩ := lookupLpt_ok h
  rcases hdir with ⟨e1, _⟩ | ⟨e1, _⟩
  · exact absurd e1 hd
  · rw [e1]; exact hg

theorem swap_good (s s' : State) (sender rcpt : Addr) (inD outD : Denom) (inA outA : Int) (buy : Bool) (dl : Int)
    (resp : CoinList) (hinv : Inv s) (hso : ∀ n, sender ≠ poolAddr n)
    (h : step s (.swap sender rcpt inD inA outD outA buy dl) = .ok (s', resp)) : Good s s' := by
  obtain ⟨hvb, hs, _⟩ := step_swap_ok h
  simp only [vb] at hvb
  have hv := firstErr_none hvb
  have hneq : inD ≠ outD := by
    have := hv (if inD = outD then some "vb:coinswap/3" else none) (by simp)
    split at this
    · cases this
    · assumption
  unfold stepSwap at hs
  split at hs
  · cases hs
  · split at hs
    · cases hs
    · cases hdb : isDouble s inD outD with
      | false =>
        simp only [hdb] at hs
        cases buy with
        | true =>
          simp only [if_true, Bool.false_eq_true, if_false] at hs
          obtain ⟨n, sold, hleg, _, hled, hcfg⟩ := tradeOut_ok hs
          have hl : lookupLpt s inD outD = .ok n := by rw [lookupLpt_symm]; exact hleg.look
          exact good_of_pools hinv hcfg (fun cp j hj =>
            leg_share hinv.1 hl hled hcfg.1 hso (fun _ => legOut_price hleg) cp j hj)
        | false =>
          simp only [Bool.false_eq_true, if_false] at hs
          obtain ⟨n, bought, hleg, _, hled, hcfg⟩ := tradeIn_ok hs
          exact good_of_pools hinv hcfg (fun cp j hj =>
            leg_share hinv.1 hleg.look hled hcfg.1 hso (fun _ => legIn_price hleg) cp j hj)
      | true =>
        simp only [hdb] at hs
        have hdi : inD ≠ s.std ∧ outD ≠ s.std := by
          simp only [isDouble, Bool.and_eq_true, bne_iff_ne] at hdb; exact hdb
        cases buy with
        | true =>
          simp only [if_true] at hs
          obtain ⟨na, nb, k, sold, s1, hlegB, hlegA, _, hled1, hcfg1, hled2, hcfg2⟩ := doubleOut_ok hs
          have hla : lookupLpt s inD s.std = .ok na := by rw [lookupLpt_symm]; exact hlegA.look
          have hlb : lookupLpt s outD s.std = .ok nb := hlegB.look
          have hlb1 : lookupLpt s1 s.std outD = .ok nb := by
            rw [lookupLpt_cfg hcfg1, lookupLpt_symm]; exact hlb
          have hnab : nb ≠ na := by
            intro e
            have g1 := lookup_cp hdi.1 hla
            have g2 := lookup_cp hdi.2 hlb
            rw [e] at g2
            exact hneq (hinv.1.inj inD outD na g1 g2)
          refine good_of_pools hinv (hcfg1.trans hcfg2) (fun cp j hj => ?_)
          have hj1 : AMap.get? s1.pools cp = some j := by rw [hcfg1.2.2.1]; exact hj
          obtain ⟨a1, a2⟩ := leg_share hinv.1 hla hled1 hcfg1.1 hso (fun _ => legOut_price hlegA) cp j hj
          have hprice2 : rcpt ≠ poolAddr nb →
              outA.toNat < s1.bank.balOf (poolAddr nb) outD ∧
              s1.bank.balOf (poolAddr nb) s.std * s1.bank.balOf (poolAddr nb) outD
                ≤ (s1.bank.balOf (poolAddr nb) s.std + k) * (s1.bank.balOf (poolAddr nb) outD - outA.toNat) := by
            intro _
            have e1 := hled1.1 (poolAddr nb) s.std
            have e2 := hled1.1 (poolAddr nb) outD
            rw [single_net_zero (hso nb) hnab (hso nb)] at e1 e2
            have e1' : s1.bank.balOf (poolAddr nb) s.std = s.bank.balOf (poolAddr nb) s.std := by omega
            have e2' : s1.bank.balOf (poolAddr nb) outD = s.bank.balOf (poolAddr nb) outD := by omega
            rw [e1', e2']
            exact legOut_price hlegB
          obtain ⟨b1, b2⟩ := leg_share (hinv.1.cfg hcfg1) hlb1 hled2 hcfg2.1 hso hprice2 cp j hj1
          have hL := leg_L hled1 hcfg1.1 cp j
          exact ⟨shareLE_trans a1 b1 (by intro hp; omega), fun hp => b2 (a2 hp)⟩
        | false =>
          simp only [Bool.false_eq_true, if_false] at hs
          obtain ⟨na, nb, k, bought, s1, hleg1, hled1, hcfg1, hleg2, _, hled2, hcfg2⟩ := doubleIn_ok hs
          refine good_of_pools hinv (hcfg1.trans hcfg2) (fun cp j hj => ?_)
          have hj1 : AMap.get? s1.pools cp = some j := by rw [hcfg1.2.2.1]; exact hj
          obtain ⟨a1, a2⟩ := leg_share hinv.1 hleg1.look hled1 hcfg1.1 hso (fun _ => legIn_price hleg1) cp j hj
          obtain ⟨b1, b2⟩ := leg_share (hinv.1.cfg hcfg1) hleg2.look hled2 hcfg2.1 hso (fun _ => legIn_price hleg2) cp j hj1
          have hL := leg_L hled1 hcfg1.1 cp j
          exact ⟨shareLE_trans a1 b1 (by intro hp; omega), fun hp => b2 (a2 hp)⟩


/-! ### liquidity messages -/

theorem add_same_view {s s' : State} {sender : Addr} {n : Nat} {cp : Denom} {dS t m : Nat}
    (hled : Ledger s.bank s'.bank (addMoves s.std sender n cp dS t m)) (hstd : s'.std = s.std)
    (hs : sender ≠ poolAddr n) (hne : cp ≠ s.std) :
    (view s' cp n).X = (view s cp n).X + dS ∧ (view s' cp n).Y = (view s cp n).Y + t ∧
    (view s' cp n).L = (view s cp n).L + m := by
  obtain ⟨hX, hY, hL⟩ := view_after hled hstd cp n
  rw [add_net_same_std hs hne] at hX
  rw [add_net_same_cp hs hne] at hY
  rw [addMoves_sup] at hL
  simp only [if_true] at hL
  omega

theorem add_other_view {s s' : State} {sender : Addr} {n j : Nat} {cp cpj : Denom} {dS t m : Nat}
    (hled : Ledger s.bank s'.bank (addMoves s.std sender n cp dS t m)) (hstd : s'.std = s.std)
    (hs : sender ≠ poolAddr j) (hj : j ≠ n) :
    ShareLE (view s cpj j) (view s' cpj j) ∧ (PoolInv (view s cpj j) → PoolInv (view s' cpj j)) := by
  apply pool_mono hled hstd
  · rw [add_net_other hs hj]
  · rw [add_net_other hs hj]
  · rw [addMoves_sup]; simp [hj]

/-- liquidity added to an existing pool (with or without balances) -/
theorem add_existing_good {s s' : State} {sender : Addr} {n : Nat} {cp : Denom} {dS t m : Nat}
    (hinv : Inv s) (hso : ∀ k, sender ≠ poolAddr k) (hsome : AMap.get? s.pools cp = some n)
    (hled : Ledger s.bank s'.bank (addMoves s.std sender n cp dS t m)) (hcfg : SameCfg s s')
    (hshare : 0 < (view s cp n).L →
      (view s cp n).X * (view s cp n).Y * ((view s cp n).L + m) ^ 2
        ≤ ((view s cp n).X + dS) * ((view s cp n).Y + t) * (view s cp n).L ^ 2)
    (hback : (0 < (view s cp n).X ∧ 0 < (view s cp n).Y) ∨ (0 < dS ∧ 0 < t)) : Good s s' := by
  apply good_of_pools hinv hcfg
  intro cpj j hj
  by_cases hjn : j = n
  · subst hjn
    have hcp : cpj = cp := hinv.1.inj cpj cp j hj hsome
    subst hcp
    obtain ⟨eX, eY, eL⟩ := add_same_view hled hcfg.1 (hso j) (hinv.1.cpne cpj j hj)
    constructor
    · intro hL
      rw [eX, eY, eL]; exact hshare hL
    · intro _ _
      rw [eX, eY]
      rcases hback with ⟨a, b⟩ | ⟨a, b⟩ <;> exact ⟨by omega, by omega⟩
  · exact add_other_view hled hcfg.1 (hso j) hjn

theorem get?_set_cases {m : AMap Denom Nat} {k c : Denom} {v n : Nat} (h : AMap.get? (AMap.set m k v) c = some n) :
    (c = k ∧ n = v) ∨ (c ≠ k ∧ AMap.get? m c = some n) := by
  by_cases e : k = c
  · subst e
    rw [AMap.get?_set_self] at h
    cases h
    exact Or.inl ⟨rfl, rfl⟩
  · rw [AMap.get?_set_other _ _ _ _ e] at h
    exact Or.inr ⟨fun e' => e e'.symm, h⟩

theorem mem_set_none {m : AMap Denom Nat} {k c : Denom} {v n : Nat} (hnone : AMap.get? m k = none)
    (h : (c, n) ∈ AMap.set m k v) : (c, n) ∈ m ∨ (c = k ∧ n = v) := by
  induction m with
  | nil =>
    simp only [AMap.set, List.mem_singleton, Prod.mk.injEq] at h
    exact Or.inr h
  | cons hd t ih =>
    obtain ⟨k', v'⟩ := hd
    simp only [AMap.get?] at hnone
    split at hnone
    · cases hnone
    · rename_i hk
      simp only [AMap.set, hk, if_false, List.mem_cons] at h
      rcases h with h | h
      · exact Or.inl (by rw [h]; exact List.mem_cons_self)
      · rcases ih hnone h with h' | h'
        · exact Or.inl (List.mem_cons_of_mem _ h')
        · exact Or.inr h'

/-- pool creation: fee, registry entry, first deposit -/
theorem add_created_good {s s1 s' : State} {sender : Addr} {cp : Denom} {maxA dS : Nat} {resp : CoinList}
    (hinv : Inv s) (hso : ∀ k, sender ≠ poolAddr k) (hstd : cp ≠ s.std) (hnone : AMap.get? s.pools cp = none)
    (hfee : deductFee s sender = .ok s1)
    (hadd : addLiq { s1 with pools := AMap.set s1.pools cp s1.seq, seq := s1.seq + 1 } sender s1.seq cp dS maxA dS
      = .ok (s', resp))
    (hdS : 0 < dS) (hmax : 0 < maxA) : Good s s' := by
  obtain ⟨hled1, c1, c2, c3, c4, c5, c6⟩ := deductFee_ok hfee
  obtain ⟨hled2, ⟨d1, d2, d3, d4, d5, d6⟩, _⟩ := addLiq_ok hadd
  simp only at d1 d3 d4 hled2
  rw [c1, c4] at hled2
  have hled := Ledger.trans hled1 hled2
  have hstd' : s'.std = s.std := d1.trans c1
  have hpools : s'.pools = AMap.set s.pools cp s.seq := by rw [d3, c3, c4]
  have hseq : s'.seq = s.seq + 1 := by rw [d4, c4]
  -- every pool registered before is some other pool than the new one
  have hold : ∀ cpj j, AMap.get? s.pools cpj = some j →
      ShareLE (view s cpj j) (view s' cpj j) ∧ (PoolInv (view s cpj j) → PoolInv (view s' cpj j)) := by
    intro cpj j hj
    have hjn : j ≠ s.seq := by have := hinv.1.lt cpj j hj; omega
    apply pool_mono hled hstd'
    · rw [netBal_append, add_net_other (hso j) hjn]; have := feeMoves_net_pool (s := s) (hso j) s.std; omega
    · rw [netBal_append, add_net_other (hso j) hjn]; have := feeMoves_net_pool (s := s) (hso j) cpj; omega
    · rw [netSup_append, addMoves_sup]; have := feeMoves_sup (s := s) (sender := sender) (lptDenom j); simp [hjn]; omega
  refine ⟨⟨?_, ?_⟩, fun cpj j hj => (hold cpj j hj).1, ?_⟩
  · constructor
    · intro c n hg
      rw [hpools] at hg; rw [hstd']
      rcases get?_set_cases hg with ⟨e, _⟩ | ⟨_, hg'⟩
      · rw [e]; exact hstd
      · exact hinv.1.cpne c n hg'
    · intro c n hg
      rw [hpools] at hg; rw [hseq]
      rcases get?_set_cases hg with ⟨_, e⟩ | ⟨_, hg'⟩
      · omega
      · have := hinv.1.lt c n hg'; omega
    · intro c c' n h1 h2
      rw [hpools] at h1 h2
      rcases get?_set_cases h1 with ⟨e1, f1⟩ | ⟨e1, g1⟩ <;> rcases get?_set_cases h2 with ⟨e2, f2⟩ | ⟨e2, g2⟩
      · rw [e1, e2]
      · have := hinv.1.lt c' n g2; omega
      · have := hinv.1.lt c n g1; omega
      · exact hinv.1.inj c c' n g1 g2
    · intro c n hm
      rw [hpools] at hm ⊢
      rcases mem_set_none hnone hm with h' | ⟨e1, e2⟩
      · have hg := hinv.1.mem c n h'
        have hck : cp ≠ c := by intro e; rw [e] at hnone; rw [hnone] at hg; cases hg
        rw [AMap.get?_set_other _ _ _ _ hck]; exact hg
      · rw [e1, e2]; exact AMap.get?_set_self _ _ _
  · intro c n hg
    rw [hpools] at hg
    rcases get?_set_cases hg with ⟨e1, e2⟩ | ⟨_, hg'⟩
    · -- the new pool: both sides received a positive deposit
      subst e1; subst e2
      obtain ⟨hX, hY, _⟩ := view_after hled hstd' c s.seq
      rw [netBal_append, add_net_same_std (hso s.seq) hstd] at hX
      rw [netBal_append, add_net_same_cp (hso s.seq) hstd] at hY
      have f1 := feeMoves_net_pool (s := s) (hso s.seq) s.std
      have f2 := feeMoves_net_pool (s := s) (hso s.seq) c
      intro _
      exact ⟨by omega, by omega⟩
    · exact (hold c n hg').2 (hinv.2 c n hg')
  · intro cpj j hj
    rw [hpools]
    have hck : cp ≠ cpj := by intro e; rw [e] at hnone; rw [hnone] at hj; cases hj
    rw [AMap.get?_set_other _ _ _ _ hck]; exact hj

theorem add_good (s s' : State) (sender : Addr) (cp : Denom) (maxA dS minL dl : Int) (resp : CoinList)
    (hinv : Inv s) (hso : ∀ n, sender ≠ poolAddr n)
    (h : step s (.add sender cp maxA dS minL dl) = .ok (s', resp)) : Good s s' := by
  obtain ⟨hvb, hs⟩ := step_add_ok h
  simp only [vb] at hvb
  have hv := firstErr_none hvb
  have hmax : 0 < maxA := vbToken_none (hv (vbToken cp maxA) (by simp))
  have hdS : 0 < dS := by
    have := hv (if dS ≤ 0 then some "vb:sdk/18" else none) (by simp)
    split at this
    · cases this
    · omega
  obtain ⟨_, hstd, hcase⟩ := stepAdd_ok hs
  rcases hcase with ⟨hnone, s1, hfee, _, hadd⟩ | ⟨n, hsome, hemp, _, hadd⟩ | ⟨n, hsome, _, hex⟩
  · exact add_created_good hinv hso hstd hnone hfee hadd (by omega) (by omega)
  · obtain ⟨hled, hcfg, _⟩ := addLiq_ok hadd
    refine add_existing_good hinv hso hsome hled hcfg ?_ (Or.inr ⟨by omega, by omega⟩)
    intro hL
    -- an escrow without any balance cannot back outstanding shares
    have hX : (view s cp n).X = 0 := addrEmpty_bal hemp s.std
    have := (hinv.2 cp n hsome hL).1
    omega
  · obtain ⟨hX, hY, hL, _, _, hadd⟩ := addExisting_ok hex
    obtain ⟨hled, hcfg, _⟩ := addLiq_ok hadd
    refine add_existing_good hinv hso hsome hled hcfg (fun _ => ?_) (Or.inl ⟨hX, hY⟩)
    exact add_share (resX s n) (resY s n cp) (shares s n) dS.toNat hX


theorem isqrt_ge_of_sq_le {L n : Nat} (h : L * L ≤ n) : L ≤ isqrt n := by
  obtain ⟨_, h2⟩ := isqrt_spec n
  by_contra hlt
  have h3 : isqrt n + 1 ≤ L := by omega
  have := Nat.mul_le_mul h3 h3
  omega

/-- the shares minted by a one-sided add: the new supply is the square root, never below the old
supply (`sqrt - supply` is not negative in the Go code either) -/
theorem add1Mint_total {T L a nn : Nat} (hdT : 0 < D * T) :
    L + add1Mint T L a nn = isqrt ((D * T + nn * a) * L * L / (D * T)) := by
  unfold add1Mint
  have := isqrt_ge_of_sq_le (add1_sq_ge T L a nn D hdT)
  omega

theorem add1_view {s s' : State} {sender : Addr} {n : Nat} {tokD : Denom} {a m : Nat}
    (hled : Ledger s.bank s'.bank (add1Moves sender n tokD a m)) (hstd : s'.std = s.std)
    (hs : sender ≠ poolAddr n) (cp : Denom) :
    (view s' cp n).X = (view s cp n).X + (if tokD = s.std then a else 0) ∧
    (view s' cp n).Y = (view s cp n).Y + (if tokD = cp then a else 0) ∧
    (view s' cp n).L = (view s cp n).L + m := by
  obtain ⟨hX, hY, hL⟩ := view_after hled hstd cp n
  rw [add1_net_same hs] at hX hY
  rw [add1Moves_sup] at hL
  simp only [if_true] at hL
  refine ⟨?_, ?_, by omega⟩
  · split <;> rename_i h <;> simp only [h, if_true, if_false] at hX <;> omega
  · split <;> rename_i h <;> simp only [h, if_true, if_false] at hY <;> omega

theorem add1_good (s s' : State) (sender : Addr) (cp tokD : Denom) (a minL dl : Int) (resp : CoinList)
    (hinv : Inv s) (hso : ∀ n, sender ≠ poolAddr n)
    (h : step s (.add1 sender cp tokD a minL dl) = .ok (s', resp)) : Good s s' := by
  obtain ⟨_, hs⟩ := step_add1_ok h
  obtain ⟨_, n, hsome, hside, hfits, _, hled, hcfg, _⟩ := stepAdd1_ok hs
  have hcpne := hinv.1.cpne cp n hsome
  simp only [add1Fits, Bool.and_eq_true, decide_eq_true_eq] at hfits
  have hdT : 0 < D * s.bank.balOf (poolAddr n) tokD := by omega
  clear hfits
  apply good_of_pools hinv hcfg
  intro cpj j hj
  by_cases hjn : j = n
  · subst hjn
    have hcp : cpj = cp := hinv.1.inj cpj cp j hj hsome
    subst hcp
    obtain ⟨eX, eY, eL⟩ := add1_view hled hcfg.1 (hso j) cpj
    -- new supply = r, with T·r² ≤ (T+a)·L²
    have htot := add1Mint_total (L := shares s j) (a := a.toNat) (nn := D - s.params.ufee) hdT
    have hr := (isqrt_spec ((D * s.bank.balOf (poolAddr j) tokD + (D - s.params.ufee) * a.toNat) * shares s j * shares s j
      / (D * s.bank.balOf (poolAddr j) tokD))).1
    have hsh := add1_share (s.bank.balOf (poolAddr j) tokD) (shares s j) a.toNat (D - s.params.ufee) D
      (isqrt ((D * s.bank.balOf (poolAddr j) tokD + (D - s.params.ufee) * a.toNat) * shares s j * shares s j
        / (D * s.bank.balOf (poolAddr j) tokD))) (Nat.sub_le _ _) hdT hr
    rw [← htot] at hsh
    -- no shares before ⇒ nothing is minted
    have hzero : shares s j = 0 → add1Mint (s.bank.balOf (poolAddr j) tokD) (shares s j) a.toNat (D - s.params.ufee) = 0 := by
      intro h0
      rw [h0] at htot ⊢
      simp only [Nat.mul_zero, Nat.zero_div, Nat.zero_add] at htot
      have : isqrt 0 = 0 := by rw [isqrt]; simp
      omega
    clear htot hr
    generalize add1Mint (s.bank.balOf (poolAddr j) tokD) (shares s j) a.toNat (D - s.params.ufee) = m at *
    have hLdef : (view s cpj j).L = shares s j := rfl
    rcases hside with e | e
    · -- deposit on the counterparty side
      subst e
      have hne : ¬ tokD = s.std := hcpne
      simp only [hne, if_false, if_true, Nat.add_zero] at eX eY
      have hTdef : (view s tokD j).Y = s.bank.balOf (poolAddr j) tokD := rfl
      constructor
      · intro _
        rw [eX, eY, eL, hLdef, hTdef]
        exact add1_side_Y _ _ _ _ _ hsh
      · intro hp hq
        rw [eL, hLdef] at hq
        rcases Nat.eq_zero_or_pos (shares s j) with h0 | h0
        · have := hzero h0; omega
        · obtain ⟨x, y⟩ := hp (by rw [hLdef]; exact h0)
          rw [eX, eY]; exact ⟨by omega, by omega⟩
    · -- deposit on the standard side
      subst e
      have hne : ¬ s.std = cpj := fun e => hcpne e.symm
      simp only [hne, if_false, if_true, Nat.add_zero] at eX eY
      have hTdef : (view s cpj j).X = s.bank.balOf (poolAddr j) s.std := rfl
      constructor
      · intro _
        rw [eX, eY, eL, hLdef, hTdef]
        exact add1_side_X _ _ _ _ _ hsh
      · intro hp hq
        rw [eL, hLdef] at hq
        rcases Nat.eq_zero_or_pos (shares s j) with h0 | h0
        · have := hzero h0; omega
        · obtain ⟨x, y⟩ := hp (by rw [hLdef]; exact h0)
          rw [eX, eY]; exact ⟨by omega, by omega⟩
  · apply pool_mono hled hcfg.1
    · rw [add1_net_other (hso j) hjn]
    · rw [add1_net_other (hso j) hjn]
    · rw [add1Moves_sup]; simp [hjn]


theorem remove_good (s s' : State) (sender : Addr) (lptD : Denom) (w minStd minTok dl : Int) (resp : CoinList)
    (hinv : Inv s) (hso : ∀ n, sender ≠ poolAddr n)
    (h : step s (.remove sender lptD w minStd minTok dl) = .ok (s', resp)) : Good s s' := by
  obtain ⟨_, hs⟩ := step_remove_ok h
  obtain ⟨_, cp, n, hfind, hwL, hLpos, _, _, hrem⟩ := stepRemove_ok hs
  obtain ⟨hled, hcfg, _⟩ := removeLiq_ok hrem
  have hsome : AMap.get? s.pools cp = some n := hinv.1.mem cp n (findByLpt_some hfind).2
  have hcpne := hinv.1.cpne cp n hsome
  apply good_of_pools hinv hcfg
  intro cpj j hj
  by_cases hjn : j = n
  · subst hjn
    have hcp : cpj = cp := hinv.1.inj cpj cp j hj hsome
    subst hcp
    obtain ⟨hX, hY, hL⟩ := view_after hled hcfg.1 cpj j
    rw [remove_net_same_std (hso j) hcpne] at hX
    rw [remove_net_same_cp (hso j) hcpne] at hY
    rw [removeMoves_sup] at hL
    simp only [if_true] at hL
    have hXdef : (view s cpj j).X = resX s j := rfl
    have hYdef : (view s cpj j).Y = resY s j cpj := rfl
    have hLdef : (view s cpj j).L = shares s j := rfl
    have eX : (view s' cpj j).X = resX s j - w.toNat * resX s j / shares s j := by omega
    have eY : (view s' cpj j).Y = resY s j cpj - w.toNat * resY s j cpj / shares s j := by omega
    have eL : (view s' cpj j).L = shares s j - w.toNat := by omega
    constructor
    · intro _
      rw [eX, eY, eL, hXdef, hYdef, hLdef]
      exact remove_share (resX s j) (resY s j cpj) (shares s j) w.toNat hwL hLpos
    · intro hp hq
      rw [eL] at hq
      obtain ⟨x, y⟩ := hp (by rw [hLdef]; exact hLpos)
      rw [hXdef] at x; rw [hYdef] at y
      have hlt : w.toNat < shares s j := by omega
      have d1 : w.toNat * resX s j / shares s j < resX s j := by
        apply Nat.div_lt_of_lt_mul
        exact Nat.mul_lt_mul_of_pos_right hlt x
      have d2 : w.toNat * resY s j cpj / shares s j < resY s j cpj := by
        apply Nat.div_lt_of_lt_mul
        exact Nat.mul_lt_mul_of_pos_right hlt y
      rw [eX, eY]; exact ⟨by omega, by omega⟩
  · apply pool_mono hled hcfg.1
    · rw [remove_net_other (hso j) hjn]
    · rw [remove_net_other (hso j) hjn]
    · rw [removeMoves_sup]; simp [hjn]

theorem rem1_view {s s' : State} {sender : Addr} {n : Nat} {minD : Denom} {w out : Nat}
    (hled : Ledger s.bank s'.bank (rem1Moves sender n minD w out)) (hstd : s'.std = s.std)
    (hs : sender ≠ poolAddr n) (cp : Denom) :
    (view s' cp n).X = (view s cp n).X - (if minD = s.std then out else 0) ∧
    (view s' cp n).Y = (view s cp n).Y - (if minD = cp then out else 0) ∧
    (view s' cp n).L = (view s cp n).L - w ∧
    (minD = s.std → out ≤ (view s cp n).X) ∧ (minD = cp → out ≤ (view s cp n).Y) := by
  obtain ⟨hX, hY, hL⟩ := view_after hled hstd cp n
  rw [rem1_net_same hs] at hX hY
  rw [rem1Moves_sup] at hL
  simp only [if_true] at hL
  refine ⟨?_, ?_, by omega, ?_, ?_⟩
  · split <;> rename_i h <;> simp only [h, if_true, if_false] at hX <;> omega
  · split <;> rename_i h <;> simp only [h, if_true, if_false] at hY <;> omega
  · intro h; simp only [h, if_true] at hX; omega
  · intro h; simp only [h, if_true] at hY; omega

theorem rem1_good (s s' : State) (sender : Addr) (cp minD : Denom) (minA w dl : Int) (resp : CoinList)
    (hinv : Inv s) (hso : ∀ n, sender ≠ poolAddr n)
    (h : step s (.rem1 sender cp minD minA w dl) = .ok (s', resp)) : Good s s' := by
  obtain ⟨_, hs⟩ := step_rem1_ok h
  obtain ⟨_, n, hsome, hside, hwL, hfits, _, hrem⟩ := stepRem1_ok hs
  obtain ⟨hled, hcfg, _⟩ := rem1Liq_ok hrem
  have hcpne := hinv.1.cpne cp n hsome
  simp only [rem1Fits, Bool.and_eq_true, decide_eq_true_eq] at hfits
  have hd : 0 < shares s n * shares s n * D := by omega
  clear hfits
  apply good_of_pools hinv hcfg
  intro cpj j hj
  by_cases hjn : j = n
  · subst hjn
    have hcp : cpj = cp := hinv.1.inj cpj cp j hj hsome
    subst hcp
    obtain ⟨eX, eY, eL, _, _⟩ := rem1_view hled hcfg.1 (hso j) cpj
    have hsh := rem1_share (s.bank.balOf (poolAddr j) minD) (shares s j) w.toNat (D - s.params.ufee) D
      (Nat.le_of_lt hwL) (Nat.sub_le _ _) hd
    unfold rem1Out at eX eY
    generalize (shares s j + shares s j - w.toNat) * w.toNat * s.bank.balOf (poolAddr j) minD * (D - s.params.ufee)
      / (shares s j * shares s j * D) = out at *
    have hLdef : (view s cpj j).L = shares s j := rfl
    have hpos : 0 < (shares s j - w.toNat) ^ 2 := by
      have : 0 < shares s j - w.toNat := by omega
      positivity
    rcases hside with e | e
    · subst e
      have hne : ¬ minD = s.std := hcpne
      simp only [hne, if_false, if_true, Nat.sub_zero] at eX eY
      have hTdef : (view s minD j).Y = s.bank.balOf (poolAddr j) minD := rfl
      constructor
      · intro _
        rw [eX, eY, eL, hLdef, hTdef]
        exact add1_side_Y _ _ _ _ _ hsh
      · intro hp hq
        obtain ⟨x, y⟩ := hp (by rw [hLdef]; omega)
        rw [hTdef] at y
        have : 0 < (s.bank.balOf (poolAddr j) minD - out) * shares s j ^ 2 :=
          Nat.lt_of_lt_of_le (Nat.mul_pos y hpos) hsh
        have h2 : 0 < s.bank.balOf (poolAddr j) minD - out := Nat.pos_of_mul_pos_right this
        rw [eX, eY, hTdef]; exact ⟨x, h2⟩
    · subst e
      have hne : ¬ s.std = cpj := fun e => hcpne e.symm
      simp only [hne, if_false, if_true, Nat.sub_zero] at eX eY
      have hTdef : (view s cpj j).X = s.bank.balOf (poolAddr j) s.std := rfl
      constructor
      · intro _
        rw [eX, eY, eL, hLdef, hTdef]
        exact add1_side_X _ _ _ _ _ hsh
      · intro hp hq
        obtain ⟨x, y⟩ := hp (by rw [hLdef]; omega)
        rw [hTdef] at x
        have : 0 < (s.bank.balOf (poolAddr j) s.std - out) * shares s j ^ 2 :=
          Nat.lt_of_lt_of_le (Nat.mul_pos x hpos) hsh
        have h2 : 0 < s.bank.balOf (poolAddr j) s.std - out := Nat.pos_of_mul_pos_right this
        rw [eX, eY, hTdef]; exact ⟨h2, y⟩
  · apply pool_mono hled hcfg.1
    · rw [rem1_net_other (hso j) hjn]
    · rw [rem1_net_other (hso j) hjn]
    · rw [rem1Moves_sup]; simp [hjn]

theorem donate_good (s s' : State) (src dst : Addr) (d : Denom) (a : Nat) (resp : CoinList)
    (hinv : Inv s) (hso : ∀ n, src ≠ poolAddr n)
    (h : step s (.donate src dst d a) = .ok (s', resp)) : Good s s' := by
  obtain ⟨hled, hcfg⟩ := stepDonate_ok (step_donate_ok h)
  apply good_of_pools hinv hcfg
  intro cpj j _
  apply pool_mono hled hcfg.1
  · exact donate_net (hso j) _
  · exact donate_net (hso j) _
  · simp [netSup, Mv.sup]

/-- **C01(3,4)** one accepted message, whatever it is: the invariant is preserved and no registered
pool's share value falls -/
theorem step_good (s s' : State) (op : Op) (resp : CoinList) (hinv : Inv s) (hso : SenderOk op)
    (h : step s op = .ok (s', resp)) : Good s s' := by
  cases op with
  | block t =>
    have := step_block_ok h
    cases this
    exact ⟨⟨⟨hinv.1.cpne, hinv.1.lt, hinv.1.inj, hinv.1.mem⟩, hinv.2⟩, fun _ _ _ => shareLE_refl _, fun _ _ h => h⟩
  | setParams auth fee tax ufee pcfD pcfA =>
    obtain ⟨_, hs⟩ := step_params_ok h
    unfold stepParams at hs
    split at hs
    · cases hs
    · cases hs
      exact ⟨⟨⟨hinv.1.cpne, hinv.1.lt, hinv.1.inj, hinv.1.mem⟩, hinv.2⟩, fun _ _ _ => shareLE_refl _, fun _ _ h => h⟩
  | swap sender rcpt inD inA outD outA buy dl =>
    exact swap_good s s' sender rcpt inD outD inA outA buy dl resp hinv (hso sender rfl) h
  | add sender cp maxA dS minL dl => exact add_good s s' sender cp maxA dS minL dl resp hinv (hso sender rfl) h
  | remove sender lptD w minStd minTok dl =>
    exact remove_good s s' sender lptD w minStd minTok dl resp hinv (hso sender rfl) h
  | add1 sender cp tokD a minL dl => exact add1_good s s' sender cp tokD a minL dl resp hinv (hso sender rfl) h
  | rem1 sender cp minD minA w dl => exact rem1_good s s' sender cp minD minA w dl resp hinv (hso sender rfl) h
  | donate src dst d a => exact donate_good s s' src dst d a resp hinv (hso src rfl) h

/-- the chain-level step (rejected and panicking messages leave the state unchanged) -/
theorem apply_good (s : State) (op : Op) (hinv : Inv s) (hso : SenderOk op) : Good s (apply s op) := by
  unfold apply
  cases h : step s op with
  | ok r => obtain ⟨s', resp⟩ := r; exact step_good s s' op resp hinv hso h
  | error e => exact good_refl hinv

/-- **C01(3)** share value, message by message: `X'·Y'·L² ≥ X·Y·L'²` for every registered pool and
every message, accepted, rejected or panicking (donations are the `donate` message) -/
theorem share_value_mono (s : State) (op : Op) (hinv : Inv s) (hso : SenderOk op) (cp : Denom) (n : Nat)
    (hreg : AMap.get? s.pools cp = some n) :
    ShareLE (view s cp n) (view (apply s op) cp n) := (apply_good s op hinv hso).2.1 cp n hreg

/-- **C01(4)** backing of outstanding shares is preserved by every message -/
theorem inv_apply (s : State) (op : Op) (hinv : Inv s) (hso : SenderOk op) : Inv (apply s op) :=
  (apply_good s op hinv hso).1

/-- the initial chain satisfies the invariant (no pools) -/
theorem inv_init (b : Bank) (std : Denom) (p : Params) (now : Nat) (blocked : List Addr) :
    Inv { bank := b, std := std, params := p, pools := [], seq := 1, now := now, blocked := blocked } := by
  refine ⟨⟨?_, ?_, ?_, ?_⟩, ?_⟩ <;> intro _ _ <;> simp [AMap.get?]

/-! ### every history -/

/-- pool `(cp, n)` keeps shares outstanding after every message of the history -/
def AllLive (s : State) (cp : Denom) (n : Nat) : List Op → Prop
  | [] => True
  | op :: rest => 0 < (view (apply s op) cp n).L ∧ AllLive (apply s op) cp n rest

/-- **C01(5)** lift to all histories, by induction over the list of messages: from any state
satisfying the invariant (donations already received, any number of pools), after any interleaving
of messages by any accounts the invariant holds, every registered pool is still registered, and
its share value has not fallen (end to end, as long as shares stayed outstanding in between —
with no share outstanding there is no share value) -/
theorem share_value_mono_run (s : State) (ops : List Op) (hinv : Inv s) (hso : ∀ op ∈ ops, SenderOk op) :
    Inv (run s ops) ∧
    ∀ cp n, AMap.get? s.pools cp = some n →
      AMap.get? (run s ops).pools cp = some n ∧
      (AllLive s cp n ops → ShareLE (view s cp n) (view (run s ops) cp n)) := by
  induction ops generalizing s with
  | nil => exact ⟨hinv, fun cp n hreg => ⟨hreg, fun _ => shareLE_refl _⟩⟩
  | cons op rest ih =>
    have hg := apply_good s op hinv (hso op List.mem_cons_self)
    obtain ⟨hinv', hrest⟩ := ih (apply s op) hg.1 (fun o ho => hso o (List.mem_cons_of_mem _ ho))
    refine ⟨hinv', fun cp n hreg => ?_⟩
    obtain ⟨hreg', hsh⟩ := hrest cp n (hg.2.2 cp n hreg)
    refine ⟨hreg', fun hlive => ?_⟩
    obtain ⟨hl1, hl2⟩ := hlive
    exact shareLE_trans (hg.2.1 cp n hreg) (hsh hl2) (fun _ => hl1)

/-- **C01(5′)** … and at every single step of every history the share value does not fall -/
theorem share_value_every_step (s : State) (pre : List Op) (op : Op) (hinv : Inv s)
    (hpre : ∀ o ∈ pre, SenderOk o) (hop : SenderOk op) (cp : Denom) (n : Nat)
    (hreg : AMap.get? (run s pre).pools cp = some n) :
    ShareLE (view (run s pre) cp n) (view (run s (pre ++ [op])) cp n) := by
  have hinv' := (share_value_mono_run s pre hinv hpre).1
  have : run s (pre ++ [op]) = apply (run s pre) op := by simp [run, List.foldl_append]
  rw [this]
  exact share_value_mono (run s pre) op hinv' hop cp n hreg

end Irismod.Props.C01
