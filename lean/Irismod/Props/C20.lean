/-
C20 — headline theorems. The descriptor tables are regenerated from /repo on every run, so
`descriptors_agree`, `single_family_files_are_module_configs` and `msgs_registered_and_signed`
are re-checked by the kernel against what the code says now.
-/
import Irismod.Spec.C20
import Irismod.Proofs.Wire

namespace Irismod.Props.C20
open Irismod.Gen.Api Irismod.Spec.C20 Irismod.Wire Irismod.Proofs.Wire

/-- every message, enum, service (and file header) has the same name set in both families … -/
theorem names_agree : gogoNames = pulsarNames := rfl

/-- … and byte-identical normalised descriptors (fields, numbers, types, options, methods) -/
theorem descriptors_agree : gogoBytes = pulsarBytes := rfl

theorem single_family_files_are_module_configs : singleFamilyOk = true := by decide

/-- every transaction message is registered and declares an existing address signer -/
theorem msgs_registered_and_signed : allMsgsOk = true := by decide

/-- every service's `grpc.ServiceDesc` — the table a server registered through that family
actually serves from — lists exactly the methods of the descriptor, in both families -/
theorem grpc_service_tables_agree : grpcDescsOk = true := by decide

/-- full statement: no message-typed field is declared with a scalar custom type (which makes
    the two families write different bytes for the same descriptor) -/
def NoScalarCustomTypeOnMessageField : Prop := suspectFields = []

/-- partial (known finding F-api-1): every such field is the recorded `coinswap.Params.fee`;
    a second one breaks this theorem. -/
theorem scalar_customtype_fields_within_known_partial : suspectsWithinKnown = true := by decide

/-- wire model: every well-formed message value (sequence of fields) decodes from its encoding
    to itself — for all field numbers, payload sizes and values, no bound. -/
theorem wire_roundtrip (fs : List Field) (h : ∀ f ∈ fs, f.WF) :
    decodeFields (encodeFields fs) = some fs :=
  decodeFieldsAux_encode fs h _ (length_le_encodeFields fs)

/-- hence re-encoding what was decoded from an encoding reproduces the same bytes: two
    implementations of `encodeFields`/`decodeFields` over equal descriptors are interchangeable -/
theorem wire_reencode (fs : List Field) (h : ∀ f ∈ fs, f.WF) :
    (decodeFields (encodeFields fs)).map encodeFields = some (encodeFields fs) := by
  rw [wire_roundtrip fs h]; rfl

theorem varint_roundtrip (n : Nat) (rest : List Nat) :
    decodeVarint (encodeVarint n ++ rest) = some (n, rest) := decodeVarint_encode n rest

end Irismod.Props.C20
