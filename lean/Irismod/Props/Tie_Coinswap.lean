/-
The tie between the hand-written coinswap model and /repo's source, as theorems over the
REGENERATED translation `Irismod/Gen/PureCoinswap.lean` (written by `extract/x_pure` from the working
tree on every run): the Go functions, translated call by call with the libraries' range checks,
compute exactly what the model's formulas compute, for every input.  A change to the arithmetic,
a rounding direction, a guard or the order of the library calls in the Go source changes the
regenerated definition and one of these theorems stops checking.
-/
import Irismod.Gen.PureCoinswap
import Irismod.Model.Coinswap
import Irismod.Proofs.GoSemLemmas
namespace Irismod.Props.Tie
open Irismod.Sdk Irismod.GoSem Irismod.Gen.PureCoinswap Irismod.Coinswap

/-- every coinswap target of the translator was translated (none refused) -/
theorem coinswap_all_translated : Irismod.Gen.PureCoinswap.untranslated = [] := rfl

/-- the translated definitions are exactly these, in source order: a new assignment to one of the tracked amounts of
a liquidity handler, or a new rejecting guard over substrate values, shows up here -/
theorem coinswap_translated_pinned : Irismod.Gen.PureCoinswap.translated =
    ["GetInputPrice(inputAmt,inputReserve,outputReserve,fee)",
     "GetOutputPrice(outputAmt,inputReserve,outputReserve,fee)",
     "calcExactIn_guard_1(inputReserve)",
     "calcExactIn_guard_2(outputReserve)",
     "calcExactIn_boughtTokenAmt_1(exactSoldCoin,inputReserve,outputReserve,param_Fee)",
     "calcExactOut_guard_1(inputReserve)",
     "calcExactOut_guard_2(outputReserve)",
     "calcExactOut_guard_3(exactBoughtCoin,outputReserve)",
     "calcExactOut_soldTokenAmt_1(exactBoughtCoin,inputReserve,outputReserve,param_Fee)",
     "TradeExactIn_guard_1(boughtTokenAmt,output_Coin)",
     "TradeExactOut_guard_1(soldTokenAmt,input_Coin)",
     "DoubleExactIn_guard_1(boughtAmt,output_Coin)",
     "DoubleExactOut_guard_1(soldTokenAmt,input_Coin)",
     "AddLiquidity_guard_1(standardDenom,msg_MaxToken)",
     "AddLiquidity_mintLiquidityAmt_1(msg_ExactStandardAmt)",
     "AddLiquidity_guard_2(mintLiquidityAmt,msg_MinLiquidity)",
     "AddLiquidity_mintLiquidityAmt_2(msg_ExactStandardAmt)",
     "AddLiquidity_guard_3(mintLiquidityAmt,msg_MinLiquidity)",
     "AddLiquidity_guard_4(standardReserveAmt,tokenReserveAmt,liquidity)",
     "AddLiquidity_mintLiquidityAmt_3(liquidity,msg_ExactStandardAmt,standardReserveAmt)",
     "AddLiquidity_guard_5(mintLiquidityAmt,msg_MinLiquidity)",
     "AddLiquidity_depositAmt_1(tokenReserveAmt,msg_ExactStandardAmt,standardReserveAmt)",
     "AddLiquidity_guard_6(depositAmt,msg_MaxToken)",
     "RemoveLiquidity_guard_1(standardReserveAmt,msg_MinStandardAmt)",
     "RemoveLiquidity_guard_2(tokenReserveAmt,msg_MinToken)",
     "RemoveLiquidity_guard_3(liquidityReserve,msg_WithdrawLiquidity)",
     "RemoveLiquidity_irisWithdrawnAmt_1(msg_WithdrawLiquidity,standardReserveAmt,liquidityReserve)",
     "RemoveLiquidity_tokenWithdrawnAmt_1(msg_WithdrawLiquidity,tokenReserveAmt,liquidityReserve)",
     "RemoveLiquidity_guard_4(irisWithdrawCoin,msg_MinStandardAmt)",
     "RemoveLiquidity_guard_5(tokenWithdrawCoin,msg_MinToken)",
     "AddUnilateral_guard_1(msg_ExactToken,msg_CounterpartyDenom,read_k_GetStandardDenom_ctx)",
     "AddUnilateral_numerator_1(deltaFeeUnilateral)",
     "AddUnilateral_denominator_1()",
     "AddUnilateral_square_1(denominator,tokenBalanceAmt,numerator,exactTokenAmt,lptBalanceAmt)",
     "AddUnilateral_mintLptAmt_1(squareBigInt,lptBalanceAmt)",
     "AddUnilateral_guard_2(mintLptAmt,msg_MinLiquidity)",
     "RemoveUnilateral_guard_1(msg_MinToken,msg_CounterpartyDenom,read_k_GetStandardDenom_ctx)",
     "RemoveUnilateral_guard_2(lptBalanceAmt,msg_ExactLiquidity)",
     "RemoveUnilateral_guard_3(lptBalanceAmt,msg_ExactLiquidity)",
     "RemoveUnilateral_guard_4(targetBalanceAmt,msg_MinToken)",
     "RemoveUnilateral_feeNumerator_1(deltaFeeUnilateral)",
     "RemoveUnilateral_feeDenominator_1()",
     "RemoveUnilateral_targetTokenNumerator_1(lptBalanceAmt,msg_ExactLiquidity,targetBalanceAmt,feeNumerator)",
     "RemoveUnilateral_targetTokenDenominator_1(lptBalanceAmt,feeDenominator)",
     "RemoveUnilateral_targetTokenAmtAfterFee_1(targetTokenNumerator,targetTokenDenominator)",
     "RemoveUnilateral_guard_5(targetTokenAmtAfterFee,msg_MinToken)"] := rfl

/-- every rejecting guard (an `if` ending in the return of an error, or in a panic) of the translated functions and of
the handlers around them, as source text in source order: removing, weakening or reordering one breaks this -/
theorem coinswap_guards_pinned : Irismod.Gen.PureCoinswap.guards =
    ["calcExactIn: lptDenom, err := k.GetLptDenomFromDenoms(ctx, exactSoldCoin.Denom, boughtTokenDenom); err != nil",
     "calcExactIn: reservePool, err := k.GetPoolBalances(ctx, reservePoolAddress); err != nil",
     "calcExactIn: !inputReserve.IsPositive()",
     "calcExactIn: !outputReserve.IsPositive()",
     "calcExactOut: lptDenom, err := k.GetLptDenomFromDenoms(ctx, exactBoughtCoin.Denom, soldTokenDenom); err != nil",
     "calcExactOut: reservePool, err := k.GetPoolBalances(ctx, poolAddr); err != nil",
     "calcExactOut: !inputReserve.IsPositive()",
     "calcExactOut: !outputReserve.IsPositive()",
     "calcExactOut: exactBoughtCoin.Amount.GTE(outputReserve)",
     "TradeExactIn: boughtTokenAmt, err := k.calculateWithExactInput(ctx, input.Coin, output.Coin.Denom); err != nil",
     "TradeExactIn: boughtTokenAmt.LT(output.Coin.Amount)",
     "TradeExactIn: inputAddress, err := sdk.AccAddressFromBech32(input.Address); err != nil",
     "TradeExactIn: outputAddress, err := sdk.AccAddressFromBech32(output.Address); err != nil",
     "TradeExactIn: err := k.swapCoins(ctx, inputAddress, outputAddress, input.Coin, boughtToken); err != nil",
     "TradeExactOut: soldTokenAmt, err := k.calculateWithExactOutput(ctx, output.Coin, input.Coin.Denom); err != nil",
     "TradeExactOut: soldTokenAmt.GT(input.Coin.Amount)",
     "TradeExactOut: inputAddress, err := sdk.AccAddressFromBech32(input.Address); err != nil",
     "TradeExactOut: outputAddress, err := sdk.AccAddressFromBech32(output.Address); err != nil",
     "TradeExactOut: err := k.swapCoins(ctx, inputAddress, outputAddress, soldToken, output.Coin); err != nil",
     "DoubleExactIn: standardAmount, err := k.calculateWithExactInput(ctx, input.Coin, standardDenom); err != nil",
     "DoubleExactIn: inputAddress, err := sdk.AccAddressFromBech32(input.Address); err != nil",
     "DoubleExactIn: outputAddress, err := sdk.AccAddressFromBech32(output.Address); err != nil",
     "DoubleExactIn: err := k.swapCoins(ctx, inputAddress, inputAddress, input.Coin, standardCoin); err != nil",
     "DoubleExactIn: boughtAmt, err := k.calculateWithExactInput(ctx, standardCoin, output.Coin.Denom); err != nil",
     "DoubleExactIn: boughtAmt.LT(output.Coin.Amount)",
     "DoubleExactIn: err := k.swapCoins(ctx, inputAddress, outputAddress, standardCoin, boughtToken); err != nil",
     "DoubleExactOut: soldStandardAmount, err := k.calculateWithExactOutput(ctx, output.Coin, standardDenom); err != nil",
     "DoubleExactOut: soldTokenAmt, err := k.calculateWithExactOutput(ctx, soldStandardCoin, input.Coin.Denom); err != nil",
     "DoubleExactOut: soldTokenAmt.GT(input.Coin.Amount)",
     "DoubleExactOut: inputAddress, err := sdk.AccAddressFromBech32(input.Address); err != nil",
     "DoubleExactOut: outputAddress, err := sdk.AccAddressFromBech32(output.Address); err != nil",
     "DoubleExactOut: err := k.swapCoins(ctx, inputAddress, inputAddress, soldTokenCoin, soldStandardCoin); err != nil",
     "DoubleExactOut: err := k.swapCoins(ctx, inputAddress, outputAddress, soldStandardCoin, output.Coin); err != nil",
     "AddLiquidity: standardDenom == msg.MaxToken.Denom",
     "AddLiquidity: sender, err := sdk.AccAddressFromBech32(msg.Sender); err != nil",
     "AddLiquidity: err := k.DeductPoolCreationFee(ctx, sender); err != nil",
     "AddLiquidity: mintLiquidityAmt.LT(msg.MinLiquidity)",
     "AddLiquidity: balances, err := k.GetPoolBalances(ctx, pool.EscrowAddress); err != nil",
     "AddLiquidity: mintLiquidityAmt.LT(msg.MinLiquidity)",
     "AddLiquidity: standardReserveAmt.IsZero() || tokenReserveAmt.IsZero() || liquidity.IsZero()",
     "AddLiquidity: mintLiquidityAmt.LT(msg.MinLiquidity)",
     "AddLiquidity: depositAmt.GT(msg.MaxToken.Amount)",
     "RemoveLiquidity: sender, err := sdk.AccAddressFromBech32(msg.Sender); err != nil",
     "RemoveLiquidity: !exists",
     "RemoveLiquidity: balances, err := k.GetPoolBalances(ctx, pool.EscrowAddress); err != nil",
     "RemoveLiquidity: standardReserveAmt.LT(msg.MinStandardAmt)",
     "RemoveLiquidity: tokenReserveAmt.LT(msg.MinToken)",
     "RemoveLiquidity: liquidityReserve.LT(msg.WithdrawLiquidity.Amount)",
     "RemoveLiquidity: irisWithdrawCoin.Amount.LT(msg.MinStandardAmt)",
     "RemoveLiquidity: tokenWithdrawCoin.Amount.LT(msg.MinToken)",
     "RemoveLiquidity: poolAddr, err := sdk.AccAddressFromBech32(pool.EscrowAddress); err != nil",
     "AddUnilateral: sender, err := sdk.AccAddressFromBech32(msg.Sender); err != nil",
     "AddUnilateral: !exist",
     "AddUnilateral: poolAddr, err := sdk.AccAddressFromBech32(pool.EscrowAddress); err != nil",
     "AddUnilateral: balances, err := k.GetPoolBalances(ctx, pool.EscrowAddress); err != nil",
     "AddUnilateral: msg.ExactToken.Denom != msg.CounterpartyDenom && msg.ExactToken.Denom != k.GetStandardDenom(ctx)",
     "AddUnilateral: balances == nil || balances.IsZero()",
     "AddUnilateral: mintLptAmt.LT(msg.MinLiquidity)",
     "RemoveUnilateral: sender, err := sdk.AccAddressFromBech32(msg.Sender); err != nil",
     "RemoveUnilateral: !exist",
     "RemoveUnilateral: poolAddr, err := sdk.AccAddressFromBech32(pool.EscrowAddress); err != nil",
     "RemoveUnilateral: balances, err := k.GetPoolBalances(ctx, pool.EscrowAddress); err != nil",
     "RemoveUnilateral: msg.MinToken.Denom != msg.CounterpartyDenom && msg.MinToken.Denom != k.GetStandardDenom(ctx)",
     "RemoveUnilateral: lptBalanceAmt.LT(msg.ExactLiquidity)",
     "RemoveUnilateral: lptBalanceAmt.Equal(msg.ExactLiquidity)",
     "RemoveUnilateral: targetBalanceAmt.LT(msg.MinToken.Amount)",
     "RemoveUnilateral: targetTokenAmtAfterFee.LT(msg.MinToken.Amount)",
     "Keeper.Swap: err != nil",
     "Keeper.swapCoins: lptDenom, err := k.GetLptDenomFromDenoms(ctx, coinSold.Denom, coinBought.Denom); err != nil",
     "Keeper.swapCoins: err := k.bk.SendCoins(ctx, sender, poolAddr, sdk.NewCoins(coinSold)); err != nil",
     "Keeper.ValidatePool: err := types.ValidateLptDenom(lptDenom); err != nil",
     "Keeper.ValidatePool: !has",
     "Keeper.ValidatePool: _, err := k.GetPoolBalances(ctx, pool.EscrowAddress); err != nil",
     "msgServer.AddLiquidity: ctx.BlockHeader().Time.After(time.Unix(msg.Deadline, 0))",
     "msgServer.AddLiquidity: mintToken, err := m.k.AddLiquidity(ctx, msg); err != nil",
     "msgServer.AddUnilateralLiquidity: ctx.BlockHeader().Time.After(time.Unix(msg.Deadline, 0))",
     "msgServer.AddUnilateralLiquidity: mintToken, err := m.k.AddUnilateralLiquidity(ctx, msg); err != nil",
     "msgServer.RemoveLiquidity: ctx.BlockHeader().Time.After(time.Unix(msg.Deadline, 0))",
     "msgServer.RemoveLiquidity: withdrawCoins, err := m.k.RemoveLiquidity(ctx, msg); err != nil",
     "msgServer.RemoveUnilateralLiquidity: ctx.BlockHeader().Time.After(time.Unix(msg.Deadline, 0))",
     "msgServer.RemoveUnilateralLiquidity: withdrawCoins, err := m.k.RemoveUnilateralLiquidity(ctx, msg); err != nil",
     "msgServer.SwapCoin: ctx.BlockHeader().Time.After(time.Unix(msg.Deadline, 0))",
     "msgServer.SwapCoin: m.k.blockedAddrs[msg.Output.Address]",
     "msgServer.SwapCoin: err := m.k.Swap(ctx, msg); err != nil"] := rfl

/-- every statement of these functions executed for its effect — a call whose result is dropped (store and bank
writes, queue moves, hooks) or a write to a record field — with its nesting depth, in source order: a write that is
dropped, duplicated, reordered or moved into or out of a branch breaks this -/
theorem coinswap_effects_pinned : Irismod.Gen.PureCoinswap.effects =
    ["AddUnilateral: d0 squareBigInt.Sqrt(square.BigInt())",
     "Keeper.CreatePool: d0 k.setSequence(ctx, sequence+1)",
     "Keeper.CreatePool: d0 k.setPool(ctx, pool)"] := rfl

private theorem oneSubFee (fee : Nat) (hfee : fee ≤ D) :
    Dec_Sub LegacyOneDec ⟨(fee : Int)⟩ = some ⟨((D - fee : Nat) : Int)⟩ := by
  have hD : (1000000000000000000 : Int) - (fee : Int) = ((D - fee : Nat) : Int) := by
    unfold D at *; omega
  have hb : inDec (((D - fee : Nat) : Int)) = true := by
    simp only [inDec, Int.natAbs_natCast, decide_eq_true_eq]; unfold D pow2_315; omega
  simp only [Dec_Sub, Dec.sub, LegacyOneDec, Dec.one, precision, hD, chkDec, hb, if_true, Option.map_some]

private theorem deltaFits (fee : Nat) : D - fee < pow2_256 := by unfold D pow2_256; omega

/-- `GetInputPrice` (keeper/swap.go) = the model's `inputPrice`, for every non-negative amount,
reserves and every fee in [0,1] -/
theorem GetInputPrice_eq_model (dx X Y fee : Nat) (hfee : fee ≤ D) :
    GetInputPrice dx X Y ⟨fee⟩ = (inputPrice dx X Y fee).map Int.ofNat := by
  unfold GetInputPrice inputPrice inputPriceFits
  have hD : ten18 = D := rfl
  rw [NewIntWithDecimal_one_18, oneSubFee fee hfee]
  simp only [Dec_BigInt, NewIntFromBigInt_nat, deltaFits, if_true,
    Int_Mul_nat, obind_some, hD]
  generalize dx * (D - fee) = a
  generalize X * D = c
  by_cases h1 : a < pow2_256 <;> simp only [h1, if_true, if_false, decide_true, decide_false, Bool.true_and, Bool.false_and, obind_some, obind_none, Int_Mul_nat] <;> try rfl
  by_cases h2 : a * Y < pow2_256 <;> simp only [h2, if_true, if_false, decide_true, decide_false, Bool.true_and, Bool.false_and, obind_some, obind_none] <;> try rfl
  by_cases h3 : c < pow2_256 <;> simp only [h3, if_true, if_false, decide_true, decide_false, Bool.true_and, Bool.false_and, obind_some, obind_none, Int_Add_nat] <;> try rfl
  by_cases h4 : c + a < pow2_256 <;> simp only [h4, if_true, if_false, decide_true, decide_false, Bool.true_and, Bool.false_and, obind_some, obind_none, Int_Quo_nat] <;> try rfl
  by_cases h5 : c + a = 0
  · simp only [h5, if_true, ne_eq, not_true_eq_false, decide_false, obind_none]; rfl
  · simp only [h5, if_false, ne_eq, not_false_eq_true, decide_true, if_true, Option.map_some, obind_some]; rfl

/-- `GetOutputPrice` (keeper/swap.go) = the model's `outputPrice`, for every bought amount not above the
reserve (the caller's guard), every reserve that is an `sdkmath.Int` and every fee in [0,1] -/
theorem GetOutputPrice_eq_model (dy X Y fee : Nat) (hfee : fee ≤ D) (hdy : dy ≤ Y) (hY : Y < pow2_256) :
    GetOutputPrice dy X Y ⟨fee⟩ = (outputPrice dy X Y fee).map Int.ofNat := by
  unfold GetOutputPrice outputPrice outputPriceFits
  have hD : ten18 = D := rfl
  have hYd : Y - dy < pow2_256 := by omega
  rw [NewIntWithDecimal_one_18, oneSubFee fee hfee, Int_Sub_nat Y dy hdy]
  simp only [Dec_BigInt, NewIntFromBigInt_nat, deltaFits, hYd, if_true, Int_Mul_nat, obind_some, hD, OneInt]
  generalize X * dy = a
  generalize (Y - dy) * (D - fee) = c
  by_cases h1 : a < pow2_256 <;> simp only [h1, if_true, if_false, decide_true, decide_false, Bool.true_and, Bool.false_and, obind_some, obind_none, Int_Mul_nat] <;> try rfl
  by_cases h2 : a * D < pow2_256 <;> simp only [h2, if_true, if_false, decide_true, decide_false, Bool.true_and, Bool.false_and, obind_some, obind_none] <;> try rfl
  by_cases h3 : c < pow2_256 <;> simp only [h3, if_true, if_false, decide_true, decide_false, Bool.true_and, Bool.false_and, obind_some, obind_none, Int_Quo_nat] <;> try rfl
  by_cases h4 : c = 0
  · simp only [h4, if_true, ne_eq, not_true_eq_false, decide_false, obind_none, Bool.false_and]; rfl
  · simp only [h4, if_false, ne_eq, not_false_eq_true, decide_true, obind_some, Bool.true_and]
    have h1' : ((1 : Int)) = ((1 : Nat) : Int) := rfl
    rw [h1', Int_Add_nat]
    by_cases h5 : a * D / c + 1 < pow2_256 <;> simp only [h5, if_true, if_false, decide_true, decide_false, Option.map_some, Option.map_none] <;> rfl

/-! ### the swap path (keeper/swap.go): which reserve is the input side, which amount is priced, which bound is
compared with which amount -/

/-- the priced quantities: an exact-input order buys `GetInputPrice(sold, inputReserve, outputReserve, fee)`, an
exact-output order sells `GetOutputPrice(bought, inputReserve, outputReserve, fee)` — in this argument order -/
theorem swap_pricing_calls (c : GoSem.Coin) (x y : Int) (fee : Dec) :
    calcExactIn_boughtTokenAmt_1 c x y fee = GetInputPrice c.amount x y fee ∧
    calcExactOut_soldTokenAmt_1 c x y fee = GetOutputPrice c.amount x y fee := by
  unfold calcExactIn_boughtTokenAmt_1 calcExactOut_soldTokenAmt_1
  constructor
  · cases GetInputPrice c.amount x y fee <;> simp only [obind_some, obind_none]
  · cases GetOutputPrice c.amount x y fee <;> simp only [obind_some, obind_none]

/-- the rejecting guards of the swap path: empty reserves, an exact output not below the reserve, the user's bounds
(minimum bought on an exact-input order, maximum sold on an exact-output order; single and routed) -/
theorem swap_guards (x y amt bound : Int) (c : GoSem.Coin) :
    calcExactIn_guard_1 x = some (!decide (0 < x)) ∧ calcExactIn_guard_2 y = some (!decide (0 < y)) ∧
    calcExactOut_guard_1 x = some (!decide (0 < x)) ∧ calcExactOut_guard_2 y = some (!decide (0 < y)) ∧
    calcExactOut_guard_3 c y = some (decide (y ≤ c.amount)) ∧
    TradeExactIn_guard_1 amt c = some (decide (amt < c.amount)) ∧
    TradeExactOut_guard_1 amt c = some (decide (c.amount < amt)) ∧
    DoubleExactIn_guard_1 amt c = some (decide (amt < c.amount)) ∧
    DoubleExactOut_guard_1 amt c = some (decide (c.amount < amt)) :=
  ⟨rfl, rfl, rfl, rfl, rfl, rfl, rfl, rfl, rfl⟩

/-! ### arithmetic inside the liquidity handlers (keeper/keeper.go): every assignment to the variables that
carry the minted / deposited / withdrawn amounts, and every rejecting guard over them, translated on its own
(`Gen.Pure.translated` pins their number and order) and equal to the formula the model uses at that site -/

local macro "csimp" "[" hs:ident,* "]" : tactic =>
  `(tactic| simp only [$[$hs:ident],*, decide_true, decide_false, if_true, if_false, obind_some, obind_none,
      Bool.true_and, Bool.false_and, Bool.and_true, Bool.and_false, Int_Mul_nat, Int_Add_nat, Int_Quo_nat,
      NewIntFromBigInt_nat, Option.map_some, Option.map_none, ne_eq, not_true_eq_false, not_false_eq_true, Bool.false_eq_true, and_self])

/-- `AddLiquidity`, existing pool: minted shares `⌊L·dS / X⌋` -/
theorem AddLiquidity_mint_eq_model (L dS X : Nat) :
    AddLiquidity_mintLiquidityAmt_3 L dS X =
      if L * dS < pow2_256 then (if X = 0 then none else some ((L * dS / X : Nat) : Int)) else none := by
  unfold AddLiquidity_mintLiquidityAmt_3
  by_cases h : L * dS < pow2_256 <;> csimp [h]
  by_cases hx : X = 0 <;> csimp [hx]

/-- `AddLiquidity`, empty pool and new pool: minted shares = the standard amount -/
theorem AddLiquidity_mint_first (dS : Int) :
    AddLiquidity_mintLiquidityAmt_1 dS = some dS ∧ AddLiquidity_mintLiquidityAmt_2 dS = some dS := ⟨rfl, rfl⟩

/-- `AddLiquidity`, existing pool: deposited counterparty amount `⌊Y·dS / X⌋ + 1`, range checks = `addFits` -/
theorem AddLiquidity_deposit_eq_model (Y dS X : Nat) (hX : X ≠ 0) :
    AddLiquidity_depositAmt_1 Y dS X = if addFits X Y dS then some ((Y * dS / X + 1 : Nat) : Int) else none := by
  unfold AddLiquidity_depositAmt_1 addFits
  have h1' : ((1 : Int)) = ((1 : Nat) : Int) := rfl
  by_cases h : Y * dS < pow2_256 <;> csimp [h, hX]
  rw [h1', Int_Add_nat]
  by_cases h2 : Y * dS / X + 1 < pow2_256 <;> csimp [h2]

/-- the rejecting guards of `AddLiquidity` over these amounts, in source order -/
theorem AddLiquidity_guards (X Y L : Nat) (mint minL dep : Int) (maxTok : GoSem.Coin) (std : String) :
    AddLiquidity_guard_1 std maxTok = some (std == maxTok.denom) ∧
    AddLiquidity_guard_2 mint minL = some (decide (mint < minL)) ∧
    AddLiquidity_guard_3 mint minL = some (decide (mint < minL)) ∧
    AddLiquidity_guard_4 X Y L = some (decide (X = 0 ∨ Y = 0 ∨ L = 0)) ∧
    AddLiquidity_guard_5 mint minL = some (decide (mint < minL)) ∧
    AddLiquidity_guard_6 dep maxTok = some (decide (maxTok.amount < dep)) := by
  refine ⟨rfl, rfl, rfl, ?_, rfl, rfl⟩
  unfold AddLiquidity_guard_4
  simp only [Int_IsZero, Int.natCast_eq_zero]
  by_cases a : X = 0 <;> by_cases b : Y = 0 <;> by_cases c : L = 0 <;> simp [a, b, c]

/-- `RemoveLiquidity`: withdrawn amounts `⌊w·X / L⌋`, `⌊w·Y / L⌋` -/
theorem RemoveLiquidity_amounts_eq_model (w R L : Nat) (d : String) :
    RemoveLiquidity_irisWithdrawnAmt_1 ⟨d, w⟩ R L =
      (if w * R < pow2_256 then (if L = 0 then none else some ((w * R / L : Nat) : Int)) else none) ∧
    RemoveLiquidity_tokenWithdrawnAmt_1 ⟨d, w⟩ R L =
      (if w * R < pow2_256 then (if L = 0 then none else some ((w * R / L : Nat) : Int)) else none) := by
  unfold RemoveLiquidity_irisWithdrawnAmt_1 RemoveLiquidity_tokenWithdrawnAmt_1
  by_cases h : w * R < pow2_256 <;> csimp [h]
  by_cases hl : L = 0 <;> csimp [hl]

/-- one-sided fee factor `1 - ufee` as an integer numerator over `10^18` (both one-sided handlers) -/
theorem Unilateral_fee_factor (ufee : Nat) (h : ufee ≤ D) :
    (Dec_Sub LegacyOneDec ⟨(ufee : Int)⟩ >>= fun d => AddUnilateral_numerator_1 d) = some ((D - ufee : Nat) : Int) ∧
    (Dec_Sub LegacyOneDec ⟨(ufee : Int)⟩ >>= fun d => RemoveUnilateral_feeNumerator_1 d) = some ((D - ufee : Nat) : Int) ∧
    AddUnilateral_denominator_1 = some (D : Int) ∧ RemoveUnilateral_feeDenominator_1 = some (D : Int) := by
  unfold AddUnilateral_numerator_1 RemoveUnilateral_feeNumerator_1 AddUnilateral_denominator_1 RemoveUnilateral_feeDenominator_1
  rw [oneSubFee ufee h, NewIntWithDecimal_one_18]
  have hd := deltaFits ufee
  simp only [Dec_BigInt]
  csimp [hd]
  exact ⟨trivial, trivial, rfl⟩

/-- `AddUnilateralLiquidity`: the radicand `(D·T + nn·a)·L·L / (D·T)`, range checks = `add1Fits` -/
theorem AddUnilateral_square_eq_model (T L a nn : Nat) :
    AddUnilateral_square_1 D T nn a L =
      if add1Fits T L a nn then some (((D * T + nn * a) * L * L / (D * T) : Nat) : Int) else none := by
  unfold AddUnilateral_square_1 add1Fits
  simp only [Int_Mul_nat]
  generalize D * T = c
  generalize nn * a = e
  by_cases h1 : c < pow2_256 <;> csimp [h1]
  by_cases h2 : e < pow2_256 <;> csimp [h2]
  by_cases h3 : c + e < pow2_256 <;> csimp [h3]
  by_cases h4 : (c + e) * L < pow2_256 <;> csimp [h4]
  by_cases h5 : (c + e) * L * L < pow2_256 <;> csimp [h5]
  by_cases h6 : c = 0 <;> csimp [h6]

/-- `AddUnilateralLiquidity`: minted shares `isqrt(radicand) - L` (never negative: the root is at least `L`) -/
theorem AddUnilateral_mint_eq_model (r L : Nat) (hr : r < pow2_256) (hL : L ≤ r) :
    AddUnilateral_mintLptAmt_1 r L = some ((r - L : Nat) : Int) := by
  unfold AddUnilateral_mintLptAmt_1
  have h : r - L < pow2_256 := by omega
  csimp [hr]
  rw [Int_Sub_nat r L hL]
  csimp [h]

/-- `RemoveUnilateralLiquidity`: paid amount `(2L − w)·w·T·nn / (L·L·D)`, range checks = `rem1Fits` -/
theorem RemoveUnilateral_out_eq_model (T L w nn : Nat) (hw : w ≤ L + L) :
    (RemoveUnilateral_targetTokenNumerator_1 L w T nn >>= fun n =>
      RemoveUnilateral_targetTokenDenominator_1 L D >>= fun d => RemoveUnilateral_targetTokenAmtAfterFee_1 n d) =
      if rem1Fits T L w nn then some ((rem1Out T L w nn : Nat) : Int) else none := by
  unfold RemoveUnilateral_targetTokenNumerator_1 RemoveUnilateral_targetTokenDenominator_1
    RemoveUnilateral_targetTokenAmtAfterFee_1 rem1Fits rem1Out
  by_cases h1 : L + L < pow2_256 <;> csimp [h1]
  have h1' : L + L - w < pow2_256 := by omega
  rw [Int_Sub_nat (L + L) w hw]
  csimp [h1']
  by_cases h2 : (L + L - w) * w < pow2_256 <;> csimp [h2]
  by_cases h3 : (L + L - w) * w * T < pow2_256 <;> csimp [h3]
  by_cases h4 : (L + L - w) * w * T * nn < pow2_256 <;> csimp [h4]
  by_cases h5 : L * L < pow2_256 <;> csimp [h5]
  by_cases h6 : L * L * D < pow2_256 <;> csimp [h6]
  by_cases h7 : L * L * D = 0 <;> csimp [h7]

/-- the rejecting guards of the other three liquidity handlers over these amounts, in source order -/
theorem Liquidity_guards (a b : Int) (c : GoSem.Coin) (cp std : String) :
    RemoveLiquidity_guard_1 a b = some (decide (a < b)) ∧ RemoveLiquidity_guard_2 a b = some (decide (a < b)) ∧
    RemoveLiquidity_guard_3 a c = some (decide (a < c.amount)) ∧
    RemoveLiquidity_guard_4 c b = some (decide (c.amount < b)) ∧ RemoveLiquidity_guard_5 c b = some (decide (c.amount < b)) ∧
    AddUnilateral_guard_1 c cp std = some (c.denom != cp && c.denom != std) ∧
    AddUnilateral_guard_2 a b = some (decide (a < b)) ∧
    RemoveUnilateral_guard_1 c cp std = some (c.denom != cp && c.denom != std) ∧
    RemoveUnilateral_guard_2 a b = some (decide (a < b)) ∧ RemoveUnilateral_guard_3 a b = some (decide (a = b)) ∧
    RemoveUnilateral_guard_4 a c = some (decide (a < c.amount)) ∧ RemoveUnilateral_guard_5 a c = some (decide (a < c.amount)) :=
  ⟨rfl, rfl, rfl, rfl, rfl, rfl, rfl, rfl, rfl, rfl, rfl, rfl⟩

end Irismod.Props.Tie
