/-
C12 (random slice) — the exported state of the random module re-imports and preserves what
users rely on: the pending request queue, every field of every request, including several
requests due at one height.

What the module's genesis format does *not* carry is stated as the projection the theorems
use: generated randoms (store prefix 0x01) and oracle requests already handed to the service
module (prefix 0x03) are dropped by `ExportGenesis` (`importGenesis` returns them empty);
block header fields are not module state.

All theorems are about `Irismod.RandomGenesis` (export / validate / import / zero-height
preparation) for every state satisfying the queue invariant of C18/C13 (`QueueInv`, an
invariant of every chain history: `rnd_roundtrip_reachable`).
-/
import Irismod.Model.RandomGenesis
import Irismod.Props.C18

namespace Irismod.Props.C12Random
open Irismod Irismod.Random Irismod.RandomGenesis Irismod.Spec.C18 Irismod.Proofs.Random

/-- what export/import needs of a state: unique queue keys, every entry filed under the id of
    its own request and under a height that is an `int64` -/
structure GenWF (rid : Int → String → Id) (s : State) : Prop where
  nodup : AMap.NodupKeys s.queue
  entry : ∀ e ∈ s.queue, e.1.2 = rid e.2.height e.2.consumer ∧ e.1.1 < 9223372036854775808

theorem genWF_of_queueInv {s : State} (hi : QueueInv requestId s) : GenWF requestId s := by
  refine ⟨hi.nodup, fun e he => ⟨(hi.entry e he).1, ?_⟩⟩
  have := (hi.entry e he).2.2.2.2
  unfold two63 at this; omega

/-! ### the exported document holds exactly the queue -/

theorem flat_addReq_perm (g : Genesis) (h : Int) (r : Request) :
    (flat (addReq g h r)).Perm (flat g ++ [(h, r)]) := by
  induction g with
  | nil => simp [addReq, flat]
  | cons x t ih =>
    obtain ⟨h', rs⟩ := x
    by_cases hh : h' = h
    · subst hh
      simp only [addReq, if_true, flat, List.flatMap_cons, List.map_append, List.map_cons, List.map_nil,
        List.append_assoc]
      exact List.Perm.append_left _ List.perm_append_comm
    · simp only [addReq, hh, if_false, flat, List.flatMap_cons, List.append_assoc]
      exact List.Perm.append_left _ ih

theorem flat_foldl_perm (l : List ((Nat × Id) × Request)) (g : Genesis) :
    (flat (l.foldl (fun g e => addReq g (i64OfKey e.1.1) e.2) g)).Perm
      (flat g ++ l.map fun e => (i64OfKey e.1.1, e.2)) := by
  induction l generalizing g with
  | nil => simp
  | cons x t ih =>
    simp only [List.foldl_cons, List.map_cons]
    refine (ih _).trans ?_
    have := (flat_addReq_perm g (i64OfKey x.1.1) x.2).append_right (t.map fun e => (i64OfKey e.1.1, e.2))
    simpa [List.append_assoc] using this

/-- the (height, request) pairs of the exported document are exactly those of the queue -/
theorem flat_export_perm (s : State) :
    (flat (exportGenesis s)).Perm (s.queue.map fun e => (i64OfKey e.1.1, e.2)) := by
  unfold exportGenesis
  have h1 := flat_foldl_perm (iterate s.queue) []
  simp only [flat, List.flatMap_nil, List.nil_append] at h1
  exact h1.trans ((List.mergeSort_perm s.queue keyLe).map _)

/-- every pending request is exported under its own height — all of them, also when several
    are due at one height -/
theorem rnd_every_request_exported (s : State) (e : (Nat × Id) × Request) (he : e ∈ s.queue) :
    ∃ grp ∈ exportGenesis s, grp.1 = i64OfKey e.1.1 ∧ e.2 ∈ grp.2 := by
  have hm : (i64OfKey e.1.1, e.2) ∈ flat (exportGenesis s) :=
    (flat_export_perm s).mem_iff.mpr (List.mem_map.mpr ⟨e, he, rfl⟩)
  unfold flat at hm
  rcases List.mem_flatMap.mp hm with ⟨grp, hg, hr⟩
  rcases List.mem_map.mp hr with ⟨r, hr1, hr2⟩
  injection hr2 with h1 h2
  exact ⟨grp, hg, h1, by rw [← h2]; exact hr1⟩

/-- … and nothing else: the document holds as many requests as the queue -/
theorem rnd_export_count (s : State) : (flat (exportGenesis s)).length = s.queue.length := by
  simpa using (flat_export_perm s).length_eq

/-! ### the exported document validates -/

theorem addReq_heights (P : Int → Prop) (g : Genesis) (h : Int) (r : Request)
    (hg : ∀ e ∈ g, P e.1) (hh : P h) : ∀ e ∈ addReq g h r, P e.1 := by
  induction g with
  | nil => intro e he; simp [addReq] at he; rw [he]; exact hh
  | cons x t ih =>
    obtain ⟨h', rs⟩ := x
    intro e he
    by_cases hx : h' = h
    · simp only [addReq, hx, if_true, List.mem_cons] at he
      rcases he with he | he
      · rw [he]; exact hh
      · exact hg e (List.mem_cons_of_mem _ he)
    · simp only [addReq, hx, if_false, List.mem_cons] at he
      rcases he with he | he
      · rw [he]; exact hg _ List.mem_cons_self
      · exact ih (fun e he => hg e (List.mem_cons_of_mem _ he)) e he

theorem export_heights (P : Int → Prop) (s : State) (hP : ∀ e ∈ s.queue, P (i64OfKey e.1.1)) :
    ∀ grp ∈ exportGenesis s, P grp.1 := by
  unfold exportGenesis
  have hmem : ∀ e ∈ iterate s.queue, P (i64OfKey e.1.1) :=
    fun e he => hP e ((List.mergeSort_perm s.queue keyLe).mem_iff.mp he)
  generalize iterate s.queue = l at hmem
  have : ∀ (g : Genesis), (∀ e ∈ g, P e.1) →
      ∀ grp ∈ l.foldl (fun g e => addReq g (i64OfKey e.1.1) e.2) g, P grp.1 := by
    induction l with
    | nil => intro g hg; exact hg
    | cons x t ih =>
      intro g hg
      simp only [List.foldl_cons]
      exact ih (fun e he => hmem e (List.mem_cons_of_mem _ he)) _
        (addReq_heights P g _ _ hg (hmem x List.mem_cons_self))
  exact this [] (by intro e he; simp at he)

theorem i64_small {k : Nat} (h : k < 9223372036854775808) : i64OfKey k = (k : Int) := by
  unfold i64OfKey; simp [h]

/-- the export of a well-formed state passes `ValidateGenesis` -/
theorem rnd_export_validates (s : State) (hw : GenWF requestId s) :
    validateGenesis (exportGenesis s) = .ok () := by
  unfold validateGenesis
  have : (exportGenesis s).all (fun e => decide (0 ≤ e.1)) = true := by
    rw [List.all_eq_true]
    intro grp hg
    have := export_heights (fun h => 0 ≤ h) s
      (fun e he => by rw [i64_small (hw.entry e he).2]; exact Int.natCast_nonneg _) grp hg
    simpa using this
  simp [this]

/-! ### import rebuilds the queue -/

def fromList (l : List ((Nat × Id) × Request)) : AMap (Nat × Id) Request :=
  l.foldl (fun q e => AMap.set q e.1 e.2) []

theorem foldl_set_notin (l : List ((Nat × Id) × Request)) (m : AMap (Nat × Id) Request) (k : Nat × Id)
    (h : ∀ e ∈ l, e.1 ≠ k) : AMap.get? (l.foldl (fun q e => AMap.set q e.1 e.2) m) k = AMap.get? m k := by
  induction l generalizing m with
  | nil => rfl
  | cons x t ih =>
    simp only [List.foldl_cons]
    rw [ih _ (fun e he => h e (List.mem_cons_of_mem _ he)), AMap.get?_set_other _ _ _ _ (h x List.mem_cons_self)]

theorem foldl_set_mem (l : List ((Nat × Id) × Request)) (m : AMap (Nat × Id) Request)
    (hn : (l.map (·.1)).Nodup) (e : (Nat × Id) × Request) (he : e ∈ l) :
    AMap.get? (l.foldl (fun q e => AMap.set q e.1 e.2) m) e.1 = some e.2 := by
  induction l generalizing m with
  | nil => simp at he
  | cons x t ih =>
    simp only [List.map_cons, List.nodup_cons] at hn
    simp only [List.foldl_cons]
    rcases List.mem_cons.mp he with rfl | het
    · rw [foldl_set_notin t _ _ (fun y hy hc => hn.1 (List.mem_map.mpr ⟨y, hy, hc⟩)), AMap.get?_set_self]
    · exact ih _ hn.2 het

/-- reading a map built from a list with unique keys = looking the key up in the list -/
theorem get?_fromList_perm (l : List ((Nat × Id) × Request)) (q : AMap (Nat × Id) Request)
    (hp : l.Perm q) (hn : AMap.NodupKeys q) (k : Nat × Id) :
    AMap.get? (fromList l) k = AMap.get? q k := by
  have hnl : (l.map (·.1)).Nodup := (hp.map (·.1)).nodup_iff.mpr (show (q.map (·.1)).Nodup from hn)
  cases hq : AMap.get? q k with
  | some v =>
    have hm : (k, v) ∈ l := hp.mem_iff.mpr (AMap.mem_of_get? hq)
    exact foldl_set_mem l [] hnl (k, v) hm
  | none =>
    cases hl : AMap.get? (fromList l) k with
    | none => rfl
    | some v =>
      exfalso
      by_cases hx : ∃ e ∈ l, e.1 = k
      · obtain ⟨e, he, hk⟩ := hx
        have : AMap.get? q e.1 = some e.2 := AMap.get?_of_mem hn (hp.mem_iff.mp he)
        rw [hk, hq] at this; cases this
      · have := foldl_set_notin l [] k (fun e he hc => hx ⟨e, he, hc⟩)
        unfold fromList at hl
        rw [hl] at this; cases this

theorem u64_i64 {k : Nat} (h : k < 9223372036854775808) : u64 (i64OfKey k) = k := by
  rw [i64_small h]; unfold u64 two64; omega

theorem importQueue_eq (rid : Int → String → Id) (g : Genesis) :
    importQueue rid g = fromList ((flat g).map fun e => ((u64 e.1, rid e.2.height e.2.consumer), e.2)) := by
  unfold importQueue fromList
  rw [List.foldl_map]

/-- the queue `InitGenesis` builds from the export of a well-formed state reads, under every
    key, exactly what the original queue reads -/
theorem import_export_queue (rid : Int → String → Id) (s : State) (hw : GenWF rid s) (k : Nat × Id) :
    AMap.get? (importQueue rid (exportGenesis s)) k = AMap.get? s.queue k := by
  rw [importQueue_eq]
  apply get?_fromList_perm _ _ _ hw.nodup
  have h1 := (flat_export_perm s).map fun e => ((u64 e.1, rid e.2.height e.2.consumer), e.2)
  refine h1.trans ?_
  rw [List.map_map]
  have : s.queue.map ((fun e : Int × Request => ((u64 e.1, rid e.2.height e.2.consumer), e.2)) ∘
      fun e => (i64OfKey e.1.1, e.2)) = s.queue.map id := by
    apply List.map_congr_left
    intro e he
    obtain ⟨h1, h2⟩ := hw.entry e he
    simp only [Function.comp, id]
    rw [u64_i64 h2, ← h1]
  rw [this, List.map_id]

/-- export → validate → import succeeds and preserves the pending queue: every key reads the
    same request (all fields). The projection: generated randoms and oracle requests already
    handed to the service module come back empty; header fields are untouched. -/
theorem rnd_import_preserves (s : State) (hw : GenWF requestId s) :
    ∃ s', importGenesis s (exportGenesis s) = .ok s' ∧
      (∀ k, AMap.get? s'.queue k = AMap.get? s.queue k) ∧
      s'.randoms = [] ∧ s'.oracleReqs = [] ∧ s'.height = s.height := by
  unfold importGenesis importGenesisWith
  rw [rnd_export_validates s hw]
  exact ⟨_, rfl, fun k => import_export_queue requestId s hw k, rfl, rfl, rfl⟩

theorem importQueue_nodup (rid : Int → String → Id) (g : Genesis) : AMap.NodupKeys (importQueue rid g) := by
  unfold importQueue
  generalize flat g = l
  have : ∀ (m : AMap (Nat × Id) Request), AMap.NodupKeys m →
      AMap.NodupKeys (l.foldl (fun q e => AMap.set q (u64 e.1, rid e.2.height e.2.consumer) e.2) m) := by
    induction l with
    | nil => intro m hm; exact hm
    | cons x t ih => intro m hm; exact ih _ (AMap.nodup_set hm _ _)
  exact this [] (by simp [AMap.NodupKeys])

/-- the imported state is again well-formed, so the round trip can be repeated -/
theorem rnd_import_closed (s : State) (hw : GenWF requestId s) :
    ∃ s', importGenesis s (exportGenesis s) = .ok s' ∧ GenWF requestId s' := by
  obtain ⟨s', h1, h2, _⟩ := rnd_import_preserves s hw
  refine ⟨s', h1, ?_, ?_⟩
  · unfold importGenesis importGenesisWith at h1
    rw [rnd_export_validates s hw] at h1
    cases h1
    exact importQueue_nodup _ _
  · intro e he
    have hn : AMap.NodupKeys s'.queue := by
      unfold importGenesis importGenesisWith at h1
      rw [rnd_export_validates s hw] at h1
      cases h1
      exact importQueue_nodup _ _
    have hg : AMap.get? s.queue e.1 = some e.2 := by rw [← h2]; exact AMap.get?_of_mem hn he
    exact hw.entry e (AMap.mem_of_get? hg)

/-- an invalid document makes `InitGenesis` panic (never a silent partial import) -/
theorem rnd_import_invalid_panics (base : State) (g : Genesis) (e : Err) (h : validateGenesis g = .error e) :
    ∃ why, importGenesis base g = .error (.panic why) := by
  unfold importGenesis importGenesisWith
  rw [h]; exact ⟨_, rfl⟩

/-! ### zero-height preparation -/

/-- order and content are preserved by the preparation: the same requests under the same ids, in
    the same order … -/
theorem rnd_prep_content (s : State) :
    (prepZeroHeight s).queue.map (fun e => (e.1.2, e.2)) = s.queue.map (fun e => (e.1.2, e.2)) := by
  simp [prepZeroHeight, List.map_map, Function.comp]

/-- … and every height is rebased to `height - currentHeight + 1` (which is at least 1); the
    current height of an exporting chain is at least 1 -/
theorem rnd_prep_rebases (s : State) (hi : QueueInv requestId s) (hh : 1 ≤ s.height) :
    (prepZeroHeight s).queue.map (fun e => (e.1.1 : Int)) = s.queue.map (fun e => (e.1.1 : Int) - s.height + 1) ∧
    ∀ e ∈ (prepZeroHeight s).queue, 1 ≤ (e.1.1 : Int) := by
  have key : ∀ e ∈ s.queue, ((u64 (i64OfKey e.1.1 - s.height + 1) : Nat) : Int) = (e.1.1 : Int) - s.height + 1 ∧
      1 ≤ (e.1.1 : Int) - s.height + 1 := by
    intro e he
    obtain ⟨_, _, _, h4, h5⟩ := hi.entry e he
    have hk : e.1.1 < 9223372036854775808 := by unfold two63 at h5; omega
    rw [i64_small hk]
    have h0 := hi.height_nonneg
    exact ⟨u64_of_small (by omega) (by unfold two63 at *; omega), by omega⟩
  constructor
  · simp only [prepZeroHeight, List.map_map]
    apply List.map_congr_left
    intro e he
    exact (key e he).1
  · intro e he
    simp only [prepZeroHeight, List.mem_map] at he
    obtain ⟨e0, he0, rfl⟩ := he
    simp only
    rw [(key e0 he0).1]; exact (key e0 he0).2

/-- the prepared state is well-formed for export/import -/
theorem rnd_prep_genWF (s : State) (hi : QueueInv requestId s) (hh : 1 ≤ s.height) :
    GenWF requestId (prepZeroHeight s) := by
  have h0 := hi.height_nonneg
  have bound : ∀ e ∈ s.queue, e.1.1 < 9223372036854775808 ∧ s.height ≤ (e.1.1 : Int) := by
    intro e he
    obtain ⟨_, _, _, h4, h5⟩ := hi.entry e he
    unfold two63 at h5
    exact ⟨by omega, h4⟩
  have newKey : ∀ e ∈ s.queue, ((u64 (i64OfKey e.1.1 - s.height + 1) : Nat) : Int) = (e.1.1 : Int) - s.height + 1 := by
    intro e he
    rw [i64_small (bound e he).1]
    exact u64_of_small (by have := (bound e he).2; omega) (by have := (bound e he).1; unfold two63; omega)
  constructor
  · unfold AMap.NodupKeys prepZeroHeight
    simp only [List.map_map]
    have h1 : s.queue.Pairwise (fun a b => a.1 ≠ b.1) := by
      have := hi.nodup
      unfold List.Nodup at this
      rwa [List.pairwise_map] at this
    unfold List.Nodup
    rw [List.pairwise_map]
    refine List.Pairwise.imp_of_mem ?_ h1
    intro a b ha hb hab hc
    simp only [Function.comp] at hc
    apply hab
    injection hc with hc1 hc2
    have := newKey a ha
    have := newKey b hb
    exact Prod.ext (by have : (a.1.1 : Int) = b.1.1 := by rw [hc1] at *; omega
                       exact Int.ofNat.inj this) hc2
  · intro e he
    simp only [prepZeroHeight, List.mem_map] at he
    obtain ⟨e0, he0, rfl⟩ := he
    simp only
    refine ⟨(hi.entry e0 he0).1, ?_⟩
    have h1 := newKey e0 he0
    have h2 := bound e0 he0
    omega

/-- a zero-height restart succeeds and hands the new chain (height 1) exactly the prepared
    queue: every request, under its id, at its rebased height -/
theorem rnd_restart_zero_height (s : State) (hi : QueueInv requestId s) (hh : 1 ≤ s.height) :
    ∃ s', restartZeroHeight s = .ok s' ∧ s'.height = 1 ∧
      ∀ k, AMap.get? s'.queue k = AMap.get? (prepZeroHeight s).queue k := by
  obtain ⟨s1, h1, h2, _⟩ := rnd_import_preserves (prepZeroHeight s) (rnd_prep_genWF s hi hh)
  unfold restartZeroHeight
  rw [h1]
  exact ⟨_, rfl, rfl, h2⟩

/-! ### every reachable state -/

/-- on every state of every chain history: the export validates, the import succeeds and the
    pending queue is preserved -/
theorem rnd_roundtrip_reachable (s : State) (ops : List Op) (hi : QueueInv requestId s) (hv : RunValid s ops) :
    validateGenesis (exportGenesis (run s ops)) = .ok () ∧
    ∃ s', importGenesis (run s ops) (exportGenesis (run s ops)) = .ok s' ∧
      ∀ k, AMap.get? s'.queue k = AMap.get? (run s ops).queue k := by
  have hw := genWF_of_queueInv (inv_run hi hv)
  obtain ⟨s', h1, h2, _⟩ := rnd_import_preserves _ hw
  exact ⟨rnd_export_validates _ hw, s', h1, h2⟩

/-! ### a concrete non-trivial execution (used by the audit) -/

/-- three requests due at height 6 (two consumers, one of them from two blocks) and one at 9 -/
def demoState : State :=
  run Props.C18.demoInit
    [.request "cA" true 1 "t1".toUTF8 true, .request "cB" true 1 "t2".toUTF8 true,
     .request "cA" true 4 "t4".toUTF8 true, .beginBlock 6 107 "h6".toUTF8 [], .request "cA" true 0 "t3".toUTF8 true]

def demoNonvacuous : Bool :=
  let g := exportGenesis demoState
  g.length == 2 && (g.map fun e => e.2.length) == [3, 1] &&
  (match importGenesis demoState g with
   | .ok s' => demoState.queue.all (fun e => AMap.get? s'.queue e.1 == some e.2) && s'.queue.length == 4
   | .error _ => false) &&
  (match restartZeroHeight demoState with
   | .ok s' => s'.height == 1 && (s'.queue.map (·.1.1)).all (fun k => k == 1 || k == 4)
   | .error _ => false)

end Irismod.Props.C12Random
