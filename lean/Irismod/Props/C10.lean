/-
C10 — Token: ERC20 and fee-token conversions neither create nor lose value.
Headline theorems about the model `Irismod.Token`: `LossLessSwap` exactly as the code computes
it (floor of the output, ceiling of the input taken, over big integers), for every amount, every
18-decimal ratio and every pair of scales; the ERC20 conversions as ledger moves.
-/
import Irismod.Proofs.TokenSwap
import Irismod.Props.C09

namespace Irismod.Props.C10
open Irismod Irismod.Sdk Irismod.Token Irismod.Spec.C10 Irismod.Proofs.Token Irismod.Proofs.TokenSwap

/-! ### 1. `LossLessSwap`: the value statement, in full -/

/-- **C10(1a)** the minted amount is never worth more than the burned amount at the configured
ratio and scales — `minted ≤ burned · ratio · 10^(so-si)` as an exact integer inequality — for
every input, every ratio and every pair of scales -/
theorem minted_le_burned_value (x : Int) (ratio : Dec) (si so : Nat) (b m : Int)
    (h : lossLess x ratio si so = some (b, m)) : fullValue b m ratio.raw si so := by
  unfold fullValue
  rcases lossLess_char h with ⟨rfl, rfl, _⟩ | ⟨X, Q, _, hQ, _, hq, rfl, rfl⟩
  · simp
  · have hn : 0 < Q * 10 ^ so := Nat.mul_pos hQ (pow_pos10 _)
    have key := le_takenN_mul (outN X (Q * 10 ^ so) (P * 10 ^ si)) (Q * 10 ^ so) (P * 10 ^ si) hn
    have key' : ((outN X (Q * 10 ^ so) (P * 10 ^ si) : Nat) : Int) * ((P * 10 ^ si : Nat) : Int)
        ≤ ((takenN (outN X (Q * 10 ^ so) (P * 10 ^ si)) (Q * 10 ^ so) (P * 10 ^ si) : Nat) : Int) * ((Q * 10 ^ so : Nat) : Int) := by
      exact_mod_cast key
    rw [hq, precision_eq]
    simp only [pow10]
    push_cast at key' ⊢
    linarith

/-- the full statement of the value clause -/
def FullValue : Prop :=
  ∀ (x : Int) (ratio : Dec) (si so : Nat) (b m : Int),
    lossLess x ratio si so = some (b, m) → fullValue b m ratio.raw si so

theorem full_value : FullValue := minted_le_burned_value

/-- **C10(1b)** a swap never burns more than was offered, and never a negative amount -/
theorem burned_le_offered (x : Int) (ratio : Dec) (si so : Nat) (b m : Int) (hx : 0 ≤ x)
    (h : lossLess x ratio si so = some (b, m)) : 0 ≤ b ∧ b ≤ x := by
  rcases lossLess_char h with ⟨rfl, rfl, _⟩ | ⟨X, Q, _, hQ, rfl, _, rfl, rfl⟩
  · exact ⟨Int.le_refl _, hx⟩
  · have hn : 0 < Q * 10 ^ so := Nat.mul_pos hQ (pow_pos10 _)
    have := takenN_le X _ (Q * 10 ^ so) (P * 10 ^ si) hn (outN_mul_le X _ _)
    exact ⟨Int.natCast_nonneg _, by exact_mod_cast this⟩

/-- the minted amount is never negative -/
theorem minted_nonneg (x : Int) (ratio : Dec) (si so : Nat) (b m : Int)
    (h : lossLess x ratio si so = some (b, m)) : 0 ≤ m := by
  rcases lossLess_char h with ⟨rfl, rfl, _⟩ | ⟨X, Q, _, _, _, _, rfl, rfl⟩
  · exact Int.le_refl _
  · exact Int.natCast_nonneg _

theorem pow10_split {a b : Nat} (h : b ≤ a) : pow10 a = 10 ^ (a - b) * pow10 b := by
  unfold pow10
  rw [← Nat.pow_add]
  congr 1; omega

/-! ### 2. Exactness at ratio 1; the dust stays with the sender -/

/-- **C10(2)** at ratio 1 the swap is exact — `burned · 10^so = minted · 10^si` — and what is not
converted (the dust, less than `10^(si-so)` min units) is not taken from the sender -/
theorem exact_at_ratio_one (x : Int) (si so : Nat) (b m : Int) (hx : 0 ≤ x)
    (h : lossLess x ⟨precision⟩ si so = some (b, m)) :
    exactAtOne b m si so ∧ 0 ≤ b ∧ b ≤ x ∧ x - b < ((10 ^ (si - so) : Nat) : Int) := by
  have hbx := burned_le_offered x ⟨precision⟩ si so b m hx h
  refine ⟨?_, hbx.1, hbx.2, ?_⟩
  · unfold exactAtOne
    rcases lossLess_char h with ⟨rfl, rfl, _⟩ | ⟨X, Q, _, _, rfl, hq, rfl, rfl⟩
    · simp
    · have hQP : Q = P := by
        have : (Q : Int) = (P : Int) := by rw [← hq]; rfl
        exact_mod_cast this
      subst hQP
      by_cases hle : si ≤ so
      · obtain ⟨e1, e2⟩ := one_up X si so hle
        rw [e2, e1, pow10_split hle]
        simp only [pow10]; push_cast; ring
      · have hle' : so ≤ si := by omega
        obtain ⟨e1, e2⟩ := one_down X si so hle'
        rw [e2, e1, pow10_split hle']
        simp only [pow10]; push_cast; ring
  · rcases lossLess_char h with ⟨rfl, rfl, hz⟩ | ⟨X, Q, _, _, rfl, hq, rfl, rfl⟩
    · have hp : ¬ (precision ≤ 0) := by decide
      have : x = 0 := by
        rcases hz with hz | hz
        · omega
        · exact absurd hz hp
      subst this
      have : (0 : Int) < ((10 ^ (si - so) : Nat) : Int) := by positivity
      omega
    · have hQP : Q = P := by
        have : (Q : Int) = (P : Int) := by rw [← hq]; rfl
        exact_mod_cast this
      subst hQP
      by_cases hle : si ≤ so
      · obtain ⟨_, e2⟩ := one_up X si so hle
        rw [e2]
        have : (0 : Int) < ((10 ^ (si - so) : Nat) : Int) := by positivity
        omega
      · have hle' : so ≤ si := by omega
        obtain ⟨_, e2⟩ := one_down X si so hle'
        rw [e2]
        have hmod := Nat.mod_lt X (pow_pos10 (si - so))
        have hdm := Nat.div_add_mod X (10 ^ (si - so))
        have h3 : 10 ^ (si - so) * (X / 10 ^ (si - so)) = X / 10 ^ (si - so) * 10 ^ (si - so) := Nat.mul_comm _ _
        have : X - X / 10 ^ (si - so) * 10 ^ (si - so) < 10 ^ (si - so) := by omega
        have hle2 : X / 10 ^ (si - so) * 10 ^ (si - so) ≤ X := Nat.div_mul_le_self _ _
        have : ((X : Int) - ((X / 10 ^ (si - so) * 10 ^ (si - so) : Nat) : Int)) = ((X - X / 10 ^ (si - so) * 10 ^ (si - so) : Nat) : Int) := by
          rw [Nat.cast_sub hle2]
        rw [this]
        exact_mod_cast ‹X - X / 10 ^ (si - so) * 10 ^ (si - so) < 10 ^ (si - so)›

/-! ### 3. Regression examples: the inputs of the former findings F-tok-2 / F-tok-3 / F-tok-4 -/

/-- formerly `(3, 1)` (a unit minted for 0.9999999999999999999): now nothing is taken or minted -/
theorem former_rounding_witness : lossLess 3 ⟨3333333333333333333⟩ 1 0 = some (0, 0) := by decide +kernel

/-- formerly `(0, 1)`, `(2, 4)`, `(6, 10)` at ratio 1.5: now the input worth the output is taken -/
theorem former_ratio_above_one_witness :
    lossLess 1 ⟨1500000000000000000⟩ 0 0 = some (1, 1) ∧ lossLess 3 ⟨1500000000000000000⟩ 0 0 = some (3, 4) ∧
    lossLess 7 ⟨1500000000000000000⟩ 0 0 = some (7, 10) := by decide +kernel

/-- formerly a negative burn `(-499, 1)` -/
theorem former_negative_burn_witness : lossLess 1 ⟨1500500000000000000000⟩ 3 0 = some (1, 1) := by
  decide +kernel

/-- formerly `(2, 2)` at ratio 0.7 (2 is worth 1.4): now 3 is taken for 2 -/
theorem former_truncated_burn_witness : lossLess 3 ⟨700000000000000000⟩ 0 0 = some (3, 2) := by
  decide +kernel

/-! ### 4. The bank stays sound: balances never add up to more than the supply -/

/-- **C10(4a)** every accepted operation keeps Σ balances ≤ supply for every denomination, so
every burn below lowers the supply by exactly the burned amount -/
theorem sound_hook {s s' : State} {src : String} {c : Nat} {rcv : String} {amount : Int} (h : Sound s.bank)
    (hs : stepHookSwap s src c rcv amount = .ok s') : Sound s'.bank := by
  obtain ⟨_, _, h3⟩ := hook_ok hs
  rcases h3 with ⟨rfl, _⟩ | ⟨sym, t, _, _, _, _, rfl⟩
  · exact h
  · exact sound_mint h _ _ _

theorem sound_mintH {s s' : State} {owner rcv denom : String} {amount : Int} (h : Sound s.bank)
    (hh : handleMint s owner rcv denom amount = .ok s') : Sound s'.bank := by
  obtain ⟨_, sym, s1, _, h1, h2⟩ := mintH_ok hh
  obtain ⟨_, _, _, _, _, rfl⟩ := mintChecked_ok h2
  exact sound_mint (deductFee_sound h h1).1 _ _ _

theorem sound_burnH {s s' : State} {sender denom : String} {amount : Int} (h : Sound s.bank)
    (hh : handleBurn s sender denom amount = .ok s') : Sound s'.bank := by
  obtain ⟨_, b, hb, rfl⟩ := burnH_ok hh
  exact sound_burn h hb

theorem sound_step_core (s s' : State) (op : Op) (hn : norm op = op) (h : Sound s.bank) (hs : step s op = .ok s') :
    Sound s'.bank := by
  cases op with
  | issue owner symbol name minUnit scale init max mintable =>
    obtain ⟨_, _, s1, h1, _, _, rfl⟩ := issue_ok hs
    exact sound_mint (deductFee_sound h h1).1 _ _ _
  | edit owner symbol name max mintable =>
    obtain ⟨t, _, _, _, rfl⟩ := edit_ok hs
    exact h
  | mint owner rcv denom amount => exact sound_mintH h (mint_handle hs).2.2
  | burn sender denom amount => exact sound_burnH h (burn_handle hs).2.2
  | transferOwner src dst symbol =>
    obtain ⟨_, t, _, _, rfl⟩ := transferOwner_ok hs
    exact h
  | swapFee sender rcv denom amount =>
    obtain ⟨_, tb, target, ratio, tm, b, m, _, _, _, _, h2⟩ := swapFee_ok hs
    obtain ⟨_, _, _, bk, hb, rfl⟩ := swapMoves_ok h2
    exact sound_mint (sound_burn h hb) _ _ _
  | deploy authority name symbol minUnit scale =>
    obtain ⟨t, _, _, rfl⟩ := deploy_ok hs
    exact h
  | swapToErc20 sender receiver denom amount =>
    obtain ⟨_, _, t, b, _, _, hb, rfl⟩ := swapTo_ok hs
    exact sound_burn h hb
  | swapFromErc20 sender receiver denom amount =>
    obtain ⟨_, _, _, t, _, _, _, rfl⟩ := swapFrom_ok hs
    exact sound_mint h _ _ _
  | hookSwap src c rcv amount =>
    obtain ⟨_, _, h3⟩ := hook_ok hs
    rcases h3 with ⟨rfl, _⟩ | ⟨sym, t, _, _, _, _, rfl⟩
    · exact h
    · exact sound_mint h _ _ _
  | evmFault mode => rw [evmFault_ok hs]; exact h
  | updateParams authority p => rw [(updateParams_ok hs).2]; exact h
  | evmTx target logs =>
    exact logs_lift (P := fun x => Sound x.bank) (fun _ _ _ _ _ _ hx hx' => sound_hook hx hx') h (evmTx_ok hs)
  | legacyIssue _ _ _ _ _ _ _ _ => cases hn
  | legacyEdit _ _ _ _ _ => cases hn
  | legacyTransferOwner _ _ _ => cases hn
  | legacyMint owner rcv symbol amount =>
    obtain ⟨_, _, t, _, _, _, hh⟩ := legacyMint_ok hs
    exact sound_mintH h hh
  | legacyBurn sender symbol amount =>
    obtain ⟨_, _, t, _, _, _, hh⟩ := legacyBurn_ok hs
    exact sound_burnH h hh
  | upgradeErc20 authority impl =>
    obtain ⟨_, _, _, _, _, rfl⟩ := upgrade_ok hs
    exact h

theorem sound_step (s s' : State) (op : Op) (h : Sound s.bank) (hs : step s op = .ok s') : Sound s'.bank :=
  sound_step_core s s' (norm op) (norm_idem op) h (by rw [← step_norm]; exact hs)

theorem sound_run (s : State) (ops : List Op) (h : Sound s.bank) : Sound (run s ops).bank := by
  induction ops generalizing s with
  | nil => exact h
  | cons op rest ih =>
    apply ih
    unfold apply
    cases hs : step s op with
    | ok s' => exact sound_step s s' op h hs
    | error e => exact h

/-! ### 5. ERC20 conversions: exact ledger moves, native + ERC20 supply unchanged -/

theorem evmBal_set_self (s : State) (c : Nat) (h : String) (v : Nat) (b : Bank) :
    evmBal { s with evm := AMap.set s.evm (c, h) v, bank := b } c h = v := by
  simp [evmBal, getD_set_self]

theorem evmBal_set_other (s : State) (c : Nat) (h : String) (v : Nat) (b : Bank) (c' : Nat) (h' : String)
    (hne : (c, h) ≠ (c', h')) :
    evmBal { s with evm := AMap.set s.evm (c, h) v, bank := b } c' h' = evmBal s c' h' := by
  simp [evmBal, getD_set_other _ _ _ _ _ hne]

/-- the total ERC20 supply of a contract after one holder's balance is set -/
theorem evmTotal_set_same (s : State) (c : Nat) (h : String) (v : Nat) (b : Bank) :
    evmTotal { s with evm := AMap.set s.evm (c, h) v, bank := b } c + evmBal s c h = evmTotal s c + v := by
  have key := AMap.sumIf_set (fun k : Nat × String => k.1 = c) (id : Nat → Nat) s.evm (c, h) v
  simp only [decide_true, if_true, id] at key
  have hb : ((AMap.get? s.evm (c, h)).map (id : Nat → Nat)).getD 0 = evmBal s c h := by
    unfold evmBal AMap.getD
    cases AMap.get? s.evm (c, h) <;> simp
  rw [hb] at key
  exact key

theorem evmTotal_set_other (s : State) (c : Nat) (h : String) (v : Nat) (b : Bank) (c' : Nat) (hne : c ≠ c') :
    evmTotal { s with evm := AMap.set s.evm (c, h) v, bank := b } c' = evmTotal s c' := by
  unfold evmTotal
  apply AMap.sumIf_set_of_not
  simp [hne]

/-- **C10(5a)** native → ERC20: exactly `amount` is burned natively from the sender and exactly
`amount` of the bound contract is credited to the receiver; native supply + ERC20 supply of the
token is unchanged; nothing else moves -/
theorem swap_to_erc20_exact (s s' : State) (sender receiver denom : String) (amount : Int)
    (hsound : Sound s.bank) (hs : step s (.swapToErc20 sender receiver denom amount) = .ok s') :
    ∃ t, tokenByMinUnit s denom = some t ∧ t.contract ≠ 0 ∧ 0 < amount ∧
      balOf s' sender denom + amount.toNat = balOf s sender denom ∧
      supplyOf s' denom + amount.toNat = supplyOf s denom ∧
      evmBal s' t.contract receiver = evmBal s t.contract receiver + amount.toNat ∧
      supplyOf s' denom + evmTotal s' t.contract = supplyOf s denom + evmTotal s t.contract ∧
      (∀ a' d', (sender, denom) ≠ (a', d') → balOf s' a' d' = balOf s a' d') ∧
      (∀ d', denom ≠ d' → supplyOf s' d' = supplyOf s d') ∧
      (∀ c' h', (t.contract, receiver) ≠ (c', h') → evmBal s' c' h' = evmBal s c' h') ∧
      (∀ c', t.contract ≠ c' → evmTotal s' c' = evmTotal s c') ∧ s'.tokens = s.tokens := by
  obtain ⟨hpos, _, t, b, ht, hc, hb, rfl⟩ := swapTo_ok hs
  obtain ⟨e1, e2, _, e4, e5⟩ := burn_ok hb
  have e3 := burn_supply_exact hsound hb
  have et := evmTotal_set_same s t.contract receiver (evmBal s t.contract receiver + amount.toNat) b
  refine ⟨t, ht, hc, hpos, ?_, e3, evmBal_set_self .., ?_, e4, e5, ?_, ?_, rfl⟩
  · show b.balOf sender denom + amount.toNat = s.bank.balOf sender denom
    omega
  · show b.supplyOf denom + _ = s.bank.supplyOf denom + _
    omega
  · intro c' h' hne; exact evmBal_set_other _ _ _ _ _ _ _ hne
  · intro c' hne; exact evmTotal_set_other _ _ _ _ _ _ hne

/-- **C10(5b)** ERC20 → native: exactly `amount` of the bound contract is burned from the sender
and exactly `amount` is minted natively to the receiver; native + ERC20 supply unchanged -/
theorem swap_from_erc20_exact (s s' : State) (sender receiver denom : String) (amount : Int)
    (hs : step s (.swapFromErc20 sender receiver denom amount) = .ok s') :
    ∃ t, tokenByMinUnit s denom = some t ∧ t.contract ≠ 0 ∧ 0 < amount ∧ blocked s receiver = false ∧
      evmBal s' t.contract sender + amount.toNat = evmBal s t.contract sender ∧
      balOf s' receiver denom = balOf s receiver denom + amount.toNat ∧
      supplyOf s' denom = supplyOf s denom + amount.toNat ∧
      supplyOf s' denom + evmTotal s' t.contract = supplyOf s denom + evmTotal s t.contract ∧
      (∀ a' d', (receiver, denom) ≠ (a', d') → balOf s' a' d' = balOf s a' d') ∧
      (∀ d', denom ≠ d' → supplyOf s' d' = supplyOf s d') ∧
      (∀ c' h', (t.contract, sender) ≠ (c', h') → evmBal s' c' h' = evmBal s c' h') ∧
      (∀ c', t.contract ≠ c' → evmTotal s' c' = evmTotal s c') ∧ s'.tokens = s.tokens := by
  obtain ⟨hpos, hbl, _, t, ht, hc, hle, rfl⟩ := swapFrom_ok hs
  have et := evmTotal_set_same s t.contract sender (evmBal s t.contract sender - amount.toNat)
    (s.bank.mint receiver denom amount.toNat)
  have eb := evmBal_set_self s t.contract sender (evmBal s t.contract sender - amount.toNat)
    (s.bank.mint receiver denom amount.toNat)
  refine ⟨t, ht, hc, hpos, hbl, by rw [eb]; omega, balOf_mint_self .., supplyOf_mint_self .., ?_, ?_, ?_, ?_, ?_, rfl⟩
  · show (s.bank.mint receiver denom amount.toNat).supplyOf denom + _ = s.bank.supplyOf denom + _
    rw [supplyOf_mint_self]
    omega
  · intro a' d' hne; exact balOf_mint_other _ _ _ _ _ _ hne
  · intro d' hne; exact supplyOf_mint_other _ _ _ _ _ hne
  · intro c' h' hne; exact evmBal_set_other _ _ _ _ _ _ _ hne
  · intro c' hne; exact evmTotal_set_other _ _ _ _ _ _ hne

/-- **C10(5c)** the `SwapToNative` hook: the contract burned `amount` of the caller's ERC20
balance; when the contract is bound to a token exactly `amount` of its min unit is minted to the
receiver named in the event, and native + ERC20 supply is unchanged -/
theorem hook_swap_exact (s s' : State) (src : String) (c : Nat) (rcv : String) (amount : Int) (sym : String) (t : Token)
    (hc : AMap.get? s.contracts c = some sym) (ht : AMap.get? s.tokens sym = some t)
    (hs : step s (.hookSwap src c rcv amount) = .ok s') :
    0 < amount ∧ blocked s rcv = false ∧
      evmBal s' c src + amount.toNat = evmBal s c src ∧
      balOf s' rcv t.minUnit = balOf s rcv t.minUnit + amount.toNat ∧
      supplyOf s' t.minUnit = supplyOf s t.minUnit + amount.toNat ∧
      supplyOf s' t.minUnit + evmTotal s' c = supplyOf s t.minUnit + evmTotal s c ∧
      (∀ a' d', (rcv, t.minUnit) ≠ (a', d') → balOf s' a' d' = balOf s a' d') ∧
      (∀ c' h', (c, src) ≠ (c', h') → evmBal s' c' h' = evmBal s c' h') ∧ s'.tokens = s.tokens := by
  obtain ⟨_, hle, h3⟩ := hook_ok hs
  rcases h3 with ⟨_, hnone⟩ | ⟨sym', t', hc', ht', hbl, hpos, rfl⟩
  · rw [hc] at hnone; simp [ht] at hnone
  · rw [hc] at hc'; cases hc'
    rw [ht] at ht'; cases ht'
    have et := evmTotal_set_same s c src (evmBal s c src - amount.toNat) (s.bank.mint rcv t.minUnit amount.toNat)
    have eb := evmBal_set_self s c src (evmBal s c src - amount.toNat) (s.bank.mint rcv t.minUnit amount.toNat)
    refine ⟨hpos, hbl, by rw [eb]; omega, balOf_mint_self .., supplyOf_mint_self .., ?_, ?_, ?_, rfl⟩
    · show (s.bank.mint rcv t.minUnit amount.toNat).supplyOf t.minUnit + _ = s.bank.supplyOf t.minUnit + _
      rw [supplyOf_mint_self]
      omega
    · intro a' d' hne; exact balOf_mint_other _ _ _ _ _ _ hne
    · intro c' h' hne; exact evmBal_set_other _ _ _ _ _ _ _ hne

/-- **C10(5d)** a conversion that fails changes neither side (nor anything else) -/
theorem failed_conversion_unchanged (s : State) (op : Op) (e : Err) (h : step s op = .error e) :
    apply s op = s := by
  unfold apply; rw [h]

/-- **C10(5e)** a contract that does not mint / burn what it is asked to makes the conversion fail
(the keeper's balance re-checks): with such a fault no conversion in that direction is accepted -/
theorem faulty_mint_rejected (s : State) (sender receiver denom : String) (amount : Int)
    (hf : mintFaulty s.fault = true) : apply s (.swapToErc20 sender receiver denom amount) = s := by
  unfold apply
  cases hs : step s (.swapToErc20 sender receiver denom amount) with
  | error e => rfl
  | ok s' =>
    have := (swapTo_ok hs).2.1
    rw [hf] at this; cases this

theorem faulty_burn_rejected (s : State) (sender receiver denom : String) (amount : Int)
    (hf : burnFaulty s.fault = true) : apply s (.swapFromErc20 sender receiver denom amount) = s := by
  unfold apply
  cases hs : step s (.swapFromErc20 sender receiver denom amount) with
  | error e => rfl
  | ok s' =>
    have := (swapFrom_ok hs).2.2.1
    rw [hf] at this; cases this

/-! ### 6. The fee-token swap message -/

/-- **C10(6)** an accepted fee-token swap burns `b ≤ offered` from the sender — the rest, the
dust, stays with the sender — and mints `m` to the recipient, where `(b, m)` is what
`LossLessSwap` returns for the registered ratio and the two tokens' scales, and `m` is worth at
most `b` at that ratio -/
theorem swap_fee_exact (s s' : State) (sender rcv denom : String) (amount : Int) (hsound : Sound s.bank)
    (hs : step s (.swapFee sender rcv denom amount) = .ok s') :
    ∃ tb target ratio tm b m, tokenByMinUnit s denom = some tb ∧
      AMap.get? s.env.registry tb.minUnit = some (target, ratio) ∧ getToken s target = some tm ∧
      lossLess amount ratio tb.scale tm.scale = some (b, m) ∧ 0 ≤ b ∧ b ≤ amount ∧ 0 ≤ m ∧
      fullValue b m ratio.raw tb.scale tm.scale ∧
      (tb.minUnit ≠ target →
        balOf s' sender tb.minUnit + b.toNat = balOf s sender tb.minUnit ∧
        supplyOf s' tb.minUnit + b.toNat = supplyOf s tb.minUnit ∧
        supplyOf s' target = supplyOf s target + m.toNat ∧
        balOf s' (rcptOf sender rcv) target = balOf s (rcptOf sender rcv) target + m.toNat) := by
  obtain ⟨hpos, tb, target, ratio, tm, b, m, htb, hreg, htm, hll, h2⟩ := swapFee_ok hs
  obtain ⟨hb0, hm0, _, bk, hb, rfl⟩ := swapMoves_ok h2
  refine ⟨tb, target, ratio, tm, b, m, htb, hreg, htm, hll, hb0,
    (burned_le_offered amount ratio _ _ b m (Int.le_of_lt hpos) hll).2, hm0,
    minted_le_burned_value amount ratio _ _ b m hll, ?_⟩
  intro hne
  obtain ⟨e1, e2, _, e4, e5⟩ := burn_ok hb
  have e3 := burn_supply_exact hsound hb
  simp only [balOf, supplyOf]
  refine ⟨?_, ?_, ?_, by rw [balOf_mint_self, e4 _ _ (by intro e; exact hne (congrArg Prod.snd e))]⟩
  · rw [balOf_mint_other _ _ _ _ _ _ (by intro e; exact hne (congrArg Prod.snd e).symm)]
    omega
  · rw [supplyOf_mint_other _ _ _ _ _ (Ne.symm hne)]; exact e3
  · rw [supplyOf_mint_self, e5 target hne]

open Irismod.Spec.C09 (WF)

/-! ### 7. Histories of conversions: native + ERC20 supply of every bound token is constant -/

/-- the contract index and the token table agree (what `DeployERC20` establishes) -/
def Bound (s : State) : Prop :=
  (∀ sym t, AMap.get? s.tokens sym = some t → t.contract ≠ 0 → AMap.get? s.contracts t.contract = some sym) ∧
  (∀ c sym, AMap.get? s.contracts c = some sym → ∃ t, AMap.get? s.tokens sym = some t ∧ t.contract = c)

/-- the conversion operations (both directions, the hook call, whole EVM transactions with several
logs, and the contract's fault switch) -/
def isConversion : Op → Bool
  | .swapToErc20 .. => true
  | .swapFromErc20 .. => true
  | .hookSwap .. => true
  | .evmFault .. => true
  | .evmTx .. => true
  | _ => false

/-- native supply of `m` plus ERC20 supply of contract `c` -/
def combined (s : State) (m : String) (c : Nat) : Nat := supplyOf s m + evmTotal s c

/-- one accepted `SwapToNative` log: the combined supply of every bound token is unchanged — the
token credited is the one bound to the **emitting** contract -/
theorem hook_conserves (s s' : State) (src : String) (c : Nat) (rcv : String) (amount : Int) (hwf : WF s)
    (hb : Bound s) (hs : stepHookSwap s src c rcv amount = .ok s') :
    ∀ sym t, AMap.get? s.tokens sym = some t → t.contract ≠ 0 →
      combined s' t.minUnit t.contract = combined s t.minUnit t.contract := by
  have hs0 : step s (.hookSwap src c rcv amount) = .ok s' := hs
  obtain ⟨_, _, h3⟩ := hook_ok hs
  rcases h3 with ⟨rfl, hnone⟩ | ⟨sym0, t0, hc0, ht0, _, _, rfl⟩
  · intro sym t ht hc
    have hcc : c ≠ t.contract := by
      intro e
      rw [e, hb.1 sym t ht hc] at hnone
      simp [ht] at hnone
    unfold combined
    have := evmTotal_set_other s c src (evmBal s c src - amount.toNat) s.bank t.contract hcc
    simp only [supplyOf] at this ⊢
    exact congrArg (s.bank.supplyOf t.minUnit + ·) this
  · obtain ⟨_, _, _, _, _, e4, _, _, _⟩ := hook_swap_exact s _ src c rcv amount sym0 t0 hc0 ht0 hs0
    obtain ⟨t0', ht0', hc0'⟩ := hb.2 c sym0 hc0
    rw [ht0] at ht0'; cases ht0'
    intro sym t ht hc
    unfold combined
    by_cases hk : sym0 = sym
    · subst hk; rw [ht0] at ht; cases ht
      rw [hc0']; exact e4
    · have hm : t0.minUnit ≠ t.minUnit := by
        intro e
        exact hk (Props.C09.minUnit_identifies_one_token hwf ht0 ht e).1
      have hcc : c ≠ t.contract := by
        intro e
        have b' := hb.1 sym t ht hc
        rw [← e, hc0] at b'; cases b'; exact hk rfl
      have h1 := evmTotal_set_other s c src (evmBal s c src - amount.toNat)
        (s.bank.mint rcv t0.minUnit amount.toNat) t.contract hcc
      simp only [supplyOf]
      rw [h1, supplyOf_mint_other _ _ _ _ _ hm]

/-- one accepted conversion: tables unchanged, and the combined supply of every bound token unchanged -/
theorem conversion_step (s s' : State) (op : Op) (hwf : WF s) (hb : Bound s) (hsound : Sound s.bank)
    (hop : isConversion op = true) (hs : step s op = .ok s') :
    s'.tokens = s.tokens ∧ s'.minUnits = s.minUnits ∧ s'.contracts = s.contracts ∧
    ∀ sym t, AMap.get? s.tokens sym = some t → t.contract ≠ 0 →
      combined s' t.minUnit t.contract = combined s t.minUnit t.contract := by
  cases op with
  | swapToErc20 sender receiver denom amount =>
    have hs' := hs
    obtain ⟨_, _, t0, b, ht0, _, _, rfl⟩ := swapTo_ok hs'
    obtain ⟨t1, ht1, hc1, _, _, e2, _, e4, _, e6, _, e8, _⟩ := swap_to_erc20_exact s _ sender receiver denom amount hsound hs
    rw [ht0] at ht1; cases ht1
    refine ⟨rfl, rfl, rfl, ?_⟩
    intro sym t ht hc
    obtain ⟨emu, etok, _⟩ := Props.C09.tokenByMinUnit_wf hwf ht0
    unfold combined
    by_cases hk : t0.symbol = sym
    · subst hk; rw [etok] at ht; cases ht
      rw [emu]; exact e4
    · have hm : denom ≠ t.minUnit := by
        intro e
        exact hk (Props.C09.minUnit_identifies_one_token hwf etok ht (by rw [emu, e])).1
      have hcc : t0.contract ≠ t.contract := by
        intro e
        have a := hb.1 t0.symbol t0 etok hc1
        have b' := hb.1 sym t ht hc
        rw [e, b'] at a; cases a; exact hk rfl
      rw [e6 _ hm, e8 _ hcc]
  | swapFromErc20 sender receiver denom amount =>
    have hs' := hs
    obtain ⟨_, _, _, t0, ht0, _, _, rfl⟩ := swapFrom_ok hs'
    obtain ⟨t1, ht1, hc1, _, _, _, _, _, e4, _, e6, _, e8, _⟩ := swap_from_erc20_exact s _ sender receiver denom amount hs
    rw [ht0] at ht1; cases ht1
    refine ⟨rfl, rfl, rfl, ?_⟩
    intro sym t ht hc
    obtain ⟨emu, etok, _⟩ := Props.C09.tokenByMinUnit_wf hwf ht0
    unfold combined
    by_cases hk : t0.symbol = sym
    · subst hk; rw [etok] at ht; cases ht
      rw [emu]; exact e4
    · have hm : denom ≠ t.minUnit := by
        intro e
        exact hk (Props.C09.minUnit_identifies_one_token hwf etok ht (by rw [emu, e])).1
      have hcc : t0.contract ≠ t.contract := by
        intro e
        have a := hb.1 t0.symbol t0 etok hc1
        have b' := hb.1 sym t ht hc
        rw [e, b'] at a; cases a; exact hk rfl
      rw [e6 _ hm, e8 _ hcc]
  | hookSwap src c rcv amount =>
    have f := hook_frame (show stepHookSwap s src c rcv amount = .ok s' from hs)
    exact ⟨f.tokens, f.minUnits, f.contracts, hook_conserves s s' src c rcv amount hwf hb hs⟩
  | evmTx target logs =>
    have hl := evmTx_ok hs
    have f := logs_frame hl
    refine ⟨f.tokens, f.minUnits, f.contracts, ?_⟩
    have key := logs_lift
      (P := fun x => Frame s x ∧ ∀ sym t, AMap.get? s.tokens sym = some t → t.contract ≠ 0 →
        combined x t.minUnit t.contract = combined s t.minUnit t.contract)
      (by
        intro x x' src c rcv amount ⟨fx, hx⟩ hstep
        have hwfx : WF x := Props.C09.wf_of_lookups hwf (fun _ => by rw [fx.tokens]) (fun _ => by rw [fx.minUnits])
        have hbx : Bound x := by
          constructor
          · intro sym2 t2 ht2 hc2; rw [fx.tokens] at ht2; rw [fx.contracts]; exact hb.1 sym2 t2 ht2 hc2
          · intro c2 sym2 hcs; rw [fx.contracts] at hcs; rw [fx.tokens]; exact hb.2 c2 sym2 hcs
        refine ⟨fx.trans (hook_frame hstep), ?_⟩
        intro sym t ht hc
        rw [hook_conserves x x' src c rcv amount hwfx hbx hstep sym t (by rw [fx.tokens]; exact ht) hc]
        exact hx sym t ht hc)
      ⟨Frame.refl s, fun _ _ _ _ => rfl⟩ hl
    exact key.2
  | evmFault mode =>
    rw [evmFault_ok hs]
    exact ⟨rfl, rfl, rfl, fun _ _ _ _ => rfl⟩
  | issue _ _ _ _ _ _ _ _ => cases hop
  | edit _ _ _ _ _ => cases hop
  | mint _ _ _ _ => cases hop
  | burn _ _ _ => cases hop
  | transferOwner _ _ _ => cases hop
  | swapFee _ _ _ _ => cases hop
  | deploy _ _ _ _ _ => cases hop
  | updateParams _ _ => cases hop
  | legacyIssue _ _ _ _ _ _ _ _ => cases hop
  | legacyEdit _ _ _ _ _ => cases hop
  | legacyMint _ _ _ _ => cases hop
  | legacyBurn _ _ _ => cases hop
  | legacyTransferOwner _ _ _ => cases hop
  | upgradeErc20 _ _ => cases hop

/-- **C10(7a)** the target of an EVM transaction plays no role in the hook: the token credited by a
`SwapToNative` log is decided by the contract that **emitted** the log -/
theorem evm_tx_target_irrelevant (s : State) (t1 t2 : Emitter) (logs : List SwapLog) :
    step s (.evmTx t1 logs) = step s (.evmTx t2 logs) := rfl

/-- a log emitted by an address that is not a contract of ours (so not bound to any token) moves nothing -/
theorem log_of_unbound_emitter_ignored (s : State) (n : Nat) (src rcv : String) (amount : Int) :
    stepLog s { emitter := .u n, src := src, rcv := rcv, amount := amount } = .ok s := rfl

/-- a log emitted by the contract bound to token `t`: the caller's ERC20 balance of *that* contract
is burned and exactly `amount` of `t`'s min unit is minted to the receiver named in the log -/
theorem log_of_bound_emitter_exact (s s' : State) (c : Nat) (src rcv : String) (amount : Int) (sym : String) (t : Token)
    (hc : AMap.get? s.contracts c = some sym) (ht : AMap.get? s.tokens sym = some t)
    (hs : stepLog s { emitter := .k c, src := src, rcv := rcv, amount := amount } = .ok s') :
    0 < amount ∧ evmBal s' c src + amount.toNat = evmBal s c src ∧
      balOf s' rcv t.minUnit = balOf s rcv t.minUnit + amount.toNat ∧
      supplyOf s' t.minUnit + evmTotal s' c = supplyOf s t.minUnit + evmTotal s c := by
  obtain ⟨h1, _, h3, h4, _, h6, _⟩ := hook_swap_exact s s' src c rcv amount sym t hc ht hs
  exact ⟨h1, h3, h4, h6⟩

/-- **C10(7b)** an accepted EVM transaction, whatever its target and however many logs of bound,
other bound, or unbound emitters its receipt carries, leaves native + ERC20 supply of every bound
token unchanged and touches nothing but the two ledgers -/
theorem evm_tx_conserves (s s' : State) (target : Emitter) (logs : List SwapLog) (hwf : WF s) (hb : Bound s)
    (hsound : Sound s.bank) (hs : step s (.evmTx target logs) = .ok s') :
    Frame s s' ∧ Sound s'.bank ∧
    ∀ sym t, AMap.get? s.tokens sym = some t → t.contract ≠ 0 →
      combined s' t.minUnit t.contract = combined s t.minUnit t.contract :=
  ⟨logs_frame (evmTx_ok hs), sound_step s s' _ hsound hs,
   (conversion_step s s' _ hwf hb hsound rfl hs).2.2.2⟩

/-- **C10(7)** over every sequence mixing conversions in both directions, hook calls, contract
faults and failed attempts: for every token bound to a contract, native supply + ERC20 supply
is what it was at the start -/
theorem conversions_conserve (s : State) (ops : List Op) (hwf : WF s) (hb : Bound s) (hsound : Sound s.bank)
    (hops : ∀ op ∈ ops, isConversion op = true) (sym : String) (t : Token)
    (ht : AMap.get? s.tokens sym = some t) (hc : t.contract ≠ 0) :
    combined (run s ops) t.minUnit t.contract = combined s t.minUnit t.contract := by
  induction ops generalizing s with
  | nil => rfl
  | cons op rest ih =>
    show combined (run (apply s op) rest) t.minUnit t.contract = _
    unfold apply
    cases hs : step s op with
    | error e => exact ih s hwf hb hsound (fun o ho => hops o (List.mem_cons_of_mem _ ho)) ht
    | ok s' =>
      obtain ⟨e1, e2, e3, e4⟩ := conversion_step s s' op hwf hb hsound (hops op (List.mem_cons_self ..)) hs
      have hwf' : WF s' := Props.C09.wf_of_lookups hwf (fun _ => by rw [e1]) (fun _ => by rw [e2])
      have hb' : Bound s' := by
        constructor
        · intro sym2 t2 ht2 hc2; rw [e1] at ht2; rw [e3]; exact hb.1 sym2 t2 ht2 hc2
        · intro c sym2 hcs; rw [e3] at hcs; rw [e1]; exact hb.2 c sym2 hcs
      simp only
      rw [ih s' hwf' hb' (sound_step s s' op hsound hs) (fun o ho => hops o (List.mem_cons_of_mem _ ho)) (by rw [e1]; exact ht)]
      exact e4 sym t ht hc


/-! ### 8. The contract binding is established by deployment and kept by every operation -/

/-- the binding invariant: the contract index and the token table agree, contracts are the ones
the module account created (`1 ≤ c ≤ nonce`) -/
structure BoundInv (s : State) : Prop where
  wf    : WF s
  bound : Bound s
  fresh : ∀ sym t, AMap.get? s.tokens sym = some t → t.contract ≤ s.nonce
  pos   : ∀ c sym, AMap.get? s.contracts c = some sym → c ≠ 0

theorem boundinv_of_same {s s' : State} (h : BoundInv s) (hwf' : WF s') (e1 : s'.tokens = s.tokens)
    (e3 : s'.contracts = s.contracts) (e4 : s'.nonce = s.nonce) : BoundInv s' where
  wf := hwf'
  bound := by
    constructor
    · intro sym t ht hc; rw [e1] at ht; rw [e3]; exact h.bound.1 sym t ht hc
    · intro c sym hcs; rw [e3] at hcs; rw [e1]; exact h.bound.2 c sym hcs
  fresh := by intro sym t ht; rw [e1] at ht; rw [e4]; exact h.fresh sym t ht
  pos := by intro c sym hcs; rw [e3] at hcs; exact h.pos c sym hcs

/-- replacing a token by one with the same contract -/
theorem boundinv_modify {s s' : State} {sym : String} {t t' : Token} (h : BoundInv s) (hwf' : WF s')
    (ht : AMap.get? s.tokens sym = some t) (hc : t'.contract = t.contract)
    (e1 : s'.tokens = AMap.set s.tokens sym t') (e3 : s'.contracts = s.contracts) (e4 : s'.nonce = s.nonce) :
    BoundInv s' where
  wf := hwf'
  bound := by
    constructor
    · intro sym2 t2 ht2 hc2
      rw [e1, get?_set] at ht2
      rw [e3]
      by_cases hk : sym = sym2
      · subst hk
        simp only [if_true, Option.some.injEq] at ht2
        subst ht2
        rw [hc] at hc2 ⊢
        exact h.bound.1 sym t ht hc2
      · simp only [hk, if_false] at ht2
        exact h.bound.1 sym2 t2 ht2 hc2
    · intro c sym2 hcs
      rw [e3] at hcs
      obtain ⟨t2, ht2, hc2⟩ := h.bound.2 c sym2 hcs
      rw [e1, get?_set]
      by_cases hk : sym = sym2
      · subst hk
        rw [ht] at ht2; cases ht2
        exact ⟨t', by simp, by rw [hc]; exact hc2⟩
      · exact ⟨t2, by simp [hk, ht2], hc2⟩
  fresh := by
    intro sym2 t2 ht2
    rw [e1, get?_set] at ht2
    rw [e4]
    by_cases hk : sym = sym2
    · subst hk
      simp only [if_true, Option.some.injEq] at ht2
      subst ht2
      rw [hc]; exact h.fresh sym t ht
    · simp only [hk, if_false] at ht2
      exact h.fresh sym2 t2 ht2
  pos := by intro c sym2 hcs; rw [e3] at hcs; exact h.pos c sym2 hcs

/-- adding an unbound token under a new symbol -/
theorem boundinv_add {s s' : State} {sym : String} {t : Token} (h : BoundInv s) (hwf' : WF s')
    (hn : AMap.get? s.tokens sym = none) (hc : t.contract = 0)
    (e1 : s'.tokens = AMap.set s.tokens sym t) (e3 : s'.contracts = s.contracts) (e4 : s'.nonce = s.nonce) :
    BoundInv s' where
  wf := hwf'
  bound := by
    constructor
    · intro sym2 t2 ht2 hc2
      rw [e1, get?_set] at ht2
      rw [e3]
      by_cases hk : sym = sym2
      · subst hk
        simp only [if_true, Option.some.injEq] at ht2
        subst ht2
        exact absurd hc hc2
      · simp only [hk, if_false] at ht2
        exact h.bound.1 sym2 t2 ht2 hc2
    · intro c sym2 hcs
      rw [e3] at hcs
      obtain ⟨t2, ht2, hc2⟩ := h.bound.2 c sym2 hcs
      have hk : sym ≠ sym2 := by intro e; rw [e, ht2] at hn; cases hn
      exact ⟨t2, by rw [e1, get?_set]; simp [hk, ht2], hc2⟩
  fresh := by
    intro sym2 t2 ht2
    rw [e1, get?_set] at ht2
    rw [e4]
    by_cases hk : sym = sym2
    · subst hk
      simp only [if_true, Option.some.injEq] at ht2
      subst ht2
      rw [hc]; exact Nat.zero_le _
    · simp only [hk, if_false] at ht2
      exact h.fresh sym2 t2 ht2
  pos := by intro c sym2 hcs; rw [e3] at hcs; exact h.pos c sym2 hcs

/-- deployment binds the fresh contract `nonce + 1` to a token that had none -/
theorem boundinv_deploy {s s' : State} {t : Token} (h : BoundInv s) (hwf' : WF s')
    (hcase : AMap.get? s.tokens t.symbol = some t ∨ AMap.get? s.tokens t.symbol = none) (hc : t.contract = 0)
    (e1 : s'.tokens = AMap.set s.tokens t.symbol { t with contract := s.nonce + 1 })
    (e3 : s'.contracts = AMap.set s.contracts (s.nonce + 1) t.symbol) (e4 : s'.nonce = s.nonce + 1) :
    BoundInv s' where
  wf := hwf'
  bound := by
    constructor
    · intro sym2 t2 ht2 hc2
      rw [e1, get?_set] at ht2
      rw [e3, get?_set]
      by_cases hk : t.symbol = sym2
      · subst hk
        simp only [if_true, Option.some.injEq] at ht2
        subst ht2
        simp
      · simp only [hk, if_false] at ht2
        have := h.fresh sym2 t2 ht2
        have hne : s.nonce + 1 ≠ t2.contract := by omega
        simp only [hne, if_false]
        exact h.bound.1 sym2 t2 ht2 hc2
    · intro c sym2 hcs
      rw [e3, get?_set] at hcs
      rw [e1]
      by_cases hk : s.nonce + 1 = c
      · simp only [hk, if_true, Option.some.injEq] at hcs
        subst hcs
        exact ⟨{ t with contract := s.nonce + 1 }, by rw [get?_set]; simp, hk⟩
      · simp only [hk, if_false] at hcs
        obtain ⟨t2, ht2, hc2⟩ := h.bound.2 c sym2 hcs
        have hne : t.symbol ≠ sym2 := by
          intro e
          rcases hcase with hsome | hnone
          · rw [e, ht2] at hsome; cases hsome
            exact h.pos c sym2 hcs (by rw [← hc2, hc])
          · rw [e, ht2] at hnone; cases hnone
        exact ⟨t2, by rw [get?_set]; simp [hne, ht2], hc2⟩
  fresh := by
    intro sym2 t2 ht2
    rw [e1, get?_set] at ht2
    rw [e4]
    by_cases hk : t.symbol = sym2
    · simp only [hk, if_true, Option.some.injEq] at ht2
      subst ht2
      exact Nat.le_refl _
    · simp only [hk, if_false] at ht2
      have := h.fresh sym2 t2 ht2
      omega
  pos := by
    intro c sym2 hcs
    rw [e3, get?_set] at hcs
    by_cases hk : s.nonce + 1 = c
    · omega
    · simp only [hk, if_false] at hcs
      exact h.pos c sym2 hcs

theorem frame_mintH {s s' : State} {owner rcv denom : String} {amount : Int}
    (hh : handleMint s owner rcv denom amount = .ok s') :
    s'.tokens = s.tokens ∧ s'.contracts = s.contracts ∧ s'.nonce = s.nonce ∧ s'.evm = s.evm ∧ s'.impl = s.impl := by
  obtain ⟨_, sym, s1, _, h1, h2⟩ := mintH_ok hh
  obtain ⟨_, _, _, _, _, _, _, rfl⟩ := deductFee_ok h1
  obtain ⟨_, _, _, _, _, rfl⟩ := mintChecked_ok h2
  exact ⟨rfl, rfl, rfl, rfl, rfl⟩

theorem frame_burnH {s s' : State} {sender denom : String} {amount : Int}
    (hh : handleBurn s sender denom amount = .ok s') :
    s'.tokens = s.tokens ∧ s'.contracts = s.contracts ∧ s'.nonce = s.nonce ∧ s'.evm = s.evm ∧ s'.impl = s.impl := by
  obtain ⟨_, b, _, rfl⟩ := burnH_ok hh
  exact ⟨rfl, rfl, rfl, rfl, rfl⟩

theorem boundinv_step_core (s s' : State) (op : Op) (hn : norm op = op) (h : BoundInv s) (hs : step s op = .ok s') :
    BoundInv s' := by
  have hwf' := Props.C09.wf_step s s' op h.wf hs
  cases op with
  | issue owner symbol name minUnit scale init max mintable =>
    obtain ⟨_, _, s1, h1, hc1, _, rfl⟩ := issue_ok hs
    obtain ⟨_, _, _, _, _, _, _, rfl⟩ := deductFee_ok h1
    exact boundinv_add (t := issuedToken owner symbol name minUnit scale init max mintable) h hwf'
      (contains_false hc1) rfl rfl rfl rfl
  | edit owner symbol name max mintable =>
    obtain ⟨t, ht, _, _, rfl⟩ := edit_ok hs
    exact boundinv_modify (t' := edited t name max mintable) h hwf' ht rfl rfl rfl rfl
  | mint owner rcv denom amount =>
    obtain ⟨e1, e3, e4, _, _⟩ := frame_mintH (mint_handle hs).2.2
    exact boundinv_of_same h hwf' e1 e3 e4
  | burn sender denom amount =>
    obtain ⟨e1, e3, e4, _, _⟩ := frame_burnH (burn_handle hs).2.2
    exact boundinv_of_same h hwf' e1 e3 e4
  | legacyIssue _ _ _ _ _ _ _ _ => cases hn
  | legacyEdit _ _ _ _ _ => cases hn
  | legacyTransferOwner _ _ _ => cases hn
  | legacyMint owner rcv symbol amount =>
    obtain ⟨_, _, t, _, _, _, hh⟩ := legacyMint_ok hs
    obtain ⟨e1, e3, e4, _, _⟩ := frame_mintH hh
    exact boundinv_of_same h hwf' e1 e3 e4
  | legacyBurn sender symbol amount =>
    obtain ⟨_, _, t, _, _, _, hh⟩ := legacyBurn_ok hs
    obtain ⟨e1, e3, e4, _, _⟩ := frame_burnH hh
    exact boundinv_of_same h hwf' e1 e3 e4
  | upgradeErc20 authority impl =>
    have e := (upgrade_ok hs).2.2.2.2.2
    subst e
    exact boundinv_of_same h hwf' rfl rfl rfl
  | transferOwner src dst symbol =>
    obtain ⟨_, t, ht, _, rfl⟩ := transferOwner_ok hs
    exact boundinv_modify (t' := { t with owner := dst }) h hwf' ht rfl rfl rfl rfl
  | swapFee sender rcv denom amount =>
    obtain ⟨_, tb, target, ratio, tm, b, m, _, _, _, _, h2⟩ := swapFee_ok hs
    obtain ⟨_, _, _, bk, _, rfl⟩ := swapMoves_ok h2
    exact boundinv_of_same h hwf' rfl rfl rfl
  | deploy authority name symbol minUnit scale =>
    obtain ⟨t, hb, hc, rfl⟩ := deploy_ok hs
    have hcase : AMap.get? s.tokens t.symbol = some t ∨ AMap.get? s.tokens t.symbol = none := by
      rcases Props.C09.buildErc20_cases h.wf hb with ⟨e1, _⟩ | ⟨e1, _, _, _, _⟩
      · exact Or.inl e1
      · exact Or.inr e1
    exact boundinv_deploy h hwf' hcase hc rfl rfl rfl
  | swapToErc20 sender receiver denom amount =>
    obtain ⟨_, _, t, b, _, _, _, rfl⟩ := swapTo_ok hs
    exact boundinv_of_same h hwf' rfl rfl rfl
  | swapFromErc20 sender receiver denom amount =>
    obtain ⟨_, _, _, t, _, _, _, rfl⟩ := swapFrom_ok hs
    exact boundinv_of_same h hwf' rfl rfl rfl
  | hookSwap src c rcv amount =>
    obtain ⟨_, _, h3⟩ := hook_ok hs
    rcases h3 with ⟨rfl, _⟩ | ⟨sym, t, _, _, _, _, rfl⟩
    · exact boundinv_of_same h hwf' rfl rfl rfl
    · exact boundinv_of_same h hwf' rfl rfl rfl
  | evmFault mode =>
    have e := evmFault_ok hs
    subst e
    exact boundinv_of_same h hwf' rfl rfl rfl
  | updateParams authority p =>
    have e := (updateParams_ok hs).2
    subst e
    exact boundinv_of_same h hwf' rfl rfl rfl
  | evmTx target logs =>
    have f := logs_frame (evmTx_ok hs)
    exact boundinv_of_same h hwf' f.tokens f.contracts f.nonce

/-- **C10(8a)** every accepted operation of the module — both Msg services, conversions, deployment,
upgrade — keeps the binding invariant -/
theorem boundinv_step (s s' : State) (op : Op) (h : BoundInv s) (hs : step s op = .ok s') : BoundInv s' :=
  boundinv_step_core s s' (norm op) (norm_idem op) h (by rw [← step_norm]; exact hs)

theorem boundinv_genesis (bank : Bank) (p : Params) (env : Env) : BoundInv (genesis bank p env) where
  wf := Props.C09.wf_genesis bank p env
  bound := by
    constructor
    · intro sym t ht hc
      simp only [genesis, AMap.get?] at ht
      split at ht
      · cases ht; exact absurd rfl hc
      · cases ht
    · intro c sym hcs; simp [genesis] at hcs
  fresh := by
    intro sym t ht
    simp only [genesis, AMap.get?] at ht
    split at ht
    · cases ht; exact Nat.le_refl _
    · cases ht
  pos := by intro c sym hcs; simp [genesis] at hcs

/-- **C10(8b)** in every state reachable from genesis by any history the binding invariant holds,
so `conversions_conserve` applies from there -/
theorem boundinv_run (s : State) (ops : List Op) (h : BoundInv s) : BoundInv (run s ops) := by
  induction ops generalizing s with
  | nil => exact h
  | cons op rest ih =>
    apply ih
    unfold apply
    cases hs : step s op with
    | ok s' => exact boundinv_step s s' op h hs
    | error e => exact h

/-! ### 9. `UpgradeERC20`, and the legacy Msg service on the conversion ledgers -/

/-- **C10(9a)** only the authority upgrades the ERC20 implementation -/
theorem upgrade_only_authority (s s' : State) (authority impl : String)
    (hs : step s (.upgradeErc20 authority impl) = .ok s') : authority = GOV :=
  (upgrade_ok hs).1

/-- … anyone else is rejected and nothing changes -/
theorem upgrade_by_stranger_rejected (s : State) (sender impl : String) (hne : sender ≠ GOV) :
    apply s (.upgradeErc20 sender impl) = s := by
  unfold apply
  cases hs : step s (.upgradeErc20 sender impl) with
  | error e => rfl
  | ok s' => exact absurd (upgrade_only_authority s s' sender impl hs) hne

/-- **C10(9b)** an accepted upgrade changes no ledger: not a balance, not a supply, not an ERC20
balance, no token, no index, no tally, no parameter — only the beacon's implementation, which becomes
the (code-carrying) address the message names -/
theorem upgrade_changes_no_ledger (s s' : State) (authority impl : String)
    (hs : step s (.upgradeErc20 authority impl) = .ok s') :
    s' = { s with impl := impl } ∧ s'.bank = s.bank ∧ s'.evm = s.evm ∧ s'.tokens = s.tokens ∧
    s'.burned = s.burned ∧ hasCode s impl = true ∧
    (∀ m c, combined s' m c = combined s m c) := by
  obtain ⟨_, _, _, _, hc, rfl⟩ := upgrade_ok hs
  exact ⟨rfl, rfl, rfl, rfl, rfl, hc, fun _ _ => rfl⟩

/-- an upgrade needs ERC20 enabled, a configured beacon and an answering EVM; an implementation
without code makes the beacon revert -/
theorem upgrade_without_code_rejected (s : State) (authority impl : String) (hc : hasCode s impl = false) :
    apply s (.upgradeErc20 authority impl) = s := by
  unfold apply
  cases hs : step s (.upgradeErc20 authority impl) with
  | error e => rfl
  | ok s' =>
    have := (upgrade_ok hs).2.2.2.2.1
    rw [hc] at this; cases this

/-- **C10(9c)** the beacon's implementation changes only by an accepted `UpgradeERC20` -/
theorem impl_changes_only_by_upgrade_core (s s' : State) (op : Op) (hn : norm op = op) (hs : step s op = .ok s')
    (hop : Spec.C10.isUpgrade op = false) : s'.impl = s.impl := by
  cases op with
  | issue owner symbol name minUnit scale init max mintable =>
    obtain ⟨_, _, s1, h1, _, _, rfl⟩ := issue_ok hs
    obtain ⟨_, _, _, _, _, _, _, rfl⟩ := deductFee_ok h1
    rfl
  | edit owner symbol name max mintable => obtain ⟨t, _, _, _, rfl⟩ := edit_ok hs; rfl
  | mint owner rcv denom amount => exact (frame_mintH (mint_handle hs).2.2).2.2.2.2
  | burn sender denom amount => exact (frame_burnH (burn_handle hs).2.2).2.2.2.2
  | transferOwner src dst symbol => obtain ⟨_, t, _, _, rfl⟩ := transferOwner_ok hs; rfl
  | swapFee sender rcv denom amount =>
    obtain ⟨_, tb, target, ratio, tm, b, m, _, _, _, _, h2⟩ := swapFee_ok hs
    obtain ⟨_, _, _, bk, _, rfl⟩ := swapMoves_ok h2
    rfl
  | deploy authority name symbol minUnit scale => obtain ⟨t, _, _, rfl⟩ := deploy_ok hs; rfl
  | swapToErc20 sender receiver denom amount => obtain ⟨_, _, t, b, _, _, _, rfl⟩ := swapTo_ok hs; rfl
  | swapFromErc20 sender receiver denom amount => obtain ⟨_, _, _, t, _, _, _, rfl⟩ := swapFrom_ok hs; rfl
  | hookSwap src c rcv amount => exact (hook_frame (show stepHookSwap s src c rcv amount = .ok s' from hs)).impl
  | evmFault mode => rw [evmFault_ok hs]
  | updateParams authority p => rw [(updateParams_ok hs).2]
  | evmTx target logs => exact (logs_frame (evmTx_ok hs)).impl
  | legacyIssue _ _ _ _ _ _ _ _ => cases hn
  | legacyEdit _ _ _ _ _ => cases hn
  | legacyTransferOwner _ _ _ => cases hn
  | legacyMint owner rcv symbol amount =>
    obtain ⟨_, _, t, _, _, _, hh⟩ := legacyMint_ok hs
    exact (frame_mintH hh).2.2.2.2
  | legacyBurn sender symbol amount =>
    obtain ⟨_, _, t, _, _, _, hh⟩ := legacyBurn_ok hs
    exact (frame_burnH hh).2.2.2.2
  | upgradeErc20 _ _ => cases hop

theorem isUpgrade_norm (op : Op) : Spec.C10.isUpgrade (norm op) = Spec.C10.isUpgrade op := by cases op <;> rfl

theorem impl_changes_only_by_upgrade (s s' : State) (op : Op) (hs : step s op = .ok s')
    (hop : Spec.C10.isUpgrade op = false) : s'.impl = s.impl :=
  impl_changes_only_by_upgrade_core s s' (norm op) (norm_idem op) (by rw [← step_norm]; exact hs)
    (by rw [isUpgrade_norm]; exact hop)

/-- **C10(9d)** the legacy Msg service never touches the ERC20 ledger, and its mint / burn move the
native ledger exactly as the v1 msg-server method they call (`Props.C09.legacy_*_refines_v1`) -/
theorem legacy_leaves_erc20_untouched (s s' : State) (op : Op) (hs : step s op = .ok s')
    (hop : Spec.C09.isC09Op op = true) : s'.evm = s.evm ∧ s'.contracts = s.contracts ∧ s'.nonce = s.nonce := by
  have key : ∀ op, norm op = op → Spec.C09.isC09Op op = true → step s op = .ok s' →
      s'.evm = s.evm ∧ s'.contracts = s.contracts ∧ s'.nonce = s.nonce := by
    intro op hn hop hs
    cases op with
    | issue owner symbol name minUnit scale init max mintable =>
      obtain ⟨_, _, s1, h1, _, _, rfl⟩ := issue_ok hs
      obtain ⟨_, _, _, _, _, _, _, rfl⟩ := deductFee_ok h1
      exact ⟨rfl, rfl, rfl⟩
    | edit owner symbol name max mintable => obtain ⟨t, _, _, _, rfl⟩ := edit_ok hs; exact ⟨rfl, rfl, rfl⟩
    | mint owner rcv denom amount =>
      obtain ⟨_, e3, e4, e5, _⟩ := frame_mintH (mint_handle hs).2.2; exact ⟨e5, e3, e4⟩
    | burn sender denom amount =>
      obtain ⟨_, e3, e4, e5, _⟩ := frame_burnH (burn_handle hs).2.2; exact ⟨e5, e3, e4⟩
    | transferOwner src dst symbol => obtain ⟨_, t, _, _, rfl⟩ := transferOwner_ok hs; exact ⟨rfl, rfl, rfl⟩
    | legacyMint owner rcv symbol amount =>
      obtain ⟨_, _, t, _, _, _, hh⟩ := legacyMint_ok hs
      obtain ⟨_, e3, e4, e5, _⟩ := frame_mintH hh; exact ⟨e5, e3, e4⟩
    | legacyBurn sender symbol amount =>
      obtain ⟨_, _, t, _, _, _, hh⟩ := legacyBurn_ok hs
      obtain ⟨_, e3, e4, e5, _⟩ := frame_burnH hh; exact ⟨e5, e3, e4⟩
    | legacyIssue _ _ _ _ _ _ _ _ => cases hn
    | legacyEdit _ _ _ _ _ => cases hn
    | legacyTransferOwner _ _ _ => cases hn
    | swapFee _ _ _ _ => cases hop
    | deploy _ _ _ _ _ => cases hop
    | swapToErc20 _ _ _ _ => cases hop
    | swapFromErc20 _ _ _ _ => cases hop
    | hookSwap _ _ _ _ => cases hop
    | evmFault _ => cases hop
    | updateParams _ _ => cases hop
    | evmTx _ _ => cases hop
    | upgradeErc20 _ _ => cases hop
  exact key (norm op) (norm_idem op) (by rw [Props.C09.isC09Op_norm]; exact hop) (by rw [← step_norm]; exact hs)

end Irismod.Props.C10
