/-
C10 — Token: ERC20 and fee-token conversions neither create nor lose value.
Headline theorems about the model `Irismod.Token`: `LossLessSwap` exactly as the code computes
it (two rounding `Mul`s, `TruncateDec`, give-back, truncated burn), for every amount, every
non-negative 18-decimal ratio and every pair of scales; the ERC20 conversions as ledger moves.
-/
import Irismod.Proofs.TokenSwap

namespace Irismod.Props.C10
open Irismod Irismod.Sdk Irismod.Token Irismod.Spec.C10 Irismod.Proofs.Token Irismod.Proofs.TokenSwap

/-! ### 1. `LossLessSwap`: what holds for every ratio -/

/-- **C10(1a)** a swap never burns more than was offered -/
theorem burned_le_offered (x q si so : Nat) (b m : Int)
    (h : lossLess (x : Int) ⟨(q : Int)⟩ si so = some (b, m)) : b ≤ (x : Int) := by
  obtain ⟨o, revN, _, hb, _⟩ := lossLess_char h
  rw [hb]; exact burnOf_le x o revN

/-- the minted amount is never negative -/
theorem minted_nonneg (x q si so : Nat) (b m : Int)
    (h : lossLess (x : Int) ⟨(q : Int)⟩ si so = some (b, m)) : 0 ≤ m := by
  obtain ⟨o, revN, hm, _, _⟩ := lossLess_char h
  rw [hm]; exact Int.natCast_nonneg _

theorem pow10_split {a b : Nat} (h : b ≤ a) : pow10 a = 10 ^ (a - b) * pow10 b := by
  unfold pow10
  rw [← Nat.pow_add]
  congr 1; omega

/-- **C10(1b)** the minted amount is worth at most what was *offered*, up to half a unit of the
18th decimal (one rounding step): `minted ≤ offered · ratio · 10^(so-si) + ½·10^-18` -/
theorem minted_le_offered_value (x q si so : Nat) (b m : Int)
    (h : lossLess (x : Int) ⟨(q : Int)⟩ si so = some (b, m)) : offeredValue (x : Int) m (q : Int) si so := by
  obtain ⟨o, revN, hm, _, hcase⟩ := lossLess_char h
  unfold offeredValue within
  rcases hcase with ⟨hle, hk, ho, _⟩ | ⟨hlt, hj, ho, _⟩
  · have key := offered_down x q (si - so) hk
    rw [← ho, ← hm] at key
    rw [pow10_split hle]
    have hs : (0 : Int) ≤ ((pow10 so : Nat) : Int) := by positivity
    have := mul_le_mul_of_nonneg_right key hs
    rw [precision_eq]
    push_cast at this ⊢
    linarith
  · have key := offered_up x q (so - si)
    rw [← ho, ← hm] at key
    rw [pow10_split (Nat.le_of_lt hlt)]
    have hs : (0 : Int) ≤ ((pow10 si : Nat) : Int) := by positivity
    have := mul_le_mul_of_nonneg_right key hs
    rw [precision_eq]
    push_cast at this ⊢
    linarith

/-! ### 2. Exactness at ratio 1 -/

/-- **C10(2)** at ratio 1 the swap is exact — `burned · 10^so = minted · 10^si` — and what is not
converted (the dust, less than `10^(si-so)` min units) stays with the sender -/
theorem exact_at_ratio_one (x si so : Nat) (b m : Int)
    (h : lossLess (x : Int) ⟨precision⟩ si so = some (b, m)) :
    exactAtOne b m si so ∧ 0 ≤ b ∧ b ≤ (x : Int) ∧ (x : Int) - b < ((10 ^ (si - so) : Nat) : Int) := by
  have h' : lossLess (x : Int) ⟨((P : Nat) : Int)⟩ si so = some (b, m) := h
  obtain ⟨o, revN, hm, hb, hcase⟩ := lossLess_char h'
  unfold exactAtOne
  rcases hcase with ⟨hle, hk, ho, hr⟩ | ⟨hlt, hj, ho, hr⟩
  · obtain ⟨e1, e2⟩ := one_down x (si - so) hk
    rw [← ho] at e1 e2
    rw [hr] at hb
    rw [hb, e2, hm, e1, pow10_split hle]
    have hmod : x % 10 ^ (si - so) < 10 ^ (si - so) := Nat.mod_lt _ (pow_pos10 _)
    have hle' : x % 10 ^ (si - so) ≤ x := Nat.mod_le _ _
    have hdm := Nat.div_add_mod x (10 ^ (si - so))
    refine ⟨?_, by positivity, by omega, by omega⟩
    have : x - x % 10 ^ (si - so) = x / 10 ^ (si - so) * 10 ^ (si - so) := by
      have h3 : 10 ^ (si - so) * (x / 10 ^ (si - so)) = x / 10 ^ (si - so) * 10 ^ (si - so) := Nat.mul_comm _ _
      omega
    rw [this]
    push_cast; ring
  · obtain ⟨e1, e2⟩ := one_up x (so - si)
    rw [ho] at hm hb
    rw [hr] at hb
    rw [hb, e1, hm, e2, pow10_split (Nat.le_of_lt hlt)]
    have : (0 : Int) < ((10 ^ (si - so) : Nat) : Int) := by positivity
    refine ⟨?_, by positivity, Int.le_refl _, by omega⟩
    push_cast; ring

/-! ### 3. The full value statement is false of the code; what is true instead -/

/-- the full statement: the minted amount is worth at most the burned amount at the
configured ratio and scales -/
def FullValue : Prop :=
  ∀ (x q si so : Nat) (b m : Int), 0 < q → si ≤ 18 → so ≤ 18 →
    lossLess (x : Int) ⟨(q : Int)⟩ si so = some (b, m) → fullValue b m (q : Int) si so

/-- **F-tok-2** one rounding step carries the product across an integer:
`LossLessSwap(3, 3.333333333333333333, 1, 0) = (3, 1)` although `0.3 × 3.333333333333333333 < 1` -/
theorem rounding_witness :
    lossLess 3 ⟨3333333333333333333⟩ 1 0 = some (3, 1) ∧ ¬ fullValue 3 1 3333333333333333333 1 0 ∧
    valueClass 3 1 3333333333333333333 1 0 = "F-tok-2" := by
  decide +kernel

/-- **F-tok-3** for a ratio above 1 the give-back ignores the ratio:
ratio 1.5, equal scales: `1 ↦ (burn 0, mint 1)`, `3 ↦ (2, 4)`, `7 ↦ (6, 10)` -/
theorem ratio_above_one_witness :
    lossLess 1 ⟨1500000000000000000⟩ 0 0 = some (0, 1) ∧ lossLess 3 ⟨1500000000000000000⟩ 0 0 = some (2, 4) ∧
    lossLess 7 ⟨1500000000000000000⟩ 0 0 = some (6, 10) ∧ ¬ fullValue 0 1 1500000000000000000 0 0 ∧
    valueClass 0 1 1500000000000000000 0 0 = "F-tok-3" := by
  decide +kernel

/-- … and the burned amount can even be negative: `LossLessSwap(1, 1500.5, 3, 0) = (-499, 1)` -/
theorem negative_burn_witness : lossLess 1 ⟨1500500000000000000000⟩ 3 0 = some (-499, 1) := by
  decide +kernel

/-- **F-tok-4** the burn is truncated (rounded in the sender's favour), so below ratio 1 up to one
min unit escapes: `LossLessSwap(3, 0.7, 0, 0) = (2, 2)` although 2 is worth 1.4 -/
theorem truncated_burn_witness :
    lossLess 3 ⟨700000000000000000⟩ 0 0 = some (2, 2) ∧ ¬ fullValue 2 2 700000000000000000 0 0 ∧
    valueClass 2 2 700000000000000000 0 0 = "F-tok-4" := by
  decide +kernel

theorem not_FullValue : ¬ FullValue := by
  intro hall
  exact rounding_witness.2.1 (hall 3 3333333333333333333 1 0 3 1 (by decide) (by decide) (by decide) rounding_witness.1)

/-- **C10(3)** the strongest true form for ratios up to 1: the minted amount is worth at most
the burned amount **plus one input min unit**, up to half a unit of the last decimal kept -/
theorem value_partial_ratio_le_one (x q si so : Nat) (b m : Int) (hq : (q : Int) ≤ precision)
    (h : lossLess (x : Int) ⟨(q : Int)⟩ si so = some (b, m)) : nearValue b m (q : Int) si so := by
  have hq' : q ≤ P := by rw [precision_eq] at hq; exact_mod_cast hq
  obtain ⟨o, revN, hm, hb, hcase⟩ := lossLess_char h
  unfold nearValue within
  rcases hcase with ⟨hle, hk, ho, hr⟩ | ⟨hlt, hj, ho, hr⟩
  · have key := near_down x q (si - so) hk hq'
    rw [← ho, ← hr, ← hb, ← hm] at key
    rw [Nat.max_eq_left hle, pow10_split hle]
    have hs : (0 : Int) ≤ ((pow10 so : Nat) : Int) := by positivity
    have := mul_le_mul_of_nonneg_right key hs
    rw [precision_eq]
    push_cast at this ⊢
    linarith
  · have key := near_up x q (so - si) hj hq'
    rw [← ho, ← hr, ← hb, ← hm] at key
    rw [Nat.max_eq_right (Nat.le_of_lt hlt), pow10_split (Nat.le_of_lt hlt)]
    have hs : (0 : Int) ≤ ((pow10 si : Nat) : Int) := by positivity
    have := mul_le_mul_of_nonneg_right key hs
    rw [precision_eq]
    push_cast at this ⊢
    linarith

/-- every violation of the full statement lies in the class of a recorded finding: the monitor's
classification never leaves one unclassified -/
theorem violations_are_classified (x q si so : Nat) (b m : Int)
    (h : lossLess (x : Int) ⟨(q : Int)⟩ si so = some (b, m)) : valueClass b m (q : Int) si so ≠ "" := by
  unfold valueClass
  split
  · decide
  · split
    · decide
    · rename_i _ hq
      have hq' : (q : Int) ≤ precision := by omega
      simp [value_partial_ratio_le_one x q si so b m hq' h]

/-! ### 4. The bank stays sound: balances never add up to more than the supply -/

/-- **C10(4a)** every accepted operation keeps Σ balances ≤ supply for every denomination, so
every burn below lowers the supply by exactly the burned amount -/
theorem sound_step (s s' : State) (op : Op) (h : Sound s.bank) (hs : step s op = .ok s') : Sound s'.bank := by
  cases op with
  | issue owner symbol name minUnit scale init max mintable =>
    obtain ⟨_, _, s1, h1, _, _, rfl⟩ := issue_ok hs
    exact sound_mint (deductFee_sound h h1).1 _ _ _
  | edit owner symbol name max mintable =>
    obtain ⟨t, _, _, _, rfl⟩ := edit_ok hs
    exact h
  | mint owner rcv denom amount =>
    obtain ⟨_, _, sym, s1, _, h1, h2⟩ := mint_ok hs
    obtain ⟨_, _, _, _, _, rfl⟩ := mintChecked_ok h2
    exact sound_mint (deductFee_sound h h1).1 _ _ _
  | burn sender denom amount =>
    obtain ⟨_, _, b, hb, rfl⟩ := burn_step_ok hs
    exact sound_burn h hb
  | transferOwner src dst symbol =>
    obtain ⟨_, t, _, _, rfl⟩ := transferOwner_ok hs
    exact h
  | swapFee sender rcv denom amount =>
    obtain ⟨_, tb, target, ratio, tm, b, m, _, _, _, _, h2⟩ := swapFee_ok hs
    obtain ⟨_, _, _, bk, hb, rfl⟩ := swapMoves_ok h2
    exact sound_mint (sound_burn h hb) _ _ _
  | deploy authority name symbol minUnit scale =>
    obtain ⟨t, _, _, rfl⟩ := deploy_ok hs
    exact h
  | swapToErc20 sender receiver denom amount =>
    obtain ⟨_, _, t, b, _, _, hb, rfl⟩ := swapTo_ok hs
    exact sound_burn h hb
  | swapFromErc20 sender receiver denom amount =>
    obtain ⟨_, _, _, t, _, _, _, rfl⟩ := swapFrom_ok hs
    exact sound_mint h _ _ _
  | hookSwap src c rcv amount =>
    obtain ⟨_, _, h3⟩ := hook_ok hs
    rcases h3 with ⟨rfl, _⟩ | ⟨sym, t, _, _, _, _, rfl⟩
    · exact h
    · exact sound_mint h _ _ _
  | evmFault mode => rw [evmFault_ok hs]; exact h
  | updateParams authority p => rw [(updateParams_ok hs).2]; exact h

theorem sound_run (s : State) (ops : List Op) (h : Sound s.bank) : Sound (run s ops).bank := by
  induction ops generalizing s with
  | nil => exact h
  | cons op rest ih =>
    apply ih
    unfold apply
    cases hs : step s op with
    | ok s' => exact sound_step s s' op h hs
    | error e => exact h

/-! ### 5. ERC20 conversions: exact ledger moves, native + ERC20 supply unchanged -/

theorem evmBal_set_self (s : State) (c : Nat) (h : String) (v : Nat) (b : Bank) :
    evmBal { s with evm := AMap.set s.evm (c, h) v, bank := b } c h = v := by
  simp [evmBal, getD_set_self]

theorem evmBal_set_other (s : State) (c : Nat) (h : String) (v : Nat) (b : Bank) (c' : Nat) (h' : String)
    (hne : (c, h) ≠ (c', h')) :
    evmBal { s with evm := AMap.set s.evm (c, h) v, bank := b } c' h' = evmBal s c' h' := by
  simp [evmBal, getD_set_other _ _ _ _ _ hne]

/-- the total ERC20 supply of a contract after one holder's balance is set -/
theorem evmTotal_set_same (s : State) (c : Nat) (h : String) (v : Nat) (b : Bank) :
    evmTotal { s with evm := AMap.set s.evm (c, h) v, bank := b } c + evmBal s c h = evmTotal s c + v := by
  have key := AMap.sumIf_set (fun k : Nat × String => k.1 = c) (id : Nat → Nat) s.evm (c, h) v
  simp only [decide_true, if_true, id] at key
  have hb : ((AMap.get? s.evm (c, h)).map (id : Nat → Nat)).getD 0 = evmBal s c h := by
    unfold evmBal AMap.getD
    cases AMap.get? s.evm (c, h) <;> simp
  rw [hb] at key
  exact key

theorem evmTotal_set_other (s : State) (c : Nat) (h : String) (v : Nat) (b : Bank) (c' : Nat) (hne : c ≠ c') :
    evmTotal { s with evm := AMap.set s.evm (c, h) v, bank := b } c' = evmTotal s c' := by
  unfold evmTotal
  apply AMap.sumIf_set_of_not
  simp [hne]

/-- **C10(5a)** native → ERC20: exactly `amount` is burned natively from the sender and exactly
`amount` of the bound contract is credited to the receiver; native supply + ERC20 supply of the
token is unchanged; nothing else moves -/
theorem swap_to_erc20_exact (s s' : State) (sender receiver denom : String) (amount : Int)
    (hsound : Sound s.bank) (hs : step s (.swapToErc20 sender receiver denom amount) = .ok s') :
    ∃ t, tokenByMinUnit s denom = some t ∧ t.contract ≠ 0 ∧ 0 < amount ∧
      balOf s' sender denom + amount.toNat = balOf s sender denom ∧
      supplyOf s' denom + amount.toNat = supplyOf s denom ∧
      evmBal s' t.contract receiver = evmBal s t.contract receiver + amount.toNat ∧
      supplyOf s' denom + evmTotal s' t.contract = supplyOf s denom + evmTotal s t.contract ∧
      (∀ a' d', (sender, denom) ≠ (a', d') → balOf s' a' d' = balOf s a' d') ∧
      (∀ d', denom ≠ d' → supplyOf s' d' = supplyOf s d') ∧
      (∀ c' h', (t.contract, receiver) ≠ (c', h') → evmBal s' c' h' = evmBal s c' h') ∧
      (∀ c', t.contract ≠ c' → evmTotal s' c' = evmTotal s c') ∧ s'.tokens = s.tokens := by
  obtain ⟨hpos, _, t, b, ht, hc, hb, rfl⟩ := swapTo_ok hs
  obtain ⟨e1, e2, _, e4, e5⟩ := burn_ok hb
  have e3 := burn_supply_exact hsound hb
  have et := evmTotal_set_same s t.contract receiver (evmBal s t.contract receiver + amount.toNat) b
  refine ⟨t, ht, hc, hpos, ?_, e3, evmBal_set_self .., ?_, e4, e5, ?_, ?_, rfl⟩
  · show b.balOf sender denom + amount.toNat = s.bank.balOf sender denom
    omega
  · show b.supplyOf denom + _ = s.bank.supplyOf denom + _
    omega
  · intro c' h' hne; exact evmBal_set_other _ _ _ _ _ _ _ hne
  · intro c' hne; exact evmTotal_set_other _ _ _ _ _ _ hne

/-- **C10(5b)** ERC20 → native: exactly `amount` of the bound contract is burned from the sender
and exactly `amount` is minted natively to the receiver; native + ERC20 supply unchanged -/
theorem swap_from_erc20_exact (s s' : State) (sender receiver denom : String) (amount : Int)
    (hs : step s (.swapFromErc20 sender receiver denom amount) = .ok s') :
    ∃ t, tokenByMinUnit s denom = some t ∧ t.contract ≠ 0 ∧ 0 < amount ∧ blocked s receiver = false ∧
      evmBal s' t.contract sender + amount.toNat = evmBal s t.contract sender ∧
      balOf s' receiver denom = balOf s receiver denom + amount.toNat ∧
      supplyOf s' denom = supplyOf s denom + amount.toNat ∧
      supplyOf s' denom + evmTotal s' t.contract = supplyOf s denom + evmTotal s t.contract ∧
      (∀ a' d', (receiver, denom) ≠ (a', d') → balOf s' a' d' = balOf s a' d') ∧
      (∀ d', denom ≠ d' → supplyOf s' d' = supplyOf s d') ∧
      (∀ c' h', (t.contract, sender) ≠ (c', h') → evmBal s' c' h' = evmBal s c' h') ∧
      (∀ c', t.contract ≠ c' → evmTotal s' c' = evmTotal s c') ∧ s'.tokens = s.tokens := by
  obtain ⟨hpos, hbl, _, t, ht, hc, hle, rfl⟩ := swapFrom_ok hs
  have et := evmTotal_set_same s t.contract sender (evmBal s t.contract sender - amount.toNat)
    (s.bank.mint receiver denom amount.toNat)
  have eb := evmBal_set_self s t.contract sender (evmBal s t.contract sender - amount.toNat)
    (s.bank.mint receiver denom amount.toNat)
  refine ⟨t, ht, hc, hpos, hbl, by rw [eb]; omega, balOf_mint_self .., supplyOf_mint_self .., ?_, ?_, ?_, ?_, ?_, rfl⟩
  · show (s.bank.mint receiver denom amount.toNat).supplyOf denom + _ = s.bank.supplyOf denom + _
    rw [supplyOf_mint_self]
    omega
  · intro a' d' hne; exact balOf_mint_other _ _ _ _ _ _ hne
  · intro d' hne; exact supplyOf_mint_other _ _ _ _ _ hne
  · intro c' h' hne; exact evmBal_set_other _ _ _ _ _ _ _ hne
  · intro c' hne; exact evmTotal_set_other _ _ _ _ _ _ hne

/-- **C10(5c)** the `SwapToNative` hook: the contract burned `amount` of the caller's ERC20
balance; when the contract is bound to a token exactly `amount` of its min unit is minted to the
receiver named in the event, and native + ERC20 supply is unchanged -/
theorem hook_swap_exact (s s' : State) (src : String) (c : Nat) (rcv : String) (amount : Int) (sym : String) (t : Token)
    (hc : AMap.get? s.contracts c = some sym) (ht : AMap.get? s.tokens sym = some t)
    (hs : step s (.hookSwap src c rcv amount) = .ok s') :
    0 < amount ∧ blocked s rcv = false ∧
      evmBal s' c src + amount.toNat = evmBal s c src ∧
      balOf s' rcv t.minUnit = balOf s rcv t.minUnit + amount.toNat ∧
      supplyOf s' t.minUnit = supplyOf s t.minUnit + amount.toNat ∧
      supplyOf s' t.minUnit + evmTotal s' c = supplyOf s t.minUnit + evmTotal s c ∧
      (∀ a' d', (rcv, t.minUnit) ≠ (a', d') → balOf s' a' d' = balOf s a' d') ∧
      (∀ c' h', (c, src) ≠ (c', h') → evmBal s' c' h' = evmBal s c' h') ∧ s'.tokens = s.tokens := by
  obtain ⟨_, hle, h3⟩ := hook_ok hs
  rcases h3 with ⟨_, hnone⟩ | ⟨sym', t', hc', ht', hbl, hpos, rfl⟩
  · rw [hc] at hnone; simp [ht] at hnone
  · rw [hc] at hc'; cases hc'
    rw [ht] at ht'; cases ht'
    have et := evmTotal_set_same s c src (evmBal s c src - amount.toNat) (s.bank.mint rcv t.minUnit amount.toNat)
    have eb := evmBal_set_self s c src (evmBal s c src - amount.toNat) (s.bank.mint rcv t.minUnit amount.toNat)
    refine ⟨hpos, hbl, by rw [eb]; omega, balOf_mint_self .., supplyOf_mint_self .., ?_, ?_, ?_, rfl⟩
    · show (s.bank.mint rcv t.minUnit amount.toNat).supplyOf t.minUnit + _ = s.bank.supplyOf t.minUnit + _
      rw [supplyOf_mint_self]
      omega
    · intro a' d' hne; exact balOf_mint_other _ _ _ _ _ _ hne
    · intro c' h' hne; exact evmBal_set_other _ _ _ _ _ _ _ hne

/-- **C10(5d)** a conversion that fails changes neither side (nor anything else) -/
theorem failed_conversion_unchanged (s : State) (op : Op) (e : Err) (h : step s op = .error e) :
    apply s op = s := by
  unfold apply; rw [h]

/-- **C10(5e)** a contract that does not mint / burn what it is asked to makes the conversion fail
(the keeper's balance re-checks): with such a fault no conversion in that direction is accepted -/
theorem faulty_mint_rejected (s : State) (sender receiver denom : String) (amount : Int)
    (hf : mintFaulty s.fault = true) : apply s (.swapToErc20 sender receiver denom amount) = s := by
  unfold apply
  cases hs : step s (.swapToErc20 sender receiver denom amount) with
  | error e => rfl
  | ok s' =>
    have := (swapTo_ok hs).2.1
    rw [hf] at this; cases this

theorem faulty_burn_rejected (s : State) (sender receiver denom : String) (amount : Int)
    (hf : burnFaulty s.fault = true) : apply s (.swapFromErc20 sender receiver denom amount) = s := by
  unfold apply
  cases hs : step s (.swapFromErc20 sender receiver denom amount) with
  | error e => rfl
  | ok s' =>
    have := (swapFrom_ok hs).2.2.1
    rw [hf] at this; cases this

/-! ### 6. The fee-token swap message -/

/-- **C10(6)** an accepted fee-token swap burns `b ≤ offered` from the sender — the rest, the
dust, stays with the sender — and mints `m` to the recipient, where `(b, m)` is what
`LossLessSwap` returns for the registered ratio and the two tokens' scales -/
theorem swap_fee_exact (s s' : State) (sender rcv denom : String) (amount : Int) (hsound : Sound s.bank)
    (hs : step s (.swapFee sender rcv denom amount) = .ok s') :
    ∃ tb target ratio tm b m, tokenByMinUnit s denom = some tb ∧
      AMap.get? s.env.registry tb.minUnit = some (target, ratio) ∧ getToken s target = some tm ∧
      lossLess amount ratio tb.scale tm.scale = some (b, m) ∧ 0 ≤ b ∧ 0 ≤ m ∧
      (tb.minUnit ≠ target →
        balOf s' sender tb.minUnit + b.toNat = balOf s sender tb.minUnit ∧
        supplyOf s' tb.minUnit + b.toNat = supplyOf s tb.minUnit ∧
        supplyOf s' target = supplyOf s target + m.toNat ∧
        balOf s' (rcptOf sender rcv) target = balOf s (rcptOf sender rcv) target + m.toNat) := by
  obtain ⟨_, tb, target, ratio, tm, b, m, htb, hreg, htm, hll, h2⟩ := swapFee_ok hs
  obtain ⟨hb0, hm0, _, bk, hb, rfl⟩ := swapMoves_ok h2
  refine ⟨tb, target, ratio, tm, b, m, htb, hreg, htm, hll, hb0, hm0, ?_⟩
  intro hne
  obtain ⟨e1, e2, _, e4, e5⟩ := burn_ok hb
  have e3 := burn_supply_exact hsound hb
  simp only [balOf, supplyOf]
  refine ⟨?_, ?_, ?_, by rw [balOf_mint_self, e4 _ _ (by intro e; exact hne (congrArg Prod.snd e))]⟩
  · rw [balOf_mint_other _ _ _ _ _ _ (by intro e; exact hne (congrArg Prod.snd e).symm)]
    omega
  · rw [supplyOf_mint_other _ _ _ _ _ (Ne.symm hne)]; exact e3
  · rw [supplyOf_mint_self, e5 target hne]

end Irismod.Props.C10
