/-
Tie between the oracle model's history bookkeeping (C17: a feed keeps only the newest latest-history values) and /repo's
source, over the REGENERATED translation `Gen/PureOracle.lean` (`extract/x_pure`, every run): the number of oldest
values `SetFeedValue` and `EditFeed` ask `deleteOldestFeedValue` to remove, computed in Go's `int` from the stored count
and the `uint64` bound, is the number the model drops (`insertValue`: `vals.drop (len + 1 − hist)`; `trimTo`:
`vals.drop (len − hist)` when the bound shrinks below the count), and only the creator edits.
-/
import Irismod.Gen.PureOracle
import Irismod.Model.Oracle
namespace Irismod.Props.Tie
open Irismod.GoSem Irismod.Gen.PureOracle

theorem oracle_all_translated : Irismod.Gen.PureOracle.untranslated = [] := rfl

theorem oracle_translated_pinned : Irismod.Gen.PureOracle.translated =
    ["SetFeedValue_delta_1(counter,latestHistory)",
     "SetFeedValue_call_deleteOldestFeedValue_1_arg1(feedName)",
     "SetFeedValue_call_deleteOldestFeedValue_1_arg2(delta)",
     "EditFeed_guard_1(msg_Creator,feed_Creator)",
     "EditFeed_cond_2(msg_LatestHistory)",
     "EditFeed_cond_3(expectCnt,cnt)",
     "EditFeed_expectCnt_1(msg_LatestHistory)",
     "EditFeed_call_deleteOldestFeedValue_1_arg1(feed_FeedName)",
     "EditFeed_call_deleteOldestFeedValue_1_arg2(cnt,expectCnt)",
     "EditFeed_feed_LatestHistory_1(msg_LatestHistory)",
     "EditFeed_cond_4(read_types_Modified_msg_Description)"] := rfl

/-- every rejecting guard (an `if` ending in the return of an error, or in a panic) of the translated functions and of
the handlers around them, as source text in source order: removing, weakening or reordering one breaks this -/
theorem oracle_guards_pinned : Irismod.Gen.PureOracle.guards =
    ["EditFeed: !found",
     "EditFeed: msg.Creator != feed.Creator",
     "EditFeed: err := k.sk.UpdateRequestContext( ctx, requestContextID, providers, msg.ResponseThreshold, msg.ServiceFeeCap, msg.Timeout, msg.RepeatedFrequency, -1, creator, ); err != nil",
     "Keeper.CreateFeed: _, found := k.GetFeed(ctx, msg.FeedName); found",
     "Keeper.CreateFeed: requestContextID, err := k.sk.CreateRequestContext( ctx, msg.ServiceName, providers, creator, msg.Input, msg.ServiceFeeCap, msg.Timeout, true, msg.RepeatedFrequency, -1, serviceexported.PAUSED, msg.ResponseThreshold, types.ModuleName, ); err != nil",
     "Keeper.StartFeed: !found",
     "Keeper.StartFeed: msg.Creator != feed.Creator",
     "Keeper.StartFeed: !existed",
     "Keeper.StartFeed: reqCtx.State == serviceexported.RUNNING",
     "Keeper.StartFeed: err := k.sk.StartRequestContext(ctx, requestContextID, creator); err != nil",
     "Keeper.PauseFeed: !found",
     "Keeper.PauseFeed: msg.Creator != feed.Creator",
     "Keeper.PauseFeed: !existed",
     "Keeper.PauseFeed: reqCtx.State != serviceexported.RUNNING",
     "Keeper.PauseFeed: err := k.sk.PauseRequestContext(ctx, requestContextID, creator); err != nil",
     "msgServer.CreateFeed: err := m.Keeper.CreateFeed(ctx, msg); err != nil",
     "msgServer.EditFeed: err := m.Keeper.EditFeed(ctx, msg); err != nil",
     "msgServer.StartFeed: err := m.Keeper.StartFeed(ctx, msg); err != nil",
     "msgServer.PauseFeed: err := m.Keeper.PauseFeed(ctx, msg); err != nil"] := rfl

/-- every statement of these functions executed for its effect — a call whose result is dropped (store and bank
writes, queue moves, hooks) or a write to a record field — with its nesting depth, in source order: a write that is
dropped, duplicated, reordered or moved into or out of a branch breaks this -/
theorem oracle_effects_pinned : Irismod.Gen.PureOracle.effects =
    ["SetFeedValue: d0 k.deleteOldestFeedValue(ctx, feedName, delta+1)",
     "SetFeedValue: d0 store.Set(types.GetFeedValueKey(feedName, batchCounter), bz)",
     "EditFeed: d2 k.deleteOldestFeedValue(ctx, feed.FeedName, cnt-expectCnt)",
     "EditFeed: d1 feed.LatestHistory = msg.LatestHistory",
     "EditFeed: d1 feed.Description = msg.Description",
     "EditFeed: d0 k.SetFeed(ctx, feed)",
     "Keeper.dequeueAndEnqueue: d0 store.Delete(types.GetFeedStateKey(feedName, dequeueState))",
     "Keeper.dequeueAndEnqueue: d0 store.Set(types.GetFeedStateKey(feedName, enqueueState), bz)",
     "Keeper.SetFeed: d0 store.Set(types.GetFeedKey(feed.FeedName), bz)",
     "Keeper.SetFeed: d0 store.Set(types.GetReqCtxIDKey(requestContextID), bz)",
     "Keeper.deleteOldestFeedValue: d0 iterator.Next()",
     "Keeper.deleteOldestFeedValue: d1 store.Delete(iterator.Key())",
     "Keeper.Enqueue: d0 store.Set(types.GetFeedStateKey(feedName, state), bz)",
     "Keeper.Dequeue: d0 store.Delete(types.GetFeedStateKey(feedName, state))",
     "Keeper.CreateFeed: d0 k.SetFeed(ctx, types.Feed{ FeedName: msg.FeedName, AggregateFunc: msg.AggregateFunc, ValueJsonPath: msg.ValueJsonPath, LatestHistory: msg.LatestHistory, RequestContextID: requestContextID.String(), Description: msg.Description, Creator: msg.Creator, })",
     "Keeper.CreateFeed: d0 k.Enqueue(ctx, msg.FeedName, serviceexported.PAUSED)",
     "Keeper.StartFeed: d0 k.dequeueAndEnqueue(ctx, msg.FeedName, serviceexported.PAUSED, serviceexported.RUNNING)",
     "Keeper.PauseFeed: d0 k.dequeueAndEnqueue(ctx, msg.FeedName, serviceexported.RUNNING, serviceexported.PAUSED)",
     "Keeper.HandlerResponse: d0 k.SetFeedValue(ctx, feed.FeedName, reqCtx.BatchCounter, feed.LatestHistory, value)",
     "Keeper.HandlerStateChanged: d0 k.dequeueAndEnqueue(ctx, feed.FeedName, oldState, reqCtx.State)"] := rfl

private theorem wrap_id' (x : Int) (h : -9223372036854775808 ≤ x ∧ x < 9223372036854775808) : I64_wrap x = x := by
  unfold I64_wrap
  have e : (x + 9223372036854775808).emod 18446744073709551616 = x + 9223372036854775808 :=
    Int.emod_eq_of_lt (by omega) (by omega)
  rw [e]; omega

/-- `SetFeedValue`: with `len` values stored and bound `hist`, the oldest `len + 1 − hist` values go (none when that
is not positive: the deleting loop runs `i = 1 … delta`), which is the `drop` of the model's trim-then-insert -/
theorem SetFeedValue_trim_eq_model (len hist : Nat) (hl : len < 4611686018427387904) (hh : hist < 4611686018427387904) :
    (SetFeedValue_delta_1 len hist >>= fun d => SetFeedValue_call_deleteOldestFeedValue_1_arg2 d) =
      some ((len : Int) - (hist : Int) + 1) ∧
    ((len : Int) - (hist : Int) + 1).toNat = len + 1 - hist := by
  constructor
  · unfold SetFeedValue_delta_1 SetFeedValue_call_deleteOldestFeedValue_1_arg2 I64_Sub I64_Add
    show some (I64_wrap (I64_wrap ((len : Int) - I64_wrap (hist : Int)) + 1)) = _
    rw [wrap_id' (hist : Int) (by omega), wrap_id' ((len : Int) - (hist : Int)) (by omega), wrap_id' _ (by omega)]
  · omega

/-- `EditFeed`: a positive new bound below the stored count removes the oldest `len − hist` values at once
(`trimTo`), the bound itself is stored as given, and only the feed's creator edits -/
theorem EditFeed_trim_eq_model (len hist : Nat) (creator sender : String)
    (hl : len < 4611686018427387904) (hh : hist < 4611686018427387904) :
    EditFeed_guard_1 sender creator = some (sender != creator) ∧
    EditFeed_cond_2 hist = some (decide (0 < hist)) ∧
    (EditFeed_expectCnt_1 hist >>= fun e => EditFeed_cond_3 e len) = some (decide (hist < len)) ∧
    (EditFeed_expectCnt_1 hist >>= fun e => EditFeed_call_deleteOldestFeedValue_1_arg2 len e) =
      some ((len : Int) - (hist : Int)) ∧
    EditFeed_feed_LatestHistory_1 hist = some hist := by
  refine ⟨rfl, rfl, ?_, ?_, rfl⟩
  · unfold EditFeed_expectCnt_1 EditFeed_cond_3
    show some (decide (I64_wrap (hist : Int) < (len : Int))) = _
    rw [wrap_id' (hist : Int) (by omega)]
    congr 1
    have : ((hist : Int) < (len : Int)) ↔ hist < len := by omega
    simp only [this]
  · unfold EditFeed_expectCnt_1 EditFeed_call_deleteOldestFeedValue_1_arg2 I64_Sub
    show some (I64_wrap ((len : Int) - I64_wrap (hist : Int))) = _
    rw [wrap_id' (hist : Int) (by omega), wrap_id' _ (by omega)]

/-- the model's two trims drop exactly those many values -/
theorem model_trims (vals : List (Nat × Irismod.Oracle.Value)) (hist : Nat) :
    Irismod.Oracle.trimTo vals hist = (if hist < vals.length then vals.drop (vals.length - hist) else vals) := rfl

end Irismod.Props.Tie
