/-
C17 — Oracle: feeds store exactly the aggregated answers, bounded, creator-controlled.
Headline theorems about the model `Irismod.Oracle` (every state, every operation, every history,
every behaviour of the abstract service module).
-/
import Irismod.Proofs.Oracle

namespace Irismod.Props.C17
open Irismod Irismod.Oracle Irismod.Spec.C17 Irismod.Proofs.Oracle

/-! ### 1. the aggregates (exact decimals) -/

/-- the registered aggregate functions return the specified aggregate on every non-empty input -/
def AggregatesCorrect : Prop :=
  ∀ (S : Nat) (fn : String) (xs : List Int), xs ≠ [] → knownAgg fn = true →
    aggregate S fn xs = specAggregate S fn xs

/-- **full statement** (holds since the repair of F-ora-1) -/
theorem aggregates_correct : AggregatesCorrect := by
  intro S fn xs hne _
  have hl : xs.length ≠ 0 := by
    cases xs with
    | nil => exact absurd rfl hne
    | cons a t => simp
  unfold aggregate specAggregate
  simp only [hl, if_false]
  by_cases h1 : fn = "max"
  · simp only [h1, if_true]
    rw [litMax_eq xs hne]; rfl
  · simp only [h1, if_false]
    by_cases h2 : fn = "min"
    · simp only [h2, if_true, litMin_eq]
      cases xs with
      | nil => exact absurd rfl hne
      | cons a t => simp [specMin]
    · simp only [h2, if_false]

/-- regression of F-ora-1: `Max([-3, -5])` is `-3`, not the untouched accumulator -/
theorem max_all_negative_regression :
    litMax [-300000000, -500000000] = -300000000 ∧ specMax [-300000000, -500000000] = some (-300000000) := by
  constructor <;> decide

theorem max_correct (xs : List Int) (h : xs ≠ []) : specMax xs = some (litMax xs) := litMax_eq xs h

/-- … `min` on every non-empty input (its `math.MaxFloat64` start is above every value) -/
theorem min_correct (xs : List Int) : litMin xs = specMin xs := litMin_eq xs

/-- `avg` prints the exact average when it has at most 8 decimals (no rounding is involved) -/
theorem avg_exact (xs : List Int) (k : Int) (hne : xs ≠ []) (hk : sumInts xs = k * (xs.length : Int)) :
    aggregate 8 "avg" xs = some (fmtUnits8 k) := by
  have hl : xs.length ≠ 0 := by
    cases xs with
    | nil => exact absurd rfl hne
    | cons a t => simp
  have hpos : 0 < xs.length * pow10 8 := Nat.mul_pos (Nat.pos_of_ne_zero hl) (by decide)
  have : aggregate 8 "avg" xs = some (fmtRat (sumInts xs) (xs.length * pow10 8)) := by
    simp [aggregate, hl]
  rw [this, fmtRat, hk]
  have e : k * (xs.length : Int) * 100000000 = k * ((xs.length * pow10 8 : Nat) : Int) := by
    have : ((xs.length * pow10 8 : Nat) : Int) = (xs.length : Int) * 100000000 := by
      simp [pow10]
    rw [this, Int.mul_assoc]
  rw [e, roundHalfEven_exact k _ hpos]

/-- the exact-float domain: a double within relative error 2^-53 of the decimal `k·10^-8`,
`|k| < 4.5·10^15` (i.e. `|v| < 4.5·10^7`), is closer to `k·10^-8` than half a unit of the 8th
decimal, so parsing such a decimal and printing it with 8 decimals returns it unchanged.
(`a / d` is the double scaled by `10^8`.) -/
theorem float_domain_roundtrip (k a : Int) (d : Nat) (hd : 0 < d)
    (hk : k.natAbs < 4500000000000000)
    (herr : (a - k * d).natAbs * 2 ^ 53 ≤ k.natAbs * d) :
    2 * (a - k * d).natAbs < d := by
  have h1 : k.natAbs * d < 4500000000000000 * d := Nat.mul_lt_mul_of_pos_right hk hd
  have h2 : (2 : Nat) ^ 53 = 9007199254740992 := by decide
  rw [h2] at herr
  omega

/-! ### 2. one value per completed batch, newest first, trimmed to latest-history -/

/-- a batch that did not reach its threshold (or has no valid output) stores nothing -/
theorem done_short_noop (s : State) (n : Name) (b thr : Nat) (outs : List String)
    (h : outs.length < thr ∨ outs.length = 0) : cbDone s n b thr outs = s := by
  unfold cbDone
  split
  · rename_i hle
    rcases h with h | h
    · omega
    · simp [handlerResponse, h]
  · rfl

theorem getD_set_self (m : AMap Name (List (Nat × Value))) (n : Name) (l : List (Nat × Value)) :
    AMap.getD (AMap.set m n l) n [] = l := by
  simp [AMap.getD, AMap.get?_set_self]

theorem getD_set_other (m : AMap Name (List (Nat × Value))) (n k : Name) (l : List (Nat × Value)) (h : n ≠ k) :
    AMap.getD (AMap.set m n l) k [] = AMap.getD m k [] := by
  simp [AMap.getD, AMap.get?_set_other _ _ _ _ h]

theorem valuesOf_set_self (s : State) (n : Name) (l : List (Nat × Value)) :
    valuesOf { s with values := AMap.set s.values n l } n = l := by
  simp [valuesOf, AMap.getD, AMap.get?_set_self]

theorem valuesOf_set_other (s : State) (n m : Name) (l : List (Nat × Value)) (h : n ≠ m) :
    valuesOf { s with values := AMap.set s.values n l } m = valuesOf s m := by
  simp [valuesOf, AMap.getD, AMap.get?_set_other _ _ _ _ h]

/-- what a completed batch stores: shape of the post-state -/
theorem handlerResponse_eq (s : State) (n : Name) (b : Nat) (outs : List String) (f : Feed) (d : String)
    (hl : outs.length ≠ 0) (hf : AMap.get? s.feeds n = some f) (hc : AMap.contains s.ctxs n = true)
    (ha : aggregateSpecs f.agg outs = some d) :
    handlerResponse s n b outs =
      { s with values := AMap.set s.values n (setFeedValue (valuesOf s n) b f.hist { data := d, time := s.now }) } := by
  simp [handlerResponse, hl, hf, hc, ha]

/-- **C17(a)** a completed batch of feed `n` with at least `thr ≥ …` valid outputs appends exactly one
value — the aggregate of the extracted values, stamped with the block time — in front of the
newest-first history, which is then cut to `latestHistory`; nothing else changes. -/
theorem done_appends (s : State) (n : Name) (b thr : Nat) (outs : List String) (f : Feed) (d : String)
    (hl : outs.length ≠ 0) (hthr : thr ≤ outs.length)
    (hf : AMap.get? s.feeds n = some f) (hc : AMap.contains s.ctxs n = true)
    (ha : aggregateSpecs f.agg outs = some d) (hh : 1 ≤ f.hist) (hfresh : FreshKey (valuesOf s n) b) :
    viewOf (cbDone s n b thr outs) n = ({ data := d, time := s.now } :: viewOf s n).take f.hist ∧
    (∀ m, m ≠ n → viewOf (cbDone s n b thr outs) m = viewOf s m) ∧
    (cbDone s n b thr outs).feeds = s.feeds ∧ (cbDone s n b thr outs).ctxs = s.ctxs ∧
    (cbDone s n b thr outs).running = s.running ∧ (cbDone s n b thr outs).paused = s.paused ∧
    (cbDone s n b thr outs).now = s.now := by
  have e : cbDone s n b thr outs =
      { s with values := AMap.set s.values n (setFeedValue (valuesOf s n) b f.hist { data := d, time := s.now }) } := by
    unfold cbDone; rw [if_pos hthr]; exact handlerResponse_eq s n b outs f d hl hf hc ha
  rw [e]
  refine ⟨?_, ?_, rfl, rfl, rfl, rfl, rfl⟩
  · unfold viewOf
    rw [valuesOf_set_self]
    exact view_setFeedValue _ _ _ _ hh hfresh
  · intro m hm
    unfold viewOf
    rw [valuesOf_set_other _ _ _ _ (Ne.symm hm)]

/-- the value stored is the *specified* aggregate -/
theorem done_value_is_spec (fn : String) (outs : List String) (hl : outs ≠ []) (hfn : knownAgg fn = true) :
    aggregateSpecs fn outs = specAggregateSpecs fn outs := by
  unfold aggregateSpecs specAggregateSpecs
  apply aggregates_correct _ _ _ _ hfn
  cases outs with
  | nil => exact absurd rfl hl
  | cons a t => simp

/-! inversion of the message handlers -/

theorem stepStart_ok {s s' : State} {n : Name} {a : Addr} (h : stepStart s n a = .ok s') :
    ∃ f c, AMap.get? s.feeds n = some f ∧ a = f.creator ∧ AMap.get? s.ctxs n = some c ∧
      c.state = .paused ∧ s' = indexRunning (setCtxState s n c .running) n := by
  unfold stepStart at h
  split at h; · cases h
  split at h; · cases h
  rename_i f hf
  split at h; · cases h
  rename_i ha
  split at h; · cases h
  rename_i c hc
  split at h; · cases h
  split at h; · cases h
  rename_i hp
  cases h
  exact ⟨f, c, hf, by simpa using ha, hc, by simpa using hp, rfl⟩

theorem stepPause_ok {s s' : State} {n : Name} {a : Addr} (h : stepPause s n a = .ok s') :
    ∃ f c, AMap.get? s.feeds n = some f ∧ a = f.creator ∧ AMap.get? s.ctxs n = some c ∧
      c.state = .running ∧ s' = indexPaused (setCtxState s n c .paused) n := by
  unfold stepPause at h
  split at h; · cases h
  split at h; · cases h
  rename_i f hf
  split at h; · cases h
  rename_i ha
  split at h; · cases h
  rename_i c hc
  split at h; · cases h
  rename_i hp
  cases h
  exact ⟨f, c, hf, by simpa using ha, hc, by simpa using hp, rfl⟩

theorem stepEdit_ok {s s' : State} {m : EditMsg} (h : stepEdit s m = .ok s') :
    ∃ f c c', editBasicOk m = true ∧ AMap.get? s.feeds m.name = some f ∧ m.sender = f.creator ∧
      AMap.get? s.ctxs m.name = some c ∧ updateContext c m = some c' ∧
      s' = { s with
          ctxs := AMap.set s.ctxs m.name c',
          values := if 0 < m.hist then AMap.set s.values m.name (trimTo (valuesOf s m.name) m.hist) else s.values,
          feeds := AMap.set s.feeds m.name
            { f with hist := if 0 < m.hist then m.hist else f.hist,
                     desc := if m.desc ≠ doNotModify then m.desc else f.desc } } := by
  unfold stepEdit at h
  split at h; · cases h
  rename_i hb
  split at h; · cases h
  rename_i f hf
  split at h; · cases h
  rename_i ha
  split at h; · cases h
  rename_i c hc
  split at h; · cases h
  rename_i c' hu
  cases h
  exact ⟨f, c, c', by simpa using hb, hf, by simpa using ha, hc, hu, rfl⟩

theorem stepCreate_ok {s s' : State} {m : CreateMsg} (h : stepCreate s m = .ok s') :
    createBasicOk m = true ∧ AMap.contains s.feeds m.name = false ∧ createContextOk m = true ∧
    s' = { s with
      feeds := AMap.set s.feeds m.name { desc := m.desc, agg := m.agg, path := m.path, hist := m.hist, creator := m.creator },
      ctxs := AMap.set s.ctxs m.name { state := .paused, thr := m.thr, providers := m.providers, timeout := m.timeout,
                                       freq := if m.freq = 0 then m.timeout.toNat else m.freq },
      paused := enqueue s.paused m.name } := by
  unfold stepCreate at h
  split at h; · cases h
  rename_i hb
  split at h; · cases h
  rename_i he
  split at h; · cases h
  rename_i hc
  cases h
  exact ⟨by simpa using hb, by simpa using he, by simpa using hc, rfl⟩

/-- **C17(b)** shrinking or growing `latestHistory` by an accepted edit: the history is cut to the
newest `latestHistory` entries at once (growing never brings dropped values back); every other
feed's history is untouched. -/
theorem edit_trims (s s' : State) (m : EditMsg) (h : step s (.edit m) = .ok s') :
    viewOf s' m.name = (if 0 < m.hist then (viewOf s m.name).take m.hist else viewOf s m.name) ∧
    ∀ n, n ≠ m.name → viewOf s' n = viewOf s n := by
  obtain ⟨f, c, c', _, _, _, _, _, rfl⟩ := stepEdit_ok (by simpa [step] using h)
  constructor
  · by_cases hh : 0 < m.hist
    · simp only [hh, if_true, viewOf, valuesOf]
      rw [getD_set_self]
      exact view_trimTo _ _
    · simp [hh, viewOf, valuesOf]
  · intro n hn
    by_cases hh : 0 < m.hist
    · simp only [hh, if_true, viewOf, valuesOf]
      rw [getD_set_other _ _ _ _ (Ne.symm hn)]
    · simp [hh, viewOf, valuesOf]

/-! ### 3. only the creator starts, pauses or edits -/

theorem start_only_creator (s s' : State) (n : Name) (a : Addr) (h : step s (.start n a) = .ok s') :
    creatorOf s n = some a := by
  obtain ⟨f, c, hf, ha, _⟩ := stepStart_ok (by simpa [step] using h)
  simp [creatorOf, hf, ha]

theorem pause_only_creator (s s' : State) (n : Name) (a : Addr) (h : step s (.pause n a) = .ok s') :
    creatorOf s n = some a := by
  obtain ⟨f, c, hf, ha, _⟩ := stepPause_ok (by simpa [step] using h)
  simp [creatorOf, hf, ha]

theorem edit_only_creator (s s' : State) (m : EditMsg) (h : step s (.edit m) = .ok s') :
    creatorOf s m.name = some m.sender := by
  obtain ⟨f, c, c', _, hf, ha, _⟩ := stepEdit_ok (by simpa [step] using h)
  simp [creatorOf, hf, ha]

/-- a rejected message leaves the whole state unchanged -/
theorem rejected_unchanged (s : State) (op : Op) (e : Err) (h : step s op = .error e) : apply s op = s := by
  simp [apply, h]

/-- **C17(d)** start, pause and edit by anyone but the feed's creator are rejected and change nothing -/
theorem stranger_rejected (s : State) (n : Name) (a c : Addr) (hc : creatorOf s n = some c) (hne : a ≠ c) :
    apply s (.start n a) = s ∧ apply s (.pause n a) = s ∧
    ∀ m : EditMsg, m.name = n → m.sender = a → apply s (.edit m) = s := by
  refine ⟨?_, ?_, ?_⟩
  · cases h : step s (.start n a) with
    | error e => exact rejected_unchanged _ _ _ h
    | ok s' => have := start_only_creator _ _ _ _ h; rw [hc] at this; simp at this; exact absurd this.symm hne
  · cases h : step s (.pause n a) with
    | error e => exact rejected_unchanged _ _ _ h
    | ok s' => have := pause_only_creator _ _ _ _ h; rw [hc] at this; simp at this; exact absurd this.symm hne
  · intro m hn hs
    cases h : step s (.edit m) with
    | error e => exact rejected_unchanged _ _ _ h
    | ok s' =>
      have := edit_only_creator _ _ _ h
      rw [hn, hc, hs] at this; simp at this; exact absurd this.symm hne

/-! ### 4. invariants of every history: index mirrors the context, history bounded -/

def Inv (s : State) : Prop := WF s ∧ Mirror s ∧ Bounded s

theorem inv_init (t : Nat) : Inv { now := t } := by
  refine ⟨⟨?_, ?_⟩, ?_, ?_, ?_⟩
  · intro n; simp
  · intro n h; simp at h
  · intro n f c hf; simp at hf
  · intro n f hf; simp at hf
  · intro n _; simp [valuesOf, AMap.getD]

/-- a state that changes, for one name `n`, the context record and the index entries (and possibly
creates the feed), and nothing else of the index/contexts, keeps `WF` and `Mirror` -/
theorem wf_mirror_local {s s' : State} {n : Name} {c' : Ctx} (hw : WF s) (hm : Mirror s)
    (hF : ∀ x, x ≠ n → AMap.get? s'.feeds x = AMap.get? s.feeds x)
    (hFn : (AMap.get? s'.feeds n).isSome)
    (hC : ∀ x, x ≠ n → AMap.get? s'.ctxs x = AMap.get? s.ctxs x)
    (hCn : AMap.get? s'.ctxs n = some c')
    (hR : ∀ x, x ≠ n → (x ∈ s'.running ↔ x ∈ s.running))
    (hP : ∀ x, x ≠ n → (x ∈ s'.paused ↔ x ∈ s.paused))
    (hloc : (c'.state = .running → n ∈ s'.running ∧ n ∉ s'.paused) ∧
            (c'.state = .paused → n ∈ s'.paused ∧ n ∉ s'.running)) :
    WF s' ∧ Mirror s' := by
  refine ⟨⟨?_, ?_⟩, ?_⟩
  · intro x
    by_cases hx : x = n
    · subst hx; simp [hFn, hCn]
    · rw [hF x hx, hC x hx]; exact hw.1 x
  · intro x hx
    by_cases hxn : x = n
    · subst hxn; exact hFn
    · rw [hF x hxn]; apply hw.2 x
      rw [← hR x hxn, ← hP x hxn]; exact hx
  · apply mirror_of_frame (name := n) ⟨hF, hC, hR, hP⟩ hm
    intro f c _ hc
    rw [hCn] at hc; cases hc
    exact hloc

theorem bounded_of_same {s s' : State} (hf : s'.feeds = s.feeds) (hv : s'.values = s.values) (hb : Bounded s) :
    Bounded s' := by
  unfold Bounded valuesOf at *
  rw [hf, hv]; exact hb

theorem inv_start {s s' : State} {n : Name} {a : Addr} (hs : Inv s) (h : stepStart s n a = .ok s') : Inv s' := by
  obtain ⟨hw, hm, hb⟩ := hs
  obtain ⟨f, c, hf, _, hc, _, rfl⟩ := stepStart_ok h
  have := wf_mirror_local (s' := indexRunning (setCtxState s n c .running) n) (n := n)
    (c' := { c with state := .running }) hw hm
    (fun x _ => rfl) (by simp [indexRunning, setCtxState, hf])
    (fun x hx => by simp [indexRunning, setCtxState, AMap.get?_set_other _ _ _ _ (Ne.symm hx)])
    (by simp [indexRunning, setCtxState, AMap.get?_set_self])
    (fun x hx => by simp [indexRunning, setCtxState, mem_enqueue, hx])
    (fun x hx => by simp [indexRunning, setCtxState, mem_dequeue, hx])
    (by simp [indexRunning, setCtxState, mem_enqueue, mem_dequeue])
  exact ⟨this.1, this.2, bounded_of_same rfl rfl hb⟩

theorem inv_pause {s s' : State} {n : Name} {a : Addr} (hs : Inv s) (h : stepPause s n a = .ok s') : Inv s' := by
  obtain ⟨hw, hm, hb⟩ := hs
  obtain ⟨f, c, hf, _, hc, _, rfl⟩ := stepPause_ok h
  have := wf_mirror_local (s' := indexPaused (setCtxState s n c .paused) n) (n := n)
    (c' := { c with state := .paused }) hw hm
    (fun x _ => rfl) (by simp [indexPaused, setCtxState, hf])
    (fun x hx => by simp [indexPaused, setCtxState, AMap.get?_set_other _ _ _ _ (Ne.symm hx)])
    (by simp [indexPaused, setCtxState, AMap.get?_set_self])
    (fun x hx => by simp [indexPaused, setCtxState, mem_dequeue, hx])
    (fun x hx => by simp [indexPaused, setCtxState, mem_enqueue, hx])
    (by simp [indexPaused, setCtxState, mem_enqueue, mem_dequeue])
  exact ⟨this.1, this.2, bounded_of_same rfl rfl hb⟩

/-- **C17(c)** the automatic pause (and any other state change reported by the service module)
keeps the index in step with the context -/
theorem inv_cbState {s : State} {n : Name} {to : CtxState} (hs : Inv s) : Inv (cbState s n to) := by
  obtain ⟨hw, hm, hb⟩ := hs
  unfold cbState
  split
  · exact ⟨hw, hm, hb⟩
  rename_i c hc
  split
  · -- no feed under that name: only the context record changes
    rename_i hf
    refine ⟨⟨?_, ?_⟩, ?_, bounded_of_same rfl rfl hb⟩
    · intro x
      simp only [setCtxState, isSome_get?_set]
      have := hw.1 x
      by_cases hx : n = x
      · subst hx; simp [hf, hc] at this
      · simp [hx, this]
    · exact hw.2
    · intro x f' c' hf' hc'
      by_cases hx : n = x
      · subst hx; simp [setCtxState, hf] at hf'
      · simp only [setCtxState, AMap.get?_set_other _ _ _ _ hx] at hc'
        exact hm x f' c' hf' hc'
  rename_i f hf
  cases to with
  | paused =>
    have := wf_mirror_local (s' := indexPaused (setCtxState s n c .paused) n) (n := n)
      (c' := { c with state := .paused }) hw hm
      (fun x _ => rfl) (by simp [indexPaused, setCtxState, hf])
      (fun x hx => by simp [indexPaused, setCtxState, AMap.get?_set_other _ _ _ _ (Ne.symm hx)])
      (by simp [indexPaused, setCtxState, AMap.get?_set_self])
      (fun x hx => by simp [indexPaused, setCtxState, mem_dequeue, hx])
      (fun x hx => by simp [indexPaused, setCtxState, mem_enqueue, hx])
      (by simp [indexPaused, setCtxState, mem_enqueue, mem_dequeue])
    exact ⟨this.1, this.2, bounded_of_same rfl rfl hb⟩
  | running =>
    have := wf_mirror_local (s' := indexRunning (setCtxState s n c .running) n) (n := n)
      (c' := { c with state := .running }) hw hm
      (fun x _ => rfl) (by simp [indexRunning, setCtxState, hf])
      (fun x hx => by simp [indexRunning, setCtxState, AMap.get?_set_other _ _ _ _ (Ne.symm hx)])
      (by simp [indexRunning, setCtxState, AMap.get?_set_self])
      (fun x hx => by simp [indexRunning, setCtxState, mem_enqueue, hx])
      (fun x hx => by simp [indexRunning, setCtxState, mem_dequeue, hx])
      (by simp [indexRunning, setCtxState, mem_enqueue, mem_dequeue])
    exact ⟨this.1, this.2, bounded_of_same rfl rfl hb⟩
  | completed =>
    have := wf_mirror_local (s' := setCtxState s n c .completed) (n := n)
      (c' := { c with state := .completed }) hw hm
      (fun x _ => rfl) (by simp [setCtxState, hf])
      (fun x hx => by simp [setCtxState, AMap.get?_set_other _ _ _ _ (Ne.symm hx)])
      (by simp [setCtxState, AMap.get?_set_self])
      (fun x _ => Iff.rfl) (fun x _ => Iff.rfl) (by simp)
    exact ⟨this.1, this.2, bounded_of_same rfl rfl hb⟩

theorem handlerResponse_cases (s : State) (n : Name) (b : Nat) (outs : List String) :
    handlerResponse s n b outs = s ∨
    ∃ f d, outs.length ≠ 0 ∧ AMap.get? s.feeds n = some f ∧ AMap.contains s.ctxs n = true ∧
      aggregateSpecs f.agg outs = some d ∧
      handlerResponse s n b outs =
        { s with values := AMap.set s.values n (setFeedValue (valuesOf s n) b f.hist { data := d, time := s.now }) } := by
  unfold handlerResponse
  split; · exact Or.inl rfl
  rename_i hl
  split; · exact Or.inl rfl
  rename_i f hf
  split; · exact Or.inl rfl
  rename_i hc
  split; · exact Or.inl rfl
  rename_i d hd
  exact Or.inr ⟨f, d, hl, hf, by simpa using hc, hd, rfl⟩

theorem inv_cbDone {s : State} {n : Name} {b thr : Nat} {outs : List String} (hs : Inv s) :
    Inv (cbDone s n b thr outs) := by
  unfold cbDone
  split
  · rcases handlerResponse_cases s n b outs with h | ⟨f, d, _, hf, _, _, h⟩
    · rw [h]; exact hs
    · rw [h]
      obtain ⟨hw, hm, hb⟩ := hs
      refine ⟨hw, hm, ?_, ?_⟩
      · intro x fx hfx
        have hfx' : AMap.get? s.feeds x = some fx := hfx
        by_cases hx : n = x
        · subst hx
          rw [hf] at hfx'; cases hfx'
          have h1 := (hb.1 n f hf).1
          refine ⟨h1, ?_⟩
          rw [valuesOf_set_self]
          exact length_setFeedValue_le _ _ _ _ h1
        · rw [valuesOf_set_other _ _ _ _ hx]
          exact hb.1 x fx hfx'
      · intro x hx
        have hx' : AMap.get? s.feeds x = none := hx
        have hne : n ≠ x := by intro e; subst e; rw [hf] at hx'; cases hx'
        rw [valuesOf_set_other _ _ _ _ hne]
        exact hb.2 x hx'
  · exact hs

theorem inv_applyCb {s : State} (cb : Cb) (hs : Inv s) : Inv (applyCb s cb) := by
  cases cb with
  | done f b t o => exact inv_cbDone hs
  | state f to => exact inv_cbState hs

theorem inv_applyCbs {s : State} (cbs : List Cb) (hs : Inv s) : Inv (applyCbs s cbs) := by
  induction cbs generalizing s with
  | nil => exact hs
  | cons cb r ih => exact ih (inv_applyCb cb hs)

theorem inv_of_fields {s s' : State} (h1 : s'.feeds = s.feeds) (h2 : s'.ctxs = s.ctxs)
    (h3 : s'.running = s.running) (h4 : s'.paused = s.paused) (h5 : s'.values = s.values) (hs : Inv s) :
    Inv s' := by
  obtain ⟨hw, hm, hb⟩ := hs
  refine ⟨?_, ?_, bounded_of_same h1 h5 hb⟩
  · unfold WF; rw [h1, h2, h3, h4]; exact hw
  · unfold Mirror; rw [h1, h2, h3, h4]; exact hm

theorem inv_create {s s' : State} {m : CreateMsg} (hs : Inv s) (h : stepCreate s m = .ok s') : Inv s' := by
  obtain ⟨hw, hm, hb⟩ := hs
  obtain ⟨hb1, hnew, _, rfl⟩ := stepCreate_ok h
  have hnone : AMap.get? s.feeds m.name = none := by
    simp only [AMap.contains] at hnew
    cases hg : AMap.get? s.feeds m.name with
    | none => rfl
    | some v => simp [hg] at hnew
  have hnotidx : m.name ∉ s.running ∧ m.name ∉ s.paused := by
    constructor <;> intro hin
    · have := hw.2 m.name (Or.inl hin); simp [hnone] at this
    · have := hw.2 m.name (Or.inr hin); simp [hnone] at this
  have hhist : 1 ≤ m.hist := by
    simp only [createBasicOk, Bool.and_eq_true, decide_eq_true_eq] at hb1
    omega
  have := wf_mirror_local (s := s)
    (s' := { s with
      feeds := AMap.set s.feeds m.name { desc := m.desc, agg := m.agg, path := m.path, hist := m.hist, creator := m.creator },
      ctxs := AMap.set s.ctxs m.name { state := .paused, thr := m.thr, providers := m.providers, timeout := m.timeout,
                                       freq := if m.freq = 0 then m.timeout.toNat else m.freq },
      paused := enqueue s.paused m.name }) (n := m.name)
    (c' := { state := .paused, thr := m.thr, providers := m.providers, timeout := m.timeout,
             freq := if m.freq = 0 then m.timeout.toNat else m.freq }) hw hm
    (fun x hx => by simp [AMap.get?_set_other _ _ _ _ (Ne.symm hx)])
    (by simp [AMap.get?_set_self])
    (fun x hx => by simp [AMap.get?_set_other _ _ _ _ (Ne.symm hx)])
    (by simp [AMap.get?_set_self])
    (fun x _ => Iff.rfl)
    (fun x hx => by simp [mem_enqueue, hx])
    (by simp [mem_enqueue, hnotidx.1])
  refine ⟨this.1, this.2, ?_, ?_⟩
  · intro x fx hfx
    by_cases hx : m.name = x
    · subst hx
      simp only [AMap.get?_set_self] at hfx
      cases hfx
      refine ⟨hhist, ?_⟩
      have : valuesOf s m.name = [] := hb.2 m.name hnone
      show (valuesOf s m.name).length ≤ m.hist
      rw [this]; simp
    · simp only [AMap.get?_set_other _ _ _ _ hx] at hfx
      exact hb.1 x fx hfx
  · intro x hx
    by_cases hxn : m.name = x
    · subst hxn; simp [AMap.get?_set_self] at hx
    · simp only [AMap.get?_set_other _ _ _ _ hxn] at hx
      exact hb.2 x hx

theorem updateContext_state {c c' : Ctx} {m : EditMsg} (h : updateContext c m = some c') : c'.state = c.state := by
  unfold updateContext at h
  by_cases h1 : c.state = .completed
  · rw [if_pos h1] at h; cases h
  rw [if_neg h1] at h
  by_cases h2 : maxProviders < m.providers.length
  · rw [if_pos h2] at h; cases h
  rw [if_neg h2] at h
  by_cases h3 : hasDup m.providers = true
  · rw [if_pos h3] at h; cases h
  rw [if_neg h3] at h
  by_cases h4 : m.timeout < 0
  · rw [if_pos h4] at h; cases h
  rw [if_neg h4] at h
  by_cases h5 : (if m.providers.isEmpty then c.providers else m.providers).length < (if m.thr = 0 then c.thr else m.thr)
  · rw [if_pos h5] at h; cases h
  rw [if_neg h5] at h
  by_cases h6 : m.cap ≠ .empty ∧ !capIsBase m.cap
  · rw [if_pos h6] at h; cases h
  rw [if_neg h6] at h
  by_cases h7 : maxRequestTimeout < m.timeout
  · rw [if_pos h7] at h; cases h
  rw [if_neg h7] at h
  by_cases h8 : (if m.freq = 0 then c.freq else m.freq) < u64OfInt (if m.timeout = 0 then c.timeout else m.timeout)
  · rw [if_pos h8] at h; cases h
  rw [if_neg h8] at h
  cases h; rfl

theorem inv_edit {s s' : State} {m : EditMsg} (hs : Inv s) (h : stepEdit s m = .ok s') : Inv s' := by
  obtain ⟨hw, hm, hb⟩ := hs
  obtain ⟨f, c, c', hbasic, hf, _, hc, hu, rfl⟩ := stepEdit_ok h
  have hst := updateContext_state hu
  have hmir := hm m.name f c hf hc
  have := wf_mirror_local (s := s)
    (s' := { s with
          ctxs := AMap.set s.ctxs m.name c',
          values := if 0 < m.hist then AMap.set s.values m.name (trimTo (valuesOf s m.name) m.hist) else s.values,
          feeds := AMap.set s.feeds m.name
            { f with hist := if 0 < m.hist then m.hist else f.hist,
                     desc := if m.desc ≠ doNotModify then m.desc else f.desc } }) (n := m.name) (c' := c') hw hm
    (fun x hx => by simp [AMap.get?_set_other _ _ _ _ (Ne.symm hx)])
    (by simp [AMap.get?_set_self])
    (fun x hx => by simp [AMap.get?_set_other _ _ _ _ (Ne.symm hx)])
    (by simp [AMap.get?_set_self])
    (fun x _ => Iff.rfl) (fun x _ => Iff.rfl)
    (by rw [hst]; exact hmir)
  refine ⟨this.1, this.2, ?_, ?_⟩
  · intro x fx hfx
    by_cases hx : m.name = x
    · subst hx
      simp only [AMap.get?_set_self] at hfx
      cases hfx
      have hold := hb.1 m.name f hf
      by_cases hh : 0 < m.hist
      · simp only [hh, if_true, valuesOf]
        rw [getD_set_self]
        exact ⟨hh, length_trimTo_le _ _⟩
      · simp only [hh, if_false]
        exact hold
    · simp only [AMap.get?_set_other _ _ _ _ hx] at hfx
      have hold := hb.1 x fx hfx
      by_cases hh : 0 < m.hist
      · simp only [hh, if_true, valuesOf]
        rw [getD_set_other _ _ _ _ hx]
        exact hold
      · simp only [hh, if_false]
        exact hold
  · intro x hx
    by_cases hxn : m.name = x
    · subst hxn; simp [AMap.get?_set_self] at hx
    · simp only [AMap.get?_set_other _ _ _ _ hxn] at hx
      have hold := hb.2 x hx
      by_cases hh : 0 < m.hist
      · simp only [hh, if_true, valuesOf]
        rw [getD_set_other _ _ _ _ hxn]
        exact hold
      · simp only [hh, if_false]
        exact hold

theorem inv_block {s : State} (dt : Nat) (cbs : List Cb) (hs : Inv s) :
    Inv { applyCbs s cbs with now := (applyCbs s cbs).now + 1000000000 * dt } :=
  inv_of_fields rfl rfl rfl rfl rfl (inv_applyCbs cbs hs)

/-- one accepted operation (message, service callback, block) preserves the invariants -/
theorem inv_step (s s' : State) (op : Op) (hs : Inv s) (h : step s op = .ok s') : Inv s' := by
  cases op with
  | create m => exact inv_create hs h
  | start n a => exact inv_start hs h
  | pause n a => exact inv_pause hs h
  | edit m => exact inv_edit hs h
  | respond acc cbs =>
    simp only [step] at h
    split at h
    · cases h; exact inv_applyCbs cbs hs
    · cases h
  | block dt cbs =>
    simp only [step] at h
    cases h
    exact inv_block dt cbs hs
  | bank => simp only [step] at h; cases h; exact hs

theorem inv_apply (s : State) (op : Op) (hs : Inv s) : Inv (apply s op) := by
  unfold apply
  cases h : step s op with
  | ok s' => exact inv_step s s' op hs h
  | error e => exact hs

/-- **C17(c)+(b)** after every history — any interleaving of creates, starts, pauses, edits,
responses, blocks, and any callbacks the service module makes, automatic pauses included — the
feed-state index mirrors every feed's request-context state and every stored history holds at
most `latestHistory ≥ 1` values -/
theorem mirror_and_bound_run (s : State) (ops : List Op) (hs : Inv s) : Inv (run s ops) := by
  induction ops generalizing s with
  | nil => exact hs
  | cons op rest ih => exact ih (apply s op) (inv_apply s op hs)

theorem mirror_reachable (t : Nat) (ops : List Op) : Mirror (run { now := t } ops) :=
  (mirror_and_bound_run _ ops (inv_init t)).2.1

theorem history_bounded_reachable (t : Nat) (ops : List Op) : Bounded (run { now := t } ops) :=
  (mirror_and_bound_run _ ops (inv_init t)).2.2

/-! ### 5. the stored history is the newest part of everything ever produced, newest first -/

/-- a completed-batch callback either stores nothing and produces nothing, or stores exactly the
value it produces -/
theorem cbDone_spec (s : State) (f : Name) (b thr : Nat) (outs : List String) :
    (producedBy s f (.done f b thr outs) = [] ∧ cbDone s f b thr outs = s) ∨
    (∃ fd d, AMap.get? s.feeds f = some fd ∧
      producedBy s f (.done f b thr outs) = [{ data := d, time := s.now }] ∧
      cbDone s f b thr outs =
        { s with values := AMap.set s.values f (setFeedValue (valuesOf s f) b fd.hist { data := d, time := s.now }) }) := by
  by_cases hthr : thr ≤ outs.length
  · by_cases hl : outs.length = 0
    · left; simp [producedBy, cbDone, handlerResponse, hl]
    · cases hfd : AMap.get? s.feeds f with
      | none => left; simp [producedBy, cbDone, handlerResponse, hthr, hl, hfd]
      | some fd =>
        by_cases hc : AMap.contains s.ctxs f = true
        · cases ha : aggregateSpecs fd.agg outs with
          | none => left; simp [producedBy, cbDone, handlerResponse, hthr, hl, hfd, hc, ha]
          | some d =>
            right
            exact ⟨fd, d, rfl, by simp [producedBy, hthr, hl, hfd, hc, ha],
              by simp [cbDone, handlerResponse, hthr, hl, hfd, hc, ha]⟩
        · left; simp [producedBy, cbDone, handlerResponse, hthr, hl, hfd, hc]
  · left; simp [producedBy, cbDone, hthr]

theorem viewOf_of_values {s s' : State} (h : s'.values = s.values) (n : Name) : viewOf s' n = viewOf s n := by
  simp [viewOf, valuesOf, h]

theorem viewOf_cbState (s : State) (f : Name) (to : CtxState) (n : Name) :
    viewOf (cbState s f to) n = viewOf s n := by
  apply viewOf_of_values
  unfold cbState
  split; · rfl
  split; · rfl
  cases to <;> rfl

/-- one callback: the new history is a prefix of (what it produced) ++ (the old history) -/
theorem view_applyCb_prefix (s : State) (cb : Cb) (n : Name) (hs : Inv s) (hf : FreshCb s cb) :
    viewOf (applyCb s cb) n <+: producedBy s n cb ++ viewOf s n := by
  cases cb with
  | state f to => simp [applyCb, producedBy, viewOf_cbState]
  | done f b thr outs =>
    simp only [applyCb]
    by_cases hfn : f = n
    · subst hfn
      rcases cbDone_spec s f b thr outs with ⟨hp, he⟩ | ⟨fd, d, hfd, hp, he⟩
      · rw [hp, he]; simp
      · rw [hp, he]
        have hh := (hs.2.2.1 f fd hfd).1
        have : viewOf { s with values := AMap.set s.values f (setFeedValue (valuesOf s f) b fd.hist { data := d, time := s.now }) } f
            = ({ data := d, time := s.now } :: viewOf s f).take fd.hist := by
          unfold viewOf
          rw [valuesOf_set_self]
          exact view_setFeedValue _ _ _ _ hh hf
        rw [this]
        exact List.take_prefix _ _
    · have hp : producedBy s n (.done f b thr outs) = [] := by simp [producedBy, hfn]
      rw [hp]
      rcases cbDone_spec s f b thr outs with ⟨_, he⟩ | ⟨fd, d, _, _, he⟩
      · rw [he]; simp
      · rw [he]
        have : viewOf { s with values := AMap.set s.values f (setFeedValue (valuesOf s f) b fd.hist { data := d, time := s.now }) } n
            = viewOf s n := by
          unfold viewOf
          rw [valuesOf_set_other _ _ _ _ hfn]
        rw [this]; simp

theorem view_applyCbs_prefix (s : State) (cbs : List Cb) (n : Name) (hs : Inv s) (hf : FreshCbs s cbs) :
    viewOf (applyCbs s cbs) n <+: logCbs s n cbs ++ viewOf s n := by
  induction cbs generalizing s with
  | nil => simp [applyCbs, logCbs]
  | cons cb r ih =>
    have h1 := ih (applyCb s cb) (inv_applyCb cb hs) hf.2
    have h2 := view_applyCb_prefix s cb n hs hf.1
    have h3 : logCbs (applyCb s cb) n r ++ viewOf (applyCb s cb) n <+:
        logCbs (applyCb s cb) n r ++ (producedBy s n cb ++ viewOf s n) :=
      (List.prefix_append_right_inj _).2 h2
    have := h1.trans h3
    simpa [applyCbs, logCbs, List.append_assoc] using this

/-- one operation of a history with growing batch counters -/
theorem view_apply_prefix (s : State) (op : Op) (n : Name) (hs : Inv s) (hf : FreshOp s op) :
    viewOf (apply s op) n <+: produced s n op ++ viewOf s n := by
  unfold apply
  cases h : step s op with
  | error e =>
    cases op with
    | respond acc cbs =>
      cases acc with
      | true => simp [step] at h
      | false => simp [produced]
    | block dt cbs => simp [step] at h
    | _ => simp [produced]
  | ok s' =>
    cases op with
    | create m =>
      obtain ⟨_, _, _, rfl⟩ := stepCreate_ok (by simpa [step] using h)
      simp only [produced, List.nil_append]
      rw [viewOf_of_values (s := s) rfl]; exact List.prefix_refl _
    | start a b =>
      obtain ⟨_, _, _, _, _, _, rfl⟩ := stepStart_ok (by simpa [step] using h)
      simp only [produced, List.nil_append]
      rw [viewOf_of_values (s := s) rfl]; exact List.prefix_refl _
    | pause a b =>
      obtain ⟨_, _, _, _, _, _, rfl⟩ := stepPause_ok (by simpa [step] using h)
      simp only [produced, List.nil_append]
      rw [viewOf_of_values (s := s) rfl]; exact List.prefix_refl _
    | edit m =>
      have := edit_trims s s' m h
      simp only [produced, List.nil_append]
      by_cases hn : n = m.name
      · subst hn
        rw [this.1]
        split
        · exact List.take_prefix _ _
        · exact List.prefix_refl _
      · rw [this.2 n hn]; exact List.prefix_refl _
    | respond acc cbs =>
      cases acc with
      | false => simp [step] at h
      | true =>
        simp only [step, if_true] at h
        cases h
        exact view_applyCbs_prefix s cbs n hs (hf rfl)
    | block dt cbs =>
      simp only [step] at h
      cases h
      simp only [produced]
      have e : viewOf { applyCbs s cbs with now := (applyCbs s cbs).now + 1000000000 * dt } n
          = viewOf (applyCbs s cbs) n := viewOf_of_values rfl n
      rw [e]
      exact view_applyCbs_prefix s cbs n hs hf
    | bank =>
      simp only [step] at h
      cases h
      simp [produced]

/-- **C17(b)** for every history whose batch counters grow (as the service module guarantees), the
stored history of every feed is a prefix of *all values ever produced for it, newest first*
(followed by what was stored initially): it never reorders, never resurrects a dropped value and
never keeps an older value while dropping a newer one. Together with `mirror_and_bound_run`
(at most `latestHistory`), `done_appends` (a batch adds exactly one, cut to `latestHistory`) and
`edit_trims` (an edit cuts to the new `latestHistory` at once) this pins the stored history to the
newest `latestHistory` values. -/
theorem history_is_newest_prefix (s : State) (ops : List Op) (n : Name) (hs : Inv s) (hf : FreshRun s ops) :
    viewOf (run s ops) n <+: log s n ops ++ viewOf s n := by
  induction ops generalizing s with
  | nil => simp [run, log]
  | cons op r ih =>
    have h1 := ih (apply s op) (inv_apply s op hs) hf.2
    have h2 := view_apply_prefix s op n hs hf.1
    have h3 : log (apply s op) n r ++ viewOf (apply s op) n <+:
        log (apply s op) n r ++ (produced s n op ++ viewOf s n) :=
      (List.prefix_append_right_inj _).2 h2
    have := h1.trans h3
    simpa [run, log, List.append_assoc] using this

/-! `FreshRun` follows from a condition on the operation list alone: per feed, the batch counters
reported by the service module increase strictly and start above the keys stored initially. -/

def endOf (k : Nat) (bs : List Nat) : Nat := bs.foldl (fun _ b => b + 1) k

theorem incrFrom_append (k : Nat) (a b : List Nat) :
    IncrFrom k (a ++ b) ↔ IncrFrom k a ∧ IncrFrom (endOf k a) b := by
  induction a generalizing k with
  | nil => simp [IncrFrom, endOf]
  | cons x t ih =>
    simp only [List.cons_append, IncrFrom, endOf, List.foldl_cons]
    rw [ih (x + 1)]
    simp only [endOf, and_assoc]

theorem mem_insertKey {l : List (Nat × Value)} {k : Nat} {v : Value} {e : Nat × Value}
    (h : e ∈ insertKey k v l) : e = (k, v) ∨ e ∈ l := by
  induction l with
  | nil => simp [insertKey] at h; exact Or.inl h
  | cons hd t ih =>
    obtain ⟨k', v'⟩ := hd
    simp only [insertKey] at h
    split at h
    · simp only [List.mem_cons] at h ⊢
      rcases h with h | h | h
      · exact Or.inl h
      · exact Or.inr (Or.inl h)
      · exact Or.inr (Or.inr h)
    · split at h
      · simp only [List.mem_cons] at h ⊢
        rcases h with h | h
        · exact Or.inl h
        · exact Or.inr (Or.inr h)
      · simp only [List.mem_cons] at h ⊢
        rcases h with h | h
        · exact Or.inr (Or.inl h)
        · rcases ih h with h | h
          · exact Or.inl h
          · exact Or.inr (Or.inr h)

theorem freshKey_setFeedValue {vals : List (Nat × Value)} {b hist k : Nat} {v : Value}
    (h : FreshKey vals k) (hk : k ≤ b) : FreshKey (setFeedValue vals b hist v) (b + 1) := by
  intro e he
  rcases mem_insertKey he with rfl | he
  · simp
  · have := h e (List.mem_of_mem_drop he); omega

theorem freshKey_trimTo {vals : List (Nat × Value)} {h k : Nat} (hf : FreshKey vals k) : FreshKey (trimTo vals h) k := by
  intro e he
  unfold trimTo at he
  split at he
  · exact hf e (List.mem_of_mem_drop he)
  · exact hf e he

theorem freshKey_mono {vals : List (Nat × Value)} {k k' : Nat} (h : FreshKey vals k) (hk : k ≤ k') : FreshKey vals k' :=
  fun e he => Nat.lt_of_lt_of_le (h e he) hk

/-- callbacks of one operation -/
theorem freshCbs_of_incr (s : State) (cbs : List Cb) (K : Name → Nat)
    (h : ∀ n, FreshKey (valuesOf s n) (K n) ∧ IncrFrom (K n) (batchesCbs n cbs)) :
    FreshCbs s cbs ∧ ∀ n, FreshKey (valuesOf (applyCbs s cbs) n) (endOf (K n) (batchesCbs n cbs)) := by
  induction cbs generalizing s K with
  | nil => exact ⟨trivial, fun n => by simpa [applyCbs, batchesCbs, endOf] using (h n).1⟩
  | cons cb r ih =>
    cases cb with
    | state f to =>
      have hv : ∀ n, valuesOf (applyCb s (.state f to)) n = valuesOf s n := by
        intro n
        have : (cbState s f to).values = s.values := by
          unfold cbState
          split; · rfl
          split; · rfl
          cases to <;> rfl
        simp [applyCb, valuesOf, this]
      have := ih (applyCb s (.state f to)) K (fun n => by rw [hv n]; simpa [batchesCbs] using h n)
      exact ⟨⟨trivial, this.1⟩, fun n => by simpa [applyCbs, batchesCbs] using this.2 n⟩
    | done f b thr outs =>
      have hf := h f
      simp only [batchesCbs, if_true, IncrFrom] at hf
      have hfresh : FreshKey (valuesOf s f) b := freshKey_mono hf.1 hf.2.1
      have hstep : ∀ n, FreshKey (valuesOf (cbDone s f b thr outs) n) (if n = f then b + 1 else K n) := by
        intro n
        rcases cbDone_spec s f b thr outs with ⟨_, he⟩ | ⟨fd, d, _, _, he⟩
        · rw [he]
          by_cases hn : n = f
          · subst hn; simp only [if_true]; exact freshKey_mono hf.1 (by omega)
          · simp only [hn, if_false]; exact (h n).1
        · rw [he]
          by_cases hn : n = f
          · subst hn
            simp only [if_true]
            rw [valuesOf_set_self]
            exact freshKey_setFeedValue hf.1 hf.2.1
          · simp only [hn, if_false]
            rw [valuesOf_set_other _ _ _ _ (Ne.symm hn)]
            exact (h n).1
      have := ih (applyCb s (.done f b thr outs)) (fun n => if n = f then b + 1 else K n) (fun n => by
        refine ⟨hstep n, ?_⟩
        by_cases hn : n = f
        · subst hn; simp only [if_true]; exact hf.2.2
        · have hn' : ¬ f = n := fun e => hn e.symm
          have := (h n).2
          simp only [batchesCbs, hn', if_false] at this
          simpa [hn] using this)
      refine ⟨⟨hfresh, this.1⟩, fun n => ?_⟩
      have h2 := this.2 n
      by_cases hn : n = f
      · subst hn
        simpa [applyCbs, batchesCbs, endOf] using h2
      · have hn' : ¬ f = n := fun e => hn e.symm
        simpa [applyCbs, batchesCbs, endOf, hn, hn'] using h2

theorem valuesOf_of_values {s s' : State} (h : s'.values = s.values) (n : Name) : valuesOf s' n = valuesOf s n := by
  simp [valuesOf, h]

/-- one operation -/
theorem freshOp_of_incr (s : State) (op : Op) (K : Name → Nat)
    (h : ∀ n, FreshKey (valuesOf s n) (K n) ∧ IncrFrom (K n) (batchesOp n op)) :
    FreshOp s op ∧ ∀ n, FreshKey (valuesOf (apply s op) n) (endOf (K n) (batchesOp n op)) := by
  have hsame : (∀ n, batchesOp n op = []) → apply s op = s ∨ (apply s op).values = s.values →
      ∀ n, FreshKey (valuesOf (apply s op) n) (endOf (K n) (batchesOp n op)) := by
    intro hb hv n
    rw [hb n]
    simp only [endOf, List.foldl_nil]
    rcases hv with hv | hv
    · rw [hv]; exact (h n).1
    · rw [valuesOf_of_values hv]; exact (h n).1
  unfold apply at hsame ⊢
  cases hstep : step s op with
  | error e =>
    simp only [hstep] at hsame ⊢
    cases op with
    | respond acc cbs =>
      cases acc with
      | true => simp [step] at hstep
      | false => exact ⟨by simp [FreshOp], hsame (fun n => rfl) (Or.inl trivial)⟩
    | block dt cbs => simp [step] at hstep
    | create m => exact ⟨trivial, hsame (fun n => rfl) (Or.inl trivial)⟩
    | start a b => exact ⟨trivial, hsame (fun n => rfl) (Or.inl trivial)⟩
    | pause a b => exact ⟨trivial, hsame (fun n => rfl) (Or.inl trivial)⟩
    | edit m => exact ⟨trivial, hsame (fun n => rfl) (Or.inl trivial)⟩
    | bank => exact ⟨trivial, hsame (fun n => rfl) (Or.inl trivial)⟩
  | ok s' =>
    simp only [hstep] at hsame ⊢
    cases op with
    | create m =>
      obtain ⟨_, _, _, rfl⟩ := stepCreate_ok (by simpa [step] using hstep)
      exact ⟨trivial, hsame (fun n => rfl) (Or.inr rfl)⟩
    | start a b =>
      obtain ⟨_, _, _, _, _, _, rfl⟩ := stepStart_ok (by simpa [step] using hstep)
      exact ⟨trivial, hsame (fun n => rfl) (Or.inr rfl)⟩
    | pause a b =>
      obtain ⟨_, _, _, _, _, _, rfl⟩ := stepPause_ok (by simpa [step] using hstep)
      exact ⟨trivial, hsame (fun n => rfl) (Or.inr rfl)⟩
    | bank =>
      simp only [step] at hstep; cases hstep
      exact ⟨trivial, hsame (fun n => rfl) (Or.inl rfl)⟩
    | edit m =>
      obtain ⟨f, c, c', _, _, _, _, _, rfl⟩ := stepEdit_ok (by simpa [step] using hstep)
      refine ⟨trivial, fun n => ?_⟩
      simp only [batchesOp, endOf, List.foldl_nil]
      by_cases hh : 0 < m.hist
      · simp only [hh, if_true, valuesOf]
        by_cases hn : m.name = n
        · subst hn; rw [getD_set_self]; exact freshKey_trimTo (h m.name).1
        · rw [getD_set_other _ _ _ _ hn]; exact (h n).1
      · simp only [hh, if_false]; exact (h n).1
    | respond acc cbs =>
      cases acc with
      | false => simp [step] at hstep
      | true =>
        simp only [step, if_true] at hstep
        cases hstep
        have := freshCbs_of_incr s cbs K (fun n => by simpa [batchesOp] using h n)
        exact ⟨fun _ => this.1, fun n => by simpa [batchesOp] using this.2 n⟩
    | block dt cbs =>
      simp only [step] at hstep
      cases hstep
      have := freshCbs_of_incr s cbs K (fun n => by simpa [batchesOp] using h n)
      refine ⟨this.1, fun n => ?_⟩
      have e : valuesOf { applyCbs s cbs with now := (applyCbs s cbs).now + 1000000000 * dt } n
          = valuesOf (applyCbs s cbs) n := valuesOf_of_values rfl n
      rw [e]
      simpa [batchesOp] using this.2 n

/-- a history in which, per feed, the service module reports strictly increasing batch counters
above the keys stored initially has growing counters in the sense of `FreshRun` -/
theorem freshRun_of_increasing (s : State) (ops : List Op) (K : Name → Nat)
    (h : ∀ n, FreshKey (valuesOf s n) (K n) ∧ IncrFrom (K n) (batches n ops)) : FreshRun s ops := by
  induction ops generalizing s K with
  | nil => trivial
  | cons op r ih =>
    have h1 := freshOp_of_incr s op K (fun n => ⟨(h n).1, ((incrFrom_append _ _ _).1 (h n).2).1⟩)
    refine ⟨h1.1, ih (apply s op) (fun n => endOf (K n) (batchesOp n op)) (fun n => ⟨h1.2 n, ?_⟩)⟩
    exact ((incrFrom_append _ _ _).1 (h n).2).2

/-- **C17(b), stated on the operation list alone**: from the empty oracle state, every history in
which the service module's batch counters increase per feed keeps, for every feed, a prefix of all
values ever produced (newest first), at most `latestHistory` of them. -/
theorem history_is_newest_reachable (t : Nat) (ops : List Op) (n : Name)
    (hincr : ∀ m, IncrFrom 0 (batches m ops)) :
    viewOf (run { now := t } ops) n <+: log { now := t } n ops ∧ Bounded (run { now := t } ops) := by
  have hf : FreshRun { now := t } ops :=
    freshRun_of_increasing _ ops (fun _ => 0) (fun m => ⟨by intro e he; simp [valuesOf, AMap.getD] at he, hincr m⟩)
  have := history_is_newest_prefix { now := t } ops n (inv_init t) hf
  refine ⟨?_, history_bounded_reachable t ops⟩
  simpa [viewOf, valuesOf, AMap.getD, view] using this

/-- demo history used by the audit's non-vacuity evaluation: two feeds, a batch on each
(one all-negative `max` batch, one `avg` batch), an automatic pause, a shrinking edit -/
def demoOps : List Op :=
  [ .create { name := "f1", creator := "A0", agg := "max", path := "last", hist := 2, desc := "", service := "price",
              providers := ["P0", "P1"], thr := 1, timeout := 1, freq := 1, cap := .coin 100 "stake", input := "ok" },
    .create { name := "f2", creator := "A1", agg := "avg", path := "last", hist := 3, desc := "", service := "price",
              providers := ["P0", "P1"], thr := 2, timeout := 1, freq := 2, cap := .coin 100 "stake", input := "ok" },
    .start "f1" "A0", .start "f2" "A1",
    .block 5 [],
    .respond true [.done "f1" 1 1 ["n2.5", "n-1"]],
    .respond true [.done "f2" 1 2 ["n1.5", "w7"]],
    .block 5 [.done "f1" 2 1 ["n-3", "n-5"], .state "f2" .paused],
    .block 5 [.done "f1" 3 1 ["n7"], .done "f2" 2 2 ["n4"]],
    .edit { name := "f1", sender := "A0", hist := 1, providers := [], thr := 0, timeout := 0, freq := 0, cap := .empty, desc := "do-not-modify" },
    .start "f1" "A1" ]

def demo : State := run { now := 1700000000000000000 } demoOps

end Irismod.Props.C17
